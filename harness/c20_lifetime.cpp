// C20 replayer: executes the histories generated from spec/Lifetime.tla on real LAFEM containers and, after
// EVERY step, compares the real world with the world predicted by the specification:
//   aliasing classes of all arrays (chunk ids <-> pointers), the null chunk <-> nullptr, array sizes,
//   MemoryPool reference counters (hook H1), number of live chunks, contents (one token per chunk).
// Built in the `asan` variant, so use-after-free / double free / leaks inside an operation are outcomes.
#include "vharness.hpp"
#include <kernel/lafem/dense_vector.hpp>
#include <kernel/lafem/sparse_matrix_csr.hpp>
#include <kernel/lafem/sparse_layout.hpp>
#include <kernel/adjacency/graph.hpp>
#include <kernel/util/memory_pool.hpp>
#include <map>
#include <memory>

using namespace FEAT;
using namespace FEAT::LAFEM;

typedef std::uint64_t u64; typedef std::uint32_t u32;

struct ArrInfo { bool el; const void* ptr; Index n; std::size_t esize; long long tok; };

struct ISlot
{
  int fam = 0, ty = 0;   // fam 0 = dv, 1 = csr
  virtual ~ISlot() {}
  virtual std::vector<ArrInfo> arrays() const = 0;
};

template<class CT>
struct SlotT : ISlot
{
  CT c;
  SlotT() : c() {}
  explicit SlotT(CT&& x) : c(std::move(x)) {}
  std::vector<ArrInfo> arrays() const override
  {
    typedef typename CT::DataType DT; typedef typename CT::IndexType IT;
    std::vector<ArrInfo> r;
    const auto& es = c.get_elements(); const auto& ess = c.get_elements_size();
    for(std::size_t k = 0; k < es.size(); ++k)
    {
      ArrInfo a; a.el = true; a.ptr = es[k]; a.n = ess[k]; a.esize = sizeof(DT); a.tok = -1;
      if(es[k] != nullptr && ess[k] > 0)
      {
        bool same = true; for(Index t = 1; t < ess[k]; ++t) same = same && (es[k][t] == es[k][0]);
        a.tok = same ? (long long)es[k][0] : -2;
      }
      r.push_back(a);
    }
    const auto& is = c.get_indices(); const auto& iss = c.get_indices_size();
    for(std::size_t k = 0; k < is.size(); ++k) { ArrInfo a; a.el = false; a.ptr = is[k]; a.n = iss[k]; a.esize = sizeof(IT); a.tok = -1; r.push_back(a); }
    return r;
  }
};

// a SparseLayout object as a slot (fam 2): holds references to index arrays only
template<class IT>
struct LaySlot : ISlot
{
  typedef SparseLayout<IT, SparseLayoutId::lt_csr> LT;
  LT l;
  explicit LaySlot(LT&& x) : l(std::move(x)) {}
  std::vector<ArrInfo> arrays() const override
  {
    std::vector<ArrInfo> r;
    for(std::size_t k = 0; k < l._indices.size(); ++k) { ArrInfo a; a.el = false; a.ptr = l._indices[k]; a.n = l._indices_size[k]; a.esize = sizeof(IT); a.tok = -1; r.push_back(a); }
    return r;
  }
};

template<class DT, class IT> using DV = DenseVector<DT, IT>;
template<class DT, class IT> using CSR = SparseMatrixCSR<DT, IT>;

template<class T> struct Tag { typedef T type; };

// call f(Tag<ContainerType>) for the container type of (fam, ty)
template<class F> void with_type(int fam, int ty, F&& f)
{
  if(fam == 0)
  {
    if(ty == 1) f(Tag<DV<double, u64>>()); else if(ty == 2) f(Tag<DV<float, u64>>()); else f(Tag<DV<double, u32>>());
  }
  else
  {
    if(ty == 1) f(Tag<CSR<double, u64>>()); else if(ty == 2) f(Tag<CSR<float, u64>>()); else f(Tag<CSR<double, u32>>());
  }
}

static CloneMode mode_of(const std::string& m)
{
  if(m == "shallow") return CloneMode::Shallow; if(m == "layout") return CloneMode::Layout; if(m == "weak") return CloneMode::Weak;
  if(m == "deep") return CloneMode::Deep; return CloneMode::Allocate;
}

template<class DT, class IT> DV<DT, IT> create_dv(const std::string& var, long long tok)
{
  if(var == "n3") return DV<DT, IT>(Index(3), DT(tok));
  return DV<DT, IT>(Index(0));
}
template<class DT, class IT> CSR<DT, IT> create_csr(const std::string& var, long long tok)
{
  if(var == "bare") return CSR<DT, IT>(Index(2), Index(3));
  if(var == "nz0") return CSR<DT, IT>(Index(2), Index(3), Index(0));   // allocated, but with size-0 value / column index arrays
  if(var == "wide")
  {
    DenseVector<IT, IT> ci(Index(5)), rp(Index(3)); DenseVector<DT, IT> va(Index(5), DT(tok));
    ci(0, IT(0)); ci(1, IT(1)); ci(2, IT(2)); ci(3, IT(0)); ci(4, IT(2)); rp(0, IT(0)); rp(1, IT(3)); rp(2, IT(5));
    return CSR<DT, IT>(Index(2), Index(3), ci, va, rp);
  }
  DenseVector<IT, IT> ci(Index(3)), rp(Index(3)); DenseVector<DT, IT> va(Index(3), DT(tok));
  ci(0, IT(0)); ci(1, IT(2)); ci(2, IT(1)); rp(0, IT(0)); rp(1, IT(2)); rp(2, IT(3));
  return CSR<DT, IT>(Index(2), Index(3), ci, va, rp);
}
template<class CT> struct Maker;
template<class DT, class IT> struct Maker<DV<DT, IT>> { static DV<DT, IT> make(const std::string& v, long long t) { return create_dv<DT, IT>(v, t); } };
template<class DT, class IT> struct Maker<CSR<DT, IT>> { static CSR<DT, IT> make(const std::string& v, long long t) { return create_csr<DT, IT>(v, t); } };

template<class CT> struct IsCSR { static constexpr bool value = false; };
template<class DT, class IT> struct IsCSR<CSR<DT, IT>> { static constexpr bool value = true; };

struct World
{
  std::map<int, std::unique_ptr<ISlot>> slots;
  Index base_chunks = 0;
};

static std::string compare_world(const World& w, const vj::Value& pred)
{
  const vj::Value& ps = pred["slots"];
  std::map<long long, const void*> cmap; std::map<const void*, long long> pmap;
  std::size_t nslots = ps.size();
  for(std::size_t s = 0; s < nslots; ++s)
  {
    const vj::Value& e = ps[s];
    bool live = e[0].as_bool(); int sid = int(s) + 1;
    auto it = w.slots.find(sid);
    if(live != (it != w.slots.end())) return "slot " + std::to_string(sid) + ": liveness";
    if(!live) continue;
    std::vector<ArrInfo> ar = it->second->arrays();
    const vj::Value& pa = e[4];
    if(ar.size() != pa.size()) return "slot " + std::to_string(sid) + ": number of arrays " + std::to_string(ar.size()) + " expected " + std::to_string(pa.size());
    for(std::size_t k = 0; k < ar.size(); ++k)
    {
      const vj::Value& a = pa[k];
      bool el = (a[0].as_str() == "el"); long long c = a[1].as_int(), n = a[2].as_int(), off = a[3].as_int(), tok = a[4].as_int();
      std::string where = "slot " + std::to_string(sid) + " array " + std::to_string(k);
      if(el != ar[k].el) return where + ": kind";
      if(Index(n) != ar[k].n) return where + ": size " + std::to_string(ar[k].n) + " expected " + std::to_string(n);
      if((c == 0) != (ar[k].ptr == nullptr)) return where + ": null chunk <-> null pointer";
      if(c == 0) continue;
      const void* basep = static_cast<const char*>(ar[k].ptr) - std::size_t(off) * ar[k].esize;
      auto ci = cmap.find(c);
      if(ci == cmap.end())
      {
        if(pmap.count(basep)) return where + ": shares memory with chunk " + std::to_string(pmap[basep]) + " but the specification says it is a different array (chunk " + std::to_string(c) + ")";
        cmap[c] = basep; pmap[basep] = c;
      }
      else if(ci->second != basep) return where + ": does not share memory with the other holders of chunk " + std::to_string(c);
      if(el && tok >= 0 && ar[k].tok != tok) return where + ": content " + std::to_string(ar[k].tok) + " expected " + std::to_string(tok);
      if(off == 0 && MemoryPool::allocated_size(const_cast<void*>(basep)) != Index(a[5].as_int()) * ar[k].esize) return where + ": allocated size " + std::to_string(MemoryPool::allocated_size(const_cast<void*>(basep))) + " expected " + std::to_string(a[5].as_int() * (long long)ar[k].esize);
    }
  }
  // reference counters: refs is a function chunk -> count, printed as object {"c": n} (or [] when empty, or an array when the domain is 1..k)
  const vj::Value& pr = pred["refs"];
  std::size_t nref = 0;
  auto check = [&](long long c, long long refs) -> std::string {
    ++nref;
    auto ci = cmap.find(c);
    if(ci == cmap.end()) return "chunk " + std::to_string(c) + " is live in the specification but no live container refers to it";
    Index rc = MemoryPool::verif_refcount(ci->second);
    if((long long)rc != refs) return "chunk " + std::to_string(c) + ": reference counter " + std::to_string(rc) + " expected " + std::to_string(refs);
    return "";
  };
  if(pr.is_obj()) { for(const auto& kv : *pr.o) { std::string r = check(std::atoll(kv.first.c_str()), kv.second.as_int()); if(!r.empty()) return r; } }
  else if(pr.is_arr()) { for(std::size_t k = 0; k < pr.size(); ++k) { std::string r = check((long long)k + 1, pr[k].as_int()); if(!r.empty()) return r; } }
  Index live_chunks = MemoryPool::verif_num_chunks() - w.base_chunks;
  if(live_chunks != Index(nref)) return "number of live pool chunks " + std::to_string(live_chunks) + " expected " + std::to_string(nref);
  return "";
}

template<class CT> CT& cont(ISlot* s) { return static_cast<SlotT<CT>*>(s)->c; }

static void apply_step(World& w, const vj::Value& st)
{
  const std::string op = st["op"].as_str(); const vj::Value& a = st["args"];
  if(op == "create")
  {
    int s = (int)a["s"].as_int(), fam = (a["fam"].as_str() == "dv") ? 0 : 1, ty = (int)a["ty"].as_int();
    std::string var = a["var"].as_str(); long long tok = -1;
    // the token of a fresh container is in the predicted world (first element array)
    const vj::Value& pa = st["world"]["slots"][std::size_t(s - 1)][4];
    for(std::size_t k = 0; k < pa.size(); ++k) if(pa[k][0].as_str() == "el" && pa[k][4].as_int() >= 0) tok = pa[k][4].as_int();
    if(tok < 0) tok = 1;
    with_type(fam, ty, [&](auto tag) {
      typedef typename decltype(tag)::type CT;
      auto* p = new SlotT<CT>(Maker<CT>::make(var, tok)); p->fam = fam; p->ty = ty; w.slots[s].reset(p);
    });
    return;
  }
  if(op == "clear") { int s = (int)a["s"].as_int(); ISlot* p = w.slots.at(s).get(); with_type(p->fam, p->ty, [&](auto tag) { typedef typename decltype(tag)::type CT; cont<CT>(p).clear(); }); return; }
  if(op == "destroy") { w.slots.erase((int)a["s"].as_int()); return; }
  if(op == "poke")
  {
    int s = (int)a["s"].as_int(); long long tok = a["tok"].as_int(); ISlot* p = w.slots.at(s).get();
    with_type(p->fam, p->ty, [&](auto tag) { typedef typename decltype(tag)::type CT; cont<CT>(p).format(typename CT::DataType(tok)); });
    return;
  }
  int src = (int)a["src"].as_int(), dst = (int)a["dst"].as_int();
  ISlot* ps = w.slots.at(src).get();
  if(op == "move" || op == "movector")
  {
    with_type(ps->fam, ps->ty, [&](auto tag) {
      typedef typename decltype(tag)::type CT;
      if(op == "move") cont<CT>(w.slots.at(dst).get()).move(std::move(cont<CT>(ps)));
      else { auto* p = new SlotT<CT>(std::move(cont<CT>(ps))); p->fam = ps->fam; p->ty = ps->ty; w.slots[dst].reset(p); }
    });
    return;
  }
  if(op == "range")
  {
    with_type(0, ps->ty, [&](auto tag) {
      typedef typename decltype(tag)::type CT;
      if constexpr (!IsCSR<CT>::value) { auto* p = new SlotT<CT>(CT(cont<CT>(ps), Index(2), Index(1))); p->fam = 0; p->ty = ps->ty; w.slots[dst].reset(p); }
    });
    return;
  }
  if(op == "takelayout")
  {
    with_type(1, ps->ty, [&](auto tags) {
      typedef typename decltype(tags)::type CS;
      if constexpr (IsCSR<CS>::value)
      {
        typedef typename CS::IndexType IT;
        // L = M.layout(), then stored by MOVE construction (as when kept in a std::vector or a member)
        SparseLayout<IT, SparseLayoutId::lt_csr> tmp(cont<CS>(ps).layout());
        auto* p = new LaySlot<IT>(std::move(tmp)); p->fam = 2; p->ty = std::is_same<IT, u64>::value ? 1 : 3; w.slots[dst].reset(p);
      }
    });
    return;
  }
  if(op == "movelayout")
  {
    if(ps->ty == 1) static_cast<LaySlot<u64>*>(w.slots.at(dst).get())->l = std::move(static_cast<LaySlot<u64>*>(ps)->l);
    else static_cast<LaySlot<u32>*>(w.slots.at(dst).get())->l = std::move(static_cast<LaySlot<u32>*>(ps)->l);
    return;
  }
  if(op == "assignlayout")
  {
    ISlot* pd = w.slots.at(dst).get();
    with_type(1, pd->ty, [&](auto tagd) {
      typedef typename decltype(tagd)::type CD;
      if constexpr (IsCSR<CD>::value)
      {
        typedef typename CD::IndexType IT;
        cont<CD>(pd) = static_cast<LaySlot<IT>*>(ps)->l;
      }
    });
    return;
  }
  int ty2 = (int)a["ty"].as_int();
  if(op == "fromlayout" && ps->fam == 2)
  {
    with_type(1, ty2, [&](auto tagd) {
      typedef typename decltype(tagd)::type CD;
      if constexpr (IsCSR<CD>::value)
      {
        typedef typename CD::IndexType IT;
        if((ps->ty == 1) == std::is_same<IT, u64>::value)
        { auto* p = new SlotT<CD>(CD(static_cast<LaySlot<IT>*>(ps)->l)); p->fam = 1; p->ty = ty2; w.slots[dst].reset(p); }
      }
    });
    return;
  }
  if(op == "fromlayout")
  {
    with_type(1, ps->ty, [&](auto tags) {
      typedef typename decltype(tags)::type CS;
      with_type(1, ty2, [&](auto tagd) {
        typedef typename decltype(tagd)::type CD;
        if constexpr (IsCSR<CS>::value && IsCSR<CD>::value && std::is_same<typename CS::IndexType, typename CD::IndexType>::value)
        { auto* p = new SlotT<CD>(CD(cont<CS>(ps).layout())); p->fam = 1; p->ty = ty2; w.slots[dst].reset(p); }
      });
    });
    return;
  }
  // clone / convert: (src type, dst type) within one family
  bool fresh = a["fresh"].as_bool();
  with_type(ps->fam, ps->ty, [&](auto tags) {
    typedef typename decltype(tags)::type CS;
    with_type(ps->fam, ty2, [&](auto tagd) {
      typedef typename decltype(tagd)::type CD;
      if constexpr (IsCSR<CS>::value == IsCSR<CD>::value)
      {
        if(fresh) { auto* p = new SlotT<CD>(); p->fam = ps->fam; p->ty = ty2; w.slots[dst].reset(p); }
        CD& d = cont<CD>(w.slots.at(dst).get());
        if(op == "clone") d.clone(cont<CS>(ps), mode_of(a["mode"].as_str()));
        else d.convert(cont<CS>(ps));
      }
    });
  });
}

vj::Value run_case(const vj::Value& c)
{
  World w; w.base_chunks = MemoryPool::verif_num_chunks();
  const vj::Value& steps = c["steps"];
  for(std::size_t k = 0; k < steps.size(); ++k)
  {
    apply_step(w, steps[k]);
    std::string r = compare_world(w, steps[k]["world"]);
    if(!r.empty())
    {
      vj::Value res = vh::bad("step " + std::to_string(k + 1) + " (" + steps[k]["op"].as_str() + "): " + r);
      res["step"] = (long long)(k + 1); res["op"] = steps[k]["op"].as_str();
      // release in a safe order before the next case: ranged slices first
      return res;
    }
  }
  // EmptyAtEnd: destroy what is left (slots whose arrays are foreign first, their owners afterwards) - the pool must be back at its baseline
  const vj::Value& last = steps[steps.size() - 1]["world"]["slots"];
  for(std::size_t s = 0; s < last.size(); ++s) if(last[s][0].as_bool() && last[s][3].as_bool()) w.slots.erase(int(s) + 1);
  w.slots.clear();
  if(MemoryPool::verif_num_chunks() != w.base_chunks)
    return vh::bad("after destroying all containers the memory pool still holds " + std::to_string(MemoryPool::verif_num_chunks() - w.base_chunks) + " chunk(s)");
  return vh::ok();
}

int main(int argc, char** argv) { return vh::main_loop(argc, argv); }
