// C13 MPI replayer, grid transfer across process layers (cases from spec/Gen_XferLayers.tla, kind "xfer"):
// Global::Transfer<LAFEM::Transfer<SparseMatrixCSR>, VectorMirror> over a Global::Muxer with GHOST processes.
//   every rank:  fine gate (all ranks), sibling communicator of its group (comm_split), muxer (parent mirror; the parent
//                also gets the child mirrors of all members), local prolongation / restriction / truncation matrices
//   parents:     coarse gate on the communicator of the parents; rest / trunc / prol
//   ghosts:      rest_send / trunc_send / prol_recv
// All data (patches in their local numbering, mirrors, matrices, vectors, expected results = the single-process results)
// come from the specification; the harness builds the objects, makes the collective calls and compares exactly (integers).
// Passes: 0 every rank uses its muxer; 1 ranks whose group has one member use a Transfer WITHOUT muxer (nullptr), the
// documented equivalent; 2 as pass 0 on a clone() of the transfer (pass 0 again: the operations must be repeatable).
//
// run as:  mpirun -np <nr> c13_xfer --cases FILE [--start K]
#include "vmpi.hpp"
#include <kernel/global/gate.hpp>
#include <kernel/global/vector.hpp>
#include <kernel/global/muxer.hpp>
#include <kernel/global/transfer.hpp>
#include <kernel/lafem/dense_vector.hpp>
#include <kernel/lafem/vector_mirror.hpp>
#include <kernel/lafem/sparse_matrix_csr.hpp>
#include <kernel/lafem/transfer.hpp>
#include <algorithm>
#include <cmath>

using namespace FEAT;
typedef double DT; typedef Index IT;
typedef LAFEM::DenseVector<DT, IT> LVec;
typedef LAFEM::VectorMirror<DT, IT> Mirror;
typedef LAFEM::SparseMatrixCSR<DT, IT> LMat;
typedef LAFEM::Transfer<LMat> LTra;
typedef Global::Gate<LVec, Mirror> GateT;
typedef Global::Vector<LVec, Mirror> GVec;
typedef Global::Muxer<LVec, Mirror> GMux;
typedef Global::Transfer<LTra, Mirror> GTra;
using vmpi::key;

static Mirror mk_mirror(const vj::Value& idx, Index size)
{
  const std::vector<long long> v = idx.ints();
  Mirror m(size, Index(v.size()));
  for(std::size_t k = 0; k < v.size(); ++k) m.indices()[k] = IT(v[k]);
  return m;
}
static LVec mk_vec(const vj::Value& a)
{
  const std::vector<long long> v = a.ints();
  LVec r(Index(v.size()));
  for(std::size_t k = 0; k < v.size(); ++k) r(Index(k), DT(v[k]));
  return r;
}
// dense rows -> CSR (full pattern, ascending column indices)
static LMat mk_mat(const vj::Value& rows, Index nrow, Index ncol)
{
  LAFEM::DenseVector<IT, IT> ci(nrow * ncol), rp(nrow + 1); LVec va(nrow * ncol);
  for(Index i = 0; i < nrow; ++i)
  {
    rp(i, IT(i * ncol));
    for(Index j = 0; j < ncol; ++j) { ci(i * ncol + j, IT(j)); va(i * ncol + j, DT(rows[i][std::size_t(j)].as_int())); }
  }
  rp(nrow, IT(nrow * ncol));
  return LMat(nrow, ncol, ci, va, rp);
}
static std::string vstr(const LVec& v) { std::string s = "["; for(Index i = 0; i < v.size(); ++i) { char b[40]; std::snprintf(b, sizeof(b), "%s%.17g", i ? "," : "", v(i)); s += b; } return s + "]"; }
static bool veq(const LVec& got, const LVec& exp) { if(got.size() != exp.size()) return false; for(Index i = 0; i < got.size(); ++i) if(got(i) != exp(i)) return false; return true; }

static std::string run_case(const vj::Value& c, const Dist::Comm& comm)
{
  vmpi::Fail fail(comm.rank());
  if(c["kind"].as_str() != "xfer") { fail("harness: unknown case kind"); return fail.why; }
  const int me = comm.rank(), nr = comm.size();
  const bool parent = c["isparent"][key(me)].as_bool();
  const int prank = int(c["prank"][key(me)].as_int()), srank = int(c["srank"][key(me)].as_int());
  const std::vector<long long> members = c["members"][key(me)].ints();
  const bool single = members.size() == 1u;
  const Index nfine = Index(c["fdofs"][key(me)].size()), nchild = Index(c["cdofs"][key(me)].size()), npar = Index(c["pdofs"][key(me)].size());

  // communicators: siblings of the group; the parents
  Dist::Comm sib = comm.comm_split(int(c["grp"][key(me)].as_int()), me);
  Dist::Comm pcomm = comm.comm_split(parent ? 0 : 1, me);
  if(sib.rank() != srank || sib.size() != int(members.size())) { fail("harness: sibling communicator does not match the case"); return fail.why; }
  if((sib.rank() == prank) != parent) { fail("harness: parent flag does not match the case"); return fail.why; }

  // fine gate over all ranks
  GateT fgate(comm);
  for(int s = 0; s < nr; ++s)
  {
    if(s == me || c["fmir"][key(me)][key(s)].size() == 0u) continue;
    fgate.push(s, mk_mirror(c["fmir"][key(me)][key(s)], nfine));
  }
  fgate.compile(LVec(nfine));
  // coarse gate over the parents (rank in the parents' communicator = number of parents with a smaller world rank)
  GateT cgate(pcomm);
  if(parent)
  {
    int q = 0;
    for(int s = 0; s < nr; ++s)
    {
      if(!c["isparent"][key(s)].as_bool()) continue;
      if(s != me && c["pmir"][key(me)][key(s)].size() != 0u) cgate.push(q, mk_mirror(c["pmir"][key(me)][key(s)], npar));
      ++q;
    }
    cgate.compile(LVec(npar));
  }
  // muxer: parent mirror on every child (child vector -> buffer), child mirrors on the parent (buffer -> parent vector)
  GMux mux;
  mux.set_parent(&sib, prank, mk_mirror(c["muxc"][key(me)], nchild));
  if(parent) for(long long m : members) mux.push_child(mk_mirror(c["muxp"][key(int(m))], npar));
  mux.compile(LVec(nchild));
  if(mux.is_parent() != parent || mux.is_ghost() != !parent || !mux.is_child()) fail("Muxer::is_parent/is_ghost/is_child");

  const LVec f = mk_vec(c["f"][key(me)]), cc = mk_vec(c["c"][key(me)]);
  const LVec erest = mk_vec(c["rest"][key(me)]), etrunc = mk_vec(c["trunc"][key(me)]), eprol = mk_vec(c["prol"][key(me)]);
  auto mats = [&](const char* w, Index r, Index cl) { return mk_mat(c[w][key(me)], r, cl); };

  GTra tra_mux(&mux, mats("pmat", nfine, nchild), mats("rmat", nchild, nfine), mats("tmat", nchild, nfine));
  GTra tra_nomux(nullptr, mats("pmat", nfine, nchild), mats("rmat", nchild, nfine), mats("tmat", nchild, nfine));
  GTra tra_clone = tra_mux.clone(LAFEM::CloneMode::Deep);
  if(tra_mux.is_ghost() != !parent) fail("Transfer::is_ghost");

  for(int pass = 0; pass < 3; ++pass)
  {
    const GTra& tra = (pass == 1 && single) ? tra_nomux : (pass == 2 ? tra_clone : tra_mux);
    const std::string tag = std::string(pass == 1 ? (single ? " [no muxer]" : " [pass 1]") : (pass == 2 ? " [clone]" : ""));
    GVec vf(&fgate, f.clone(LAFEM::CloneMode::Deep));
    const GVec& cvf = vf;
    // --- restriction --------------------------------------------------------------------------------------------
    if(parent)
    {
      GVec vc(&cgate, LVec(npar, DT(-77)));
      if(!tra.rest(cvf, vc)) fail("Transfer::rest" + tag + " returned false");
      if(!veq(vc.local(), erest)) fail("Transfer::rest" + tag + " gives " + vstr(vc.local()) + " expected " + vstr(erest));
    }
    else if(!tra.rest_send(cvf)) fail("Transfer::rest_send" + tag + " returned false");
    if(!veq(vf.local(), f)) fail("Transfer::rest/rest_send" + tag + " modified the fine vector");
    // --- truncation ---------------------------------------------------------------------------------------------
    if(parent)
    {
      GVec vc(&cgate, LVec(npar, DT(-77)));
      if(!tra.trunc(cvf, vc)) fail("Transfer::trunc" + tag + " returned false");
      if(!veq(vc.local(), etrunc)) fail("Transfer::trunc" + tag + " gives " + vstr(vc.local()) + " expected " + vstr(etrunc));
    }
    else if(!tra.trunc_send(cvf)) fail("Transfer::trunc_send" + tag + " returned false");
    if(!veq(vf.local(), f)) fail("Transfer::trunc/trunc_send" + tag + " modified the fine vector");
    // --- prolongation -------------------------------------------------------------------------------------------
    {
      GVec vp(&fgate, LVec(nfine, DT(-77)));
      if(parent)
      {
        GVec vc(&cgate, cc.clone(LAFEM::CloneMode::Deep));
        const GVec& cvc = vc;
        if(!tra.prol(vp, cvc)) fail("Transfer::prol" + tag + " returned false");
        if(!veq(vc.local(), cc)) fail("Transfer::prol" + tag + " modified the coarse vector");
      }
      else if(!tra.prol_recv(vp)) fail("Transfer::prol_recv" + tag + " returned false");
      if(!veq(vp.local(), eprol)) fail(std::string("Transfer::") + (parent ? "prol" : "prol_recv") + tag + " gives " + vstr(vp.local()) + " expected " + vstr(eprol));
    }
    // --- restriction once more after the other operations (the temporary vector is shared between them) ------------------
    if(parent)
    {
      GVec vc(&cgate, LVec(npar, DT(-77)));
      tra.rest(cvf, vc);
      if(!veq(vc.local(), erest)) fail("Transfer::rest" + tag + " (after trunc and prol) gives " + vstr(vc.local()) + " expected " + vstr(erest));
    }
    else tra.rest_send(cvf);
  }
  return fail.why;
}

int main(int argc, char** argv) { return vmpi::main_loop(argc, argv, &run_case); }
