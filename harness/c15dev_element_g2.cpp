#define C15_GROUP 2
#include "c15dev_element.cpp"
