// C17 harness, level "real jobs": the assembly jobs FEAT itself ships (bilinear operator matrix 1/2, linear / force
// functional vector, analytic / discrete / error / cell-error function integrals, Burgers scalar + blocked matrix and
// vector jobs) are executed by the real Assembly::DomainAssembler
//   (a) on the calling thread only (max_worker_threads = 0)  -- the sequential meaning of ThreadAsm.tla:
//       every cell is prepared/assembled/scattered exactly once and every task is combined exactly once, and
//   (b) with worker threads under the requested strategy, `reps` times,
// and every output of (b) must agree with (a) up to the reordering of a floating point sum (see tol below):
// a lost update, a cell assembled twice or not at all, or a task combined twice or not at all changes an
// output by a whole contribution, which is orders of magnitude above that bound.
// Built with the tsan variant the same runs report physical data races of the job code itself.
//
// case:   {"level": L, "strategy": "layered"|"layered_sorted"|"colored"|"automatic", "maxw": n, "reps": r, "jobs": [names]|absent}
// result: ok / why, "W": resolved worker count, "jobs": number of job executions compared
#include "vharness.hpp"
#include <kernel/geometry/conformal_mesh.hpp>
#include <kernel/geometry/common_factories.hpp>
#include <kernel/trafo/standard/mapping.hpp>
#include <kernel/space/lagrange1/element.hpp>
#include <kernel/space/lagrange2/element.hpp>
#include <kernel/analytic/common.hpp>
#include <kernel/analytic/wrappers.hpp>
#include <thread>
#include <kernel/assembly/domain_assembler.hpp>
#include <kernel/assembly/domain_assembler_helpers.hpp>
#include <kernel/assembly/burgers_assembly_job.hpp>
#include <kernel/assembly/common_operators.hpp>
#include <kernel/assembly/common_functionals.hpp>
#include <kernel/assembly/symbolic_assembler.hpp>
#include <kernel/assembly/interpolator.hpp>
#include <kernel/lafem/dense_vector.hpp>
#include <kernel/lafem/dense_vector_blocked.hpp>
#include <kernel/lafem/sparse_matrix_csr.hpp>
#include <kernel/lafem/sparse_matrix_bcsr.hpp>
#include <cmath>
#include <map>
#include <set>

using namespace FEAT;

typedef Shape::Hypercube<2> ShapeType;
typedef Geometry::ConformalMesh<ShapeType> MeshType;
typedef Trafo::Standard::Mapping<MeshType> TrafoType;
typedef Space::Lagrange1::Element<TrafoType> SpaceQ1;
typedef Space::Lagrange2::Element<TrafoType> SpaceQ2;
typedef LAFEM::DenseVector<double, Index> Vec;
typedef LAFEM::DenseVectorBlocked<double, Index, 2> VecB;
typedef LAFEM::SparseMatrixCSR<double, Index> Mat;
typedef LAFEM::SparseMatrixBCSR<double, Index, 2, 2> MatB;
typedef std::vector<double> Out;
typedef std::map<std::string, Out> Outs;

template<class FI> static void put_info(Out& o, const FI& f)
{
  o.push_back(double(f.value)); o.push_back(f.grad[0]); o.push_back(f.grad[1]);
  o.push_back(f.norm_h0_sqr); o.push_back(f.norm_h1_sqr); o.push_back(f.norm_l1); o.push_back(f.norm_lmax);
}
// every field of a function integral result, scalar or vector valued (component-wise norms, divergence / vorticity norms)
static void put_any(Out& o, double x) { o.push_back(x); }
template<int n> static void put_any(Out& o, const Tiny::Vector<double, n>& x) { for(int i(0); i < n; ++i) o.push_back(x[i]); }
template<int m, int n> static void put_any(Out& o, const Tiny::Matrix<double, m, n>& x) { for(int i(0); i < m; ++i) for(int j(0); j < n; ++j) o.push_back(x[i][j]); }
template<class FI> static void put_info_all(Out& o, const FI& f)
{
  put_any(o, f.value); put_any(o, f.grad);
  o.push_back(f.norm_h0_sqr); o.push_back(f.norm_h1_sqr); o.push_back(f.norm_l1); o.push_back(f.norm_lmax);
  put_any(o, f.norm_h0_sqr_comp); put_any(o, f.norm_h1_sqr_comp); put_any(o, f.norm_l1_comp); put_any(o, f.norm_lmax_comp);
  o.push_back(f.divergence_l2_sqr); o.push_back(f.vorticity_l2_sqr);
}
static void put_vec(Out& o, const Vec& v) { for(Index i(0); i < v.size(); ++i) o.push_back(v(i)); }
static void put_vecb(Out& o, const VecB& v) { const double* p = v.template elements<LAFEM::Perspective::pod>(); for(Index i(0); i < v.template size<LAFEM::Perspective::pod>(); ++i) o.push_back(p[i]); }
static void put_mat(Out& o, const Mat& m) { const double* p = m.val(); for(Index i(0); i < m.used_elements(); ++i) o.push_back(p[i]); }
static void put_matb(Out& o, const MatB& m) { const double* p = m.template val<LAFEM::Perspective::pod>(); for(Index i(0); i < m.template used_elements<LAFEM::Perspective::pod>(); ++i) o.push_back(p[i]); }

// an analytic function whose EVALUATOR keeps scratch state between writing and reading it (as parsed / interpolated functions
// do): evaluators are per-task objects by design, so every worker thread must own its evaluator
class StatefulFunction : public Analytic::Function
{
public:
  static constexpr int domain_dim = 2;
  typedef Analytic::Image::Scalar ImageType;
  static constexpr bool can_value = true, can_grad = false, can_hess = false;
  template<typename Traits_> class Evaluator : public Analytic::Function::Evaluator<Traits_>
  {
  public:
    typedef typename Traits_::PointType PointType; typedef typename Traits_::ValueType ValueType;
    double scratch[2];
    explicit Evaluator(const StatefulFunction&) { scratch[0] = scratch[1] = 0.0; }
    ValueType value(const PointType& p)
    {
      scratch[0] = double(p[0]); scratch[1] = double(p[1]);
      std::this_thread::yield();
      return ValueType(1.0 + scratch[0] * (2.0 - scratch[1]) + 3.0 * scratch[1] * scratch[1]);
    }
  };
};

struct World
{
  MeshType mesh; TrafoType trafo; SpaceQ1 q1; SpaceQ2 q2;
  Analytic::Common::SineBubbleFunction<2> sine; Analytic::Common::ExpBubbleFunction<2> expb;
  Vec u1, u2; VecB conv; Mat a1, a12; MatB ab;
  static MeshType make_mesh(int level) { Geometry::RefinedUnitCubeFactory<MeshType> f{Index(level)}; return MeshType(f); }
  explicit World(int level) : mesh(make_mesh(level)), trafo(mesh), q1(trafo), q2(trafo)
  {
    // slightly perturbed coefficient vectors so that the discrete function is not the interpolant itself
    Assembly::Interpolator::project(u1, expb, q1);
    for(Index i(0); i < u1.size(); ++i) u1(i, u1(i) + 0.125 * std::sin(double(3 * i + 1)));
    Assembly::Interpolator::project(u2, sine, q2);
    conv = VecB(q2.get_num_dofs());
    for(Index i(0); i < conv.size(); ++i) { Tiny::Vector<double, 2> t; t[0] = 1.0 + 0.5 * std::cos(double(i)); t[1] = -0.5 + 0.25 * std::sin(double(2 * i)); conv(i, t); }
    Assembly::SymbolicAssembler::assemble_matrix_std1(a1, q1);
    Assembly::SymbolicAssembler::assemble_matrix_std2(a12, q2, q1);
    Assembly::SymbolicAssembler::assemble_matrix_std1(ab, q2);
  }
};

static const char* all_jobs[] = { "matrix1", "matrix2", "linfunc", "force", "analytic", "discrete", "error", "error2", "cellerror",
                                  "vanalytic", "vdiscrete", "verror", "force_stateful", "analytic_stateful",
                                  "burgers_smat", "burgers_svec", "burgers_bmat", "burgers_bvec" };

static Out run_job(const std::string& name, World& w, Assembly::DomainAssembler<TrafoType>& da)
{
  Out o; const String cub("gauss-legendre:3");
  if(name == "matrix1")
  {
    Mat m = w.a1.clone(LAFEM::CloneMode::Layout); m.format();
    Assembly::Common::LaplaceOperator op;
    Assembly::assemble_bilinear_operator_matrix_1(da, m, op, w.q1, cub, 0.5);
    put_mat(o, m);
  }
  else if(name == "matrix2")
  {
    Mat m = w.a12.clone(LAFEM::CloneMode::Layout); m.format();
    Assembly::Common::IdentityOperator op;
    Assembly::assemble_bilinear_operator_matrix_2(da, m, op, w.q2, w.q1, cub);
    put_mat(o, m);
  }
  else if(name == "linfunc")
  {
    Vec v(w.q1.get_num_dofs()); v.format();
    Assembly::Common::LaplaceFunctional<decltype(w.sine)> f(w.sine);
    Assembly::assemble_linear_functional_vector(da, v, f, w.q1, cub, 2.0);
    put_vec(o, v);
  }
  else if(name == "force")
  {
    Vec v(w.q2.get_num_dofs()); v.format();
    Assembly::assemble_force_function_vector(da, v, w.expb, w.q2, cub);
    put_vec(o, v);
  }
  else if(name == "force_stateful")
  {
    Vec v(w.q2.get_num_dofs()); v.format();
    StatefulFunction sf;
    Assembly::assemble_force_function_vector(da, v, sf, w.q2, cub);
    put_vec(o, v);
  }
  else if(name == "analytic_stateful")
  {
    StatefulFunction sf;
    put_info(o, Assembly::integrate_analytic_function<0, double>(da, sf, cub));
  }
  else if(name == "analytic")
    put_info(o, Assembly::integrate_analytic_function<1, double>(da, w.expb, cub));
  else if(name == "discrete")
    put_info(o, Assembly::integrate_discrete_function<1>(da, w.u1, w.q1, cub));
  else if(name == "error")
    put_info(o, Assembly::integrate_error_function<1>(da, w.expb, w.u1, w.q1, cub));
  else if(name == "error2")
    put_info(o, Assembly::integrate_error_function<1>(da, w.sine, w.u2, w.q2, cub));
  else if(name == "vanalytic")
  {
    // vector valued integrands: the component-wise norms are combined per component (sums, and a MAXIMUM for the Lmax norm)
    Analytic::Gradient<decltype(w.sine)> vf(w.sine);
    put_info_all(o, Assembly::integrate_analytic_function<1, double>(da, vf, cub));
  }
  else if(name == "vdiscrete")
    put_info_all(o, Assembly::integrate_discrete_function<1>(da, w.conv, w.q2, cub));
  else if(name == "verror")
  {
    Analytic::Gradient<decltype(w.expb)> vf(w.expb);
    put_info_all(o, Assembly::integrate_error_function<1>(da, vf, w.conv, w.q2, cub));
  }
  else if(name == "cellerror")
  {
    Assembly::CellErrorFunctionIntegralJob<decltype(w.expb), Vec, SpaceQ1, 1> job(w.expb, w.u1, w.q1, cub);
    da.assemble(job);
    auto r = job.result();
    put_info(o, r.integral_info);
    const double* p = r.vec.template elements<LAFEM::Perspective::pod>();
    for(Index i(0); i < r.vec.template size<LAFEM::Perspective::pod>(); ++i) o.push_back(p[i]);
  }
  else if(name == "burgers_smat" || name == "burgers_svec")
  {
    if(name == "burgers_smat")
    {
      Mat m = Mat(); Assembly::SymbolicAssembler::assemble_matrix_std1(m, w.q2); m.format();
      Assembly::BurgersScalarMatrixAssemblyJob<Mat, SpaceQ2, VecB> job(m, w.conv, w.q2, cub);
      job.nu = 0.5; job.beta = 1.0; job.theta = 0.25; job.sd_delta = 0.125; job.sd_nu = 0.5; job.sd_v_norm = job.calc_sd_v_norm(w.conv);
      da.assemble(job); put_mat(o, m);
    }
    else
    {
      Vec v(w.q2.get_num_dofs()); v.format();
      Assembly::BurgersScalarVectorAssemblyJob<Vec, SpaceQ2, VecB> job(v, w.u2, w.conv, w.q2, cub);
      job.nu = 0.5; job.beta = 1.0; job.theta = 0.25;
      da.assemble(job); put_vec(o, v);
    }
  }
  else if(name == "burgers_bmat")
  {
    MatB m = w.ab.clone(LAFEM::CloneMode::Layout); m.format();
    Assembly::BurgersBlockedMatrixAssemblyJob<MatB, SpaceQ2, VecB> job(m, w.conv, w.q2, cub);
    job.deformation = true; job.nu = 0.5; job.beta = 1.0; job.frechet_beta = 0.5; job.theta = 0.25;
    da.assemble(job); put_matb(o, m);
  }
  else if(name == "burgers_bvec")
  {
    VecB v(w.q2.get_num_dofs()); v.format();
    Assembly::BurgersBlockedVectorAssemblyJob<VecB, SpaceQ2, VecB> job(v, w.conv, w.conv, w.q2, cub);
    job.deformation = true; job.nu = 0.5; job.beta = 1.0; job.theta = 0.25;
    da.assemble(job); put_vecb(o, v);
  }
  else
    throw std::runtime_error("unknown job " + name);
  return o;
}

static Assembly::ThreadingStrategy strategy_of(const std::string& s)
{
  if(s == "layered") return Assembly::ThreadingStrategy::layered;
  if(s == "layered_sorted") return Assembly::ThreadingStrategy::layered_sorted;
  if(s == "colored") return Assembly::ThreadingStrategy::colored;
  if(s == "single") return Assembly::ThreadingStrategy::single;
  return Assembly::ThreadingStrategy::automatic;
}

vj::Value run_case(const vj::Value& c)
{
  const int level = int(c["level"].as_int());
  const int reps = int(c["reps"].as_int());
  std::vector<std::string> jobs;
  if(c.has("jobs")) for(std::size_t i = 0; i < c["jobs"].size(); ++i) jobs.push_back(c["jobs"][i].as_str());
  else for(const char* j : all_jobs) jobs.push_back(j);
  World w(level);
  // (a) the sequential meaning
  Outs ref;
  {
    Assembly::DomainAssembler<TrafoType> da(w.trafo);
    da.compile_all_elements();
    for(const auto& j : jobs) ref[j] = run_job(j, w, da);
  }
  // (b) worker threads
  Assembly::DomainAssembler<TrafoType> da(w.trafo);
  da.set_max_worker_threads(std::size_t(c["maxw"].as_int()));
  da.set_threading_strategy(strategy_of(c["strategy"].as_str()));
  da.compile_all_elements();
  const long W = long(da.get_num_worker_threads());
  long njobs = 0;
  for(int r = 0; r < reps; ++r)
  {
    for(const auto& j : jobs)
    {
      Out got = run_job(j, w, da);
      const Out& exp = ref[j];
      ++njobs;
      if(got.size() != exp.size())
      {
        vj::Value v = vh::bad(j + ": output size " + std::to_string(got.size()) + " != " + std::to_string(exp.size()));
        v["W"] = W; v["job"] = j; return v;
      }
      double scale = 0.0;
      for(double x : exp) scale = std::max(scale, std::fabs(x));
      // a sum of n terms evaluated in two orders differs by at most ~ n eps sum|terms|; the sums here have at most
      // (#cells x #points) terms for the integrals and <= 16 terms per matrix/vector entry
      const double tol = 1e-10 * std::max(scale, 1e-300);
      for(std::size_t i = 0; i < exp.size(); ++i)
      {
        const double d = std::fabs(got[i] - exp[i]);
        if(!(d <= tol))
        {
          char buf[256];
          std::snprintf(buf, sizeof(buf), ": output[%zu] = %.17g with %ld workers, %.17g sequentially (diff %.3g, allowed %.3g), repetition %d",
                        i, got[i], W, exp[i], d, tol, r);
          vj::Value v = vh::bad(j + buf);
          v["W"] = W; v["job"] = j; return v;
        }
      }
    }
  }
  vj::Value v = vh::ok();
  v["W"] = W; v["jobs"] = njobs;
  return v;
}

int main(int argc, char** argv) { return vh::main_loop(argc, argv); }
