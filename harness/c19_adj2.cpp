// C19 replayer for adjactor expressions of one or two operands (spec/AdjacencyOps.tla, N = 1, 2): every operand class x
// every operand class through CompositeAdjactor, Graph / DynamicGraph render constructors and DynamicGraph::compose.
#include "vc19adj.hpp"
using namespace c19;

template<class A>
static vj::Value run_one(const vj::Value& c, const A& a)
{
  Fail f;
  if(!check_operand(a, c["ops"][0], f, "1")) return report(f);
  if(!check_single(a, c, f, "e")) return report(f);
  return vh::ok();
}

template<class A, class B>
static vj::Value run_two(const vj::Value& c, const A& a, const B& b)
{
  Fail f;
  if(!check_operand(a, c["ops"][0], f, "1")) return report(f);
  if(!check_operand(b, c["ops"][1], f, "2")) return report(f);
  CompositeAdjactor<A, B> e(a, b);
  if(!check_iter(e, c["nd"].as_int(), c["ni"].as_int(), c["L"].int_rows(), f, "CompositeAdjactor(a, b)")) return report(f);
  if(!check_single(e, c, f, "a*b")) return report(f);
  if(c["eq2"]["flat"].as_bool() && !check_double(a, b, c, f, "a, b")) return report(f);
  return vh::ok();
}

vj::Value run_case(const vj::Value& c)
{
  if(c["op"].as_str() != "adjexpr") return vh::bad("unknown op");
  const vj::Value& ops = c["ops"];
  if(ops.size() == 1)
    return with_operand<true>(ops[0], [&](const auto& a) { return run_one(c, a); });
  if(ops.size() == 2)
    return with_operand<true>(ops[0], [&](const auto& a) {
      return with_operand<true>(ops[1], [&](const auto& b) { return run_two(c, a, b); }); });
  return vh::bad("chains of three operands are replayed by c19_adj3");
}

int main(int argc, char** argv) { return vh::main_loop(argc, argv); }
