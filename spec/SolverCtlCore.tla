---------------------------- MODULE SolverCtlCore ----------------------------
(* C07: the decision procedure of Solver::IterativeSolver, transcribed branch  *)
(* by branch from kernel/solver/iterative.hpp and parameterised by the         *)
(* OUTCOMES of the floating point comparisons.  Shared by SolverCtl.tla (M, G: *)
(* outcomes computed from integer defects / dyadic tolerances) and             *)
(* Trace_SolverCtl.tla (V: outcomes recomputed from the doubles of real runs). *)
EXTENDS Integers

\* _set_initial_defect: isfinite -> (< tol_abs_low) -> (<= eps^2) -> progress
InitAnalyseB(fin, tinyLow, tinyEps) ==
  IF ~fin THEN "aborted" ELSE IF tinyLow THEN "success" ELSE IF tinyEps THEN "success" ELSE "progress"

\* _analyse_defect(num_iter, def_cur, def_prev, check_stag = true):
\* isfinite -> is_diverged -> min_iter -> is_converged -> max_iter -> stagnation counter
AnalyseB(minIter, maxIter, minStag, ni, ns, fin, div, conv, stagStep) ==
  IF ~fin THEN [st |-> "aborted", ns |-> ns]
  ELSE IF div THEN [st |-> "diverged", ns |-> ns]
  ELSE IF ni < minIter THEN [st |-> "progress", ns |-> ns]
  ELSE IF conv THEN [st |-> "success", ns |-> ns]
  ELSE IF ni >= maxIter THEN [st |-> "max_iter", ns |-> ns]
  ELSE IF minStag > 0
       THEN IF stagStep
            THEN IF ns + 1 >= minStag THEN [st |-> "stagnated", ns |-> ns + 1] ELSE [st |-> "progress", ns |-> ns + 1]
            ELSE [st |-> "progress", ns |-> 0]
       ELSE [st |-> "progress", ns |-> ns]

\* _set_new_defect computes the norm only if it can influence anything (plot mode none)
CalcDefB(skip, minIter, maxIter, minStag) == ~skip \/ minIter < maxIter \/ minStag > 0
=============================================================================
