----------------------------- MODULE MeshFileBin -----------------------------
(* C11, third part: binary serialisation of Adjacency::Graph (kernel/adjacency/graph.cpp).                            *)
(* A graph is (nd domain nodes, ni image nodes, adjacency lists); its CSR form is ptr (nd+1 entries) and idx.         *)
(* Words(G): the buffer as a sequence of 64 bit words: magic "F3ADJGRP", total size in bytes, nd, ni, number of      *)
(* indices, then ptr, then idx.  RoundTrip: Graph(serialize(G)) = G; Stable: serialize(Graph(serialize(G))) =         *)
(* serialize(G) byte for byte (and the result can be read again); a buffer cut to any other length is refused         *)
(* (the API documents this by XASSERT, i.e. outcome `abort` with an assertion message) -- never a memory error.       *)
EXTENDS Integers, Sequences, FiniteSets, Json, TLC

CONSTANTS MaxD, MaxI, MaxDeg

VARIABLES ph, g, cut
vars == <<ph, g, cut>>

RECURSIVE Concat(_)
Concat(ss) == IF Len(ss) = 0 THEN << >> ELSE Head(ss) \o Concat(Tail(ss))
RECURSIVE Sum(_, _)
Sum(t, k) == IF k = 0 THEN 0 ELSE Sum(t, k - 1) + Len(t[k])

\* adjacency lists: every sequence without repetition of length <= MaxDeg over the image nodes (unsorted ones included)
Lists(ni) == UNION {{t \in [1..l -> 0..(ni - 1)] : \A a, b \in 1..l : a # b => t[a] # t[b]} : l \in 0..MaxDeg}
Ptr(adj) == [k \in 1..(Len(adj) + 1) |-> Sum(adj, k - 1)]
Idx(adj) == Concat(adj)
Words(ni, adj) == << "F3ADJGRP", 8 * (5 + Len(adj) + 1 + Len(Idx(adj))), Len(adj), ni, Len(Idx(adj)) >> \o Ptr(adj) \o Idx(adj)

Init == /\ ph = "graph" /\ cut = -1
        /\ \E nd \in 0..MaxD, ni \in 0..MaxI : \E adj \in [1..nd -> Lists(ni)] : g = [ni |-> ni, adj |-> adj]
\* truncation to every word boundary and to some odd lengths
Cuts == LET n == 8 * Len(Words(g.ni, g.adj)) IN ({8 * k : k \in 0..(Len(Words(g.ni, g.adj)) - 1)} \cup {n - 1, 39, 41, 3}) \ {n}
Truncate == /\ ph = "graph" /\ ph' = "cut" /\ cut' \in {c \in Cuts : c >= 0} /\ UNCHANGED g
Next == Truncate
Spec == Init /\ [][Next]_vars

CsrValid == LET p == Ptr(g.adj) IN /\ p[1] = 0 /\ p[Len(p)] = Len(Idx(g.adj)) /\ \A k \in 1..(Len(p) - 1) : p[k] <= p[k + 1]
                                   /\ \A i \in 1..Len(Idx(g.adj)) : Idx(g.adj)[i] \in 0..(g.ni - 1)
Emit == PrintT(ToJson([t |-> "graph", nd |-> Len(g.adj), ni |-> g.ni, ptr |-> Ptr(g.adj), idx |-> Idx(g.adj),
                       words |-> Words(g.ni, g.adj), cut |-> cut]))
=============================================================================
