----------------------------- MODULE LifetimeBulk -----------------------------
(* C20, LARGE COUNTS: the reference counter of a MemoryPool chunk and the size bookkeeping of the     *)
(* pool with many owners of one array and with very large arrays.                                     *)
(*                                                                                                   *)
(* Same chunk table and the same MemoryPool transcription as spec/LifetimeX.tla (Alloc / Incr /        *)
(* Release), but sharing relatives are kept as a COUNT: a GROUP is n containers made from one root     *)
(* container in one way (n shallow clones, n same-type converts, n DenseVector(size, ptr) wrappers,   *)
(* n weak / layout / deep clones, n matrices built on the root's layout, n SparseLayout objects), as   *)
(* they live in a std::vector.  An array of a group is either SHARED (all members point to the chunk   *)
(* of the root: its counter moves by n) or PRIVATE (every member owns a chunk of its own: a chunk      *)
(* CLASS of n identical chunks with counter 1; pool[c].mult = n).  So 70000 clones are one record      *)
(* and the arithmetic is trivial for TLC, while the replay (harness/c20_bulk.cpp) really holds 70000    *)
(* containers and compares, after every step, the H1 reference counter of every chunk, the aliasing    *)
(* of every member, the contents seen through every member, the number of live chunks and              *)
(* MemoryPool::allocated_memory().                                                                     *)
(*                                                                                                   *)
(* IncrBy / ReleaseBy (n calls of increase_memory / release_memory in one step) are DEFINED in closed  *)
(* form; invariant BulkLaw ties them to the n-fold iteration of the single calls for small n in        *)
(* every reachable state.                                                                             *)
(*                                                                                                   *)
(* Very large arrays: root variants h31 / h32 are DenseVectors of 2^28+1 / 2^29+1 doubles, i.e. chunks *)
(* of 2^31+32 and 2^32+32 BYTES (allocate_memory rounds the count up to a multiple of 4).  TLC         *)
(* integers are 32 bit, so the specification speaks in element counts (AllocCount) and the harness     *)
(* multiplies by the element size.  The replay never touches more than the first and last elements     *)
(* of such an array (the pages stay unmapped), so only the kinds that do not copy are enabled.         *)
(* Out of reach: more than 2^31 - 1 owners of one chunk (TLC integer range; 2^32 real containers        *)
(* would need > 400 GB) and arrays with more than 2^31 - 1 elements.                                   *)
EXTENDS Integers, Sequences, FiniteSets, Json, TLC

CONSTANTS Depth,     \* history length at which a behaviour is emitted
          EmitOn,
          Ops,       \* the actions enabled in this run; {"all"} = everything
          Vars,      \* creation variants explored (subset of AllVars)
          Kinds,     \* the ways a group is made (subset of AllKinds)
          Counts,    \* the group sizes n explored
          RelMode,   \* "basic": ReleaseMany(m) with m in {1, cnt-1, cnt}; "full": also down to every size in Counts
          MaxGroups, \* number of groups that may exist at the same time (1 or 2)
          Ends       \* which end of the std::vector the released members are taken from (subset of {"back", "front"})

VARIABLES root,      \* root slot -> [live, fam, arrs]; an array is [k, c, n]
          grp,       \* group slot -> [live, fam, kind, cnt, arrs]; an array is [k, c, n, priv]
          pool,      \* chunk id -> [refs, n, tok, mult, k]   (live chunks / chunk classes only)
          next,      \* next fresh chunk id
          hist

vars == <<root, grp, pool, next, hist>>

Roots == 1..2
Groups == 1..MaxGroups
Undef == -1
AllVars == {"n3", "n0", "full", "nz0", "h31", "h32"}
AllKinds == {"shallow", "convert", "wrap", "weak", "layout", "deep", "fromlayout", "takelayout"}
FamOfVar(v) == IF v \in {"full", "nz0"} THEN "csr" ELSE "dv"
Huge == 1048576                       \* arrays with more elements are only touched at their ends by the replay
N31 == 268435457                      \* 2^28 + 1 doubles: 2^31 + 32 bytes
N32 == 536870913                      \* 2^29 + 1 doubles: 2^32 + 32 bytes

NoRoot == [live |-> FALSE, fam |-> "", arrs |-> <<>>]
NoGrp  == [live |-> FALSE, fam |-> "", kind |-> "", cnt |-> 0, arrs |-> <<>>]

\* allocate_memory rounds the element count up to a multiple of 4
AllocCount(n) == IF (n % 4) = 0 THEN n ELSE n + (4 - (n % 4))

(***********************************************************************************************)
(* MemoryPool: w = [pool, next]                                                                  *)
(***********************************************************************************************)
W0 == [pool |-> pool, next |-> next]
\* allocate_memory(n) called `mult` times with the same arguments (mult = 1: one chunk); size 0 -> null chunk, nothing recorded
AllocClass(w, k, n, tok, mult) ==
  IF n = 0 \/ mult = 0 THEN [w |-> w, c |-> 0]
  ELSE [w |-> [pool |-> (w.next :> [refs |-> 1, n |-> n, tok |-> tok, mult |-> mult, k |-> k]) @@ w.pool, next |-> w.next + 1], c |-> w.next]
Incr(w, c) == IF c = 0 THEN w ELSE [w EXCEPT !.pool[c].refs = @ + 1]                 \* increase_memory
Release(w, c) ==                                                                       \* release_memory
  IF c = 0 THEN w
  ELSE IF w.pool[c].refs = 1 THEN [w EXCEPT !.pool = [d \in (DOMAIN w.pool) \ {c} |-> w.pool[d]]]
  ELSE [w EXCEPT !.pool[c].refs = @ - 1]
\* n calls of increase_memory(c) / m calls of release_memory(c) (m <= counter: the (m+1)-th would not find the address)
IncrBy(w, c, n) == IF c = 0 \/ n = 0 THEN w ELSE [w EXCEPT !.pool[c].refs = @ + n]
ReleaseBy(w, c, m) ==
  IF c = 0 \/ m = 0 THEN w
  ELSE IF w.pool[c].refs = m THEN [w EXCEPT !.pool = [d \in (DOMAIN w.pool) \ {c} |-> w.pool[d]]]
  ELSE [w EXCEPT !.pool[c].refs = @ - m]
\* m members of a chunk class release their private chunk
DropClass(w, c, m) ==
  IF c = 0 \/ m = 0 THEN w
  ELSE IF w.pool[c].mult = m THEN [w EXCEPT !.pool = [d \in (DOMAIN w.pool) \ {c} |-> w.pool[d]]]
  ELSE [w EXCEPT !.pool[c].mult = @ - m]

RECURSIVE IterIncr(_, _, _)
IterIncr(w, c, n) == IF n = 0 THEN w ELSE IterIncr(Incr(w, c), c, n - 1)
RECURSIVE IterRelease(_, _, _)
IterRelease(w, c, n) == IF n = 0 THEN w ELSE IterRelease(Release(w, c), c, n - 1)

TokOf(w, a) == IF a.c = 0 THEN Undef ELSE w.pool[a.c].tok

(***********************************************************************************************)
(* construction                                                                                  *)
(***********************************************************************************************)
\* arrays <<kind, size>> of a freshly constructed root
Layout(var) ==
  CASE var = "n3"   -> <<<<"el", 3>>>>                                   \* DenseVector(3, v)
    [] var = "n0"   -> <<>>                                              \* DenseVector(0): no array
    [] var = "h31"  -> <<<<"el", N31>>>>                                 \* DenseVector(2^28 + 1): not initialised
    [] var = "h32"  -> <<<<"el", N32>>>>
    [] var = "full" -> <<<<"el", 3>>, <<"ix", 3>>, <<"ix", 3>>>>         \* CSR 2 x 3 with 3 entries: val, col_ind, row_ptr
    [] var = "nz0"  -> <<<<"el", 0>>, <<"ix", 0>>, <<"ix", 3>>>>         \* CSR(2, 3, 0): size-0 value / column index arrays
IsHuge(var) == var \in {"h31", "h32"}

RECURSIVE AllocLayout(_, _, _, _)
AllocLayout(w, lay, tok, acc) ==
  IF lay = <<>> THEN [w |-> w, arr |-> acc]
  ELSE LET r == AllocClass(w, Head(lay)[1], Head(lay)[2], IF Head(lay)[1] = "el" THEN tok ELSE 7, 1)
       IN AllocLayout(r.w, Tail(lay), tok, Append(acc, [k |-> Head(lay)[1], c |-> r.c, n |-> Head(lay)[2]]))

(***********************************************************************************************)
(* the world as the replayer sees it                                                             *)
(***********************************************************************************************)
RECURSIVE SumSeq(_)
SumSeq(s) == IF s = <<>> THEN 0 ELSE Head(s) + SumSeq(Tail(s))
Ids(pl, nx) == SelectSeq([i \in 1..(nx - 1) |-> i], LAMBDA i : i \in DOMAIN pl)
WorldOf(rt, gp, pl, nx) ==
  LET ids == Ids(pl, nx) IN
  [roots  |-> [s \in Roots |-> <<rt[s].live, rt[s].fam,
                                 [i \in 1..Len(rt[s].arrs) |-> LET a == rt[s].arrs[i] IN
                                    <<a.k, a.c, a.n, IF a.c = 0 THEN Undef ELSE pl[a.c].tok, IF a.c = 0 THEN 0 ELSE AllocCount(pl[a.c].n)>>]>>],
   groups |-> [g \in Groups |-> <<gp[g].live, gp[g].fam, gp[g].kind, gp[g].cnt,
                                  [i \in 1..Len(gp[g].arrs) |-> LET a == gp[g].arrs[i] IN
                                     <<a.k, a.c, a.n, a.priv, IF a.c = 0 THEN Undef ELSE pl[a.c].tok, IF a.c = 0 THEN 0 ELSE AllocCount(pl[a.c].n)>>]>>],
   \* <<chunk id, reference counter, number of identical chunks of the class>>
   chunks |-> [j \in 1..Len(ids) |-> <<ids[j], pl[ids[j]].refs, pl[ids[j]].mult>>],
   nchunks |-> SumSeq([j \in 1..Len(ids) |-> pl[ids[j]].mult]),
   \* allocated elements by array kind, in units of 4 elements (allocate_memory hands out multiples of 4; the unit keeps the sums
   \* of the 2 / 4 GiB arrays inside TLC's integers); the harness multiplies by 4 * element size: MemoryPool::allocated_memory()
   allocEl4 |-> SumSeq([j \in 1..Len(ids) |-> IF pl[ids[j]].k = "el" THEN pl[ids[j]].mult * (AllocCount(pl[ids[j]].n) \div 4) ELSE 0]),
   allocIx4 |-> SumSeq([j \in 1..Len(ids) |-> IF pl[ids[j]].k = "ix" THEN pl[ids[j]].mult * (AllocCount(pl[ids[j]].n) \div 4) ELSE 0])]

Commit(w, nr, ng, op, args) ==
  /\ pool' = w.pool /\ next' = w.next /\ root' = nr /\ grp' = ng
  /\ hist' = Append(hist, [op |-> op, args |-> args, world |-> WorldOf(nr, ng, w.pool, w.next)])

Init == /\ root = [s \in Roots |-> NoRoot] /\ grp = [g \in Groups |-> NoGrp] /\ pool = <<>> /\ next = 1 /\ hist = <<>>
Step == Len(hist) + 1

Create(s, var) ==
  /\ ~root[s].live /\ \A t \in Roots : t < s => root[t].live          \* (the lowest free slot: the slots are interchangeable)
  /\ LET r == AllocLayout(W0, Layout(var), IF IsHuge(var) THEN Undef ELSE 100 + Step, <<>>)
     IN Commit(r.w, [root EXCEPT ![s] = [live |-> TRUE, fam |-> FamOfVar(var), arrs |-> r.arr]], grp, "create", [s |-> s, var |-> var])

(***********************************************************************************************)
(* CloneMany: n containers made from root s in the way `kind`                                    *)
(***********************************************************************************************)
\* which arrays of the source the new container shares (all others are allocated per container)
SharedBy(kind, a) ==
  CASE kind \in {"shallow", "convert", "wrap"} -> TRUE          \* clone(Shallow); same-type convert (assign); DenseVector(size, data pointer)
    [] kind \in {"weak", "layout", "fromlayout", "takelayout"} -> a.k = "ix"   \* index arrays shared
    [] kind = "deep" -> FALSE
\* contents of an array the new container allocates itself: copied (weak, deep) or not initialised
CopiedBy(kind) == kind \in {"weak", "deep"}
KindOK(fam, kind) == IF fam = "dv" THEN kind \in {"shallow", "convert", "wrap", "weak", "layout", "deep"}
                     ELSE kind \in {"shallow", "convert", "weak", "layout", "deep", "fromlayout", "takelayout"}
HasHuge(arrs) == \E i \in 1..Len(arrs) : arrs[i].n > Huge

RECURSIVE BuildMany(_, _, _, _, _)
BuildMany(w, arr, kind, n, acc) ==
  IF arr = <<>> THEN [w |-> w, arr |-> acc]
  ELSE LET a == Head(arr) IN
       IF kind = "takelayout" /\ a.k = "el" THEN BuildMany(w, Tail(arr), kind, n, acc)       \* a layout object holds index arrays only
       ELSE IF SharedBy(kind, a)
       THEN BuildMany(IncrBy(w, a.c, n), Tail(arr), kind, n, Append(acc, [k |-> a.k, c |-> a.c, n |-> a.n, priv |-> FALSE]))
       ELSE LET r == AllocClass(w, a.k, a.n, IF CopiedBy(kind) THEN TokOf(w, a) ELSE Undef, n)
            IN BuildMany(r.w, Tail(arr), kind, n, Append(acc, [k |-> a.k, c |-> r.c, n |-> a.n, priv |-> r.c # 0]))

FreeGroup == CHOOSE g \in Groups : ~grp[g].live /\ \A h \in Groups : h < g => grp[h].live

CloneMany(s, kind, n) ==
  /\ root[s].live /\ KindOK(root[s].fam, kind) /\ \E g \in Groups : ~grp[g].live
  /\ (kind \in {"fromlayout", "takelayout"} => root[s].arrs # <<>>)      \* a cleared matrix has no dimensions: layout() is not defined
  /\ (HasHuge(root[s].arrs) => ~CopiedBy(kind) /\ (kind = "layout" => n <= 2))   \* replay budget: never copy a huge array, at most 2 more of them
  /\ LET g == FreeGroup
         r == BuildMany(W0, root[s].arrs, kind, n, <<>>)
     IN Commit(r.w, root, [grp EXCEPT ![g] = [live |-> TRUE, fam |-> IF kind = "takelayout" THEN "lay" ELSE root[s].fam, kind |-> kind, cnt |-> n, arrs |-> r.arr]],
               "clonemany", [s |-> s, g |-> g, kind |-> kind, n |-> n])

(***********************************************************************************************)
(* ReleaseMany: m members of a group are destroyed                                               *)
(***********************************************************************************************)
RECURSIVE DropMany(_, _, _)
DropMany(w, arr, m) ==
  IF arr = <<>> THEN w
  ELSE LET a == Head(arr) IN DropMany(IF a.priv THEN DropClass(w, a.c, m) ELSE ReleaseBy(w, a.c, m), Tail(arr), m)

RelChoices(cnt) == ({1, cnt - 1, cnt} \cup (IF RelMode = "full" THEN {cnt - x : x \in Counts} ELSE {})) \cap (1..cnt)

ReleaseMany(g, m, from) ==
  /\ grp[g].live /\ m \in RelChoices(grp[g].cnt)
  /\ LET w1 == DropMany(W0, grp[g].arrs, m)
         ng == IF m = grp[g].cnt THEN [grp EXCEPT ![g] = NoGrp] ELSE [grp EXCEPT ![g].cnt = @ - m]
     IN Commit(w1, root, ng, "releasemany", [g |-> g, m |-> m, from |-> from])

\* one member leaves the group by move construction (std::move(v.back()); v.pop_back()) and becomes a root: no counter moves;
\* a private chunk of the member leaves its class and becomes a chunk of its own
RECURSIVE SplitOne(_, _, _)
SplitOne(w, arr, acc) ==
  IF arr = <<>> THEN [w |-> w, arr |-> acc]
  ELSE LET a == Head(arr) IN
       IF ~a.priv THEN SplitOne(w, Tail(arr), Append(acc, [k |-> a.k, c |-> a.c, n |-> a.n]))
       ELSE LET r == AllocClass(DropClass(w, a.c, 1), a.k, a.n, TokOf(w, a), 1)
            IN SplitOne(r.w, Tail(arr), Append(acc, [k |-> a.k, c |-> r.c, n |-> a.n]))
TakeOne(g, s) ==
  /\ grp[g].live /\ grp[g].fam # "lay" /\ ~root[s].live
  /\ LET r == SplitOne(W0, grp[g].arrs, <<>>)
         ng == IF grp[g].cnt = 1 THEN [grp EXCEPT ![g] = NoGrp] ELSE [grp EXCEPT ![g].cnt = @ - 1]
     IN Commit(r.w, [root EXCEPT ![s] = [live |-> TRUE, fam |-> grp[g].fam, arrs |-> r.arr]], ng, "takeone", [g |-> g, s |-> s])

(***********************************************************************************************)
(* roots: destroy / clear / overwrite                                                            *)
(***********************************************************************************************)
RECURSIVE ReleaseArr(_, _)
ReleaseArr(w, arr) == IF arr = <<>> THEN w ELSE ReleaseArr(Release(w, Head(arr).c), Tail(arr))
Destroy(s) == /\ root[s].live
              /\ Commit(ReleaseArr(W0, root[s].arrs), [root EXCEPT ![s] = NoRoot], grp, "destroy", [s |-> s])
Clear(s) == /\ root[s].live /\ root[s].arrs # <<>>
            /\ Commit(ReleaseArr(W0, root[s].arrs), [root EXCEPT ![s].arrs = <<>>], grp, "clear", [s |-> s])

\* overwrite all values through a root (format(v)) / through the first member of a group that shares its value array:
\* every holder of the chunk sees the new contents, nobody else
ElChunks(arrs) == {arrs[i].c : i \in {j \in 1..Len(arrs) : arrs[j].k = "el" /\ arrs[j].c # 0}}
SetTok(cs, t) == [W0 EXCEPT !.pool = [c \in DOMAIN pool |-> IF c \in cs THEN [pool[c] EXCEPT !.tok = t] ELSE pool[c]]]
Poke(s) == /\ root[s].live /\ ElChunks(root[s].arrs) # {}
           /\ Commit(SetTok(ElChunks(root[s].arrs), 200 + Step), root, grp, "poke", [s |-> s, tok |-> 200 + Step])
PokeG(g) == /\ grp[g].live /\ grp[g].fam # "lay" /\ ElChunks(grp[g].arrs) # {}
            /\ \A i \in 1..Len(grp[g].arrs) : grp[g].arrs[i].k = "el" => ~grp[g].arrs[i].priv
            /\ Commit(SetTok(ElChunks(grp[g].arrs), 200 + Step), root, grp, "pokeg", [g |-> g, tok |-> 200 + Step])

On(op) == "all" \in Ops \/ op \in Ops
Next ==
  /\ Len(hist) < Depth
  /\ \/ On("create") /\ \E s \in Roots, v \in Vars : Create(s, v)
     \/ On("clonemany") /\ \E s \in Roots, k \in Kinds, n \in Counts : CloneMany(s, k, n)
     \/ On("releasemany") /\ \E g \in Groups, e \in Ends : \E m \in RelChoices(grp[g].cnt) : ReleaseMany(g, m, e)
     \/ On("takeone") /\ \E g \in Groups, s \in Roots : TakeOne(g, s)
     \/ On("destroy") /\ \E s \in Roots : Destroy(s)
     \/ On("clear") /\ \E s \in Roots : Clear(s)
     \/ On("poke") /\ \E s \in Roots : Poke(s)
     \/ On("pokeg") /\ \E g \in Groups : PokeG(g)
Spec == Init /\ [][Next]_vars

(***********************************************************************************************)
(* invariants                                                                                    *)
(***********************************************************************************************)
\* owners of chunk c: through shared arrays (roots count 1, a group counts cnt per array) / through private arrays
RootRefs(c) == Cardinality({<<s, i>> \in Roots \X (1..3) : root[s].live /\ i <= Len(root[s].arrs) /\ root[s].arrs[i].c = c})
GrpIdx(c, p) == {<<g, i>> \in Groups \X (1..3) : grp[g].live /\ i <= Len(grp[g].arrs) /\ grp[g].arrs[i].c = c /\ grp[g].arrs[i].priv = p}
RECURSIVE SumCnt(_)
SumCnt(S) == IF S = {} THEN 0 ELSE LET x == CHOOSE y \in S : TRUE IN grp[x[1]].cnt + SumCnt(S \ {x})
SharedOwners(c) == RootRefs(c) + SumCnt(GrpIdx(c, FALSE))
PrivOwners(c) == SumCnt(GrpIdx(c, TRUE))

RefCount == \A c \in DOMAIN pool :
              \/ PrivOwners(c) = 0 /\ pool[c].mult = 1 /\ pool[c].refs = SharedOwners(c)       \* one chunk, counter = number of owners
              \/ SharedOwners(c) = 0 /\ pool[c].refs = 1 /\ pool[c].mult = PrivOwners(c)       \* a class of chunks with one owner each
NoLeak == \A c \in DOMAIN pool : pool[c].refs >= 1 /\ pool[c].mult >= 1 /\ SharedOwners(c) + PrivOwners(c) >= 1
NoDangling == /\ \A s \in Roots : root[s].live => \A i \in 1..Len(root[s].arrs) : root[s].arrs[i].c = 0 \/ root[s].arrs[i].c \in DOMAIN pool
              /\ \A g \in Groups : grp[g].live => \A i \in 1..Len(grp[g].arrs) : grp[g].arrs[i].c = 0 \/ grp[g].arrs[i].c \in DOMAIN pool
EmptyAtEnd == ((\A s \in Roots : ~root[s].live) /\ (\A g \in Groups : ~grp[g].live)) => DOMAIN pool = {}
NullNeverCounted == 0 \notin DOMAIN pool
TypeOK == /\ \A s \in Roots : root[s].live => root[s].fam \in {"dv", "csr"} /\ Len(root[s].arrs) <= 3
                                 /\ \A i \in 1..Len(root[s].arrs) : (root[s].arrs[i].c = 0) = (root[s].arrs[i].n = 0)
          /\ \A g \in Groups : grp[g].live => grp[g].cnt >= 1 /\ grp[g].fam \in {"dv", "csr", "lay"} /\ Len(grp[g].arrs) <= 3
                                 /\ \A i \in 1..Len(grp[g].arrs) : (grp[g].arrs[i].c = 0) = (grp[g].arrs[i].n = 0)
          /\ \A c \in DOMAIN pool : pool[c].n >= 1
\* the closed forms agree with the iteration of the single MemoryPool calls (small counts, every reachable pool)
BulkLaw == \A c \in DOMAIN pool : \A n \in 0..3 :
             /\ IncrBy(W0, c, n) = IterIncr(W0, c, n)
             /\ (n <= pool[c].refs => ReleaseBy(W0, c, n) = IterRelease(W0, c, n))
\* an array is freed by exactly the release that takes the counter from 1 to 0: releasing all owners but one keeps it
KeepsLast == \A c \in DOMAIN pool : pool[c].refs >= 2 => c \in DOMAIN ReleaseBy(W0, c, pool[c].refs - 1).pool

FinClass == IF DOMAIN pool = {} THEN "clean" ELSE "leak"
Emit == (EmitOn /\ Len(hist) = Depth) => PrintT(ToJson([steps |-> hist, fin |-> FinClass]))
=============================================================================
