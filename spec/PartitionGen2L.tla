------------------------------ MODULE PartitionGen2L ------------------------------
(* C12 generator for the two-layer route: ALL two-level set partitions of NCells cells - a partition of the cells into  *)
(* non-empty parent patches and, inside every parent patch, a partition into non-empty child patches (1, 3, 12, 60,       *)
(* 358, 2471 for 1..6 cells) - each in two rank orders (ranks numbered by first cell, and that numbering reversed on      *)
(* both layers: the order of the children decides the order of the intersect_split_halo calls).  Whatever the mesh is,   *)
(* this contains every shape of parent interface (straight, with corners, disconnected) and every position of the         *)
(* children relative to it, including children that touch a parent interface in a single vertex across a corner.          *)
EXTENDS Integers, Sequences, FiniteSets, Json, TLC
CONSTANTS NCells
VARIABLES par, chl, rev      \* par[c] = parent rank of cell c-1, chl[c] = child index within its parent, rev = reversed numbering
Cells == 1..NCells
FirstOf(S) == CHOOSE c \in S : \A b \in S : c <= b
\* f restricted to the cells S numbers its classes 0..n-1 in the order of their first cell
CanonOn(f, S, n) ==
  /\ \A c \in S : f[c] \in 0..(n - 1)
  /\ \A r \in 0..(n - 1) : \E c \in S : f[c] = r
  /\ \A r \in 0..(n - 2) : FirstOf({c \in S : f[c] = r}) < FirstOf({c \in S : f[c] = r + 1})
Init ==
  /\ rev \in BOOLEAN
  /\ \E np \in 1..NCells :
       /\ par \in {f \in [Cells -> 0..(np - 1)] : CanonOn(f, Cells, np)}
       /\ chl \in {g \in [Cells -> 0..(NCells - 1)] :
                     \A p \in 0..(np - 1) : LET S == {c \in Cells : par[c] = p} IN \E n \in 1..Cardinality(S) : CanonOn(g, S, n)}
Next == UNCHANGED <<par, chl, rev>>
Spec == Init /\ [][Next]_<<par, chl, rev>>
NP == 1 + (CHOOSE m \in 0..(NCells - 1) : (\E c \in Cells : par[c] = m) /\ \A c \in Cells : par[c] <= m)
NC(p) == 1 + (CHOOSE m \in 0..(NCells - 1) : (\E c \in Cells : par[c] = p /\ chl[c] = m) /\ \A c \in Cells : par[c] = p => chl[c] <= m)
RECURSIVE CellsOf(_, _, _)
CellsOf(p, k, c) == IF c > NCells THEN << >> ELSE (IF par[c] = p /\ chl[c] = k THEN << c - 1 >> ELSE << >>) \o CellsOf(p, k, c + 1)
PR(p) == IF rev THEN NP - 1 - p ELSE p
CR(p, k) == IF rev THEN NC(p) - 1 - k ELSE k
Parents == [p \in 1..NP |-> [k \in 1..NC(PR(p - 1)) |-> CellsOf(PR(p - 1), CR(PR(p - 1), k - 1), 1)]]
\* sanity of the generator: every cell in exactly one child of exactly one parent, no empty child
IsTwoLevelPartition ==
  /\ \A p \in 1..NP : \A k \in 1..Len(Parents[p]) : Len(Parents[p][k]) >= 1
  /\ \A c \in Cells : Cardinality({<<p, k>> \in (1..NP) \X (1..NCells) : k <= Len(Parents[p]) /\ \E i \in 1..Len(Parents[p][k]) : Parents[p][k][i] = c - 1}) = 1
Emit == PrintT(ToJson([ncells |-> NCells, parents |-> Parents]))
=============================================================================
