--------------------------- MODULE AdjacencyColor ---------------------------
(* C19, Coloring objects built from explicit colour arrays (the way the     *)
(* partitioners use the class: kernel/adjacency/coloring.hpp).              *)
(*                                                                          *)
(* Abstract object  C = [ncol, col]:  col[i+1] = colour of node i,  ncol =  *)
(* get_num_colors().  The declared number of colours may exceed the colours *)
(* in use: colours may be unused in the middle and AT THE END, and the      *)
(* colouring may be empty (no nodes) with or without declared colours.      *)
(*                                                                          *)
(* Behaviour: Init (choose nodes n, declared colours c, the colour array    *)
(* and the constructor)  ->  Construct  ->  one call:                       *)
(*   InspectCall    get_num_nodes / get_num_colors / get_max_color /        *)
(*                  get_coloring / operator[] / size / empty                *)
(*   PartitionCall  create_partition_graph(): domain = the ncol colours (as *)
(*                  the object reports), image = the nodes; colour k lists  *)
(*                  exactly its nodes, each once; unused colours have empty *)
(*                  lists; the offsets are monotone and end at n            *)
(*   CloneCall      clone() and move: the same abstract object              *)
(* Constructors:                                                            *)
(*   default   Coloring()                            no nodes, no colours   *)
(*   vector    Coloring(num_colors, vector)          ncol = num_colors      *)
(*   alloc     Coloring(num_nodes, num_colors) + fill through operator[]    *)
(*   array     Coloring(num_nodes, Index* colouring) ncol is derived: every *)
(*             node must find its colour among 0..ncol-1 and get_max_color  *)
(*             = ncol-1 must be the largest colour, so ncol = max + 1       *)
EXTENDS Adjacency, Json, TLC

CONSTANTS MaxN,   \* nodes 0..MaxN
          MaxC    \* declared colours 0..MaxC

VARIABLES ph, arg, C, call, res
vars == <<ph, arg, C, call, res>>

NoObj == [ncol |-> 0, col |-> <<>>]
ColoringValid(c) == \A i \in 1..Len(c.col) : c.col[i] \in 0..(c.ncol - 1)
MaxColor(col) == IF Len(col) = 0 THEN 0 - 1 ELSE MaxSeq(col)
\* the partition graph of a valid colouring object (nodes ascending under each colour)
PartitionGraphOf(c) ==
  GraphOf(c.ncol, Len(c.col), [k \in 1..c.ncol |-> Flatten([i \in 1..Len(c.col) |-> IF c.col[i] = k - 1 THEN <<i - 1>> ELSE <<>>])])
\* some colour below the largest one is not used (only then the array constructor cannot count the colours)
HasGap(col) == \E k \in 0..MaxColor(col) : \A i \in 1..Len(col) : col[i] # k
UnusedAtEnd(c) == c.ncol > MaxColor(c.col) + 1

Init ==
  /\ ph = "init" /\ C = NoObj /\ call = [op |-> "none"] /\ res = <<>>
  /\ \/ arg = [ctor |-> "default", n |-> 0, c |-> 0, col |-> <<>>]
     \/ \E n \in 0..MaxN, c \in 0..MaxC : \E col \in [1..n -> 0..(c - 1)] : \E ctor \in {"vector", "alloc", "array"} :
          arg = [ctor |-> ctor, n |-> n, c |-> c, col |-> col]

Construct ==
  /\ ph = "init" /\ ph' = "built" /\ UNCHANGED <<arg, call, res>>
  /\ C' = CASE arg.ctor = "default" -> NoObj
            [] arg.ctor \in {"vector", "alloc"} -> [ncol |-> arg.c, col |-> arg.col]
            [] arg.ctor = "array" -> [ncol |-> MaxColor(arg.col) + 1, col |-> arg.col]

Done(c, r) == ph = "built" /\ ph' = "done" /\ call' = c /\ res' = r /\ UNCHANGED <<arg, C>>
InspectCall == Done([op |-> "inspect"], C)
PartitionCall == ColoringValid(C) /\ Done([op |-> "partition"], PartitionGraphOf(C))
CloneCall == Done([op |-> "clone"], C)
Next == Construct \/ InspectCall \/ PartitionCall \/ CloneCall
Spec == Init /\ [][Next]_vars

\* ---- laws ------------------------------------------------------------------------------------------
\* every constructor yields an object whose nodes find their colours among 0..ncol-1
ObjValid == ph # "init" => ColoringValid(C)
\* the predicted partition graph obeys the declarative contract of Adjacency.tla
PartitionLaw == ph = "done" /\ call.op = "partition" =>
  /\ PartitionOk([nd |-> Len(C.col)], C.col, C.ncol, res)
  /\ res.ptr[C.ncol + 1] = Len(C.col)
  /\ \A k \in 1..C.ncol : (\A i \in 1..Len(C.col) : C.col[i] # k - 1) => res.ptr[k] = res.ptr[k + 1]

Emit == ph = "done" =>
  PrintT(ToJson([ctor |-> arg.ctor, n |-> arg.n, c |-> arg.c, col |-> arg.col, obj |-> C, op |-> call.op, exp |-> res,
                 gap |-> HasGap(arg.col), unused_at_end |-> UnusedAtEnd(C)]))
=============================================================================
