--------------------------- MODULE Trace_SolverCtl ---------------------------
(* C07 (V): validation of traces recorded from real FEAT solvers              *)
(* (harness/c07_solvers.cpp) against the status machine of SolverCtl.          *)
(*                                                                             *)
(* IOEnv.TRACE names an ndjson file with one solve per line:                   *)
(*   configuration (minIter, maxIter, minStag, skip), the system (mkind, n,    *)
(*   nfilter, raw = constraints imposed by the filter only), solver traits    *)
(*   (inner: GMRES-type pseudo iterations between two analysed defects; half:  *)
(*   BiCGStab-type convergence test after the first half step; breakdown: the  *)
(*   solver may abort on a non-finite recurrence scalar), the events           *)
(*   init / step with the recomputed comparison outcomes, the returned Status  *)
(*   and the projections computed by the harness.                              *)
(* The module is a deterministic monitor: it re-runs InitAnalyseB / AnalyseB   *)
(* (SolverCtlCore = the transcription that is model checked in SolverCtl) on   *)
(* the logged outcomes, compares status, num_iter and num_stag_iter with the   *)
(* logged ones at every event, and finally judges the returned status and the  *)
(* projections by the declarative clauses of C07.  Every violated clause is    *)
(* collected by name; one verdict per trace is printed.  (A monitor rather     *)
(* than acceptance-by-postcondition, so that one TLC run judges thousands of   *)
(* solves and names the clause and the solve for each rejection.)              *)
EXTENDS SolverCtlCore, Integers, Sequences, FiniteSets, Json, IOUtils, TLC

Traces == ndJsonDeserialize(IOEnv.TRACE)
N == Len(Traces)

VARIABLES k,        \* index of the trace
          i,        \* number of events consumed
          status, numIter, numStag,   \* the machine
          fails,    \* names of violated clauses
          done
vars == <<k, i, status, numIter, numStag, fails, done>>

T == Traces[k]

Init == /\ k \in 1..N
        /\ i = 0 /\ status = "undefined" /\ numIter = 0 /\ numStag = 0 /\ fails = {} /\ done = FALSE

\* ---- events ---------------------------------------------------------------------------------------------
InitEventFails(e) ==
  LET exp == InitAnalyseB(e.fin, e.tinyLow, e.tinyEps) IN
    (IF status = "progress" THEN {"init_while_iterating"} ELSE {})
    \cup (IF i # 0 THEN {"second_initial_defect"} ELSE {})
    \cup (IF e.st # exp THEN {"init_status"} ELSE {})
    \cup (IF ~(e.ni = 0 /\ e.ns = 0 /\ e.same) THEN {"init_counters"} ELSE {})

StepEventFails(e) ==
  LET a == AnalyseB(T.minIter, T.maxIter, T.minStag, e.ni, numStag, e.fin, e.div, e.conv, e.stag) IN
    (IF status # "progress" THEN {"step_after_stop"} ELSE {})
    \cup (IF ~(e.ni0 = numIter \/ (T.inner /\ e.ni0 > numIter)) THEN {"num_iter_jump"} ELSE {})
    \cup (IF e.ni # e.ni0 + 1 THEN {"num_iter_increment"} ELSE {})
    \cup (IF ~e.upd /\ e.calc # CalcDefB(T.skip, T.minIter, T.maxIter, T.minStag) THEN {"calc_def"} ELSE {})
    \cup (IF e.st # a.st THEN {"step_status"} ELSE {})
    \cup (IF e.st = a.st /\ e.ns # a.ns THEN {"stag_counter"} ELSE {})

Event ==
  /\ ~done /\ i < Len(T.ev)
  /\ LET e == T.ev[i + 1] IN
       /\ fails' = fails \cup (IF e.k = "init" THEN InitEventFails(e) ELSE StepEventFails(e))
       \* continue from the logged state (re-synchronise after a rejected event so that later clauses are judged too)
       /\ status' = e.st /\ numIter' = e.ni /\ numStag' = e.ns
  /\ i' = i + 1 /\ UNCHANGED <<k, done>>

\* ---- the end of the solve --------------------------------------------------------------------------------
Symmetric(m) == m \in {"spd", "spdg", "ispd", "one", "sid", "diagev"}
DiagDominant(m) == m \in {"spd", "nsym", "ispd", "insym", "one", "sid", "diagev"}
\* systems on which the method is documented / known to converge (the "scope" of the convergence clause)
InScope ==
  LET s == T.solver  p == T.prec  m == T.mkind IN
  \/ s \in {"PCG", "PCR", "PipePCG", "GroppPCG"} /\ Symmetric(m) /\ (p \in {"none", "jacobi", "ssor"} \/ (p = "ilu" /\ m \in {"spd", "ispd"}))
  \/ s = "Chebyshev" /\ m = "spd" /\ T.delta10 >= 3 /\ p = "none" /\ T.nfilter = 0
  \/ s \in {"FGMRES", "GMRES", "RGCR", "PMR"} /\ DiagDominant(m) /\ p \in {"none", "jacobi", "sor", "ssor", "ilu"}
  \/ s \in {"BiCGStab", "BiCGStabR", "BiCGStabL", "IDRS", "RBiCGStab"} /\ DiagDominant(m) /\ p \in {"none", "jacobi", "sor", "ssor", "ilu"}
  \/ s = "PCGNR" /\ p \in {"none", "jacobi"}
  \* (raw operator + unit filter: the filtered SOR/SSOR sweep is not the sweep of the filtered matrix; Jacobi is)
  \/ s = "Richardson" /\ (T.raw => p = "jacobi") /\ ((DiagDominant(m) /\ p \in {"jacobi", "sor"}) \/ (m \in {"spd", "ispd"} /\ p = "ssor") \/ (m = "near1" /\ p = "none"))

HalfStepExit ==
  /\ T.half /\ T.retNi = numIter + 1
  /\ \/ T.ret = "success" /\ T.finF /\ T.convF /\ ~T.divF
     \/ T.ret = "diverged" /\ T.finF /\ T.divF
     \/ T.ret = "aborted"

EndFails ==
  LET stopped == status \notin {"progress", "undefined"}
      C(cond, name) == IF cond THEN {name} ELSE {}
  IN
    \* the machine stopped: the solver returns exactly its status and iteration count
    C(stopped /\ ~(T.ret = status /\ T.retNi = numIter), "returned_status")
    \* the machine says "iterate": only a failed preconditioner, a documented breakdown or a half-step exit may end the solve
    \cup C(status = "progress" /\ ~(\/ T.ret = "aborted" /\ (T.precFail \/ T.breakdown)
                                    \/ HalfStepExit), "left_loop")
    \cup C(status = "undefined" /\ ~(T.ret = "aborted" /\ T.precFail), "no_initial_defect")
    \cup C(T.getst # T.ret, "get_status")
    \* declarative clauses on what is returned
    \cup C(T.ret \notin {"success", "aborted", "diverged", "max_iter", "stagnated"}, "returned_status_value")
    \cup C(T.ret = "success" /\ T.retNi > 0 /\ T.retNi < T.minIter, "success_before_min_iter")
    \cup C(T.ret = "success" /\ T.retNi > 0 /\ ~(T.finF /\ T.convF), "success_not_converged")
    \cup C(T.ret = "max_iter" /\ T.minIter <= T.maxIter /\ T.maxIter >= 1 /\ T.retNi # T.maxIter, "max_iter_count")
    \cup C(T.ret \in {"max_iter", "stagnated"} /\ T.finF /\ T.convF /\ T.retNi >= T.minIter, "converged_but_not_success")
    \cup C(T.ret = "diverged" /\ ~(T.finF /\ T.divF), "diverged_not_diverged")
    \cup C(T.ret = "stagnated" /\ T.minStag = 0, "stagnated_without_check")
    \cup C(T.precFail /\ T.ret # "aborted", "precond_failure_not_reported")
    \* projections
    \cup C(~T.rhsSame, "rhs_modified")
    \cup C(T.ret = "success" /\ ~T.resOk, "true_residual")
    \cup C(T.ret \in {"success", "max_iter", "stagnated"} /\ ~T.solFinite, "nonfinite_solution")
    \cup C(~T.defInitOk, "initial_defect")
    \cup C(T.havePrev /\ ~T.sameAsPrev, "not_repeatable")
    \cup C(T.tag = "exact_start" /\ ~(T.ret = "success" /\ T.retNi = 0 /\ T.solUnchanged), "exact_start")
    \cup C(T.tag = "zero_rhs" /\ ~(T.ret = "success" /\ T.retNi = 0 /\ T.solZero), "zero_rhs")
    \cup C(T.scen \in {"converge", "lucky", "breakdown", "update"} /\ InScope /\ ~(T.ret = "success" /\ T.errOk), "no_convergence")

Finish ==
  /\ ~done /\ i = Len(T.ev)
  /\ fails' = fails \cup EndFails
  /\ done' = TRUE /\ UNCHANGED <<k, i, status, numIter, numStag>>

Next == Event \/ Finish
Spec == Init /\ [][Next]_vars

\* one verdict per trace
Verdict == done => PrintT(ToJson([trace |-> k, events |-> i, fails |-> fails, inscope |-> (T.scen \in {"converge", "lucky", "breakdown", "update"} /\ InScope)]))
=============================================================================
