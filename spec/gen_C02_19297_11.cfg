SPECIFICATION Spec
CONSTANTS NS = 2 Depth = 3 Seeds = {"csr_pal", "cscr_pal", "banded_pal", "dense_pal", "bcsr_pal"} SeedTypes = {"f64u64"}
 Ops = {"conv", "clone", "transp", "permute", "layout", "graph", "copy", "format", "poke"} Types = {"f32u32"} PermSel = "few" Palette = 1
INVARIANTS RepValid LawsHold ChunksExist Emit
CHECK_DEADLOCK FALSE
