--------------------------- MODULE PersistCkptFile ---------------------------
(* C05 extension: Control::CheckpointControl through FILES                   *)
(* (save(filename) / load(filename), control/checkpoint_control.hpp), in a   *)
(* serial program and collectively on NR processes.                          *)
(*                                                                          *)
(* The machine of PersistCkpt.tla (Register / Save / Load / Restore with its *)
(* palette, identifier maps and invariants) is re-used for rank 0; rank r    *)
(* registers, under the SAME identifiers, the palette objects shifted by r,  *)
(* so the per-rank checkpoints have different lengths.                       *)
(*                                                                          *)
(*   save("<name>.cp")  writes ONE combined file (PersistDistFmt:            *)
(*        H | S | C | P with an empty common section) named <name>.cp whose  *)
(*        private section of rank r is that rank's checkpoint                *)
(*        (for every identifier in lexicographic order: u64 |id|, id,        *)
(*         u64 |data|, data = the container's fm_binary serialisation)       *)
(*   load("<name>.cp")  in a FRESH CheckpointControl (same process, and      *)
(*        again in a fresh process), restore_object in every order;          *)
(*        restoring with add_to_checkpoint_control = true and saving again   *)
(*        gives a second file with the same layout                           *)
(*   file names: the extension is the text behind the LAST dot; only "cp"    *)
(*        is valid in a build without zlib; "<name>.zcp", another or no      *)
(*        extension must be REPORTED (abort) by save and load               *)
(* Dense vectors (CSR matrices) may be registered through Global::Vector     *)
(* (Global::Matrix): their checkpoint is the checkpoint of the local object. *)
EXTENDS PersistCkpt

CONSTANTS NR,        \* number of processes
          FNameIdx,  \* which of FNames
          Wraps      \* subset of BOOLEAN: register through Global::Vector / Global::Matrix

VARIABLES fname,     \* index into FNames
          wrap,
          disk       \* the abstract file: [name, hdr (bytes of H and S), total, ranks: per rank [size, entries]]
fvars == <<ph, objs, idmap, regs, file, rest, got, fname, wrap, disk>>

D == INSTANCE PersistDistFmt

\* [given to save/load, file that must exist afterwards, directory to create first, valid]
FNames == <<
  [arg |-> "ck.cp",        onDisk |-> "ck.cp",       dir |-> "",      valid |-> TRUE],
  [arg |-> "a.b.cp",       onDisk |-> "a.b.cp",      dir |-> "",      valid |-> TRUE],
  [arg |-> "d.dir/ck.cp",  onDisk |-> "d.dir/ck.cp", dir |-> "d.dir", valid |-> TRUE],
  [arg |-> "ck.zcp",       onDisk |-> "",            dir |-> "",      valid |-> FALSE],    \* no zlib support
  [arg |-> "ck.txt",       onDisk |-> "",            dir |-> "",      valid |-> FALSE],
  [arg |-> "ck",           onDisk |-> "",            dir |-> "",      valid |-> FALSE],    \* no extension
  [arg |-> "d.dir/ck",     onDisk |-> "",            dir |-> "d.dir", valid |-> FALSE] >>

Shift(o, r) == ((o + r - 1) % Len(Palette)) + 1
Ord == SetToSortSeq(objs, LAMBDA x, y : Rank(idmap[x]) < Rank(idmap[y]))              \* std::map order of the identifiers
EntriesOf(r) == [k \in 1..Len(Ord) |-> [id |-> idmap[Ord[k]], idlen |-> IdLen(idmap[Ord[k]]), o |-> Shift(Ord[k], r),
                                         len |-> BinOf(Shift(Ord[k], r)).len, bin |-> BinOf(Shift(Ord[k], r))]]
SizeOf(r) == SumSeq([k \in 1..Len(Ord) |-> 8 + EntriesOf(r)[k].idlen + 8 + EntriesOf(r)[k].len])
TotalSize == 32 + 8 * NR + SumSeq([i \in 1..NR |-> SizeOf(i - 1)])
HeaderBytes == D!Magic \o D!U64(TotalSize) \o D!U64(NR) \o D!U64(0) \o D!Concat([i \in 1..NR |-> D!U64(SizeOf(i - 1))])

InitF ==
  /\ Init /\ fname \in FNameIdx /\ wrap \in Wraps /\ disk = [name |-> ""]
  /\ ~FNames[fname].valid => (objs = 1..MinObj /\ idmap = [o \in 1..7 |-> IdOrder[o]] /\ ~wrap)     \* one reject case per name
RegisterF(o) == Register(o) /\ UNCHANGED <<fname, wrap, disk>>
SaveF ==
  /\ FNames[fname].valid
  /\ Save
  /\ disk' = [name |-> FNames[fname].onDisk, hdr |-> HeaderBytes, total |-> TotalSize,
              ranks |-> [i \in 1..NR |-> [size |-> SizeOf(i - 1), entries |-> EntriesOf(i - 1)]]]
  /\ UNCHANGED <<fname, wrap>>
RejectF ==
  /\ ~FNames[fname].valid /\ ph = "reg" /\ SeqToSet(regs) = objs /\ disk.name # "(rejected)"
  /\ disk' = [name |-> "(rejected)"] /\ UNCHANGED <<ph, objs, idmap, regs, file, rest, got, fname, wrap>>
LoadF == Load /\ UNCHANGED <<fname, wrap, disk>>
RestoreF(o) == Restore(o) /\ UNCHANGED <<fname, wrap, disk>>
NextF == (\E o \in 1..Len(Palette) : RegisterF(o) \/ RestoreF(o)) \/ SaveF \/ LoadF \/ RejectF
SpecF == InitF /\ [][NextF]_fvars

\* ---- properties ----------------------------------------------------------------------------------------
\* every rank gets back, for every identifier, the object IT registered under that identifier
RestoredRightAll == ph = "loaded" =>
  \A i \in 1..NR : \A k \in 1..Len(disk.ranks[i].entries) :
    LET e == disk.ranks[i].entries[k] IN ReadBin(e.bin) = Arrays(Palette[e.o])
\* the documented size arithmetic of the combined file
FileSizeLaw == ph \in {"saved", "loaded"} =>
  /\ Len(disk.hdr) = 32 + 8 * NR
  /\ D!WordAt(disk.hdr, 1) = disk.total /\ D!WordAt(disk.hdr, 2) = NR /\ D!WordAt(disk.hdr, 3) = 0
  /\ \A i \in 1..NR : D!WordAt(disk.hdr, 3 + i) = disk.ranks[i].size
  /\ disk.total = Len(disk.hdr) + SumSeq([i \in 1..NR |-> disk.ranks[i].size])
  /\ disk.ranks[1].size = file.total                                  \* rank 0: the stream checkpoint without its length word
NameLaw == \A k \in 1..Len(FNames) : FNames[k].valid => FNames[k].arg = FNames[k].onDisk

DoneF == (ph = "loaded" /\ SeqToSet(rest) = objs) \/ disk.name = "(rejected)"
EmitF == DoneF =>
  PrintT(ToJson([part |-> "ckfile", nr |-> NR, cdt |-> CDT, cit |-> CIT, den |-> Den, wrap |-> wrap,
                 fname |-> FNames[fname], expect |-> IF disk.name = "(rejected)" THEN "reject" ELSE "ok",
                 ids |-> [k \in 1..Len(regs) |-> idmap[regs[k]]],
                 restore |-> [k \in 1..Len(rest) |-> idmap[rest[k]]],
                 hdr |-> IF disk.name = "(rejected)" THEN <<>> ELSE disk.hdr, total |-> IF disk.name = "(rejected)" THEN 0 ELSE disk.total,
                 ranks |-> [i \in 1..NR |->
                    [objs |-> [k \in 1..Len(regs) |-> [id |-> idmap[regs[k]], c |-> Palette[Shift(regs[k], i - 1)], arrays |-> Arrays(Palette[Shift(regs[k], i - 1)])]],
                     size |-> IF disk.name = "(rejected)" THEN 0 ELSE disk.ranks[i].size,
                     entries |-> IF disk.name = "(rejected)" THEN <<>> ELSE [k \in 1..Len(disk.ranks[i].entries) |->
                                   [id |-> disk.ranks[i].entries[k].id, len |-> disk.ranks[i].entries[k].len, bin |-> disk.ranks[i].entries[k].bin]]]]]))
=============================================================================
