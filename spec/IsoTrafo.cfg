SPECIFICATION Spec
INVARIANTS ExactDomain Emit
CHECK_DEADLOCK FALSE
