SPECIFICATION Spec
CONSTANTS NR = 3 ND = 2 NC = 2 SQUARE = TRUE PVS = {2} BS = 2
INVARIANTS ConvCorrect RoundsAndLengthsMatch NoLostMessage RecvOnce
