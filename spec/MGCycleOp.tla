------------------------------ MODULE MGCycleOp ------------------------------
(* C09 (M): operational transcription of Solver::MultiGrid::_apply_cycle_v / _f / _w with the helper     *)
(* loops _apply_rest / _apply_prol and the W-cycle's _counters array (kernel/solver/multigrid.hpp,       *)
(* lines 1335-2002), one action per loop statement group, serial hierarchy (size_physical = size_virtual,*)
(* no ghost transfer, so last_level = crs_level).  The transcription logs the abstract events of         *)
(* MGCycle.tla; TLC checks for every cycle and every sub-range top..crs of MaxLev+1 levels, and for      *)
(* every left-over content of _counters from earlier applications, that the logged sequence IS the       *)
(* documented cycle Decl(cyc, top, crs) and that the code's own sanity XASSERTs cannot fire.             *)
EXTENDS MGCycle

CONSTANTS MaxLev,        \* levels 0..MaxLev
          CounterInits   \* "few" | "all": which left-over _counters contents are explored

VARIABLES pc, cyc, top, crs,
          i,          \* loop variable of _apply_rest / _apply_prol
          cur, sm,    \* their arguments cur_lvl, cur_smooth
          ret,        \* return label of the running helper
          peak,       \* peak_lvl
          cgs,        \* W-cycle loop counter
          counters,   \* _counters
          log         \* events so far
vars == <<pc, cyc, top, crs, i, cur, sm, ret, peak, cgs, counters, log>>

Levels == 0..MaxLev
last == crs            \* last_level = min(_crs_level, size_physical) = _crs_level in the serial case

LeftOvers ==
  IF CounterInits = "all" THEN [Levels -> {0, 1}]
  ELSE {[l \in Levels |-> 0], [l \in Levels |-> 1], [l \in Levels |-> l % 2], [l \in Levels |-> (l + 1) % 2],
        [l \in Levels |-> IF l < 2 THEN 1 ELSE 0], [l \in Levels |-> 2]}

Init ==
  /\ cyc \in 0..2 /\ crs \in Levels /\ top \in 0..crs
  /\ counters \in LeftOvers
  /\ pc = "start" /\ i = 0 /\ cur = 0 /\ sm = FALSE /\ ret = "none" /\ peak = 0 /\ cgs = 0 /\ log = <<>>

\* ---- helper calls ------------------------------------------------------------------------------------
CallRest(l, s, r) == /\ pc' = "rest" /\ i' = l /\ cur' = l /\ sm' = s /\ ret' = r
CallProl(l, s, r) == /\ pc' = "prol" /\ i' = last /\ cur' = l /\ sm' = s /\ ret' = r

\* _apply_rest: for(i = cur_lvl; i < last_level; ++i) { if(cur_smooth || i > cur_lvl) pre-smooth (or format);
\*              filter defect; restrict to i+1; filter }
RestLoop ==
  /\ pc = "rest"
  /\ IF i < last
     THEN /\ log' = log \o (IF sm \/ i > cur THEN <<Pre(i)>> ELSE <<>>) \o <<Rest(i)>>
          /\ i' = i + 1
          /\ UNCHANGED <<pc, cur, sm, ret>>
     ELSE /\ pc' = ret /\ UNCHANGED <<log, i, cur, sm, ret>>
  /\ UNCHANGED <<cyc, top, crs, peak, cgs, counters>>

\* _apply_prol: for(i = last_level; i > cur_lvl;) { --i; prolongate + correct; if(smoother && (cur_smooth || i > cur_lvl)) post-smooth }
ProlLoop ==
  /\ pc = "prol"
  /\ IF i > cur
     THEN /\ i' = i - 1
          /\ log' = log \o <<Prol(i - 1)>> \o (IF sm \/ (i - 1) > cur THEN <<Post(i - 1)>> ELSE <<>>)
          /\ UNCHANGED <<pc, cur, sm, ret>>
     ELSE /\ pc' = ret /\ UNCHANGED <<log, i, cur, sm, ret>>
  /\ UNCHANGED <<cyc, top, crs, peak, cgs, counters>>

\* _apply_coarse
DoCoarse == log' = log \o <<Coarse(crs)>>

Start ==
  /\ pc = "start"
  /\ CallRest(top, TRUE, CASE cyc = 0 -> "v_crs" [] cyc = 1 -> "f_init" [] cyc = 2 -> "w_crs0")
  /\ UNCHANGED <<cyc, top, crs, peak, cgs, counters, log>>

\* ---- V ------------------------------------------------------------------------------------------------
VCoarse == /\ pc = "v_crs" /\ DoCoarse /\ CallProl(top, TRUE, "done")
           /\ UNCHANGED <<cyc, top, crs, peak, cgs, counters>>

\* ---- F ------------------------------------------------------------------------------------------------
\* if(last_level > 0) for(peak_lvl = last_level - 1; peak_lvl > _top_level; --peak_lvl) {...}
FInit == /\ pc = "f_init"
         /\ IF last > 0 THEN peak' = last - 1 /\ pc' = "f_loop" ELSE pc' = "f_end" /\ UNCHANGED peak
         /\ UNCHANGED <<cyc, top, crs, i, cur, sm, ret, cgs, counters, log>>
FLoop == /\ pc = "f_loop"
         /\ IF peak > top
            THEN DoCoarse /\ CallProl(peak, FALSE, "f_peak")
            ELSE pc' = "f_end" /\ UNCHANGED <<log, i, cur, sm, ret>>
         /\ UNCHANGED <<cyc, top, crs, peak, cgs, counters>>
FPeak == /\ pc = "f_peak" /\ log' = log \o <<Peak(peak)>> /\ CallRest(peak, FALSE, "f_dec")
         /\ UNCHANGED <<cyc, top, crs, peak, cgs, counters>>
FDec  == /\ pc = "f_dec" /\ peak' = peak - 1 /\ pc' = "f_loop"
         /\ UNCHANGED <<cyc, top, crs, i, cur, sm, ret, cgs, counters, log>>
FEnd  == /\ pc = "f_end" /\ DoCoarse /\ CallProl(top, TRUE, "done")
         /\ UNCHANGED <<cyc, top, crs, peak, cgs, counters>>

\* ---- W ------------------------------------------------------------------------------------------------
NumCgs == Pow2(last - top)             \* 1 << (last_level - _top_level)
\* solve coarse; for(i = top; i <= last; ++i) _counters[i] = 0; cgs = 1
WCoarse0 == /\ pc = "w_crs0" /\ DoCoarse
            /\ counters' = [l \in Levels |-> IF l >= top /\ l <= last THEN 0 ELSE counters[l]]
            /\ cgs' = 1 /\ pc' = "w_loop"
            /\ UNCHANGED <<cyc, top, crs, i, cur, sm, ret, peak>>
WLoop == /\ pc = "w_loop"
         /\ IF cgs < NumCgs THEN peak' = last /\ pc' = "w_find" ELSE pc' = "w_check" /\ UNCHANGED peak
         /\ UNCHANGED <<cyc, top, crs, i, cur, sm, ret, cgs, counters, log>>
\* while(peak_lvl > top) { if(_counters[--peak_lvl] == 0) break; }
WFind == /\ pc = "w_find"
         /\ IF peak > top
            THEN /\ peak' = peak - 1
                 /\ pc' = IF counters[peak - 1] = 0 THEN "w_reset" ELSE "w_find"
            ELSE /\ pc' = "w_reset" /\ UNCHANGED peak
         /\ UNCHANGED <<cyc, top, crs, i, cur, sm, ret, cgs, counters, log>>
\* for(i = last-1; i > peak_lvl; --i) _counters[i] = 0;  ++_counters[peak_lvl];
WReset == /\ pc = "w_reset"
          /\ counters' = [l \in Levels |-> IF l <= last - 1 /\ l > peak THEN 0
                                            ELSE IF l = peak THEN counters[l] + 1 ELSE counters[l]]
          /\ CallProl(peak, FALSE, "w_peak")
          /\ UNCHANGED <<cyc, top, crs, peak, cgs, log>>
WPeak == /\ pc = "w_peak" /\ log' = log \o <<Peak(peak)>> /\ CallRest(peak, FALSE, "w_crs")
         /\ UNCHANGED <<cyc, top, crs, peak, cgs, counters>>
WCoarse == /\ pc = "w_crs" /\ DoCoarse /\ cgs' = cgs + 1 /\ pc' = "w_loop"
           /\ UNCHANGED <<cyc, top, crs, i, cur, sm, ret, peak, counters>>
\* sanity check: all level counters above the coarse level must be 1 (XASSERTM -> abort)
WCheck == /\ pc = "w_check"
          /\ IF \A l \in top..(last - 1) : counters[l] = 1
             THEN CallProl(top, TRUE, "done")
             ELSE pc' = "abort" /\ UNCHANGED <<i, cur, sm, ret>>
          /\ UNCHANGED <<cyc, top, crs, peak, cgs, counters, log>>

Finished == pc = "done" /\ UNCHANGED vars    \* stuttering in the final state, so that every other dead end is a deadlock
Next == Finished \/ Start \/ RestLoop \/ ProlLoop \/ VCoarse \/ FInit \/ FLoop \/ FPeak \/ FDec \/ FEnd
        \/ WCoarse0 \/ WLoop \/ WFind \/ WReset \/ WPeak \/ WCoarse \/ WCheck
Spec == Init /\ [][Next]_vars

\* ---- properties ----------------------------------------------------------------------------------------
ASSUME DeclLaws(MaxLev)

\* the code's XASSERTs never fire ("W-cycle sanity check failed")
NoAbort == pc # "abort"
\* the peak level chosen by the counter search is inside the range (XASSERTM(peak_lvl >= _top_level))
PeakInRange == pc \in {"w_reset", "w_peak"} => (peak >= top /\ peak < crs)
\* counters of the active range stay 0/1
CountersBinary == pc \in {"w_loop", "w_find", "w_reset", "w_peak", "w_crs", "w_check"} => \A l \in top..(last - 1) : counters[l] \in {0, 1}
\* the transcription realises the documented cycle
Equivalent == pc = "done" => /\ log = Decl(cyc, top, crs)
                             /\ cyc = 2 => \A l \in top..(crs - 1) : counters[l] = 1
\* every behaviour reaches "done": TLC's deadlock check (the only state with a successor to itself is "done")
=============================================================================
