SPECIFICATION Spec
CONSTANTS Family = "unit" MinN = 0 MaxN = 5 BS = 2 Depth = 1 Pal = 2
INVARIANTS FilterOK ExactDomain ConstraintHolds ComplementHolds IdempotentHolds Emit
CHECK_DEADLOCK FALSE
