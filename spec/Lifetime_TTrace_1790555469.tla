---- MODULE Lifetime_TTrace_1790555469 ----
EXTENDS Sequences, Lifetime, TLCExt, Toolbox, Naturals, TLC

_expression ==
    LET Lifetime_TEExpression == INSTANCE Lifetime_TEExpression
    IN Lifetime_TEExpression!expression
----

_trace ==
    LET Lifetime_TETrace == INSTANCE Lifetime_TETrace
    IN Lifetime_TETrace!trace
----

_inv ==
    ~(
        TLCGet("level") = Len(_TETrace)
        /\
        next = (2)
        /\
        hist = (<<[op |-> "create", args |-> [fam |-> "dv", ty |-> 1, s |-> 1, var |-> "n3"], world |-> [pool |-> <<1>>, slots |-> <<[live |-> TRUE, fam |-> "dv", ty |-> 1, foreign |-> FALSE, arr |-> <<[n |-> 3, tok |-> 101, c |-> 1, k |-> "el", off |-> 0]>>], [live |-> FALSE, fam |-> "", ty |-> 0, foreign |-> FALSE, arr |-> <<>>], [live |-> FALSE, fam |-> "", ty |-> 0, foreign |-> FALSE, arr |-> <<>>]>>]], [op |-> "range", args |-> [src |-> 1, dst |-> 2], world |-> [pool |-> <<1>>, slots |-> <<[live |-> TRUE, fam |-> "dv", ty |-> 1, foreign |-> FALSE, arr |-> <<[n |-> 3, tok |-> 101, c |-> 1, k |-> "el", off |-> 0]>>], [live |-> TRUE, fam |-> "dv", ty |-> 1, foreign |-> TRUE, arr |-> <<[n |-> 2, tok |-> 101, c |-> 1, k |-> "el", off |-> 1]>>], [live |-> FALSE, fam |-> "", ty |-> 0, foreign |-> FALSE, arr |-> <<>>]>>]]>>)
        /\
        pool = (<<[n |-> 3, tok |-> 101, refs |-> 1]>>)
        /\
        slot = (<<[live |-> TRUE, fam |-> "dv", ty |-> 1, foreign |-> FALSE, arr |-> <<[n |-> 3, c |-> 1, k |-> "el", off |-> 0]>>], [live |-> TRUE, fam |-> "dv", ty |-> 1, foreign |-> TRUE, arr |-> <<[n |-> 2, c |-> 1, k |-> "el", off |-> 1]>>], [live |-> FALSE, fam |-> "", ty |-> 0, foreign |-> FALSE, arr |-> <<>>]>>)
    )
----

_init ==
    /\ slot = _TETrace[1].slot
    /\ pool = _TETrace[1].pool
    /\ hist = _TETrace[1].hist
    /\ next = _TETrace[1].next
----

_next ==
    /\ \E i,j \in DOMAIN _TETrace:
        /\ \/ /\ j = i + 1
              /\ i = TLCGet("level")
        /\ slot  = _TETrace[i].slot
        /\ slot' = _TETrace[j].slot
        /\ pool  = _TETrace[i].pool
        /\ pool' = _TETrace[j].pool
        /\ hist  = _TETrace[i].hist
        /\ hist' = _TETrace[j].hist
        /\ next  = _TETrace[i].next
        /\ next' = _TETrace[j].next

\* Uncomment the ASSUME below to write the states of the error trace
\* to the given file in Json format. Note that you can pass any tuple
\* to `JsonSerialize`. For example, a sub-sequence of _TETrace.
    \* ASSUME
    \*     LET J == INSTANCE Json
    \*         IN J!JsonSerialize("Lifetime_TTrace_1790555469.json", _TETrace)

=============================================================================

 Note that you can extract this module `Lifetime_TEExpression`
  to a dedicated file to reuse `expression` (the module in the 
  dedicated `Lifetime_TEExpression.tla` file takes precedence 
  over the module `Lifetime_TEExpression` below).

---- MODULE Lifetime_TEExpression ----
EXTENDS Sequences, Lifetime, TLCExt, Toolbox, Naturals, TLC

expression == 
    [
        \* To hide variables of the `Lifetime` spec from the error trace,
        \* remove the variables below.  The trace will be written in the order
        \* of the fields of this record.
        slot |-> slot
        ,pool |-> pool
        ,hist |-> hist
        ,next |-> next
        
        \* Put additional constant-, state-, and action-level expressions here:
        \* ,_stateNumber |-> _TEPosition
        \* ,_slotUnchanged |-> slot = slot'
        
        \* Format the `slot` variable as Json value.
        \* ,_slotJson |->
        \*     LET J == INSTANCE Json
        \*     IN J!ToJson(slot)
        
        \* Lastly, you may build expressions over arbitrary sets of states by
        \* leveraging the _TETrace operator.  For example, this is how to
        \* count the number of times a spec variable changed up to the current
        \* state in the trace.
        \* ,_slotModCount |->
        \*     LET F[s \in DOMAIN _TETrace] ==
        \*         IF s = 1 THEN 0
        \*         ELSE IF _TETrace[s].slot # _TETrace[s-1].slot
        \*             THEN 1 + F[s-1] ELSE F[s-1]
        \*     IN F[_TEPosition - 1]
    ]

=============================================================================



Parsing and semantic processing can take forever if the trace below is long.
 In this case, it is advised to uncomment the module below to deserialize the
 trace from a generated binary file.

\*
\*---- MODULE Lifetime_TETrace ----
\*EXTENDS IOUtils, Lifetime, TLC
\*
\*trace == IODeserialize("Lifetime_TTrace_1790555469.bin", TRUE)
\*
\*=============================================================================
\*

---- MODULE Lifetime_TETrace ----
EXTENDS Lifetime, TLC

trace == 
    <<
    ([next |-> 1,hist |-> <<>>,pool |-> <<>>,slot |-> <<[live |-> FALSE, fam |-> "", ty |-> 0, foreign |-> FALSE, arr |-> <<>>], [live |-> FALSE, fam |-> "", ty |-> 0, foreign |-> FALSE, arr |-> <<>>], [live |-> FALSE, fam |-> "", ty |-> 0, foreign |-> FALSE, arr |-> <<>>]>>]),
    ([next |-> 2,hist |-> <<[op |-> "create", args |-> [fam |-> "dv", ty |-> 1, s |-> 1, var |-> "n3"], world |-> [pool |-> <<1>>, slots |-> <<[live |-> TRUE, fam |-> "dv", ty |-> 1, foreign |-> FALSE, arr |-> <<[n |-> 3, tok |-> 101, c |-> 1, k |-> "el", off |-> 0]>>], [live |-> FALSE, fam |-> "", ty |-> 0, foreign |-> FALSE, arr |-> <<>>], [live |-> FALSE, fam |-> "", ty |-> 0, foreign |-> FALSE, arr |-> <<>>]>>]]>>,pool |-> <<[n |-> 3, tok |-> 101, refs |-> 1]>>,slot |-> <<[live |-> TRUE, fam |-> "dv", ty |-> 1, foreign |-> FALSE, arr |-> <<[n |-> 3, c |-> 1, k |-> "el", off |-> 0]>>], [live |-> FALSE, fam |-> "", ty |-> 0, foreign |-> FALSE, arr |-> <<>>], [live |-> FALSE, fam |-> "", ty |-> 0, foreign |-> FALSE, arr |-> <<>>]>>]),
    ([next |-> 2,hist |-> <<[op |-> "create", args |-> [fam |-> "dv", ty |-> 1, s |-> 1, var |-> "n3"], world |-> [pool |-> <<1>>, slots |-> <<[live |-> TRUE, fam |-> "dv", ty |-> 1, foreign |-> FALSE, arr |-> <<[n |-> 3, tok |-> 101, c |-> 1, k |-> "el", off |-> 0]>>], [live |-> FALSE, fam |-> "", ty |-> 0, foreign |-> FALSE, arr |-> <<>>], [live |-> FALSE, fam |-> "", ty |-> 0, foreign |-> FALSE, arr |-> <<>>]>>]], [op |-> "range", args |-> [src |-> 1, dst |-> 2], world |-> [pool |-> <<1>>, slots |-> <<[live |-> TRUE, fam |-> "dv", ty |-> 1, foreign |-> FALSE, arr |-> <<[n |-> 3, tok |-> 101, c |-> 1, k |-> "el", off |-> 0]>>], [live |-> TRUE, fam |-> "dv", ty |-> 1, foreign |-> TRUE, arr |-> <<[n |-> 2, tok |-> 101, c |-> 1, k |-> "el", off |-> 1]>>], [live |-> FALSE, fam |-> "", ty |-> 0, foreign |-> FALSE, arr |-> <<>>]>>]]>>,pool |-> <<[n |-> 3, tok |-> 101, refs |-> 1]>>,slot |-> <<[live |-> TRUE, fam |-> "dv", ty |-> 1, foreign |-> FALSE, arr |-> <<[n |-> 3, c |-> 1, k |-> "el", off |-> 0]>>], [live |-> TRUE, fam |-> "dv", ty |-> 1, foreign |-> TRUE, arr |-> <<[n |-> 2, c |-> 1, k |-> "el", off |-> 1]>>], [live |-> FALSE, fam |-> "", ty |-> 0, foreign |-> FALSE, arr |-> <<>>]>>])
    >>
----


=============================================================================

---- CONFIG Lifetime_TTrace_1790555469 ----
CONSTANTS
    Slots = { 1 , 2 , 3 }
    Fams = { "dv" , "csr" }
    Depth = 3
    EmitOn = FALSE

INVARIANT
    _inv

CHECK_DEADLOCK
    \* CHECK_DEADLOCK off because of PROPERTY or INVARIANT above.
    FALSE

INIT
    _init

NEXT
    _next

CONSTANT
    _TETrace <- _trace

ALIAS
    _expression
=============================================================================
\* Generated on Mon Sep 28 00:31:11 UTC 2026