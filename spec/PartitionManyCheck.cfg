SPECIFICATION Spec
INVARIANT EmitM
CHECK_DEADLOCK FALSE
