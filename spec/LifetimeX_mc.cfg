SPECIFICATION Spec
CONSTANTS Slots = {1,2} Fams = {"dv","dvb","sv","csr","bcsr","cscr","banded","dm","tv"} Depth = 3 EmitOn = FALSE Ops = {"all"} Tys = {1,2} CModes = {"shallow","layout","weak","deep","allocate"} Vars = {"all"}
INVARIANTS RefCount NoLeak NoDangling EmptyAtEnd NullNeverCounted TypeOK LayoutOK
PROPERTIES Frame ConstSource
CHECK_DEADLOCK FALSE
