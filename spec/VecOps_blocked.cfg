SPECIFICATION Spec
CONSTANTS Family = "blocked" MaxLen = 4 Palette = 2
INVARIANTS Frame ExactDomain AliasLaws ComposeLaw BlockedIsPlain Emit
CHECK_DEADLOCK FALSE
