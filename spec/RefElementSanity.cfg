SPECIFICATION Spec
INVARIANTS LayoutOK DualOK UnityOK UnityP1OK HessOK Emit
CHECK_DEADLOCK FALSE
