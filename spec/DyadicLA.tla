------------------------------- MODULE DyadicLA -------------------------------
(* C08 extension: dense linear algebra on dyadic rationals (module Dyadic) for     *)
(* the saddle-point preconditioners: eager tuples of any length, rectangular       *)
(* products, comparison of magnitudes, and THE inverse of a small matrix.          *)
(*                                                                                 *)
(* Inverse(nn, M) returns [st, a]:                                                 *)
(*   st = "ok"      a is the inverse of M (the law  M a = a M = I  is checked by   *)
(*                  TLC wherever an inverse is used, see InverseLaw), and M lies   *)
(*                  in the exact floating point domain of Math::invert_matrix:     *)
(*                  the elimination is carried out in the order that routine uses  *)
(*                  (Gauss-Jordan, pivot = first largest |diagonal entry| among    *)
(*                  the not yet eliminated indices, the row is multiplied by the   *)
(*                  reciprocal of the pivot) and every pivot met is +-2^k, so      *)
(*                  every intermediate quantity is a dyadic rational with a small  *)
(*                  numerator and the double precision result is exact.            *)
(*   st = "zero"    a zero pivot is met (the routine divides by zero; all further  *)
(*                  entries are inf/NaN).  Every singular matrix ends here or in   *)
(*                  "inexact"; a regular matrix whose remaining diagonal vanishes  *)
(*                  ends here, too (the routine pivots on the diagonal only).      *)
(*   st = "inexact" some pivot is not a power of two: outside the exact domain.    *)
(* The inverse itself is unique, so the order of elimination matters only for the  *)
(* decision whether the floating point computation is exact.                       *)
EXTENDS Dyadic

\* explicit tuple of any length (a function expression alone is evaluated lazily by TLC, on every access again)
Vec(len, F(_)) == [i \in 1..len |-> F(i)] \o <<>>
MatOf(r, c, F(_, _)) == Vec(r, LAMBDA i : Vec(c, LAMBDA j : F(i, j)))

\* the same values as Add / Sub / Mul of module Dyadic, with short cuts for zero and integer operands (most entries of the sparse
\* systems are zero or integers; TLC evaluates the general normalisation an order of magnitude slower)
IsZero(a) == a[1] = 0 /\ a[2] = 0
FMul(a, b) == IF IsZero(a) THEN (IF IsExact(b) THEN Zero ELSE Inexact)
              ELSE IF IsZero(b) THEN (IF IsExact(a) THEN Zero ELSE Inexact)
              ELSE IF a[2] = 0 /\ b[2] = 0 THEN <<a[1] * b[1], 0>> ELSE Mul(a, b)
FAdd(a, b) == IF a[2] = 0 /\ b[2] = 0 THEN <<a[1] + b[1], 0>> ELSE IF IsZero(a) THEN b ELSE IF IsZero(b) THEN a ELSE Add(a, b)
FSub(a, b) == IF a[2] = 0 /\ b[2] = 0 THEN <<a[1] - b[1], 0>> ELSE IF IsZero(b) THEN a ELSE Sub(a, b)
RECURSIVE FSumTo(_, _)
FSumTo(F(_), k) == IF k = 0 THEN Zero ELSE FAdd(FSumTo(F, k - 1), F(k))

ZeroVec(len) == Vec(len, LAMBDA i : Zero)
UnitVec(len, k) == Vec(len, LAMBDA i : IF i = k THEN One ELSE Zero)
IdMat(nn) == MatOf(nn, nn, LAMBDA i, j : IF i = j THEN One ELSE Zero)
RVAdd(u, v) == Vec(Len(u), LAMBDA i : FAdd(u[i], v[i]))
RVSub(u, v) == Vec(Len(u), LAMBDA i : FSub(u[i], v[i]))
RVScale(a, v) == Vec(Len(v), LAMBDA i : FMul(a, v[i]))
RVMul(u, v) == Vec(Len(u), LAMBDA i : FMul(u[i], v[i]))
DDot(u, v) == FSumTo(LAMBDA i : FMul(u[i], v[i]), Len(u))
\* r x c matrix times vector of length c; product of an r x k and a k x c matrix
RMatVec(r, c, A, x) == Vec(r, LAMBDA i : FSumTo(LAMBDA j : FMul(A[i][j], x[j]), c))
RMatMul(r, k, c, A, B) == MatOf(r, c, LAMBDA i, j : FSumTo(LAMBDA l : FMul(A[i][l], B[l][j]), k))
MatExact(r, c, A) == \A i \in 1..r : \A j \in 1..c : IsExact(A[i][j])
SubVec(v, from, len) == Vec(len, LAMBDA i : v[from + i - 1])

\* |a| < |b| for exact values
AbsLess(a, b) == AbsI(a[1]) * Pow2(b[2]) < AbsI(b[1]) * Pow2(a[2])

\* ---- Math::invert_matrix -------------------------------------------------------------------------------
RECURSIVE PivPosR(_, _, _, _, _)
PivPosR(nn, a, p, j, best) ==
  IF j > nn THEN best
  ELSE PivPosR(nn, a, p, j + 1, IF AbsLess(a[p[best]][p[best]], a[p[j]][p[j]]) THEN j ELSE best)

RECURSIVE GJ(_, _, _, _)
GJ(nn, a, p, k) ==
  IF k > nn THEN [st |-> "ok", a |-> a]
  ELSE
    LET best == PivPosR(nn, a, p, k + 1, k)
        p2 == Vec(nn, LAMBDA j : IF j = k THEN p[best] ELSE IF j = best THEN p[k] ELSE p[j])
        pk == p2[k]
        piv == a[pk][pk]
    IN IF piv[1] = 0 THEN [st |-> "zero", a |-> a]
       ELSE IF ~IsPow2(piv) THEN [st |-> "inexact", a |-> a]
       ELSE LET rinv == Div(One, piv)
                rowp == Vec(nn, LAMBDA j : FMul(IF j = pk THEN One ELSE a[pk][j], rinv))
                a2 == Vec(nn, LAMBDA i : IF i = pk THEN rowp
                            ELSE LET f == a[i][pk] IN
                                 IF IsZero(f) THEN a[i]         \* nothing to eliminate in this row
                                 ELSE Vec(nn, LAMBDA j : FSub(IF j = pk THEN Zero ELSE a[i][j], FMul(rowp[j], f))))
            IN GJ(nn, a2, p2, k + 1)

Inverse(nn, M) == GJ(nn, M, Vec(nn, LAMBDA i : i), 1)
\* the defining property of the inverse
InverseLaw(nn, M, X) == RMatMul(nn, nn, nn, M, X) = IdMat(nn) /\ RMatMul(nn, nn, nn, X, M) = IdMat(nn)

\* The inverse by Gauss-Jordan elimination with ROW pivoting on the augmented matrix [M | I] (first power-of-two entry of the
\* column among the remaining rows): finds the inverse of every regular matrix whose elimination stays dyadic, in particular of
\* regular matrices on which the diagonal pivoting of Math::invert_matrix meets a zero (st = "zero" above).
\* st = "ok" (a = M^-1), "singular" (a column without pivot), "inexact" (only non-power-of-two candidates)
RECURSIVE GJRow(_, _, _)
GJRow(nn, a, k) ==       \* a: nn x 2nn
  IF k > nn THEN [st |-> "ok", a |-> MatOf(nn, nn, LAMBDA i, j : a[i][nn + j])]
  ELSE LET cand == {i \in k..nn : ~IsZero(a[i][k])}
           good == {i \in cand : IsPow2(a[i][k])}
       IN IF cand = {} THEN [st |-> "singular", a |-> <<>>]
          ELSE IF good = {} THEN [st |-> "inexact", a |-> <<>>]
          ELSE LET r == CHOOSE i \in good : \A j \in good : i <= j
                   rinv == Div(One, a[r][k])
                   rowp == Vec(2 * nn, LAMBDA j : FMul(a[r][j], rinv))
                   sw(i) == IF i = k THEN r ELSE IF i = r THEN k ELSE i           \* rows k and r exchanged
                   a2 == Vec(nn, LAMBDA i : IF i = k THEN rowp
                               ELSE LET src == a[sw(i)]  f == src[k] IN
                                    IF IsZero(f) THEN src ELSE Vec(2 * nn, LAMBDA j : FSub(src[j], FMul(rowp[j], f))))
               IN GJRow(nn, a2, k + 1)
InverseRP(nn, M) == GJRow(nn, MatOf(nn, 2 * nn, LAMBDA i, j : IF j <= nn THEN M[i][j] ELSE IF j - nn = i THEN One ELSE Zero), 1)

\* evidently singular: a zero row or a zero column (then the routine meets an exact zero pivot whatever happened before)
HasZeroLine(nn, M) == \/ \E i \in 1..nn : \A j \in 1..nn : M[i][j] = Zero
                      \/ \E j \in 1..nn : \A i \in 1..nn : M[i][j] = Zero

SetSeq(S) == LET RECURSIVE Go(_) Go(T) == IF T = {} THEN <<>> ELSE LET x == CHOOSE y \in T : \A z \in T : y <= z IN <<x>> \o Go(T \ {x}) IN Go(S)
=============================================================================
