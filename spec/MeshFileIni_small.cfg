SPECIFICATION Spec
CONSTANTS Variants = {0} KeySets = {{}, {1, 3}} SecShapes = {0, 3} Muts = TRUE
INVARIANTS Sane Emit
CHECK_DEADLOCK FALSE
