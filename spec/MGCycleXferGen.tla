---------------------------- MODULE MGCycleXferGen ----------------------------
(* C09 (G, life-cycle of the transfer operators): "... performs exactly the documented cycle ... using the    *)
(* GIVEN transfer operators".  The transfer object a multigrid level is given is rarely the object that was   *)
(* assembled: applications clone it (LAFEM::Transfer::clone / Global::Transfer::clone, every clone mode),      *)
(* convert it to another data / index type and back (mixed precision hierarchies), move it into containers,   *)
(* fill it through the get_mat_*() accessors and compile() it.  This module states what these operations do   *)
(* to the THREE maps a transfer object carries and generates every history                                     *)
(*                                                                                                             *)
(*     build  ( life-cycle operation )^{<= Depth}   then   prol / rest / trunc  and  MultiGrid::apply          *)
(*                                                                                                             *)
(* for the three classes of transfer objects (kind): "lafem" LAFEM::Transfer, "global" Global::Transfer        *)
(* without coarse muxer, "global-muxer" Global::Transfer whose process is child and parent of the coarse       *)
(* muxer (restriction / truncation / prolongation go through the temporary vector and Muxer::join / split).    *)
(*                                                                                                             *)
(* Abstract state of a transfer object: which of the level's matrices its three slots hold,                    *)
(*     obj = [p |-> "P" | "E",  r |-> "R" | "T" | "E",  t |-> "R" | "T" | "E"]     ("E" = empty matrix)        *)
(* P = prolongation Pmat[l], R = restriction Rmat[l], T = truncation Tmat[l]: three DIFFERENT generic matrices *)
(* over Z_p (R and T have the same shape, so an exchange of the two slots is not a size error).                *)
(*   - clone (any mode that carries values), convert (same type, other index type and back, float and back;    *)
(*     also onto itself), move construction, move assignment (onto an object that held other matrices; onto    *)
(*     itself) and compile() PRESERVE the three slots;                                                         *)
(*   - the accessors get_mat_*() are references to the slots: assigning fills a slot ("fill"), exchanging      *)
(*     get_mat_rest() and get_mat_trunc() exchanges the two slots ("swap-rt": the only operation after which   *)
(*     rest() legitimately applies T).                                                                         *)
(* Contract of the operations of an object with slots obj on level l:                                          *)
(*     prol(x) = MatOf(l, obj.p) x      rest(x) = MatOf(l, obj.r) x      trunc(x) = MatOf(l, obj.t) x           *)
(* and, if obj.p = "P" and obj.r = "R" on every level, a multigrid application through these objects is the    *)
(* documented cycle with the ORIGINAL operators: Apply of MGCycle.tla (truncation takes no part in a cycle).   *)
(* The invariant Emit prints one case per reachable history for harness/c09_mgxlife.cpp; the level data is     *)
(* printed once (DataRecord).                                                                                  *)
EXTENDS MGCycle, Json

CONSTANTS Kinds,   \* classes of transfer objects, subset of {"lafem", "global", "global-muxer"}
          NLev,    \* number of levels of the hierarchy (2..6): transfers on levels 0..NLev-2
          Depth,   \* maximal number of life-cycle operations after the construction
          OpSet    \* life-cycle operations explored (subset of LifeOps \cup {"swap-rt", "fill"})

ASSUME NLev \in 2..(MaxLevAll + 1) /\ Depth \in 0..4

\* ---- level data: the truncation matrix -----------------------------------------------------------------------
Tmat == [l \in 0..(MaxLevAll - 1) |-> GenMat(10, l, Dim(l + 1), Dim(l))]   \* truncation l -> l+1
\* a swap of restriction and truncation is visible on every level (row by row)
ASSUME \A l \in 0..(MaxLevAll - 1) : \A i \in 1..Dim(l + 1) : Tmat[l][i] # Rmat[l][i]

MatOf(l, s) == CASE s = "P" -> Pmat[l] [] s = "R" -> Rmat[l] [] s = "T" -> Tmat[l]

\* ---- operations ------------------------------------------------------------------------------------------------
Builds == {"ctor3",      \* Transfer(P, R, T)
           "ctor2",      \* Transfer(P, R): no truncation matrix
           "default"}    \* Transfer(): nothing yet
\* operations that preserve the slots
LifeOps == {"clone-default", "clone-shallow", "clone-weak", "clone-deep", "clone-layout",
            "convert", "convert-index", "convert-float", "convert-self",
            "move-ctor", "move-assign", "move-self", "compile"}
AllOps == LifeOps \cup {"swap-rt", "fill"}
ASSUME OpSet \subseteq AllOps

Built(b) == CASE b = "ctor3" -> [p |-> "P", r |-> "R", t |-> "T"]
              [] b = "ctor2" -> [p |-> "P", r |-> "R", t |-> "E"]
              [] b = "default" -> [p |-> "E", r |-> "E", t |-> "E"]
\* an object without prolongation / restriction can only be filled
Usable(o) == o.p # "E" /\ o.r # "E"
CanDo(o, op) == CASE op = "fill" -> (o.p = "E" \/ o.r = "E" \/ o.t = "E")
                    [] op = "swap-rt" -> Usable(o) /\ o.t # "E"
                    [] OTHER -> Usable(o)
\* "fill" assigns the level's matrix to every EMPTY slot through the accessors (and compiles)
Effect(o, op) == CASE op = "fill" -> [p |-> IF o.p = "E" THEN "P" ELSE o.p, r |-> IF o.r = "E" THEN "R" ELSE o.r, t |-> IF o.t = "E" THEN "T" ELSE o.t]
                   [] op = "swap-rt" -> [p |-> o.p, r |-> o.t, t |-> o.r]
                   [] OTHER -> o

VARIABLES kind, obj, hist
vars == <<kind, obj, hist>>

Init == /\ kind \in Kinds
        /\ \E b \in Builds : obj = Built(b) /\ hist = <<b>>
Next == /\ Len(hist) <= Depth
        /\ \E op \in OpSet : /\ CanDo(obj, op)
                             /\ obj' = Effect(obj, op)
                             /\ hist' = Append(hist, op)
        /\ UNCHANGED kind
Spec == Init /\ [][Next]_vars

\* ---- invariants of the specification itself ---------------------------------------------------------------------
\* the prolongation slot never holds anything but P; an object without truncation matrix restricts with R; otherwise the
\* restriction and truncation slots hold R and T in the parity of the number of exchanges - nothing else changes a slot
Count(s, x) == Cardinality({i \in 1..Len(s) : s[i] = x})
SlotLaw ==
  LET swapped == Count(hist, "swap-rt") % 2 = 1 IN
  /\ obj.p \in {"P", "E"}
  /\ Usable(obj) => IF obj.t = "E" THEN obj.r = "R" /\ Count(hist, "swap-rt") = 0
                    ELSE obj.r = (IF swapped THEN "T" ELSE "R") /\ obj.t = (IF swapped THEN "R" ELSE "T")

\* ---- expected results ------------------------------------------------------------------------------------------------
\* test vectors of the direct operations: an arbitrary (unfiltered) vector of every level
XVec(l) == DefectRaw(4, l)
Direct(o) == [l \in 1..(NLev - 1) |->
  [prol  |-> IF o.p = "E" THEN <<>> ELSE MatVec(MatOf(l - 1, o.p), XVec(l)),
   rest  |-> IF o.r = "E" THEN <<>> ELSE MatVec(MatOf(l - 1, o.r), XVec(l - 1)),
   trunc |-> IF o.t = "E" THEN <<>> ELSE MatVec(MatOf(l - 1, o.t), XVec(l - 1))]]
\* constant-level: evaluated once per distinct slot content
DirectTab == [o \in [p : {"P", "E"}, r : {"R", "T", "E"}, t : {"R", "T", "E"}] |-> Direct(o)]

\* multigrid applications over levels 0..NLev-1 (fixed coarse grid correction: the real arithmetic is exact integer
\* arithmetic reduced modulo p by the system filters, see the harness): every cycle, with and without peak smoothers
Flags(peak) == [l \in 0..MaxLevAll |-> [pre |-> TRUE, post |-> TRUE, peak |-> peak, cs |-> TRUE]]
AppCfgs == <<[cyc |-> 0, peak |-> TRUE], [cyc |-> 1, peak |-> TRUE], [cyc |-> 2, peak |-> TRUE], [cyc |-> 1, peak |-> FALSE], [cyc |-> 2, peak |-> FALSE]>>
MkXApp(a) ==
  LET c == [top |-> 0, crs |-> NLev - 1, adapt |-> 0, fl |-> Flags(a.peak), share |-> FALSE]
      r == Apply(c, a.cyc, Defect(1, 0))
  IN [cyc |-> a.cyc, peak |-> a.peak,
      calls |-> SelectSeq(Calls(Decl(a.cyc, 0, NLev - 1), c.fl), LAMBDA e : EvKind(e) \in {KPre, KPost, KPeak, KCoarse}),
      cor |-> r.cor]
ExpApps == [i \in 1..Len(AppCfgs) |-> MkXApp(AppCfgs[i])]
MGReady(o) == o.p = "P" /\ o.r = "R"

Emit == Usable(obj) =>
  PrintT(ToJson([kind |-> kind, N |-> NLev, seed |-> Seed, build |-> hist[1], ops |-> SubSeq(hist, 2, Len(hist)),
                 slots |-> obj, direct |-> DirectTab[obj],
                 apps |-> IF MGReady(obj) THEN ExpApps ELSE <<>>]))

\* the level data, printed once; the harness builds its matrices from this record
DataRecord ==
  LET n == NLev IN
  [kind |-> "data", seed |-> Seed, N |-> n, p |-> P,
   dims |-> [l \in 1..n |-> Dim(l - 1)],
   fkind |-> [l \in 1..n |-> FKinds[l - 1]], fp |-> [l \in 1..n |-> FP[l - 1]], fd |-> [l \in 1..n |-> FD[l - 1]],
   A |-> [l \in 1..n |-> Amat[l - 1]], Spre |-> [l \in 1..n |-> Spre[l - 1]], Spost |-> [l \in 1..n |-> Spost[l - 1]],
   Speak |-> [l \in 1..n |-> Speak[l - 1]], C |-> [l \in 1..n |-> Csol[l - 1]],
   Pm |-> [l \in 1..(n - 1) |-> Pmat[l - 1]], Rm |-> [l \in 1..(n - 1) |-> Rmat[l - 1]], Tm |-> [l \in 1..(n - 1) |-> Tmat[l - 1]],
   x |-> [l \in 1..n |-> XVec(l - 1)], defect |-> Defect(1, 0)]
ASSUME PrintT(ToJson(DataRecord))
=============================================================================
