---------------------------- MODULE PersistDistFmt ----------------------------
(* C05 extension: the file formats of FEAT::DistFileIO                       *)
(* (kernel/util/dist_file_io.hpp) as pure definitions over BYTE sequences.   *)
(*                                                                          *)
(* Combined file (write_combined / read_combined), as documented in the      *)
(* class comment:                                                            *)
(*     H | S | C | P                                                         *)
(*  H  32 bytes = four u64: magic "FEAT3CDF", total file size in bytes,      *)
(*     number of processes that wrote the file, size of the common buffer    *)
(*  S  one u64 per process: size of its private buffer                       *)
(*  C  the common buffer (written by the root only)                          *)
(*  P  the private buffers in rank order                                     *)
(* total = 32 + 8 * n + |C| + |P0| + ... + |Pn-1|                            *)
(* Ordered file (write_ordered): the private buffers in rank order, nothing  *)
(* else.  Sequence files: one file per rank, the name is the pattern with    *)
(* its block of asterisks replaced by the zero padded rank.                  *)
(*                                                                          *)
(* ParseCombined is the READER, written from the file alone: it rejects a    *)
(* file that is not a combined file for n processes (magic, process count,   *)
(* recorded total size differing from the actual size = truncated / extended *)
(* file, size table inconsistent with the total).                            *)
EXTENDS Integers, Sequences, FiniteSets

\* u64, little endian (values < 2^31: TLC integers are 32 bit)
U64(x) == <<x % 256, (x \div 256) % 256, (x \div 65536) % 256, (x \div 16777216) % 256, 0, 0, 0, 0>>
\* k-th u64 word of a byte sequence (k = 0, 1, ...); -1 if it does not fit 31 bits
WordAt(b, k) ==
  LET o == 8 * k IN
  IF b[o + 4] >= 128 \/ b[o + 5] # 0 \/ b[o + 6] # 0 \/ b[o + 7] # 0 \/ b[o + 8] # 0 THEN 0 - 1
  ELSE b[o + 1] + 256 * b[o + 2] + 65536 * b[o + 3] + 16777216 * b[o + 4]
Magic == <<70, 69, 65, 84, 51, 67, 68, 70>>           \* "FEAT3CDF" = 0x4644433354414546 little endian
Concat(ss) == LET F[i \in 0..Len(ss)] == IF i = 0 THEN <<>> ELSE F[i-1] \o ss[i] IN F[Len(ss)]
SumLen(ss) == LET F[i \in 0..Len(ss)] == IF i = 0 THEN 0 ELSE F[i-1] + Len(ss[i]) IN F[Len(ss)]
\* offset of private buffer r (1-based index) behind the common buffer
OffsetOf(sizes, r) == LET F[i \in 0..Len(sizes)] == IF i = 0 THEN 0 ELSE F[i-1] + sizes[i] IN F[r - 1]

CombinedSize(common, bufs) == 32 + 8 * Len(bufs) + Len(common) + SumLen(bufs)
CombinedFile(common, bufs) ==
  Magic \o U64(CombinedSize(common, bufs)) \o U64(Len(bufs)) \o U64(Len(common))
  \o Concat([r \in 1..Len(bufs) |-> U64(Len(bufs[r]))]) \o common \o Concat(bufs)
OrderedFile(bufs) == Concat(bufs)

No(why) == [ok |-> FALSE, why |-> why, common |-> <<>>, bufs |-> <<>>]
ParseCombined(file, n) ==
  IF Len(file) < 32 THEN No("header")
  ELSE IF SubSeq(file, 1, 8) # Magic THEN No("magic")
  ELSE IF WordAt(file, 2) # n THEN No("nprocs")
  ELSE IF WordAt(file, 1) # Len(file) THEN No("size")
  ELSE IF Len(file) < 32 + 8 * n THEN No("size")
  ELSE LET cs == WordAt(file, 3)
           sz == [r \in 1..n |-> WordAt(file, 3 + r)]
           tot == LET F[i \in 0..n] == IF i = 0 THEN 0 ELSE F[i-1] + sz[i] IN F[n]
           base == 32 + 8 * n
       IN  IF cs < 0 \/ (\E r \in 1..n : sz[r] < 0) \/ base + cs + tot # Len(file) THEN No("table")
           ELSE [ok |-> TRUE, why |-> "", common |-> SubSeq(file, base + 1, base + cs),
                 bufs |-> [r \in 1..n |-> SubSeq(file, base + cs + OffsetOf(sz, r) + 1, base + cs + OffsetOf(sz, r) + sz[r])]]

\* rank file name of a sequence pattern  pre ***..* post
Digits(x) == IF x < 10 THEN <<x>> ELSE IF x < 100 THEN <<x \div 10, x % 10>> ELSE <<x \div 100, (x \div 10) % 10, x % 10>>
DigitStr(d) == CASE d = 0 -> "0" [] d = 1 -> "1" [] d = 2 -> "2" [] d = 3 -> "3" [] d = 4 -> "4" [] d = 5 -> "5" [] d = 6 -> "6" [] d = 7 -> "7" [] d = 8 -> "8" [] d = 9 -> "9"
StrCat(ss) == LET F[i \in 0..Len(ss)] == IF i = 0 THEN "" ELSE F[i-1] \o ss[i] IN F[Len(ss)]
Padded(x, n) == LET d == Digits(x) IN StrCat([i \in 1..(IF n > Len(d) THEN n - Len(d) ELSE 0) |-> "0"]) \o StrCat([i \in 1..Len(d) |-> DigitStr(d[i])])
Stars(n) == StrCat([i \in 1..n |-> "*"])
PatternStr(p) == p.pre \o Stars(p.stars) \o p.post
SeqName(p, rank) == p.pre \o Padded(rank, p.stars) \o p.post
=============================================================================
