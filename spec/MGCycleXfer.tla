------------------------------ MODULE MGCycleXfer ------------------------------
(* C09 (V, transfer operators): "... performs exactly the documented cycle ... using the given transfer   *)
(* operators" for the transfer classes the multigrid is really used with (kernel/lafem/transfer.hpp after  *)
(* a data / index type conversion, kernel/global/transfer.hpp with and without a coarse-level muxer).      *)
(* harness/c09_mgxfer.cpp applies one cycle to the same defect on the reference LAFEM hierarchy            *)
(* (double/Index) and on every variant hierarchy and records, one ndjson record per (variant, run):        *)
(*   [variant, lmax, nlev, cyc, adapt, peak, steps, finite, dev, calls, ref_calls, prol_ok, rest_ok, trunc_ok] *)
(*   dev       max|cor_variant - cor_reference| / max|cor_reference| in units of the machine epsilon of    *)
(*             the variant's data type (ceil)                                                              *)
(*   calls     smoother / coarse solver calls (kind*16 + level) from FEAT's Statistics expression log      *)
(*   *_ok      prol / rest / trunc of the CONVERTED LAFEM::Transfer equal the original matrices            *)
(*             (structure, converted values, products of small-integer vectors within one rounding bound)  *)
(* Variants "clone" / "global-clone": the LAFEM::Transfer / Global::Transfer objects went through            *)
(* clone (all value-carrying modes; 1 or 3 times) and moves before the multigrid was built (the exact, exhaustive *)
(* version of these life-cycle histories is spec/MGCycleXferGen.tla).                                       *)
(* Contract:                                                                                               *)
(*   SameMap          a conversion of the index type, the Global:: container layer on one process, clone and *)
(*                    move do not change a single bit of the correction; a conversion to float changes it by at *)
(*                    most FloatBound float epsilons (forward error of one cycle, stated safety factor)     *)
(*   CallsAccepted    the calls are those of the documented cycle Decl(cyc, 0, nlev-1), on every variant    *)
(*   TransferOpsAgree the converted transfer object restricts with the restriction, prolongates with the    *)
(*                    prolongation and truncates with the truncation matrix it was converted from           *)
EXTENDS MGCycle, Json, IOUtils

CONSTANT FloatBound

Runs == ndJsonDeserialize(IOEnv.TRACE)

VARIABLE k
Init == k = 1
Next == k < Len(Runs) /\ k' = k + 1
Spec == Init /\ [][Next]_k

Run == Runs[k]
Variants == {"index", "float", "global", "global-muxer", "clone", "global-clone"}
Allowed(v) == IF v = "float" THEN FloatBound ELSE 0
FlagsOfRun(r) == [l \in 0..MaxLevAll |-> [pre |-> TRUE, post |-> TRUE, peak |-> r.peak, cs |-> TRUE]]
ExpCalls(r) == SelectSeq(Calls(Decl(r.cyc, 0, r.nlev - 1), FlagsOfRun(r)), LAMBDA e : EvKind(e) \in {KPre, KPost, KPeak, KCoarse})

WellFormed == Run.variant \in Variants /\ Run.nlev \in 1..(MaxLevAll + 1) /\ Run.cyc \in 0..2 /\ Run.adapt \in 0..2 /\ Run.finite
SameMap == Run.dev <= Allowed(Run.variant)
CallsAccepted == Run.calls = ExpCalls(Run) /\ Run.ref_calls = ExpCalls(Run)
TransferOpsAgree == Run.prol_ok /\ Run.rest_ok /\ Run.trunc_ok
\* every variant occurs (the validation is not vacuous)
AllVariantsRecorded == \A v \in Variants : \E j \in 1..Len(Runs) : Runs[j].variant = v
=============================================================================
