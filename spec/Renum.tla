------------------------------- MODULE Renum -------------------------------
(* C13: local (patch-wise) numberings of degrees of freedom and the mirrors  *)
(* they induce.                                                              *)
(*                                                                           *)
(* A patch holds a SET S of global dofs; its local numbering is a sequence   *)
(* q (a permutation of S): local dof i-1 (0-based in the code) is global     *)
(* dof q[i].  FEAT does not promise any relation between the local           *)
(* numberings of two patches or between a local numbering and the global     *)
(* one.  What both sides of a mirror pair must agree on is the order of the  *)
(* BUFFER: entry k of the buffer exchanged between r and s belongs to the    *)
(* k-th shared dof in a common order - here the ascending global dof order.  *)
(* The mirror of patch r for the shared set T is therefore the sequence of   *)
(* local positions of the dofs of T in ascending global order; it is         *)
(* monotone for the ascending local numbering and NOT monotone in general.   *)
(*                                                                           *)
(* Renumbering kinds (applied to the ascending sequence of S):               *)
(*   0 identity   1 reversal   2 rotation by one   3 rotation by two         *)
(*   4 first two exchanged   5 last two exchanged                            *)
(* (kinds 0..5 are all permutations of a patch of three dofs).               *)
EXTENDS Integers, Sequences, FiniteSets

RnSorted(S) == [i \in 1..Cardinality(S) |-> CHOOSE d \in S : Cardinality({e \in S : e < d}) = i - 1]

RnApply(q, k) ==
  LET n == Len(q) IN
  CASE k = 0 -> q
    [] k = 1 -> [i \in 1..n |-> q[n + 1 - i]]
    [] k = 2 -> [i \in 1..n |-> q[(i % n) + 1]]
    [] k = 3 -> [i \in 1..n |-> q[((i + 1) % n) + 1]]
    [] k = 4 -> [i \in 1..n |-> IF n >= 2 /\ i = 1 THEN q[2] ELSE IF n >= 2 /\ i = 2 THEN q[1] ELSE q[i]]
    [] OTHER -> [i \in 1..n |-> IF n >= 2 /\ i = n THEN q[n - 1] ELSE IF n >= 2 /\ i = n - 1 THEN q[n] ELSE q[i]]

\* the local numbering of kind k of the patch S
RnOrder(S, k) == RnApply(RnSorted(S), k)
\* kind k is the first kind that produces this numbering of S (de-duplication: on one or two dofs several kinds coincide)
RnCanon(S, k) == \A j \in 0..(k - 1) : RnOrder(S, j) # RnOrder(S, k)
\* local position (1-based) of global dof d in the numbering q
RnPos(q, d) == CHOOSE i \in 1..Len(q) : q[i] = d
\* a numbering is a permutation of its patch
RnIsPerm(q, S) == Len(q) = Cardinality(S) /\ {q[i] : i \in 1..Len(q)} = S
\* the mirror (0-based local indices, buffer order = ascending global dof) of numbering q for the shared dofs T
RnMirror(q, T) == LET s == RnSorted(T) IN [k \in 1..Len(s) |-> RnPos(q, s[k]) - 1]
RnMonotone(m) == \A i, j \in 1..Len(m) : i < j => m[i] < m[j]
\* both sides of a mirror pair address the same global dof at every buffer position
RnMirrorsAgree(q1, q2, T) ==
  LET m1 == RnMirror(q1, T) m2 == RnMirror(q2, T) IN
  Len(m1) = Len(m2) /\ \A k \in 1..Len(m1) : q1[m1[k] + 1] = q2[m2[k] + 1]
=============================================================================
