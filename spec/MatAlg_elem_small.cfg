SPECIFICATION Spec
CONSTANTS Fmt = "csr" Group = "elem" M0 = 0 M1 = 2 K0 = 0 K1 = 0 N0 = 0 N1 = 2 MaxRow = 9 BH = 1 BW = 1 Palette = 1 ArrayLess = FALSE NAlpha = 2 ABFull = FALSE
INVARIANTS RepsValid PatternKept ExactDomain CompleteIsFull Assoc LumpIsMatVec DMulLaws Emit
CHECK_DEADLOCK FALSE
