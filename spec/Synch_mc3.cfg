SPECIFICATION FairSpec
CONSTANTS NR = 3 ND = 3
INVARIANTS Sync0Correct RecvOnce NoLostMessage
PROPERTY Terminates
