--------------------------- MODULE RefElementSanity ---------------------------
(* Model checking of the element tables of RefElement.tla (C15/C18, use M) and emission of the table the     *)
(* conformance checks iterate over.  One state per (family, shape, dimension).                               *)
EXTENDS RefElement, Json

Shapes == {<<"simplex", 2>>, <<"simplex", 3>>, <<"hypercube", 1>>, <<"hypercube", 2>>, <<"hypercube", 3>>}
VARIABLE cur
Init == cur \in {<<el, sh>> : el \in Elements, sh \in Shapes}
Next == UNCHANGED cur
Spec == Init /\ [][Next]_cur

El == cur[1]  Fm == cur[2][1]  Dm == cur[2][2]
Tab == FamilyTable(El, Fm, Dm)
Exact == HasExactBasis(El, Fm, Dm)

\* the layout enumerates exactly the dofs of the signature
LayoutOK == Supported(El, Fm, Dm) => Len(Layout(Sig(El, Fm, Dm), Fm, Dm)) = NumLocalDofs(Sig(El, Fm, Dm), Fm, Dm)
DualOK == (Exact /\ HasNodal(El, Fm, Dm)) => Dual(Tab)
UnityOK == (Exact /\ El # "crorav" /\ El # "discontinuous1") => PartitionOfUnity(Tab)
\* Crouzeix-Raviart / P1dc: the basis sums to 1 as well (both are nodal bases of P1)
UnityP1OK == (Exact /\ El \in {"crorav", "discontinuous1"}) => PartitionOfUnity(Tab)
HessOK == Exact => HessSymmetric(Tab)
\* scale at which the entries of a prolongation matrix of the family are integers
ProlScale == IF Exact /\ HasNodal(El, Fm, Dm) THEN Tab.den * IPow(Tab.S, Tab.D) * Len(Tab.nodes[1]) * (IF Conformity(El) = "NC" THEN 2 ELSE 1) ELSE 0

Emit == Supported(El, Fm, Dm) =>
  PrintT(ToJson([el |-> El, fam |-> Fm, dim |-> Dm, sig |-> Sig(El, Fm, Dm), nloc |-> NumLocalDofs(Sig(El, Fm, Dm), Fm, Dm),
                 conf |-> Conformity(El), deg |-> PolyDegree(El), nested |-> Nested(El, Fm), exact |-> Exact,
                 nodal |-> Exact /\ HasNodal(El, Fm, Dm), pscale |-> ProlScale, exactinterp |-> ExactInterp(El, Fm),
                 monos |-> LET M == LocalMonomials(El, Fm, Dm) IN
                           SetToSeq({[e |-> x, t |-> 0] : x \in M.total}) \o SetToSeq({[e |-> x, t |-> 1] : x \in M.tensor})]))
=============================================================================
