------------------------------ MODULE PersistDist ------------------------------
(* C05 extension: FEAT::DistFileIO as a machine over an abstract file        *)
(* system, executed collectively by N processes (ranks 0..N-1; N = 1 is also *)
(* the serial build).                                                        *)
(*                                                                          *)
(* State:  fs    file name -> byte sequence (the abstract files)             *)
(*         obj   per rank the objects a program keeps and RE-USES between    *)
(*               calls: com, buf (std::vector<char> of read_combined), raw   *)
(*               (buffer of read_ordered), bs (BinaryStream: bytes, position)*)
(*               ss (contents of a std::stringstream)                        *)
(*         hist  the history of calls with the predicted effect of each      *)
(* Actions (collective calls; payloads are functions of step, rank, length): *)
(*   WC(f, root, cl, lens)     write_combined(common, buffer, f, comm, root) *)
(*   RC(f, root, bcast, pre)   read_combined(common, buffer, f, comm, root,  *)
(*                             bcast); pre: the vectors hold old content     *)
(*   WO(f, lens, trunc)        write_ordered(buffer, size, f, comm, trunc)   *)
(*   RO(f, sizes)              read_ordered(buffer, size, f, comm)           *)
(*   WS(kind, pat, lens, trunc) write_sequence(BinaryStream|stringstream)    *)
(*   RS(kind, pat, pre)        read_sequence(...)                            *)
(*   RM(kind, f, root, pre)    read_common(BinaryStream|stringstream, f,     *)
(*                             comm, root)                                   *)
(*  environment (another program run, a damaged disk):                       *)
(*   PlantCombined(f, n, ..)   f is a combined file written by n processes   *)
(*   PlantDamaged(f, how)      ... truncated / extended / magic destroyed    *)
(*   PlantRaw(kind, f, len)    a plain binary / text file                    *)
(* Reading a combined file that ParseCombined rejects must be REPORTED (the  *)
(* history ends with expect = "reject"; FEAT aborts the program).            *)
(*                                                                          *)
(* Invariants: RoundTrip (after a read every rank holds exactly its own      *)
(* bytes of the last write to that file by the same N ranks), LayoutOK       *)
(* (combined file: header words, size table, offsets; ordered file: rank     *)
(* order), RejectsMismatch (a combined file of another process count, a      *)
(* truncated or damaged one is never parsed), NamesDistinct.                 *)
EXTENDS PersistDistFmt, Json, TLC

CONSTANTS N,          \* number of processes
          MaxSteps,   \* length of the histories
          Shape,      \* "wr": odd steps write / plant, even steps read what was just written;  "free": any enabled call
          Fams,       \* the enabled calls: subset of {"wc", "rc", "wo", "ro", "ws", "rs", "rm", "plantc", "plantd", "plantr"}
          Files,      \* names of the common files
          LensVals,   \* payload lengths: all vectors [1..N -> LensVals] ...
          LensMode,   \* ... if "all";  "few": a handful of vectors (all empty, alternating, unequal increasing, equal); "hist": three
          CLens,      \* lengths of the common buffer
          Roots,      \* root ranks
          Bcasts,     \* subset of BOOLEAN: values of read_combined's bcast_common
          Pres,       \* subset of BOOLEAN: read into objects holding old content?
          Truncs,     \* subset of BOOLEAN: values of the truncate flag
          PatIdx      \* which of the sequence file name patterns AllPats

VARIABLES fs, wr, obj, hist, rej
vars == <<fs, wr, obj, hist, rej>>

Ranks == 0..(N - 1)
\* sequence file name patterns  pre ***..* post  (the second: the asterisks end the name)
AllPats == <<[pre |-> "s_", stars |-> 3, post |-> ".bin"], [pre |-> "q", stars |-> 1, post |-> ""], [pre |-> "seq.", stars |-> 2, post |-> ".t*"]>>
Pats == {AllPats[i] : i \in PatIdx}
LensSet == IF LensMode = "all" THEN [1..N -> LensVals]
           ELSE IF LensMode = "hist" THEN {[i \in 1..N |-> 0], [i \in 1..N |-> IF i % 2 = 1 THEN 3 ELSE 0], [i \in 1..N |-> i]}
           ELSE {[i \in 1..N |-> 0], [i \in 1..N |-> IF i % 2 = 1 THEN 3 ELSE 0], [i \in 1..N |-> IF i % 2 = 0 THEN 2 ELSE 0], [i \in 1..N |-> i], [i \in 1..N |-> 3]}
Step == Len(hist) + 1
\* payloads: binary (with NUL, 0xFF and newline bytes) and text
BinBytes(tag, r, len) == [k \in 1..len |-> IF k = 2 THEN 0 ELSE IF k = 3 THEN 255 ELSE IF k = 5 THEN 10 ELSE (tag * 53 + r * 29 + k * 7 + 1) % 256]
TxtBytes(tag, r, len) == [k \in 1..len |-> IF k % 4 = 0 THEN 10 ELSE 97 + ((tag * 5 + r * 3 + k) % 26)]
Payload(kind, tag, r, len) == IF kind = "txt" THEN TxtBytes(tag, r, len) ELSE BinBytes(tag, r, len)
Junk == <<238, 1, 238, 2, 238, 3, 238>>
PerRank(F(_)) == [i \in 1..N |-> F(i - 1)]             \* rank r is entry r + 1

Fresh == [com |-> <<>>, buf |-> <<>>, raw |-> <<>>, bs |-> <<>>, bspos |-> 0, ss |-> <<>>]
Has(f) == \E x \in DOMAIN fs : x = f          \* (the empty function is the empty tuple for TLC: no membership test of a string in 1..0)
Put(f, b) == (f :> b) @@ fs
WriteOdd == Shape = "wr" => Step % 2 = 1
ReadEven == Shape = "wr" => Step % 2 = 0
Going == Len(hist) < MaxSteps /\ ~rej
\* in shape "wr" a read refers to the file(s) written by the step before
\* truncate = false ("the file is not truncated to the output size") is only explored where it cannot matter: onto a file that does
\* not exist or is not longer than the output.  What happens to the bytes BEHIND the output of a longer file is not part of the
\* property (the builds differ: MPI write_ordered keeps them, every std::ofstream based writer truncates anyway).
TailFree(trunc, f, newlen) == IF trunc \/ ~Has(f) THEN TRUE ELSE Len(fs[f]) <= newlen      \* (IF: TLC evaluates the disjuncts of an action separately)
JustWritten(f) == Shape = "wr" => (Len(hist) > 0 /\ hist[Len(hist)].file = f)

Init == fs = [x \in {} |-> <<>>] /\ wr = [x \in {} |-> <<>>] /\ obj = [r \in Ranks |-> Fresh] /\ hist = <<>> /\ rej = FALSE

(***************************************************************************)
(* combined files                                                            *)
(***************************************************************************)
WC(f, root, cl, lens) ==
  /\ Going /\ WriteOdd /\ "wc" \in Fams
  /\ LET com == BinBytes(Step + 3, 9, cl)
         data == PerRank(LAMBDA r : BinBytes(Step, r, lens[r + 1]))
         file == CombinedFile(com, data)
     IN  /\ fs' = Put(f, file)
         /\ wr' = (f :> [fmt |-> "comb", n |-> N, com |-> com, data |-> data]) @@ wr
         /\ hist' = Append(hist, [op |-> "wc", file |-> f, root |-> root, expect |-> "ok",
                                  \* the common buffer is only required on the root: the other ranks pass a decoy
                                  com |-> PerRank(LAMBDA r : IF r = root THEN com ELSE BinBytes(Step + 5, r, 4)),
                                  data |-> data, bytes |-> file])
  /\ UNCHANGED <<obj, rej>>

RC(f, root, bcast, pre) ==
  /\ Going /\ ReadEven /\ "rc" \in Fams /\ Has(f) /\ JustWritten(f)
  /\ LET pr == ParseCombined(fs[f], N)
         old == [r \in Ranks |-> IF pre THEN [obj[r] EXCEPT !.com = Junk, !.buf = Junk] ELSE obj[r]]
         new == [r \in Ranks |-> [old[r] EXCEPT !.buf = pr.bufs[r + 1], !.com = IF bcast \/ r = root THEN pr.common ELSE old[r].com]]
     IN  IF pr.ok
         THEN /\ obj' = new /\ rej' = FALSE
              /\ hist' = Append(hist, [op |-> "rc", file |-> f, root |-> root, bcast |-> bcast, pre |-> pre, expect |-> "ok",
                                       com |-> PerRank(LAMBDA r : new[r].com), buf |-> PerRank(LAMBDA r : new[r].buf)])
         ELSE /\ obj' = obj /\ rej' = TRUE
              /\ hist' = Append(hist, [op |-> "rc", file |-> f, root |-> root, bcast |-> bcast, pre |-> pre, expect |-> "reject", why |-> pr.why,
                                       com |-> <<>>, buf |-> <<>>])
  /\ UNCHANGED <<fs, wr>>

(***************************************************************************)
(* ordered files                                                             *)
(***************************************************************************)
WO(f, lens, trunc) ==
  /\ Going /\ WriteOdd /\ "wo" \in Fams
  /\ LET data == PerRank(LAMBDA r : BinBytes(Step + 1, r, lens[r + 1]))
         file == OrderedFile(data)
     IN  /\ TailFree(trunc, f, Len(file))
         /\ fs' = Put(f, file)
         /\ wr' = (f :> [fmt |-> "ord", n |-> N, com |-> <<>>, data |-> data]) @@ wr
         /\ hist' = Append(hist, [op |-> "wo", file |-> f, trunc |-> trunc, expect |-> "ok", data |-> data, bytes |-> file])
  /\ UNCHANGED <<obj, rej>>

\* every split of the file into N consecutive pieces in rank order may be read (the sizes need not be the written ones)
Splits(total) == {s \in LensSet : (LET F[i \in 0..N] == IF i = 0 THEN 0 ELSE F[i-1] + s[i] IN F[N]) <= total}
RO(f, sizes) ==
  /\ Going /\ ReadEven /\ "ro" \in Fams /\ Has(f) /\ JustWritten(f) /\ sizes \in Splits(Len(fs[f]))
  /\ LET got == [r \in Ranks |-> SubSeq(fs[f], OffsetOf(sizes, r + 1) + 1, OffsetOf(sizes, r + 1) + sizes[r + 1])]
     IN  /\ obj' = [r \in Ranks |-> [obj[r] EXCEPT !.raw = got[r]]]
         /\ hist' = Append(hist, [op |-> "ro", file |-> f, expect |-> "ok", sizes |-> sizes, raw |-> PerRank(LAMBDA r : got[r])])
  /\ UNCHANGED <<fs, wr, rej>>

(***************************************************************************)
(* file sequences: one file per rank                                         *)
(***************************************************************************)
WS(kind, pat, lens, trunc) ==
  /\ Going /\ WriteOdd /\ "ws" \in Fams
  /\ LET data == PerRank(LAMBDA r : Payload(kind, Step + 2, r, lens[r + 1]))
         name == PerRank(LAMBDA r : SeqName(pat, r))
         cont == [r \in Ranks |-> data[r + 1]]
     IN  /\ \A r \in Ranks : TailFree(trunc, SeqName(pat, r), Len(cont[r]))
         /\ fs' = [nm \in {SeqName(pat, r) : r \in Ranks} |-> cont[CHOOSE r \in Ranks : SeqName(pat, r) = nm]] @@ fs
         /\ wr' = (PatternStr(pat) :> [fmt |-> "seq", n |-> N, com |-> <<>>, data |-> data]) @@ wr
         /\ hist' = Append(hist, [op |-> "ws", file |-> PatternStr(pat), kind |-> kind, trunc |-> trunc, expect |-> "ok", data |-> data,
                                  names |-> name, files |-> PerRank(LAMBDA r : cont[r])])
  /\ UNCHANGED <<obj, rej>>

RS(kind, pat, pre) ==
  /\ Going /\ ReadEven /\ "rs" \in Fams /\ JustWritten(PatternStr(pat)) /\ \A r \in Ranks : Has(SeqName(pat, r))
  /\ Len(hist) > 0 /\ (\E k \in 1..Len(hist) : hist[k].op = "ws" /\ hist[k].file = PatternStr(pat) /\ hist[k].kind = kind)
  /\ LET new == [r \in Ranks |-> IF kind = "bin" THEN [obj[r] EXCEPT !.bs = fs[SeqName(pat, r)], !.bspos = 0]
                                 ELSE [obj[r] EXCEPT !.ss = fs[SeqName(pat, r)]]]
     IN  /\ obj' = new
         /\ hist' = Append(hist, [op |-> "rs", file |-> PatternStr(pat), kind |-> kind, pre |-> pre, expect |-> "ok",
                                  exp |-> PerRank(LAMBDA r : IF kind = "bin" THEN new[r].bs ELSE new[r].ss), pos |-> 0])
  /\ UNCHANGED <<fs, wr, rej>>

(***************************************************************************)
(* one common file read by the root and handed to everybody                  *)
(***************************************************************************)
RM(kind, f, root, pre) ==
  /\ Going /\ ReadEven /\ "rm" \in Fams /\ Has(f) /\ JustWritten(f)
  /\ kind = "txt" => (Len(hist) > 0 /\ hist[Len(hist)].op = "plant" /\ hist[Len(hist)].how = "txt" /\ hist[Len(hist)].file = f)
  /\ LET new == [r \in Ranks |-> IF kind = "bin" THEN [obj[r] EXCEPT !.bs = fs[f], !.bspos = 0] ELSE [obj[r] EXCEPT !.ss = fs[f]]]
     IN  /\ obj' = new
         /\ hist' = Append(hist, [op |-> "rm", file |-> f, kind |-> kind, root |-> root, pre |-> pre, expect |-> "ok",
                                  exp |-> PerRank(LAMBDA r : IF kind = "bin" THEN new[r].bs ELSE new[r].ss), pos |-> 0])
  /\ UNCHANGED <<fs, wr, rej>>

(***************************************************************************)
(* environment                                                               *)
(***************************************************************************)
Plant(f, how, file) ==
  /\ fs' = Put(f, file)
  /\ wr' = [x \in (DOMAIN wr) \ {f} |-> wr[x]]
  /\ hist' = Append(hist, [op |-> "plant", file |-> f, how |-> how, expect |-> "ok", bytes |-> file])
  /\ UNCHANGED <<obj, rej>>
OtherRun(n, cl, len) == CombinedFile(BinBytes(Step + 4, 9, cl), [r \in 1..n |-> BinBytes(Step + 6, r - 1, IF r % 2 = 1 THEN len ELSE len + 2)])
PlantCombined(f, n, cl, len) == Going /\ WriteOdd /\ "plantc" \in Fams /\ Plant(f, "run" \o ToString(n), OtherRun(n, cl, len))
PlantDamaged(f, how) ==
  /\ Going /\ WriteOdd /\ "plantd" \in Fams
  /\ LET good == OtherRun(N, 5, 3) IN
     Plant(f, how, CASE how = "cut1" -> SubSeq(good, 1, Len(good) - 1)
                     [] how = "cut9" -> SubSeq(good, 1, Len(good) - 9)
                     [] how = "header_only" -> SubSeq(good, 1, 32)
                     [] how = "extended" -> good \o <<7, 7, 7>>
                     [] how = "magic" -> <<71>> \o SubSeq(good, 2, Len(good)))
PlantRaw(kind, f, len) == Going /\ WriteOdd /\ "plantr" \in Fams /\ Plant(f, kind, Payload(kind, Step + 8, 0, len))

Next ==
  \/ \E f \in Files, root \in Roots, cl \in CLens, lens \in LensSet : WC(f, root, cl, lens)
  \/ \E f \in Files, root \in Roots, bcast \in Bcasts, pre \in Pres : RC(f, root, bcast, pre)
  \/ \E f \in Files, lens \in LensSet, trunc \in Truncs : WO(f, lens, trunc)
  \/ \E f \in Files, sizes \in LensSet : RO(f, sizes)
  \/ \E kind \in {"bin", "txt"}, pat \in Pats, lens \in LensSet, trunc \in Truncs : WS(kind, pat, lens, trunc)
  \/ \E kind \in {"bin", "txt"}, pat \in Pats, pre \in Pres : RS(kind, pat, pre)
  \/ \E kind \in {"bin", "txt"}, f \in Files, root \in Roots, pre \in Pres : RM(kind, f, root, pre)
  \/ \E f \in Files, n \in 1..4, cl \in CLens : \E len \in (IF n = N THEN {0, 3} ELSE {3}) : PlantCombined(f, n, cl, len)
  \/ \E f \in Files, how \in {"cut1", "cut9", "header_only", "extended", "magic"} : PlantDamaged(f, how)
  \/ \E kind \in {"bin", "txt"}, f \in Files, len \in {0, 6} : PlantRaw(kind, f, len)
Spec == Init /\ [][Next]_vars

(***************************************************************************)
(* Properties                                                                *)
(***************************************************************************)
Last == hist[Len(hist)]
\* what a read gives back is what the same N ranks wrote last into that file: every rank exactly its own bytes
RoundTrip == Len(hist) > 0 /\ Last.expect = "ok" =>
  /\ (Last.op = "rc" /\ Last.file \in DOMAIN wr /\ wr[Last.file].fmt = "comb") =>
        /\ Last.buf = wr[Last.file].data
        /\ \A r \in Ranks : (Last.bcast \/ r = Last.root) => Last.com[r + 1] = wr[Last.file].com
  /\ (Last.op = "ro" /\ Last.file \in DOMAIN wr /\ wr[Last.file].fmt = "ord"
        /\ Last.sizes = [r \in 1..N |-> Len(wr[Last.file].data[r])]) => Last.raw = wr[Last.file].data
  /\ (Last.op = "rs" /\ Last.file \in DOMAIN wr) => Last.exp = wr[Last.file].data
\* layout of the files
LayoutOK == \A k \in 1..Len(hist) :
  /\ hist[k].op = "wc" =>
       LET b == hist[k].bytes  d == hist[k].data  c == hist[k].com[hist[k].root + 1]  base == 32 + 8 * N + Len(c) IN
       /\ SubSeq(b, 1, 8) = Magic /\ WordAt(b, 1) = Len(b) /\ WordAt(b, 2) = N /\ WordAt(b, 3) = Len(c)
       /\ Len(b) = 32 + 8 * N + Len(c) + SumLen(d)
       /\ \A r \in 1..N : WordAt(b, 3 + r) = Len(d[r])
       /\ SubSeq(b, 32 + 8 * N + 1, base) = c
       /\ \A r \in 1..N : SubSeq(b, base + SumLen(SubSeq(d, 1, r - 1)) + 1, base + SumLen(SubSeq(d, 1, r))) = d[r]
  /\ hist[k].op = "wo" =>
       /\ Len(hist[k].bytes) = SumLen(hist[k].data)
       /\ \A r \in 1..N : SubSeq(hist[k].bytes, SumLen(SubSeq(hist[k].data, 1, r - 1)) + 1, SumLen(SubSeq(hist[k].data, 1, r))) = hist[k].data[r]
\* a file that is not a combined file of N processes is never parsed
RejectsMismatch == \A k \in 1..Len(hist) :
  (hist[k].op = "rc" /\ k > 1 /\ hist[k-1].op = "plant" /\ hist[k-1].file = hist[k].file) =>
     (hist[k].expect = "ok" <=> hist[k-1].how = "run" \o ToString(N))
NamesDistinct == \A p \in Pats : \A r, q \in Ranks : r # q => SeqName(p, r) # SeqName(p, q)

Done == Len(hist) = MaxSteps \/ rej
Emit == Done => PrintT(ToJson([part |-> "dist", nr |-> N, shape |-> Shape, steps |-> hist]))
=============================================================================
