--------------------------- MODULE PersistCkptLife ---------------------------
(* C05, the LIFE of ONE Control::CheckpointControl object                    *)
(* (control/checkpoint_control.hpp): a state machine over its complete       *)
(* public interface for streams.                                             *)
(*                                                                          *)
(* Abstract state of the control object                                      *)
(*    reg    the registered objects: identifier -> CURRENT value of the      *)
(*           user's object (the control object holds references, not copies) *)
(*    inp    the loaded input ("_input_array"): the checkpoint that was      *)
(*           loaded, as identifier -> object; nothing loaded = no entry      *)
(*    offs   identifier -> byte offset of its data in the loaded input       *)
(*           ("_offset_by_identifier"); 0 = identifier unknown               *)
(*    last   history variable: the checkpoint of the LAST successful load    *)
(* and of the user's program: streams (slot -> checkpoint held by that       *)
(* BinaryStream), have (slots that hold a checkpoint).                       *)
(*                                                                          *)
(* Actions = the public calls (documented semantics, checkpoint_control.hpp) *)
(*    AddObj(i,k)  add_object(id, obj)      id must not be registered        *)
(*    RemoveObj(i) remove_object(id)        id must be registered; the user  *)
(*                                          then destroys the object         *)
(*    Assign(i)    the user assigns new contents to a registered object:     *)
(*                 a later save writes the CURRENT contents                  *)
(*    Save         save(stream 4): u64 total, then for every registered      *)
(*                 identifier in std::map order u64 |id|, id, u64 |data|,    *)
(*                 data; does not depend on (nor change) the loaded input    *)
(*    Load(s)      load(stream s): requires that NO input is loaded          *)
(*                 (XASSERT "another input file was read before"); replaces  *)
(*                 input and offsets by those of stream s                    *)
(*    ClearInput   clear_input(): forgets input AND offsets, keeps reg       *)
(*    Restore(i,a) restore_object(id, fresh object, a): requires loaded      *)
(*                 input that contains id (XASSERT otherwise); the object    *)
(*                 becomes the one the loaded checkpoint holds under id; if  *)
(*                 a, it is registered under id (id must not be registered)  *)
(* The calls outside these enabling conditions are documented to be REFUSED  *)
(* (XASSERT -> abort); every post-state carries the refusal set, which the   *)
(* replayer probes in forked children: rst[i] = 0 (restore of id i refused), *)
(* loaded (a further load refused).                                          *)
(*                                                                          *)
(* Three checkpoints exist at the start (written by other control objects);  *)
(* their identifier sets overlap, the common identifier lies at a DIFFERENT  *)
(* byte offset (A vs B) resp. at the SAME offset with different contents     *)
(* (A vs C), and holds a different object in each:                           *)
(*    A = {rhs -> dv3}   B = {de -> csr, rhs -> dv2}   C = {rhs -> dv0, solu -> sv} *)
(* TLC explores every history of MaxSteps calls over the alphabet Ops.       *)
(* Invariants: RestoredRight (restore_object(id) after ANY history yields    *)
(* the object the LAST loaded checkpoint holds under id, every restore of    *)
(* the history did), OffsExact (exactly the identifiers of the last loaded   *)
(* checkpoint are restorable), InputIsLast, LayoutOK.  Emit prints each      *)
(* complete history with the state predicted after every call.               *)
EXTENDS PersistFmt, Json, TLC

CONSTANTS MaxSteps,    \* length of the histories
          CDT, CIT,    \* data / index type width of the containers (bytes)
          Ops,         \* the alphabet: subset of {"add","remove","assign","save","load","clear","restore","restadd"}
          NAdd,        \* number of different objects add_object may register under one identifier (1..2)
          AllowEmpty   \* BOOLEAN: save with no registered object (an empty checkpoint)

VARIABLES reg, inp, offs, last, streams, have, hist
vars == <<reg, inp, offs, last, streams, have, hist>>

Den == 4
Mk(kind, mm, nn, rep, al) == [kind |-> kind, m |-> mm, n |-> nn, bh |-> 1, bw |-> 1, rep |-> rep, alloc |-> al]
D23 == << <<3, -6, 7>>, <<-8, 11, -10>> >>
Palette == <<
  Mk("dv", 3, 1, [va |-> <<3, -6, 7>>], FALSE),
  Mk("dv", 0, 1, [va |-> <<>>], FALSE),                                        \* length 0
  Mk("csr", 2, 3, CSROf(2, 3, D23, {<<2, 1>>, <<2, 3>>}), FALSE),              \* first row empty
  Mk("sv", 4, 1, [idx |-> <<1, 3>>, va |-> <<5, -2>>], FALSE),
  Mk("dv", 2, 1, [va |-> <<-1, 9>>], FALSE),
  Mk("csr", 2, 2, CSROf(2, 2, D23, {}), TRUE) >>                               \* no entries, allocated arrays of length 0
NP == Len(Palette)
\* the next palette object of the same kind (the user's assignment to a registered object keeps its C++ type)
NextSame == <<5, 1, 6, 4, 2, 3>>
\* identifiers in std::map (lexicographic) order, of different lengths
Ids == <<"de", "rhs", "solu">>
IdLen == <<2, 3, 4>>
NI == Len(Ids)
IdxSeq == [i \in 1..NI |-> i]
\* the objects add_object registers under identifier i (first NAdd of them)
AddPal == << <<4, 1>>, <<3, 5>>, <<1, 6>> >>
Zero == [i \in 1..NI |-> 0]
CkA == <<0, 1, 0>>
CkB == <<3, 5, 0>>
CkC == <<0, 2, 4>>
OwnSlot == 4

Bins == [o \in 1..NP |-> BinFile(Arrays(Palette[o]), 13, CDT, CIT, CDT, CIT)]      \* checkpoint data: fm_binary, <DT, IT>

\* byte layout of a checkpoint (without the leading u64 total of the stream): off = position of the u64 |data| word
Layout(ck) ==
  LET pres == SelectSeq(IdxSeq, LAMBDA i : ck[i] # 0)
      Sz(k) == 8 + IdLen[pres[k]] + 8 + Bins[ck[pres[k]]].len
      Start[k \in 0..Len(pres)] == IF k = 0 THEN 0 ELSE Start[k-1] + Sz(k)
  IN  [total |-> Start[Len(pres)],
       entries |-> [k \in 1..Len(pres) |-> [i |-> pres[k], id |-> Ids[pres[k]], idlen |-> IdLen[pres[k]], o |-> ck[pres[k]],
                                            len |-> Bins[ck[pres[k]]].len, off |-> Start[k-1] + 8 + IdLen[pres[k]]]]]
\* what the parser of load() finds: identifier -> offset
ParseOffs(ck) == LET lay == Layout(ck) IN
  [i \in 1..NI |-> IF ck[i] = 0 THEN 0 ELSE lay.entries[CHOOSE k \in 1..Len(lay.entries) : lay.entries[k].i = i].off]
\* the object whose data starts at byte off of the input (-1: no object starts there - garbage)
SegAt(ck, off) == LET lay == Layout(ck) IN
  IF \E k \in 1..Len(lay.entries) : lay.entries[k].off = off
  THEN lay.entries[CHOOSE k \in 1..Len(lay.entries) : lay.entries[k].off = off].o ELSE -1
\* restore_object(id i): 0 = refused
Restorable(in, of) == [i \in 1..NI |-> IF in = Zero \/ of[i] = 0 THEN 0 ELSE SegAt(in, of[i])]

Going == Len(hist) < MaxSteps
Step(op, i, o, s, ad, res, reg2, inp2, offs2) ==
  [op |-> op, i |-> i, o |-> o, s |-> s, add |-> ad, res |-> res,
   reg |-> reg2, img |-> Layout(reg2), rst |-> Restorable(inp2, offs2), loaded |-> (inp2 # Zero)]

Init ==
  /\ reg = Zero /\ inp = Zero /\ offs = Zero /\ last = Zero
  /\ streams = <<CkA, CkB, CkC, Zero>> /\ have = {1, 2, 3}
  /\ hist = <<>>

AddObj(i, k) ==
  /\ Going /\ "add" \in Ops /\ reg[i] = 0
  /\ reg' = [reg EXCEPT ![i] = AddPal[i][k]]
  /\ hist' = Append(hist, Step("add", i, AddPal[i][k], 0, FALSE, 0, reg', inp, offs))
  /\ UNCHANGED <<inp, offs, last, streams, have>>
RemoveObj(i) ==
  /\ Going /\ "remove" \in Ops /\ reg[i] # 0
  /\ reg' = [reg EXCEPT ![i] = 0]
  /\ hist' = Append(hist, Step("remove", i, 0, 0, FALSE, 0, reg', inp, offs))
  /\ UNCHANGED <<inp, offs, last, streams, have>>
Assign(i) ==
  /\ Going /\ "assign" \in Ops /\ reg[i] # 0 /\ NextSame[reg[i]] # reg[i]
  /\ reg' = [reg EXCEPT ![i] = NextSame[reg[i]]]
  /\ hist' = Append(hist, Step("assign", i, NextSame[reg[i]], 0, FALSE, 0, reg', inp, offs))
  /\ UNCHANGED <<inp, offs, last, streams, have>>
Save ==
  /\ Going /\ "save" \in Ops /\ (reg # Zero \/ AllowEmpty)
  /\ streams' = [streams EXCEPT ![OwnSlot] = reg] /\ have' = have \cup {OwnSlot}
  /\ hist' = Append(hist, Step("save", 0, 0, OwnSlot, FALSE, 0, reg, inp, offs))
  /\ UNCHANGED <<reg, inp, offs, last>>
Load(s) ==
  /\ Going /\ "load" \in Ops /\ s \in have /\ inp = Zero
  /\ inp' = streams[s] /\ offs' = ParseOffs(streams[s]) /\ last' = streams[s]
  /\ hist' = Append(hist, Step("load", 0, 0, s, FALSE, IF streams[s] = Zero THEN 1 ELSE 0, reg, inp', offs'))    \* res = 1: an empty checkpoint
  /\ UNCHANGED <<reg, streams, have>>
ClearInput ==
  /\ Going /\ "clear" \in Ops /\ inp # Zero
  /\ inp' = Zero /\ offs' = Zero /\ last' = Zero
  /\ hist' = Append(hist, Step("clear", 0, 0, 0, FALSE, 0, reg, inp', offs'))
  /\ UNCHANGED <<reg, streams, have>>
Restore(i, ad) ==
  /\ Going /\ (IF ad THEN "restadd" ELSE "restore") \in Ops
  /\ inp # Zero /\ offs[i] # 0 /\ (ad => reg[i] = 0)
  /\ LET o == SegAt(inp, offs[i]) IN
     /\ reg' = IF ad THEN [reg EXCEPT ![i] = o] ELSE reg
     /\ hist' = Append(hist, Step("restore", i, last[i], 0, ad, o, reg', inp, offs))       \* o = what the last loaded checkpoint holds, res = what is read
  /\ UNCHANGED <<inp, offs, last, streams, have>>

Next == (\E i \in 1..NI : (\E k \in 1..NAdd : AddObj(i, k)) \/ RemoveObj(i) \/ Assign(i) \/ (\E ad \in BOOLEAN : Restore(i, ad)))
        \/ Save \/ (\E s \in 1..Len(streams) : Load(s)) \/ ClearInput
Spec == Init /\ [][Next]_vars

\* ---- properties ----------------------------------------------------------------------------------------
\* what restore_object would deliver NOW for every identifier is what the LAST loaded checkpoint holds under it,
\* bit-identical; and every restore of the history delivered that
RestoredRight ==
  /\ \A i \in 1..NI : Restorable(inp, offs)[i] # 0 =>
       LET o == Restorable(inp, offs)[i] IN o = last[i] /\ o \in 1..NP /\ ReadBin(Bins[o]) = Arrays(Palette[o])
  /\ \A k \in 1..Len(hist) : hist[k].op = "restore" => hist[k].res = hist[k].o /\ hist[k].res \in 1..NP
\* exactly the identifiers of the last loaded checkpoint are restorable (none of an earlier one survives)
OffsExact == \A i \in 1..NI : (Restorable(inp, offs)[i] # 0) <=> (last[i] # 0)
InputIsLast == inp = last /\ (inp = Zero => offs = Zero)
\* the layout arithmetic: entries are contiguous, in identifier order, and fill the checkpoint
LayoutOK == \A ck \in {reg, inp} \cup {streams[s] : s \in have} : LET lay == Layout(ck) IN
  /\ \A k \in 1..Len(lay.entries) :
       /\ lay.entries[k].off + 8 + lay.entries[k].len = (IF k < Len(lay.entries) THEN lay.entries[k+1].off - lay.entries[k+1].idlen - 8 ELSE lay.total)
       /\ k < Len(lay.entries) => lay.entries[k].i < lay.entries[k+1].i
       /\ BinLayoutOK(Bins[lay.entries[k].o])
  /\ Len(lay.entries) = Cardinality({i \in 1..NI : ck[i] # 0})
\* the three given checkpoints: the common identifier at different offsets (A, B), at the same offset (A, C), different objects
GivenOverlap == ParseOffs(CkA)[2] # ParseOffs(CkB)[2] /\ ParseOffs(CkA)[2] = ParseOffs(CkC)[2] /\ Cardinality({CkA[2], CkB[2], CkC[2]}) = 3

Emit == Len(hist) = MaxSteps =>
  PrintT(ToJson([part |-> "life", cdt |-> CDT, cit |-> CIT, den |-> Den, ids |-> Ids,
                 palette |-> [o \in 1..NP |-> [c |-> Palette[o], arrays |-> Arrays(Palette[o]), bin |-> Bins[o]]],
                 given |-> [s \in 1..3 |-> Layout(<<CkA, CkB, CkC>>[s])],
                 ops |-> hist]))
=============================================================================
