----------------------------- MODULE MC_WorkDist -----------------------------
(* exhaustive check of the _build_thread_layers transcription: for EVERY vector *)
(* of layer sizes (1..MaxSize cells per layer, 1..MaxLayers layers) and every    *)
(* requested worker count 0..MaxW the result satisfies ThreadLayersOK, the       *)
(* unsigned arithmetic never wraps, and the number of threads is as documented.  *)
EXTENDS WorkDist, TLC, Json
CONSTANTS MaxLayers, MaxSize, MaxW
VARIABLES sizes, maxw
Prefix(sz) == [i \in 1..(Len(sz) + 1) |-> LET S[k \in 0..Len(sz)] == IF k = 0 THEN 0 ELSE S[k-1] + sz[k] IN S[i-1]]
Init == /\ \E n \in 1..MaxLayers : sizes \in [1..n -> 1..MaxSize]
        /\ maxw \in 0..MaxW
Next == UNCHANGED <<sizes, maxw>>
LE == Prefix(sizes)
TLres == BuildThreadLayers(LE, maxw)
Inv ==
  /\ ThreadLayersOK(TLres, LE)
  /\ (TLres # <<>> => Len(TLres) = LayeredWorkers(LE, maxw) + 1)
  /\ (TLres = <<>> <=> (maxw = 0 \/ Len(LE) < 3))
  /\ LET W == LayeredWorkers(LE, maxw) IN W >= 1 => Step2NoUnderflow(Step1(<<0>>, 1, W, LE), W - 1)
\* G direction: every case with the transcription's result, replayed on the real _build_thread_layers
Emit == PrintT(ToJson([op |-> "btl", le |-> LE, maxw |-> maxw, tl |-> TLres]))
==============================================================================
