SPECIFICATION Spec
CONSTANTS Seed = 1 MaxLev = 6 CounterInits = "few"
INVARIANTS NoAbort PeakInRange CountersBinary Equivalent
CHECK_DEADLOCK TRUE
