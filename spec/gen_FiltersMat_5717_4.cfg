SPECIFICATION Spec
CONSTANTS MFmt = "bcsr" MaxM = 2 MaxN = 2 SquareOnly = FALSE BH = 2 BW = 2 Comp = "unit" Pal = 1
INVARIANTS RepValid MatConstraint MatComplement MatIdempotent FilteredSolve Emit
CHECK_DEADLOCK FALSE
