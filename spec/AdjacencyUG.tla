---------------------------- MODULE AdjacencyUG ----------------------------
(* C19, colouring / Cuthill-McKee part, pass 1: TLC enumerates every        *)
(* undirected graph on 0..MaxNodes nodes (every edge set), in the storage   *)
(* variants below, and every call with every option:                        *)
(*    Coloring(graph), Coloring(graph, order) for the orders of OrderMode,  *)
(*    CuthillMcKee::compute(graph, reverse, root type, sort type).          *)
(* The results of these calls are not unique (any proper greedy colouring / *)
(* any BFS tie-breaking is correct), so they are not predicted here: the    *)
(* replayer records the real result per call and AdjacencyV.tla validates   *)
(* each record against the contracts of Adjacency.tla (pass 2).             *)
(* The enabling conditions are the documented preconditions: CuthillMcKee   *)
(* needs at least one node (Permutation(num_entries > 0)).                  *)
EXTENDS Adjacency, Json, TLC

CONSTANTS MaxNodes,
          Variants,     \* subset of {"plain", "loops", "desc", "dup"}
          OrderMode     \* "all": every order; "few": identity, reversal, two rotations

VARIABLES ph, g, meta, call
vars == <<ph, g, meta, call>>

Pairs(n) == {e \in (0..(n - 1)) \X (0..(n - 1)) : e[1] < e[2]}
\* symmetric adjacency of edge set E: rows ascending ("plain"), with a self loop at every node first
\* sorted in ("loops", the layout of a matrix with diagonal), rows descending ("desc"), every edge twice ("dup")
UGraph(n, E, variant) ==
  LET nb(i) == {j \in 0..(n - 1) : <<i, j>> \in E \/ <<j, i>> \in E} \cup (IF variant = "loops" THEN {i} ELSE {})
      asc(i) == SortBag(SetToSeq(nb(i)), n)
      row(i) == CASE variant = "desc" -> [k \in 1..Len(asc(i)) |-> asc(i)[Len(asc(i)) - k + 1]]
                  [] variant = "dup"  -> asc(i) \o asc(i)
                  [] OTHER            -> asc(i)
  IN  GraphOf(n, n, [i \in 1..n |-> row(i - 1)])

Orders(n) ==
  IF OrderMode = "all" \/ n <= 2 THEN Perms0(n)
  ELSE {Id0(n), [i \in 1..n |-> n - i], [i \in 1..n |-> (i + 1) % n], [i \in 1..n |-> (2 * i + 1) % n]} \cap Perms0(n)

RECURSIVE CompCount(_, _)
CompCount(gr, left) == IF left = {} THEN 0
                       ELSE LET r == CHOOSE v \in left : \A w \in left : v <= w
                            IN  1 + CompCount(gr, left \ ComponentOf(gr, r))

Init ==
  /\ ph = "init" /\ call = [op |-> "none"]
  /\ \E n \in 0..MaxNodes : \E E \in SUBSET Pairs(n) : \E variant \in Variants :
       /\ g = UGraph(n, E, variant)
       /\ meta = [variant |-> variant, nedges |-> Cardinality(E),
                  ncomp |-> CompCount(UGraph(n, E, variant), 0..(n - 1)),
                  niso |-> Cardinality({i \in 0..(n - 1) : Degree(UGraph(n, E, variant), i) = 0})]

Done(c) == ph' = "done" /\ call' = c /\ UNCHANGED <<g, meta>>
ColoringDefault == ph = "init" /\ Done([op |-> "coloring", ordered |-> FALSE, order |-> Id0(g.nd)])
ColoringOrdered == ph = "init" /\ g.nd > 0 /\ \E o \in Orders(g.nd) : Done([op |-> "coloring", ordered |-> TRUE, order |-> o])
Cmk == ph = "init" /\ g.nd > 0 /\ \E rev \in BOOLEAN, rt \in RootTypes, stp \in SortTypes :
         Done([op |-> "cmk", reverse |-> rev, rt |-> rt, st |-> stp])
Next == ColoringDefault \/ ColoringOrdered \/ Cmk
Spec == Init /\ [][Next]_vars

InputValid == GraphValid(g) /\ IsSymmetric(g)
Emit == ph = "done" => PrintT(ToJson([op |-> call.op, g |-> g, meta |-> meta, call |-> call]))
=============================================================================
