------------------------------- MODULE MeshTopo -------------------------------
(* C10: conforming meshes, their regular refinement, and mesh parts that follow their parents.             *)
(*                                                                                                        *)
(* A topology T is a record [n, idx]:  n[d+1] = number of d-entities,  idx.i<d><e>[c+1][k+1] = index of    *)
(* the k-th local e-face of the d-entity c (0-based VALUES in 1-based tuples, exactly as FEAT's index sets *)
(* are dumped).  A mesh level M adds integer coordinates X (all levels of a case share the scale 2^K), the *)
(* attached mesh parts  parts[j] = [name, t, topo, tidx]  (t[d+1] = target set of dimension d, tidx = the   *)
(* part's own topology) and  bf  = the target sets produced by Geometry::BoundaryFactory on this level.    *)
(*                                                                                                        *)
(* State predicates (one level):  WellFormed, SubEntityConsistent, Unique, FacetCount, BoundaryFactoryOK,  *)
(* PositiveOrientation, PartTargetsOK, PartTopologyOK.                                                     *)
(* Relation Refine(Mc, Mf) between a level and the level the code produced from it:  Counts, Euler and     *)
(* Volume preserved, Orientation preserved, VertexOrigin (every fine vertex is the barycentre of exactly   *)
(* the coarse entity it descends from - decided from integer coordinates, independent of any numbering),   *)
(* ParentsValid + ChildrenCount (every fine entity lies in exactly one smallest coarse entity, every       *)
(* coarse entity has exactly NumChildren children of every dimension), PartFollows(Pc, Pf).                *)
(*                                                                                                        *)
(* The origin map  par[e+1][t+1] = <<d, i>>  (the coarse d-entity i is the parent of the fine e-entity t)  *)
(* is supplied as a CERTIFICATE by the glue code (computed from coordinates by hashing, because inverting *)
(* the barycentre map inside TLC would be quadratic); the specification does not trust it: IsParent below  *)
(* is the definition, and every certificate entry is checked against it.  Since the smallest coarse entity *)
(* containing a fine entity is unique in a valid mesh, "exists a parent" and "this is the parent" coincide.*)
EXTENDS RefCell, SequencesExt, FiniteSetsExt, TLC

\* ---- tables evaluated once -----------------------------------------------------------------------------------
FT == [f \in Families |-> [d \in 1..3 |-> [e \in 0..d |-> FaceTable(f, d, e)]]]
QuadSyms == Aut("hypercube", 2)
NCh == [f \in Families |-> [d \in 0..3 |-> [e \in 0..3 |-> NumChildren(f, d, e)]]]

\* ---- access ----------------------------------------------------------------------------------------------------
N(T, d) == T.n[d + 1]
Idx(T, d, e) ==
  CASE d = 1 -> T.idx.i10
    [] d = 2 /\ e = 0 -> T.idx.i20 [] d = 2 /\ e = 1 -> T.idx.i21
    [] d = 3 /\ e = 0 -> T.idx.i30 [] d = 3 /\ e = 1 -> T.idx.i31 [] d = 3 /\ e = 2 -> T.idx.i32
VT(T, d, i) == IF d = 0 THEN <<i>> ELSE Idx(T, d, 0)[i + 1]          \* vertex tuple of the d-entity i
VS(T, d, i) == IF d = 0 THEN {i} ELSE TRange(Idx(T, d, 0)[i + 1])    \* its vertex set
NF(fam, d, e) == Len(FT[fam][d][e])

SameEnt(fam, e, t1, t2) ==
  /\ TRange(t1) = TRange(t2)
  /\ (fam = "hypercube" /\ e = 2) => \E s \in QuadSyms : t2 = Compose(t1, s)

\* ---- one topology ------------------------------------------------------------------------------------------------
WellFormed(T, fam, dim) ==
  /\ Len(T.n) = dim + 1
  /\ \A d \in 1..dim : \A e \in 0..(d - 1) :
       /\ Len(Idx(T, d, e)) = N(T, d)
       /\ \A c \in 1..N(T, d) :
            /\ Len(Idx(T, d, e)[c]) = NF(fam, d, e)
            /\ \A k \in 1..NF(fam, d, e) : Idx(T, d, e)[c][k] \in 0..(N(T, e) - 1)
  /\ \A d \in 1..dim : \A c \in 1..N(T, d) : Cardinality(TRange(Idx(T, d, 0)[c])) = NVerts(fam, d)

\* every listed sub-entity really is the corresponding local face of the entity
SubEntityConsistent(T, fam, dim) ==
  \A d \in 2..dim : \A e \in 1..(d - 1) : \A c \in 1..N(T, d) : \A k \in 1..NF(fam, d, e) :
    LET cv  == Idx(T, d, 0)[c]
        ft  == FT[fam][d][e][k]
        loc == [i \in 1..Len(ft) |-> cv[ft[i] + 1]]
    IN SameEnt(fam, e, Idx(T, e, 0)[Idx(T, d, e)[c][k] + 1], loc)

\* no two entities of a dimension have the same vertex set
Unique(T, dim) == \A d \in 1..dim : Cardinality({TRange(Idx(T, d, 0)[i]) : i \in 1..N(T, d)}) = N(T, d)

\* facet-cell incidences as a sorted sequence of <<facet, cell>> (SetToSeq enumerates the normalised = sorted set; the
\* order is re-checked by IncSorted, a failure of which is a machinery error, not a finding)
IncSeq(T, fam, dim) ==
  SetToSeq({<<Idx(T, dim, dim - 1)[c][k], c>> : c \in 1..N(T, dim), k \in 1..NF(fam, dim, dim - 1)})
IncSorted(S) == \A i \in 1..(Len(S) - 1) : S[i][1] < S[i + 1][1] \/ (S[i][1] = S[i + 1][1] /\ S[i][2] < S[i + 1][2])
\* every facet lies in one or two cells, no cell lists a facet twice, no facet is orphaned
FacetCount(S, T, fam, dim) ==
  /\ Len(S) = NF(fam, dim, dim - 1) * N(T, dim)
  /\ {S[i][1] : i \in 1..Len(S)} = 0..(N(T, dim - 1) - 1)
  /\ \A i \in 1..(Len(S) - 2) : S[i][1] # S[i + 2][1]
BoundaryFacets(S) ==
  {S[j][1] : j \in {i \in 1..Len(S) : (i = 1 \/ S[i - 1][1] # S[i][1]) /\ (i = Len(S) \/ S[i + 1][1] # S[i][1])}}
\* the boundary: facets with exactly one adjacent cell, and all their sub-entities
BoundaryEnts(T, dim, BF, e) ==
  IF e = dim - 1 THEN BF ELSE UNION {TRange(Idx(T, dim - 1, e)[f + 1]) : f \in BF}
BoundaryFactoryOK(M, dim, BS) ==
  /\ Len(M.bf) = dim + 1 /\ M.bf[dim + 1] = <<>>
  /\ \A e \in 0..(dim - 1) : TRange(M.bf[e + 1]) = BS[e] /\ Len(M.bf[e + 1]) = Cardinality(BS[e])

RECURSIVE AltSum(_, _)
AltSum(T, d) == IF d < 0 THEN 0 ELSE (IF d % 2 = 0 THEN 1 ELSE -1) * N(T, d) + AltSum(T, d - 1)
Euler(T, dim) == AltSum(T, dim)

\* ---- geometry (integer coordinates) -----------------------------------------------------------------------------
Pts(M, dim, c) == LET cv == Idx(M, dim, 0)[c] IN [k \in 1..Len(cv) |-> M.X[cv[k] + 1]]
CoordsOK(M, dim) == Len(M.X) = N(M, 0) /\ \A v \in 1..N(M, 0) : Len(M.X[v]) = dim
DistinctVertices(M) == Cardinality({M.X[v] : v \in 1..N(M, 0)}) = N(M, 0)
PositiveOrientation(M, fam, dim) == \A c \in 1..N(M, dim) : CellPositive(fam, dim, Pts(M, dim, c))
AllCellsValid(M, fam, dim) == \A c \in 1..N(M, dim) : CellValid(fam, dim, Pts(M, dim, c))
Volume(M, fam, dim) ==
  FoldSeq(LAMBDA x, acc : acc + x, 0, [c \in 1..N(M, dim) |-> CellVolScaled(fam, dim, Pts(M, dim, c))])

\* ---- mesh parts on one level ------------------------------------------------------------------------------------------
PartTargetsOK(M, P, dim) ==
  /\ Len(P.t) = dim + 1
  /\ \A d \in 0..dim : \A j \in 1..Len(P.t[d + 1]) : P.t[d + 1][j] \in 0..(N(M, d) - 1)
PartTopo(P, dim) == [n |-> [d \in 1..(dim + 1) |-> Len(P.t[d])], idx |-> P.tidx]
\* a part that carries its own topology: it is a well-formed, consistent topology and the vertex tuple of each part
\* entity, mapped through the vertex target set, is the parent entity it is mapped to
PartTopologyOK(M, P, fam, dim) ==
  P.topo =>
    LET T == PartTopo(P, dim) IN
      /\ WellFormed(T, fam, dim)
      /\ SubEntityConsistent(T, fam, dim)
      /\ \A d \in 1..dim : \A j \in 1..N(T, d) :
           LET pv == Idx(T, d, 0)[j] IN
             SameEnt(fam, d, [i \in 1..Len(pv) |-> P.t[1][pv[i] + 1]], VT(M, d, P.t[d + 1][j]))
BoundarySets(M, dim, BF) == [e \in 0..(dim - 1) |-> BoundaryEnts(M, dim, BF, e)]
PartIsBoundary(P, dim, BS) ==
  /\ Len(P.t[dim + 1]) = 0
  /\ \A e \in 0..(dim - 1) : Len(P.t[e + 1]) >= Cardinality(BS[e])
  /\ \A e \in 0..(dim - 1) : TRange(P.t[e + 1]) = BS[e]

\* ---- relabelling (RootMeshNode::create_permutation with any PermutationStrategy) ----------------------------------------------
\* P.p[d+1] / P.ip[d+1] are the forward / inverse permutations stored in the mesh (MeshPermutation::get_perms / get_inv_perms):
\* the new d-entity i is the old d-entity p[i].  The permuted mesh must be the original one relabelled by these bijections -
\* same coordinates, same sub-entities in the same local order, i.e. every predicate of this module is invariant - and every
\* mesh part must still point to the same entities as before (so that PartFollows keeps its meaning).
\* An EMPTY stored permutation stands for the identity (strategies such as colored / cuthill_mckee only renumber the cells;
\* TargetSet::permute_map and IndexSet::permute skip empty permutations).
IsPermutation(p, n) == Len(p) = n /\ {p[i] : i \in 1..n} = 0..(n - 1)
EffPerm(p, n) == IF Len(p) = 0 THEN [i \in 1..n |-> i - 1] ELSE p
PermutationsStored(Mo, P, dim) ==
  /\ Len(P.p) = dim + 1 /\ Len(P.ip) = dim + 1
  /\ \A d \in 0..dim :
       LET n == N(Mo, d)  f == EffPerm(P.p[d + 1], n)  g == EffPerm(P.ip[d + 1], n) IN
       /\ IsPermutation(f, n) /\ IsPermutation(g, n)
       /\ \A i \in 1..n : g[f[i] + 1] = i - 1
ForwardPermsOK(Mo, P, dim) == Len(P.p) = dim + 1 /\ \A d \in 0..dim : IsPermutation(EffPerm(P.p[d + 1], N(Mo, d)), N(Mo, d))
Relabelled(Mo, Mp, P, fam, dim) ==
  LET F == [d \in 1..(dim + 1) |-> EffPerm(P.p[d], N(Mo, d - 1))] IN
  /\ Mp.n = Mo.n /\ Len(Mp.X) = Len(Mo.X)
  /\ \A v \in 1..N(Mo, 0) : Mp.X[v] = Mo.X[F[1][v] + 1]
  /\ \A d \in 1..dim : \A e \in 0..(d - 1) : \A i \in 1..N(Mo, d) : \A k \in 1..NF(fam, d, e) :
       F[e + 1][Idx(Mp, d, e)[i][k] + 1] = Idx(Mo, d, e)[F[d + 1][i] + 1][k]
PartRelabelled(Mo, Po, Pp, P, dim) ==
  /\ Pp.name = Po.name /\ Pp.topo = Po.topo /\ (Po.topo => Pp.tidx = Po.tidx)
  /\ \A d \in 0..dim :
       /\ Len(Pp.t[d + 1]) = Len(Po.t[d + 1])
       /\ \A j \in 1..Len(Po.t[d + 1]) : EffPerm(P.p[d + 1], N(Mo, d))[Pp.t[d + 1][j] + 1] = Po.t[d + 1][j]

\* ---- refinement relation ------------------------------------------------------------------------------------------------
\* entity counts: n'_e = sum_d n_d * NumChildren(d, e)
RECURSIVE CountSum(_, _, _, _)
CountSum(Mc, fam, e, d) == IF d < 0 THEN 0 ELSE N(Mc, d) * NCh[fam][d][e] + CountSum(Mc, fam, e, d - 1)
Counts(Mc, Mf, fam, dim) == \A e \in 0..dim : N(Mf, e) = CountSum(Mc, fam, e, dim)

\* closure of the coarse d-entity i as a set of <<dimension, index>>
Closure(Mc, fam, d, i) ==
  {<<d, i>>} \cup UNION {{<<e, Idx(Mc, d, e)[i + 1][k]>> : k \in 1..NF(fam, d, e)} : e \in 0..(d - 1)}

ParShapeOK(Mc, Mf, par, dim) ==
  /\ Len(par) = dim + 1
  /\ \A e \in 0..dim : Len(par[e + 1]) = N(Mf, e) /\ \A t \in 1..N(Mf, e) :
       Len(par[e + 1][t]) = 2 /\ par[e + 1][t][1] \in e..dim /\ par[e + 1][t][2] \in 0..(N(Mc, par[e + 1][t][1]) - 1)
\* every fine vertex is a coarse vertex or the barycentre of a coarse entity that receives a midpoint
VertexOrigin(Mc, Mf, par, fam) ==
  \A v \in 1..N(Mf, 0) :
    LET d == par[1][v][1]  i == par[1][v][2] IN
      /\ (d = 0 \/ NCh[fam][d][0] = 1)
      /\ Scal(NVerts(fam, d), Mf.X[v]) = SumPts(Mc.X, VT(Mc, d, i), NVerts(fam, d))
\* <<d,i>> is the smallest coarse entity whose closure contains the origins of all vertices of the fine e-entity t
IsParent(Mc, Mf, par, fam, e, t, p) ==
  LET d == p[1]  i == p[2]
      O == {par[1][v + 1] : v \in VS(Mf, e, t - 1)}
  IN /\ O \subseteq Closure(Mc, fam, d, i)
     /\ d >= 1 => \A k \in 1..NF(fam, d, d - 1) : ~(O \subseteq Closure(Mc, fam, d - 1, Idx(Mc, d, d - 1)[i + 1][k]))
ParentsValid(Mc, Mf, par, fam, dim) ==
  \A e \in 0..dim : \A t \in 1..N(Mf, e) : IsParent(Mc, Mf, par, fam, e, t, par[e + 1][t])
\* children of every coarse entity: the fine e-entities sorted by their parent <<d, i, t>> (SetToSeq enumerates the
\* normalised = sorted set) must have the exact block structure "NumChildren(d,e) consecutive entries for the parent
\* <<d,i>>, parents in ascending order" - i.e. every coarse entity has exactly NumChildren(d, e) children of dimension e
ChildSeq(Mf, par, e) == SetToSeq({<<par[e + 1][t][1], par[e + 1][t][2], t>> : t \in 1..N(Mf, e)})
RECURSIVE ChildOffset(_, _, _, _)
ChildOffset(Mc, fam, e, d) == IF d <= e THEN 0 ELSE N(Mc, d - 1) * NCh[fam][d - 1][e] + ChildOffset(Mc, fam, e, d - 1)
ChildrenCount(Mc, CS, fam, dim) ==
  \A e \in 0..dim : LET S == CS[e + 1] IN
    /\ Len(S) = ChildOffset(Mc, fam, e, dim + 1)
    /\ \A d \in e..dim : LET m == NCh[fam][d][e]  off == ChildOffset(Mc, fam, e, d) IN
         \A i \in 0..(N(Mc, d) - 1) : \A j \in 1..m : S[off + i * m + j][1] = d /\ S[off + i * m + j][2] = i
\* the children (fine e-entities, 1-based) of the coarse entity <<d,i>>; meaningful when ChildrenCount holds
ChildrenOf(Mc, CS, fam, d, i, e) ==
  LET m == NCh[fam][d][e]  off == ChildOffset(Mc, fam, e, d) IN {CS[e + 1][off + i * m + j][3] : j \in 1..m}

\* a fine entity belongs to the refined part iff its parent belongs to the coarse part; multiplicities add up
RECURSIVE PartCountSum(_, _, _, _)
PartCountSum(Pc, fam, e, d) == IF d < e THEN 0 ELSE Len(Pc.t[d + 1]) * NCh[fam][d][e] + PartCountSum(Pc, fam, e, d - 1)
PartFollows(Mc, CS, Pc, Pf, fam, dim) ==
  /\ Pf.topo = Pc.topo
  /\ \A e \in 0..dim :
       LET expect == UNION {UNION {ChildrenOf(Mc, CS, fam, d, i, e) : i \in TRange(Pc.t[d + 1])} : d \in e..dim}
       IN /\ {x + 1 : x \in TRange(Pf.t[e + 1])} = expect
          /\ Len(Pf.t[e + 1]) = PartCountSum(Pc, fam, e, dim)

\* ---- RootMeshNode::refine_unique(AdaptMode): none / chart / dual / chart|dual -----------------------------------------------
\* One step produces from a coarse level Mc three fine levels of the SAME coarse node:
\*    Mn = refinement without adaption (the plain regular refinement, fully specified by the relation above),
\*    Xp = vertex coordinates after the chart adaption (mode without the dual bit),   Mf = the result with the full mode.
\* Adaption never touches the topology or the mesh parts: it only moves vertices, and only the following ones.
\*  chart:  only vertices in the vertex target set of a mesh part that carries a chart may move (frame condition); for the
\*          graph chart  x_b = c + sgn * x_a^2 / 2^s  (an idempotent projection onto a graph over the coordinate plane x_b = c)
\*          their new position is given exactly (all coordinates are integers at scale 2^K);
\*  dual:   (documented for hypercubes of dimension >= 2, no-op otherwise) every vertex that is the midpoint of a coarse CELL
\*          moves to the arithmetic mean of the (chart-adapted) midpoint vertices of the facets of that cell; nothing else moves.
\*          Consequences that are theorems of this rule: on a mesh without chart adaption the mean of the facet midpoints IS the
\*          barycentre, i.e. Mf = Mn (conformity, orientation and volume as for the plain refinement); in general the moved
\*          vertices are interior to their coarse cell, so the total volume is the one before the dual adaption (DualVolume; a
\*          polynomial identity of the flux formula, exact in integers).
SameTopology(Ma, Mb) == Ma.n = Mb.n /\ Ma.idx = Mb.idx /\ Ma.bf = Mb.bf
SameParts(Ma, Mb) == Len(Ma.parts) = Len(Mb.parts) /\ \A j \in 1..Len(Ma.parts) : Ma.parts[j] = Mb.parts[j]
ChartVerts(M, names) == UNION {TRange(M.parts[j].t[1]) : j \in {k \in 1..Len(M.parts) : M.parts[k].name \in names}}
ChartFrame(Mn, Xp, CV) ==
  /\ Len(Xp) = Len(Mn.X)
  /\ \A v \in 1..Len(Xp) : (v - 1) \notin CV => Xp[v] = Mn.X[v]
Pow2K(k) == 2 ^ k
GraphChartRule(Mn, Xp, CV, g, K) ==
  \A v \in 1..Len(Xp) : (v - 1) \in CV =>
    LET sq == Mn.X[v][g.a] * Mn.X[v][g.a]  dv == Pow2K(K + g.s) IN
    /\ \A x \in 1..Len(Xp[v]) : x # g.b => Xp[v][x] = Mn.X[v][x]
    /\ sq % dv = 0
    /\ Xp[v][g.b] - g.c * Pow2K(K) = (IF g.neg THEN -1 ELSE 1) * (sq \div dv)
AbsI(x) == IF x < 0 THEN -x ELSE x
RECURSIVE SumAxis(_, _, _, _)
SumAxis(Xs, vs, a, n) == IF n = 0 THEN 0 ELSE Xs[vs[n]][a] + SumAxis(Xs, vs, a, n - 1)
DualRule(Mc, CS, par, Xp, Xf, fam, dim, usedual, tol) ==
  LET nfe == NF(fam, dim, dim - 1) IN
  /\ Len(Xf) = Len(Xp)
  /\ \A v \in 1..Len(Xf) :
       LET d == par[1][v][1]  i == par[1][v][2] IN
       IF usedual /\ fam = "hypercube" /\ dim >= 2 /\ d = dim
       THEN LET mids == [k \in 1..nfe |-> CHOOSE w \in ChildrenOf(Mc, CS, fam, dim - 1, Idx(Mc, dim, dim - 1)[i + 1][k], 0) : TRUE]
            IN \A a \in 1..dim : AbsI(nfe * Xf[v][a] - SumAxis(Xp, mids, a, nfe)) <= tol
       ELSE Xf[v] = Xp[v]
WithX(M, Xs) == [n |-> M.n, idx |-> M.idx, X |-> Xs]
DualVolume(Mf, Xp, fam, dim) == Volume(WithX(Mf, Mf.X), fam, dim) = Volume(WithX(Mf, Xp), fam, dim)

=============================================================================
