-------------------------------- MODULE Rel --------------------------------
(* Finite relations as adjacency graphs (kernel/adjacency/graph.hpp).       *)
(*                                                                          *)
(* A graph value is  [nd, ni, ptr, idx]  exactly as Adjacency::Graph stores *)
(* it: nd domain nodes, ni image nodes, ptr = nd+1 offsets (0-based values),*)
(* idx = image node numbers (0-based values).  Its meaning is AsRel(g): for *)
(* every domain node the BAG (multiset) of its image nodes, i.e. the        *)
(* multiplicity function Mult(g, i, j).  The render types of the enum       *)
(* RenderType (kernel/adjacency/base.hpp) are defined on that meaning:      *)
(*    as_is              same multiplicities, same order                    *)
(*    *_sorted           same bag per node, non-decreasing order            *)
(*    injectify          multiplicity min(1, m)                             *)
(*    transpose          converse relation with the same multiplicities     *)
(*    injectify_transpose converse of the injectified relation              *)
(*    composite (g1;g2)  Mult(i,l) = SUM_k Mult1(i,k) * Mult2(k,l)          *)
(* The constructive definitions (Render) are what the replayer compares     *)
(* with; the declarative laws (LawRender..) are checked by TLC on every case   *)
(* case, so the constructive oracle is itself verified against the bag      *)
(* semantics of the documentation.                                          *)
EXTENDS Storage, FiniteSets

\* ---- sequences as bags ---------------------------------------------------------------------
SeqRange(s) == {s[k] : k \in 1..Len(s)}
Count(s, v) == Cardinality({k \in 1..Len(s) : s[k] = v})
SameBag(s, t) == Len(s) = Len(t) /\ \A v \in SeqRange(s) \cup SeqRange(t) : Count(s, v) = Count(t, v)
IsSortedSeq(s) == \A k \in 1..(Len(s) - 1) : s[k] <= s[k+1]
NoDup(s) == \A k, l \in 1..Len(s) : k # l => s[k] # s[l]
Repeat(v, k) == [q \in 1..k |-> v]
\* the sorted arrangement of the bag of s (values 0..maxv-1)
SortBag(s, maxv) == Flatten([w \in 1..maxv |-> Repeat(w - 1, Count(s, w - 1))])
\* first occurrences, in order
FirstOcc(s) == LET keep == {k \in 1..Len(s) : \A l \in 1..(k-1) : s[l] # s[k]}
                   pick[k \in 0..Len(s)] == IF k = 0 THEN <<>> ELSE IF k \in keep THEN Append(pick[k-1], s[k]) ELSE pick[k-1]
               IN  pick[Len(s)]

\* ---- graph values ----------------------------------------------------------------------------
GraphValid(g) ==
  /\ Len(g.ptr) = g.nd + 1 /\ g.ptr[1] = 0
  /\ \A i \in 1..g.nd : g.ptr[i] <= g.ptr[i+1]
  /\ g.ptr[g.nd + 1] = Len(g.idx)
  /\ \A k \in 1..Len(g.idx) : g.idx[k] \in 0..(g.ni - 1)

\* adjacency lists: sequence (one entry per domain node) of sequences of image nodes
Row(g, i) == SubSeq(g.idx, g.ptr[i + 1] + 1, g.ptr[i + 2])          \* images of domain node i (0-based)
AdjOf(g) == [i \in 1..g.nd |-> Row(g, i - 1)]
GraphOf(nd, ni, L) ==
  LET off[k \in 0..nd] == IF k = 0 THEN 0 ELSE off[k-1] + Len(L[k])
  IN  [nd |-> nd, ni |-> ni, ptr |-> [k \in 1..(nd + 1) |-> off[k-1]], idx |-> Flatten(L)]

\* the meaning of a graph: multiplicity of image j (0-based) at domain node i (0-based)
Mult(g, i, j) == Count(Row(g, i), j)
AsRel(g) == [i \in 0..(g.nd - 1) |-> [j \in 0..(g.ni - 1) |-> Mult(g, i, j)]]
Support(g) == {<<i, j>> \in (0..(g.nd - 1)) \X (0..(g.ni - 1)) : Mult(g, i, j) > 0}
Degree(g, i) == g.ptr[i + 2] - g.ptr[i + 1]
MaxDegree(g) == IF g.nd = 0 THEN 0 ELSE MaxSeq([i \in 1..g.nd |-> Degree(g, i - 1)])

\* ---- constructive rendering -----------------------------------------------------------------
RenderTypes == {"as_is", "as_is_sorted", "injectify", "injectify_sorted",
                "transpose", "transpose_sorted", "injectify_transpose", "injectify_transpose_sorted"}
\* render types whose ORDER of images is part of the contract (as-is keeps the adjactor's order, sorted
\* types are sorted); for the others only the bag per node is contractual
OrderContractual(t) == t \in {"as_is", "as_is_sorted", "injectify_sorted", "transpose_sorted", "injectify_transpose_sorted"}

SortL(ni, L) == [i \in 1..Len(L) |-> SortBag(L[i], ni)]
InjL(L) == [i \in 1..Len(L) |-> FirstOcc(L[i])]
\* converse: image node j lists the domain nodes in ascending order, each as often as it lists j
TransL(nd, ni, L) == [j \in 1..ni |-> Flatten([i \in 1..nd |-> Repeat(i - 1, Count(L[i], j - 1))])]
\* composition in traversal order: for every image k of i (in order) the images of k (in order)
CompL(L1, L2) == [i \in 1..Len(L1) |-> Flatten([k \in 1..Len(L1[i]) |-> L2[L1[i][k] + 1]])]

RenderL(t, nd, ni, L) ==
  CASE t = "as_is"                      -> [nd |-> nd, ni |-> ni, L |-> L]
    [] t = "as_is_sorted"               -> [nd |-> nd, ni |-> ni, L |-> SortL(ni, L)]
    [] t = "injectify"                  -> [nd |-> nd, ni |-> ni, L |-> InjL(L)]
    [] t = "injectify_sorted"           -> [nd |-> nd, ni |-> ni, L |-> SortL(ni, InjL(L))]
    [] t \in {"transpose", "transpose_sorted"}
                                        -> [nd |-> ni, ni |-> nd, L |-> TransL(nd, ni, L)]
    [] t \in {"injectify_transpose", "injectify_transpose_sorted"}
                                        -> [nd |-> ni, ni |-> nd, L |-> TransL(nd, ni, InjL(L))]

Render(t, g) == LET r == RenderL(t, g.nd, g.ni, AdjOf(g)) IN GraphOf(r.nd, r.ni, r.L)
\* composite render: adjactor g1 (nd x nm) followed by g2 (nm x ni)
Render2(t, g1, g2) == LET r == RenderL(t, g1.nd, g2.ni, CompL(AdjOf(g1), AdjOf(g2))) IN GraphOf(r.nd, r.ni, r.L)

\* ---- declarative laws (bag semantics of the documentation) ------------------------------------
Min2(a, b) == IF a < b THEN a ELSE b
Transposing(t) == t \in {"transpose", "transpose_sorted", "injectify_transpose", "injectify_transpose_sorted"}
Injectifying(t) == t \in {"injectify", "injectify_sorted", "injectify_transpose", "injectify_transpose_sorted"}
\* multiplicity the rendered graph must have at (i, j), given the multiplicity function m of the source
WantMult(t, m(_, _), i, j) ==
  LET base == IF Transposing(t) THEN m(j, i) ELSE m(i, j) IN IF Injectifying(t) THEN Min2(1, base) ELSE base

LawRender(t, g, r) ==
  /\ GraphValid(r)
  /\ r.nd = (IF Transposing(t) THEN g.ni ELSE g.nd) /\ r.ni = (IF Transposing(t) THEN g.nd ELSE g.ni)
  /\ \A i \in 0..(r.nd - 1), j \in 0..(r.ni - 1) : Mult(r, i, j) = WantMult(t, LAMBDA a, b : Mult(g, a, b), i, j)
  /\ (t = "as_is" => r = g)
  /\ (t \in {"as_is_sorted", "injectify_sorted", "transpose_sorted", "injectify_transpose_sorted"}
        => \A i \in 1..r.nd : IsSortedSeq(AdjOf(r)[i]))
  /\ (Injectifying(t) => \A i \in 1..r.nd : NoDup(AdjOf(r)[i]))

\* relational composition with multiplicities
CompMult(g1, g2, i, l) == SumSeq([k \in 1..g1.ni |-> Mult(g1, i, k - 1) * Mult(g2, k - 1, l)])
LawRender2(t, g1, g2, r) ==
  /\ GraphValid(r)
  /\ r.nd = (IF Transposing(t) THEN g2.ni ELSE g1.nd) /\ r.ni = (IF Transposing(t) THEN g1.nd ELSE g2.ni)
  /\ \A i \in 0..(r.nd - 1), j \in 0..(r.ni - 1) : Mult(r, i, j) = WantMult(t, LAMBDA a, b : CompMult(g1, g2, a, b), i, j)
  /\ (Injectifying(t) => \A i \in 1..r.nd : NoDup(AdjOf(r)[i]))
  /\ (OrderContractual(t) /\ t # "as_is" => \A i \in 1..r.nd : IsSortedSeq(AdjOf(r)[i]))

\* ---- enumeration helpers ----------------------------------------------------------------------
\* all sequences over 0..ni-1 of length <= maxlen (with duplicates, every order)
SeqsUpTo(ni, maxlen) == UNION {[1..k -> 0..(ni - 1)] : k \in 0..maxlen}
AllAdj(nd, ni, maxlen) == [1..nd -> SeqsUpTo(ni, maxlen)]
AllGraphs(nd, ni, maxlen) == {GraphOf(nd, ni, L) : L \in AllAdj(nd, ni, maxlen)}
=============================================================================
