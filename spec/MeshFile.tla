------------------------------- MODULE MeshFile -------------------------------
(* C11: FEAT mesh file format -- abstract document, WRITER GRAMMAR and PARSER VERDICT.                              *)
(*                                                                                                                  *)
(* Doc   : abstract content of a mesh file: root mesh (shape family, dimension, vertex coordinates as dyadic         *)
(*         rationals <<m, e>> = m / 2^e, vertex-index tuples of every entity dimension), charts (Circle / Sphere),   *)
(*         mesh parts (name, chart, target mapping per dimension, own topology or none, attributes) and partitions.  *)
(* Out(D): the writer grammar -- the exact sequence of lines Geometry::MeshFileWriter::write() has to produce for D  *)
(*         (doxy_in/mesh_format.dox; markup names, attribute order, size/dim attributes, one entity per line,        *)
(*         indentation).  In(D) is the input text of the document: equal to Out(D) except that parts flagged `par`   *)
(*         are given with topology="parent" and without Topology blocks (the reader has to deduce the topology).     *)
(* Properties decided by replaying every generated case into MeshFileReader / MeshFileWriter (harness c11_meshfile): *)
(*   RoundTrip  Parse(In(D)) = D          (projection of the parsed RootMeshNode / MeshAtlas / PartitionSet)         *)
(*   Stable     Write(Parse(In(D))) = Out(D) byte for byte, and Write(Parse(Out(D))) = Out(D)                        *)
(*   Rejects    every structured mutation m of In(D) has the verdict Verdict(D, m) in {syntax, grammar, content}     *)
(*              (the documented Xml::SyntaxError / GrammarError / ContentError, with the line number the error is    *)
(*              reported for where the spec fixes it), "reject" (any of them or MeshNodeLinkerError, for violations  *)
(*              that need the whole file set), or "ok" with the document D' the mutated text denotes                 *)
(*   Total      no other outcome (crash, hang, sanitizer report, undocumented exception) exists in the spec           *)
(* The verdict is derived from the format description: counted blocks (size attributes), mandatory attributes,       *)
(* index ranges, nesting.  Lines are structured records so that mutations are structural.                            *)
EXTENDS RefCell, SequencesExt, Json, TLC

CONSTANTS Fam,        \* "hypercube" | "simplex"
          Dim,        \* 2 | 3  (shape dimension = world dimension)
          CellCounts, \* subset of {1, 2}
          PartSets,   \* set of sets of part tags, tags in {"A","B","C","D","E"}
          PtnCfgs,    \* subset of {0, 1, 2}
          Indents,    \* subset of BOOLEAN
          ChartKinds, \* subset of 0..7 (2D: 0..2): which chart the atlas holds (see ChartBody)
          Muts        \* BOOLEAN: also enumerate every single structured mutation of every document

VARIABLES ph, doc, mut
vars == <<ph, doc, mut>>

\* ---------------------------------------------------------------------------------------------------------------------
\* strings and numbers
\* ---------------------------------------------------------------------------------------------------------------------
RECURSIVE JoinFrom(_, _, _)
JoinFrom(t, i, sep) == IF i > Len(t) THEN "" ELSE IF i = Len(t) THEN t[i] ELSE t[i] \o sep \o JoinFrom(t, i + 1, sep)
Join(t, sep) == JoinFrom(t, 1, sep)
IStr(n) == ToString(n)
IStrs(t) == [i \in 1..Len(t) |-> IStr(t[i])]

RECURSIVE Concat(_)
Concat(ss) == IF Len(ss) = 0 THEN << >> ELSE Head(ss) \o Concat(Tail(ss))

\* dyadic rationals m / 2^e, normalised, e <= 3: the decimal expansion is finite with at most 3 fractional digits and
\* (m odd) no trailing zero, i.e. exactly what operator<<(double) prints with the default precision 6
RECURSIVE Dy(_, _)
Dy(m, e) == IF e > 0 /\ m % 2 = 0 THEN Dy(m \div 2, e - 1) ELSE <<m, e>>
AbsI(m) == IF m < 0 THEN -m ELSE m
P5(e) == IF e = 0 THEN 1 ELSE IF e = 1 THEN 5 ELSE IF e = 2 THEN 25 ELSE 125
DStr(q) == LET a == AbsI(q[1])
               ip == a \div Pow2(q[2])
               fr == (a % Pow2(q[2])) * P5(q[2])
           IN (IF q[1] < 0 THEN "-" ELSE "") \o IStr(ip) \o (IF q[2] = 0 THEN "" ELSE "." \o IStr(fr))
DStrs(t) == [i \in 1..Len(t) |-> DStr(t[i])]
DyOk(q) == q[2] \in 0..3 /\ (q[2] = 0 \/ q[1] % 2 # 0)

\* ---------------------------------------------------------------------------------------------------------------------
\* the root mesh
\* ---------------------------------------------------------------------------------------------------------------------
NumIdx(e) == NVerts(Fam, e)
GridPt(n, u) == LET i == u % (n + 1)  r == u \div (n + 1) IN IF Dim = 2 THEN <<i, r>> ELSE <<i, r % 2, r \div 2>>
IntPts(n) ==
  IF Fam = "hypercube" THEN [v \in 1..((n + 1) * Pow2(Dim - 1)) |-> GridPt(n, v - 1)]
  ELSE IF Dim = 2 THEN SubSeq(<< <<0, 0>>, <<1, 0>>, <<0, 1>>, <<1, 1>> >>, 1, 2 + n)
  ELSE SubSeq(<< <<0, 0, 0>>, <<1, 0, 0>>, <<0, 1, 0>>, <<0, 0, 1>>, <<1, 1, 1>> >>, 1, 3 + n)
GridIdx(n, i, j, k) == i + (n + 1) * (j + 2 * k)
CellsOf(n) ==
  IF Fam = "hypercube" THEN
    [c \in 1..n |-> [l \in 1..Pow2(Dim) |-> GridIdx(n, (c - 1) + Bit(l - 1, 0), Bit(l - 1, 1), IF Dim = 3 THEN Bit(l - 1, 2) ELSE 0)]]
  ELSE IF Dim = 2 THEN SubSeq(<< <<0, 1, 2>>, <<3, 2, 1>> >>, 1, n)
  ELSE SubSeq(<< <<0, 1, 2, 3>>, <<4, 3, 2, 1>> >>, 1, n)
\* coordinates: one affine dyadic map per axis (negative values, fractions with 1..3 binary digits, integers)
Coord(a, x) == IF a = 1 THEN Dy(3 * x - 2, 2) ELSE IF a = 2 THEN Dy(5 * x - 1, 3) ELSE Dy(7 * x - 4, 1)
VertsOf(n) == LET P == IntPts(n) IN [v \in 1..Len(P) |-> [a \in 1..Dim |-> Coord(a, P[v][a])]]

CellFaces(c, e) == [k \in 1..NFaces(Fam, Dim, e) |->
                      LET fv == FaceVerts(Fam, Dim, e, k - 1) IN [i \in 1..Len(fv) |-> c[fv[i] + 1]]]
RECURSIVE DedupFrom(_, _, _)
DedupFrom(s, i, acc) ==
  IF i > Len(s) THEN acc
  ELSE IF \E j \in 1..Len(acc) : TRange(acc[j]) = TRange(s[i]) THEN DedupFrom(s, i + 1, acc)
  ELSE DedupFrom(s, i + 1, Append(acc, s[i]))
\* entities of dimension e = 1..Dim as vertex tuples: all e-faces of all cells, first occurrence wins
TopoOf(cells) == [e \in 1..Dim |-> IF e = Dim THEN cells
                                   ELSE DedupFrom(Concat([c \in 1..Len(cells) |-> CellFaces(cells[c], e)]), 1, << >>)]

\* ---------------------------------------------------------------------------------------------------------------------
\* mesh parts.  map[e+1] = root indices of the part's e-entities; ptopo[e] = own topology (part-local vertex numbers)
\* ---------------------------------------------------------------------------------------------------------------------
EntIndex(topo, e, S) == (CHOOSE k \in 1..Len(topo[e]) : TRange(topo[e][k]) = S) - 1
\* closure of one d-entity given by its vertex tuple t: its vertices in tuple order, its sub-entities in local face order
ClosureMap(topo, d, t) ==
  [e1 \in 1..(Dim + 1) |->
     LET e == e1 - 1 IN
       IF e = 0 THEN t
       ELSE IF e > d THEN << >>
       ELSE IF e = d THEN << EntIndex(topo, e, TRange(t)) >>
       ELSE [k \in 1..NFaces(Fam, d, e) |->
               LET fv == FaceVerts(Fam, d, e, k - 1) IN EntIndex(topo, e, {t[fv[i] + 1] : i \in 1..Len(fv)})]]
FirstPos(m0, v) == (CHOOSE j \in 1..Len(m0) : m0[j] = v /\ \A i \in 1..(j - 1) : m0[i] # v) - 1
LastPos(m0, v)  == (CHOOSE j \in 1..Len(m0) : m0[j] = v /\ \A i \in (j + 1)..Len(m0) : m0[i] # v) - 1
\* the topology MeshPart::deduct_topology is documented to derive from the parent ("topology=parent"): the parent's
\* vertex tuple of every mapped entity, renumbered by the part's vertex mapping (the LAST vertex entry mapping there)
TopoBy(topo, map, Pos(_, _)) ==
  [e \in 1..Dim |-> [k \in 1..Len(map[e + 1]) |->
     LET pt == topo[e][map[e + 1][k] + 1] IN [i \in 1..Len(pt) |-> Pos(map[1], pt[i])]]]
Deduced(topo, map) == TopoBy(topo, map, LastPos)
NoTopo == [e \in 1..Dim |-> << >>]
AttrVal(i, j) == Dy(2 * i + 3 * j - 3, 2)
Attr(nm, d, n) == [name |-> nm, dim |-> d, vals |-> [i \in 1..n |-> [j \in 1..d |-> AttrVal(i, j)]]]
Facet0(cells) == CellFaces(cells[1], Dim - 1)[1]

PartA(topo, cells) ==
  [name |-> "a:v", chart |-> "", full |-> FALSE, par |-> FALSE,
   map |-> [e1 \in 1..(Dim + 1) |-> IF e1 = 1 THEN <<1, 0>> ELSE << >>], ptopo |-> NoTopo, attrs |-> << >>]
PartB(topo, cells, par) ==
  LET m == ClosureMap(topo, Dim - 1, Facet0(cells)) IN
  [name |-> "b:f", chart |-> "c0", full |-> TRUE, par |-> par, map |-> m, ptopo |-> Deduced(topo, m),
   attrs |-> << Attr("param", Dim - 1, Len(m[1])) >>]
PartC(topo, cells) ==
  [name |-> "c:cell", chart |-> "", full |-> FALSE, par |-> FALSE,
   map |-> ClosureMap(topo, Dim, cells[Len(cells)]), ptopo |-> NoTopo, attrs |-> << >>]
PartD(topo, cells, par) ==
  LET m == ClosureMap(topo, Dim, cells[1]) IN
  [name |-> "d:full", chart |-> "", full |-> TRUE, par |-> par, map |-> m, ptopo |-> Deduced(topo, m),
   attrs |-> << Attr("p1", 1, Len(m[1])), Attr("p3", 3, Len(m[1])) >>]
\* facet with its first vertex listed twice (closed parameterised boundaries of the shipped files do this); its own
\* topology uses the FIRST entry, so it is NOT what the reader would deduce -- never offered as topology="parent"
PartE(topo, cells) ==
  LET m0 == ClosureMap(topo, Dim - 1, Facet0(cells))
      m == [m0 EXCEPT ![1] = Append(m0[1], m0[1][1])] IN
  [name |-> "e:dup", chart |-> "c0", full |-> TRUE, par |-> FALSE, map |-> m, ptopo |-> TopoBy(topo, m, FirstPos),
   attrs |-> << Attr("param", 1, Len(m[1])) >>]
PartsOf(S, topo, cells, par) ==
  (IF "A" \in S THEN << PartA(topo, cells) >> ELSE << >>) \o (IF "B" \in S THEN << PartB(topo, cells, par) >> ELSE << >>) \o
  (IF "C" \in S THEN << PartC(topo, cells) >> ELSE << >>) \o (IF "D" \in S THEN << PartD(topo, cells, par) >> ELSE << >>) \o
  (IF "E" \in S THEN << PartE(topo, cells) >> ELSE << >>)
PSize(p) == [e1 \in 1..(Dim + 1) |-> Len(p.map[e1])]

\* charts.  A chart body is one of
\*   [kind "circle", radius, mid, dom (<< >> or two numbers)]            2D
\*   [kind "sphere", radius, mid]                                        3D
\*   [kind "bezier", closed, orient (1 | -1), pts, params]               2D; pts[k] = [ctrl |-> control points, v |-> vertex point]
\*   [kind "extrude", origin, offset, angles (<< >> = not given), sub]   3D; sub = circle or bezier body
\*   [kind "surfmesh", sverts, trias]                                    3D; surface triangulation: vertex coordinate triplets,
\*                                                                       triangles as triplets of vertex indices
\* Angles are yaw-pitch-roll in revolutions.
Pt(x, y) == << x, y >>
CircleBody(withdom) == [kind |-> "circle", radius |-> Dy(3, 1), mid |-> [a \in 1..2 |-> Coord(a, 1)],
                        dom |-> IF withdom THEN << Dy(0, 0), Dy(4, 0) >> ELSE << >>]
SphereBody == [kind |-> "sphere", radius |-> Dy(3, 1), mid |-> [a \in 1..3 |-> Coord(a, 1)]]
\* open spline: line segment, cubic segment (two control points), parameterised
BezierOpen == [kind |-> "bezier", closed |-> FALSE, orient |-> 1,
               pts |-> << [ctrl |-> << >>, v |-> Pt(Dy(0, 0), Dy(-1, 1))],
                          [ctrl |-> << Pt(Dy(1, 1), Dy(-1, 1)), Pt(Dy(5, 3), Dy(-1, 2)) >>, v |-> Pt(Dy(1, 0), Dy(-1, 2))],
                          [ctrl |-> << >>, v |-> Pt(Dy(2, 0), Dy(-1, 1))] >>,
               params |-> << Dy(0, 0), Dy(1, 1), Dy(1, 0) >>]
\* closed polyline with one quadratic segment, negative orientation, not parameterised
BezierClosed == [kind |-> "bezier", closed |-> TRUE, orient |-> -1,
                 pts |-> << [ctrl |-> << >>, v |-> Pt(Dy(0, 0), Dy(0, 0))],
                            [ctrl |-> << >>, v |-> Pt(Dy(1, 0), Dy(0, 0))],
                            [ctrl |-> << Pt(Dy(3, 1), Dy(3, 2)) >>, v |-> Pt(Dy(1, 0), Dy(1, 0))],
                            [ctrl |-> << >>, v |-> Pt(Dy(0, 0), Dy(0, 0))] >>,
                 params |-> << >>]
\* surface triangulations: the closed surface of a tetrahedron; an open strip of two triangles plus a vertex no triangle uses
SurfTetra == [kind |-> "surfmesh",
              sverts |-> << << Dy(0, 0), Dy(0, 0), Dy(0, 0) >>, << Dy(1, 0), Dy(0, 0), Dy(-1, 2) >>,
                            << Dy(0, 0), Dy(3, 1), Dy(0, 0) >>, << Dy(1, 3), Dy(1, 2), Dy(2, 0) >> >>,
              trias |-> << <<0, 2, 1>>, <<0, 1, 3>>, <<1, 2, 3>>, <<0, 3, 2>> >>]
SurfStrip == [kind |-> "surfmesh",
              sverts |-> << << Dy(-1, 0), Dy(0, 0), Dy(1, 1) >>, << Dy(1, 0), Dy(0, 0), Dy(1, 1) >>, << Dy(0, 0), Dy(5, 2), Dy(0, 0) >>,
                            << Dy(2, 0), Dy(3, 3), Dy(-3, 1) >>, << Dy(7, 0), Dy(7, 0), Dy(7, 0) >> >>,
              trias |-> << <<0, 1, 2>>, <<2, 1, 3>> >>]
Extr(ori, off, ang, sub) == [kind |-> "extrude", origin |-> ori, offset |-> off, angles |-> ang, sub |-> sub]
Ang(y, p, r) == << Dy(y, 3), Dy(p, 3), Dy(r, 3) >>      \* eighths of a revolution
ChartBody(ck, n) ==
  IF Dim = 2 THEN (IF ck = 0 THEN CircleBody(n = 2) ELSE IF ck % 2 = 1 THEN BezierOpen ELSE BezierClosed)
  ELSE IF ck = 0 THEN SphereBody
  ELSE IF ck = 1 THEN Extr(Pt(Dy(1, 1), Dy(-5, 2)), << Dy(1, 2), Dy(1, 0), Dy(-1, 1) >>, Ang(1, -1, 3), CircleBody(FALSE))     \* generic rotation
  ELSE IF ck = 2 THEN Extr(<< >>, << >>, Ang(1, 2, -2), CircleBody(TRUE))                  \* pitch +1/4: gimbal lock
  ELSE IF ck = 3 THEN Extr(<< >>, << Dy(0, 0), Dy(0, 0), Dy(0, 0) >>, Ang(1, -2, 2), BezierOpen)   \* pitch -1/4: gimbal lock; zero offset given
  ELSE IF ck = 4 THEN Extr(Pt(Dy(0, 0), Dy(3, 2)), << >>, Ang(-3, -2, 1), CircleBody(FALSE))      \* pitch -1/4 again, other yaw/roll
  ELSE IF ck = 5 THEN Extr(<< >>, << >>, Ang(0, 0, 0), BezierClosed)                       \* identity rotation given explicitly
  ELSE IF ck = 6 THEN SurfTetra
  ELSE SurfStrip
ChartsOf(S, ck, n) ==
  IF "B" \in S \/ "E" \in S \/ "A" \in S THEN << [name |-> "c0", body |-> ChartBody(ck, n)] >> ELSE << >>

\* the rotation the angles denote is Rz(yaw) Ry(pitch) Rx(roll).  For pitch = +-1/4 (gimbal lock) only roll -+ yaw matters:
\*   Rz(y) Ry(+1/4) Rx(r) = Ry(+1/4) Rx(r - y),     Rz(y) Ry(-1/4) Rx(r) = Ry(-1/4) Rx(r + y)
\* The canonical angles of a rotation (what a writer has to emit so that the text denotes the same rotation and a second
\* write reproduces it) have yaw = 0 at gimbal lock; a rotation equal to the identity is not written at all.
\* Domain of the generator: |yaw|, |roll| < 1/2, |pitch| <= 1/4, |roll -+ yaw| < 1/2.
DyAdd(a, b) == Dy(a[1] * Pow2(3 - a[2]) + b[1] * Pow2(3 - b[2]), 3)
DyNeg(a) == << -a[1], a[2] >>
CanonAngles(a) ==
  IF a = << >> \/ (a[1][1] = 0 /\ a[2][1] = 0 /\ a[3][1] = 0) THEN << >>
  ELSE IF a[2] = Dy(1, 2) THEN << Dy(0, 0), a[2], DyAdd(a[3], DyNeg(a[1])) >>
  ELSE IF a[2] = Dy(-1, 2) THEN << Dy(0, 0), a[2], DyAdd(a[3], a[1]) >>
  ELSE a
CanonVec(v) == IF v = << >> \/ (\A i \in 1..Len(v) : v[i][1] = 0) THEN << >> ELSE v

\* partitions; every patch is an ascending list (the reader collects a patch in a set)
PtnsOf(cfg, n) ==
  IF cfg = 0 THEN << >>
  ELSE IF cfg = 1 THEN << [name |-> "auto", prio |-> 1, level |-> 0, np |-> n, ne |-> n, patches |-> [r \in 1..n |-> << r - 1 >>]] >>
  ELSE << [name |-> "", prio |-> -1, level |-> 1, np |-> 3, ne |-> 4, patches |-> << <<0, 2>>, <<1, 3>>, << >> >>],
          [name |-> "auto", prio |-> 2, level |-> 0, np |-> 1, ne |-> n, patches |-> << [c \in 1..n |-> c - 1] >>] >>

MkDoc(n, S, cfg, ind, par, ck) ==
  LET cells == CellsOf(n)  topo == TopoOf(cells) IN
  [id |-> Join(<< Fam, IStr(Dim), IStr(n), Join([i \in 1..5 |-> IF <<"A", "B", "C", "D", "E">>[i] \in S THEN <<"A", "B", "C", "D", "E">>[i] ELSE ""], ""), IStr(cfg),
                  IF ind THEN "i" ELSE "f", IF par THEN "p" ELSE "e", "k" \o IStr(ck) >>, "-"),
   indent |-> ind, verts |-> VertsOf(n), topo |-> topo, charts |-> ChartsOf(S, ck, n),
   parts |-> PartsOf(S, topo, cells, par), ptns |-> PtnsOf(cfg, n)]

\* ---------------------------------------------------------------------------------------------------------------------
\* the writer grammar: structured lines
\* ---------------------------------------------------------------------------------------------------------------------
\* fl: indentation level of the line when the writer does NOT indent (0 everywhere except inside a SurfaceMesh chart, see SurfLines)
Open(l, n, a) == [k |-> "open",  lvl |-> l, name |-> n, attrs |-> a, toks |-> << >>, fl |-> 0]
Leaf(l, n, a) == [k |-> "leaf",  lvl |-> l, name |-> n, attrs |-> a, toks |-> << >>, fl |-> 0]
Close(l, n)   == [k |-> "close", lvl |-> l, name |-> n, attrs |-> << >>, toks |-> << >>, fl |-> 0]
Data(l, n, t) == [k |-> "data",  lvl |-> l, name |-> n, attrs |-> << >>, toks |-> t, fl |-> 0]   \* name = enclosing block
Block(l, n, a, rows) == << Open(l, n, a) >> \o [i \in 1..Len(rows) |-> Data(l + 1, n, rows[i])] \o << Close(l, n) >>

TypeStr == "conformal:" \o Fam \o ":" \o IStr(Dim) \o ":" \o IStr(Dim)
\* lines of a chart body at nesting level l; asin: the input form (attributes as given) instead of the writer's canonical form
PointRow(p) == << IStr(Len(p.ctrl)) >> \o Concat([k \in 1..Len(p.ctrl) |-> DStrs(p.ctrl[k])]) \o DStrs(p.v)
SimpleBodyLines(b, l) ==
  IF b.kind = "circle" THEN
    << Leaf(l, "Circle", << <<"radius", DStr(b.radius)>>, <<"midpoint", Join(DStrs(b.mid), " ")>> >> \o
                         (IF Len(b.dom) = 2 THEN << <<"domain", Join(DStrs(b.dom), " ")>> >> ELSE << >>)) >>
  ELSE IF b.kind = "sphere" THEN
    << Leaf(l, "Sphere", << <<"radius", DStr(b.radius)>>, <<"midpoint", Join(DStrs(b.mid), " ")>> >>) >>
  ELSE \* bezier
    << Open(l, "Bezier", << <<"dim", "2">>, <<"size", IStr(Len(b.pts))>>, <<"type", IF b.closed THEN "closed" ELSE "open">> >> \o
                         (IF b.orient = -1 THEN << <<"orientation", "-1">> >> ELSE << >>)) >>
    \o Block(l + 1, "Points", << >>, [k \in 1..Len(b.pts) |-> PointRow(b.pts[k])])
    \o (IF Len(b.params) > 0 THEN Block(l + 1, "Params", << >>, [k \in 1..Len(b.params) |-> << DStr(b.params[k]) >>]) ELSE << >>)
    \o << Close(l, "Bezier") >>
\* SurfaceMesh: the counts are the attributes verts / trias; doxy_in/mesh_format.dox writes them verts="8", the writer
\* (Atlas::SurfaceMesh::write) emits a blank in front of the number (verts=" 8"), which denotes the same count.  The chart writer
\* indents its child blocks relative to its own markup whether or not the file is indented (fl: 1 for the block markups, 2 for
\* their content lines); indentation is insignificant to the reader.
SurfLines(b, l, asin) ==
  LET cnt(n) == (IF asin THEN "" ELSE " ") \o IStr(n)
      inner(L) == [i \in 1..Len(L) |-> [L[i] EXCEPT !.fl = IF L[i].k = "data" THEN 2 ELSE 1]] IN
  << Open(l, "SurfaceMesh", << <<"verts", cnt(Len(b.sverts))>>, <<"trias", cnt(Len(b.trias))>> >>) >>
  \o inner(Block(l + 1, "Vertices", << >>, [v \in 1..Len(b.sverts) |-> DStrs(b.sverts[v])]))
  \o inner(Block(l + 1, "Triangles", << >>, [t \in 1..Len(b.trias) |-> IStrs(b.trias[t])]))
  \o << Close(l, "SurfaceMesh") >>
BodyLines(b, l, asin) ==
  IF b.kind = "surfmesh" THEN SurfLines(b, l, asin)
  ELSE IF b.kind # "extrude" THEN SimpleBodyLines(b, l)
  ELSE LET ori == IF asin THEN b.origin ELSE CanonVec(b.origin)
           off == IF asin THEN b.offset ELSE CanonVec(b.offset)
           ang == IF asin THEN b.angles ELSE CanonAngles(b.angles) IN
    << Open(l, "Extrude", (IF ori # << >> THEN << <<"origin", Join(DStrs(ori), " ")>> >> ELSE << >>) \o
                          (IF off # << >> THEN << <<"offset", Join(DStrs(off), " ")>> >> ELSE << >>) \o
                          (IF ang # << >> THEN << <<"angles", Join(DStrs(ang), " ")>> >> ELSE << >>)) >>
    \o SimpleBodyLines(b.sub, l + 1) \o << Close(l, "Extrude") >>
ChartLines(c, asin) == << Open(1, "Chart", << <<"name", c.name>> >>) >> \o BodyLines(c.body, 2, asin) \o << Close(1, "Chart") >>
MeshLines(D) ==
  << Open(1, "Mesh", << <<"type", TypeStr>>,
                        <<"size", Join(IStrs(<<Len(D.verts)>> \o [e \in 1..Dim |-> Len(D.topo[e])]), " ")>> >>) >>
  \o Block(2, "Vertices", << >>, [v \in 1..Len(D.verts) |-> DStrs(D.verts[v])])
  \o Concat([e \in 1..Dim |-> Block(2, "Topology", << <<"dim", IStr(e)>> >>, [k \in 1..Len(D.topo[e]) |-> IStrs(D.topo[e][k])])])
  \o << Close(1, "Mesh") >>
\* asin: input form (topology="parent" for flagged parts) instead of the writer's form
PartLines(p, asin) ==
  LET parent == asin /\ p.par IN
  << Open(1, "MeshPart", << <<"name", p.name>>, <<"parent", "root">> >> \o
                         (IF p.chart # "" THEN << <<"chart", p.chart>> >> ELSE << >>) \o
                         << <<"topology", IF parent THEN "parent" ELSE IF p.full THEN "full" ELSE "none">>,
                            <<"size", Join(IStrs(PSize(p)), " ")>> >>) >>
  \o Concat([e1 \in 1..(Dim + 1) |-> IF Len(p.map[e1]) = 0 THEN << >>
               ELSE Block(2, "Mapping", << <<"dim", IStr(e1 - 1)>> >>, [k \in 1..Len(p.map[e1]) |-> << IStr(p.map[e1][k]) >>])])
  \o (IF p.full /\ ~parent THEN
        Concat([e \in 1..Dim |-> IF Len(p.ptopo[e]) = 0 THEN << >>
                  ELSE Block(2, "Topology", << <<"dim", IStr(e)>> >>, [k \in 1..Len(p.ptopo[e]) |-> IStrs(p.ptopo[e][k])])])
      ELSE << >>)
  \o Concat([a \in 1..Len(p.attrs) |->
               Block(2, "Attribute", << <<"name", p.attrs[a].name>>, <<"dim", IStr(p.attrs[a].dim)>> >>,
                     [i \in 1..Len(p.attrs[a].vals) |-> DStrs(p.attrs[a].vals[i])])])
  \o << Close(1, "MeshPart") >>
PtnLines(q) ==
  << Open(1, "Partition", (IF q.name # "" THEN << <<"name", q.name>> >> ELSE << >>) \o
        << <<"priority", IStr(q.prio)>>, <<"level", IStr(q.level)>>, <<"size", IStr(q.np) \o " " \o IStr(q.ne)>> >>) >>
  \o Concat([r \in 1..Len(q.patches) |->
               Block(2, "Patch", << <<"rank", IStr(r - 1)>>, <<"size", IStr(Len(q.patches[r]))>> >>,
                     [i \in 1..Len(q.patches[r]) |-> << IStr(q.patches[r][i]) >>])])
  \o << Close(1, "Partition") >>
Lines(D, asin) ==
  << Open(0, "FeatMeshFile", << <<"version", "1">>, <<"mesh", TypeStr>> >>) >>
  \o Concat([c \in 1..Len(D.charts) |-> ChartLines(D.charts[c], asin)])
  \o MeshLines(D)
  \o Concat([p \in 1..Len(D.parts) |-> PartLines(D.parts[p], asin)])
  \o Concat([q \in 1..Len(D.ptns) |-> PtnLines(D.ptns[q])])
  \o << Close(0, "FeatMeshFile") >>

Sp(ind, l) == IF ~ind \/ l = 0 THEN "" ELSE IF l = 1 THEN "  " ELSE IF l = 2 THEN "    " ELSE IF l = 3 THEN "      "
              ELSE IF l = 4 THEN "        " ELSE "          "
AttrStr(a) == Join([i \in 1..Len(a) |-> " " \o a[i][1] \o "=\"" \o a[i][2] \o "\""], "")
Render(ind, r) ==
  (IF ind THEN Sp(TRUE, r.lvl) ELSE Sp(TRUE, r.fl)) \o (IF r.k = "open" THEN "<" \o r.name \o AttrStr(r.attrs) \o ">"
                     ELSE IF r.k = "leaf" THEN "<" \o r.name \o AttrStr(r.attrs) \o " />"
                     ELSE IF r.k = "close" THEN "</" \o r.name \o ">"
                     ELSE Join(r.toks, " "))
Text(ind, L) == [i \in 1..Len(L) |-> Render(ind, L[i])]
OutText(D) == Text(D.indent, Lines(D, FALSE))

\* ---------------------------------------------------------------------------------------------------------------------
\* structured mutations of In(D) and their verdict
\* ---------------------------------------------------------------------------------------------------------------------
\* edit: op in {"trunc" (keep `at` lines), "del" (line at), "ins" (text before line at), "rep" (line at := text),
\*              "delr" (delete lines at..text), "dupr" (lines at..text twice); text = last line number as decimal}
\* v: verdict; el: line number the error is reported for (0 = not fixed by the spec); out: text written after "ok"
\* (<< >> = Out(D))
M(kind, op, at, text, v, el) == [kind |-> kind, op |-> op, at |-> at, text |-> text, v |-> v, el |-> el, out |-> << >>]
MOk(kind, op, at, text, D2) == [kind |-> kind, op |-> op, at |-> at, text |-> text, v |-> "ok", el |-> 0, out |-> OutText(D2)]

Mandatory(name) ==
  CASE name = "FeatMeshFile" -> {"version"}
    [] name = "Chart" -> {"name"}
    [] name \in {"Circle", "Sphere"} -> {"radius", "midpoint"}
    [] name = "Bezier" -> {"dim", "size"}
    [] name = "SurfaceMesh" -> {"verts", "trias"}
    [] name = "Mesh" -> {"type", "size"}
    [] name \in {"Topology", "Mapping"} -> {"dim"}
    [] name = "MeshPart" -> {"name", "parent", "size", "topology"}
    [] name = "Attribute" -> {"name", "dim"}
    [] name = "Partition" -> {"size"}
    [] name = "Patch" -> {"rank", "size"}
    [] OTHER -> {}
WithoutAttr(r, a) == [r EXCEPT !.attrs = [i \in 1..(Len(r.attrs) - 1) |-> IF i < a THEN r.attrs[i] ELSE r.attrs[i + 1]]]
SetAttr(r, key, val) == [r EXCEPT !.attrs = [i \in 1..Len(r.attrs) |-> IF r.attrs[i][1] = key THEN <<key, val>> ELSE r.attrs[i]]]
HasAttr(r, key) == \E i \in 1..Len(r.attrs) : r.attrs[i][1] = key
GetAttr(r, key) == r.attrs[CHOOSE i \in 1..Len(r.attrs) : r.attrs[i][1] = key][2]

Mutations(D) ==
  LET L == Lines(D, TRUE)
      n == Len(L)
      ind == D.indent
      R(r) == Render(ind, r)
      nv == Len(D.verts)
      \* innermost element that is open when line i is read (index of its open line); 0 = none
      EnclIdx(i) == LET l == IF L[i].k = "close" THEN L[i].lvl ELSE L[i].lvl - 1
                        J == {j \in 1..(i - 1) : L[j].k = "open" /\ L[j].lvl = l}
                    IN IF i > n \/ J = {} THEN 0 ELSE CHOOSE j \in J : \A j2 \in J : j2 <= j
      CloseIdx(o) == CHOOSE j \in (o + 1)..n : L[j].k = "close" /\ L[j].lvl = L[o].lvl /\
                                               \A j2 \in (o + 1)..(j - 1) : ~(L[j2].k = "close" /\ L[j2].lvl = L[o].lvl)
      \* which part / partition an element line at index o (MeshPart / Partition open line, or inside) belongs to
      PartAt(o) == LET P == {j \in 1..o : L[j].k = "open" /\ L[j].name = "MeshPart"} IN Cardinality(P)
      PtnAt(o) == LET P == {j \in 1..o : L[j].k = "open" /\ L[j].name = "Partition"} IN Cardinality(P)
      InMesh(o) == LET e == EnclIdx(o) IN e # 0 /\ L[e].name = "Mesh"
      \* number of data lines of the block opened at o
      NData(o) == CloseIdx(o) - o - 1

      Trunc == {M("trunc", "trunc", k, "", "syntax", k + 1) : k \in 0..(n - 1)}

      \* (the first line of a Bezier Points block must be a vertex point: deleting it exposes the next line)
      DelData == {IF L[i].name = "Points" /\ L[i - 1].k = "open" /\ L[i + 1].k = "data" /\ L[i + 1].toks[1] # "0"
                  THEN M("del_data", "del", i, "", "content", i)
                  ELSE M("del_data", "del", i, "", "grammar", CloseIdx(EnclIdx(i)) - 1) : i \in {j \in 1..n : L[j].k = "data"}}
      DupData == {M("dup_data", "ins", i, R(L[i]), "content", CloseIdx(EnclIdx(i))) : i \in {j \in 1..n : L[j].k = "data"}}

      DelOpen == {M("del_open", "del", i, "",
                    IF i = 1 THEN (IF L[2].k = "close" THEN "syntax" ELSE "grammar")
                    ELSE IF L[i + 1].k = "close" THEN "syntax" ELSE "grammar", i) : i \in {j \in 1..n : L[j].k = "open"}}
      DelLeaf == {M("del_leaf", "del", i, "", "grammar", i) : i \in {j \in 1..n : L[j].k = "leaf"}}
      DelClose == {M("del_close", "del", i, "", IF L[i + 1].k = "close" THEN "syntax" ELSE "grammar", i)
                     : i \in {j \in 1..(n - 1) : L[j].k = "close"}}

      \* unknown markup / stray terminator / stray content before line i (i = n+1: after the root terminator: the
      \* scanner stops at the root terminator, trailing text is not part of the document)
      Unknown == {M("unknown_markup", "ins", i, "<Foo>", IF i = n + 1 THEN "ok" ELSE "grammar", IF i = n + 1 THEN 0 ELSE i) : i \in 1..(n + 1)}
      Unbal == {M("stray_terminator", "ins", i, "</Foo>", IF i = n + 1 THEN "ok" ELSE "syntax", IF i = n + 1 THEN 0 ELSE i) : i \in 1..(n + 1)}
      Stray == {M("stray_content", "ins", i, "0", "grammar", i)
                  : i \in {j \in 2..n : EnclIdx(j) # 0 /\ L[EnclIdx(j)].name \in {"FeatMeshFile", "Chart", "Extrude", "Bezier", "SurfaceMesh", "Mesh", "MeshPart", "Partition"}}}

      \* degenerate markups: a markup line without a name, or terminator and closed at the same time, is a syntax error of
      \* that line whatever stands around the slashes
      MarkupLines == {j \in 1..n : L[j].k \in {"open", "close", "leaf"}}
      Degenerate == {M("degenerate_markup", "rep", i, Sp(ind, L[i].lvl) \o t, "syntax", i)
                       : i \in MarkupLines, t \in {"</>", "< / >", "</ >", "<>", "< >", "<//>"}}
                    \cup {M("degenerate_markup", "rep", i, Sp(ind, L[i].lvl) \o "</" \o L[i].name \o "/>", "syntax", i) : i \in MarkupLines}
                    \cup {M("degenerate_markup", "rep", i, Sp(ind, L[i].lvl) \o "<" \o L[i].name \o "//>", "syntax", i) : i \in MarkupLines}
                    \cup {M("degenerate_markup", "rep", i, Sp(ind, L[i].lvl) \o "< /" \o L[i].name \o " / >", "syntax", i) : i \in MarkupLines}

      \* attributes
      AttrLines == {j \in 1..n : L[j].k \in {"open", "leaf"}}
      RemoveOptional(i, key) ==
        IF key = "mesh" THEN MOk("missing_optional_attr", "rep", i, R(WithoutAttr(L[i], 2)), D)
        ELSE IF key = "chart" THEN
          LET p == PartAt(i) IN MOk("missing_optional_attr", "rep", i, R(WithoutAttr(L[i], 3)),
                                    [D EXCEPT !.parts[p].chart = ""])
        ELSE IF L[i].name \in {"Circle", "Bezier", "Extrude"} THEN
          LET c == Cardinality({j \in 1..i : L[j].k = "open" /\ L[j].name = "Chart"})
              a == CHOOSE a \in 1..Len(L[i].attrs) : L[i].attrs[a][1] = key
              nested == L[EnclIdx(i)].name = "Extrude"
              B == D.charts[c].body
              upd(b) == IF key = "domain" THEN [b EXCEPT !.dom = << >>]
                        ELSE IF key = "type" THEN [b EXCEPT !.closed = FALSE]
                        ELSE IF key = "orientation" THEN [b EXCEPT !.orient = 1]
                        ELSE IF key = "origin" THEN [b EXCEPT !.origin = << >>]
                        ELSE IF key = "offset" THEN [b EXCEPT !.offset = << >>]
                        ELSE [b EXCEPT !.angles = << >>]
          IN MOk("missing_optional_attr", "rep", i, R(WithoutAttr(L[i], a)),
                 [D EXCEPT !.charts[c].body = IF nested THEN [B EXCEPT !.sub = upd(B.sub)] ELSE upd(B)])
        ELSE LET q == PtnAt(i)
                 a == CHOOSE a \in 1..Len(L[i].attrs) : L[i].attrs[a][1] = key IN
          MOk("missing_optional_attr", "rep", i, R(WithoutAttr(L[i], a)),
              IF key = "name" THEN [D EXCEPT !.ptns[q].name = ""]
              ELSE IF key = "priority" THEN [D EXCEPT !.ptns[q].prio = 0] ELSE [D EXCEPT !.ptns[q].level = 0])
      MissAttr == UNION {{IF L[i].attrs[a][1] \in Mandatory(L[i].name)
                           THEN M("missing_mandatory_attr", "rep", i, R(WithoutAttr(L[i], a)), "grammar", i)
                           ELSE RemoveOptional(i, L[i].attrs[a][1]) : a \in 1..Len(L[i].attrs)} : i \in AttrLines}
      ExtraAttr == {M("unknown_attr", "rep", i, R([L[i] EXCEPT !.attrs = Append(@, <<"foo", "1">>)]), "grammar", i) : i \in AttrLines}
      ClosedMk == {M("closed_markup", "rep", i, R([L[i] EXCEPT !.k = "leaf"]),
                     IF i = 1 THEN "syntax"
                     ELSE IF L[i].name = "Partition" THEN (IF L[i + 1].k = "close" THEN "syntax" ELSE "grammar")
                     ELSE IF L[i].name = "Patch" THEN (IF NData(i) = 0 THEN "syntax" ELSE "grammar")
                     ELSE "grammar",
                     IF L[i].name \in {"Partition", "Patch"} /\ ~(L[i].name = "Patch" /\ NData(i) > 0) THEN i + 1 ELSE i)
                     : i \in {j \in 1..n : L[j].k = "open"}}

      \* declared counts
      SizeVals(i) == IF L[i].name = "Bezier" THEN << NData(i + 1) >>
                     ELSE IF L[i].name = "Mesh" THEN <<nv>> \o [e \in 1..Dim |-> Len(D.topo[e])]
                     ELSE IF L[i].name = "MeshPart" THEN PSize(D.parts[PartAt(i)])
                     ELSE IF L[i].name = "Partition" THEN << D.ptns[PtnAt(i)].np, D.ptns[PtnAt(i)].ne >>
                     ELSE << NData(i) >>
      WithSize(i, vals) == R(SetAttr(L[i], "size", Join(IStrs(vals), " ")))
      \* index (in L) of the open line of the block of the part/mesh at i that holds the entities of dimension e
      BlockOf(i, nm, e) == LET J == {j \in (i + 1)..CloseIdx(i) : L[j].k = "open" /\ L[j].name = nm /\ GetAttr(L[j], "dim") = IStr(e)}
                           IN IF J = {} THEN 0 ELSE CHOOSE j \in J : TRUE
      SizeLines == {j \in 1..n : L[j].k = "open" /\ HasAttr(L[j], "size")}
      SizeMut(i, j, dlt) ==
        LET vals == SizeVals(i)
            nvals == [vals EXCEPT ![j] = @ + dlt]
            txt == WithSize(i, nvals)
            nm == L[i].name
        IN IF nm = "Mesh" THEN
             LET b == IF j = 1 THEN (CHOOSE x \in (i + 1)..n : L[x].k = "open" /\ L[x].name = "Vertices") ELSE BlockOf(i, "Topology", j - 1)
             IN M("count", "rep", i, txt, IF dlt > 0 THEN "grammar" ELSE "content", IF dlt > 0 THEN CloseIdx(b) ELSE CloseIdx(b) - 1)
           ELSE IF nm = "MeshPart" THEN
             LET b == BlockOf(i, "Mapping", j - 1)
             IN IF b = 0 THEN M("count", "rep", i, txt, "grammar", CloseIdx(i))       \* "missing mapping" at the part terminator
                ELSE M("count", "rep", i, txt, IF dlt > 0 THEN "grammar" ELSE "content", IF dlt > 0 THEN CloseIdx(b) ELSE CloseIdx(b) - 1)
           ELSE IF nm = "Bezier" THEN     \* size = number of vertex points = lines of the Points block (and of Params)
             (IF vals[1] + dlt < 2 THEN M("count", "rep", i, txt, "grammar", i)
              ELSE M("count", "rep", i, txt, IF dlt > 0 THEN "grammar" ELSE "content", IF dlt > 0 THEN CloseIdx(i + 1) ELSE CloseIdx(i + 1) - 1))
           ELSE IF nm = "Patch" THEN
             M("count", "rep", i, txt, IF dlt > 0 THEN "grammar" ELSE "content", IF dlt > 0 THEN CloseIdx(i) ELSE CloseIdx(i) - 1)
           ELSE \* Partition: "np ne"
             LET q == PtnAt(i)  Q == D.ptns[q] IN
             IF j = 1 THEN
               (IF dlt > 0 THEN MOk("count", "rep", i, txt, [D EXCEPT !.ptns[q].np = Q.np + 1, !.ptns[q].patches = Append(Q.patches, << >>)])
                ELSE \* the Patch block of the last rank is out of range
                  M("count", "rep", i, txt, "content", CloseIdx(i) - 1 - Len(Q.patches[Q.np]) - 1))
             ELSE
               (IF dlt > 0 \/ \A r \in 1..Q.np : \A x \in 1..Len(Q.patches[r]) : Q.patches[r][x] < Q.ne - 1
                THEN MOk("count", "rep", i, txt, [D EXCEPT !.ptns[q].ne = Q.ne + dlt])
                ELSE M("count", "rep", i, txt, "content", 0))
      Counts == UNION {{SizeMut(i, j, 1) : j \in 1..Len(SizeVals(i))} : i \in SizeLines} \cup
                UNION {{SizeMut(i, j, -1) : j \in {x \in 1..Len(SizeVals(i)) : SizeVals(i)[x] >= 1}} : i \in SizeLines}
      \* number of size entries
      SizeLen == UNION {
        LET vals == SizeVals(i)  nm == L[i].name  k == Len(vals) IN
          IF nm \in {"Patch", "Bezier"} THEN {}
          ELSE {M("size_arity", "rep", i, WithSize(i, Append(vals, 0)), "content", i)} \cup
               (IF nm = "MeshPart" /\ vals[k] = 0
                THEN {MOk("size_arity", "rep", i, WithSize(i, SubSeq(vals, 1, k - 1)), D)}
                ELSE IF nm = "MeshPart"
                THEN {M("size_arity", "rep", i, WithSize(i, SubSeq(vals, 1, k - 1)), "content", BlockOf(i, "Mapping", k - 1) + 1)}
                ELSE {M("size_arity", "rep", i, WithSize(i, SubSeq(vals, 1, k - 1)), "content", i)})
        : i \in SizeLines}

      \* dimensions
      DimLines(nm) == {j \in 1..n : L[j].k = "open" /\ L[j].name = nm}
      TopoDim == {M("topology_dim", "rep", i, R(SetAttr(L[i], "dim", IStr(d2))), "content", 0)
                    : i \in DimLines("Topology"), d2 \in 0..(Dim + 1)} \
                 {M("topology_dim", "rep", i, R(L[i]), "content", 0) : i \in DimLines("Topology")}
      MapDimMut(i, d2) ==
        LET p == D.parts[PartAt(i)]
            d == CHOOSE d \in 0..Dim : GetAttr(L[i], "dim") = IStr(d)
            c == Len(p.map[d + 1])
            txt == R(SetAttr(L[i], "dim", IStr(d2)))
        IN IF d2 > Dim THEN M("mapping_dim_range", "rep", i, txt, "content", i)
           ELSE LET c2 == Len(p.map[d2 + 1]) IN
             IF d2 < d /\ c2 > 0 THEN M("mapping_dim", "rep", i, txt, "content", i)
             ELSE IF c2 > c THEN M("mapping_dim", "rep", i, txt, "grammar", CloseIdx(i))
             ELSE M("mapping_dim", "rep", i, txt, "content", 0)
      MapDim == UNION {{MapDimMut(i, d2) : d2 \in {x \in 0..(Dim + 1) : GetAttr(L[i], "dim") # IStr(x)}} : i \in DimLines("Mapping")}
      AttrDim == UNION {LET d == CHOOSE d \in 1..3 : GetAttr(L[i], "dim") = IStr(d) IN
                          {M("attribute_dim", "rep", i, R(SetAttr(L[i], "dim", IStr(d2))), "content", IF d2 = 0 THEN i ELSE i + 1)
                             : d2 \in {d - 1, d + 1}} : i \in DimLines("Attribute")}
      OtherFam == IF Fam = "hypercube" THEN "simplex" ELSE "hypercube"
      OtherDim == IF Dim = 2 THEN 3 ELSE 2
      TS(f, sd, wd) == "conformal:" \o f \o ":" \o IStr(sd) \o ":" \o IStr(wd)
      MeshIdx == CHOOSE j \in 1..n : L[j].k = "open" /\ L[j].name = "Mesh"
      MeshType == {M("mesh_type", "rep", MeshIdx, R(SetAttr(L[MeshIdx], "type", t)), "content", MeshIdx)
                     : t \in {TS(OtherFam, Dim, Dim), TS(Fam, OtherDim, Dim), TS(Fam, Dim, OtherDim), TS("foo", Dim, Dim), "conformal:" \o Fam}}
      RootType == {M("root_type", "rep", 1, R(SetAttr(L[1], "mesh", TS(OtherFam, Dim, Dim))), "content", MeshIdx),
                   M("root_type", "rep", 1, R(SetAttr(L[1], "mesh", TS("foo", Dim, Dim))), "grammar", 1),
                   M("root_type", "rep", 1, R(SetAttr(L[1], "mesh", "conformal:" \o Fam)), "grammar", 1),
                   M("root_version", "rep", 1, R(SetAttr(L[1], "version", "2")), "grammar", 1),
                   M("root_version", "rep", 1, R(SetAttr(L[1], "version", "x")), "grammar", 1)}
      PartAttr == UNION {
        {M("part_parent", "rep", i, R(SetAttr(L[i], "parent", "foo")), "content", i),
         M("part_topology", "rep", i, R(SetAttr(L[i], "topology", "bar")), "content", i)} \cup
        (IF GetAttr(L[i], "topology") = "full" THEN
           LET b == {j \in (i + 1)..CloseIdx(i) : L[j].k = "open" /\ L[j].name = "Topology"} IN
             IF b = {} THEN {MOk("part_topology", "rep", i, R(SetAttr(L[i], "topology", "none")), [D EXCEPT !.parts[PartAt(i)].full = FALSE])}
             ELSE {M("part_topology", "rep", i, R(SetAttr(L[i], "topology", "none")), "content", CHOOSE j \in b : \A j2 \in b : j <= j2)}
         ELSE {})
        : i \in DimLines("MeshPart")}

      \* partition attributes: level is a refinement level (>= 0), priority an integer
      PtnAttr == UNION {{M("partition_level", "rep", i, R(SetAttr(L[i], "level", "-1")), "content", i),
                         M("partition_level", "rep", i, R(SetAttr(L[i], "level", "x")), "content", i),
                         M("partition_priority", "rep", i, R(SetAttr(L[i], "priority", "x")), "content", i),
                         M("partition_size", "rep", i, R(SetAttr(L[i], "size", "x 1")), "content", i)} : i \in DimLines("Partition")}

      \* chart attributes (Circle / Sphere): positive radius, midpoint with one number per world dimension
      ChartAttr == UNION {{M("chart_radius", "rep", i, R(SetAttr(L[i], "radius", "0")), "grammar", i),
                           M("chart_radius", "rep", i, R(SetAttr(L[i], "radius", "-1.5")), "grammar", i),
                           M("chart_radius", "rep", i, R(SetAttr(L[i], "radius", "r")), "grammar", i),
                           M("chart_midpoint", "rep", i, R(SetAttr(L[i], "midpoint", "0.25")), "grammar", i),
                           M("chart_midpoint", "rep", i, R(SetAttr(L[i], "midpoint", "0.25 0.5 1 2")), "grammar", i)}
                            : i \in {j \in 1..n : L[j].k = "leaf"}}
                   \cup UNION {{M("bezier_attr", "rep", i, R(SetAttr(L[i], "dim", "3")), "grammar", i),
                                M("bezier_attr", "rep", i, R(SetAttr(L[i], "size", "1")), "grammar", i),
                                M("bezier_attr", "rep", i, R(SetAttr(L[i], "type", "round")), "content", i)} : i \in DimLines("Bezier")}
                   \cup UNION {UNION {{M("extrude_attr", "rep", i, R(SetAttr(L[i], a, "0.5")), "grammar", i),
                                       M("extrude_attr", "rep", i, R(SetAttr(L[i], a, "a 0 0")), "grammar", i)}
                                        : a \in {x \in {"origin", "offset", "angles"} : HasAttr(L[i], x)}} : i \in DimLines("Extrude")}

      \* index ranges
      DataIn(nm) == {j \in 1..n : L[j].k = "data" /\ L[j].name = nm}
      RepTok(i, t, s) == R([L[i] EXCEPT !.toks[t] = s])
      TopoBound(i) == IF InMesh(EnclIdx(i)) THEN nv ELSE Len(D.parts[PartAt(i)].map[1])
      TopoIdx == UNION {{M("vertex_index_range", "rep", i, RepTok(i, t, s), "content", i)
                           : t \in 1..Len(L[i].toks), s \in {IStr(TopoBound(i)), "-1"}} : i \in DataIn("Topology")}
      PatchIdx == {M("patch_index_range", "rep", i, RepTok(i, 1, s), "content", i)
                     : i \in DataIn("Patch"), s \in {"-1"}} \cup
                  {M("patch_index_range", "rep", i, RepTok(i, 1, IStr(D.ptns[PtnAt(i)].ne)), "content", i) : i \in DataIn("Patch")} \cup
                  {M("patch_rank_range", "rep", i, R(SetAttr(L[i], "rank", IStr(D.ptns[PtnAt(i)].np))), "content", i) : i \in DimLines("Patch")}
      \* a Mapping entry is an index of a root mesh entity of that dimension (dimension 0: a vertex index).  The root mesh
      \* may come from another file of a multi-file set, so the range can only be checked once everything is read:
      \* verdict "reject" = any documented rejection (Xml error or Geometry::MeshNodeLinkerError)
      ParentCount(e) == IF e = 0 THEN nv ELSE Len(D.topo[e])
      MapIdx == UNION {LET e == CHOOSE e \in 0..Dim : GetAttr(L[EnclIdx(i)], "dim") = IStr(e)
                           par == GetAttr(L[EnclIdx(EnclIdx(i))], "topology") = "parent" IN
                         {M(IF par THEN "mapping_index_range_parent" ELSE "mapping_index_range", "rep", i, RepTok(i, 1, s), "reject", 0)
                            : s \in {IStr(ParentCount(e)), "-1"}} : i \in DataIn("Mapping")}

      \* topology="parent": the topology is the parent's, renumbered by the part's vertex mapping -- every vertex of a
      \* mapped entity has to be in the Mapping of dimension 0.  Replace one entry by a (valid) vertex the part does not
      \* contain: the document is inconsistent and has to be rejected
      MapMissing == UNION {LET o == EnclIdx(i)
                               p == D.parts[PartAt(i)]
                               free == (0..(nv - 1)) \ TRange(p.map[1]) IN
                             IF GetAttr(L[o], "dim") = "0" /\ GetAttr(L[EnclIdx(o)], "topology") = "parent" /\ free # {}
                             THEN {M("mapping_vertex_missing_parent", "rep", i, RepTok(i, 1, IStr(CHOOSE v \in free : \A w \in free : v <= w)), "reject", 0)}
                             ELSE {} : i \in DataIn("Mapping")}

      \* malformed numbers / token counts
      MultiTok == DataIn("Vertices") \cup DataIn("Topology") \cup DataIn("Attribute") \cup DataIn("Triangles")
      PointTok == UNION {{M("token_count", "rep", i, R([L[i] EXCEPT !.toks = Append(@, "0")]), "content", i)} \cup
                         {M("token_not_a_number", "rep", i, RepTok(i, t, "abc"), "content", i) : t \in 1..Len(L[i].toks)}
                         : i \in DataIn("Points")}
                  \* a control point count is a count: a negative one is malformed content
                  \cup {M("bezier_negative_control_count", "rep", i, R([L[i] EXCEPT !.toks = << "-1" >>]), "content", i)
                          : i \in {j \in DataIn("Points") : L[j - 1].k = "data"}}
      Tokens == UNION {{M("token_count", "rep", i, R([L[i] EXCEPT !.toks = Append(@, "0")]), "content", i)} \cup
                       (IF Len(L[i].toks) > 1 THEN {M("token_count", "rep", i, R([L[i] EXCEPT !.toks = Tail(@)]), "content", i)} ELSE {}) \cup
                       {M("token_not_a_number", "rep", i, RepTok(i, t, "abc"), "content", i) : t \in 1..Len(L[i].toks)}
                       : i \in MultiTok} \cup
                {M("token_not_a_number", "rep", i, RepTok(i, 1, "abc"), "content", i) : i \in DataIn("Mapping") \cup DataIn("Patch") \cup DataIn("Params")} \cup PointTok
      \* a number followed by garbage is not a number ("12x", "1.5" for an index, two numbers where one is expected)
      Garbage == UNION {{M("token_trailing_garbage", "rep", i, RepTok(i, t, L[i].toks[t] \o "x"), "content", i) : t \in 1..Len(L[i].toks)}
                          : i \in {j \in 1..n : L[j].k = "data"}} \cup
                 {M("token_trailing_garbage", "rep", i, RepTok(i, 1, L[i].toks[1] \o " 0"), "content", i) : i \in DataIn("Mapping") \cup DataIn("Patch")} \cup
                 {M("token_trailing_garbage", "rep", i, RepTok(i, t, L[i].toks[t] \o ".5"), "content", i)
                    : i \in DataIn("Topology"), t \in {1}}

      \* SurfaceMesh chart: the declared counts are the attributes verts / trias of the chart markup; a triangle is a triplet
      \* of indices of the chart's own vertices
      SurfBlock(i, key) == CHOOSE j \in (i + 1)..CloseIdx(i) : L[j].k = "open" /\ L[j].name = (IF key = "verts" THEN "Vertices" ELSE "Triangles")
      SurfCount(i, key, dlt) ==
        LET b == SurfBlock(i, key) IN
          M("chart_count", "rep", i, R(SetAttr(L[i], key, IStr(NData(b) + dlt))), IF dlt > 0 THEN "grammar" ELSE "content",
            IF dlt > 0 THEN CloseIdx(b) ELSE CloseIdx(b) - 1)
      SurfCounts == UNION {{SurfCount(i, key, dlt) : key \in {"verts", "trias"}, dlt \in {1, -1}} \cup
                           \* a count is a natural number
                           {M("chart_count_attr", "rep", i, R(SetAttr(L[i], key, t)), "grammar", i) : key \in {"verts", "trias"}, t \in {"x", "-1", ""}}
                             : i \in DimLines("SurfaceMesh")}
      TriIdx == UNION {{M("chart_vertex_index_range", "rep", i, RepTok(i, t, x), "content", i)
                          : t \in 1..Len(L[i].toks), x \in {IStr(NData(SurfBlock(EnclIdx(EnclIdx(i)), "verts"))), "-1"}} : i \in DataIn("Triangles")}

      \* a counted block (only content lines inside) holds the declared number of entries of its parent: without the block
      \* these entries are missing, with a second copy of it there are twice as many as declared -- both violate the count.
      \* Optional blocks (Attribute, Bezier Params, the Patch of a rank) may be left out: the document without them.  Attribute
      \* and Patch blocks are identified by their name / rank attribute, a second one is a key collision and no count violation:
      \* not judged.  The mutation kind names the block (e.g. "dup_block:Bezier/Points").
      CountedBlocks == {j \in 1..n : L[j].k = "open" /\ L[j].name \in {"Vertices", "Topology", "Mapping", "Attribute", "Points", "Params", "Patch", "Triangles"}}
      BlockName(j) == L[EnclIdx(j)].name \o "/" \o L[j].name
      ChartAt(o) == Cardinality({j \in 1..o : L[j].k = "open" /\ L[j].name = "Chart"})
      WithoutBlock(j) ==
        IF L[j].name = "Attribute" THEN
          LET p == PartAt(j)
              a == Cardinality({x \in 1..j : L[x].k = "open" /\ L[x].name = "Attribute" /\ PartAt(x) = p})
              A == D.parts[p].attrs
          IN [D EXCEPT !.parts[p].attrs = SubSeq(A, 1, a - 1) \o SubSeq(A, a + 1, Len(A))]
        ELSE IF L[j].name = "Params" THEN
          LET c == ChartAt(j)  B == D.charts[c].body
          IN [D EXCEPT !.charts[c].body = IF B.kind = "extrude" THEN [B EXCEPT !.sub.params = << >>] ELSE [B EXCEPT !.params = << >>]]
        ELSE LET q == PtnAt(j)
                 r == CHOOSE r \in 1..D.ptns[q].np : GetAttr(L[j], "rank") = IStr(r - 1)
             IN [D EXCEPT !.ptns[q].patches[r] = << >>]
      DelBlock == {IF L[j].name \in {"Attribute", "Params", "Patch"}
                   THEN MOk("del_block:" \o BlockName(j), "delr", j, IStr(CloseIdx(j)), WithoutBlock(j))
                   ELSE M("del_block:" \o BlockName(j), "delr", j, IStr(CloseIdx(j)), "reject", 0) : j \in CountedBlocks}
      DupBlock == {M("dup_block:" \o BlockName(j), "dupr", j, IStr(CloseIdx(j)), "reject", 0)
                     : j \in {x \in CountedBlocks : NData(x) > 0 /\ L[x].name \notin {"Attribute", "Patch"}}}
  IN Trunc \cup Degenerate \cup DelData \cup DupData \cup DelOpen \cup DelLeaf \cup DelClose \cup Unknown \cup Unbal \cup Stray
     \cup MissAttr \cup ExtraAttr \cup ClosedMk \cup Counts \cup SizeLen \cup TopoDim \cup MapDim \cup AttrDim
     \cup MeshType \cup RootType \cup PartAttr \cup PtnAttr \cup ChartAttr \cup TopoIdx \cup PatchIdx \cup MapIdx \cup MapMissing \cup Tokens \cup Garbage
     \cup SurfCounts \cup TriIdx \cup DelBlock \cup DupBlock

\* ---------------------------------------------------------------------------------------------------------------------
\* behaviours: pick a document; (optionally) pick one mutation of it
\* ---------------------------------------------------------------------------------------------------------------------
NoMut == [kind |-> "none"]
HasParentable(S) == "B" \in S \/ "D" \in S
Init ==
  /\ ph = "doc"
  /\ mut = NoMut
  /\ \E n \in CellCounts, S \in PartSets, cfg \in PtnCfgs, ind \in Indents, par \in BOOLEAN, ck \in ChartKinds :
       /\ par => HasParentable(S)
       /\ doc = MkDoc(n, S, cfg, ind, par, ck)
Mutate ==
  /\ Muts /\ ph = "doc"
  /\ ph' = "mut"
  /\ mut' \in Mutations(doc)
  /\ UNCHANGED doc
Next == Mutate
Spec == Init /\ [][Next]_vars

\* ---- sanity of the document model (real invariants) -------------------------------------------------------------------
DocValid ==
  /\ \A v \in 1..Len(doc.verts) : \A a \in 1..Dim : DyOk(doc.verts[v][a])
  /\ \A e \in 1..Dim : \A k \in 1..Len(doc.topo[e]) :
       /\ Len(doc.topo[e][k]) = NumIdx(e)
       /\ \A i \in 1..NumIdx(e) : doc.topo[e][k][i] \in 0..(Len(doc.verts) - 1)
       /\ Cardinality(TRange(doc.topo[e][k])) = NumIdx(e)
  \* every vertex is used, every lower-dimensional entity is a face of a cell and listed once
  /\ UNION {TRange(doc.topo[Dim][k]) : k \in 1..Len(doc.topo[Dim])} = 0..(Len(doc.verts) - 1)
  /\ \A e \in 1..Dim : \A k, k2 \in 1..Len(doc.topo[e]) : k # k2 => TRange(doc.topo[e][k]) # TRange(doc.topo[e][k2])
  /\ \A p \in 1..Len(doc.parts) : LET P == doc.parts[p] IN
       /\ \A e \in 0..Dim : \A k \in 1..Len(P.map[e + 1]) : P.map[e + 1][k] \in 0..((IF e = 0 THEN Len(doc.verts) ELSE Len(doc.topo[e])) - 1)
       /\ P.full => \A e \in 1..Dim :
            /\ Len(P.ptopo[e]) = Len(P.map[e + 1])
            \* own topology is consistent with the parent: local vertex numbers point to the parent's vertices of that entity
            /\ \A k \in 1..Len(P.ptopo[e]) : \A i \in 1..NumIdx(e) :
                 /\ P.ptopo[e][k][i] \in 0..(Len(P.map[1]) - 1)
                 /\ P.map[1][P.ptopo[e][k][i] + 1] = doc.topo[e][P.map[e + 1][k] + 1][i]
       /\ P.par => P.full /\ P.ptopo = Deduced(doc.topo, P.map)
       /\ \A a \in 1..Len(P.attrs) : Len(P.attrs[a].vals) = Len(P.map[1]) /\ \A i \in 1..Len(P.attrs[a].vals) : \A j \in 1..P.attrs[a].dim : DyOk(P.attrs[a].vals[i][j])
       /\ P.chart # "" => \E c \in 1..Len(doc.charts) : doc.charts[c].name = P.chart
  \* a surface triangulation: coordinate triplets, triangles with three different vertices of the chart
  /\ \A c \in 1..Len(doc.charts) : doc.charts[c].body.kind = "surfmesh" =>
       LET B == doc.charts[c].body IN
         /\ \A v \in 1..Len(B.sverts) : Len(B.sverts[v]) = 3 /\ \A a \in 1..3 : DyOk(B.sverts[v][a])
         /\ \A t \in 1..Len(B.trias) : /\ Len(B.trias[t]) = 3 /\ Cardinality(TRange(B.trias[t])) = 3
                                        /\ TRange(B.trias[t]) \subseteq 0..(Len(B.sverts) - 1)
  /\ \A q \in 1..Len(doc.ptns) : LET Q == doc.ptns[q] IN
       /\ Len(Q.patches) = Q.np /\ Q.level >= 0
       /\ \A r \in 1..Q.np : \A i \in 1..Len(Q.patches[r]) :
            Q.patches[r][i] \in 0..(Q.ne - 1) /\ (i > 1 => Q.patches[r][i - 1] < Q.patches[r][i])
\* the writer's form and the input form differ only for topology="parent" parts; both are balanced
Balanced(L) == /\ L[1].k = "open" /\ L[Len(L)].k = "close" /\ L[1].lvl = 0 /\ L[Len(L)].lvl = 0
               /\ \A i \in 2..(Len(L) - 1) : L[i].lvl >= 1
               /\ Cardinality({i \in 1..Len(L) : L[i].k = "open"}) = Cardinality({i \in 1..Len(L) : L[i].k = "close"})
GrammarSane == Balanced(Lines(doc, TRUE)) /\ Balanced(Lines(doc, FALSE))
               /\ (((\A p \in 1..Len(doc.parts) : ~doc.parts[p].par) /\ (\A c \in 1..Len(doc.charts) : doc.charts[c].body.kind \notin {"extrude", "surfmesh"}))
                      => Lines(doc, TRUE) = Lines(doc, FALSE))
               \* the canonical form is a fixed point: writing the written document changes nothing
               /\ \A c \in 1..Len(doc.charts) : doc.charts[c].body.kind = "extrude" =>
                     CanonAngles(CanonAngles(doc.charts[c].body.angles)) = CanonAngles(doc.charts[c].body.angles)
\* every mutation really changes the text and has a verdict
MutSane == ph = "mut" => mut.v \in {"ok", "syntax", "grammar", "content", "reject"} /\ (mut.op # "trunc" => mut.at >= 1)

\* ---- emission ----------------------------------------------------------------------------------------------------------------
Proj(D) == [fam |-> Fam, dim |-> Dim, verts |-> D.verts, topo |-> D.topo, charts |-> D.charts,
            parts |-> [p \in 1..Len(D.parts) |-> [name |-> D.parts[p].name, chart |-> D.parts[p].chart, full |-> D.parts[p].full,
                                                  size |-> PSize(D.parts[p]), map |-> D.parts[p].map,
                                                  ptopo |-> D.parts[p].ptopo, attrs |-> D.parts[p].attrs]],
            ptns |-> D.ptns]
Emit ==
  IF ph = "doc" THEN PrintT(ToJson([t |-> "doc", id |-> doc.id, fam |-> Fam, dim |-> Dim, indent |-> doc.indent,
                                    in |-> Text(doc.indent, Lines(doc, TRUE)), out |-> OutText(doc), doc |-> Proj(doc)]))
  ELSE PrintT(ToJson([t |-> "mut", id |-> doc.id, m |-> mut]))
=============================================================================
