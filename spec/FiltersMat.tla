----------------------------- MODULE FiltersMat -----------------------------
(* C06, matrix part: one matrix A (CSR or BCSR, raw arrays `rep` as in       *)
(* Storage.tla), one unit filter F (or a chain / sequence containing unit    *)
(* filters); the public call                                                 *)
(*    F.filter_mat(A)   resp.   F.filter_offdiag_row_mat(A)                  *)
(* is made twice:  init --FilterM--> once --FilterM--> twice.                *)
(* Invariants (the property, decided on the denotation Filters!FilterMat):   *)
(*   MatConstraint   constrained rows are unit rows (filter_mat, stored      *)
(*                   diagonal) resp. null rows (no stored diagonal, or the   *)
(*                   off-diagonal variant)                                   *)
(*   MatComplement   layout arrays and all other rows untouched              *)
(*   MatIdempotent   the second call changes nothing                         *)
(*   FilteredSolve   square CSR, every constrained row has a stored          *)
(*                   diagonal: every x with A' x = b' (b' = filter_rhs(b))   *)
(*                   takes the prescribed values at the constrained indices  *)
(* Decision rule for constrained rows WITHOUT a stored diagonal entry:       *)
(* filter_mat cannot create an entry; the spec requires all stored entries   *)
(* of such a row to be zero and marks the input as outside the solve         *)
(* guarantee (solvable = FALSE).                                             *)
(* Emit prints every behaviour for the C++ replayer (direction G).           *)
EXTENDS Filters, Json, TLC

CONSTANTS MFmt,        \* "csr" | "bcsr"
          MaxM, MaxN,  \* shapes 0..MaxM x 0..MaxN (block counts for bcsr)
          SquareOnly,  \* TRUE: only square shapes
          BH, BW,      \* block shape (bcsr only; csr: 1, 1)
          Comp,        \* "unit" | "chain" | "seq"
          Pal

VARIABLES ph, F, act, m, n, A0, A1, A2, sol
vars == <<ph, F, act, m, n, A0, A1, A2, sol>>

bhh == IF MFmt = "csr" THEN 0 ELSE BH
bww == IF MFmt = "csr" THEN 0 ELSE BW
MV(i, j) == ((i * 5 + j * 3) % 7) + 2                           \* matrix entries 2..8: neither 0 nor 1
DenseVals(mm, nn) == [i \in 1..mm |-> [j \in 1..nn |-> MV(i, j)]]
RepOf(mm, nn, P) == IF MFmt = "csr" THEN CSROf(mm, nn, DenseVals(mm, nn), P)
                    ELSE BCSROf(mm, nn, BH, BW, DenseVals(mm * BH, nn * BW), P)
AbsOf(mm, nn, rep) == IF MFmt = "csr" THEN AbsCSR(mm, nn, rep) ELSE AbsBCSR(mm, nn, BH, BW, rep)
SM(mm) == IF MFmt = "csr" THEN mm ELSE mm * BH
SN(nn) == IF MFmt = "csr" THEN nn ELSE nn * BW
FBS == IF MFmt = "csr" THEN 1 ELSE BH                           \* block size of the filter = block height

Subsets(mm) == SUBSET (0..(mm - 1))
Mid(mm) == {NoneF(FBS)} \cup (IF mm >= 1 THEN {MeanOf(mm, FBS, Pal)} ELSE {})
MatFilters(mm) ==
  CASE Comp = "unit"  -> {UnitOf(FBS, I, Pal) : I \in Subsets(mm)}
    [] Comp = "chain" -> {[kind |-> "chain", bs |-> FBS, fs |-> <<UnitOf(FBS, I, 1), x, UnitOf(FBS, J, 2)>>] :
                            I \in Subsets(mm), J \in Subsets(mm), x \in Mid(mm)}
    [] Comp = "seq"   -> {[kind |-> "seq", bs |-> FBS, fs |-> <<UnitOf(FBS, I, 2), UnitOf(FBS, J, 1)>>, names |-> <<"a", "ab">>] :
                            I \in Subsets(mm), J \in Subsets(mm)}
\* filter_mat of the scalar UnitFilter exists for CSR only, BCSR<1,bw> offers the off-diagonal variant;
\* chains and sequences offer filter_mat only
Acts == IF Comp = "unit" THEN (IF MFmt = "bcsr" /\ BH = 1 THEN {"offdiag"} ELSE {"mat", "offdiag"})
        ELSE (IF MFmt = "bcsr" /\ BH = 1 THEN {} ELSE {"mat"})

\* the prescribed value of row i (0-based) = value of the last unit part that lists it (filter_rhs order)
RECURSIVE LastVal(_, _, _, _)
LastVal(fs, j, b, c) ==
  IF j = 0 THEN 0
  ELSE IF fs[j].kind = "unit" /\ Has(fs[j].idx, b) THEN fs[j].val[Ent(fs[j], b, c)] ELSE LastVal(fs, j - 1, b, c)
Prescribed(f, b) == IF IsChain(f) THEN LastVal(f.fs, Len(f.fs), b, 1) ELSE f.val[Ent(f, b, 1)]
HasMean(f) == IsChain(f) /\ \E j \in 1..Len(f.fs) : f.fs[j].kind = "mean"
XS(i) == IF i % 2 = 1 THEN i + 1 ELSE -i                      \* 2,-2,4,...
\* data of the filtered solve: x* takes the prescribed values, b := A x* off the constrained rows
SolveData(f, mm, rep) ==
  LET I  == MatRows(f)
      D  == AbsCSR(mm, mm, rep)
      xs == [i \in 1..mm |-> IF (i - 1) \in I THEN Prescribed(f, i - 1) ELSE XS(i)]
      ax == MatVec(mm, mm, D, xs)
  IN  [xs |-> xs, b0 |-> [i \in 1..mm |-> IF (i - 1) \in I THEN 90 + i ELSE ax[i]]]

Init ==
  /\ ph = "init"
  /\ \E mm \in 0..MaxM, nn \in 0..MaxN : \E P \in SUBSET ((1..mm) \X (1..nn)) : \E f \in MatFilters(mm) : \E a \in Acts :
       /\ (SquareOnly => mm = nn)
       /\ m = mm /\ n = nn /\ F = f /\ act = a
       /\ A0 = RepOf(mm, nn, P)
       /\ sol = IF MFmt = "csr" /\ mm = nn /\ a = "mat" /\ ~HasMean(f) /\ (\A i \in MatRows(f) : DiagStored(RepOf(mm, nn, P), i + 1))
                THEN SolveData(f, mm, RepOf(mm, nn, P)) ELSE [xs |-> <<>>, b0 |-> <<>>]
  /\ A1 = [rp |-> <<>>, ci |-> <<>>, va |-> <<>>] /\ A2 = [rp |-> <<>>, ci |-> <<>>, va |-> <<>>]

FilterM1 == ph = "init" /\ ph' = "once"  /\ A1' = FilterMat(F, bhh, bww, A0, act = "offdiag") /\ UNCHANGED <<F, act, m, n, A0, A2, sol>>
FilterM2 == ph = "once" /\ ph' = "twice" /\ A2' = FilterMat(F, bhh, bww, A1, act = "offdiag") /\ UNCHANGED <<F, act, m, n, A0, A1, sol>>
Next == FilterM1 \/ FilterM2
Spec == Init /\ [][Next]_vars

\* ---- the property --------------------------------------------------------------------------------------
Solvable == Len(sol.xs) = m /\ MFmt = "csr" /\ m = n /\ act = "mat" /\ ~HasMean(F)
RepValid == CSRValid(m, n, [rp |-> A0.rp, ci |-> A0.ci, va |-> A0.ci]) /\ WellFormed(F, m)
\* component r of block row b is really constrained by some unit part (not skipped as NaN by all of them)
RECURSIVE Constrains(_, _, _)
Constrains(f, b, r) ==
  CASE f.kind = "unit" -> Has(f.idx, b) /\ ~UnitSkips(f, Ent(f, b, r))
    [] IsChain(f)      -> \E j \in 1..Len(f.fs) : Constrains(f.fs[j], b, r)
    [] OTHER           -> FALSE
UnitRow(len, j) == [s \in 1..len |-> IF s = j THEN 1 ELSE 0]
MatConstraint ==
  ph # "init" =>
    LET D == AbsOf(m, n, A1) IN
      \A b \in 0..(m - 1) : \A r \in 1..FBS :
        Constrains(F, b, r) =>
          D[b * FBS + r] = IF act = "mat" /\ DiagStored(A0, b + 1) /\ (MFmt = "csr" \/ r <= BW)
                           THEN UnitRow(SN(n), (IF MFmt = "csr" THEN b ELSE b * BW) + r)
                           ELSE Zeros(SN(n))
MatComplement ==
  ph # "init" =>
    /\ A1.rp = A0.rp /\ A1.ci = A0.ci /\ Len(A1.va) = Len(A0.va)
    /\ \A k \in 1..Len(A0.va) :
         LET b == RowOfEntry(A0.rp, k) - 1 IN
           IF MFmt = "csr" THEN (~Constrains(F, b, 1) => A1.va[k] = A0.va[k])
           ELSE \A r \in 1..BH : ~Constrains(F, b, r) => A1.va[k][r] = A0.va[k][r]
MatIdempotent == ph = "twice" => A2 = A1
\* every solution of the filtered system takes the prescribed values (small box of candidate solutions)
Box == -3..3
RECURSIVE Vecs(_)
Vecs(len) == IF len = 0 THEN {<<>>} ELSE {Append(x, t) : x \in Vecs(len - 1), t \in Box}
RhsOf(b) == Apply(F, "rhs", 1, b).v
FilteredSolve ==
  ph = "once" /\ Solvable =>
    LET D  == AbsCSR(m, n, A1)
        b1 == RhsOf(sol.b0)
    IN  /\ MatVec(m, n, D, sol.xs) = b1                                  \* the witness solves the filtered system
        /\ \A i \in MatRows(F) : sol.xs[i + 1] = Prescribed(F, i)
        /\ \A x \in Vecs(m) : MatVec(m, n, D, x) = b1 => \A i \in MatRows(F) : x[i + 1] = Prescribed(F, i)

\* ---- emission ------------------------------------------------------------------------------------------
Emit == ph = "twice" =>
  PrintT(ToJson([fmt |-> MFmt, bh |-> BH, bw |-> BW, m |-> m, n |-> n, f |-> F, act |-> act, rep |-> A0, va1 |-> A1.va, va2 |-> A2.va,
                 dense1 |-> AbsOf(m, n, A1),
                 solvable |-> Solvable, xs |-> sol.xs, b0 |-> sol.b0, b1 |-> IF Solvable THEN RhsOf(sol.b0) ELSE <<>>,
                 unique |-> Solvable /\ Det(m, AbsCSR(m, n, A1)) # 0]))
=============================================================================
