SPECIFICATION Spec
CONSTANTS Slots = {1,2,3} Fams = {"dv","csr"} Depth = 3 EmitOn = FALSE Ops = {"all"}
INVARIANTS RefCount NoLeak NoDangling EmptyAtEnd NullNeverCounted TypeOK
CHECK_DEADLOCK FALSE
