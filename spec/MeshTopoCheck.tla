---------------------------- MODULE MeshTopoCheck ----------------------------
(* Trace validation for C10 (direction V): every line of the ndjson file named by the environment variable  *)
(* C10_BATCH is one case = the levels the real code produced (harness/c10_mesh.cpp) plus the origin           *)
(* certificate.  One TLC state per case; the "invariant" Emit evaluates every predicate / relation of         *)
(* MeshTopo on the case and prints the verdict (the list of predicates that do NOT hold) as JSON.  The check  *)
(* reports a violation for every non-empty verdict; it never interprets the dump itself.                      *)
EXTENDS MeshTopo, Json, IOUtils

Cases == ndJsonDeserialize(IOEnv.C10_BATCH)

\* ci = index of the case; drv = data derived from the case once (sorted incidences, boundary sets, children tables):
\* holding it in the state guarantees that TLC computes it once per case
VARIABLES ci, drv

Fail(cond, pred, lev, part) == IF cond THEN {} ELSE {[p |-> pred, l |-> lev, part |-> part]}

\* derived data of one level, computed once: sorted facet incidences, boundary facets, boundary entities per dimension
LevelData(C, l) ==
  LET M == C.levels[l]  fam == C.fam  dim == C.dim
      wf == WellFormed(M, fam, dim)
      S  == IF wf THEN IncSeq(M, fam, dim) ELSE << >>
      BF == BoundaryFacets(S)
  IN [wf |-> wf, S |-> S, BF |-> BF, BS |-> IF wf THEN BoundarySets(M, dim, BF) ELSE << >>]

PairData(C, D, l) ==
  LET Mc == C.levels[l]  Mf == C.levels[l + 1]  par == C.par[l]  dim == C.dim
      ok == D[l].wf /\ D[l + 1].wf /\ ParShapeOK(Mc, Mf, par, dim)
  IN [ok |-> ok, CS |-> IF ok THEN [e \in 1..(dim + 1) |-> ChildSeq(Mf, par, e - 1)] ELSE << >>]
\* cases of RootMeshNode::refine_unique(AdaptMode) (harness/c10_adapt.cpp): C.levels is the chain refined with the mode,
\* C.adapt.none[l] the unadapted refinement of C.levels[l], C.par[l] the origin certificate of THAT pair.  StepCase(C, l) is
\* the pair (C.levels[l], C.adapt.none[l]) as an ordinary two-level case, so that every predicate of the plain refinement
\* relation is judged on it unchanged.
IsAdapt(C) == "adapt" \in DOMAIN C
StepCase(C, l) == [fam |-> C.fam, dim |-> C.dim, geo |-> C.geo, levels |-> << C.levels[l], C.adapt.none[l] >>, par |-> << C.par[l] >>]
DerivedPlain(C) ==
  LET L == Len(C.levels)
      D == [l \in 1..L |-> LevelData(C, l)]
  IN [D |-> D, P |-> [l \in 1..(L - 1) |-> PairData(C, D, l)]]
Derived(C) ==
  IF IsAdapt(C)
  THEN LET L == Len(C.levels)  D == [l \in 1..L |-> LevelData(C, l)]
       IN [D |-> D, P |-> << >>, A |-> [l \in 1..(L - 1) |-> DerivedPlain(StepCase(C, l))]]
  ELSE DerivedPlain(C)

Init == ci \in 1..Len(Cases) /\ drv = Derived(Cases[ci])
Next == UNCHANGED <<ci, drv>>
Spec == Init /\ [][Next]_<<ci, drv>>

\* predicates of one level (l is 1-based, reported 0-based)
LevelFails(C, D, l) ==
  LET M == C.levels[l]  fam == C.fam  dim == C.dim IN
  IF ~D[l].wf THEN Fail(FALSE, "WellFormed", l - 1, "")
  ELSE
    LET S  == D[l].S
        partFails(j) ==
          LET P == M.parts[j] IN
          IF ~PartTargetsOK(M, P, dim) THEN Fail(FALSE, "PartTargetsOK", l - 1, P.name)
          ELSE Fail(PartTopologyOK(M, P, fam, dim), "PartTopologyOK", l - 1, P.name)
    IN UNION {
         Fail(IncSorted(S), "MACHINERY:IncSorted", l - 1, ""),
         Fail(SubEntityConsistent(M, fam, dim), "SubEntityConsistent", l - 1, ""),
         Fail(Unique(M, dim), "Unique", l - 1, ""),
         Fail(FacetCount(S, M, fam, dim), "FacetCount", l - 1, ""),
         Fail(BoundaryFactoryOK(M, dim, D[l].BS), "BoundaryFactoryOK", l - 1, ""),
         Fail(CoordsOK(M, dim) /\ DistinctVertices(M), "DistinctVertices", l - 1, ""),
         UNION {partFails(j) : j \in 1..Len(M.parts)} }

\* the refinement relation between level l and l+1
PairFails(C, D, PD, l) ==
  LET Mc == C.levels[l]  Mf == C.levels[l + 1]  par == C.par[l]  fam == C.fam  dim == C.dim IN
  IF ~(D[l].wf /\ D[l + 1].wf) THEN {}
  ELSE IF ~PD[l].ok THEN Fail(FALSE, "ParentsExist", l, "")
  ELSE
    LET CS == PD[l].CS
        cnt == Counts(Mc, Mf, fam, dim)
        chl == cnt /\ ChildrenCount(Mc, CS, fam, dim)
        partFails(j) ==
          LET Pc == Mc.parts[j]  Pf == Mf.parts[j] IN
          IF Pc.name # Pf.name THEN Fail(FALSE, "MACHINERY:PartOrder", l, Pc.name)
          ELSE IF ~(PartTargetsOK(Mc, Pc, dim) /\ PartTargetsOK(Mf, Pf, dim)) THEN {}
          ELSE Fail(PartFollows(Mc, CS, Pc, Pf, fam, dim), "PartFollows", l, Pc.name)
               \cup Fail(PartIsBoundary(Pc, dim, D[l].BS) => PartIsBoundary(Pf, dim, D[l + 1].BS), "RefinedBoundaryIsBoundary", l, Pc.name)
    IN UNION {
         Fail(cnt, "Counts", l, ""),
         Fail(Euler(Mc, dim) = Euler(Mf, dim), "EulerPreserved", l, ""),
         Fail(VertexOrigin(Mc, Mf, par, fam), "VertexOrigin", l, ""),
         Fail(ParentsValid(Mc, Mf, par, fam, dim), "ParentsValid", l, ""),
         Fail(chl, "ChildrenCount", l, ""),
         Fail(Len(Mc.parts) = Len(Mf.parts), "MACHINERY:PartCount", l, ""),
         \* parts are judged through the children table, which is only meaningful when every parent has its children
         IF chl /\ Len(Mc.parts) = Len(Mf.parts) THEN UNION {partFails(j) : j \in 1..Len(Mc.parts)} ELSE {},
         IF C.geo THEN
           Fail(Volume(Mc, fam, dim) = Volume(Mf, fam, dim), "VolumePreserved", l, "")
           \cup Fail(AllCellsValid(Mc, fam, dim) => PositiveOrientation(Mf, fam, dim), "OrientationPreserved", l, "")
         ELSE {} }

\* the floating point projection of the geometry on the original coordinates: the harness supplies only the abstraction
\* (volume defect within the rounding bound; coarse Jacobians bounded away from 0; fine corner Jacobians positive)
ProjFails(C) ==
  LET pr == C.proj  L == Len(C.levels) IN
  UNION {Fail(pr.voldef_ok[l], "ProjVolumePreserved", l, "")
         \cup Fail(pr.orient_pre[l] => pr.orient_fine[l + 1], "ProjOrientationPreserved", l, "") : l \in 1..(L - 1)}

\* the node was renumbered by RootMeshNode::create_permutation before the refinement: C.orig[1] is the level before the
\* renumbering, C.levels[1] the level after it, C.perm[1] the permutations stored in the mesh (cases without it: nothing to judge)
PermFails(C) ==
  IF ~("perm" \in DOMAIN C) THEN {}
  ELSE
    LET Mo == C.orig[1]  Mp == C.levels[1]  P == C.perm[1]  fam == C.fam  dim == C.dim IN
    IF ~(WellFormed(Mo, fam, dim) /\ WellFormed(Mp, fam, dim)) THEN Fail(FALSE, "WellFormed", 0, "orig")
    ELSE IF ~ForwardPermsOK(Mo, P, dim) THEN Fail(FALSE, "PermutationsStored", 0, "")
    ELSE UNION {
      Fail(PermutationsStored(Mo, P, dim), "PermutationsStored", 0, ""),
      Fail(Relabelled(Mo, Mp, P, fam, dim), "Relabelled", 0, ""),
      Fail(Len(Mo.parts) = Len(Mp.parts), "MACHINERY:PartCount", 0, ""),
      IF Len(Mo.parts) = Len(Mp.parts)
      THEN UNION {IF PartTargetsOK(Mo, Mo.parts[j], dim) /\ PartTargetsOK(Mp, Mp.parts[j], dim)
                  THEN Fail(PartRelabelled(Mo, Mo.parts[j], Mp.parts[j], P, dim), "PartRelabelled", 0, Mo.parts[j].name)
                  ELSE Fail(FALSE, "PartTargetsOK", 0, Mo.parts[j].name) : j \in 1..Len(Mo.parts)}
      ELSE {} }

\* one step of an adapt case (l 1-based: C.levels[l] -> C.levels[l + 1]); failures are reported at the fine level (0-based: l)
DualRoundBound == 64      \* admissible distance of a coordinate from the dyadic grid, in units of eps (the division by the
                          \* number of facets, 6 in 3D, is not exact in floating point)
Relevel(F, l) == {[p |-> f.p, l |-> l, part |-> f.part] : f \in F}
AdaptStepFails(C, l) ==
  LET A == C.adapt  Mc == C.levels[l]  Mf == C.levels[l + 1]  Mn == A.none[l]  Xp == A.pre[l]
      SC == StepCase(C, l)  DA == drv.A[l]  fam == C.fam  dim == C.dim
      plain == Relevel(PairFails(SC, DA.D, DA.P, 1), l)
      ok == DA.D[1].wf /\ DA.D[2].wf /\ DA.P[1].ok /\ drv.D[l + 1].wf
      chl == ok /\ Counts(Mc, Mn, fam, dim) /\ ChildrenCount(Mc, DA.P[1].CS, fam, dim)
      ineffect == A.usechart /\ A.chartparts # << >>
      CV == IF ineffect /\ ok THEN ChartVerts(Mn, TRange(A.chartparts)) ELSE {}
      tol == IF A.fixed THEN NF(fam, dim, dim - 1) + 1 ELSE 0
  IN plain \cup
     (IF ~ok THEN {} ELSE UNION {
        Fail(SameTopology(Mn, Mf), "AdaptSameTopology", l, ""),
        Fail(SameParts(Mn, Mf), "AdaptSameParts", l, ""),
        Fail(A.fixed \/ A.rdef <= DualRoundBound, "ProjOnDyadicGrid", l, ""),
        Fail(ChartFrame(Mn, Xp, CV), "ChartFrame", l, ""),
        IF ineffect /\ A.gchart # << >> /\ ~A.prefixed /\ Len(Xp) = Len(Mn.X)
          THEN Fail(GraphChartRule(Mn, Xp, CV, A.gchart[1], C.K), "GraphChartRule", l, "") ELSE {},
        IF chl /\ Len(Xp) = Len(Mn.X) /\ Mf.n = Mn.n
          THEN Fail(DualRule(Mc, DA.P[1].CS, C.par[l], Xp, Mf.X, fam, dim, A.usedual, tol), "DualRule", l, "")
               \cup (IF C.geo /\ SameTopology(Mn, Mf) THEN Fail(DualVolume(Mf, Xp, fam, dim), "DualVolume", l, "") ELSE {})
          ELSE {},
        \* no chart adaption in effect: the step is a plain refinement in every respect
        IF ~ineffect /\ C.geo /\ SameTopology(Mn, Mf)
          THEN Fail(Volume(Mc, fam, dim) = Volume(Mf, fam, dim), "VolumePreserved", l, "")
               \cup Fail(AllCellsValid(Mc, fam, dim) => PositiveOrientation(Mf, fam, dim), "OrientationPreserved", l, "")
          ELSE {},
        Fail(C.proj.dualvol_ok[l], "ProjDualVolume", l, ""),
        IF ~ineffect THEN Fail(C.proj.voldef_ok[l], "ProjVolumePreserved", l, "")
                          \cup Fail(C.proj.orient_pre[l] => C.proj.orient_fine[l + 1], "ProjOrientationPreserved", l, "")
        ELSE {} })
AdaptFails(C) == UNION {AdaptStepFails(C, l) : l \in 1..(Len(C.levels) - 1)}

Verdict(C) ==
  LET L == Len(C.levels) IN
  IF IsAdapt(C)
  THEN (IF Len(C.adapt.none) = L - 1 /\ Len(C.adapt.pre) = L - 1 /\ Len(C.par) = L - 1
        THEN UNION {LevelFails(C, drv.D, l) : l \in 1..L} \cup AdaptFails(C)
        ELSE Fail(FALSE, "MACHINERY:AdaptShape", 0, ""))
  ELSE UNION {LevelFails(C, drv.D, l) : l \in 1..L} \cup UNION {PairFails(C, drv.D, drv.P, l) : l \in 1..(L - 1)} \cup ProjFails(C) \cup PermFails(C)

Info(C) ==
  LET fam == C.fam  dim == C.dim  M == C.levels[1] IN
  [euler |-> Euler(M, dim), nbnd |-> Len(M.bf[dim]),
   input_valid |-> IF C.geo THEN AllCellsValid(M, fam, dim) ELSE C.proj.orient_pre[1],
   vol |-> IF C.geo THEN Volume(M, fam, dim) ELSE -1]

Emit == LET C == Cases[ci] IN PrintT(ToJson([id |-> C.id, fails |-> SetToSeq(Verdict(C)), info |-> Info(C)]))
=============================================================================
