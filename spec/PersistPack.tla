----------------------------- MODULE PersistPack -----------------------------
(* C05 extension: the byte-level layout arithmetic of FEAT::Pack             *)
(* (kernel/util/pack.hpp): Pack::encode / decode / estimate_size /           *)
(* element_size / deduct_type and the names of Pack::Type, for every type    *)
(* that exists without zlib / zfp / half / quad support.                     *)
(*                                                                          *)
(* A packed buffer is a sequence of BYTES.  An array element is an abstract  *)
(* value, independent of any machine type:                                   *)
(*    integer   [neg, mag]       mag = base-256 digits of |v|, least         *)
(*                               significant first, no leading zero digit    *)
(*    float     [k, neg, mb, e]  k = "zero" | "inf" | "num";                 *)
(*                               num: |v| = (mb read as binary number,       *)
(*                               most significant bit first, mb[1] = 1,      *)
(*                               last bit 1) * 2^e                           *)
(* ElemBytes(v, cls, w, swap) is the memory image of v as an element of      *)
(* class cls ("I" two's complement, "U" unsigned, "F" IEEE 754 binary32 /    *)
(* binary64) of w bytes, little endian, byte-reversed when swap is set.      *)
(*                                                                          *)
(* Actions (the public calls):                                               *)
(*    Encode   Pack::encode<T>(buf, src, estimate_size(n, pt), n, pt, swap)  *)
(*             T = machine type (cls, sw);  pt = raw pack type (cls, pw)     *)
(*             buf' = concatenation of ElemBytes(src[i], cls, pw, swap),     *)
(*             returns n * pw = estimate_size(n, pt)                         *)
(*    Decode   Pack::decode<T2>(dst, buf, n, size, pt, swap), T2 = (cls, dw) *)
(*             dst' = the values whose images are found in buf               *)
(*    Reject   a call outside the domain (source class differs from the     *)
(*             pack type class; F16 / F128 / zlib / zfp pack types in a      *)
(*             build without them; Type::None) must be REPORTED (FEAT        *)
(*             aborts), never answered                                       *)
(* Enabling condition of Encode/Decode: every value is representable in the *)
(* source type, the pack type and the destination type (the property:        *)
(* "... across requested type widths when the values are representable").    *)
(*                                                                          *)
(* Invariants: RoundTrip (decoded = source values), SizeLaw (returned byte   *)
(* counts = estimate = n * element size), Injective (two different values    *)
(* never have the same image: the image determines the value), SwapInvol.    *)
(* Emit prints every behaviour with the predicted buffer bytes; the replayer *)
(* (harness/c05x_pack.cpp) compares the real buffer byte by byte.            *)
EXTENDS Integers, Sequences, SequencesExt, FiniteSets, Json, TLC

CONSTANTS Cls,        \* "I" | "U" | "F": explore this class;  "misc": rejects + tables
          Counts,     \* set of array lengths
          Stride      \* palette windows start at every Stride-th value

VARIABLES ph,    \* "init" | "encoded" | "decoded" | "reject" | "table"
          cfg,   \* the call parameters
          vals,  \* source array (abstract values)
          buf,   \* packed buffer: sequence of bytes
          back   \* decoded array
vars == <<ph, cfg, vals, buf, back>>

(***************************************************************************)
(* Pack::Type                                                                *)
(***************************************************************************)
ClsNibble(cls) == CASE cls = "I" -> 1 [] cls = "U" -> 2 [] cls = "F" -> 3
Log2(w) == CASE w = 1 -> 0 [] w = 2 -> 1 [] w = 4 -> 2 [] w = 8 -> 3 [] w = 16 -> 4
Code(cls, w) == 16 * ClsNibble(cls) + Log2(w) + 1          \* e.g. I8 = 0x11, U64 = 0x24, F64 = 0x34
ZMask == 32768                                             \* 0x8000 zlib
PMask == 8192                                              \* 0x2000 zfp
RawOf(code) == code % 4096                                 \* & Mask_T
ElementSize(code) == 2 ^ ((code % 16) - 1)
EstimateSize(n, code) == n * ElementSize(RawOf(code))
ClsLetter(code) == CASE (RawOf(code) \div 16) = 1 -> "I" [] (RawOf(code) \div 16) = 2 -> "U" [] (RawOf(code) \div 16) = 3 -> "F"
TypeName(code) ==
  (IF code >= ZMask THEN "Z" ELSE IF code >= PMask THEN "P" ELSE "") \o ClsLetter(code) \o ToString(8 * ElementSize(code))
\* the enumerators of Pack::Type that denote data types
RawCodes == {Code("I", w) : w \in {1, 2, 4, 8}} \cup {Code("U", w) : w \in {1, 2, 4, 8}} \cup {Code("F", w) : w \in {2, 4, 8, 16}}
AllCodes == RawCodes \cup {ZMask + c : c \in RawCodes} \cup {PMask + Code("F", 4), PMask + Code("F", 8)}
\* machine types of this build (no half, no quad precision)
Widths(cls) == IF cls = "F" THEN {4, 8} ELSE {1, 2, 4, 8}

(***************************************************************************)
(* Integers                                                                  *)
(***************************************************************************)
Pad(mag, w) == [i \in 1..w |-> IF i <= Len(mag) THEN mag[i] ELSE 0]
\* two's complement of a w digit number: complement every digit, add one
TwosNeg(d, w) ==
  LET inv == [i \in 1..w |-> 255 - d[i]]
      C[i \in 0..w] == IF i = 0 THEN 1 ELSE (inv[i] + C[i-1]) \div 256
  IN  [i \in 1..w |-> (inv[i] + C[i-1]) % 256]
IntImage(v, w) == IF v.neg THEN TwosNeg(Pad(v.mag, w), w) ELSE Pad(v.mag, w)
FitsU(v, w) == ~v.neg /\ Len(v.mag) <= w
FitsI(v, w) ==
  \/ Len(v.mag) < w
  \/ Len(v.mag) = w /\ (v.mag[w] < 128 \/ (v.neg /\ v.mag[w] = 128 /\ \A i \in 1..(w - 1) : v.mag[i] = 0))
Rev(s) == [i \in 1..Len(s) |-> s[Len(s) + 1 - i]]
IV(neg, be) == [neg |-> neg, mag |-> Rev(be)]                 \* written most significant digit first for readability
IntPalette == <<
  IV(FALSE, <<>>), IV(FALSE, <<1>>), IV(TRUE, <<1>>), IV(FALSE, <<127>>), IV(FALSE, <<128>>), IV(TRUE, <<128>>), IV(TRUE, <<129>>),
  IV(FALSE, <<255>>), IV(FALSE, <<1, 0>>), IV(FALSE, <<18, 52>>), IV(TRUE, <<18, 52>>), IV(FALSE, <<127, 255>>), IV(FALSE, <<128, 0>>),
  IV(TRUE, <<128, 0>>), IV(TRUE, <<128, 1>>), IV(FALSE, <<255, 255>>), IV(FALSE, <<1, 0, 0>>), IV(FALSE, <<18, 52, 86, 120>>),
  IV(TRUE, <<18, 52, 86, 120>>), IV(FALSE, <<127, 255, 255, 255>>), IV(FALSE, <<128, 0, 0, 0>>), IV(TRUE, <<128, 0, 0, 0>>),
  IV(TRUE, <<128, 0, 0, 1>>), IV(FALSE, <<255, 255, 255, 255>>), IV(FALSE, <<1, 0, 0, 0, 0>>), IV(FALSE, <<1, 2, 3, 4, 5, 6, 7, 8>>),
  IV(TRUE, <<1, 2, 3, 4, 5, 6, 7, 8>>), IV(FALSE, <<127, 255, 255, 255, 255, 255, 255, 255>>), IV(FALSE, <<128, 0, 0, 0, 0, 0, 0, 0>>),
  IV(TRUE, <<128, 0, 0, 0, 0, 0, 0, 0>>), IV(FALSE, <<255, 255, 255, 255, 255, 255, 255, 255>>), IV(TRUE, <<1, 0>>), IV(FALSE, <<240, 15>>) >>

(***************************************************************************)
(* IEEE 754 binary32 / binary64                                              *)
(***************************************************************************)
ExpBits(w) == IF w = 4 THEN 8 ELSE 11
FracBits(w) == IF w = 4 THEN 23 ELSE 52
Bias(w) == IF w = 4 THEN 127 ELSE 1023
Rep(n, x) == [i \in 1..n |-> x]
\* n binary digits of x, most significant first
BinDigits(x, n) == [i \in 1..n |-> (x \div (2 ^ (n - i))) % 2]
TopExp(v) == v.e + Len(v.mb) - 1                           \* exponent of the leading bit
FitsF(v, w) ==
  \/ v.k \in {"zero", "inf"}
  \/ v.k = "num" /\ Len(v.mb) <= FracBits(w) + 1 /\ TopExp(v) <= Bias(w) /\ v.e >= 1 - Bias(w) - FracBits(w)
\* sign, exponent field, fraction field: most significant bit first
FloatBits(v, w) ==
  LET sg == <<IF v.neg THEN 1 ELSE 0>>  eb == ExpBits(w)  fb == FracBits(w)  bl == Len(v.mb) IN
  CASE v.k = "zero" -> sg \o Rep(eb, 0) \o Rep(fb, 0)
    [] v.k = "inf"  -> sg \o Rep(eb, 1) \o Rep(fb, 0)
    [] v.k = "num" /\ TopExp(v) >= 1 - Bias(w) ->        \* normal: implicit leading one
         sg \o BinDigits(TopExp(v) + Bias(w), eb) \o SubSeq(v.mb, 2, bl) \o Rep(fb - (bl - 1), 0)
    [] OTHER ->                                             \* subnormal: fraction = |v| / 2^(1 - bias - fb)
         LET sh == v.e - (1 - Bias(w) - fb) IN sg \o Rep(eb, 0) \o Rep(fb - bl - sh, 0) \o v.mb \o Rep(sh, 0)
ByteOf(bits, k) == LET b == SubSeq(bits, 8 * k - 7, 8 * k) IN
                   128 * b[1] + 64 * b[2] + 32 * b[3] + 16 * b[4] + 8 * b[5] + 4 * b[6] + 2 * b[7] + b[8]
\* little endian memory image: the byte holding the sign comes last
FloatImage(v, w) == LET bits == FloatBits(v, w) IN [i \in 1..w |-> ByteOf(bits, w + 1 - i)]
FV(k, neg, mb, e) == [k |-> k, neg |-> neg, mb |-> mb, e |-> e]
Ones(n) == Rep(n, 1)
OneZerosOne(n) == <<1>> \o Rep(n, 0) \o <<1>>
FloatPalette == <<
  FV("zero", FALSE, <<>>, 0), FV("zero", TRUE, <<>>, 0), FV("num", FALSE, <<1>>, 0), FV("num", TRUE, <<1>>, 0),
  FV("num", FALSE, <<1>>, 0 - 1), FV("num", FALSE, <<1, 1>>, 0), FV("num", TRUE, <<1, 0, 1, 1>>, 0 - 2),
  FV("num", FALSE, <<1>>, 100), FV("num", FALSE, <<1>>, 0 - 126), FV("num", TRUE, <<1>>, 0 - 130), FV("num", FALSE, <<1, 1>>, 0 - 149),
  FV("num", FALSE, <<1>>, 0 - 149), FV("num", FALSE, Ones(24), 104), FV("num", TRUE, Ones(24), 0 - 30),
  FV("inf", FALSE, <<>>, 0), FV("inf", TRUE, <<>>, 0), FV("num", FALSE, <<1, 0, 0, 1, 1, 0, 1>>, 5),
  \* binary64 only
  FV("num", FALSE, OneZerosOne(23), 0), FV("num", FALSE, <<1>>, 0 - 1022), FV("num", TRUE, <<1>>, 0 - 1074), FV("num", FALSE, <<1, 0, 1>>, 0 - 1074),
  FV("num", FALSE, Ones(53), 971), FV("num", TRUE, OneZerosOne(51), 0 - 52), FV("num", FALSE, <<1>>, 200), FV("num", FALSE, <<1, 1>>, 0 - 160) >>

(***************************************************************************)
(* Images, buffers                                                           *)
(***************************************************************************)
Fits(v, cls, w) == CASE cls = "I" -> FitsI(v, w) [] cls = "U" -> FitsU(v, w) [] cls = "F" -> FitsF(v, w)
Image(v, cls, w) == IF cls = "F" THEN FloatImage(v, w) ELSE IntImage(v, w)
ElemBytes(v, cls, w, swap) == IF swap THEN Rev(Image(v, cls, w)) ELSE Image(v, cls, w)
Flatten(ss) == LET F[i \in 0..Len(ss)] == IF i = 0 THEN <<>> ELSE F[i-1] \o ss[i] IN F[Len(ss)]
Packed(vs, cls, w, swap) == Flatten([i \in 1..Len(vs) |-> ElemBytes(vs[i], cls, w, swap)])
PaletteOf(cls) == IF cls = "F" THEN FloatPalette ELSE IntPalette
SeqSet(s) == {s[i] : i \in 1..Len(s)}
\* the decoder: the value whose image occupies element i of the buffer
Unpacked(bytes, n, cls, w, swap) ==
  [i \in 1..n |-> CHOOSE v \in SeqSet(PaletteOf(cls)) : Fits(v, cls, w) /\ ElemBytes(v, cls, w, swap) = SubSeq(bytes, (i - 1) * w + 1, i * w)]
\* the palette values that every type of a call can hold, in palette order
FitAll(cls, ws) == SelectSeq(PaletteOf(cls), LAMBDA v : \A w \in ws : Fits(v, cls, w))
Window(s, start, n) == [k \in 1..n |-> s[((start + k - 2) % Len(s)) + 1]]

(***************************************************************************)
(* The machine                                                               *)
(***************************************************************************)
Calls == {[cls |-> Cls, sw |-> a, pw |-> b, dw |-> c, swap |-> s] : a \in Widths(Cls), b \in Widths(Cls), c \in Widths(Cls), s \in BOOLEAN}
\* calls outside the domain: [what, cls (of the machine type), sw, code]
Mismatch == {[what |-> op, cls |-> a, sw |-> 4, code |-> Code(b, 4)] : op \in {"encode", "decode"}, a \in {"I", "U", "F"}, b \in {"I", "U", "F"}} \
            {[what |-> op, cls |-> a, sw |-> 4, code |-> Code(a, 4)] : op \in {"encode", "decode"}, a \in {"I", "U", "F"}}
Unavailable ==
  {[what |-> op, cls |-> "F", sw |-> 8, code |-> c] : op \in {"encode", "decode"}, c \in {Code("F", 2), Code("F", 16), 0}}
  \cup {[what |-> op, cls |-> ClsLetter(c), sw |-> ElementSize(c), code |-> ZMask + c] : op \in {"encode", "decode", "estimate"}, c \in {Code("F", 8), Code("I", 4), Code("U", 1)}}
  \cup {[what |-> op, cls |-> "F", sw |-> ElementSize(c), code |-> PMask + c] : op \in {"encode", "decode", "estimate"}, c \in {Code("F", 4), Code("F", 8)}}

Init ==
  /\ buf = <<>> /\ back = <<>>
  /\ \/ /\ Cls \in {"I", "U", "F"} /\ ph = "init" /\ cfg \in Calls
        /\ \E n \in Counts : \E st \in 1..Len(FitAll(Cls, {cfg.sw, cfg.pw, cfg.dw})) :
             /\ (st - 1) % Stride = 0 \/ n = 0
             /\ n = 0 => st = 1
             /\ vals = Window(FitAll(Cls, {cfg.sw, cfg.pw, cfg.dw}), st, n)
     \/ /\ Cls = "misc" /\ ph = "reject" /\ cfg \in Mismatch \cup Unavailable /\ vals = <<>>
     \/ /\ Cls = "misc" /\ ph = "table" /\ cfg = [what |-> "table"] /\ vals = <<>>
Encode ==
  /\ ph = "init" /\ ph' = "encoded"
  /\ buf' = Packed(vals, cfg.cls, cfg.pw, cfg.swap)
  /\ UNCHANGED <<cfg, vals, back>>
Decode ==
  /\ ph = "encoded" /\ ph' = "decoded"
  /\ back' = Unpacked(buf, Len(vals), cfg.cls, cfg.pw, cfg.swap)
  /\ UNCHANGED <<cfg, vals, buf>>
Next == Encode \/ Decode
Spec == Init /\ [][Next]_vars

(***************************************************************************)
(* Properties                                                                *)
(***************************************************************************)
RoundTrip == ph = "decoded" => back = vals
SizeLaw == ph \in {"encoded", "decoded"} =>
  Len(buf) = EstimateSize(Len(vals), Code(cfg.cls, cfg.pw)) /\ Len(buf) = Len(vals) * cfg.pw /\ ElementSize(Code(cfg.cls, cfg.pw)) = cfg.pw
Injective == ph = "init" /\ Len(vals) = 0 =>        \* (a statement about the call parameters only: checked once per call shape)
  \A a \in SeqSet(PaletteOf(cfg.cls)), b \in SeqSet(PaletteOf(cfg.cls)) :
    (Fits(a, cfg.cls, cfg.pw) /\ Fits(b, cfg.cls, cfg.pw) /\ Image(a, cfg.cls, cfg.pw) = Image(b, cfg.cls, cfg.pw)) => a = b
\* a value that fits a narrow type has, in a wider type, the image extended by sign (integers); swapping twice is the identity
SwapInvol == ph = "encoded" => Packed(vals, cfg.cls, cfg.pw, cfg.swap) =
  Flatten([i \in 1..Len(vals) |-> Rev(ElemBytes(vals[i], cfg.cls, cfg.pw, ~cfg.swap))])
SignExtend == ph = "init" /\ cfg.cls \in {"I", "U"} =>
  \A i \in 1..Len(vals) : \A w \in {cfg.sw, cfg.pw, cfg.dw} :
    LET im == IntImage(vals[i], w)  top == IF vals[i].neg THEN 255 ELSE 0
    IN  \A u \in {2, 4, 8} : u > w => IntImage(vals[i], u) = im \o Rep(u - w, top)

TypeTable == LET ord == SetToSortSeq(AllCodes, <) IN
  [k \in 1..Len(ord) |-> [code |-> ord[k], name |-> TypeName(ord[k]), esize |-> ElementSize(ord[k]), raw |-> RawOf(ord[k])]]
DeductTable == LET T == {<<c, w>> : c \in {"I", "U", "F"}, w \in {1, 2, 4, 8}} \ {<<"F", 1>>, <<"F", 2>>}
                   ord == SetToSortSeq(T, LAMBDA x, y : Code(x[1], x[2]) < Code(y[1], y[2])) IN
  [k \in 1..Len(ord) |-> [cls |-> ord[k][1], w |-> ord[k][2], code |-> Code(ord[k][1], ord[k][2])]]

Emit ==
  /\ ph = "decoded" =>
       PrintT(ToJson([part |-> "pack", kind |-> "codec", cls |-> cfg.cls, sw |-> cfg.sw, pw |-> cfg.pw, dw |-> cfg.dw, swap |-> cfg.swap,
                      pcode |-> Code(cfg.cls, cfg.pw), count |-> Len(vals), vals |-> vals, estimate |-> EstimateSize(Len(vals), Code(cfg.cls, cfg.pw)),
                      encret |-> Len(buf), buf |-> buf, decret |-> Len(buf), back |-> back]))
  /\ ph = "reject" =>
       PrintT(ToJson([part |-> "pack", kind |-> "reject", what |-> cfg.what, cls |-> cfg.cls, sw |-> cfg.sw, pcode |-> cfg.code, count |-> 2]))
  /\ ph = "table" =>
       PrintT(ToJson([part |-> "pack", kind |-> "table", types |-> TypeTable, deduct |-> DeductTable]))
=============================================================================
