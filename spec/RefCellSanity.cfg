SPECIFICATION Spec
INVARIANTS TablesWellFormed FacesNest CellEuler ChildrenEuler Symmetries SymmetriesMapFaces RefGeometry ScaleLaw Emit
CHECK_DEADLOCK FALSE
