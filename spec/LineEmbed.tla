------------------------------- MODULE LineEmbed -------------------------------
(* C15, transformation of 1-dimensional cells EMBEDDED in R^2 / R^3 (direction G): Trafo::Standard on                     *)
(* ConformalMesh<Hypercube<1> | Simplex<1>, 2 | 3> (curves / the edges seen by facet evaluators).                        *)
(* A cell with local vertices a, b is the image of  xi |-> (a+b)/2 + xi (b-a)/2  (hypercube, xi in [-1,1])  resp.           *)
(* a + xi (b-a)  (simplex, xi in [0,1]); its Jacobian is the COLUMN  J = (b-a)/2  resp.  b-a,  and                         *)
(*      jac_det = vol(J) = sqrt(J^T J) = |J|   (kernel/util/tiny_algebra.hpp: vol(A) = sqrt(det(A^T A))),                  *)
(* so the integral of jac_det over the reference cell is the euclidean length of the cell - whatever the order in which   *)
(* the two vertices are stored.  The direction vectors are taken from a catalogue of integer vectors with INTEGER norm    *)
(* (Pythagorean tuples), so every predicted number is dyadic and compared with ==.                                       *)
(* One case = a chain of two cells (directions v1, v2, each cell stored forwards or backwards).                           *)
EXTENDS Integers, Sequences, FiniteSets, FiniteSetsExt, SequencesExt, TLC, Json

CS == 3                                  \* coordinates are integers over 2^CS
Dirs(wd) == IF wd = 2 THEN { << 3, 4 >>, << -4, 3 >>, << 5, -12 >>, << 0, -8 >>, << 8, 6 >> }
            ELSE { << 2, 3, 6 >>, << 1, -4, 8 >>, << -2, -1, 2 >>, << 4, 4, -7 >>, << 0, 3, 4 >> }
Base(wd) == IF wd = 2 THEN << -5, 2 >> ELSE << 1, -3, -2 >>
Fams == {"hypercube", "simplex"}

VARIABLE cur
Init == cur \in UNION {{[fam |-> f, wd |-> w, v1 |-> a, v2 |-> b, o |-> oo] : f \in Fams, a \in Dirs(w), b \in Dirs(w), oo \in [1..2 -> {0, 1}]} : w \in {2, 3}}
Next == UNCHANGED cur
Spec == Init /\ [][Next]_cur

WD == cur.wd
Cube == cur.fam = "hypercube"
RJ == IF Cube THEN 2 ELSE 1
U == RJ * (2 ^ CS)
LS == IF Cube THEN 4 ELSE 8
Lat == IF Cube THEN << -4, -1, 0, 3, 4 >> ELSE << 0, 1, 4, 7, 8 >>
XD == RJ * LS * (2 ^ CS)
VAdd(p, q) == [a \in 1..Len(p) |-> p[a] + q[a]]
VSub(p, q) == [a \in 1..Len(p) |-> p[a] - q[a]]
\* vertices 0, 1, 2 along the chain; the vertex numbering is rotated so that the index order differs from the chain order
XV == << VAdd(Base(WD), cur.v1), VAdd(VAdd(Base(WD), cur.v1), cur.v2), Base(WD) >>          \* vertex 0 = middle, 1 = end, 2 = start
Chain == << << 2, 0 >>, << 0, 1 >> >>
Cells == [c \in 1..2 |-> IF cur.o[c] = 0 THEN Chain[c] ELSE << Chain[c][2], Chain[c][1] >>]
P(c, k) == XV[Cells[c][k + 1] + 1]
D(c) == VSub(P(c, 1), P(c, 0))                                    \* b - a, signed
NormSq(v) == FoldSeq(LAMBDA x, acc : acc + x * x, 0, v)
IsNorm(v, n) == n >= 0 /\ n * n = NormSq(v)
Norm(v) == CHOOSE n \in 0..64 : IsNorm(v, n)
\* the catalogue stays inside the exact domain: every direction has an integer norm
ExactDomain == \A c \in 1..2 : \E n \in 1..64 : IsNorm(D(c), n)
\* reversing the storage order of a cell negates J and keeps |J| (so the cell length does not depend on the orientation)
OrientationFree == \A c \in 1..2 : Norm(D(c)) = Norm([a \in 1..WD |-> -D(c)[a]]) /\ Norm(D(c)) = Norm(IF c = 1 THEN cur.v1 ELSE cur.v2)
XLat(c, n) == LET m == IF Cube THEN VAdd(P(c, 0), P(c, 1)) ELSE P(c, 0) IN [a \in 1..WD |-> m[a] * LS + D(c)[a] * n]     \* over XD
\* the ends of the lattice are the two vertices
EndsOK == \A c \in 1..2 : XLat(c, Lat[1]) = [a \in 1..WD |-> P(c, 0)[a] * RJ * LS] /\ XLat(c, Lat[Len(Lat)]) = [a \in 1..WD |-> P(c, 1)[a] * RJ * LS]

Emit == PrintT(ToJson([kind |-> "embed", fam |-> cur.fam, dim |-> 1, wd |-> WD, el |-> "trafo", cs |-> CS, X |-> XV, cells |-> Cells, S |-> LS, XD |-> XD, U |-> U,
                       desc |-> (cur.o[1] = 1 \/ cur.o[2] = 1),
                       cell |-> [c \in 1..2 |-> [jn |-> D(c), len |-> Norm(D(c)),
                                  pts |-> [i \in 1..Len(Lat) |-> [n |-> Lat[i], x |-> XLat(c, Lat[i])]]]]]))
=============================================================================
