----------------------------- MODULE MeshFileIni -----------------------------
(* C11, second part: FEAT::PropertyMap (INI dialect of doxy_in/ini_format.dox).                                      *)
(* Tree  : [e : sequence of <<key, value>>, s : sequence of <<name, Tree>>], both in the map's iteration order        *)
(*         (case-insensitive name order; the generator only builds ordered trees).                                    *)
(* Out(T): the dump grammar of PropertyMap::write -- "key = value" lines, then per section "[name]", "{", the         *)
(*         section's lines indented by two blanks, "} # end of [name]".                                               *)
(* Verdict of line mutations of Out(T): "syntax" (FEAT::SyntaxError) or "ok" with the tree the text denotes.          *)
(* RoundTrip: read(Out(T)) = T; Stable: write(read(Out(T))) = Out(T); Rejects/Total as for the mesh files.            *)
EXTENDS Integers, Sequences, FiniteSets, Json, TLC

CONSTANTS Variants,   \* subset of 0..5: how values are assigned to keys
          KeySets,    \* set of subsets of {1, 2, 3}: which root keys exist
          SecShapes,  \* subset of 0..4: shapes of the two top level sections
          Muts

VARIABLES ph, tree, mut
vars == <<ph, tree, mut>>

Keys == << "alpha", "Beta", "gamma" >>                     \* ascending in the map's case-insensitive order
Vals == << "1", "hello world", "", "a=b [c] {d}", "x  y / z", "0.5e-3" >>
SecNames == << "Mesh", "solver" >>
Empty == [e |-> << >>, s |-> << >>]

RECURSIVE SubSeqOf(_, _)      \* the subsequence of t selected by the index set S
SubSeqOf(t, S) == IF t = << >> THEN << >>
                  ELSE (IF Len(t) \in S THEN Append(SubSeqOf(SubSeq(t, 1, Len(t) - 1), S), t[Len(t)])
                        ELSE SubSeqOf(SubSeq(t, 1, Len(t) - 1), S))
Entries(S, var) == SubSeqOf([i \in 1..3 |-> << Keys[i], Vals[((i + var) % 6) + 1] >>], S)
\* section shapes: 0 absent, 1 empty, 2 entries only, 3 entries and a nested section, 4 only a nested section with entries
SecTree(shape, var) ==
  IF shape = 1 THEN Empty
  ELSE IF shape = 2 THEN [e |-> Entries({1, 3}, var + 1), s |-> << >>]
  ELSE IF shape = 3 THEN [e |-> Entries({2}, var + 2), s |-> << << "Sub", [e |-> Entries({1, 2}, var + 3), s |-> << >>] >> >>]
  ELSE [e |-> << >>, s |-> << << "inner", [e |-> Entries({3}, var), s |-> << << "deep", Empty >> >>] >> >>]
MkTree(S, sh1, sh2, var) ==
  [e |-> Entries(S, var),
   s |-> (IF sh1 = 0 THEN << >> ELSE << << SecNames[1], SecTree(sh1, var) >> >>) \o
         (IF sh2 = 0 THEN << >> ELSE << << SecNames[2], SecTree(sh2, var + 1) >> >>)]

RECURSIVE Concat(_)
Concat(ss) == IF Len(ss) = 0 THEN << >> ELSE Head(ss) \o Concat(Tail(ss))
Pre(l) == IF l = 0 THEN "" ELSE IF l = 1 THEN "  " ELSE IF l = 2 THEN "    " ELSE "      "
RECURSIVE Lines(_, _)
Lines(T, l) ==
  [i \in 1..Len(T.e) |-> Pre(l) \o T.e[i][1] \o " = " \o T.e[i][2]] \o
  Concat([j \in 1..Len(T.s) |->
            << Pre(l) \o "[" \o T.s[j][1] \o "]", Pre(l) \o "{" >> \o Lines(T.s[j][2], l + 1) \o
            << Pre(l) \o "} # end of [" \o T.s[j][1] \o "]" >>])
Out(T) == Lines(T, 0)

\* ---- mutations --------------------------------------------------------------------------------------------------------
Case(kind, txt, v, T2) == [kind |-> kind, in |-> txt, v |-> v, tree |-> T2, out |-> IF v = "ok" THEN Out(T2) ELSE << >>]
InsAt(t, i, x) == SubSeq(t, 1, i - 1) \o << x >> \o SubSeq(t, i, Len(t))
DelAt(t, i) == SubSeq(t, 1, i - 1) \o SubSeq(t, i + 1, Len(t))
\* line kinds are computed structurally alongside the text
RECURSIVE Kinds(_)
Kinds(T) == [i \in 1..Len(T.e) |-> "entry"] \o
            Concat([j \in 1..Len(T.s) |-> << "header", "open" >> \o Kinds(T.s[j][2]) \o << "close" >>])
RECURSIVE Count(_, _, _)
Count(K, k, what) == IF k = 0 THEN 0 ELSE Count(K, k - 1, what) + (IF K[k] = what THEN 1 ELSE 0)
Depth(K, k) == Count(K, k, "open") - Count(K, k, "close")
SecLen(T) == Len(Lines(T, 0))
RECURSIVE SumLen(_, _)
SumLen(T, t) == IF t = 0 THEN 0 ELSE SumLen(T, t - 1) + 3 + SecLen(T.s[t][2])
\* the tree denoted by the first k lines when the cut is at nesting depth 0
PrefixTree(T, k) ==
  IF k <= Len(T.e) THEN [e |-> SubSeq(T.e, 1, k), s |-> << >>]
  ELSE LET t == CHOOSE t \in 1..Len(T.s) : Len(T.e) + SumLen(T, t - 1) < k /\ k <= Len(T.e) + SumLen(T, t) IN
       IF k = Len(T.e) + SumLen(T, t) THEN [e |-> T.e, s |-> SubSeq(T.s, 1, t)]
       ELSE [e |-> T.e, s |-> Append(SubSeq(T.s, 1, t - 1), << T.s[t][1], Empty >>)]     \* only the "[name]" line survived

Mutations(T) ==
  LET L == Out(T)  K == Kinds(T)  n == Len(L) IN
  {Case("truncate", SubSeq(L, 1, k), IF Depth(K, k) > 0 THEN "syntax" ELSE "ok", IF Depth(K, k) > 0 THEN Empty ELSE PrefixTree(T, k)) : k \in 0..(n - 1)}
  \cup {Case("delete_brace_or_header", DelAt(L, i), "syntax", Empty) : i \in {j \in 1..n : K[j] \in {"open", "close", "header"}}}
  \cup {Case("garbage_line", InsAt(L, i, x), "syntax", Empty) : i \in 1..(n + 1), x \in {"garbage", "= 1", "[]", "[  ]", "{", "}", "{ }", "[x"}}
  \cup {Case("entry_after_close", InsAt(L, i, "zz = 1"), "syntax", Empty) : i \in {j \in 2..(n + 1) : K[j - 1] = "close"}}
  \cup {Case("blank_or_comment", InsAt(L, i, x), "ok", T) : i \in 1..(n + 1), x \in {"", "   ", "# note = 1", "  # {"}}
  \cup {Case("trailing_comment", [j \in 1..n |-> IF j = i THEN L[j] \o "  # remark" ELSE L[j]], "ok", T) : i \in 1..n}
  \cup (IF Len(T.e) > 0 THEN
          {Case("continuation", InsAt([j \in 1..n |-> IF j = 1 THEN L[1] \o "&" ELSE L[j]], 2, "   w w  "), "ok",
                [T EXCEPT !.e[1][2] = @ \o "w w"]),
           Case("continuation_skips_blank", InsAt(InsAt([j \in 1..n |-> IF j = 1 THEN L[1] \o "&" ELSE L[j]], 2, "tail"), 2, "  # nothing"), "ok",
                [T EXCEPT !.e[1][2] = @ \o "tail"]),
           Case("duplicate_key_other_case", InsAt(L, Len(T.e) + 1, "ALPHA = new"),
                "ok", IF T.e[1][1] = "alpha" THEN [T EXCEPT !.e[1][2] = "new"] ELSE [T EXCEPT !.e = << << "ALPHA", "new" >> >> \o @])}
        ELSE {})
  \cup (IF n > 0 /\ K[n] = "entry" THEN {Case("continuation_at_eof", [j \in 1..n |-> IF j = n THEN L[j] \o "&" ELSE L[j]], "syntax", Empty)} ELSE {})

NoMut == [kind |-> "none"]
Init == /\ ph = "doc" /\ mut = NoMut
        /\ \E S \in KeySets, sh1 \in SecShapes, sh2 \in SecShapes, var \in Variants : tree = MkTree(S, sh1, sh2, var)
Mutate == /\ Muts /\ ph = "doc" /\ ph' = "mut" /\ mut' \in Mutations(tree) /\ UNCHANGED tree
Next == Mutate
Spec == Init /\ [][Next]_vars

\* sanity: the dump is balanced, line kinds match the text
Sane == LET K == Kinds(tree) IN /\ Len(K) = Len(Out(tree)) /\ Depth(K, Len(K)) = 0 /\ \A k \in 0..Len(K) : Depth(K, k) >= 0
                                /\ PrefixTree(tree, Len(tree.e)) = [e |-> tree.e, s |-> << >>]
Emit ==
  IF ph = "doc" THEN PrintT(ToJson([t |-> "ini", kind |-> "roundtrip", in |-> Out(tree), v |-> "ok", tree |-> tree, out |-> Out(tree)]))
  ELSE PrintT(ToJson([t |-> "ini", kind |-> mut.kind, in |-> mut.in, v |-> mut.v, tree |-> mut.tree, out |-> mut.out]))
=============================================================================
