------------------------------- MODULE DofMap -------------------------------
(* C15 / C18: the global numbering contract of a finite-element space on a conforming mesh.                        *)
(*                                                                                                                *)
(*   GlobalDof  ~=  disjoint union over d of  Ent(d) x (0..sig[d]-1),  enumerated by ascending dimension, then     *)
(*   entity index, then position m:   Global(<<d, i, m>>) = Off(d) + i * sig[d] + m,   Off(d) = sum_{e<d} N(e)*sig[e] *)
(*   The local dof j = <<d, k, m>> of cell c (RefElement!Layout) is the functional <<d, idx[dim,d][c][k], m>>.      *)
(*                                                                                                                *)
(* The position m within a multi-dof entity is NOT permuted by the mapping: FEAT keeps the index and lets the      *)
(* evaluator / node functional of the family select the physical node according to the orientation of the entity  *)
(* (Lagrange-3: kernel/space/lagrange3/evaluator.hpp).  What the property demands is therefore stated on the       *)
(* FUNCTIONALS: OneIndexPerFunctional - two (cell, local dof) pairs carry the same global index iff they denote    *)
(* the same functional; the functional of a pair is observed by the harness as a signature (the functional         *)
(* applied to a fixed list of probe polynomials, as scaled integers).                                              *)
EXTENDS MeshTopo, RefElement

\* T: topology record of MeshTopo ([n, idx]); sig: RefElement!Sig
RECURSIVE DofOffset(_, _, _)
DofOffset(T, sig, d) == IF d = 0 THEN 0 ELSE N(T, d - 1) * sig[d] + DofOffset(T, sig, d - 1)
NumGlobalDofs(T, sig, dim) == DofOffset(T, sig, dim + 1)
EntityOf(T, dim, c, d, k) == IF d = dim THEN c - 1 ELSE IF d = 0 THEN Idx(T, dim, 0)[c][k + 1] ELSE Idx(T, dim, d)[c][k + 1]
\* c is 1-based, dkm a layout entry; result 0-based global index
GlobalDof(T, sig, dim, c, dkm) == DofOffset(T, sig, dkm[1]) + EntityOf(T, dim, c, dkm[1], dkm[2]) * sig[dkm[1] + 1] + dkm[3]
\* the functional behind a (cell, local dof) pair: <<d, entity, m>>
Functional(T, dim, c, dkm) == << dkm[1], EntityOf(T, dim, c, dkm[1], dkm[2]), dkm[3] >>
DofTable(T, sig, fam, dim) ==
  LET lay == Layout(sig, fam, dim) IN TLCEval([c \in 1..N(T, dim) |-> TLCEval([j \in 1..Len(lay) |-> GlobalDof(T, sig, dim, c, lay[j])])])

\* ---- properties of an observed mapping G (G[c][j] = global index the implementation returned) ---------------------------------
MapShapeOK(G, T, sig, fam, dim) == Len(G) = N(T, dim) /\ \A c \in 1..Len(G) : Len(G[c]) = NumLocalDofs(sig, fam, dim)
MapMatches(G, T, sig, fam, dim) == G = DofTable(T, sig, fam, dim)
\* every global index is used, none beyond the count
MapSurjective(G, ng) == UNION {TRange(G[c]) : c \in 1..Len(G)} = 0..(ng - 1)
\* same index <=> same functional (<<d, entity, m>>): holds for DofTable by construction, stated for the observed map
OneIndexPerEntityDof(G, T, sig, fam, dim) ==
  LET lay == Layout(sig, fam, dim)
      pairs == {<<G[c][j], Functional(T, dim, c, lay[j])>> : c \in 1..Len(G), j \in 1..Len(lay)}
  IN Cardinality(pairs) = Cardinality({p[1] : p \in pairs}) /\ Cardinality(pairs) = Cardinality({p[2] : p \in pairs})
\* same index <=> same observed functional signature; Sg[c][j] = signature (tuple of integers) of local dof j on cell c
OneIndexPerFunctional(G, Sg) ==
  LET pairs == {<<G[c][j], Sg[c][j]>> : c \in 1..Len(G), j \in 1..Len(G[1])}
  IN Cardinality(pairs) = Cardinality({p[1] : p \in pairs}) /\ Cardinality(pairs) = Cardinality({p[2] : p \in pairs})
=============================================================================
