------------------------------- MODULE DofMap -------------------------------
(* C15 / C18: the global numbering contract of a finite-element space on a conforming mesh.                        *)
(*                                                                                                                *)
(*   GlobalDof  ~=  disjoint union over d of  Ent(d) x (0..sig[d]-1),  enumerated by ascending dimension, then     *)
(*   entity index, then position m:   Global(<<d, i, m>>) = Off(d) + i * sig[d] + m,   Off(d) = sum_{e<d} N(e)*sig[e] *)
(*   The local dof j = <<d, k, m>> of cell c (RefElement!Layout) is the functional <<d, idx[dim,d][c][k], m>>.      *)
(*                                                                                                                *)
(* The position m within a multi-dof entity is NOT permuted by the mapping: FEAT keeps the index and lets the      *)
(* evaluator / node functional of the family select the physical node according to the orientation of the entity  *)
(* (Lagrange-3: kernel/space/lagrange3/evaluator.hpp).  What the property demands is therefore stated on the       *)
(* FUNCTIONALS: OneIndexPerFunctional - two (cell, local dof) pairs carry the same global index iff they denote    *)
(* the same functional; functionals live on ENTITIES (Space::DofAssignment + NodeFunctional), so the harness dumps  *)
(* the entity-wise assignment A next to the cell-wise mapping G and the specification relates the two; that the     *)
(* basis function j of a cell is dual to the functional its index is assigned to is the Reproduce/Dual property.    *)
EXTENDS MeshTopo, RefElement

\* T: topology record of MeshTopo ([n, idx]); sig: RefElement!Sig
RECURSIVE DofOffset(_, _, _)
DofOffset(T, sig, d) == IF d = 0 THEN 0 ELSE N(T, d - 1) * sig[d] + DofOffset(T, sig, d - 1)
NumGlobalDofs(T, sig, dim) == DofOffset(T, sig, dim + 1)
EntityOf(T, dim, c, d, k) == IF d = dim THEN c - 1 ELSE IF d = 0 THEN Idx(T, dim, 0)[c][k + 1] ELSE Idx(T, dim, d)[c][k + 1]
\* c is 1-based, dkm a layout entry; result 0-based global index
GlobalDof(T, sig, dim, c, dkm) == DofOffset(T, sig, dkm[1]) + EntityOf(T, dim, c, dkm[1], dkm[2]) * sig[dkm[1] + 1] + dkm[3]
\* the functional behind a (cell, local dof) pair: <<d, entity, m>>
Functional(T, dim, c, dkm) == << dkm[1], EntityOf(T, dim, c, dkm[1], dkm[2]), dkm[3] >>
DofTable(T, sig, fam, dim) ==
  LET lay == Layout(sig, fam, dim) IN TLCEval([c \in 1..N(T, dim) |-> TLCEval([j \in 1..Len(lay) |-> GlobalDof(T, sig, dim, c, lay[j])])])

\* ---- properties of an observed mapping G (G[c][j] = global index the implementation returned) ---------------------------------
MapShapeOK(G, T, sig, fam, dim) == Len(G) = N(T, dim) /\ \A c \in 1..Len(G) : Len(G[c]) = NumLocalDofs(sig, fam, dim)
MapMatches(G, T, sig, fam, dim) == G = DofTable(T, sig, fam, dim)
\* every global index is used, none beyond the count
MapSurjective(G, ng) == UNION {TRange(G[c]) : c \in 1..Len(G)} = 0..(ng - 1)
\* same index <=> same functional (<<d, entity, m>>): holds for DofTable by construction, stated for the observed map
OneIndexPerEntityDof(G, T, sig, fam, dim) ==
  LET lay == Layout(sig, fam, dim)
      pairs == {<<G[c][j], Functional(T, dim, c, lay[j])>> : c \in 1..Len(G), j \in 1..Len(lay)}
  IN Cardinality(pairs) = Cardinality({p[1] : p \in pairs}) /\ Cardinality(pairs) = Cardinality({p[2] : p \in pairs})
\* ---- the entity-wise side: dof assignment A (A[d+1][E+1][m+1] = index of the m-th functional of the d-entity E) -----------------------
\* the assignment the contract demands: the m-th functional of the d-entity E has index Off(d) + E*sig[d] + m
AssignSpec(T, sig, dim) ==
  [d \in 1..(dim + 1) |-> [E \in 1..N(T, d - 1) |-> [m \in 1..sig[d] |-> DofOffset(T, sig, d - 1) + (E - 1) * sig[d] + (m - 1)]]]
AssignShapeOK(A, T, sig, dim) ==
  Len(A) = dim + 1 /\ \A d \in 1..(dim + 1) : Len(A[d]) = N(T, d - 1) /\ \A E \in 1..Len(A[d]) : Len(A[d][E]) = sig[d]
\* the cell-wise mapping sends local dof <<d, k, m>> of cell c to the index ASSIGNED to functional m of that entity, and distinct
\* functionals have distinct indices: one index per shared functional, whatever the orientation of the entity relative to the cell
OneIndexPerFunctional(G, A, T, sig, fam, dim) ==
  LET lay == Layout(sig, fam, dim) IN
  /\ \A c \in 1..Len(G) : \A j \in 1..Len(lay) :
       G[c][j] = A[lay[j][1] + 1][EntityOf(T, dim, c, lay[j][1], lay[j][2]) + 1][lay[j][3] + 1]
  /\ LET all == UNION {UNION {{<<d, E, m, A[d][E][m]>> : m \in 1..Len(A[d][E])} : E \in 1..Len(A[d])} : d \in 1..Len(A)}
     IN Cardinality({t[4] : t \in all}) = Cardinality(all)
=============================================================================
