----------------------------- MODULE IntLinAlg -----------------------------
(* Dense integer linear algebra: the mathematical definitions every LAFEM   *)
(* container operation is compared with.  A vector is a sequence of         *)
(* integers; an m x n matrix is a sequence of m rows, each a sequence of n  *)
(* integers.  Dimensions are passed explicitly because a 0 x n matrix has   *)
(* no row to read n from.  Scaled (dyadic) quantities are integers times a  *)
(* denominator handled by the caller.                                        *)
EXTENDS Integers, Sequences, FiniteSets

SumSeq(s) == LET S[k \in 0..Len(s)] == IF k = 0 THEN 0 ELSE S[k-1] + s[k] IN S[Len(s)]

Abs(a) == IF a < 0 THEN -a ELSE a
Max(a, b) == IF a < b THEN b ELSE a
Min(a, b) == IF a < b THEN a ELSE b
MaxSeq(s) == LET S[k \in 1..Len(s)] == IF k = 1 THEN s[1] ELSE Max(S[k-1], s[k]) IN S[Len(s)]
MinSeq(s) == LET S[k \in 1..Len(s)] == IF k = 1 THEN s[1] ELSE Min(S[k-1], s[k]) IN S[Len(s)]

Zeros(n) == [i \in 1..n |-> 0]
ZeroMat(m, n) == [i \in 1..m |-> Zeros(n)]
Ident(n) == [i \in 1..n |-> [j \in 1..n |-> IF i = j THEN 1 ELSE 0]]

Dot(x, y) == SumSeq([i \in 1..Len(x) |-> x[i] * y[i]])
TripleDot(x, y, z) == SumSeq([i \in 1..Len(x) |-> x[i] * y[i] * z[i]])
Norm2Sqr(x) == Dot(x, x)
Scale(a, x) == [i \in 1..Len(x) |-> a * x[i]]
Axpy(a, x, y) == [i \in 1..Len(x) |-> a * x[i] + y[i]]            \* a*x + y
CompProd(x, y) == [i \in 1..Len(x) |-> x[i] * y[i]]

MatVec(m, n, A, x) == [i \in 1..m |-> SumSeq([j \in 1..n |-> A[i][j] * x[j]])]
MatTVec(m, n, A, x) == [j \in 1..n |-> SumSeq([i \in 1..m |-> A[i][j] * x[i]])]
Transpose(m, n, A) == [j \in 1..n |-> [i \in 1..m |-> A[i][j]]]
MatMat(m, k, n, A, B) == [i \in 1..m |-> [j \in 1..n |-> SumSeq([l \in 1..k |-> A[i][l] * B[l][j]])]]
MatAdd(m, n, A, B) == [i \in 1..m |-> [j \in 1..n |-> A[i][j] + B[i][j]]]
MatScale(m, n, a, A) == [i \in 1..m |-> [j \in 1..n |-> a * A[i][j]]]
MatAxpy(m, n, a, X, Y) == [i \in 1..m |-> [j \in 1..n |-> a * X[i][j] + Y[i][j]]]

\* permutations are sequences p with p[i] \in 1..n, bijective; (PermRows(A,p))[i] = A[p[i]]
IsPerm(p) == \A i \in 1..Len(p) : p[i] \in 1..Len(p) /\ \A j \in 1..Len(p) : i # j => p[i] # p[j]
PermInv(p) == [i \in 1..Len(p) |-> CHOOSE j \in 1..Len(p) : p[j] = i]
PermVec(x, p) == [i \in 1..Len(x) |-> x[p[i]]]
PermMat(m, n, A, p, q) == [i \in 1..m |-> [j \in 1..n |-> A[p[i]][q[j]]]]

\* row-major flattening of a matrix and of a sequence of sequences
RECURSIVE Flatten(_)
Flatten(ss) == IF ss = <<>> THEN <<>> ELSE Head(ss) \o Flatten(Tail(ss))
=============================================================================
