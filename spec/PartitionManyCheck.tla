-------------------------- MODULE PartitionManyCheck --------------------------
(* Trace validation for C12, decompositions into MANY small patches (spec/PartitionGenMany.tla enumerates the        *)
(* assignments; harness/c12_parti.cpp with "compact":1 dumps them).  Same input channel and same predicates as       *)
(* PartitionCheck.tla, which this module extends:                                                                    *)
(*   level 0 of every case is a full dump and is judged by LevelFails of PartitionCheck.tla, i.e. by every predicate   *)
(*   of Partition.tla verbatim (Cover, Injective, PatchIsSubmesh, NeighbourSymmetricComplete, HaloAgree, ...);         *)
(*   the jointly refined levels are compact dumps (no coordinates, no index sets of the patch meshes); they are judged  *)
(*   by the same clauses, evaluated through a table  E[r+1][d+1] = Ent(Lv, r, dim, d)  that is computed once per level  *)
(*   (Partition.tla re-evaluates Ent for every pair of ranks, which is quadratic in the number of patches):             *)
(*     Cover, Injective               verbatim                                                                          *)
(*     ClosureT                       the entity clauses of PatchIsSubmesh: the patch mesh has exactly the entities of   *)
(*                                    the closure of its cells, Map(r,d) is onto Ent(r,d)                               *)
(*     NeighbourT                     = NeighbourSymmetricComplete                                                      *)
(*     HaloSameOrderT, HaloSameSetT   = HaloAgree, split into its two clauses: position k of halo(r->s) and position k   *)
(*                                    of halo(s->r) denote the same base entity, for every dimension; the entities       *)
(*                                    listed are exactly Ent(r,d) \cap Ent(s,d), each once                               *)
(* On level 0 BOTH formulations are evaluated, so every case also cross-checks the table forms against Partition.tla.   *)
(* The whole batch is judged in one constant-level table (TLC caches LET definitions only at constant level); the        *)
(* behaviour spec merely selects a row, one printed verdict per case.                                                  *)
EXTENDS PartitionCheck

\* E[r + 1][d + 1] = Ent(Lv, r, dim, d).  Built with tuple constructors on purpose: TLC evaluates a function constructor
\* [x \in S |-> e] lazily and re-evaluates e on EVERY application, a tuple is evaluated once.
EntRow(C, Lv, r) ==
  IF C.dim = 2 THEN <<Ent(Lv, r, 2, 0), Ent(Lv, r, 2, 1), Ent(Lv, r, 2, 2)>>
  ELSE <<Ent(Lv, r, 3, 0), Ent(Lv, r, 3, 1), Ent(Lv, r, 3, 2), Ent(Lv, r, 3, 3)>>
RECURSIVE EntRows(_, _, _)
EntRows(C, Lv, r) == IF r < 0 THEN << >> ELSE Append(EntRows(C, Lv, r - 1), EntRow(C, Lv, r))
EntTab(C, Lv) == EntRows(C, Lv, C.nranks - 1)

\* what the clauses below read from a compact level
CompactShapeOK(C, Lv) ==
  LET B == Lv.base  dim == C.dim IN
  /\ Len(B.n) = dim + 1
  /\ \A e \in 0..(dim - 1) :
       /\ Len(Idx(B, dim, e)) = N(B, dim)
       /\ \A c \in 1..N(B, dim) :
            /\ Len(Idx(B, dim, e)[c]) = NF(C.fam, dim, e)
            /\ \A k \in 1..NF(C.fam, dim, e) : Idx(B, dim, e)[c][k] \in 0..(N(B, e) - 1)
  /\ ShapeOK(C, Lv)
  /\ \A r \in Ranks(C) : Len(PatchOf(Lv, r).mesh.n) = dim + 1

ClosureT(C, Lv, E) ==
  \A r \in Ranks(C) : \A d \in 0..C.dim :
    /\ N(PatchOf(Lv, r).mesh, d) = Len(Map(Lv, r, d))
    /\ TRange(Map(Lv, r, d)) = E[r + 1][d + 1]

NeighbourT(C, Lv, E) ==
  \A r \in Ranks(C) : LET cm == PatchOf(Lv, r).comm IN
    /\ TRange(cm) = {s \in Ranks(C) : r # s /\ (\E v \in E[r + 1][1] : v \in E[s + 1][1])}
    /\ Cardinality(TRange(cm)) = Len(cm)
    /\ {h.rank : h \in TRange(PatchOf(Lv, r).halos)} = TRange(cm) /\ Len(PatchOf(Lv, r).halos) = Len(cm)

\* the pairs r < s that hold a halo for each other (that these are exactly the neighbours is NeighbourT)
HaloPairs(C, Lv) ==
  {rs \in Ranks(C) \X Ranks(C) : rs[1] < rs[2] /\ (\E h \in TRange(PatchOf(Lv, rs[1]).halos) : h.rank = rs[2])
                                                /\ (\E h \in TRange(PatchOf(Lv, rs[2]).halos) : h.rank = rs[1])}
HaloRangeOK(C, Lv, r, h) ==
  Len(h.t) = C.dim + 1 /\ \A d \in 0..C.dim : \A j \in 1..Len(h.t[d + 1]) : h.t[d + 1][j] \in 0..(Len(Map(Lv, r, d)) - 1)
HaloSameOrderT(C, Lv) ==
  \A rs \in HaloPairs(C, Lv) :
    LET r == rs[1]  s == rs[2]  hr == HaloOf(Lv, r, s)  hs == HaloOf(Lv, s, r) IN
      /\ HaloRangeOK(C, Lv, r, hr) /\ HaloRangeOK(C, Lv, s, hs)
      /\ \A d \in 0..C.dim :
           /\ Len(hr.t[d + 1]) = Len(hs.t[d + 1])
           /\ \A k \in 1..Len(hr.t[d + 1]) : Map(Lv, r, d)[hr.t[d + 1][k] + 1] = Map(Lv, s, d)[hs.t[d + 1][k] + 1]
HaloSameSetT(C, Lv, E) ==
  \A rs \in HaloPairs(C, Lv) :
    LET r == rs[1]  s == rs[2]  hr == HaloOf(Lv, r, s)  hs == HaloOf(Lv, s, r) IN
      (HaloRangeOK(C, Lv, r, hr) /\ HaloRangeOK(C, Lv, s, hs)) =>
        \A d \in 0..C.dim :
          /\ TRange(MapSeq(Lv, r, d, hr.t[d + 1])) = E[r + 1][d + 1] \cap E[s + 1][d + 1]
          /\ TRange(MapSeq(Lv, s, d, hs.t[d + 1])) = E[r + 1][d + 1] \cap E[s + 1][d + 1]
          /\ Cardinality(TRange(hr.t[d + 1])) = Len(hr.t[d + 1])
          /\ Cardinality(TRange(hs.t[d + 1])) = Len(hs.t[d + 1])

TableFails(C, Lv, l) ==
  LET E == EntTab(C, Lv) IN
  UNION {
    Fail(Cover(C, Lv), "Cover", l - 1),
    Fail(Injective(C, Lv), "Injective", l - 1),
    Fail(ClosureT(C, Lv, E), "PatchIsSubmesh", l - 1),
    Fail(NeighbourT(C, Lv, E), "NeighbourSymmetricComplete", l - 1),
    Fail(HaloSameOrderT(C, Lv), "HaloSameOrder", l - 1),
    Fail(HaloSameSetT(C, Lv, E), "HaloSameSet", l - 1) }

LevelFailsM(C, l) ==
  LET Lv == C.levels[l] IN
  IF l = 1 THEN
    LET F == LevelFails(C, 1) IN
      IF \E f \in F : f.p = "ShapeOK" THEN F ELSE F \cup TableFails(C, Lv, 1)
  ELSE IF ~CompactShapeOK(C, Lv) THEN Fail(FALSE, "ShapeOK", l - 1)
  ELSE TableFails(C, Lv, l)

VerdictM(C) ==
  UNION {LevelFailsM(C, l) : l \in 1..Len(C.levels)}
  \cup Fail(PartitionerOK(C), "PartitionerOK", -1)
  \cup Fail(C.parti.success => Len(C.levels) = C.wantlevels, "AllLevelsProduced", -1)
  \cup (IF Len(C.levels) >= 1 /\ WellFormed(C.levels[1].base, C.fam, C.dim) /\ ShapeOK(C, C.levels[1])
        THEN Fail(AssignRealised(C), "AssignRealised", 0) ELSE {})

\* ---- what the case exercised (evidence, not part of the verdict) --------------------------------------------------------
Ascending(t) == \A j \in 1..(Len(t) - 1) : t[j] < t[j + 1]
InfoM(C) ==
  IF Len(C.levels) = 0 \/ ~(WellFormed(C.levels[1].base, C.fam, C.dim) /\ ShapeOK(C, C.levels[1]))
  THEN [pairs |-> 0, single |-> 0, ordered |-> 0, maxpatch |-> 0, cells |-> 0, mono |-> 0, maps |-> 0]
  ELSE LET Lv == C.levels[1]
           E == EntTab(C, Lv)
           HP == HaloPairs(C, Lv)
           sz == {Len(Map(Lv, r, C.dim)) : r \in Ranks(C)}
       IN [pairs |-> Cardinality(HP),
           \* neighbour pairs that touch in a single vertex only
           single |-> Cardinality({rs \in HP : Cardinality(E[rs[1] + 1][1] \cap E[rs[2] + 1][1]) = 1}),
           \* (pair, dimension) combinations with at least two shared entities, i.e. where the order clause says something
           ordered |-> Cardinality({x \in HP \X (0..C.dim) : Cardinality(E[x[1][1] + 1][x[2] + 1] \cap E[x[1][2] + 1][x[2] + 1]) >= 2}),
           maxpatch |-> CHOOSE m \in sz : \A k \in sz : k <= m,
           cells |-> N(Lv.base, C.dim),
           \* how many patch -> base maps (rank, dimension < dim) are ascending in the base numbering.  This is how the pinned
           \* code achieves the common halo order; it is NOT documented and NOT demanded (only reported)
           mono |-> Cardinality({x \in Ranks(C) \X (0..(C.dim - 1)) : Ascending(Map(Lv, x[1], x[2]))}),
           maps |-> C.nranks * C.dim]

Table == [i \in 1..Len(Cases) |-> [id |-> Cases[i].id, fails |-> SetToSeq(VerdictM(Cases[i])), info |-> InfoM(Cases[i])]]
EmitM == PrintT(ToJson(Table[ci]))
=============================================================================
