---------------------------- MODULE InvertMatrix ----------------------------
(* C18 (anchor kernel/util/math.hpp): Math::invert_matrix, the dense inversion behind the local mass matrices of the  *)
(* grid transfer assembly.  Direction G: TLC enumerates every matrix A = L L^T with L unit lower triangular with integer *)
(* entries -2..2 (symmetric positive definite like a mass matrix, determinant 1; the routine pivots on the diagonal only, *)
(* which is sufficient for such matrices); its inverse is the integer matrix det * adj(A).  The harness inverts  2^s * A  for a list of exponents s (the local   *)
(* mass matrices have entries of the size h^d) and compares with  2^-s * A^-1 : within 1e-12 (double) / 1e-5 (float)     *)
(* relative to the largest entry, and BITWISE with the s = 0 result scaled by 2^-s (a scaling by a power of two commutes  *)
(* with every floating point operation of an elimination that has no absolute thresholds).                              *)
EXTENDS Integers, Sequences, Json, TLC

CONSTANT N
Det2(a, b, c, d) == a * d - b * c
Det(A) == IF N = 2 THEN Det2(A[1][1], A[1][2], A[2][1], A[2][2])
          ELSE A[1][1] * Det2(A[2][2], A[2][3], A[3][2], A[3][3]) - A[1][2] * Det2(A[2][1], A[2][3], A[3][1], A[3][3])
               + A[1][3] * Det2(A[2][1], A[2][2], A[3][1], A[3][2])
\* cofactor C[i][j] = (-1)^(i+j) * minor(i, j)
Others(i) == IF N = 2 THEN << 3 - i >> ELSE (IF i = 1 THEN << 2, 3 >> ELSE IF i = 2 THEN << 1, 3 >> ELSE << 1, 2 >>)
Minor(A, i, j) == LET r == Others(i)  c == Others(j) IN
                    IF N = 2 THEN A[r[1]][c[1]] ELSE Det2(A[r[1]][c[1]], A[r[1]][c[2]], A[r[2]][c[1]], A[r[2]][c[2]])
Cof(A, i, j) == (IF (i + j) % 2 = 0 THEN 1 ELSE -1) * Minor(A, i, j)
\* inverse of a unimodular matrix: det * transpose of the cofactor matrix
Inverse(A) == [i \in 1..N |-> [j \in 1..N |-> Det(A) * Cof(A, j, i)]]
MatMul(A, B) == [i \in 1..N |-> [j \in 1..N |-> IF N = 2 THEN A[i][1] * B[1][j] + A[i][2] * B[2][j]
                                              ELSE A[i][1] * B[1][j] + A[i][2] * B[2][j] + A[i][3] * B[3][j]]]
Identity == [i \in 1..N |-> [j \in 1..N |-> IF i = j THEN 1 ELSE 0]]

\* unit lower triangular integer matrices
Lower == {M \in [1..N -> [1..N -> -2..2]] : \A i, j \in 1..N : (i = j => M[i][j] = 1) /\ (i < j => M[i][j] = 0)}
Transpose(M) == [i \in 1..N |-> [j \in 1..N |-> M[j][i]]]
VARIABLE A
Init == A \in {MatMul(L, Transpose(L)) : L \in Lower}
Next == UNCHANGED A
Spec == Init /\ [][Next]_A

\* the specified inverse is an inverse (sanity of this module)
InverseOK == MatMul(A, Inverse(A)) = Identity /\ MatMul(Inverse(A), A) = Identity
Emit == PrintT(ToJson([n |-> N, a |-> A, inv |-> Inverse(A)]))
=============================================================================
