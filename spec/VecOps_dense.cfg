SPECIFICATION Spec
CONSTANTS Family = "dense" MaxLen = 9 Palette = 1
INVARIANTS Frame ExactDomain AliasLaws ComposeLaw BlockedIsPlain Emit
CHECK_DEADLOCK FALSE
