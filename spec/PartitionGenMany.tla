---------------------------- MODULE PartitionGenMany ----------------------------
(* C12 generator for decompositions into MANY SMALL patches of irregular shape (64..144 patches, each far below     *)
(* 1/32 of the cells).  PartitionGen.tla enumerates every assignment of <= 6 cells; here TLC enumerates FAMILIES of    *)
(* assignments of a large mesh, each family parametrised by a few small integers:                                     *)
(*                                                                                                                    *)
(* The mesh is a structured grid of NX x NY x NZ boxes (NZ = 1 in 2D) numbered lexicographically                       *)
(* (box = i + NX*(j + NY*k), Geometry::StructUnitCubeFactory); every box consists of Per cells numbered               *)
(* Per*box + t (Per = 1 for hypercubes; 4 triangles / 24 tetrahedra per box for the simplex meshes made by            *)
(* ShapeConvertFactory).  The generators work with the cell coordinates (I, j, k), I = Per*i + t in 0..WX-1, so that   *)
(* block boundaries may cut through a box of a simplex mesh.  For unstructured meshes (mesh files) use NX = NCells,     *)
(* NY = NZ = Per = 1: the generators "chunk", "hash" and "scatter" only use the cell number.                           *)
(*                                                                                                                    *)
(*   shear   bx by bz s1 s2  blocks of bx x by x bz cells of the grid sheared by s1 cells per row and s2 per layer      *)
(*                           (with wrap-around: the blocks that cross the wrap are disconnected); s1 = s2 = 0 are the  *)
(*                           plain axis-aligned blocks                                                                *)
(*   stair   bx by bz st     blocks whose rows climb by one cell every st columns (and layers every st rows): staircase *)
(*   tile    tx ty tz p      the grid is tiled by tx x ty x tz = 8 cells, every tile is split into two patches of four   *)
(*                           cells by the pattern p - TLC enumerates ALL balanced 2-colourings of the tile (S-, L-, T-,  *)
(*                           I-shaped, 2x2 blocks, disconnected pieces, pieces touching in a vertex)                    *)
(*   chunk   n a             runs of n consecutive cells of the sequence c -> (a*c) mod NCells (a = 1: runs that wrap    *)
(*                           around the rows - strips, S/Z shapes; a > 1 coprime to NCells: strided, disconnected)       *)
(*   hash    n seed          every cell gets a pseudo-random rank (single cells, disconnected patches)                  *)
(*   voronoi n seed          n pseudo-random centres, every cell joins the nearest one (Manhattan distance, ties to the  *)
(*                           smaller centre number): irregular connected blobs of very different sizes                  *)
(*   mixed   bx by n seed    sheared blocks in which a pseudo-random subset of cells is handed to the next block         *)
(*                           (ragged interfaces, single-cell enclaves)                                                   *)
(*                                                                                                                    *)
(* Every generator defines a LABEL per cell; the ranks are the labels in ascending order with the unused ones removed,   *)
(* so every rank is non-empty by construction (IsPartition re-checks it).  Pseudo-random numbers are the hash H below      *)
(* (32-bit safe), seeded by the constant Seed (from VERIF_SEED).                                                         *)
EXTENDS Integers, Sequences, FiniteSets, SequencesExt, Json, TLC
CONSTANTS NX, NY, NZ, Per, Seed,
          Gens,            \* the generators to enumerate, a subset of {"shear","stair","tile","chunk","hash","voronoi","mixed"}
          BlkX, BlkY, BlkZ,      \* block sizes (sets of positive integers)
          Shears,              \* shears / stair steps (set of naturals)
          Tiles,           \* tile shapes, a subset of {1,2,3,4}: see TileDims
          RankCounts               \* rank counts for chunk (run length = NCells \div n) / hash / voronoi / mixed

VARIABLE cfg          \* index into ConfigSeq

WX == Per * NX
NCells == WX * NY * NZ
Cells == 0..(NCells - 1)
\* cell number -> coordinates
BoxOf(c) == c \div Per
CI(c) == Per * (BoxOf(c) % NX) + (c % Per)
CJ(c) == (BoxOf(c) \div NX) % NY
CK(c) == BoxOf(c) \div (NX * NY)
CeilDiv(a, b) == (a + b - 1) \div b

\* pseudo-random numbers 0..32748 (all intermediate values < 2^31 for s, x < 60000)
H(s, x) == LET a == ((x % 60000) * 1103 + (s % 60000) * 9176 + 4177) % 32749 IN (a * a + 7 * a + (x % 60000)) % 32749

TileDims == <<  <<4, 2, 1>>, <<2, 4, 1>>, <<2, 2, 2>>, <<2, 1, 4>>  >>
\* all 2-colourings of the 8 cells of a tile with four cells each; colour of cell 0 is 0 (the other half are the same
\* set partitions with the two ranks exchanged)
Patterns == {p \in [0..7 -> {0, 1}] : p[0] = 0 /\ Cardinality({x \in 0..7 : p[x] = 1}) = 4}
PatternSeq(p) == [x \in 1..8 |-> p[x - 1]]

Configs ==
  UNION {
    IF "shear" \in Gens THEN {[g |-> "shear", bx |-> bx, by |-> by, bz |-> bz, s1 |-> s1, s2 |-> s2] :
                                bx \in BlkX, by \in BlkY, bz \in BlkZ, s1 \in Shears, s2 \in (IF NZ = 1 THEN {0} ELSE Shears)} ELSE {},
    IF "stair" \in Gens THEN {[g |-> "stair", bx |-> bx, by |-> by, bz |-> bz, st |-> st] :
                                bx \in BlkX, by \in BlkY, bz \in BlkZ, st \in (Shears \ {0})} ELSE {},
    IF "tile" \in Gens THEN {[g |-> "tile", tile |-> t, p |-> PatternSeq(p)] :
                                t \in {u \in Tiles : NZ > 1 \/ TileDims[u][3] = 1}, p \in Patterns} ELSE {},
    IF "chunk" \in Gens THEN {[g |-> "chunk", n |-> n, a |-> a] : n \in RankCounts, a \in {b \in {1, 7, 11} : b = 1 \/ NCells % b # 0}} ELSE {},
    IF "hash" \in Gens THEN {[g |-> "hash", n |-> n, seed |-> Seed] : n \in RankCounts} ELSE {},
    IF "voronoi" \in Gens THEN {[g |-> "voronoi", n |-> n, seed |-> Seed] : n \in RankCounts} ELSE {},
    IF "mixed" \in Gens THEN {[g |-> "mixed", bx |-> bx, by |-> by, n |-> n, seed |-> Seed] : bx \in BlkX, by \in BlkY, n \in {4, 7}} ELSE {} }

\* ---- labels -------------------------------------------------------------------------------------------------------
BlockLabel(I, J, K, bx, by, bz) ==
  (I \div bx) + CeilDiv(WX, bx) * ((J \div by) + CeilDiv(NY, by) * (K \div bz))
ShearLabel(q, c) ==
  BlockLabel((CI(c) + q.s1 * CJ(c) + q.s2 * CK(c)) % WX, CJ(c), CK(c), q.bx, q.by, q.bz)
StairLabel(q, c) ==
  LET J == (CJ(c) + (CI(c) \div q.st)) % NY
      K == IF NZ = 1 THEN 0 ELSE (CK(c) + (CJ(c) \div q.st)) % NZ
  IN BlockLabel(CI(c), J, K, q.bx, q.by, q.bz)
TileLabel(q, c) ==
  LET d == TileDims[q.tile]
      u == CI(c) % d[1]  v == CJ(c) % d[2]  w == CK(c) % d[3]
      tileno == BlockLabel(CI(c), CJ(c), CK(c), d[1], d[2], d[3])
  IN 2 * tileno + q.p[1 + u + d[1] * (v + d[2] * w)]
ChunkLabel(q, c) == ((q.a * c) % NCells) \div (IF NCells \div q.n >= 1 THEN NCells \div q.n ELSE 1)
HashLabel(q, c) == H(q.seed, c) % q.n
Abs(x) == IF x < 0 THEN 0 - x ELSE x
Centre(q, m) == H(q.seed + 17, m) % NCells
\* nearest centre: the minimum of the keys  distance * 1024 + centre number  (n <= 1024), so ties go to the smaller number
VoronoiLabels(q) ==
  LET cen == [m \in 0..(q.n - 1) |-> LET e == Centre(q, m) IN <<CI(e), CJ(e), CK(e)>>]
      D(x, y, z, m) == Abs(x - cen[m][1]) + Per * (Abs(y - cen[m][2]) + Abs(z - cen[m][3]))
      Key(c) == LET x == CI(c)  y == CJ(c)  z == CK(c)
                    S == {D(x, y, z, m) * 1024 + m : m \in 0..(q.n - 1)}
                IN CHOOSE k \in S : \A l \in S : k <= l
  IN [c \in Cells |-> Key(c) % 1024]
MixedLabel(q, c) ==
  LET b == BlockLabel((CI(c) + CJ(c)) % WX, CJ(c), CK(c), q.bx, q.by, 1)
      nb == CeilDiv(WX, q.bx) * CeilDiv(NY, q.by) * NZ
  IN IF H(q.seed, c) % q.n = 0 THEN (b + 1) % nb ELSE b

Labels(q) ==
  CASE q.g = "shear" -> [c \in Cells |-> ShearLabel(q, c)] [] q.g = "stair" -> [c \in Cells |-> StairLabel(q, c)]
    [] q.g = "tile" -> [c \in Cells |-> TileLabel(q, c)] [] q.g = "chunk" -> [c \in Cells |-> ChunkLabel(q, c)]
    [] q.g = "hash" -> [c \in Cells |-> HashLabel(q, c)] [] q.g = "voronoi" -> VoronoiLabels(q)
    [] q.g = "mixed" -> [c \in Cells |-> MixedLabel(q, c)]

\* ---- from labels to ranks --------------------------------------------------------------------------------------------
Assignment(q) ==
  LET lab    == Labels(q)
      used   == {lab[c] : c \in Cells}
      rol    == [l \in used |-> Cardinality({u \in used : u < l})]
      rankof == [c \in Cells |-> rol[lab[c]]]
      n      == Cardinality(used)
      sz     == [r \in 0..(n - 1) |-> Cardinality({c \in Cells : rankof[c] = r})]
  IN [n |-> n, rank_of |-> rankof, sz |-> sz,
      \* the largest patch: "many small patches" means 32 * maxpatch < NCells
      maxpatch |-> CHOOSE m \in {sz[r] : r \in 0..(n - 1)} : \A r \in 0..(n - 1) : sz[r] <= m]

\* TLC caches LET definitions only while it evaluates constant-level expressions: the assignments of all configurations are
\* therefore one constant table, the behaviour spec merely selects a row (one state, one printed case per configuration)
ConfigSeq == SetToSeq(Configs)
Table == [i \in 1..Len(ConfigSeq) |-> Assignment(ConfigSeq[i])]

Init == cfg \in 1..Len(ConfigSeq)
Next == UNCHANGED cfg
Spec == Init /\ [][Next]_cfg

\* sanity of the generator: a partition of the cells into n non-empty classes, ranks 0..n-1
IsPartition ==
  LET A == Table[cfg] IN
  /\ \A c \in Cells : A.rank_of[c] \in 0..(A.n - 1)
  /\ \A r \in 0..(A.n - 1) : A.sz[r] >= 1
Emit == LET A == Table[cfg] IN
  PrintT(ToJson([gen |-> ConfigSeq[cfg], ncells |-> NCells, nranks |-> A.n, maxpatch |-> A.maxpatch,
                 rank_of |-> [c \in 1..NCells |-> A.rank_of[c - 1]]]))
=============================================================================
