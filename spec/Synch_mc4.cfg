SPECIFICATION Spec
CONSTANTS NR = 4 ND = 2
INVARIANTS Sync0Correct RecvOnce NoLostMessage
