SPECIFICATION Spec
CONSTANTS Seed = 1 Ns = {7} SubRanges = FALSE Cycles = {2} Adapts = {0,1,2} MaxWL = 6 Family = "uniform" Bases = {3,7} Depth = 1 Succs = {"again"} LinMaxL = 0
INVARIANTS StepLengthsAreMinimisers Linear CallCounts Emit
CHECK_DEADLOCK FALSE
