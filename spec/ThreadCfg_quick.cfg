INIT Init
NEXT Next
CONSTANT Tier = 1
INVARIANT Emit
