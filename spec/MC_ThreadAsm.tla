---------------------------- MODULE MC_ThreadAsm ----------------------------
(* Small-constant instances of ThreadAsm for exhaustive model checking.     *)
(* Layered: LayerSizes = cells per layer, TLs = thread layer boundaries;     *)
(* worst-case adjacency: two cells are adjacent iff they lie in the same or  *)
(* in consecutive layers.  Colored: ColorSizes = cells per colour; worst     *)
(* case adjacency: cells of different colours are adjacent.                  *)
EXTENDS ThreadAsm

CONSTANTS LayerSizes, TLs, ColorSizes

Prefix(sz) == [i \in 1..(Len(sz) + 1) |-> LET S[k \in 0..Len(sz)] == IF k = 0 THEN 0 ELSE S[k-1] + sz[k] IN S[i-1]]
MCLayerElems == IF Strategy = "layered" THEN Prefix(LayerSizes) ELSE <<>>
MCThreadLayers == IF Strategy = "layered" THEN TLs ELSE <<>>
MCColorElems == IF Strategy = "colored" THEN Prefix(ColorSizes) ELSE <<>>
MCNumElems == IF Strategy = "layered" THEN Prefix(LayerSizes)[Len(LayerSizes) + 1] ELSE Prefix(ColorSizes)[Len(ColorSizes) + 1]
GroupOf(p, pre) == CHOOSE g \in 1..(Len(pre) - 1) : pre[g] <= p /\ p < pre[g + 1]
MCAdjPairs ==
  LET N == MCNumElems IN
  IF Strategy = "layered"
  THEN {<<p, q>> \in (0..(N-1)) \X (0..(N-1)) : p # q /\
          LET a == GroupOf(p, MCLayerElems)  b == GroupOf(q, MCLayerElems) IN a - b \in {-1, 0, 1}}
  ELSE {<<p, q>> \in (0..(N-1)) \X (0..(N-1)) : p # q /\ GroupOf(p, MCColorElems) # GroupOf(q, MCColorElems)}
=============================================================================
