SPECIFICATION Spec
CONSTANTS Family = "none" MinN = 0 MaxN = 5 BS = 3 Depth = 1 Pal = 1
INVARIANTS FilterOK ExactDomain ConstraintHolds ComplementHolds IdempotentHolds Emit
CHECK_DEADLOCK FALSE
