SPECIFICATION Spec
CONSTANTS Fmt = "csr" Group = "dmul" M0 = 1 M1 = 2 K0 = 1 K1 = 2 N0 = 1 N1 = 2 MaxRow = 9 BH = 1 BW = 1 Palette = 1 ArrayLess = TRUE NAlpha = 2 ABFull = TRUE
INVARIANTS RepsValid PatternKept ExactDomain CompleteIsFull Assoc LumpIsMatVec DMulLaws Emit
CHECK_DEADLOCK FALSE
