------------------------------ MODULE LifetimeX ------------------------------
(* C20 (extension): container lifetimes over ALL LAFEM container families.                      *)
(*                                                                                              *)
(* Generalisation of spec/Lifetime.tla (which knows DenseVector, SparseMatrixCSR and            *)
(* SparseLayout).  The state is a small pool of container slots plus the MemoryPool chunk        *)
(* table; every action is one public lifetime call, written as the sequence of MemoryPool       *)
(* calls (allocate_memory / increase_memory / release_memory) the call performs - transcribed   *)
(* from kernel/lafem/container.hpp, the family headers and kernel/util/memory_pool.hpp.         *)
(*                                                                                              *)
(* Families (constant Fams):                                                                    *)
(*   dv     DenseVector                     <<el n>>                 (no array when n = 0)      *)
(*   dvb    DenseVectorBlocked<.,.,2>       <<el 2*blocks>>          (no array when 0 blocks)   *)
(*   sv     SparseVector                    <<el cap, ix cap>>       capacity based, `used`     *)
(*   csr    SparseMatrixCSR                 <<el nnz, ix nnz, ix rows+1>>                       *)
(*   bcsr   SparseMatrixBCSR<.,.,2,2>       <<el 4*nnz, ix nnz, ix rows+1>>                     *)
(*   cscr   SparseMatrixCSCR                <<el nnz, ix nnz, ix urows+1, ix urows>>            *)
(*   banded SparseMatrixBanded              <<el rows*bands, ix bands>>                         *)
(*   dm     DenseMatrix                     <<el rows*cols>>                                    *)
(*   tv     TupleVector<DenseVector, DenseVector>: TWO sub-containers, every call recurses      *)
(*   lay    SparseLayout<IT, lt_csr>: index arrays only; shared by csr and bcsr                 *)
(* A slot holds `parts`, one sequence of arrays per sub-container (1 part, tv: 2 parts).        *)
(* Matrices carry their `shape` (rows, cols, sparsity pattern as a set of positions); the       *)
(* array sizes of every construction / conversion are DERIVED from it (FamLayout), so the       *)
(* cross-family conversions are specified by what they mean for the pattern.                    *)
(*                                                                                              *)
(* Cross-family conversions (action ConvertX):                                                  *)
(*   dv <-> dvb        the target SHARES the value array of the source (aliasing relatives)     *)
(*   bcsr -> csr, banded -> csr      deep: fresh arrays                                         *)
(*   csr -> banded                   deep, through DenseVector temporaries and a move           *)
(*   csr -> cscr, cscr -> csr        deep, through the generic convert(MT_) (temporary          *)
(*                                   same-family convert + DenseVector temporaries + move)      *)
(*   (dm has no conversion partner: the generic convert(MT_) does not compile for DenseMatrix)  *)
(*                                                                                              *)
(* Invariants: RefCount, NoLeak, NoDangling, EmptyAtEnd, NullNeverCounted, TypeOK, LayoutOK;    *)
(* action properties Frame (an operation never changes a container it does not name, and the    *)
(* contents of a bystander change only if it shares the written chunk) and ConstSource.         *)
(* Contents are one token per chunk.  TLC emits each history with the predicted world after     *)
(* every step and the predicted outcome class of Runtime::finalize at the end of the history;   *)
(* harness/c20x_lifetime.cpp replays it on real containers under ASan/UBSan.                    *)
EXTENDS Integers, Sequences, FiniteSets, Json, TLC

CONSTANTS Slots,     \* e.g. 1..3
          Fams,      \* subset of the families above (without "lay", which comes with csr / bcsr)
          Depth,     \* history length at which a behaviour is emitted
          EmitOn,    \* TRUE: print behaviours (generation runs); FALSE: pure model checking
          Ops,       \* the actions enabled in this run (focus); {"all"} = everything
          Tys,       \* the type tags containers are created with / fresh targets get
          CModes,    \* the clone modes explored
          Vars       \* the construction variants explored; {"all"} = every variant of the family

VARIABLES slot,      \* slot id -> [live, fam, ty, foreign, shell, parts, used, shape]
          pool,      \* chunk id -> [refs, n, tok]     (live chunks only; DOMAIN pool = live chunk ids)
          next,      \* next fresh chunk id
          hist       \* sequence of [op, args, world]  (history variable: the behaviour so far)

vars == <<slot, pool, next, hist>>

\* data/index type tags: 1 = <double,u64>, 2 = <float,u64> (other DT), 3 = <double,u32> (other IT)
Types == {1, 2, 3}
SameDT(a, b) == (a = 2) = (b = 2)
SameIT(a, b) == (a = 3) = (b = 3)
Modes == {"shallow", "layout", "weak", "deep", "allocate"}
Undef == -1
MaxArr == 4                       \* cscr: four arrays

VecFams == {"dv", "dvb"}
MatFams == {"csr", "bcsr", "cscr", "banded", "dm"}
LayFams == {"csr", "bcsr"}        \* the matrix families built on SparseLayout<IT, lt_csr>
NParts(fam) == IF fam = "tv" THEN 2 ELSE 1
NoParts(fam) == [i \in 1..NParts(fam) |-> <<>>]

NoShape == [r |-> 0, c |-> 0, pat |-> {}]
Free == [live |-> FALSE, fam |-> "", ty |-> 0, foreign |-> FALSE, shell |-> FALSE, parts |-> <<>>, used |-> 0, shape |-> NoShape]

RECURSIVE Flat(_)
Flat(parts) == IF parts = <<>> THEN <<>> ELSE Head(parts) \o Flat(Tail(parts))

(***********************************************************************************************)
(* MemoryPool: the (pool, next) pair threaded through the calls of one action                   *)
(***********************************************************************************************)
W0 == [pool |-> pool, next |-> next]
Alloc(w, n, tok) ==   \* allocate_memory(n): size 0 -> null chunk
  IF n = 0 THEN [w |-> w, c |-> 0]
  ELSE [w |-> [pool |-> (w.next :> [refs |-> 1, n |-> n, tok |-> tok]) @@ w.pool, next |-> w.next + 1], c |-> w.next]
Incr(w, c) ==         \* increase_memory(c): no-op for the null chunk
  IF c = 0 THEN w ELSE [w EXCEPT !.pool[c].refs = @ + 1]
Release(w, c) ==      \* release_memory(c): no-op for the null chunk, frees at counter 1
  IF c = 0 THEN w
  ELSE IF w.pool[c].refs = 1 THEN [w EXCEPT !.pool = [d \in (DOMAIN w.pool) \ {c} |-> w.pool[d]]]
  ELSE [w EXCEPT !.pool[c].refs = @ - 1]

RECURSIVE ReleaseArr(_, _)
ReleaseArr(w, arr) == IF arr = <<>> THEN w ELSE ReleaseArr(Release(w, Head(arr).c), Tail(arr))
RECURSIVE IncrArr(_, _)
IncrArr(w, arr) == IF arr = <<>> THEN w ELSE IncrArr(Incr(w, Head(arr).c), Tail(arr))
RECURSIVE ReleaseParts(_, _)
ReleaseParts(w, parts) == IF parts = <<>> THEN w ELSE ReleaseParts(ReleaseArr(w, Head(parts)), Tail(parts))
\* what the destructor / clear() / the release loop at the start of move() and assign() does: nothing for foreign memory
ReleaseOwn(w, s) == IF slot[s].live /\ ~slot[s].foreign THEN ReleaseParts(w, slot[s].parts) ELSE w
\* the sub-containers of slot s that own something (for the sub-container-wise recursion of tv): <<>> = nothing to release
OwnParts(s) == IF slot[s].live /\ ~slot[s].foreign THEN slot[s].parts ELSE <<>>

TokOf(w, a) == IF a.c = 0 THEN Undef ELSE w.pool[a.c].tok

\* new arrays for the entries of `arr`: per array either shared (increase) or freshly allocated (content
\* copied or undefined), decided by the rule:
\*   clone modes   shallow: share all | layout: share ix, el undefined | weak: share ix, el copied
\*                 deep: copy all | allocate: all undefined
\*   assign_XY     elements shared iff X = "e" (equal data types), index arrays iff Y = "e", else converted copies
ShareP(rule, a) ==
  CASE rule = "shallow" -> TRUE
    [] rule \in {"layout", "weak"} -> a.k = "ix"
    [] rule \in {"deep", "allocate"} -> FALSE
    [] rule = "assign_ee" -> TRUE
    [] rule = "assign_en" -> a.k = "el"
    [] rule = "assign_ne" -> a.k = "ix"
    [] rule = "assign_nn" -> FALSE
CopyP(rule, a) == rule \notin {"layout", "allocate"}
RECURSIVE BuildArr(_, _, _, _)
BuildArr(w, arr, rule, acc) ==
  IF arr = <<>> THEN [w |-> w, arr |-> acc]
  ELSE LET a == Head(arr) IN
       IF ShareP(rule, a)
       THEN BuildArr(Incr(w, a.c), Tail(arr), rule, Append(acc, a))
       ELSE LET r == Alloc(w, a.n, IF CopyP(rule, a) THEN TokOf(w, a) ELSE Undef)
            IN BuildArr(r.w, Tail(arr), rule, Append(acc, [k |-> a.k, c |-> r.c, n |-> a.n, off |-> 0]))

\* sub-container by sub-container (TupleVector recursion; one round for every other family): release what the target's
\* sub-container owns (dparts = <<>>: nothing to release), then build it from the source's sub-container
RECURSIVE BuildParts(_, _, _, _, _)
BuildParts(w, sparts, dparts, rule, acc) ==
  IF sparts = <<>> THEN [w |-> w, parts |-> acc]
  ELSE LET w1 == IF dparts = <<>> THEN w ELSE ReleaseArr(w, Head(dparts))
           r  == BuildArr(w1, Head(sparts), rule, <<>>)
       IN BuildParts(r.w, Tail(sparts), IF dparts = <<>> THEN <<>> ELSE Tail(dparts), rule, Append(acc, r.arr))

\* allocate_memory rounds the element count up to a multiple of 4
AllocCount(n) == IF (n % 4) = 0 THEN n ELSE n + (4 - (n % 4))

(***********************************************************************************************)
(* shapes: sparsity patterns and the array sizes every family derives from them                 *)
(***********************************************************************************************)
NNZ(sh) == Cardinality(sh.pat)
UsedRows(sh) == Cardinality({p[1] : p \in sh.pat})
Offsets(sh) == {p[2] - p[1] + sh.r - 1 : p \in sh.pat}             \* band offset of position (row, col)
BandPat(r, c, offs) == {p \in (0..(r - 1)) \X (0..(c - 1)) : (p[2] - p[1] + r - 1) \in offs}
FullPat(r, c) == (0..(r - 1)) \X (0..(c - 1))
Expand2(pat) == {<<2 * p[1] + i, 2 * p[2] + j>> : p \in pat, i \in {0, 1}, j \in {0, 1}}   \* 2x2 blocks -> scalar positions

\* the arrays (kind, size) of a matrix of family fam with shape sh that has its arrays allocated
FamLayout(fam, sh) ==
  CASE fam = "csr"    -> <<<<"el", NNZ(sh)>>, <<"ix", NNZ(sh)>>, <<"ix", sh.r + 1>>>>                       \* val, col_ind, row_ptr
    [] fam = "bcsr"   -> <<<<"el", 4 * NNZ(sh)>>, <<"ix", NNZ(sh)>>, <<"ix", sh.r + 1>>>>
    [] fam = "cscr"   -> <<<<"el", NNZ(sh)>>, <<"ix", NNZ(sh)>>, <<"ix", UsedRows(sh) + 1>>, <<"ix", UsedRows(sh)>>>>   \* val, col_ind, row_ptr, row_numbers
    [] fam = "banded" -> <<<<"el", sh.r * Cardinality(Offsets(sh))>>, <<"ix", Cardinality(Offsets(sh))>>>>  \* val, offsets
    [] fam = "dm"     -> <<<<"el", sh.r * sh.c>>>>

\* construction variants
Shapes(fam) ==
  CASE fam = "dv"  -> {"n3", "n4", "n0"}
    [] fam = "dvb" -> {"b2", "b3", "b0"}
    [] fam = "sv"  -> {"e", "f"}
    [] fam \in {"csr", "bcsr"} -> {"full", "band", "nz0", "bare"}
    [] fam = "cscr" -> {"full", "nz0", "bare"}
    [] fam = "banded" -> {"o1", "o2"}
    [] fam = "dm" -> {"m22", "m13"}
    [] fam = "tv" -> {"t32", "t30", "t00"}

MatShape(fam, var) ==
  CASE var = "full" -> [r |-> 2, c |-> 3, pat |-> {<<0, 0>>, <<0, 2>>, <<1, 1>>}]
    [] var = "band" -> [r |-> 2, c |-> 3, pat |-> {<<0, 0>>, <<0, 1>>, <<1, 1>>, <<1, 2>>}]   \* two complete bands
    [] var \in {"nz0", "bare"} -> [r |-> 2, c |-> 3, pat |-> {}]
    [] var = "o1" -> [r |-> 3, c |-> 3, pat |-> BandPat(3, 3, {2})]                           \* main diagonal
    [] var = "o2" -> [r |-> 3, c |-> 3, pat |-> BandPat(3, 3, {2, 3})]
    [] var = "m22" -> [r |-> 2, c |-> 2, pat |-> FullPat(2, 2)]
    [] var = "m13" -> [r |-> 1, c |-> 3, pat |-> FullPat(1, 3)]
    [] OTHER -> NoShape

\* arrays of a freshly constructed container, sub-container by sub-container: <<kind, size>> lists
Layout(fam, var) ==
  CASE fam = "dv"  -> <<IF var = "n3" THEN <<<<"el", 3>>>> ELSE IF var = "n4" THEN <<<<"el", 4>>>> ELSE <<>>>>   \* DenseVector(0): returns before allocating
    [] fam = "dvb" -> <<IF var = "b2" THEN <<<<"el", 4>>>> ELSE IF var = "b3" THEN <<<<"el", 6>>>> ELSE <<>>>>
    [] fam = "sv"  -> <<IF var = "f" THEN <<<<"el", 2>>, <<"ix", 2>>>> ELSE <<>>>>          \* SparseVector(4): no arrays; (4, el(2), ix(2))
    [] fam = "tv"  -> IF var = "t32" THEN <<<<<<"el", 3>>>>, <<<<"el", 2>>>>>>
                      ELSE IF var = "t30" THEN <<<<<<"el", 3>>>>, <<>>>> ELSE <<<<>>, <<>>>>
    [] fam \in MatFams -> <<IF var = "bare" THEN <<>> ELSE FamLayout(fam, MatShape(fam, var))>>   \* dimension-only constructor: no arrays

RECURSIVE AllocLayout(_, _, _, _)
AllocLayout(w, lay, tok, acc) ==
  IF lay = <<>> THEN [w |-> w, arr |-> acc]
  ELSE LET r == Alloc(w, Head(lay)[2], IF Head(lay)[1] = "el" THEN tok ELSE 7)
       IN AllocLayout(r.w, Tail(lay), tok, Append(acc, [k |-> Head(lay)[1], c |-> r.c, n |-> Head(lay)[2], off |-> 0]))
RECURSIVE AllocParts(_, _, _, _)
AllocParts(w, lays, tok, acc) ==
  IF lays = <<>> THEN [w |-> w, parts |-> acc]
  ELSE LET r == AllocLayout(w, Head(lays), tok, <<>>) IN AllocParts(r.w, Tail(lays), tok, Append(acc, r.arr))

(***********************************************************************************************)
(* the world as the replayer sees it                                                            *)
(***********************************************************************************************)
\* per slot <<live, fam, ty, foreign, <<k, c, n, off, tok, allocated count of the chunk>>..., used>> (used: SparseVector entries, else -1),
\* and the reference counters as a function chunk -> refs
WorldOf(sl, pl) ==
  [slots |-> [s \in Slots |-> <<sl[s].live, sl[s].fam, sl[s].ty, sl[s].foreign,
                                LET ar == Flat(sl[s].parts) IN
                                [i \in 1..Len(ar) |->
                                   LET a == ar[i] IN <<a.k, a.c, a.n, a.off, IF a.c = 0 THEN Undef ELSE pl[a.c].tok,
                                                       IF a.c = 0 THEN 0 ELSE AllocCount(pl[a.c].n)>>],
                                IF sl[s].live /\ sl[s].fam = "sv" THEN sl[s].used ELSE -1>>],
   refs |-> [c \in DOMAIN pl |-> pl[c].refs]]

Commit(w, newslots, op, args) ==
  /\ pool' = w.pool /\ next' = w.next /\ slot' = newslots
  /\ hist' = Append(hist, [op |-> op, args |-> args, world |-> WorldOf(newslots, w.pool)])

\* API obligation made explicit: the owner of a ranged (foreign) slice must outlive it, i.e. no action
\* may free a chunk that a live foreign slot still points into
KeepsOwners(w, newslots) == \A s \in Slots : newslots[s].live /\ newslots[s].foreign =>
                               \A i \in 1..Len(Flat(newslots[s].parts)) : Flat(newslots[s].parts)[i].c \in DOMAIN w.pool

\* releasing what slot s owns must not free a chunk another live ranged slot still points into
SafeRelease(s) ==
  LET w1 == ReleaseOwn(W0, s) IN
  \A t \in Slots \ {s} : slot[t].live /\ slot[t].foreign => \A i \in 1..Len(Flat(slot[t].parts)) : Flat(slot[t].parts)[i].c \in DOMAIN w1.pool

Init == /\ slot = [s \in Slots |-> Free] /\ pool = <<>> /\ next = 1 /\ hist = <<>>

Step == Len(hist) + 1

Mk(fam, ty, parts, used, shape) ==
  [live |-> TRUE, fam |-> fam, ty |-> ty, foreign |-> FALSE, shell |-> FALSE, parts |-> parts, used |-> used, shape |-> shape]

(***********************************************************************************************)
(* constructors                                                                                 *)
(***********************************************************************************************)
\* (the raw-array constructors used for "full"/"band"/"f"/"o1"/"o2" increase the counters of arrays that DenseVector
\*  temporaries of the caller allocated and release again: net effect one fresh chunk per array)
Create(s, fam, var, ty) ==
  /\ ~slot[s].live
  /\ LET r == AllocParts(W0, Layout(fam, var), 100 + Step, <<>>)
     IN Commit(r.w, [slot EXCEPT ![s] = Mk(fam, ty, r.parts, IF fam = "sv" /\ var = "f" THEN 2 ELSE 0,
                                           IF fam \in MatFams THEN MatShape(fam, var) ELSE NoShape)],
               "create", [s |-> s, fam |-> fam, var |-> var, ty |-> ty])

(***********************************************************************************************)
(* clone                                                                                        *)
(***********************************************************************************************)
\* Container::assign(other) into a container of type ty2 that currently owns nothing (the temporary of
\* the cross-type clone, the temporary of the generic conversions, or - after releasing - the target of convert):
\* elements are shared iff the data types agree, index arrays iff the index types agree, otherwise allocated and converted
AssignRule(ty1, ty2) == IF SameDT(ty1, ty2) THEN (IF SameIT(ty1, ty2) THEN "assign_ee" ELSE "assign_en")
                        ELSE (IF SameIT(ty1, ty2) THEN "assign_ne" ELSE "assign_nn")
AssignFrom(w, arr, ty1, ty2) == BuildArr(w, arr, AssignRule(ty1, ty2), <<>>)

\* Container::clone(other, mode); for other types: Container t; t.assign(other); clone(t, mode); ~t.
\* TupleVector::clone(other, mode) clones sub-container by sub-container and exists for its own type only.
CloneInto(src, dst, mode, ty2) ==
  IF ty2 = slot[src].ty
  THEN BuildParts(W0, slot[src].parts, OwnParts(dst), mode, <<>>)           \* this->clear(), then share / allocate
  ELSE LET t  == AssignFrom(W0, slot[src].parts[1], slot[src].ty, ty2)      \* Container t; t.assign(other)
           w2 == ReleaseOwn(t.w, dst)                                       \* clone(t, mode): this->clear()
           c  == BuildArr(w2, t.arr, mode, <<>>)
       IN [w |-> ReleaseArr(c.w, t.arr), parts |-> <<c.arr>>]                \* ~t

Clone(src, dst, mode) ==
  /\ src # dst /\ slot[src].live /\ slot[src].fam # "lay"
  /\ (slot[dst].live => slot[dst].fam = slot[src].fam)
  /\ SafeRelease(dst)
  /\ (slot[src].foreign => mode = "deep")                    \* XASSERT: ranged sources must be cloned deep
  /\ \E ty2 \in (IF slot[dst].live THEN {slot[dst].ty} ELSE Tys) :
       /\ (ty2 # slot[src].ty => ~slot[src].foreign /\ slot[src].fam # "tv")   \* cross-type clone goes through assign(): forbidden for ranged sources
       /\ LET r  == CloneInto(src, dst, mode, ty2)
              ns == [slot EXCEPT ![dst] = [slot[src] EXCEPT !.ty = ty2, !.foreign = FALSE, !.parts = r.parts]]
          IN KeepsOwners(r.w, ns) /\ Commit(r.w, ns, "clone", [src |-> src, dst |-> dst, mode |-> mode, ty |-> ty2, fresh |-> ~slot[dst].live])

(***********************************************************************************************)
(* convert within a family                                                                      *)
(***********************************************************************************************)
\* assign() for every family (tv: sub-container by sub-container) except SparseVector, whose convert is
\*   this->sort(); this->clone(other)      (a deep clone "in any case")
Convert(src, dst) ==
  /\ src # dst /\ slot[src].live /\ ~slot[src].foreign          \* XASSERT: no foreign-memory sources
  /\ slot[src].fam # "lay"
  /\ SafeRelease(dst)
  /\ (slot[dst].live => slot[dst].fam = slot[src].fam)
  /\ \E ty2 \in (IF slot[dst].live THEN {slot[dst].ty} ELSE Tys) :
       LET r  == IF slot[src].fam = "sv" THEN CloneInto(src, dst, "deep", ty2)
                 ELSE BuildParts(W0, slot[src].parts, OwnParts(dst), AssignRule(slot[src].ty, ty2), <<>>)
           ns == [slot EXCEPT ![dst] = [slot[src] EXCEPT !.ty = ty2, !.foreign = FALSE, !.parts = r.parts]]
       IN KeepsOwners(r.w, ns) /\ Commit(r.w, ns, "convert", [src |-> src, dst |-> dst, ty |-> ty2, fresh |-> ~slot[dst].live,
                                                               dshell |-> slot[dst].live /\ slot[dst].shell])

(***********************************************************************************************)
(* conversions between families                                                                 *)
(***********************************************************************************************)
XTargets(fam) ==
  CASE fam = "dv" -> {"dvb"} [] fam = "dvb" -> {"dv"} [] fam = "bcsr" -> {"csr"} [] fam = "banded" -> {"csr"}
    [] fam = "csr" -> {"banded", "cscr"} [] fam = "cscr" -> {"csr"} [] OTHER -> {}

\* the pattern after the conversion: bcsr -> csr expands the blocks; csr -> banded stores whole bands, so every position of the
\* matrix that lies on a band of some entry becomes an entry (and stays one when converted back)
XShape(f1, f2, sh) ==
  IF f1 = "bcsr" THEN [r |-> 2 * sh.r, c |-> 2 * sh.c, pat |-> Expand2(sh.pat)]
  ELSE IF f2 = "banded" THEN [sh EXCEPT !.pat = BandPat(sh.r, sh.c, Offsets(sh))]
  ELSE sh

\* contents of the value array after the conversion: the values are copied entry by entry, so a uniform source stays
\* uniform - except csr -> banded, whose band arrays are zero wherever a band position is not an entry of the matrix
XTok(f1, f2, sh, tok) ==
  IF f2 = "banded" THEN (IF \A o \in Offsets(sh), i \in 0..(sh.r - 1) : <<i, i + o - (sh.r - 1)>> \in sh.pat THEN tok ELSE Undef)
  ELSE tok

ConvertX(src, dst, f2) ==
  LET f1 == slot[src].fam
      sh == slot[src].shape IN
  /\ src # dst /\ slot[src].live /\ ~slot[src].foreign /\ ~slot[src].shell
  /\ f2 \in XTargets(f1) /\ f2 \in Fams
  /\ (slot[dst].live => slot[dst].fam = f2)
  /\ SafeRelease(dst)
  /\ \E ty2 \in (IF slot[dst].live THEN {slot[dst].ty} ELSE Tys) :
       LET sa  == slot[src].parts[1]
           elt == IF sa = <<>> THEN Undef ELSE TokOf(W0, sa[1])
           sh2 == XShape(f1, f2, sh)
           lay == FamLayout(f2, sh2)
           tok == XTok(f1, f2, sh, elt)
           r == IF f1 \in VecFams
                THEN \* this->clear(); take over the pointer of the source's value array; increase_memory.  A source without
                     \* an array (length 0) gives a target without an array.
                     LET w1 == ReleaseOwn(W0, dst) IN
                     IF sa = <<>> THEN [w |-> w1, arr |-> <<>>]
                     ELSE [w |-> Incr(w1, sa[1].c), arr |-> <<sa[1]>>]
                ELSE IF f2 = "csr" /\ f1 \in {"bcsr", "banded"}
                THEN \* this->clear(); nothing more for an entry-free source; else allocate val, col_ind, row_ptr and fill them
                     LET w1 == ReleaseOwn(W0, dst) IN
                     IF NNZ(sh) = 0 THEN [w |-> w1, arr |-> <<>>] ELSE AllocLayout(w1, lay, tok, <<>>)
                ELSE IF f2 = "banded"
                THEN \* DenseVector val_new, offsets_new (allocate); SparseMatrixBanded temp(.., val_new, offsets_new) (increase);
                     \* this->move(temp) (release what the target owns); ~offsets_new, ~val_new (release)
                     LET a  == AllocLayout(W0, lay, tok, <<>>)
                         w2 == ReleaseOwn(IncrArr(a.w, a.arr), dst)
                     IN [w |-> ReleaseArr(w2, a.arr), arr |-> a.arr]
                ELSE \* generic convert(MT_) [csr <-> cscr]: ContainerType<DT, IT> ta; ta.convert(a) (assign); DenseVector tval, tcol_ind, trow_ptr
                     \* (, trow_numbers) (allocate); this->move(Matrix(.., tcol_ind, tval, trow_ptr)) (increase; release what the
                     \* target owns); the DenseVectors and ta go out of scope (release)
                     LET ta == AssignFrom(W0, sa, slot[src].ty, ty2)
                         a  == AllocLayout(ta.w, lay, tok, <<>>)
                         w2 == ReleaseOwn(IncrArr(a.w, a.arr), dst)
                     IN [w |-> ReleaseArr(ReleaseArr(w2, a.arr), ta.arr), arr |-> a.arr]
           ns == [slot EXCEPT ![dst] = Mk(f2, ty2, <<r.arr>>, 0, IF f2 \in MatFams THEN sh2 ELSE NoShape)]
       IN \* enabling conditions (XASSERTs of the conversions and of the raw-array constructors they end in)
          /\ (f1 \in VecFams => SameDT(slot[src].ty, ty2))                               \* the pointer is taken over: same data type
          /\ (f1 = "dv" /\ sa # <<>> => sa[1].n % 2 = 0)                                  \* XASSERT: length divisible by the block size
          /\ (f1 \in {"bcsr", "banded"} => ty2 = slot[src].ty)                              \* these read the source arrays through pointers of the target's types
          /\ (f2 \in {"banded", "cscr"} \/ f1 = "cscr" => NNZ(sh) > 0 /\ sa # <<>>)          \* XASSERT used_elements > 0 / non-empty arrays
          /\ (f1 \in MatFams => \A i \in 1..Len(sa) : sa[i].k = "ix" => TokOf(W0, sa[i]) # Undef)   \* the index arrays are read: they must have been written (not an Allocate-mode clone)
          /\ (f2 = "cscr" \/ f1 = "cscr" => UsedRows(sh) = sh.r)                          \* (rows without entries: known finding of C02, not a lifetime matter)
          /\ KeepsOwners(r.w, ns)
          /\ Commit(r.w, ns, "convertx", [src |-> src, dst |-> dst, fam |-> f2, ty |-> ty2, fresh |-> ~slot[dst].live,
                                          empty |-> f1 \in VecFams /\ sa = <<>>])

(***********************************************************************************************)
(* move / move constructor (tv: sub-container by sub-container)                                 *)
(***********************************************************************************************)
Move(src, dst) ==
  /\ src # dst /\ slot[src].live /\ slot[src].fam # "lay"
  /\ IF slot[dst].live THEN slot[dst].fam = slot[src].fam /\ slot[dst].ty = slot[src].ty ELSE TRUE
  /\ SafeRelease(dst)
  /\ LET w1 == ReleaseOwn(W0, dst)
         ns == [slot EXCEPT ![dst] = [slot[src] EXCEPT !.live = TRUE],
                            ![src] = [slot[src] EXCEPT !.parts = NoParts(slot[src].fam), !.shell = TRUE, !.used = 0]]   \* the source stays alive as an empty shell
     IN KeepsOwners(w1, ns) /\ Commit(w1, ns, IF slot[dst].live THEN "move" ELSE "movector", [src |-> src, dst |-> dst])

(***********************************************************************************************)
(* ranged slice (foreign memory): DenseVector(v, 2, 1), DenseVectorBlocked(v, 1 block, from block 1) *)
(***********************************************************************************************)
Range(src, dst) ==
  /\ src # dst /\ slot[src].live /\ ~slot[dst].live /\ slot[src].fam \in VecFams /\ ~slot[src].foreign
  /\ slot[src].parts[1] # <<>>
  /\ LET a == slot[src].parts[1][1]
         o == IF slot[src].fam = "dv" THEN 1 ELSE 2
         ns == [slot EXCEPT ![dst] = [Mk(slot[src].fam, slot[src].ty, <<<<[k |-> "el", c |-> a.c, n |-> 2, off |-> o]>>>>, 0, NoShape) EXCEPT !.foreign = TRUE]]
     IN a.n >= o + 2 /\ a.off = 0 /\ Commit(W0, ns, "range", [src |-> src, dst |-> dst])

(***********************************************************************************************)
(* SparseLayout: matrices built on another matrix' layout; first-class layout objects           *)
(***********************************************************************************************)
IxOf(arr) == SelectSeq(arr, LAMBDA a : a.k = "ix")
ElCount(fam, sh) == IF fam = "bcsr" THEN 4 * NNZ(sh) ELSE NNZ(sh)     \* used_elements (scalar of the layout), in values

\* Matrix(M.layout()) / Matrix(L): share the index arrays, own (uninitialised) value array.  M.layout() is a temporary
\* layout object: increase (temporary), increase (new matrix), release (temporary goes out of scope)
FromLayout(src, dst, f2) ==
  /\ src # dst /\ slot[src].live /\ ~slot[dst].live /\ slot[src].fam \in LayFams \cup {"lay"}
  /\ f2 \in LayFams \cap Fams
  /\ (slot[src].fam # "lay" => slot[src].fam = f2)
  /\ ~slot[src].shell                       \* a cleared / moved-from container has no dimensions: layout() is not defined
  /\ \E ty2 \in {t \in Tys : SameIT(t, slot[src].ty)} :
       LET ixs == IxOf(slot[src].parts[1])
           w1  == IF slot[src].fam = "lay" THEN IncrArr(W0, ixs) ELSE ReleaseArr(IncrArr(IncrArr(W0, ixs), ixs), ixs)
           r   == Alloc(w1, ElCount(f2, slot[src].shape), Undef)
           ns  == [slot EXCEPT ![dst] = Mk(f2, ty2, <<<<[k |-> "el", c |-> r.c, n |-> ElCount(f2, slot[src].shape), off |-> 0]>> \o ixs>>, 0, slot[src].shape)]
       IN Commit(r.w, ns, "fromlayout", [src |-> src, dst |-> dst, ty |-> ty2, fam |-> f2])

\* L = M.layout(), stored by move construction (fam "lay"; ty 1 = index type u64, 3 = u32)
TakeLayout(src, dst) ==
  /\ src # dst /\ slot[src].live /\ ~slot[dst].live /\ slot[src].fam \in LayFams /\ ~slot[src].shell
  /\ LET ixs == IxOf(slot[src].parts[1])
         ns == [slot EXCEPT ![dst] = Mk("lay", IF SameIT(slot[src].ty, 1) THEN 1 ELSE 3, <<ixs>>, 0, slot[src].shape)]
     IN Commit(IncrArr(W0, ixs), ns, "takelayout", [src |-> src, dst |-> dst])

\* M = L (operator=(const SparseLayout&)): drop everything M owns, share L's index arrays, own value array
AssignLayout(src, dst) ==
  /\ src # dst /\ slot[src].live /\ slot[src].fam = "lay" /\ ~slot[src].shell /\ slot[dst].live /\ slot[dst].fam \in LayFams
  /\ SameIT(slot[src].ty, slot[dst].ty) /\ SafeRelease(dst)
  /\ LET ixs == slot[src].parts[1]
         nel == ElCount(slot[dst].fam, slot[src].shape)
         w1  == IncrArr(ReleaseOwn(W0, dst), ixs)
         r   == Alloc(w1, nel, Undef)
         ns  == [slot EXCEPT ![dst] = Mk(slot[dst].fam, slot[dst].ty, <<<<[k |-> "el", c |-> r.c, n |-> nel, off |-> 0]>> \o ixs>>, 0, slot[src].shape)]
     IN Commit(r.w, ns, "assignlayout", [src |-> src, dst |-> dst])

\* L2 = std::move(L1): L2 drops its own references and takes over L1's; L1 is left empty
MoveLayout(src, dst) ==
  /\ src # dst /\ slot[src].live /\ slot[src].fam = "lay" /\ slot[dst].live /\ slot[dst].fam = "lay" /\ slot[src].ty = slot[dst].ty
  /\ LET w1 == ReleaseOwn(W0, dst)
         ns == [slot EXCEPT ![dst] = slot[src], ![src] = [slot[src] EXCEPT !.parts = <<<<>>>>, !.shell = TRUE]]   \* the moved-from layout has no dimensions any more
     IN Commit(w1, ns, "movelayout", [src |-> src, dst |-> dst])

(***********************************************************************************************)
(* SparseVector: appending an entry (operator()(index, value) with the next free index)         *)
(***********************************************************************************************)
\* capacity policy of the class: alloc_increment = min(size, 1000) = 4 for the vectors of length 4 used here.
\* The appended value is the content token of the value array, so contents stay one token per chunk.
SvInc == 4
Push(s) ==
  /\ slot[s].live /\ slot[s].fam = "sv" /\ ~slot[s].shell /\ slot[s].used < 4
  /\ LET ar == slot[s].parts[1]
         u  == slot[s].used IN
     IF ar = <<>>
     THEN \* no arrays yet: allocate value and index array of alloc_increment entries
          LET e == Alloc(W0, SvInc, 300 + Step)
              i == Alloc(e.w, SvInc, 7)
              ns == [slot EXCEPT ![s] = [slot[s] EXCEPT !.used = 1, !.parts = <<<<[k |-> "el", c |-> e.c, n |-> SvInc, off |-> 0], [k |-> "ix", c |-> i.c, n |-> SvInc, off |-> 0]>>>>]]
          IN Commit(i.w, ns, "push", [s |-> s, val |-> 300 + Step, br |-> "first"])
     ELSE IF u < ar[1].n
     THEN \* room left: the entry is written in place (into arrays that sharing relatives see as well)
          Commit(W0, [slot EXCEPT ![s].used = u + 1], "push", [s |-> s, val |-> IF TokOf(W0, ar[1]) = Undef THEN 0 ELSE TokOf(W0, ar[1]), br |-> "inplace"])
     ELSE \* full: allocate both arrays with alloc_increment more entries, copy, release the old ones (relatives keep them)
          LET n2 == ar[1].n + SvInc
              e == Alloc(W0, n2, TokOf(W0, ar[1]))
              i == Alloc(e.w, n2, 7)
              w3 == Release(Release(i.w, ar[1].c), ar[2].c)
              ns == [slot EXCEPT ![s] = [slot[s] EXCEPT !.used = u + 1, !.parts = <<<<[k |-> "el", c |-> e.c, n |-> n2, off |-> 0], [k |-> "ix", c |-> i.c, n |-> n2, off |-> 0]>>>>]]
          IN Commit(w3, ns, "push", [s |-> s, val |-> IF TokOf(W0, ar[1]) = Undef THEN 0 ELSE TokOf(W0, ar[1]), br |-> "realloc"])

(***********************************************************************************************)
(* clear / destroy / write                                                                      *)
(***********************************************************************************************)
Clear(s) ==
  /\ slot[s].live /\ SafeRelease(s) /\ slot[s].fam # "lay"
  /\ LET w1 == ReleaseOwn(W0, s)
         ns == [slot EXCEPT ![s] = [slot[s] EXCEPT !.parts = NoParts(slot[s].fam), !.foreign = FALSE, !.shell = TRUE, !.used = 0]]
     IN KeepsOwners(w1, ns) /\ Commit(w1, ns, "clear", [s |-> s])

Destroy(s) ==
  /\ slot[s].live /\ SafeRelease(s)
  /\ LET w1 == ReleaseOwn(W0, s)
         ns == [slot EXCEPT ![s] = Free]
     IN KeepsOwners(w1, ns) /\ Commit(w1, ns, "destroy", [s |-> s])

\* overwrite every value of the container (format(v)): visible in exactly the slots sharing a written chunk
ElChunks(s) == {Flat(slot[s].parts)[i].c : i \in {j \in 1..Len(Flat(slot[s].parts)) : Flat(slot[s].parts)[j].k = "el" /\ Flat(slot[s].parts)[j].c # 0}}
Poke(s) ==
  /\ slot[s].live /\ ~slot[s].foreign /\ slot[s].fam # "lay"      \* (format through a ranged view would write a part of the chunk)
  /\ ElChunks(s) # {}
  /\ LET w1 == [W0 EXCEPT !.pool = [c \in DOMAIN pool |-> IF c \in ElChunks(s) THEN [pool[c] EXCEPT !.tok = 200 + Step] ELSE pool[c]]]
     IN Commit(w1, slot, "poke", [s |-> s, tok |-> 200 + Step])

On(op) == "all" \in Ops \/ op \in Ops
VarOn(v) == "all" \in Vars \/ v \in Vars
Next ==
  /\ Len(hist) < Depth
  /\ \/ On("create") /\ \E s \in Slots, fam \in Fams : \E var \in Shapes(fam), ty \in Tys : VarOn(var) /\ Create(s, fam, var, ty)
     \/ On("clone") /\ \E s \in Slots, t \in Slots : \E m \in CModes : Clone(s, t, m)
     \/ On("convert") /\ \E s \in Slots, t \in Slots : Convert(s, t)
     \/ On("convertx") /\ \E s \in Slots, t \in Slots : \E f2 \in Fams : ConvertX(s, t, f2)
     \/ On("move") /\ \E s \in Slots, t \in Slots : Move(s, t)
     \/ On("range") /\ \E s \in Slots, t \in Slots : Range(s, t)
     \/ On("layout") /\ \E s \in Slots, t \in Slots : \/ \E f2 \in Fams : FromLayout(s, t, f2)
                                                      \/ TakeLayout(s, t) \/ AssignLayout(s, t) \/ MoveLayout(s, t)
     \/ On("push") /\ \E s \in Slots : Push(s)
     \/ On("clear") /\ \E s \in Slots : Clear(s)
     \/ On("destroy") /\ \E s \in Slots : Destroy(s)
     \/ On("poke") /\ \E s \in Slots : Poke(s)
Spec == Init /\ [][Next]_vars

(***********************************************************************************************)
(* properties                                                                                   *)
(***********************************************************************************************)
Arrs(s) == Flat(slot[s].parts)
OwnRefs(c) == Cardinality({<<s, i>> \in Slots \X (1..MaxArr) : slot[s].live /\ ~slot[s].foreign /\ i <= Len(Arrs(s)) /\ Arrs(s)[i].c = c})
RefCount == \A c \in DOMAIN pool : pool[c].refs = OwnRefs(c)
NoLeak == \A c \in DOMAIN pool : pool[c].refs >= 1 /\ OwnRefs(c) >= 1
NoDangling == \A s \in Slots : slot[s].live => \A i \in 1..Len(Arrs(s)) : Arrs(s)[i].c = 0 \/ Arrs(s)[i].c \in DOMAIN pool
EmptyAtEnd == (\A s \in Slots : ~slot[s].live) => DOMAIN pool = {}
NullNeverCounted == 0 \notin DOMAIN pool
TypeOK == \A s \in Slots : slot[s].live =>
            /\ slot[s].fam \in Fams \cup {"lay"} /\ slot[s].ty \in Types
            /\ Len(slot[s].parts) = NParts(slot[s].fam) /\ Len(Arrs(s)) <= MaxArr
            /\ \A i \in 1..Len(Arrs(s)) : /\ (Arrs(s)[i].c = 0) = (Arrs(s)[i].n = 0)                       \* the null chunk is exactly the array of size 0
                                          /\ (Arrs(s)[i].c # 0 /\ Arrs(s)[i].c \in DOMAIN pool => Arrs(s)[i].off + Arrs(s)[i].n <= pool[Arrs(s)[i].c].n)   \* a view never exceeds its chunk
            /\ (slot[s].fam = "sv" => slot[s].used <= 4 /\ (Arrs(s) = <<>> => slot[s].used = 0) /\ (Arrs(s) # <<>> => slot[s].used <= Arrs(s)[1].n))
            /\ (slot[s].foreign => slot[s].fam \in VecFams)
\* representation validity: a matrix that holds its full set of arrays holds them in the sizes its shape (the scalars) says
LayoutOK == \A s \in Slots : slot[s].live /\ slot[s].fam \in MatFams /\ ~slot[s].shell /\ Len(Arrs(s)) = Len(FamLayout(slot[s].fam, slot[s].shape)) =>
              \A i \in 1..Len(Arrs(s)) : <<Arrs(s)[i].k, Arrs(s)[i].n>> = FamLayout(slot[s].fam, slot[s].shape)[i]

\* ---- frame condition (action property) ----------------------------------------------------------
\* the slots an action names; everything else is a bystander
Named(a) == (IF "s" \in DOMAIN a THEN {a.s} ELSE {}) \cup (IF "src" \in DOMAIN a THEN {a.src} ELSE {}) \cup (IF "dst" \in DOMAIN a THEN {a.dst} ELSE {})
ChunksOf(sl, s) == {Flat(sl[s].parts)[i].c : i \in 1..Len(Flat(sl[s].parts))} \ {0}
FrameStep ==
  hist' # hist =>
    LET e == hist'[Len(hist')]
        nm == Named(e.args) IN
    \A t \in Slots \ nm :
       /\ slot'[t] = slot[t]                                                         \* a bystander is not touched ...
       /\ slot[t].live => \A c \in ChunksOf(slot, t) :
            /\ c \in DOMAIN pool'                                                    \* ... keeps its arrays alive ...
            /\ (pool'[c].tok # pool[c].tok => \E u \in nm : c \in ChunksOf(slot, u))  \* ... and sees new contents only through a chunk it shares
Frame == [][FrameStep]_vars
\* the source of clone / convert / conversion / range / layout sharing is a const argument: it keeps its arrays and their contents
ConstStep ==
  hist' # hist =>
    LET e == hist'[Len(hist')] IN
    e.op \in {"clone", "convert", "convertx", "range", "fromlayout", "takelayout", "assignlayout"} =>
      /\ slot'[e.args.src] = slot[e.args.src]
      /\ \A c \in ChunksOf(slot, e.args.src) : c \in DOMAIN pool' /\ pool'[c].tok = pool[c].tok
ConstSource == [][ConstStep]_vars

\* ---- Runtime::finalize at the end of the history --------------------------------------------------
\* MemoryPool::finalize reports a pool that still contains chunks (message, exit code 1); an empty pool passes.  By EmptyAtEnd
\* the pool is empty whenever no container is alive.
FinClass == IF DOMAIN pool = {} THEN "clean" ELSE "leak"

\* ---- emission: one behaviour per state at the depth bound -------------------------------------
Emit == (EmitOn /\ Len(hist) = Depth) => PrintT(ToJson([steps |-> hist, fin |-> FinClass]))
=============================================================================
