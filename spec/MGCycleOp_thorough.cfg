SPECIFICATION Spec
CONSTANTS Seed = 1 MaxLev = 8 CounterInits = "all"
INVARIANTS NoAbort PeakInRange CountersBinary Equivalent
CHECK_DEADLOCK TRUE
