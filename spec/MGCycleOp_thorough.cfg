SPECIFICATION Spec
CONSTANTS Seed = 1 MaxLev = 7 CounterInits = "all"
INVARIANTS NoAbort PeakInRange CountersBinary Equivalent
CHECK_DEADLOCK TRUE
