---------------------------- MODULE RefCellSanity ----------------------------
(* Sanity theorems about RefCell (model-checked once per run of C10) and emission of the local tables   *)
(* for the cross-check against kernel/geometry/intern/face_index_mapping.hpp (harness case "refcell").  *)
EXTENDS RefCell, TLC, Json, SequencesExt

Shapes == {<<"simplex", 2>>, <<"simplex", 3>>, <<"hypercube", 2>>, <<"hypercube", 3>>}
VARIABLE sh
Init == sh \in Shapes
Next == UNCHANGED sh
Spec == Init /\ [][Next]_sh

fam == sh[1]
dim == sh[2]

\* every e-face has the right number of distinct vertices, faces are pairwise distinct, every vertex is used
TablesWellFormed ==
  \A e \in 0..dim :
    LET T == FaceTable(fam, dim, e) IN
      /\ Len(T) = NFaces(fam, dim, e)
      /\ \A k \in 1..Len(T) : Len(T[k]) = NVerts(fam, e) /\ Cardinality(TRange(T[k])) = NVerts(fam, e)
                              /\ TRange(T[k]) \subseteq 0..(NVerts(fam, dim) - 1)
      /\ Cardinality({TRange(T[k]) : k \in 1..Len(T)}) = Len(T)
\* each face is itself a cell of its shape: the sub-faces of a face (through the face's own table) are faces of the cell
FacesNest ==
  \A e \in 1..dim : \A k \in 0..(NFaces(fam, dim, e) - 1) : \A e2 \in 0..(e - 1) : \A l \in 0..(NFaces(fam, e, e2) - 1) :
    LET ft == FaceVerts(fam, dim, e, k)
        sub == {ft[v + 1] : v \in TRange(FaceVerts(fam, e, e2, l))}
    IN \E m \in 0..(NFaces(fam, dim, e2) - 1) : TRange(FaceVerts(fam, dim, e2, m)) = sub
\* Euler characteristic of the closed cell is 1
RECURSIVE Alt(_)
Alt(e) == IF e < 0 THEN 0 ELSE (IF e % 2 = 0 THEN 1 ELSE -1) * NFaces(fam, dim, e) + Alt(e - 1)
CellEuler == Alt(dim) = 1
\* the open cell is replaced by open children: the alternating sum of the numbers of children is (-1)^d, for every
\* face dimension too (so the Euler characteristic of a mesh is invariant under refinement by construction of the table)
RECURSIVE AltCh(_, _)
AltCh(d, e) == IF e < 0 THEN 0 ELSE (IF e % 2 = 0 THEN 1 ELSE -1) * NumChildren(fam, d, e) + AltCh(d, e - 1)
ChildrenEuler == \A d \in 0..dim : AltCh(d, d) = (IF d % 2 = 0 THEN 1 ELSE -1)
\* symmetry groups: constructive = declarative (edge preserving permutations); orders 2^d d! / (d+1)!
SymOrder == IF fam = "hypercube" THEN (IF dim = 2 THEN 8 ELSE 48) ELSE (IF dim = 2 THEN 6 ELSE 24)
Symmetries ==
  /\ Cardinality(Aut(fam, dim)) = SymOrder
  /\ \A s \in Aut(fam, dim) : IsSym(fam, dim, s) /\ TRange(s) = 0..(NVerts(fam, dim) - 1)
  /\ (NVerts(fam, dim) <= 4 => Aut(fam, dim) = {p \in Perms(NVerts(fam, dim)) : IsSym(fam, dim, p)})
  /\ 2 * Cardinality(Rot(fam, dim)) = SymOrder /\ 2 * Cardinality(Refl(fam, dim)) = SymOrder
  /\ \A s, t \in Rot(fam, dim) : Compose(s, t) \in Rot(fam, dim)
\* every symmetry maps faces of every dimension onto faces (so re-numbering a cell by a symmetry gives a valid cell)
SymmetriesMapFaces ==
  \A s \in Aut(fam, dim), e \in 1..dim : \A k \in 0..(NFaces(fam, dim, e) - 1) :
    \E m \in 0..(NFaces(fam, dim, e) - 1) :
      SameEntity(fam, e, FaceVerts(fam, dim, e, m), Compose(s, [i \in 1..NVerts(fam, e) |-> FaceVerts(fam, dim, e, k)[i]]))
\* geometry: reference cell has volume 1 (hypercube) resp. 1/d! (simplex), positive at every corner; rotations keep
\* volume and orientation, the mirror image across any facet is negatively oriented (|volume| times d-1 for the simplex) and
\* shares exactly that facet
R == RefCoords(fam, dim)
RefGeometry ==
  /\ JacDet0(fam, dim, R) = 1
  /\ CellVolScaled(fam, dim, R) = (IF fam = "hypercube" THEN VolUnit(fam, dim) ELSE 1)
  /\ \A s \in Rot(fam, dim) : CellVolScaled(fam, dim, SymPoints(fam, dim, s)) = CellVolScaled(fam, dim, R)
  /\ \A s \in Refl(fam, dim) : CellVolScaled(fam, dim, SymPoints(fam, dim, s)) = -CellVolScaled(fam, dim, R)
  /\ fam = "hypercube" => \A c \in 0..(NVerts(fam, dim) - 1) : CubeJacDetAt(dim, R, c) = 1
  /\ fam = "hypercube" => \A t \in HalfLattice(dim) : CubeJacHalf(dim, R, t) = (IF dim = 2 THEN 4 ELSE 64)
  /\ fam = "hypercube" => \A s \in Aut(fam, dim) : \A t \in CornerLattice(dim) :
        LET c == (t[1] \div 2) + 2 * (t[2] \div 2) + (IF dim = 3 THEN 4 * (t[3] \div 2) ELSE 0) IN
        CubeJacHalf(dim, SymPoints(fam, dim, s), t) = (IF dim = 2 THEN 4 ELSE 64) * CubeJacDetAt(dim, SymPoints(fam, dim, s), c)
  /\ CellValid(fam, dim, R) /\ CellPositive(fam, dim, R)
  /\ \A f \in 0..(NFaces(fam, dim, dim - 1) - 1) :
       LET M == MirrorCell(fam, dim, R, f) IN
         /\ CellVolScaled(fam, dim, M) = -(IF fam = "simplex" THEN dim - 1 ELSE 1) * CellVolScaled(fam, dim, R)
         /\ {k \in 1..Len(R) : M[k] = R[k]} = {v + 1 : v \in TRange(FaceVerts(fam, dim, dim - 1, f))}
         /\ {M[k] : k \in 1..Len(R)} \cap {R[k] : k \in 1..Len(R)} = {R[v + 1] : v \in TRange(FaceVerts(fam, dim, dim - 1, f))}
\* a sheared, non-affine cell: the exact hexahedron/quadrilateral volume is additive (checked on a 2x subdivision
\* by MeshTopo on real refinements); here: translation invariance and scaling
ScaleLaw ==
  LET S2 == [k \in 1..Len(R) |-> Scal(2, R[k])] IN
    CellVolScaled(fam, dim, S2) = Pow2(dim) * CellVolScaled(fam, dim, R)

Emit == PrintT(ToJson([kind |-> "refcell", fam |-> fam, dim |-> dim,
                       tab |-> [e \in 1..dim |-> FaceTable(fam, dim, e)],
                       nchild |-> [e \in 1..(dim + 1) |-> NumChildren(fam, dim, e - 1)],
                       rot |-> SetToSeq(Rot(fam, dim)),
                       \* all orientation codes of an edge / a 2D face of this family (for mesh parts with their own topology)
                       aut |-> [e \in 1..2 |-> SetToSeq(Aut(fam, e))],
                       etab |-> FaceTable(fam, 2, 1)]))
=============================================================================
