------------------------------- MODULE Partition -------------------------------
(* C12: partitions of a mesh into patches and the halos between neighbouring patches, on top of MeshTopo.   *)
(*                                                                                                          *)
(* One level Lv of a case consists of                                                                       *)
(*   Lv.base      the base mesh (MeshTopo level); its first nranks mesh parts are the patch mesh parts        *)
(*                "p<r>" that RootMeshNode::extract_patch left in the base node:  Map(r,d) = target set of    *)
(*                dimension d = the map  patch-local d-entity -> base d-entity  of rank r; the remaining      *)
(*                parts are the ordinary mesh parts of the base node                                         *)
(*   Lv.patches[r+1] = [rank, mesh, comm, halos]: the extracted patch mesh (with the split mesh parts), the   *)
(*                communication neighbour ranks and one halo per neighbour (patch-local target sets)          *)
(* Entities are identified through the base mesh:  Ent(r,d) = the base d-entities in the closure of the cells *)
(* of rank r;  Neighbours(r,s) = r # s and they share a vertex;  Halo(r,s,d) = Ent(r,d) \cap Ent(s,d).         *)
(* Invariants (for every level, i.e. preserved by the joint refinement of base node and patch nodes):         *)
(*   Cover, Injective, PatchIsSubmesh, HaloAgree, NeighbourSymmetricComplete, SplitPartsOK.                   *)
(* The halo of r towards s and the halo of s towards r must list the shared entities in the SAME ORDER (their  *)
(* images in the base mesh are equal as sequences) - this is what makes the distributed vectors of both sides  *)
(* line up; which order it is, is not prescribed.                                                             *)
EXTENDS MeshTopo

NRanks(C) == C.nranks
Ranks(C) == 0..(C.nranks - 1)
PatchPart(Lv, r) == Lv.base.parts[r + 1]
Map(Lv, r, d) == PatchPart(Lv, r).t[d + 1]
MapSeq(Lv, r, d, seq) == [j \in 1..Len(seq) |-> Map(Lv, r, d)[seq[j] + 1]]
PatchOf(Lv, r) == Lv.patches[r + 1]

\* base d-entities in the closure of the cells of rank r (declarative: from the cells, through the base index sets)
RankCells(Lv, r, dim) == TRange(Map(Lv, r, dim))
EntOf(B, cells, dim, d) == IF d = dim THEN cells ELSE UNION {TRange(Idx(B, dim, d)[c + 1]) : c \in cells}
Ent(Lv, r, dim, d) == EntOf(Lv.base, RankCells(Lv, r, dim), dim, d)

\* ---- shape of the dump -------------------------------------------------------------------------------------------
ShapeOK(C, Lv) ==
  /\ Len(Lv.patches) = C.nranks /\ Len(Lv.base.parts) >= C.nranks
  /\ \A r \in Ranks(C) : PatchOf(Lv, r).rank = r /\ PartTargetsOK(Lv.base, PatchPart(Lv, r), C.dim)

\* ---- the invariants -------------------------------------------------------------------------------------------------
\* every base cell belongs to exactly one patch
RECURSIVE SumLen(_, _, _)
SumLen(Lv, dim, r) == IF r < 0 THEN 0 ELSE Len(Map(Lv, r, dim)) + SumLen(Lv, dim, r - 1)
Cover(C, Lv) ==
  /\ UNION {RankCells(Lv, r, C.dim) : r \in Ranks(C)} = 0..(N(Lv.base, C.dim) - 1)
  /\ SumLen(Lv, C.dim, C.nranks - 1) = N(Lv.base, C.dim)
  /\ \A r \in Ranks(C) : Len(Map(Lv, r, C.dim)) >= 1
\* the patch -> base maps are injective in every dimension
Injective(C, Lv) ==
  \A r \in Ranks(C) : \A d \in 0..C.dim : Cardinality(TRange(Map(Lv, r, d))) = Len(Map(Lv, r, d))
\* the patch mesh is the sub-mesh of the base mesh spanned by the cells of the rank: same entities, same local
\* numbering of every sub-entity, same coordinates
PatchIsSubmesh(C, Lv) ==
  \A r \in Ranks(C) :
    LET P == PatchOf(Lv, r).mesh  B == Lv.base  dim == C.dim IN
      /\ WellFormed(P, C.fam, dim)
      /\ \A d \in 0..dim : N(P, d) = Len(Map(Lv, r, d)) /\ TRange(Map(Lv, r, d)) = Ent(Lv, r, dim, d)
      /\ \A d \in 1..dim : \A e \in 0..(d - 1) : \A j \in 1..N(P, d) : \A k \in 1..NF(C.fam, d, e) :
           Map(Lv, r, e)[Idx(P, d, e)[j][k] + 1] = Idx(B, d, e)[Map(Lv, r, d)[j] + 1][k]
      /\ \A v \in 1..N(P, 0) : P.X[v] = B.X[Map(Lv, r, 0)[v] + 1]
\* neighbours: exactly the ranks that share a vertex (symmetric by definition; the code must find all of them)
Neighbours(C, Lv, r, s) == r # s /\ Ent(Lv, r, C.dim, 0) \cap Ent(Lv, s, C.dim, 0) # {}
NeighbourSymmetricComplete(C, Lv) ==
  \A r \in Ranks(C) : LET cm == PatchOf(Lv, r).comm IN
    /\ TRange(cm) = {s \in Ranks(C) : Neighbours(C, Lv, r, s)}
    /\ Cardinality(TRange(cm)) = Len(cm)
    /\ {h.rank : h \in TRange(PatchOf(Lv, r).halos)} = TRange(cm) /\ Len(PatchOf(Lv, r).halos) = Len(cm)
HaloOf(Lv, r, s) == CHOOSE h \in TRange(PatchOf(Lv, r).halos) : h.rank = s
\* both sides describe the shared entities Ent(r,d) \cap Ent(s,d), each once, in the same order
HaloAgree(C, Lv) ==
  \A r \in Ranks(C) : \A s \in Ranks(C) :
    (r < s /\ (\E h \in TRange(PatchOf(Lv, r).halos) : h.rank = s) /\ (\E h \in TRange(PatchOf(Lv, s).halos) : h.rank = r)) =>
      LET hr == HaloOf(Lv, r, s)  hs == HaloOf(Lv, s, r) IN
        \A d \in 0..C.dim :
          /\ \A j \in 1..Len(hr.t[d + 1]) : hr.t[d + 1][j] \in 0..(Len(Map(Lv, r, d)) - 1)
          /\ \A j \in 1..Len(hs.t[d + 1]) : hs.t[d + 1][j] \in 0..(Len(Map(Lv, s, d)) - 1)
          /\ MapSeq(Lv, r, d, hr.t[d + 1]) = MapSeq(Lv, s, d, hs.t[d + 1])
          /\ TRange(MapSeq(Lv, r, d, hr.t[d + 1])) = Ent(Lv, r, C.dim, d) \cap Ent(Lv, s, C.dim, d)
          /\ Cardinality(TRange(hr.t[d + 1])) = Len(hr.t[d + 1])
\* the ordinary mesh parts of the base node are split: the part of the patch holds exactly the entities of the base
\* part that lie in the patch (a patch part is absent iff that intersection is empty in every dimension)
SplitPartsOK(C, Lv) ==
  \A r \in Ranks(C) : \A q \in (C.nranks + 1)..Len(Lv.base.parts) :
    LET Q == Lv.base.parts[q]
        P == PatchOf(Lv, r).mesh
        cand == {j \in 1..Len(P.parts) : P.parts[j].name = Q.name}
        want(d) == TRange(Q.t[d + 1]) \cap Ent(Lv, r, C.dim, d)
    IN IF cand = {} THEN \A d \in 0..C.dim : want(d) = {}
       ELSE LET S == P.parts[CHOOSE j \in cand : TRUE] IN
            /\ Cardinality(cand) = 1
            /\ PartTargetsOK(P, S, C.dim)
            /\ \A d \in 0..C.dim : TRange(MapSeq(Lv, r, d, S.t[d + 1])) = want(d)
            /\ \A d \in 0..C.dim : (Cardinality(TRange(Q.t[d + 1])) = Len(Q.t[d + 1])) => Cardinality(TRange(S.t[d + 1])) = Len(S.t[d + 1])

\* ---- partitioners ----------------------------------------------------------------------------------------------------------
\* a partitioner reports failure, or returns exactly the requested number of non-empty patches that cover the cells of
\* the mesh (on the level it asked for) once
PartitionerOK(C) ==
  C.parti.success =>
    /\ C.nranks = C.parti.n
    /\ Len(C.assign) = C.nranks
    /\ \A r \in 1..C.nranks : Len(C.assign[r]) >= 1
    /\ C.parti.graph_cells = C.parti.ncells
    /\ UNION {TRange(C.assign[r]) : r \in 1..C.nranks} = 0..(C.parti.ncells - 1)
    /\ FoldSeq(LAMBDA x, acc : acc + Len(x), 0, C.assign) = C.parti.ncells
\* the documented success condition of the 2-level partitioner: p = n * f^k  (f = 2 for hypercubes, the number of children
\* of a cell for simplices)
RECURSIVE Reaches(_, _, _)
Reaches(n, f, p) == IF n = p THEN TRUE ELSE IF n > p THEN FALSE ELSE Reaches(n * f, f, p)
Parti2LvlDocumented(C) ==
  C.parti.kind = "2lvl" =>
    (C.parti.success <=> Reaches(C.parti.ncoarse, IF C.fam = "hypercube" THEN 2 ELSE NCh[C.fam][C.dim][C.dim], C.parti.n))

=============================================================================
