-------------------------- MODULE Trace_ThreadAsm --------------------------
(* Validation of an event log recorded from the real DomainAssembler threads *)
(* (harness/c17_threads.cpp, hooks H2/H3) against ThreadAsm: every logged     *)
(* event must be the next step of its thread in the specification, with its   *)
(* logged arguments; unlogged master steps (spawn, join, loop bookkeeping) are *)
(* silent.  All invariants of ThreadAsm (NoAdjacentScatter with the REAL mesh  *)
(* adjacency, CombineExclusive, EachCellOnce, ...) are evaluated at every step;*)
(* the static work distribution produced by compile() is checked against       *)
(* WorkDist (ConfigInv).  Acceptance: the whole log is consumed and all jobs   *)
(* have finished (INVARIANT NotAccepted is *violated* iff the trace is a       *)
(* behaviour of the specification).                                            *)
EXTENDS ThreadAsm, Json, IOUtils

WD == INSTANCE WorkDist

Log == ndJsonDeserialize(IOEnv.TRACE)
Cfg == Log[1]
NEv == Len(Log)

\* ---- constants of ThreadAsm, read from the configuration line -----------------------------
TrStrategy == IF Cfg.strategy = "colored" THEN "colored" ELSE "layered"
TrW == IF Cfg.W <= 1 THEN 0 ELSE Cfg.W            \* <= 1 resolved workers: assemble_master()
TrNFences == Cfg.nfences
TrScatter == Cfg.scatter
TrCombine == Cfg.combine
TrNumElems == Cfg.N
TrLayerElems == Cfg.le
TrThreadLayers == Cfg.tl
TrColorElems == Cfg.ce
TrAdj == {<<e[1], e[2]>> : e \in {Cfg.adj[k] : k \in 1..Len(Cfg.adj)}}
TrMayFail == 0..Cfg.W
TrJobs == Cfg.jobs

VARIABLE l       \* next log line to consume (line 1 is the configuration)
tvars == <<vars, l>>

Max2(a, b) == IF a < b THEN b ELSE a
ASSUME TLCSet(1, 1)
Track == TLCSet(1, Max2(TLCGet(1), l))          \* CONSTRAINT: remembers the longest matched prefix (diagnostics)

TraceInit == Init /\ l = 2

Ev == Log[l]
Is(name) == l <= NEv /\ Ev.ev = name

\* master events (t = 0)
TrClose ==
  /\ Is("close") /\ Ev.t = 0
  /\ \/ (MCloseAll /\ mi = Ev.a)
     \/ (MColClose1 /\ mi = Ev.a)
     \/ (MColClose2 /\ mi = Ev.a)
     \/ (MColCloseFront /\ Ev.a = 0)
     \/ (MColCloseBack /\ Ev.a = Back)
TrOpenMaster ==
  /\ Is("open") /\ Ev.t = 0
  /\ \/ ((MOpenFront \/ MColOpenFront \/ MRunOpenFront) /\ Ev.a = 0 /\ Ev.ok)
     \/ (MColOpenBack /\ Ev.a = Back /\ Ev.ok = mallok)
     \/ (MRunOpenBack /\ Ev.a = Back /\ Ev.ok)
     \/ (SFail /\ Ev.a = 0 /\ ~Ev.ok)
TrWaitMaster ==
  /\ Is("wait") /\ Ev.t = 0 /\ Ev.a = mi /\ Ev.ok = fokay[mi]
  /\ (MColWait1 \/ MColWait2)
\* the job run by the master thread itself (assemble_master)
TrMasterJob ==
  /\ l <= NEv /\ Ev.t = 0
  /\ \/ (Is("prep") /\ SPrepare /\ Ev.a = mi)
     \/ (Is("asm") /\ SAssemble /\ Ev.a = mi)
     \/ (Is("fin") /\ SFinish /\ Ev.a = mi)
     \/ (Is("sb") /\ SScatterBegin /\ Ev.a = mi)
     \/ (Is("se") /\ SScatterEnd /\ Ev.a = mi)
     \/ (Is("cb") /\ SCombineBegin)
     \/ (Is("ce") /\ SCombineEnd)
     \/ (Is("throw") /\ SThrow)
     \* Worker::operator() entered / left on the master thread: no shared state is touched
     \/ (Is("wbegin") /\ W = 0 /\ mpc \notin {"start", "closeall", "m_openfront", "m_openback"} /\ UNCHANGED vars)
     \/ (Is("wend") /\ W = 0 /\ mpc = "endjob" /\ Ev.ok = (0 \notin failed) /\ UNCHANGED vars)

\* worker events (t = my_id)
TrWorker ==
  /\ l <= NEv /\ Ev.t \in Workers
  /\ LET w == Ev.t IN
     \/ (Is("wbegin") /\ WBegin(w))
     \/ (Is("wend") /\ WEnd(w) /\ Ev.ok = (w \notin failed))
     \/ (Is("prep") /\ ((WPrepare(w) /\ Ev.a = we[w]) \/ (WColPrepare(w) /\ Ev.a = Pos(w))))
     \/ (Is("asm") /\ (WAssemble(w) \/ WColAssemble(w)) /\ Ev.a = Pos(w))
     \/ (Is("fin") /\ (WFinish(w) \/ WColFinish(w)) /\ Ev.a = Pos(w))
     \/ (Is("sb") /\ WScatterBegin(w) /\ Ev.a = Pos(w))
     \/ (Is("se") /\ (WScatterEnd(w) \/ WColScatterEnd(w)) /\ Ev.a = Pos(w))
     \/ (Is("cb") /\ WLock(w))
     \/ (Is("ce") /\ WUnlock(w))
     \/ (Is("throw") /\ WThrow(w))
     \/ (Is("open") /\ Ev.a = w /\ ((Ev.ok /\ (WOpenPrev(w) \/ WColOpen1(w) \/ WColOpen2(w))) \/ (~Ev.ok /\ WFail(w))))
     \/ (Is("wait") /\ Ev.ok = fokay[Ev.a] /\
           (((WWaitFront(w) \/ WColWaitFront(w)) /\ Ev.a = 0) \/ (WWaitNext(w) /\ Ev.a = w + 1) \/ (WColWaitBack(w) /\ Ev.a = Back)))

Consume == (TrClose \/ TrOpenMaster \/ TrWaitMaster \/ TrMasterJob \/ TrWorker) /\ l' = l + 1
Silent == (MStart \/ MSpawn \/ MJoin \/ MEndJob \/ MColCheck) /\ UNCHANGED l

TraceNext == Consume \/ Silent
TraceSpec == TraceInit /\ [][TraceNext]_tvars

NotAccepted == ~(l = NEv + 1 /\ Finished)

(***************************************************************************)
(* the static work distribution compile() produced, against WorkDist       *)
(***************************************************************************)
Selected == {Cfg.selected[k] : k \in 1..Len(Cfg.selected)}
ExpectedStrategy ==
  IF Cfg.req_strategy = "automatic" THEN (IF Cfg.maxw <= 1 THEN "single" ELSE "layered")
  ELSE IF Cfg.req_strategy = "layered_sorted" THEN "layered" ELSE Cfg.req_strategy
ExpectedW ==
  IF Cfg.maxw = 0 \/ Cfg.N = 0 \/ ExpectedStrategy = "single" THEN 0
  ELSE IF ExpectedStrategy = "colored" THEN WD!Min2(Cfg.maxw, WD!MaxColorSize(Cfg.ce))
  ELSE IF WD!BuildThreadLayers(Cfg.le, Cfg.maxw) = <<>> THEN 0 ELSE WD!LayeredWorkers(Cfg.le, Cfg.maxw)
ConfigInv == l = 2 =>
  /\ Cfg.strategy = ExpectedStrategy
  /\ WD!IsPermutationOf(Cfg.elems, Selected)                        \* every selected cell exactly once in the work list
  \* a coloured distribution of a non-empty selection has at least one colour (offset table with >= 2 entries)
  /\ (ExpectedStrategy = "colored" /\ Cfg.maxw > 0 /\ Cfg.N > 0 => Len(Cfg.ce) >= 2)
  /\ Cfg.W = ExpectedW
  /\ (Cfg.N > 0 => Cfg.nfences = Cfg.W + 2)
  /\ (ExpectedStrategy = "layered" /\ Cfg.maxw > 0 /\ Cfg.N > 0 =>
        /\ WD!OffsetsOK(Cfg.le, Cfg.N)
        /\ \A k \in 1..(Len(Cfg.le) - 1) : Cfg.le[k] < Cfg.le[k + 1]     \* no empty layer
        /\ WD!LayerLocality(Cfg.le, TrAdj)
        /\ Cfg.tl = WD!BuildThreadLayers(Cfg.le, Cfg.maxw)
        /\ WD!ThreadLayersOK(Cfg.tl, Cfg.le))
  /\ (ExpectedStrategy = "colored" /\ Cfg.maxw > 0 /\ Cfg.N > 0 =>
        /\ WD!OffsetsOK(Cfg.ce, Cfg.N)
        /\ WD!ColorsProper(Cfg.ce, TrAdj))
=============================================================================
