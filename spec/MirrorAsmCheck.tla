---------------------------- MODULE MirrorAsmCheck ----------------------------
(* Trace validation for the mirror-assembly route of C13: every line of the ndjson file named by C13_MIRROR is one configuration  *)
(* of Control::Domain::PartiDomainControl run on C.nr MPI processes by harness/c13_mirrorasm.cpp; the line holds the dumps of ALL  *)
(* ranks (meshes, halos, patch parts, virtual levels, the mirrors assembled by asm_gate / asm_muxer / asm_splitter per finite     *)
(* element family and the results of the real collective operations).  One TLC state per case; Emit evaluates the predicates of    *)
(* MirrorAsm.tla for every family, every gate level, every layer junction and every base level and prints the verdict.            *)
EXTENDS MirrorAsm, Json, IOUtils

Cases == ndJsonDeserialize(IOEnv.C13_MIRROR)
VARIABLE ci
Init == ci \in 1..Len(Cases)
Next == UNCHANGED ci
Spec == Init /\ [][Next]_ci

Pre(pred) == {[p |-> pred, w |-> -1, vi |-> -1, el |-> ""]}
Verdict(C) ==
  IF ~LayerShapeOK(C) THEN Pre("LayerShapeOK")
  ELSE IF ~LevelsOK(C) THEN Pre("LevelsOK")
  ELSE IF ~MeshesWellFormed(C) THEN Pre("MeshesWellFormed")
  ELSE IF ~FamiliesOK(C) THEN Pre("FamiliesOK")
  ELSE IF ~VirtOK(C) THEN Pre("VirtOK")
  ELSE IF ~TuplesOK(C) THEN Pre("TuplesOK")
  ELSE UNION {TupFails(C, t) : t \in 1..Len(C.tuples)} \cup UNION {
         UNION {GateFails(C, g[1], g[2], e) : g \in GatePairs(C)}
         \cup UNION {MuxFails(C, lp, e) : lp \in 1..(NLayers(C) - 1)}
         \cup UNION {SplFails(C, lv, e) : lv \in BaseLevels(C)}
       : e \in 1..Len(C.els)}

\* coverage information: mirrors judged, mirrors that hold dofs of more than one dimension (where the order of the dimensions matters),
\* child / patch mirrors, values compared
MultiDim(C, M, sig, mir) ==
  Cardinality({d \in 0..C.dim : \E k \in 1..Len(mir) : DofOffset(M, sig, d) <= mir[k] /\ mir[k] < DofOffset(M, sig, d + 1)}) >= 2
Info(C) ==
  IF ~(LayerShapeOK(C) /\ LevelsOK(C) /\ MeshesWellFormed(C) /\ FamiliesOK(C) /\ VirtOK(C))
  THEN [gate |-> 0, gate_multidim |-> 0, child |-> 0, child_multidim |-> 0, patch |-> 0, values |-> 0, layers |-> 0, tuples |-> 0]
  ELSE
    LET recs == {<<w, e, i>> : w \in 0..(C.nr - 1), e \in 1..Len(C.els), i \in 1..Max({Len(RV(C, u)) : u \in 0..(C.nr - 1)})}
        ok(t) == t[3] <= Len(RV(C, t[1]))
        X(t) == EV(C, t[1], t[2])[t[3]]
        V(t) == RV(C, t[1])[t[3]]
        sg(t) == Sig(C.els[t[2]], C.fam, C.dim)
        gm == {<<t, j>> \in {r \in recs : ok(r) /\ Has(X(r), "gate")} \X (1..C.nr) : j <= Len(X(t).gate.mir)}
        cm == {<<t, j>> \in {r \in recs : ok(r) /\ Has(X(r), "mux")} \X (1..C.nr) : j <= Len(X(t).mux.cm)}
        pm == {<<t, j>> \in {r \in recs : ok(r) /\ Has(X(r), "spl")} \X (1..C.nr) : j <= Len(X(t).spl.cm)}
        nvals(t) == (IF Has(X(t), "sync0") THEN Len(X(t).sync0) ELSE 0) + (IF Has(X(t), "join") THEN Len(X(t).join) ELSE 0)
                    + (IF Has(X(t), "split") THEN Len(X(t).split) ELSE 0) + (IF Has(X(t), "ssplit") THEN Len(X(t).ssplit) ELSE 0)
                    + (IF Has(X(t), "sjoin") THEN Len(X(t).sjoin) ELSE 0)
    IN [gate |-> Cardinality(gm),
        gate_multidim |-> Cardinality({p \in gm : MultiDim(C, MeshOf(C, V(p[1]).layer, p[1][1], V(p[1]).lvl), sg(p[1]), X(p[1]).gate.mir[p[2]])}),
        child |-> Cardinality(cm),
        child_multidim |-> Cardinality({p \in cm : MultiDim(C, MeshOf(C, V(p[1]).layer, p[1][1], V(p[1]).lvl), sg(p[1]), X(p[1]).mux.cm[p[2]])}),
        patch |-> Cardinality(pm),
        values |-> FoldSet(LAMBDA t, acc : acc + nvals(t), 0, {r \in recs : ok(r)}),
        layers |-> NLayers(C), tuples |-> Len(C.tuples)]

Emit == LET C == Cases[ci] IN PrintT(ToJson([id |-> C.id, fails |-> SetToSeq(Verdict(C)), info |-> Info(C)]))
=============================================================================
