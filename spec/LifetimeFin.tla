----------------------------- MODULE LifetimeFin -----------------------------
(* C20, finalisation clause for a parallel job: "when all containers are gone the memory pool is   *)
(* empty so that the runtime can shut down cleanly" - on EVERY process of the job.                  *)
(*                                                                                                  *)
(* Every process (rank) of an MPI job owns a private MemoryPool.  Each rank executes its own         *)
(* lifetime script (rank dependent code: halo buffers, mirrors, ... differ from rank to rank), so    *)
(* what is left in the pool at shutdown differs from rank to rank.  Runtime::finalize() calls        *)
(* MemoryPool::finalize() on every rank; a rank whose pool still holds a chunk reports it            *)
(* ("MemoryPool still contains memory chunks") and ends with exit status 1, which makes the JOB      *)
(* end with a non-zero status; the job is clean iff the pool of every rank is empty.                 *)
(*                                                                                                  *)
(* The state is the product of the rank states; an action is one lifetime call on one rank, written  *)
(* as the MemoryPool calls it performs (same Alloc / Incr / Release as spec/LifetimeX.tla).  Every    *)
(* reachable state is a complete case (each rank has run its script so far and shuts down now): TLC   *)
(* prints it with the predicted report of each rank and the predicted class of the job;              *)
(* harness/c20_mpifin.cpp runs it as one mpirun job (lib/c20b.py chooses which cases pay for a job). *)
EXTENDS Integers, Sequences, FiniteSets, Json, TLC

CONSTANTS NR,        \* number of ranks
          MaxOps,    \* longest script of a rank
          OpsOn,     \* the operations explored
          EmitOn

VARIABLES held,      \* rank -> sequence of containers; a container is a sequence of arrays [k, c]
          pool,      \* rank -> (chunk id -> reference counter)   (live chunks only)
          next,      \* rank -> next fresh chunk id
          ops        \* rank -> the script executed so far

vars == <<held, pool, next, ops>>
Ranks == 1..NR
AllOps == {"createv", "createm", "share", "weak", "drop", "dropfirst"}

(***********************************************************************************************)
(* MemoryPool of one rank: w = [pool, next]                                                      *)
(***********************************************************************************************)
Alloc(w) == [w |-> [pool |-> (w.next :> 1) @@ w.pool, next |-> w.next + 1], c |-> w.next]   \* allocate_memory: counter 1
Incr(w, c) == [w EXCEPT !.pool[c] = @ + 1]                                                    \* increase_memory
Release(w, c) == IF w.pool[c] = 1 THEN [w EXCEPT !.pool = [d \in (DOMAIN w.pool) \ {c} |-> w.pool[d]]]   \* release_memory: frees at counter 1
                 ELSE [w EXCEPT !.pool[c] = @ - 1]
RECURSIVE ReleaseArr(_, _)
ReleaseArr(w, arr) == IF arr = <<>> THEN w ELSE ReleaseArr(Release(w, Head(arr).c), Tail(arr))
\* clone(mode) of a container: Shallow shares every array, Weak shares the index arrays and copies the values
RECURSIVE CloneArr(_, _, _, _)
CloneArr(w, arr, mode, acc) ==
  IF arr = <<>> THEN [w |-> w, arr |-> acc]
  ELSE LET a == Head(arr) IN
       IF mode = "share" \/ a.k = "ix" THEN CloneArr(Incr(w, a.c), Tail(arr), mode, Append(acc, a))
       ELSE LET r == Alloc(w) IN CloneArr(r.w, Tail(arr), mode, Append(acc, [k |-> a.k, c |-> r.c]))
RECURSIVE AllocKinds(_, _, _)
AllocKinds(w, kinds, acc) ==
  IF kinds = <<>> THEN [w |-> w, arr |-> acc]
  ELSE LET r == Alloc(w) IN AllocKinds(r.w, Tail(kinds), Append(acc, [k |-> Head(kinds), c |-> r.c]))

Last(s) == s[Len(s)]
Front(s) == SubSeq(s, 1, Len(s) - 1)

\* one lifetime call on rank r
Do(r, op) ==
  LET w0 == [pool |-> pool[r], next |-> next[r]]
      h  == held[r] IN
  /\ Len(ops[r]) < MaxOps /\ op \in OpsOn
  /\ \E res \in
       (CASE op = "createv"   -> {LET a == AllocKinds(w0, <<"el">>, <<>>) IN [w |-> a.w, h |-> Append(h, a.arr)]}             \* DenseVector(4, v)
          [] op = "createm"   -> {LET a == AllocKinds(w0, <<"el", "ix", "ix">>, <<>>) IN [w |-> a.w, h |-> Append(h, a.arr)]}  \* SparseMatrixCSR: val, col_ind, row_ptr
          [] op \in {"share", "weak"} -> IF h = <<>> THEN {} ELSE {LET a == CloneArr(w0, Last(h), op, <<>>) IN [w |-> a.w, h |-> Append(h, a.arr)]}
          [] op = "drop"      -> IF h = <<>> THEN {} ELSE {[w |-> ReleaseArr(w0, Last(h)), h |-> Front(h)]}
          [] op = "dropfirst" -> IF Len(h) < 2 THEN {} ELSE {[w |-> ReleaseArr(w0, Head(h)), h |-> Tail(h)]}) :
       /\ held' = [held EXCEPT ![r] = res.h]
       /\ pool' = [pool EXCEPT ![r] = res.w.pool]
       /\ next' = [next EXCEPT ![r] = res.w.next]
       /\ ops'  = [ops EXCEPT ![r] = Append(@, op)]

Init == /\ held = [r \in Ranks |-> <<>>] /\ pool = [r \in Ranks |-> <<>>] /\ next = [r \in Ranks |-> 1] /\ ops = [r \in Ranks |-> <<>>]
Next == \E r \in Ranks, op \in AllOps : Do(r, op)
Spec == Init /\ [][Next]_vars

(***********************************************************************************************)
(* shutdown: what each rank reports and how the job ends                                         *)
(***********************************************************************************************)
RankFin(r) == IF DOMAIN pool[r] = {} THEN "clean" ELSE "leak"          \* MemoryPool::finalize on rank r
Job == IF \A r \in Ranks : RankFin(r) = "clean" THEN "clean" ELSE "leak"   \* exit status of the job: 0 iff clean
RankReport(r) ==
  [ops |-> ops[r], chunks |-> Cardinality(DOMAIN pool[r]), fin |-> RankFin(r),
   held |-> [i \in 1..Len(held[r]) |-> [j \in 1..Len(held[r][i]) |-> pool[r][held[r][i][j].c]]]]

(***********************************************************************************************)
(* invariants                                                                                    *)
(***********************************************************************************************)
Owners(r, c) == Cardinality({<<i, j>> \in (1..MaxOps) \X (1..3) : i <= Len(held[r]) /\ j <= Len(held[r][i]) /\ held[r][i][j].c = c})
RefCount   == \A r \in Ranks : \A c \in DOMAIN pool[r] : pool[r][c] = Owners(r, c)
NoLeak     == \A r \in Ranks : \A c \in DOMAIN pool[r] : Owners(r, c) >= 1
NoDangling == \A r \in Ranks : \A i \in 1..Len(held[r]) : \A j \in 1..Len(held[r][i]) : held[r][i][j].c \in DOMAIN pool[r]
\* the clause itself: a rank passes MemoryPool::finalize exactly when it holds no container any more, and the job is clean
\* exactly when that is so on every rank
FinLaw == /\ \A r \in Ranks : (RankFin(r) = "clean") <=> (held[r] = <<>>)
          /\ (Job = "clean") <=> (\A r \in Ranks : held[r] = <<>>)

Emit == EmitOn => PrintT(ToJson([nr |-> NR, ranks |-> [r \in Ranks |-> RankReport(r)], job |-> Job,
                                 leaking |-> [r \in Ranks |-> RankFin(r) = "leak"]]))
=============================================================================
