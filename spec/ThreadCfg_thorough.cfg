INIT Init
NEXT Next
CONSTANT Tier = 2
INVARIANT Emit
