---------------------------- MODULE ElementCheck ----------------------------
(* C15, direction V: every line of the ndjson file named by the environment variable C15_BATCH is one case = what    *)
(* harness/c15_element.cpp observed for one (mesh, element family): the mesh, the cell-wise dof mapping G, the         *)
(* entity-wise dof assignment A, the cell volumes obtained from the transformation's Jacobian determinant, and the    *)
(* counters of the floating point projections (Reproduce, DerivConsistent, Continuous, InverseMapping).  One TLC      *)
(* state per case; Emit prints the list of properties of RefElement / DofMap that do NOT hold.                        *)
EXTENDS DofMap, Json, IOUtils

Cases == ndJsonDeserialize(IOEnv.C15_BATCH)

VARIABLE ci
Init == ci \in 1..Len(Cases)
Next == UNCHANGED ci
Spec == Init /\ [][Next]_ci

Fail(cond, pred) == IF cond THEN {} ELSE {pred}

Verdict(C) ==
  LET fam == C.fam  dim == C.dim  el == C.el  M == C.levels[1] IN
  IF ~WellFormed(M, fam, dim) THEN {"Precond:WellFormed"}
  ELSE IF ~(SubEntityConsistent(M, fam, dim) /\ Unique(M, dim)) THEN {"Precond:MeshConsistent"}
  ELSE IF ~Supported(el, fam, dim) THEN {"MACHINERY:Unsupported"}
  ELSE
    LET sig == Sig(el, fam, dim)
        Gs == DofTable(M, sig, fam, dim)
        ngs == NumGlobalDofs(M, sig, dim)
        shape == MapShapeOK(C.G, M, sig, fam, dim) /\ AssignShapeOK(C.A, M, sig, dim)
        mons == LocalMonomials(el, fam, dim)
        nmono == Cardinality(mons.total) + (IF C.axpar THEN Cardinality(mons.tensor) ELSE 0)
        conf == Conformity(el)
        h1 == conf \in {"H1", "C1"}
    IN UNION {
         Fail(C.ng = ngs, "NumDofs"),
         Fail(shape, "LocalDofCount"),
         IF shape THEN UNION {
           Fail(C.G = Gs, "MapMatches"),
           Fail(MapSurjective(C.G, C.ng), "MapSurjective"),
           Fail(C.A = AssignSpec(M, sig, dim), "AssignMatches"),
           Fail(OneIndexPerFunctional(C.G, C.A, M, sig, fam, dim), "OneIndexPerFunctional") } ELSE {},
         \* projections
         Fail(C.nodefunc => (C.nmono = nmono /\ C.rep.n > 0 /\ C.rep.bad = 0), "Reproduce"),
         \* the vector-field overload of the interpolation, each field interpolated into the vector that holds the previous result
         Fail((C.nodefunc /\ C.vecfield) => (C.vrep.n > 0 /\ C.vrep.bad = 0), "ReproduceVectorField"),
         \* judged on the reproduced polynomials only: where Reproduce fails the derivatives of a different function are compared
         Fail((C.nodefunc /\ C.rep.bad = 0) => (C.dgrad.bad = 0 /\ C.dhess.bad = 0 /\ (C.hasgrad => C.dgrad.n > 0) /\ (C.hashess => C.dhess.n > 0)), "DerivConsistent"),
         \* what an evaluator returns for one tag (value, gradient, Hessian) does not depend on which other tags are requested, so
         \* DerivConsistent - decided on the evaluation with all tags - holds for every configuration an assembler may request
         Fail(C.cfg.n > 0 /\ C.cfg.bad = 0, "ConfigIndependent"),
         Fail((h1 /\ C.nintfacets > 0) => (C.jump.n > 0 /\ C.jump.bad = 0), "Continuous"),
         Fail((conf = "C1" /\ (el = "argyris" \/ C.axpar)) => C.gjump.bad = 0, "GradContinuous"),
         Fail((conf = "NC" /\ C.nintfacets > C.nonplanar) => (C.mjump.n > 0 /\ C.mjump.bad = 0), "FacetMeanContinuous"),
         Fail(C.inv.n > 0 /\ C.inv.bad = 0 /\ C.inv_notfound = 0, "InverseMapping"),
         IF C.geo THEN Fail(~C.volnoise /\ Len(C.vol) = N(M, dim) /\ \A c \in 1..N(M, dim) : C.vol[c] = CellVolScaled(fam, dim, Pts(M, dim, c)), "TrafoVolume")
                       \cup Fail(C.volfn.n > 0 /\ C.volfn.bad = 0, "TrafoVolumeFunction")      \* Evaluator::volume() is that integral too
         ELSE {} }

Emit == LET C == Cases[ci] IN PrintT(ToJson([id |-> C.id, fails |-> SetToSeq(Verdict(C))]))
=============================================================================
