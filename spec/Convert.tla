------------------------------ MODULE Convert ------------------------------
(* C02: conversion, cloning, transposition, permutation and rebuilding from *)
(* a layout / graph preserve the matrix.                                    *)
(*                                                                          *)
(* State: a small world of container slots over a table of memory chunks.   *)
(*   slots[s]  = Free  or  [fmt, ty, m, n, bh, bw, ue, el, ix]              *)
(*               fmt in csr|cscr|bcsr|banded|dense, ty = data/index type,   *)
(*               m x n = rows() x columns() (block counts for bcsr),        *)
(*               ue = used_elements(), el / ix = the chunk ids behind the   *)
(*               container's _elements / _indices arrays (container order)  *)
(*   mem[c]    = [d, def]  contents of chunk c; def = FALSE: allocated but  *)
(*               never written (Layout / Allocate clones, layout ctor)      *)
(* Two slots alias an array iff they hold the same chunk id.  The matrix a  *)
(* slot represents is SAbs(mem, slot) = Storage!Abs* of the chunk contents. *)
(*                                                                          *)
(* Actions = public calls (one per step of a history):                      *)
(*   Conv(src,dst,fmt,ty)   dst.convert(src)         every format pair that *)
(*                          has a convert(); same format = type conversion  *)
(*   Clone(src,dst,mode,ty) dst.clone(src, mode)                            *)
(*   Transp(src,dst)        dst = src.transpose()    csr, bcsr, dense       *)
(*   TranspInto(src,dst)    dst.transpose(src)       csr, bcsr, dense (dst = src allowed) *)
(*   TranspInplace(s)       s.transpose_inplace()    dense                  *)
(*   Permute(s,p,q)         s.permute(p,q) in place  csr, bcsr              *)
(*   Layout(src,dst,ty)     dst = MT(src.layout())                          *)
(*   Graph(src,dst,fmt,ty)  dst = MT(graph of src's pattern)                *)
(*   Copy(src,dst,full)     dst.copy(src, full)                             *)
(*   Format(s,v)            s.format(v)                                     *)
(*   Poke(s,k,v)            s.val()[k] = v   (the probe that makes value    *)
(*                          aliasing observable)                            *)
(* Building / rebuilding routes (every public constructor / factory that is *)
(* not a file or byte-stream reader, those are C05):                        *)
(*   Mirror(src,dst,R)      dst = SparseMatrixCSCR(csr src, VectorMirror R) *)
(*                          row selection: every non-empty ascending row    *)
(*                          list R, incl. rows that are empty in src        *)
(*   Conv(..., ctor)        dst = MT(src): the converting constructors of   *)
(*                          csr / cscr / banded (op "convctor" enables it)  *)
(*   Alloc(src,dst,ty,v)    dst = MT(rows, columns, used_elements[, used_   *)
(*                          rows]) of csr / bcsr / cscr, DenseMatrix(m,n),  *)
(*                          DenseMatrix(m,n,v): allocated, contents unspeci-*)
(*                          fied (then typically filled by copy(src, true)) *)
(*   Factory(src,dst,ty,o)  dst = SparseMatrixFactory(m,n).add(i,j,v) for   *)
(*                          every stored entry of src in order o; make_csr()*)
(*   ConvRev(src,dst)       src.convert_reverse(dst): the values of the csr *)
(*                          matrix src written back into a csr / bcsr       *)
(*                          matrix with the same (scalar) pattern           *)
(* Each action is written from the documentation / contract of the call:    *)
(* the post-state arrays are the canonical arrays (Storage!CSROf, ...) of   *)
(* the matrix that the property demands (same matrix, transposed matrix,    *)
(* permuted matrix), the sharing of chunks is the CloneMode table of        *)
(* lafem/base.hpp and the assign() rule (same data type => shared values,   *)
(* same index type => shared index arrays).                                 *)
(*                                                                          *)
(* The history variable `hist` carries, per step, the call and the          *)
(* predicted projection of every slot that changed; Emit prints complete    *)
(* histories, which harness/c02_convert.cpp replays on the real containers. *)
EXTENDS Storage, Json, TLC

CONSTANTS NS,        \* number of slots
          Depth,     \* number of calls per emitted history
          Seeds,     \* set of seed family names (see SeedFam)
          SeedTypes, \* types the seed container is built with
          Ops,       \* enabled calls: subset of {"conv","clone","transp","transpinto","tinplace","permute","layout","graph","copy","format","poke",
                     \*                           "mirror","convctor","alloc","factory","convrev","permctor"}
          Types,     \* target types offered to conv/clone/layout/graph (the source type is always offered)
          PermSel,   \* "all" = every pair of permutations, "few" = rotations/reversal and their inverses
          Palette    \* 1 = injective non-zero values, 2 = values with stored zeros and repeats

VARIABLES slots, mem, hist
vars == <<slots, mem, hist>>

Free == [fmt |-> "free"]
DTof(ty) == CASE ty = "f64u64" -> "f64" [] ty = "f64u32" -> "f64" [] ty = "f32u32" -> "f32"
ITof(ty) == CASE ty = "f64u64" -> "u64" [] ty = "f64u32" -> "u32" [] ty = "f32u32" -> "u32"

\* ---- values ----------------------------------------------------------------
Val1(i, j) == LET k == (i - 1) * 7 + j IN IF k % 2 = 0 THEN k + 1 ELSE -(k + 2)
Val2(i, j) == ((i * 3 + j * 5) % 5) - 2
Val(i, j) == IF Palette = 1 THEN Val1(i, j) ELSE Val2(i, j)
DenseVals(m, n) == [i \in 1..m |-> [j \in 1..n |-> Val(i, j)]]
PadVal == 99       \* content of the out-of-matrix padding of banded seeds

\* ---- array and container descriptors ---------------------------------------
New(d)   == [ref |-> 0, d |-> d, def |-> TRUE]            \* fresh array with contents d
Undef(l) == [ref |-> 0, d |-> Zeros(l), def |-> FALSE]    \* fresh array of length l, contents unspecified
Ref(c)   == [ref |-> c, d |-> <<>>, def |-> TRUE]         \* the existing chunk c (shared)

Desc(fmt, ty, m, n, bh, bw, ue, el, ix) ==
  [fmt |-> fmt, ty |-> ty, m |-> m, n |-> n, bh |-> bh, bw |-> bw, ue |-> ue, el |-> el, ix |-> ix]
\* a container without any array (dimension-only constructor): the m x n zero matrix
DNone(fmt, ty, m, n, bh, bw) == Desc(fmt, ty, m, n, bh, bw, 0, <<>>, <<>>)
DCSR(ty, m, n, rep)   == Desc("csr", ty, m, n, 1, 1, Len(rep.ci), <<New(rep.va)>>, <<New(rep.ci), New(rep.rp)>>)
DCSCR(ty, m, n, rep)  == Desc("cscr", ty, m, n, 1, 1, Len(rep.ci), <<New(rep.va)>>, <<New(rep.ci), New(rep.rp), New(rep.rn)>>)
DBand(ty, m, n, rep)  == Desc("banded", ty, m, n, 1, 1, Cardinality(BandPattern(m, n, {rep.offs[k] : k \in 1..Len(rep.offs)})),
                              <<New(rep.va)>>, <<New(rep.offs)>>)
DDense(ty, m, n, D)   == Desc("dense", ty, m, n, 1, 1, m * n, <<New(Flatten(D))>>, <<>>)
\* BCSR with the value blocks flattened row-major, as the container stores them
FlatBlocks(va) == Flatten([k \in 1..Len(va) |-> Flatten(va[k])])
DBCSR(ty, mb, nb, bh, bw, rep) == Desc("bcsr", ty, mb, nb, bh, bw, Len(rep.ci), <<New(FlatBlocks(rep.va))>>, <<New(rep.ci), New(rep.rp)>>)

\* ---- reading a slot ---------------------------------------------------------
SM(s) == s.m * s.bh     \* scalar dimensions
SN(s) == s.n * s.bw
Dat(mm, c) == mm[c].d
ChunksOf(s) == {s.el[k] : k \in 1..Len(s.el)} \cup {s.ix[k] : k \in 1..Len(s.ix)}
IxDef(mm, s) == \A k \in 1..Len(s.ix) : mm[s.ix[k]].def
FullyDef(mm, s) == \A c \in ChunksOf(s) : mm[c].def
NoArrays(s) == s.ix = <<>> /\ s.fmt # "dense"

CSRRep(mm, s)  == [ci |-> Dat(mm, s.ix[1]), rp |-> Dat(mm, s.ix[2]), va |-> Dat(mm, s.el[1])]
CSCRRep(mm, s) == [ci |-> Dat(mm, s.ix[1]), rp |-> Dat(mm, s.ix[2]), rn |-> Dat(mm, s.ix[3]), va |-> Dat(mm, s.el[1])]
BandRep(mm, s) == [offs |-> Dat(mm, s.ix[1]), va |-> Dat(mm, s.el[1])]
BlocksOf(flat, bh, bw) == [k \in 1..(Len(flat) \div (bh * bw)) |->
                             [li \in 1..bh |-> [lj \in 1..bw |-> flat[(k - 1) * bh * bw + (li - 1) * bw + lj]]]]
BCSRRep(mm, s) == [ci |-> Dat(mm, s.ix[1]), rp |-> Dat(mm, s.ix[2]), va |-> BlocksOf(Dat(mm, s.el[1]), s.bh, s.bw)]

\* the scalar matrix a slot represents
SAbs(mm, s) ==
  IF NoArrays(s) THEN ZeroMat(SM(s), SN(s))
  ELSE CASE s.fmt = "csr"    -> AbsCSR(s.m, s.n, CSRRep(mm, s))
         [] s.fmt = "cscr"   -> AbsCSCR(s.m, s.n, CSCRRep(mm, s))
         [] s.fmt = "banded" -> AbsBanded(s.m, s.n, BandRep(mm, s))
         [] s.fmt = "dense"  -> AbsDense(s.m, s.n, [va |-> Dat(mm, s.el[1])])
         [] s.fmt = "bcsr"   -> AbsBCSR(s.m, s.n, s.bh, s.bw, BCSRRep(mm, s))

\* stored positions: block level (= scalar level except for bcsr) and scalar level
BPat(mm, s) ==
  IF NoArrays(s) THEN {}
  ELSE CASE s.fmt = "csr"    -> PatCSR(s.m, CSRRep(mm, s))
         [] s.fmt = "bcsr"   -> PatCSR(s.m, BCSRRep(mm, s))
         [] s.fmt = "cscr"   -> LET r == CSCRRep(mm, s) IN
                                UNION {{<<r.rn[u] + 1, r.ci[k] + 1>> : k \in (r.rp[u] + 1)..r.rp[u + 1]} : u \in 1..Len(r.rn)}
         [] s.fmt = "banded" -> LET r == BandRep(mm, s) IN BandPattern(s.m, s.n, {r.offs[k] : k \in 1..Len(r.offs)})
         [] s.fmt = "dense"  -> (1..s.m) \X (1..s.n)
ExpandPat(BP, bh, bw) == {<<(e[1] - 1) * bh + li, (e[2] - 1) * bw + lj>> : e \in BP, li \in 1..bh, lj \in 1..bw}
SPat(mm, s) == ExpandPat(BPat(mm, s), s.bh, s.bw)
TransPat(P) == {<<e[2], e[1]>> : e \in P}

\* structural validity of the index arrays a slot holds
SValid(mm, s) ==
  IF NoArrays(s) \/ ~IxDef(mm, s) THEN TRUE
  ELSE CASE s.fmt = "csr"    -> CSRValid(s.m, s.n, [rp |-> Dat(mm, s.ix[2]), ci |-> Dat(mm, s.ix[1]), va |-> Dat(mm, s.ix[1])])
                                /\ Len(Dat(mm, s.el[1])) = Len(Dat(mm, s.ix[1]))
         [] s.fmt = "bcsr"   -> CSRValid(s.m, s.n, [rp |-> Dat(mm, s.ix[2]), ci |-> Dat(mm, s.ix[1]), va |-> Dat(mm, s.ix[1])])
                                /\ Len(Dat(mm, s.el[1])) = Len(Dat(mm, s.ix[1])) * s.bh * s.bw
         [] s.fmt = "cscr"   -> CSCRValid(s.m, s.n, [rp |-> Dat(mm, s.ix[2]), ci |-> Dat(mm, s.ix[1]), rn |-> Dat(mm, s.ix[3]), va |-> Dat(mm, s.el[1])])
         [] s.fmt = "banded" -> BandedValid(s.m, s.n, BandRep(mm, s))
         [] s.fmt = "dense"  -> Len(Dat(mm, s.el[1])) = s.m * s.n

\* ---- installing a described container into a slot --------------------------
InstallArrs(mm, arrs) ==
  LET F[k \in 0..Len(arrs)] ==
        IF k = 0 THEN [mem |-> mm, ids |-> <<>>]
        ELSE LET p == F[k - 1]  a == arrs[k] IN
             IF a.ref # 0 THEN [mem |-> p.mem, ids |-> Append(p.ids, a.ref)]
             ELSE [mem |-> Append(p.mem, [d |-> a.d, def |-> a.def]), ids |-> Append(p.ids, Len(p.mem) + 1)]
  IN F[Len(arrs)]
Install(sl, mm, dst, de) ==
  LET e == InstallArrs(mm, de.el)
      i == InstallArrs(e.mem, de.ix)
  IN [slots |-> [sl EXCEPT ![dst] = [fmt |-> de.fmt, ty |-> de.ty, m |-> de.m, n |-> de.n, bh |-> de.bh, bw |-> de.bw,
                                      ue |-> de.ue, el |-> e.ids, ix |-> i.ids]],
      mem |-> i.mem]

\* ---- projection of a slot (what the replayer compares) ---------------------
Proj(mm, s) ==
  IF s.fmt = "free" THEN [fmt |-> "free"]
  ELSE [fmt |-> s.fmt, ty |-> s.ty, m |-> s.m, n |-> s.n, bh |-> s.bh, bw |-> s.bw, ue |-> s.ue,
        el |-> [k \in 1..Len(s.el) |-> [id |-> s.el[k], d |-> mm[s.el[k]].d, def |-> mm[s.el[k]].def]],
        ix |-> [k \in 1..Len(s.ix) |-> [id |-> s.ix[k], d |-> mm[s.ix[k]].d, def |-> mm[s.ix[k]].def]],
        def |-> FullyDef(mm, s),
        dense |-> IF FullyDef(mm, s) THEN SAbs(mm, s) ELSE <<>>]
ChangedSlots(ns, nm) == {s \in 1..NS : Proj(nm, ns[s]) # Proj(mem, slots[s])}
ExpOf(ns, nm) == LET cs == SetToSortSeq(ChangedSlots(ns, nm), <) IN [k \in 1..Len(cs) |-> [slot |-> cs[k], st |-> Proj(nm, ns[cs[k]])]]

\* one step: the call record `rec`, the new world w, and the algebraic law Law(w) the step must satisfy
\* (w is an operator argument so that TLC evaluates the new world once)
Step(rec, w, Law(_)) ==
  /\ slots' = w.slots /\ mem' = w.mem
  /\ hist' = Append(hist, rec @@ [exp |-> ExpOf(w.slots, w.mem), law |-> Law(w)])
Rec(op, src, dst) == [op |-> op, src |-> src, dst |-> dst, fmt |-> "", ty |-> "", mode |-> "", p |-> <<>>, q |-> <<>>,
                      k |-> 0, v |-> 0, full |-> FALSE, grp |-> <<>>, gci |-> <<>>, noarr |-> FALSE, ctor |-> FALSE, tri |-> <<>>,
                      pk |-> "", pv |-> <<>>, qk |-> "", qv |-> <<>>]

Occupied(s) == slots[s].fmt # "free"
Usable(s) == Occupied(s) /\ FullyDef(mem, slots[s])
\* destination: any other occupied slot (overwritten) or the lowest free slot
DstOK(src, dst) == dst # src /\ (Occupied(dst) \/ \A t \in 1..(dst - 1) : Occupied(t))
More == Len(hist) < Depth + 1
TypesFor(S) == Types \cup {S.ty}

\* ---- Conv -------------------------------------------------------------------
\* assign(): arrays of an unchanged type are shared, arrays of a changed type are converted copies
AssignDesc(S, ty) ==
  Desc(S.fmt, ty, S.m, S.n, S.bh, S.bw, S.ue,
       [k \in 1..Len(S.el) |-> IF DTof(ty) = DTof(S.ty) THEN Ref(S.el[k]) ELSE New(Dat(mem, S.el[k]))],
       [k \in 1..Len(S.ix) |-> IF ITof(ty) = ITof(S.ty) THEN Ref(S.ix[k]) ELSE New(Dat(mem, S.ix[k]))])
ConvTargets(S) ==
  CASE S.fmt = "csr"    -> {"csr", "cscr", "banded"}
    [] S.fmt = "cscr"   -> {"cscr", "csr"}
    [] S.fmt = "banded" -> {"banded", "csr"}
    [] S.fmt = "dense"  -> {"dense"}          \* DenseMatrix lacks the rows<Perspective>() interface the generic convert needs
    [] S.fmt = "bcsr"   -> {"bcsr", "csr", "cscr"}
\* csr<-banded and csr<-bcsr are dedicated overloads working on equal types; they accept entry-free
\* sources.  The generic convert(MT_) and banded<-csr document used_elements > 0 (XASSERT).
ConvEnabled(S, f, ty) ==
  \/ f = S.fmt
  \/ f = "csr" /\ S.fmt \in {"banded", "bcsr"} /\ ty = S.ty
  \/ ~(f = "csr" /\ S.fmt \in {"banded", "bcsr"}) /\ SPat(mem, S) # {}
ConvDesc(S, f, ty) ==
  LET D == SAbs(mem, S)  P == SPat(mem, S)  m == SM(S)  n == SN(S) IN
  IF f = S.fmt THEN AssignDesc(S, ty)
  ELSE CASE f = "csr"    -> IF P = {} THEN DNone("csr", ty, m, n, 1, 1) ELSE DCSR(ty, m, n, CSROf(m, n, D, P))
         [] f = "cscr"   -> DCSCR(ty, m, n, CSCROf(m, n, D, P, {e[1] : e \in P}))
         [] f = "banded" -> DBand(ty, m, n, BandedOf(m, n, D, {e[2] - e[1] + m - 1 : e \in P}, 0))
\* dst.convert(src) on the container object in dst, or dst = MT(src): csr, cscr and banded have a converting constructor
\* template <MT_> explicit MT(const MT_&) (it cannot be called with the very same type: that is the deleted copy constructor)
CtorChoices(S, f, ty) ==
  {FALSE} \cup (IF "convctor" \in Ops /\ f \in {"csr", "cscr", "banded"} /\ (f # S.fmt \/ ty # S.ty) THEN {TRUE} ELSE {})
Conv ==
  /\ "conv" \in Ops /\ More
  /\ \E src \in 1..NS, dst \in 1..NS :
       /\ Usable(src) /\ DstOK(src, dst)
       /\ LET S == slots[src] IN
          \E f \in ConvTargets(S), ty \in TypesFor(S) :
            /\ ConvEnabled(S, f, ty)
            /\ \E ct \in CtorChoices(S, f, ty) :
               Step([Rec("conv", src, dst) EXCEPT !.fmt = f, !.ty = ty, !.mode = S.fmt, !.ctor = ct], Install(slots, mem, dst, ConvDesc(S, f, ty)),
                    LAMBDA w : SAbs(w.mem, w.slots[dst]) = SAbs(mem, S) /\ SM(w.slots[dst]) = SM(S) /\ SN(w.slots[dst]) = SN(S))

\* ---- Clone ------------------------------------------------------------------
Modes == {"shallow", "layout", "weak", "deep", "allocate"}
CloneDesc(S, mode, ty) ==
  LET sameD == DTof(ty) = DTof(S.ty)  sameI == ITof(ty) = ITof(S.ty)
      elA(c) == CASE mode = "deep"     -> New(Dat(mem, c))
                  [] mode = "allocate" -> Undef(Len(Dat(mem, c)))
                  [] mode = "shallow"  -> IF sameD THEN Ref(c) ELSE New(Dat(mem, c))
                  [] mode = "layout"   -> Undef(Len(Dat(mem, c)))
                  [] mode = "weak"     -> New(Dat(mem, c))
      ixA(c) == CASE mode = "deep"     -> New(Dat(mem, c))
                  [] mode = "allocate" -> Undef(Len(Dat(mem, c)))
                  [] OTHER             -> IF sameI THEN Ref(c) ELSE New(Dat(mem, c))
  IN Desc(S.fmt, ty, S.m, S.n, S.bh, S.bw, S.ue, [k \in 1..Len(S.el) |-> elA(S.el[k])], [k \in 1..Len(S.ix) |-> ixA(S.ix[k])])
Clone ==
  /\ "clone" \in Ops /\ More
  /\ \E src \in 1..NS, dst \in 1..NS :
       /\ Usable(src) /\ DstOK(src, dst)
       /\ LET S == slots[src] IN
          \* dst.clone(src, mode), or (same type, op "convctor") dst = src.clone(mode), the member returning a new container
          \E mode \in Modes, ty \in TypesFor(S), ct \in {FALSE} \cup (IF "convctor" \in Ops THEN {TRUE} ELSE {}) :
            /\ (ct => ty = S.ty)
            /\ Step([Rec("clone", src, dst) EXCEPT !.mode = mode, !.ty = ty, !.ctor = ct], Install(slots, mem, dst, CloneDesc(S, mode, ty)),
                    LAMBDA w : mode \in {"shallow", "weak", "deep"} => SAbs(w.mem, w.slots[dst]) = SAbs(mem, S))

\* ---- Transpose ----------------------------------------------------------------
\* BCSR arrays (flattened blocks) of scalar matrix D with block pattern BP; csr is the 1x1 case
BlockArrs(mb, nb, bh, bw, D, BP) == BCSROf(mb, nb, bh, bw, D, BP)
TranspDesc(S) ==
  LET D == SAbs(mem, S)  BP == BPat(mem, S)  DT == Transpose(SM(S), SN(S), D) IN
  CASE S.fmt = "dense" -> DDense(S.ty, S.n, S.m, DT)
    [] S.fmt = "csr"   -> IF BP = {} THEN DNone("csr", S.ty, S.n, S.m, 1, 1)
                          ELSE DCSR(S.ty, S.n, S.m, CSROf(S.n, S.m, DT, TransPat(BP)))
    [] S.fmt = "bcsr"  -> IF BP = {} THEN DNone("bcsr", S.ty, S.n, S.m, S.bw, S.bh)
                          ELSE DBCSR(S.ty, S.n, S.m, S.bw, S.bh, BlockArrs(S.n, S.m, S.bw, S.bh, DT, TransPat(BP)))
Transp ==
  /\ "transp" \in Ops /\ More
  /\ \E src \in 1..NS, dst \in 1..NS :
       /\ Usable(src) /\ DstOK(src, dst) /\ slots[src].fmt \in {"csr", "bcsr", "dense"}
       /\ LET S == slots[src] IN
          Step([Rec("transp", src, dst) EXCEPT !.noarr = (BPat(mem, S) = {})], Install(slots, mem, dst, TranspDesc(S)),
               LAMBDA w : /\ SAbs(w.mem, w.slots[dst]) = Transpose(SM(S), SN(S), SAbs(mem, S))
                          /\ SM(w.slots[dst]) = SN(S) /\ SN(w.slots[dst]) = SM(S)
                          /\ Transpose(SN(S), SM(S), SAbs(w.mem, w.slots[dst])) = SAbs(mem, S))

\* dst.transpose(src), the member that writes INTO an existing container (dst = src is the self transposition a.transpose(a)).
\* CSR / BCSR build new arrays and move them into dst.  DenseMatrix re-uses the array of dst when dst already has the
\* transposed shape (the values are rewritten in place and seen through every slot sharing that array - also src itself
\* when dst aliases src, which happens for square self transposition); otherwise a new matrix is moved into dst.
TranspInto ==
  /\ "transpinto" \in Ops /\ More
  /\ \E src \in 1..NS, dst \in 1..NS :
       /\ Usable(src) /\ (dst = src \/ DstOK(src, dst)) /\ slots[src].fmt \in {"csr", "bcsr", "dense"}
       /\ (dst = src => slots[src].bh = slots[src].bw)      \* the argument of a BCSR transpose has the swapped block shape
       /\ LET S == slots[src]  T == slots[dst]
              DT == Transpose(SM(S), SN(S), SAbs(mem, S))
              inplace == S.fmt = "dense" /\ T.fmt = "dense" /\ T.ty = S.ty /\ T.m = S.n /\ T.n = S.m /\ T.m * T.n > 0
          IN Step([Rec("transpinto", src, dst) EXCEPT !.noarr = (BPat(mem, S) = {})],
                  IF inplace THEN [slots |-> slots, mem |-> [mem EXCEPT ![T.el[1]] = [d |-> Flatten(DT), def |-> TRUE]]]
                             ELSE Install(slots, mem, dst, TranspDesc(S)),
                  LAMBDA w : /\ SAbs(w.mem, w.slots[dst]) = DT
                             /\ SM(w.slots[dst]) = SN(S) /\ SN(w.slots[dst]) = SM(S)
                             /\ Transpose(SN(S), SM(S), SAbs(w.mem, w.slots[dst])) = SAbs(mem, S))

\* DenseMatrix::transpose_inplace(): the value array is rewritten in place (visible through every slot sharing
\* it, which keeps its own dimensions), rows and columns of this container are swapped
TranspInplace ==
  /\ "tinplace" \in Ops /\ More
  /\ \E s \in 1..NS :
       /\ Usable(s) /\ slots[s].fmt = "dense"
       /\ LET S == slots[s]
              DT == Transpose(S.m, S.n, SAbs(mem, S))
          IN Step(Rec("tinplace", s, s),
                  [slots |-> [slots EXCEPT ![s] = [S EXCEPT !.m = S.n, !.n = S.m]],
                   mem |-> [mem EXCEPT ![S.el[1]] = [d |-> Flatten(DT), def |-> TRUE]]],
                  LAMBDA w : SAbs(w.mem, w.slots[s]) = DT /\ Transpose(S.n, S.m, SAbs(w.mem, w.slots[s])) = SAbs(mem, S))

\* ---- Permute (in place) -----------------------------------------------------
Id(k)  == [i \in 1..k |-> i]
Rot(k) == [i \in 1..k |-> (i % k) + 1]
Rev(k) == [i \in 1..k |-> k + 1 - i]
PermsGen(k) == {p \in [1..k -> 1..k] : IsPerm(p)}
Perms1 == PermsGen(1)
Perms2 == PermsGen(2)
Perms3 == PermsGen(3)      \* constant definitions: evaluated once by TLC
AllPerms(k) == CASE k = 1 -> Perms1 [] k = 2 -> Perms2 [] k = 3 -> Perms3
PermPairs(m, n) ==
  IF PermSel = "all" /\ m <= 3 /\ n <= 3 THEN AllPerms(m) \X AllPerms(n)
  ELSE {<<Rot(m), Rot(n)>>, <<PermInv(Rot(m)), PermInv(Rot(n))>>, <<Rot(m), Id(n)>>, <<PermInv(Rot(m)), Id(n)>>,
        <<Rev(m), PermInv(Rot(n))>>, <<Rev(m), Rot(n)>>}
ExpandPerm(p, b) == [i \in 1..(Len(p) * b) |-> (p[((i - 1) \div b) + 1] - 1) * b + ((i - 1) % b) + 1]
\* row i of the result is row p[i] of the operand, column j of the result is column q[j]
PermD2(S, p, q) == PermMat(SM(S), SN(S), SAbs(mem, S), ExpandPerm(p, S.bh), ExpandPerm(q, S.bw))
PermBP2(S, p, q) == {e \in (1..S.m) \X (1..S.n) : <<p[e[1]], q[e[2]]>> \in BPat(mem, S)}
PermMem(S, arrs) ==
  IF NoArrays(S) THEN mem
  ELSE [mem EXCEPT ![S.ix[1]] = [d |-> arrs.ci, def |-> TRUE],
                   ![S.ix[2]] = [d |-> arrs.rp, def |-> TRUE],
                   ![S.el[1]] = [d |-> FlatBlocks(arrs.va), def |-> TRUE]]
\* The Adjacency::Permutation objects handed to permute can be built in several ways (ConstrType perm / inv_perm / swap /
\* inv_swap from the respective 0-based array, or inverse() of the inverse permutation); all of them denote the same
\* bijection.  With "permctor" in Ops the route is varied over the calls (a fixed function of the call, so that the number
\* of histories stays the same); pv / qv are the constructor argument arrays.  Swap array of a permutation: the in-situ
\* transpositions x[i] <-> x[swap[i]], i = 0..n-2 in this order, swap[i] >= i, produce y[i] = x[perm[i]].
P0(p) == [i \in 1..Len(p) |-> p[i] - 1]
SwapStep(x, a, b) == [k \in 1..Len(x) |-> IF k = a THEN x[b] ELSE IF k = b THEN x[a] ELSE x[k]]
RECURSIVE SwapAcc(_, _, _, _)
SwapAcc(p, i, a, sw) ==
  IF i > Len(p) THEN sw
  ELSE LET pos == CHOOSE k \in 1..Len(p) : a[k] = p[i] IN SwapAcc(p, i + 1, SwapStep(a, i, pos), Append(sw, pos - 1))
SwapOfPerm(p) == SwapAcc(p, 1, Id(Len(p)), <<>>)          \* 0-based swap positions of the 1-based permutation p
PermOfSwap(sw) ==                                          \* the 1-based permutation a 0-based swap array denotes
  LET st[i \in 0..Len(sw)] == IF i = 0 THEN Id(Len(sw)) ELSE SwapStep(st[i - 1], i, sw[i] + 1) IN st[Len(sw)]
PKinds == <<"perm", "inv_perm", "swap", "inv_swap", "inverse">>
PHash(p) == LET F[i \in 0..Len(p)] == IF i = 0 THEN 0 ELSE F[i - 1] + i * p[i] IN F[Len(p)]
PKindOf(S, p, q, salt) == IF "permctor" \in Ops THEN PKinds[((PHash(p) + 2 * PHash(q) + S.ue + Len(hist) + salt) % 5) + 1] ELSE "perm"
PArg(kind, p) ==
  CASE kind = "perm"     -> P0(p)
    [] kind = "inv_perm" -> P0(PermInv(p))
    [] kind = "swap"     -> SwapOfPerm(p)
    [] kind = "inv_swap" -> SwapOfPerm(PermInv(p))
    [] kind = "inverse"  -> P0(PermInv(p))
\* the permutation that route `kind` builds from the argument array v (must be p again)
PBuilt(kind, v) ==
  LET v1 == [i \in 1..Len(v) |-> v[i] + 1] IN
  CASE kind = "perm"     -> v1
    [] kind = "inv_perm" -> PermInv(v1)
    [] kind = "swap"     -> PermOfSwap(v)
    [] kind = "inv_swap" -> PermInv(PermOfSwap(v))
    [] kind = "inverse"  -> PermInv(v1)
PermStep(s, S, p, q, D2) ==
  LET pk == PKindOf(S, p, q, 0)  qk == PKindOf(S, q, p, 3) IN
  Step([Rec("permute", s, s) EXCEPT !.p = p, !.q = q, !.noarr = NoArrays(S), !.pk = pk, !.pv = PArg(pk, p), !.qk = qk, !.qv = PArg(qk, q)],
       [slots |-> slots, mem |-> PermMem(S, BlockArrs(S.m, S.n, S.bh, S.bw, D2, PermBP2(S, p, q)))],
       LAMBDA w : /\ SAbs(w.mem, S) = D2
                  /\ PermMat(SM(S), SN(S), D2, ExpandPerm(PermInv(p), S.bh), ExpandPerm(PermInv(q), S.bw)) = SAbs(mem, S)
                  /\ PBuilt(pk, PArg(pk, p)) = p /\ PBuilt(qk, PArg(qk, q)) = q)
Permute ==
  /\ "permute" \in Ops /\ More
  /\ \E s \in 1..NS :
       /\ Usable(s) /\ slots[s].fmt \in {"csr", "bcsr"} /\ slots[s].m >= 1 /\ slots[s].n >= 1
       /\ \E pq \in PermPairs(slots[s].m, slots[s].n) : PermStep(s, slots[s], pq[1], pq[2], PermD2(slots[s], pq[1], pq[2]))

\* ---- Layout: dst = MT(src.layout()) ------------------------------------------
LayoutOp ==
  /\ "layout" \in Ops /\ More
  /\ \E src \in 1..NS, dst \in 1..NS :
       /\ Occupied(src) /\ IxDef(mem, slots[src]) /\ DstOK(src, dst) /\ slots[src].fmt # "dense"
       /\ LET S == slots[src] IN
          \E ty \in {t \in TypesFor(S) : ITof(t) = ITof(S.ty)} :
            LET esz == IF S.el = <<>> THEN 0 ELSE Len(Dat(mem, S.el[1]))
            IN Step([Rec("layout", src, dst) EXCEPT !.ty = ty],
                    Install(slots, mem, dst, Desc(S.fmt, ty, S.m, S.n, S.bh, S.bw, S.ue, <<Undef(esz)>>, [k \in 1..Len(S.ix) |-> Ref(S.ix[k])])),
                    LAMBDA w : BPat(w.mem, w.slots[dst]) = BPat(mem, S))

\* ---- Graph: dst = MT(Adjacency::Graph of src's sparsity pattern) ------------------
GraphOp ==
  /\ "graph" \in Ops /\ More
  /\ \E src \in 1..NS, dst \in 1..NS :
       /\ Occupied(src) /\ IxDef(mem, slots[src]) /\ DstOK(src, dst)
       /\ LET S == slots[src] IN
          \E f \in (IF S.fmt = "bcsr" THEN {"bcsr"} ELSE {"csr", "cscr", "banded"}), ty \in TypesFor(S) :
            LET BP == BPat(mem, S)
                Z  == ZeroMat(SM(S), SN(S))
                g  == CSROf(S.m, S.n, ZeroMat(S.m, S.n), BP)
                de == CASE f = "csr"    -> IF BP = {} THEN DNone("csr", ty, S.m, S.n, 1, 1) ELSE DCSR(ty, S.m, S.n, CSROf(S.m, S.n, Z, BP))
                        [] f = "bcsr"   -> IF BP = {} THEN DNone("bcsr", ty, S.m, S.n, S.bh, S.bw)
                                           ELSE DBCSR(ty, S.m, S.n, S.bh, S.bw, BlockArrs(S.m, S.n, S.bh, S.bw, Z, BP))
                        [] f = "cscr"   -> IF BP = {} THEN DNone("cscr", ty, S.m, S.n, 1, 1)
                                           ELSE LET d0 == DCSCR(ty, S.m, S.n, CSCROf(S.m, S.n, Z, BP, {e[1] : e \in BP}))
                                                IN [d0 EXCEPT !.el = <<Undef(Cardinality(BP))>>]
                        [] f = "banded" -> DBand(ty, S.m, S.n, BandedOf(S.m, S.n, Z, {e[2] - e[1] + S.m - 1 : e \in BP}, 0))
            IN Step([Rec("graph", src, dst) EXCEPT !.fmt = f, !.ty = ty, !.grp = g.rp, !.gci = g.ci], Install(slots, mem, dst, de),
                    LAMBDA w : BP \subseteq BPat(w.mem, w.slots[dst]) /\ (f # "banded" => BPat(w.mem, w.slots[dst]) = BP))

\* ---- Copy: dst.copy(src, full) ----------------------------------------------------
SameShape(A, B) ==
  /\ A.fmt = B.fmt /\ A.ty = B.ty /\ A.bh = B.bh /\ A.bw = B.bw /\ Len(A.el) = Len(B.el) /\ Len(A.ix) = Len(B.ix)
  /\ \A k \in 1..Len(A.el) : Len(Dat(mem, A.el[k])) = Len(Dat(mem, B.el[k]))
  /\ \A k \in 1..Len(A.ix) : Len(Dat(mem, A.ix[k])) = Len(Dat(mem, B.ix[k]))
SameLayout(A, B) ==
  /\ A.m = B.m /\ A.n = B.n /\ IxDef(mem, B) /\ \A k \in 1..Len(A.ix) : Dat(mem, A.ix[k]) = Dat(mem, B.ix[k])
CopyOp ==
  /\ "copy" \in Ops /\ More
  /\ \E src \in 1..NS, dst \in 1..NS, full \in BOOLEAN :
       /\ src # dst /\ Usable(src) /\ Occupied(dst) /\ SameShape(slots[src], slots[dst])
       /\ (~full => SameLayout(slots[src], slots[dst]))
       /\ LET S == slots[src]  T == slots[dst]
              m1 == [c \in DOMAIN mem |->
                       IF \E k \in 1..Len(T.el) : T.el[k] = c
                       THEN [d |-> Dat(mem, S.el[CHOOSE k \in 1..Len(T.el) : T.el[k] = c]), def |-> TRUE]
                       ELSE IF full /\ \E k \in 1..Len(T.ix) : T.ix[k] = c
                       THEN [d |-> Dat(mem, S.ix[CHOOSE k \in 1..Len(T.ix) : T.ix[k] = c]), def |-> TRUE]
                       ELSE mem[c]]
              ns == IF full THEN [slots EXCEPT ![dst] = [T EXCEPT !.m = S.m, !.n = S.n, !.ue = S.ue]] ELSE slots
          IN Step([Rec("copy", src, dst) EXCEPT !.full = full], [slots |-> ns, mem |-> m1],
                  LAMBDA w : SAbs(w.mem, w.slots[dst]) = SAbs(mem, S))

\* ---- Format / Poke -------------------------------------------------------------
FormatOp ==
  /\ "format" \in Ops /\ More
  /\ \E s \in 1..NS, v \in {0, 5} :
       /\ Occupied(s) /\ IxDef(mem, slots[s]) /\ slots[s].el # <<>>
       /\ LET S == slots[s]
              m1 == [c \in DOMAIN mem |-> IF \E k \in 1..Len(S.el) : S.el[k] = c
                                          THEN [d |-> [i \in 1..Len(mem[c].d) |-> v], def |-> TRUE] ELSE mem[c]]
          IN Step([Rec("format", s, s) EXCEPT !.v = v], [slots |-> slots, mem |-> m1], LAMBDA w : BPat(w.mem, S) = BPat(mem, S))
Poke ==
  /\ "poke" \in Ops /\ More
  /\ \E s \in 1..NS :
       /\ Usable(s) /\ slots[s].el # <<>> /\ Len(Dat(mem, slots[s].el[1])) > 0
       /\ LET c == slots[s].el[1]  v == 50 + Len(hist) IN
          \E k \in {1, Len(Dat(mem, c))} :
            LET m1 == [mem EXCEPT ![c] = [d |-> [mem[c].d EXCEPT ![k] = v], def |-> TRUE]] IN
            Step([Rec("poke", s, s) EXCEPT !.k = k - 1, !.v = v], [slots |-> slots, mem |-> m1],
                 \* a poke is seen by exactly the slots that hold the poked chunk
                 LAMBDA w : \A t \in 1..NS : Occupied(t) /\ FullyDef(mem, slots[t]) /\ c \notin ChunksOf(slots[t])
                                               => SAbs(w.mem, slots[t]) = SAbs(mem, slots[t]))


\* ---- Mirror: dst = SparseMatrixCSCR(csr, mirror) ---------------------------------
\* "Creates a matrix with selected rows from a given csr matrix": the result lists exactly the rows of the mirror (also
\* those without entries in the source, as an empty compressed row) and represents the source with all other rows zeroed.
\* The mirror indices are ascending (the CSCR format keeps its row numbers sorted, operator() relies on it) and there is
\* at least one (XASSERT num_indices() > 0).  Data and index type of source, mirror and result coincide.
RowRestrict(m, n, D, R) == [i \in 1..m |-> [j \in 1..n |-> IF i \in R THEN D[i][j] ELSE 0]]
NonEmptyRows(P) == {e[1] : e \in P}
MirrorSets(m, P) ==
  IF m <= 3 \/ PermSel = "all" THEN (SUBSET (1..m)) \ {{}}
  ELSE ({1..m, NonEmptyRows(P), {1}, {m}, (1..m) \ {m}} \cup {{i} : i \in (1..m) \ NonEmptyRows(P)}) \ {{}}
MirrorDesc(S, R) ==
  LET P == {e \in BPat(mem, S) : e[1] \in R} IN DCSCR(S.ty, S.m, S.n, CSCROf(S.m, S.n, SAbs(mem, S), P, R))
MirrorOp ==
  /\ "mirror" \in Ops /\ More
  /\ \E src \in 1..NS, dst \in 1..NS :
       /\ Usable(src) /\ DstOK(src, dst) /\ slots[src].fmt = "csr" /\ slots[src].m >= 1
       /\ LET S == slots[src] IN
          \E R \in MirrorSets(S.m, BPat(mem, S)) :
            Step([Rec("mirror", src, dst) EXCEPT !.fmt = "cscr", !.ty = S.ty, !.p = SetToSortSeq(R, <)],
                 Install(slots, mem, dst, MirrorDesc(S, R)),
                 LAMBDA w : LET T == w.slots[dst] IN
                            /\ SAbs(w.mem, T) = RowRestrict(S.m, S.n, SAbs(mem, S), R)
                            /\ (NonEmptyRows(BPat(mem, S)) \subseteq R => SAbs(w.mem, T) = SAbs(mem, S))
                            /\ T.m = S.m /\ T.n = S.n
                            /\ BPat(w.mem, T) = {e \in BPat(mem, S) : e[1] \in R}
                            /\ Dat(w.mem, T.ix[3]) = [k \in 1..Cardinality(R) |-> SetToSortSeq(R, <)[k] - 1])

\* ---- Alloc: the allocating constructors -----------------------------------------------
\* MT(rows, columns, used_elements[, used_rows]): dimensions and array lengths as requested, contents unspecified
\* (XASSERT rows, columns # 0).  DenseMatrix(m, n) likewise; DenseMatrix(m, n, v) has every entry = v.
AllocDesc(S, ty, v) ==
  LET ur == IF NoArrays(S) THEN 0 ELSE Len(Dat(mem, S.ix[3])) IN
  CASE S.fmt = "csr"   -> Desc("csr", ty, S.m, S.n, 1, 1, S.ue, <<Undef(S.ue)>>, <<Undef(S.ue), Undef(S.m + 1)>>)
    [] S.fmt = "bcsr"  -> Desc("bcsr", ty, S.m, S.n, S.bh, S.bw, S.ue, <<Undef(S.ue * S.bh * S.bw)>>, <<Undef(S.ue), Undef(S.m + 1)>>)
    [] S.fmt = "cscr"  -> Desc("cscr", ty, S.m, S.n, 1, 1, S.ue, <<Undef(S.ue)>>, <<Undef(S.ue), Undef(ur + 1), Undef(ur)>>)
    [] S.fmt = "dense" -> IF v = 0 THEN Desc("dense", ty, S.m, S.n, 1, 1, S.m * S.n, <<Undef(S.m * S.n)>>, <<>>)
                          ELSE DDense(ty, S.m, S.n, [i \in 1..S.m |-> [j \in 1..S.n |-> v]])
AllocOp ==
  /\ "alloc" \in Ops /\ More
  /\ \E src \in 1..NS, dst \in 1..NS :
       /\ Occupied(src) /\ DstOK(src, dst) /\ slots[src].fmt \in {"csr", "bcsr", "cscr", "dense"}
       /\ slots[src].m >= 1 /\ slots[src].n >= 1
       /\ LET S == slots[src] IN
          \E ty \in TypesFor(S), v \in (IF S.fmt = "dense" THEN {0, 7} ELSE {0}) :
            Step([Rec("alloc", src, dst) EXCEPT !.fmt = S.fmt, !.ty = ty, !.v = v,
                                                 !.k = IF S.fmt = "cscr" /\ ~NoArrays(S) THEN Len(Dat(mem, S.ix[3])) ELSE 0],
                 Install(slots, mem, dst, AllocDesc(S, ty, v)),
                 LAMBDA w : LET T == w.slots[dst] IN
                            /\ T.m = S.m /\ T.n = S.n /\ T.ue = S.ue
                            /\ (v # 0 => SAbs(w.mem, T) = [i \in 1..S.m |-> [j \in 1..S.n |-> v]]))

\* ---- Factory: SparseMatrixFactory(m, n), add(i, j, a_ij) ..., make_csr() -------------------
\* the stored entries of src (any format) are added one by one in some order; the result is the CSR matrix with
\* exactly these entries (allocated also when there is none: rows + 1 zero row pointers)
LexLess(a, b) == a[1] < b[1] \/ (a[1] = b[1] /\ a[2] < b[2])
ColLess(a, b) == a[2] < b[2] \/ (a[2] = b[2] /\ a[1] < b[1])
EntryOrders(P) == {SetToSortSeq(P, LexLess), SetToSortSeq(P, LAMBDA a, b : LexLess(b, a)), SetToSortSeq(P, ColLess)}
FactoryOp ==
  /\ "factory" \in Ops /\ More
  /\ \E src \in 1..NS, dst \in 1..NS :
       /\ Usable(src) /\ DstOK(src, dst) /\ SM(slots[src]) >= 1 /\ SN(slots[src]) >= 1
       /\ LET S == slots[src]  D == SAbs(mem, S)  P == SPat(mem, S)  m == SM(S)  n == SN(S) IN
          \E ty \in TypesFor(S), es \in EntryOrders(P) :
            Step([Rec("factory", src, dst) EXCEPT !.fmt = "csr", !.ty = ty, !.k = m, !.v = n,
                                                   !.tri = [k \in 1..Len(es) |-> <<es[k][1] - 1, es[k][2] - 1, D[es[k][1]][es[k][2]]>>]],
                 Install(slots, mem, dst, DCSR(ty, m, n, CSROf(m, n, D, P))),
                 LAMBDA w : LET T == w.slots[dst] IN
                            /\ SAbs(w.mem, T) = D /\ T.m = m /\ T.n = n /\ BPat(w.mem, T) = P)

\* ---- ConvRev: src.convert_reverse(dst) ---------------------------------------------------
\* "Assigns own matrix values to target matrix", assuming that the csr matrix src was created from dst earlier so that
\* both (non-zero) layouts match: dst (csr or bcsr of the same data type) keeps its layout, its value array is
\* rewritten in place (seen through every slot sharing it) and dst then represents the same matrix as src.
ConvRevOp ==
  /\ "convrev" \in Ops /\ More
  /\ \E src \in 1..NS, dst \in 1..NS :
       /\ src # dst /\ Usable(src) /\ Occupied(dst) /\ IxDef(mem, slots[dst])
       /\ slots[src].fmt = "csr" /\ slots[dst].fmt \in {"csr", "bcsr"}
       /\ ~NoArrays(slots[src]) /\ ~NoArrays(slots[dst])
       /\ DTof(slots[src].ty) = DTof(slots[dst].ty)
       /\ SM(slots[src]) = SM(slots[dst]) /\ SN(slots[src]) = SN(slots[dst])
       /\ SPat(mem, slots[src]) = SPat(mem, slots[dst])
       /\ LET S == slots[src]  T == slots[dst]
              arrs == BCSROf(T.m, T.n, T.bh, T.bw, SAbs(mem, S), BPat(mem, T))
          IN Step(Rec("convrev", src, dst),
                  [slots |-> slots, mem |-> [mem EXCEPT ![T.el[1]] = [d |-> FlatBlocks(arrs.va), def |-> TRUE]]],
                  LAMBDA w : SAbs(w.mem, T) = SAbs(mem, S) /\ BPat(w.mem, T) = BPat(mem, T))

\* ---- seeds -----------------------------------------------------------------------
AllPats(m, n) == SUBSET ((1..m) \X (1..n))
CsrSeeds(ty, m, n, Pats) ==
  LET D == DenseVals(m, n) IN
  {IF P = {} THEN DNone("csr", ty, m, n, 1, 1) ELSE DCSR(ty, m, n, CSROf(m, n, D, P)) : P \in Pats}
  \cup (IF {} \in Pats /\ m >= 1 /\ n >= 1   \* allocated but entry-free: SparseMatrixCSR(m, n, 0) with zeroed row pointer
        THEN {DCSR(ty, m, n, CSROf(m, n, D, {}))} ELSE {})
CscrSeeds(ty, m, n, Pats) ==
  LET D == DenseVals(m, n) IN
  UNION {IF P = {} THEN {DNone("cscr", ty, m, n, 1, 1)}
         ELSE {DCSCR(ty, m, n, CSCROf(m, n, D, P, R)) : R \in {R \in SUBSET (1..m) : {e[1] : e \in P} \subseteq R}} : P \in Pats}
BandSeeds(ty, m, n) ==
  {DBand(ty, m, n, BandedOf(m, n, DenseVals(m, n), O, PadVal)) : O \in SUBSET (0..(m + n - 2))}
DenseSeeds(ty, m, n, Pats) == {DDense(ty, m, n, RestrictTo(m, n, DenseVals(m, n), P)) : P \in Pats}
BcsrSeeds(ty, mb, nb, bh, bw) ==
  LET D == DenseVals(mb * bh, nb * bw) IN
  {IF P = {} THEN DNone("bcsr", ty, mb, nb, bh, bw) ELSE DBCSR(ty, mb, nb, bh, bw, BCSROf(mb, nb, bh, bw, D, P)) : P \in AllPats(mb, nb)}
Tri(n) == {e \in (1..n) \X (1..n) : e[1] - e[2] \in {-1, 0, 1}}

SeedFam(f, ty) ==
  CASE f = "csr_small" -> UNION {CsrSeeds(ty, sh[1], sh[2], AllPats(sh[1], sh[2])) :
                                   sh \in {<<0, 0>>, <<0, 2>>, <<2, 0>>, <<1, 1>>, <<1, 3>>, <<2, 2>>, <<2, 3>>, <<3, 2>>}}
                          \cup CsrSeeds(ty, 3, 5, {{}})
    [] f = "csr_33"    -> CsrSeeds(ty, 3, 3, AllPats(3, 3))
    [] f = "csr_perm"  -> CsrSeeds(ty, 3, 2, {P \in AllPats(3, 2) : Cardinality(P) \in {2, 3}})
                          \cup CsrSeeds(ty, 2, 3, {{<<1, 2>>, <<2, 1>>, <<2, 3>>}}) \cup CsrSeeds(ty, 3, 3, {{<<1, 2>>, <<1, 3>>, <<3, 1>>, <<3, 3>>}})
    [] f = "csr_44"    -> CsrSeeds(ty, 4, 4, {P \in AllPats(4, 4) : Cardinality(P) = 5})
    [] f = "csr_pal"   -> CsrSeeds(ty, 1, 1, {{<<1, 1>>}}) \cup CsrSeeds(ty, 3, 5, {{}})
                          \cup CsrSeeds(ty, 2, 3, {{<<2, 1>>, <<2, 3>>}}) \cup CsrSeeds(ty, 3, 3, {(1..3) \X (1..3)})
                          \cup CsrSeeds(ty, 3, 3, {{<<2, 1>>, <<2, 2>>, <<2, 3>>}, Tri(3)})
                          \cup CsrSeeds(ty, 3, 2, {{<<1, 2>>, <<3, 1>>}})
    [] f = "mini"      -> CsrSeeds(ty, 2, 3, {{<<2, 1>>, <<2, 3>>}}) \cup {DBand(ty, 3, 2, BandedOf(3, 2, DenseVals(3, 2), {1, 3}, PadVal))}
                          \cup DenseSeeds(ty, 2, 3, {(1..2) \X (1..3)})
                          \cup {DBCSR(ty, 2, 2, 2, 2, BCSROf(2, 2, 2, 2, DenseVals(4, 4), {<<1, 2>>, <<2, 1>>, <<2, 2>>}))}
                          \cup {DCSCR(ty, 3, 3, CSCROf(3, 3, DenseVals(3, 3), {<<1, 1>>, <<3, 2>>, <<3, 3>>}, {1, 3}))}
    [] f = "cscr_small" -> UNION {CscrSeeds(ty, sh[1], sh[2], AllPats(sh[1], sh[2])) : sh \in {<<1, 1>>, <<2, 2>>, <<3, 2>>, <<2, 3>>}}
                           \cup CscrSeeds(ty, 3, 5, {{}})
    [] f = "cscr_33"   -> CscrSeeds(ty, 3, 3, {P \in AllPats(3, 3) : Cardinality(P) \in {2, 3, 4}})
    [] f = "cscr_pal"  -> CscrSeeds(ty, 3, 3, {{<<2, 1>>, <<2, 3>>}, Tri(3)}) \cup CscrSeeds(ty, 2, 3, {{}})
    [] f = "banded_small" -> UNION {BandSeeds(ty, sh[1], sh[2]) : sh \in {<<1, 1>>, <<2, 2>>, <<3, 3>>, <<2, 4>>, <<3, 2>>}}
    [] f = "banded_44" -> BandSeeds(ty, 4, 4) \cup BandSeeds(ty, 4, 2) \cup BandSeeds(ty, 1, 4)
    [] f = "banded_pal" -> {DBand(ty, 3, 3, BandedOf(3, 3, DenseVals(3, 3), O, PadVal)) : O \in {{1, 2, 3}, {0, 4}, {}}}
                           \cup {DBand(ty, 3, 2, BandedOf(3, 2, DenseVals(3, 2), {1, 3}, PadVal))}
    [] f = "dense_small" -> UNION {DenseSeeds(ty, sh[1], sh[2], {(1..sh[1]) \X (1..sh[2])}) : sh \in {<<1, 1>>, <<1, 3>>, <<3, 1>>, <<2, 3>>, <<3, 3>>}}
                            \cup DenseSeeds(ty, 2, 2, AllPats(2, 2))
    [] f = "dense_pal" -> DenseSeeds(ty, 2, 3, {(1..2) \X (1..3)}) \cup DenseSeeds(ty, 3, 3, {Tri(3)})
    [] f = "bcsr22"    -> UNION {BcsrSeeds(ty, sh[1], sh[2], 2, 2) : sh \in {<<1, 1>>, <<2, 2>>, <<1, 2>>}}
    [] f = "bcsr23"    -> UNION {BcsrSeeds(ty, sh[1], sh[2], 2, 3) : sh \in {<<1, 1>>, <<2, 2>>, <<2, 1>>}}
    [] f = "bcsr32"    -> UNION {BcsrSeeds(ty, sh[1], sh[2], 3, 2) : sh \in {<<1, 1>>, <<2, 2>>}}
    [] f = "bcsr_33"   -> {DBCSR(ty, 3, 3, 2, 2, BCSROf(3, 3, 2, 2, DenseVals(6, 6), P)) : P \in {P \in AllPats(3, 3) : Cardinality(P) \in {3, 4}}}
    [] f = "bcsr_pal"  -> {DBCSR(ty, 2, 2, 2, 2, BCSROf(2, 2, 2, 2, DenseVals(4, 4), P)) : P \in {(1..2) \X (1..2), {<<2, 1>>}}}
                          \cup {DNone("bcsr", ty, 2, 3, 2, 2)}
                          \cup {DBCSR(ty, 2, 2, 2, 3, BCSROf(2, 2, 2, 3, DenseVals(4, 6), {<<1, 2>>, <<2, 1>>, <<2, 2>>}))}
    [] f = "bcsr_perm" -> {DBCSR(ty, 3, 2, 2, 3, BCSROf(3, 2, 2, 3, DenseVals(6, 6), P)) : P \in {P \in AllPats(3, 2) : Cardinality(P) = 3}}

Init ==
  /\ \E f \in Seeds, ty \in SeedTypes : \E de \in SeedFam(f, ty) :
       LET w == Install([s \in 1..NS |-> Free], <<>>, 1, de) IN
       /\ slots = w.slots /\ mem = w.mem
       /\ hist = <<Rec("seed", 0, 1) @@ [exp |-> <<[slot |-> 1, st |-> Proj(w.mem, w.slots[1])]>>, law |-> TRUE]>>

Next == Conv \/ Clone \/ Transp \/ TranspInto \/ TranspInplace \/ Permute \/ LayoutOp \/ GraphOp \/ CopyOp \/ FormatOp \/ Poke
        \/ MirrorOp \/ AllocOp \/ FactoryOp \/ ConvRevOp
Spec == Init /\ [][Next]_vars

\* ---- invariants of the specification itself ----------------------------------------
\* RepValid: every slot the specification predicts is structurally valid
RepValid == \A s \in 1..NS : Occupied(s) => SValid(mem, slots[s])
\* AbsPreserved (and the other per-call laws): conversion / value-carrying clone / copy keep Abs and the
\* dimensions, one transpose gives the transposed matrix with swapped dimensions and a second one gives the
\* original back, a permutation followed by its inverse is the identity, layout/graph keep the pattern,
\* a poke is invisible to every slot not holding the poked chunk
LawsHold == \A k \in 1..Len(hist) : hist[k].law
\* chunk bookkeeping: every chunk id a slot holds exists
ChunksExist == \A s \in 1..NS : Occupied(s) => ChunksOf(slots[s]) \subseteq DOMAIN mem

\* ---- emission ------------------------------------------------------------------------
Emit == Len(hist) = Depth + 1 => PrintT(ToJson([ns |-> NS, steps |-> hist]))
=============================================================================
