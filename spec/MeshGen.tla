------------------------------- MODULE MeshGen -------------------------------
(* C10/C12 generator (direction G of the input space): small conforming meshes built from reference cells.        *)
(*   Mode "single": the reference cell in every orientation preserving re-numbering (4 / 3 / 24 / 12)            *)
(*   Mode "pair"  : EVERY way of gluing a second cell onto a facet of the reference cell: every facet f of cell 1, *)
(*                  every admissible vertex bijection = every orientation reversing symmetry s applied to the      *)
(*                  mirror image across f (16 quad, 9 tria, 144 hexa, 48 tetra meshes) - these realise every       *)
(*                  relative orientation two neighbouring cells can have                                           *)
(*   Mode "chain" : (2D) three cells: a third cell glued in every way onto every free facet of the second          *)
(* Vertices are identified by their integer coordinates and numbered in lexicographic (z,y,x) order, so the global *)
(* numbering is independent of the construction order.  Each mesh is emitted with a list of mesh-part             *)
(* specifications (single vertices, bare and closed edges / facets / cells with and without own topology, vertex   *)
(* sets closed from the bottom, the whole boundary); the harness attaches all of them.                             *)
EXTENDS RefCell, SequencesExt, Json, TLC

CONSTANTS Fam, Dim, Mode, PartLevel   \* PartLevel: 0 = boundary only, 1 = + facets/cells, 2 = everything

VARIABLE cellpts      \* sequence of cells, each a tuple of integer points (local vertex k at position k+1)
Facets == 0..(NFaces(Fam, Dim, Dim - 1) - 1)
R0 == RefCoords(Fam, Dim)
Glue(P, f, s) == LET M == MirrorCell(Fam, Dim, P, f) IN [k \in 1..Len(P) |-> M[s[k] + 1]]
FaceSet(P, e, k) == {P[v + 1] : v \in TRange(FaceVerts(Fam, Dim, e, k))}

Init ==
  \/ /\ Mode = "single"
     /\ \E s \in Rot(Fam, Dim) : cellpts = << SymPoints(Fam, Dim, s) >>
  \/ /\ Mode = "pair"
     /\ \E f \in Facets, s \in Refl(Fam, Dim) : cellpts = << R0, Glue(R0, f, s) >>
  \/ /\ Mode = "chain"
     /\ \E f1 \in Facets, s1 \in Refl(Fam, Dim), f2 \in Facets, s2 \in Refl(Fam, Dim) :
          LET C2 == Glue(R0, f1, s1) IN
            /\ FaceSet(C2, Dim - 1, f2) # FaceSet(R0, Dim - 1, f1)
            /\ cellpts = << R0, C2, Glue(C2, f2, s2) >>
Next == UNCHANGED cellpts
Spec == Init /\ [][Next]_cellpts

\* ---- global numbering ---------------------------------------------------------------------------------------------
PtLess(p, q) ==
  LET d == Len(p) IN
    \/ p[d] < q[d]
    \/ (p[d] = q[d] /\ d >= 2 /\ (p[d - 1] < q[d - 1] \/ (p[d - 1] = q[d - 1] /\ d >= 3 /\ p[d - 2] < q[d - 2])))
AllPts == UNION {TRange(cellpts[c]) : c \in 1..Len(cellpts)}
X == SetToSortSeq(AllPts, PtLess)
IndexOf(p) == (CHOOSE i \in 1..Len(X) : X[i] = p) - 1
Cells == [c \in 1..Len(cellpts) |-> [k \in 1..Len(cellpts[c]) |-> IndexOf(cellpts[c][k])]]

\* ---- sanity of the generator (invariants) -----------------------------------------------------------------------------
AllPositive == \A c \in 1..Len(cellpts) : CellValid(Fam, Dim, cellpts[c])
\* conforming: two cells meet in a common face of both (or not at all)
IsFaceOf(S, P) == S = {} \/ \E e \in 0..Dim : \E k \in 0..(NFaces(Fam, Dim, e) - 1) : FaceSet(P, e, k) = S
Conforming ==
  \A a, b \in 1..Len(cellpts) : a # b =>
    LET S == TRange(cellpts[a]) \cap TRange(cellpts[b]) IN
      IsFaceOf(S, cellpts[a]) /\ IsFaceOf(S, cellpts[b]) /\ S # TRange(cellpts[a])
GluedOnFacet == Len(cellpts) >= 2 => Cardinality(TRange(cellpts[1]) \cap TRange(cellpts[2])) = NVerts(Fam, Dim - 1)

\* ---- mesh parts ------------------------------------------------------------------------------------------------------------
EntSets(e) == {{Cells[c][v + 1] : v \in TRange(FaceVerts(Fam, Dim, e, k))} :
                 c \in 1..Len(Cells), k \in 0..(NFaces(Fam, Dim, e) - 1)}
Empty == [d \in 1..(Dim + 1) |-> << >>]
OneEnt(e, S) == [Empty EXCEPT ![e + 1] = << SortedTuple(S) >>]
\* documented precondition (XASSERT in standard_target_refiner.hpp): a mesh part with its own topology must not contain
\* 3D cells ("TargetSet refinement not implemented for Tetrahedra" / "... for Hexahedra")
TopoAllowed(e) == e < 3
PartsOfDim(e, tag) ==
  LET L == SetToSeq(EntSets(e)) IN
    [j \in 1..Len(L) |-> [name |-> tag \o "b" \o ToString(j), ents |-> OneEnt(e, L[j]), deduce |-> "none", topo |-> FALSE]]
    \o (IF e = 0 THEN << >> ELSE
    [j \in 1..Len(L) |-> [name |-> tag \o "c" \o ToString(j), ents |-> OneEnt(e, L[j]), deduce |-> "top",
                           topo |-> (j % 2 = 1 /\ TopoAllowed(e))]])
BottomPart ==
  << [name |-> "vb", ents |-> [Empty EXCEPT ![1] = [k \in 1..Len(Cells[1]) |-> << Cells[1][k] >>]], deduce |-> "bottom", topo |-> FALSE] >>
Parts ==
  << [name |-> "bnd", boundary |-> TRUE] >>
  \o (IF PartLevel >= 1 THEN PartsOfDim(Dim - 1, "f") \o PartsOfDim(Dim, "c") \o BottomPart ELSE << >>)
  \o (IF PartLevel >= 2 THEN PartsOfDim(0, "v") \o (IF Dim = 3 THEN PartsOfDim(1, "e") ELSE << >>) ELSE << >>)

Emit == PrintT(ToJson([kind |-> "mesh", fam |-> Fam, dim |-> Dim, mode |-> Mode,
                       src |-> [raw |-> [X |-> X, cs |-> 0, cells |-> Cells]], parts |-> Parts]))
=============================================================================
