---------------------------- MODULE AssemblyTrace ----------------------------
(* C16 extension (C16x), part 1: Assembly::TraceAssembler (kernel/assembly/trace_assembler.hpp).                      *)
(*                                                                                                                   *)
(* (a) SELECTION MACHINE.  The assembler is a small state machine: a facet mask (add_facet / add_mesh_part), the      *)
(*     compiled list of (facet, adjacent cell) pairs (compile / compile_all_facets(inner, outer)) and clear().       *)
(*     Contract: compile() lists every masked facet exactly once per adjacent cell, compile_all_facets lists the     *)
(*     inner (two cells) and / or outer (one cell) facets, exactly once per adjacent cell, whatever the mask;        *)
(*     clear() returns the assembler to its state after construction ("Clears the assembler").                       *)
(*     TLC enumerates all histories of bounded length over a small alphabet (two overlapping boundary parts, one     *)
(*     boundary facet, one inner facet, the five compile operations, clear), one witness history per distinct         *)
(*     machine state (VIEW), and prints for each the expected compiled list.                                          *)
(* (b) INTEGRALS.  For the compiled list the assembled objects are integrals over the selected facets, every pair     *)
(*     (facet, cell) counted once:  sum of the boundary mass matrix B = measure;  v^T B u = int u v;  functional      *)
(*     vector b.u = int f u, sum b = int f;  assemble_discrete_integral(u_h) = int u;  a functional that uses the     *)
(*     normal computed by the assembler (tau.normal): b.u = int g u n_k (outer normal: facet orientation);            *)
(*     assemble_flow_accum: int v_k, int d_l v_k, int p;  the jump operator J(u,v) = int [u][v] and the kernel of     *)
(*     the jump stabilisation (gradient jumps) on inner facets.   All values are exact (AsmXMesh.tla).                *)
EXTENDS AsmXMesh, Json

CONSTANTS Tier,        \* 0 quick, 1 thorough
          MeshSel,     \* names of the meshes of the catalogue handled by this run
          NVariants,   \* variants 0..NVariants-1 of every mesh
          MaxOps,      \* length bound of the histories
          DegSlack,    \* cubature rules auto-degree:k for k in Req..Req+DegSlack
          CanonLen     \* the compiled lists reached by at most CanonLen operations get the full set of integral checks
ASSUME Tier \in {0, 1} /\ NVariants \in 1..8 /\ MaxOps \in 1..8 /\ DegSlack \in 0..2 /\ CanonLen \in 1..4

VARIABLES msh,        \* the mesh (a variant of a catalogue mesh), constant along a behaviour
          vk,       \* its variant number
          geo,      \* derived tables of the mesh, constant along a behaviour
          mask,     \* the facet mask: a set of facets (vertex sets)
          comp,     \* the compiled list: a set of (cell, local facet) pairs
          cleared,  \* clear() occurred in the history
          pre,      \* history abstraction: what was masked / compiled when clear() was called (distinguishes the witnesses)
          hist      \* the history: sequence of operations
vars == <<msh, vk, geo, mask, comp, cleared, pre, hist>>

DMax == 4          \* largest total degree of an integrated monomial
ExpsUpTo(dim, d) == {e \in [1..dim -> 0..d] : TotDeg(e) <= d}

\* ---- derived tables -----------------------------------------------------------------------------------------------
MinC(m, a) == CHOOSE x \in {m.X[v][a] : v \in 1..NV(m)} : \A v \in 1..NV(m) : x <= m.X[v][a]
MaxC(m, a) == CHOOSE x \in {m.X[v][a] : v \in 1..NV(m)} : \A v \in 1..NV(m) : x >= m.X[v][a]
GeoOf(m) ==
  LET CF == CellFacets(m)
      fo == TLCEval([cl \in CF |-> FacetOf(m, cl)])
      FS == {fo[cl] : cl \in CF}
      adj == TLCEval([F \in FS |-> {cl \in CF : fo[cl] = F}])
      bnd == {F \in FS : Cardinality(adj[F]) = 1}
      inn == {F \in FS : Cardinality(adj[F]) = 2}
      side(a, x) == {F \in bnd : \A v \in F : Pt(m, v)[a] = x}
      p1 == side(1, MinC(m, 1))
      p2 == p1 \cup side(2, MinC(m, 2))
      far == side(1, MaxC(m, 1))
      innsup == {F \in inn : \A cl \in adj[F] : FKind(m, cl) # "other"}
        FI == FInfoTable(m)
  IN [cf |-> CF, fo |-> fo, fi |-> FI, ir |-> IRefTable(FI, CF, ExpsUpTo(m.dim, DMax)), fs |-> FS, adj |-> adj, bnd |-> bnd, inn |-> inn, p1 |-> p1, p2 |-> p2,
      f1 |-> IF far = {} THEN {} ELSE {CHOOSE F \in far : TRUE},
      f2 |-> IF innsup = {} THEN {} ELSE {CHOOSE F \in innsup : TRUE}]

\* ---- the machine --------------------------------------------------------------------------------------------------
FacetSeq(F) == SortedSeq(F)
PartOp(name, P) == [op |-> "part", name |-> name, fs |-> [q \in 1..Cardinality(P) |-> FacetSeq(SetSeq(P)[q])]]
FacetOp(F) == [op |-> "facet", f |-> FacetSeq(F)]

Init ==
  /\ \E k \in 1..Len(Catalogue) : \E v \in 0..(NVariants - 1) :
       /\ Catalogue[k].t <= Tier /\ Catalogue[k].m.name \in MeshSel
       /\ msh = Variant(Catalogue[k].m, v) /\ vk = v
  /\ geo = GeoOf(msh)
  /\ mask = {} /\ comp = {} /\ cleared = FALSE /\ pre = << {}, {} >> /\ hist = << >>

Step(op, m2, c2, cl2) ==
  /\ Len(hist) < (IF vk = 0 THEN MaxOps ELSE CanonLen)      \* the long histories on the mesh as generated, the short ones on every variant
  /\ mask' = m2 /\ comp' = c2 /\ cleared' = cl2 /\ hist' = Append(hist, op)
  /\ pre' = IF op.op = "clear" THEN <<mask, comp>> ELSE pre
  /\ UNCHANGED <<msh, vk, geo>>

AddPart1 == geo.p1 # {} /\ Step(PartOp("p1", geo.p1), mask \cup geo.p1, comp, cleared)
AddPart2 == geo.p2 # geo.p1 /\ Step(PartOp("p2", geo.p2), mask \cup geo.p2, comp, cleared)
AddFacet1 == geo.f1 # {} /\ Step(FacetOp(CHOOSE F \in geo.f1 : TRUE), mask \cup geo.f1, comp, cleared)
AddFacet2 == geo.f2 # {} /\ Step(FacetOp(CHOOSE F \in geo.f2 : TRUE), mask \cup geo.f2, comp, cleared)
\* compile(): every masked facet, once per adjacent cell
Compile == Step([op |-> "compile"], mask, {cl \in geo.cf : geo.fo[cl] \in mask}, cleared)
\* compile_all_facets(inner, outer): independent of the mask, which it leaves alone
CompileAll(i, o) ==
  Step([op |-> "all", i |-> i, o |-> o], mask,
       {cl \in geo.cf : LET F == geo.fo[cl] IN (o /\ F \in geo.bnd) \/ (i /\ F \in geo.inn)}, cleared)
\* clear(): as after construction
Clear == ~cleared /\ Step([op |-> "clear"], {}, {}, TRUE)

Next == \/ AddPart1 \/ AddPart2 \/ AddFacet1 \/ AddFacet2 \/ Compile \/ Clear
        \/ \E i, o \in BOOLEAN : CompileAll(i, o)
Spec == Init /\ [][Next]_vars
View == <<msh.name, vk, mask, comp, cleared, pre>>

\* ---- laws of the specification itself (checked by TLC on every state) ---------------------------------------------
\* (laws of the mesh alone: evaluated once per mesh, in the initial state)
MeshLaws == hist = << >> => (MeshValid(msh) /\ MeshConforming(msh) /\ ClassOK(msh))
\* "every selected facet exactly once": the compiled list is a set of (cell, facet) pairs of the mesh, complete for its facets
CompLaw == /\ comp \subseteq geo.cf
           /\ \A cl \in comp : geo.adj[geo.fo[cl]] \subseteq comp
\* the boundary of the domain is closed: the outer normals of all boundary facets sum to zero (divergence theorem for 1), and the
\* flux of x_k n_k is the volume:  sum_k int x_k n_k = dim * |Omega|
NormalLaw ==
  LET B == {cl \in geo.cf : geo.fo[cl] \in geo.bnd} IN
  (hist = << >> /\ SelSupported(geo.fi, B) /\ msh.class = "box") =>
    /\ \A k \in 1..msh.dim : FluxVal(msh, geo.fi, geo.ir, B, ZeroE(msh.dim), k).t[1][1] = 0
    /\ \A k \in 1..msh.dim : LET v == FluxVal(msh, geo.fi, geo.ir, B, [a \in 1..msh.dim |-> IF a = k THEN 1 ELSE 0], k) IN v.t[1][1] = v.d

\* ---- what is assembled on a compiled list -------------------------------------------------------------------------
\* space configurations <<test, trial>>
SpaceCfgs(dim) == IF dim = 2 THEN {<<"lagrange1", "lagrange1">>, <<"lagrange2", "lagrange2">>, <<"crrt", "crrt">>, <<"disc0", "disc0">>,
                                   <<"lagrange1", "lagrange2">>, <<"disc0", "crrt">>}
                  ELSE {<<"lagrange1", "lagrange1">>, <<"lagrange2", "lagrange2">>, <<"lagrange1", "lagrange2">>, <<"crrt", "crrt">>}
AddE(u, v) == [k \in 1..Len(u) |-> u[k] + v[k]]
UnitE(dim, k) == [a \in 1..dim |-> IF a = k THEN 1 ELSE 0]
\* the traces of the monomials of Assembly!Monos lie in the trace space; crrt: the interpolant (facet midpoint values) of a linear
\* function reproduces it only on affine cells
SpMonos(s, m) == LET S == {e \in A!IdMonos(s, m.shape, m.dim, m.class) : TotDeg(e) <= DMax} IN
                 IF s = "crrt" /\ m.class = "general" THEN {e \in S : TotDeg(e) = 0} ELSE S
IdPairs(T, R, m) == {p \in SpMonos(R, m) \X SpMonos(T, m) : TotDeg(p[1]) + TotDeg(p[2]) <= DMax}      \* <<u (trial), v (test)>>
\* densities of the functionals: 1, x_1, x_1 x_2
FnMonos(dim) == {ZeroE(dim), UnitE(dim, 1), [a \in 1..dim |-> IF a <= 2 THEN 1 ELSE 0]}
\* the normal-flux functional  b_i = int g n_k phi_i  with g in {1, x_k, x_(k+1)}
FluxMonos(dim, k) == {ZeroE(dim), UnitE(dim, k), UnitE(dim, (k % dim) + 1)}
ReqDeg(T, R, m) == A!LocalDeg(T, m.shape) + A!LocalDeg(R, m.shape) + 2
\* velocity / pressure monomials of the flow accumulator (velocity = trial space, blocked; pressure = test space)
HasGrad(s) == s \in {"lagrange1", "lagrange2", "crrt"}


\* ---- jump operator  J(u, v) = sum over the selected facets E of int_E [u][v]  (assemble_jump_operator_matrix) ----------------
\* conforming spaces (and the monomials of SpMonos for the non-conforming one): the jump of a global polynomial vanishes on inner
\* facets, on a boundary facet [u] = u:  J(u, v) = int over the selected BOUNDARY facets of u v.
\* disc0 (2D): the interpolant of x^e is the piecewise constant of the cell barycentre values U_c:
\* J(u, v) = sum_{inner E} |E| (U_c1 - U_c2)(V_c1 - V_c2) + sum_{boundary E} |E| U_c V_c, every selected facet once
CellBary(e, c) == BaryVal(msh, RangeA(msh.cells[c]), e)
JumpDisc0(u, v) ==
  LET nvc == NVC(msh)   dg == TotDeg(u) + TotDeg(v)
      FS == {geo.fo[cl] : cl \in comp}
      term(F) == LET ad == SetSeq(geo.adj[F]) IN
                 IF Len(ad) = 1 THEN CellBary(u, ad[1][1]).n * CellBary(v, ad[1][1]).n
                 ELSE (CellBary(u, ad[1][1]).n - CellBary(u, ad[2][1]).n) * (CellBary(v, ad[1][1]).n - CellBary(v, ad[2][1]).n)
      j2(F) == geo.fi[CHOOSE cl \in geo.adj[F] : TRUE].j2
      rq == SetSeq({j2(F) : F \in FS})
      grp(r) == LET S == SetSeq({F \in FS : j2(F) = r}) IN SumA([q \in 1..Len(S) |-> term(S[q])])
  IN [d |-> MeshG(msh) * PowA(nvc * MeshG(msh), dg), t |-> [q \in 1..Len(rq) |-> <<grp(rq[q]), rq[q]>>]]

NoVal == [d |-> 1, t |-> << >>]
\* one full case: everything assembled with (test T, trial R) on the compiled list
FullCase(T, R, sl, sup, tab, ftab, btab) ==
  LET dim == msh.dim
      pairs == SetSeq(IdPairs(T, R, msh))
      tm == SetSeq(SpMonos(T, msh))
      rm == SetSeq(SpMonos(R, msh))
      tmd(d) == SetSeq({e \in SpMonos(T, msh) : TotDeg(e) + d <= DMax})      \* test monomials that may meet a density of degree d
      fns == SetSeq(FnMonos(dim))
  IN [kind |-> "trace", sup |-> sup, test |-> T, trial |-> R, deg |-> ReqDeg(T, R, msh) + sl,
      pou |-> A!PartitionOfUnity(T) /\ A!PartitionOfUnity(R),
      alphas |-> A!Alphas,
      len |-> tab[ZeroE(dim)],
      ids |-> [q \in 1..Len(pairs) |-> [u |-> pairs[q][1], v |-> pairs[q][2], val |-> tab[AddE(pairs[q][1], pairs[q][2])]]],
      \* jump operators (identical spaces): the jump operator on the compiled list, and the jump stabilisation (gradient jumps),
      \* which vanishes on every pair of global polynomials of the space if only inner facets are selected
      jump |-> IF T # R THEN << >>
               ELSE [q \in 1..Len(pairs) |-> [u |-> pairs[q][1], v |-> pairs[q][2],
                       val |-> IF ~sup THEN NoVal ELSE IF T = "disc0" THEN JumpDisc0(pairs[q][1], pairs[q][2])
                               ELSE btab[AddE(pairs[q][1], pairs[q][2])]]],
      jstabzero |-> T = R /\ HasGrad(T) /\ \A cl \in comp : geo.fo[cl] \in geo.inn,
      \* functional vectors (test space):  f, then per monomial u of the test space  b.u = int f u
      fns |-> [q \in 1..Len(fns) |-> [f |-> fns[q], sum |-> tab[fns[q]],
                 ids |-> LET um == tmd(TotDeg(fns[q])) IN [r \in 1..Len(um) |-> [u |-> um[r], val |-> tab[AddE(fns[q], um[r])]]]]],
      \* discrete integrals of the monomials of the trial space
      dint |-> [r \in 1..Len(rm) |-> [u |-> rm[r], val |-> tab[rm[r]]]],
      \* normal flux functionals (test space)
      flux |-> [k \in 1..dim |-> LET gs == SetSeq(FluxMonos(dim, k)) IN
                 [q \in 1..Len(gs) |-> [g |-> gs[q], ids |-> LET um == tmd(TotDeg(gs[q])) IN
                                           [r \in 1..Len(um) |-> [u |-> um[r], val |-> ftab[k][AddE(gs[q], um[r])]]]]]],
      \* flow accumulator: velocity component monomials w (trial space, must have gradients), pressure monomials (test space):
      \* int w, int d_l w = e_l * int x^(e - e_l), int p
      flow |-> IF HasGrad(R) THEN
                 [v |-> [r \in 1..Len(rm) |-> [w |-> rm[r], val |-> tab[rm[r]],
                           grad |-> [l \in 1..dim |-> IF rm[r][l] = 0 THEN [c |-> 0, val |-> tab[ZeroE(dim)]]
                                                      ELSE [c |-> rm[r][l], val |-> tab[[rm[r] EXCEPT ![l] = @ - 1]]]]]],
                  p |-> [r \in 1..Len(tm) |-> [w |-> tm[r], val |-> tab[tm[r]]]]]
               ELSE [v |-> << >>, p |-> << >>]]

\* expected compiled list: <<sorted facet vertices, cell (0-based)>>
SelSeq == LET S == SetSeq(comp) IN [q \in 1..Len(S) |-> [f |-> FacetSeq(geo.fo[S[q]]), c |-> S[q][1] - 1]]
MeshJson == [name |-> msh.name, shape |-> msh.shape, dim |-> msh.dim, class |-> msh.class, cs |-> msh.cs, X |-> msh.X, cells |-> msh.cells,
             route |-> IF vk % 2 = 0 THEN "deduct" ELSE "factory"]
LastOp == IF hist = << >> THEN "none" ELSE hist[Len(hist)].op
\* canonical states get the full set of integral checks, every state the selection check
Canonical == ~cleared /\ Len(hist) <= CanonLen /\ LastOp \in {"compile", "all"} /\ comp # {}
CaseId == msh.name \o "_v" \o ToString(vk) \o "_h" \o ToString(Len(hist))

Emit ==
  hist # << >> =>
    LET sup == SelSupported(geo.fi, comp) IN
    /\ PrintT(ToJson([kind |-> "sel", mesh |-> MeshJson, variant |-> vk, hist |-> hist, sel |-> SelSeq, cleared |-> cleared,
                      sup |-> sup, len |-> IF sup THEN MomVal(msh, geo.fi, geo.ir, comp, ZeroE(msh.dim)) ELSE NoVal]))
    /\ Canonical =>
         LET dim == msh.dim
             tab == TLCEval([e \in ExpsUpTo(dim, DMax) |-> IF sup THEN MomVal(msh, geo.fi, geo.ir, comp, e) ELSE NoVal])
             ftab == TLCEval([k \in 1..dim |-> [e \in ExpsUpTo(dim, DMax) |-> IF sup THEN FluxVal(msh, geo.fi, geo.ir, comp, e, k) ELSE NoVal]])
             bsel == {cl \in comp : geo.fo[cl] \in geo.bnd}
             btab == TLCEval([e \in ExpsUpTo(dim, DMax) |-> IF sup THEN MomVal(msh, geo.fi, geo.ir, bsel, e) ELSE NoVal])
         IN \A cfg \in SpaceCfgs(dim) : \A sl \in 0..DegSlack :
              PrintT(ToJson([mesh |-> MeshJson, variant |-> vk, hist |-> hist, sel |-> SelSeq]
                            @@ FullCase(cfg[1], cfg[2], sl, sup, tab, ftab, btab)))
=============================================================================
