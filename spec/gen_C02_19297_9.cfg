SPECIFICATION Spec
CONSTANTS NS = 1 Depth = 2 Seeds = {"csr_small", "bcsr_perm"} SeedTypes = {"f64u64"}
 Ops = {"permute"} Types = {} PermSel = "all" Palette = 1
INVARIANTS RepValid LawsHold ChunksExist Emit
CHECK_DEADLOCK FALSE
