SPECIFICATION Spec
CONSTANTS Family = "chain" MinN = 0 MaxN = 3 BS = 1 Depth = 3 Pal = 1
INVARIANTS FilterOK ExactDomain ConstraintHolds ComplementHolds IdempotentHolds Emit
CHECK_DEADLOCK FALSE
