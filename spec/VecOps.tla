------------------------------- MODULE VecOps -------------------------------
(* C04: vector operations on every LAFEM vector kind.                       *)
(*                                                                          *)
(* A vector is described by a SHAPE (how the scalars are organised:         *)
(* DenseVector, DenseVectorBlocked<bs>, SparseVector, SparseVectorBlocked,  *)
(* TupleVector<...>, PowerVector<...,n>, nested) and its FLAT contents, a   *)
(* sequence of integers - Flat(shape, rep) of DESIGN.md.  Every operation is *)
(* defined on the flat sequences only (IntLinAlg), so "a blocked or         *)
(* composed vector behaves exactly like the plain vector holding the same   *)
(* scalars" is built into the oracle; the structural (first/rest, per-block)*)
(* formulations the code uses are stated as laws (invariants ComposeLaw,    *)
(* BlockedIsPlain) which TLC checks on every generated state.               *)
(*                                                                          *)
(* State: three slots v[1..3] of the same shape (three distinct objects in  *)
(* the implementation).  A call names its operands by slot number, so       *)
(* aliasing (r==x, r==y, x==y, all equal) is an explicit argument.  This    *)
(* FEAT version's signatures:  r.axpy(x,a): r += a x;  r.scale(x,a): r = a x;*)
(* r.component_product(x,y); r.component_invert(x,a): r_i = a / x_i;        *)
(* r.dot(x); r.triple_dot(x,y) = sum r_i x_i y_i; r.copy(x); r.format(a).   *)
(* The receiver is always slot 1.  alpha = an/ad is dyadic; the written     *)
(* slot is predicted scaled by `wden`, scalar results scaled by `rden`.     *)
(* Frame condition: the slots not written are unchanged.                    *)
(*                                                                          *)
(* Size 0: the linear operations and reductions are defined on the empty    *)
(* vector (result 0 / no-op); max/min(_abs)_element read element 0 (ASSERT  *)
(* index < size) and are enabled only when every leaf vector is non-empty.  *)
EXTENDS IntLinAlg, SequencesExt, Json, TLC

CONSTANTS Family,   \* "dense" | "blocked" | "tuple" | "power" | "sparse" | "sblocked"
          MaxLen,   \* bound on leaf lengths (dense: length, blocked: number of blocks, composed: per component)
          Palette   \* 1 small signed with zeros, 2 signed powers of two, 3 large magnitude spread

VARIABLES ph, shape, v, call, out
vars == <<ph, shape, v, call, out>>

(***************************************************************************)
(* shapes                                                                   *)
(***************************************************************************)
Sh(k, bs, n, ins, parts) == [k |-> k, bs |-> bs, n |-> n, ins |-> ins, junk |-> 0, parts |-> parts, off |-> 0, pn |-> 0, sib |-> -1]
D(n)          == Sh("dense", 1, n, <<>>, <<>>)
B(bs, n)      == Sh("blocked", bs, n, <<>>, <<>>)
\* sparse kinds carry their WRITE HISTORY: ins = the 0-based indices in the order they are written through
\* operator()(index, value); an index written again is an overwrite, every superseded write stores `junk`
S(n, ins, junk) == [Sh("sparse", 1, n, ins, <<>>) EXCEPT !.junk = junk]
SB(bs, n, ins, junk) == [Sh("sblocked", bs, n, ins, <<>>) EXCEPT !.junk = junk]
\* ranged views DenseVector(src, n, off) / DenseVectorBlocked<bs>(src, n, off): a vector of n (blocks) whose memory is
\* the window [off, off+n) of a parent vector of pn (blocks).  Every slot is a view of its own parent; with sib >= 0
\* slot 2 is instead a second view of slot 1's parent, over the disjoint window [sib, sib+n)
DV(n, off, pn, sib)     == [Sh("dview", 1, n, <<>>, <<>>) EXCEPT !.off = off, !.pn = pn, !.sib = sib]
BV(bs, n, off, pn, sib) == [Sh("bview", bs, n, <<>>, <<>>) EXCEPT !.off = off, !.pn = pn, !.sib = sib]
IsView(sh) == sh.k \in {"dview", "bview"}
T(parts)      == Sh("tuple", 1, 0, <<>>, parts)
P(parts)      == Sh("power", 1, 0, <<>>, parts)      \* all parts have the same type (lengths may differ)

RECURSIVE FlatLen(_)
FlatLen(sh) == IF sh.k \in {"tuple", "power"}
               THEN SumSeq([p \in 1..Len(sh.parts) |-> FlatLen(sh.parts[p])])
               ELSE sh.n * sh.bs
\* flat lengths of the leaf vectors, left to right (the order first()/rest() recursion visits them)
RECURSIVE LeafLens(_)
LeafLens(sh) == IF sh.k \in {"tuple", "power"}
                THEN Flatten([p \in 1..Len(sh.parts) |-> LeafLens(sh.parts[p])])
                ELSE <<sh.n * sh.bs>>
AllLeavesNonEmpty(sh) == \A k \in 1..Len(LeafLens(sh)) : LeafLens(sh)[k] > 0

\* stored flat positions (1-based) of a sparse shape; all positions for the other kinds
Stored(sh) == IF sh.k \in {"sparse", "sblocked"}
              THEN {e * sh.bs + j : e \in {sh.ins[q] : q \in 1..Len(sh.ins)}, j \in 1..sh.bs}
              ELSE 1..FlatLen(sh)

\* write histories of an index set: ascending, descending (no overwrite), and with overwrites: the first index
\* rewritten at the end, the last index written first and rewritten in turn, the first index written three times
HasDup(o) == \E a, b \in 1..Len(o) : a # b /\ o[a] = o[b]
Orders(Ix) == LET asc == SetToSortSeq(Ix, <)  nn == Len(asc) IN
              {asc, [q \in 1..nn |-> asc[nn + 1 - q]]} \cup
              (IF Ix = {} THEN {} ELSE {asc \o <<asc[1]>>, <<asc[nn]>> \o asc, <<asc[1]>> \o asc \o <<asc[1]>>})
\* the superseded value: larger than / smaller than every live entry of every palette, and of smallest magnitude --
\* an implementation that lets a superseded value take part in max/min/min_abs/max_abs is caught by one of them
Junks(o) == IF HasDup(o) THEN {2000, -2000, 0} ELSE {0}

Shapes ==
  CASE Family = "dense"   -> {D(n) : n \in 0..MaxLen}
    [] Family = "blocked" -> {B(bs, n) : bs \in 1..4, n \in 0..MaxLen}
    [] Family = "tuple"   ->
         {T(<<D(a)>>) : a \in 0..MaxLen} \cup
         {T(<<D(a), D(b)>>) : a, b \in 0..MaxLen} \cup
         {T(<<D(a), B(2, b)>>) : a, b \in 0..MaxLen} \cup
         {T(<<B(3, a), D(b), D(1)>>) : a, b \in 0..MaxLen} \cup
         {T(<<P(<<D(a), D(b)>>), B(2, 1)>>) : a, b \in 0..MaxLen}
    [] Family = "power"   ->
         {P(<<D(a)>>) : a \in 0..MaxLen} \cup
         {P(<<D(a), D(b)>>) : a, b \in 0..MaxLen} \cup
         {P(<<D(a), D(b), D(2)>>) : a, b \in 0..MaxLen} \cup
         {P(<<B(2, a), B(2, b)>>) : a, b \in 0..MaxLen} \cup
         {P(<<T(<<D(a), B(2, 1)>>), T(<<D(1), B(2, b)>>)>>) : a, b \in 0..MaxLen}
    [] Family = "view"    ->
         LET Sibs(n, off, pn) == {-1} \cup {sb \in 0..(pn - n) : n > 0 /\ (sb + n <= off \/ off + n <= sb)} IN
         UNION {UNION {UNION {{DV(n, off, pn, sb) : sb \in Sibs(n, off, pn)} : n \in 1..(pn - off)} : off \in 0..pn} : pn \in 1..MaxLen} \cup
         UNION {UNION {UNION {UNION {{BV(bs, n, off, pn, sb) : sb \in Sibs(n, off, pn)} : n \in 0..(pn - off)} : off \in 0..pn} : pn \in 1..MaxLen} : bs \in 1..3}
    [] Family = "sparse"  -> UNION {UNION {UNION {{S(n, o, jk) : jk \in Junks(o)} : o \in Orders(Ix)} : Ix \in SUBSET (0..(n-1))} : n \in 0..MaxLen}
    [] Family = "sblocked" -> UNION {UNION {UNION {UNION {{SB(bs, n, o, jk) : jk \in Junks(o)} : o \in Orders(Ix)} : Ix \in SUBSET (0..(n-1))} : n \in 0..MaxLen} : bs \in 1..3}

(***************************************************************************)
(* values                                                                   *)
(***************************************************************************)
Pow2(k) == LET PW[q \in 0..k] == IF q = 0 THEN 1 ELSE 2 * PW[q-1] IN PW[k]
Spread == <<1, -1024, 3, 512, 0, -7, 256, -2, 64>>
PVal(s, i) ==
  CASE Palette = 1 -> ((i * 3 + s * 5) % 7) - 3
    [] Palette = 2 -> (IF (i + s) % 3 = 0 THEN -1 ELSE 1) * Pow2((i + 2 * s) % 5)
    [] Palette = 3 -> Spread[((i + 3 * s) % 9) + 1]
\* the writes of slot s of a sparse shape: [i |-> index, val |-> block of bs values]; the last write of an index
\* carries the palette value of its flat positions, every earlier (superseded) write the junk value
IsLastWrite(sh, q) == \A r \in (q+1)..Len(sh.ins) : sh.ins[r] # sh.ins[q]
Writes(sh, s) == [q \in 1..Len(sh.ins) |->
                   [i |-> sh.ins[q], val |-> [j \in 1..sh.bs |-> IF IsLastWrite(sh, q) THEN PVal(s, sh.ins[q] * sh.bs + j) ELSE sh.junk]]]
\* Flat of a write history: last write wins, never written = 0
FlatOfWrites(len, bs, w) == [p \in 1..len |->
                   LET e == (p - 1) \div bs  j == ((p - 1) % bs) + 1
                       Q == {q \in 1..Len(w) : w[q].i = e}
                   IN IF Q = {} THEN 0 ELSE w[CHOOSE q \in Q : \A r \in Q : r <= q].val[j]]
\* parents of the views and the window of a flat vector
Parent(sh, s) == [i \in 1..(sh.pn * sh.bs) |-> PVal(s, i)]
Window(x, from, len) == [i \in 1..len |-> x[from + i]]
SlotVec(sh, s) == IF sh.k \in {"sparse", "sblocked"} THEN FlatOfWrites(FlatLen(sh), sh.bs, Writes(sh, s))
                  ELSE IF IsView(sh) THEN (IF s = 2 /\ sh.sib >= 0 THEN Window(Parent(sh, 1), sh.sib * sh.bs, sh.n * sh.bs)
                                           ELSE Window(Parent(sh, s), sh.off * sh.bs, sh.n * sh.bs))
                  ELSE [i \in 1..FlatLen(sh) |-> PVal(s, i)]

Alphas == {<<0, 1>>, <<1, 1>>, <<-1, 1>>, <<2, 1>>, <<-1, 2>>, <<-5, 2>>}
AbsVec(x) == [i \in 1..Len(x) |-> Abs(x[i])]
Sgn(a) == IF a < 0 THEN -1 ELSE 1
Lim == 16777216        \* 2^24: below it every integer is a float

(***************************************************************************)
(* state machine                                                            *)
(***************************************************************************)
NoCall == [op |-> "none", x |-> 0, y |-> 0, an |-> 0, ad |-> 1, blk |-> 0, twin |-> FALSE]
NoOut  == [post |-> <<>>, wden |-> 1, res |-> <<>>, rden |-> 1, rkind |-> "none", aux |-> <<>>, auxpost |-> <<>>, mag |-> 0, pp |-> <<>>]

Init ==
  /\ ph = "init"
  /\ \E sh \in Shapes : shape = sh /\ v = <<SlotVec(sh, 1), SlotVec(sh, 2), SlotVec(sh, 3)>>
  /\ call = NoCall /\ out = NoOut

\* views: an operand that names slot 1 is either the receiver object itself or (twin) a second view object over the
\* same window of the same parent -- two objects, one memory
Fin(c, o) == /\ ph' = "done" /\ out' = o /\ UNCHANGED <<shape, v>>
             /\ \E tw \in (IF Family = "view" /\ (c.x = 1 \/ c.y = 1) /\ c.op \notin {"p_scale", "p_axpy"} THEN BOOLEAN ELSE {FALSE}) : call' = [c EXCEPT !.twin = tw]
Call(op, x, y, an, ad) == [op |-> op, x |-> x, y |-> y, an |-> an, ad |-> ad, blk |-> 0, twin |-> FALSE]
\* slot 1 := w (scaled by wden); magnitude = largest |scaled entry|
Wr(w, wden) == [NoOut EXCEPT !.post = <<w, v[2], v[3]>>, !.wden = wden,
                             !.mag = IF Len(w) = 0 THEN 0 ELSE MaxSeq(AbsVec(w))]
\* scalar result(s)
Rs(res, kind, mag) == [NoOut EXCEPT !.post = v, !.res = res, !.rkind = kind, !.mag = mag]

Generic == Family \in {"dense", "blocked", "tuple", "power", "view"}
Pairs == {<<2, 3>>, <<1, 2>>, <<2, 1>>, <<2, 2>>, <<1, 1>>}     \* (x,y): no alias, r==x, r==y, x==y, all equal

\* r += alpha x
AxpyOp == /\ ph = "init" /\ Generic
          /\ \E x \in {1, 2}, al \in Alphas :
               Fin(Call("axpy", x, 0, al[1], al[2]), Wr(Axpy(al[1], v[x], Scale(al[2], v[1])), al[2]))
\* r = alpha x
ScaleOp == /\ ph = "init" /\ Generic
           /\ \E x \in {1, 2}, al \in Alphas :
                Fin(Call("scale", x, 0, al[1], al[2]), Wr(Scale(al[1], v[x]), al[2]))
\* r_i = x_i y_i
CompProdOp == /\ ph = "init" /\ Generic
              /\ \E p \in Pairs : Fin(Call("component_product", p[1], p[2], 1, 1), Wr(CompProd(v[p[1]], v[p[2]]), 1))
\* r_i = alpha / x_i   for x_i = +-2^k, k <= 4 : the quotient is the dyadic  an * sgn * 2^(4-k) / (16 ad)
IsPow2(a) == Abs(a) \in {1, 2, 4, 8, 16}
CompInvOp == /\ ph = "init" /\ Generic /\ Palette = 2
             /\ \E x \in {1, 2}, al \in Alphas :
                  /\ \A i \in 1..Len(v[x]) : IsPow2(v[x][i])
                  /\ Fin(Call("component_invert", x, 0, al[1], al[2]),
                         Wr([i \in 1..Len(v[x]) |-> Sgn(v[x][i]) * al[1] * (16 \div Abs(v[x][i]))], 16 * al[2]))
\* this . x
DotOp == /\ ph = "init" /\ Generic
         /\ \E x \in {1, 2} : Fin(Call("dot", x, 0, 1, 1), Rs(<<Dot(v[1], v[x])>>, "exact", Dot(AbsVec(v[1]), AbsVec(v[x]))))
\* sum this_i x_i y_i
TripleDotOp == /\ ph = "init" /\ Generic /\ Palette # 3
               /\ \E p \in Pairs : Fin(Call("triple_dot", p[1], p[2], 1, 1),
                                       Rs(<<TripleDot(v[1], v[p[1]], v[p[2]])>>, "exact", TripleDot(AbsVec(v[1]), AbsVec(v[p[1]]), AbsVec(v[p[2]]))))
\* norms: the specification supplies N = sum of squares; norm2 must satisfy |r^2 - N| <= c eps N (rkind sqrt),
\* norm2sqr likewise for r (the code squares the rooted value)
Norm2Op == /\ ph = "init" /\ Generic
           /\ \E op \in {"norm2", "norm2sqr"} : Fin(Call(op, 0, 0, 1, 1), Rs(<<Norm2Sqr(v[1])>>, IF op = "norm2" THEN "sqrt" ELSE "sqr", Norm2Sqr(v[1])))
MaxMinOp == /\ ph = "init" /\ Generic /\ AllLeavesNonEmpty(shape) /\ FlatLen(shape) > 0
            /\ \E op \in {"max_abs_element", "min_abs_element", "max_element", "min_element"} :
                 Fin(Call(op, 0, 0, 1, 1),
                     Rs(<<CASE op = "max_abs_element" -> MaxSeq(AbsVec(v[1])) [] op = "min_abs_element" -> MinSeq(AbsVec(v[1]))
                            [] op = "max_element" -> MaxSeq(v[1]) [] op = "min_element" -> MinSeq(v[1])>>, "exact", 0))
CopyOp == /\ ph = "init" /\ Generic
          /\ \E x \in {1, 2} : Fin(Call("copy", x, 0, 1, 1), Wr(v[x], 1))
FormatOp == /\ ph = "init" /\ Generic
            /\ \E al \in {<<0, 1>>, <<3, 1>>, <<-5, 2>>} : Fin(Call("format", 0, 0, al[1], al[2]), Wr([i \in 1..Len(v[1]) |-> al[1]], al[2]))

(***************************************************************************)
(* DenseVectorBlocked only: per-component ("_blocked") variants and         *)
(* component_copy.  Component j (1..bs) of block i (1..n) is flat position  *)
(* (i-1) bs + j.  Block-valued scalars alpha[j] = AV[j] / 2.                *)
(***************************************************************************)
AV == <<2, -1, 0, -5>>
Comp(x, bs, j) == [i \in 1..(Len(x) \div bs) |-> x[(i-1) * bs + j]]
JOf(bs, i) == ((i - 1) % bs) + 1
BlkCall(op, x, y, blk) == [op |-> op, x |-> x, y |-> y, an |-> 0, ad |-> 2, blk |-> blk, twin |-> FALSE]
IsB == Family = "blocked" \/ (Family = "view" /\ shape.k = "bview")
AxpyBlockedOp == /\ ph = "init" /\ IsB
                 /\ \E x \in {1, 2} : Fin(BlkCall("axpy_blocked", x, 0, 0),
                        Wr([i \in 1..Len(v[1]) |-> 2 * v[1][i] + AV[JOf(shape.bs, i)] * v[x][i]], 2))
ScaleBlockedOp == /\ ph = "init" /\ IsB
                  /\ \E x \in {1, 2} : Fin(BlkCall("scale_blocked", x, 0, 0),
                        Wr([i \in 1..Len(v[1]) |-> AV[JOf(shape.bs, i)] * v[x][i]], 2))
DotBlockedOp == /\ ph = "init" /\ IsB
                /\ \E x \in {1, 2} : Fin(BlkCall("dot_blocked", x, 0, 0),
                      Rs([j \in 1..shape.bs |-> Dot(Comp(v[1], shape.bs, j), Comp(v[x], shape.bs, j))], "exact", Dot(AbsVec(v[1]), AbsVec(v[x]))))
TripleDotBlockedOp == /\ ph = "init" /\ IsB /\ Palette # 3
                      /\ \E p \in Pairs : Fin(BlkCall("triple_dot_blocked", p[1], p[2], 0),
                            Rs([j \in 1..shape.bs |-> TripleDot(Comp(v[1], shape.bs, j), Comp(v[p[1]], shape.bs, j), Comp(v[p[2]], shape.bs, j))],
                               "exact", TripleDot(AbsVec(v[1]), AbsVec(v[p[1]]), AbsVec(v[p[2]]))))
Norm2BlockedOp == /\ ph = "init" /\ IsB
                  /\ \E op \in {"norm2_blocked", "norm2sqr_blocked"} : Fin(BlkCall(op, 0, 0, 0),
                        Rs([j \in 1..shape.bs |-> Norm2Sqr(Comp(v[1], shape.bs, j))], IF op = "norm2_blocked" THEN "sqrt" ELSE "exact", Norm2Sqr(v[1])))
MaxMinBlockedOp == /\ ph = "init" /\ IsB /\ shape.n > 0
                   /\ \E op \in {"max_abs_element_blocked", "min_abs_element_blocked", "max_element_blocked", "min_element_blocked"} :
                        Fin(BlkCall(op, 0, 0, 0),
                            Rs([j \in 1..shape.bs |-> LET c == Comp(v[1], shape.bs, j) IN
                                  CASE op = "max_abs_element_blocked" -> MaxSeq(AbsVec(c)) [] op = "min_abs_element_blocked" -> MinSeq(AbsVec(c))
                                    [] op = "max_element_blocked" -> MaxSeq(c) [] op = "min_element_blocked" -> MinSeq(c)], "exact", 0))
\* component_copy(d, j): component j of every block := d ; component_copy_to(d, j): d := component j
\* (d = a DenseVector of length n; documented parameter: "the index of the block component", 0 <= j < bs)
AuxVec(n) == [i \in 1..n |-> 40 + 3 * i]
CompCopyOp == /\ ph = "init" /\ IsB /\ shape.n > 0
              /\ \E j \in 1..shape.bs :
                   \/ Fin(BlkCall("component_copy", 0, 0, j - 1),
                          [Wr([i \in 1..Len(v[1]) |-> IF JOf(shape.bs, i) = j THEN AuxVec(shape.n)[((i-1) \div shape.bs) + 1] ELSE v[1][i]], 1)
                             EXCEPT !.aux = AuxVec(shape.n), !.auxpost = AuxVec(shape.n)])
                   \/ Fin(BlkCall("component_copy_to", 0, 0, j - 1),
                          [Wr(v[1], 1) EXCEPT !.aux = AuxVec(shape.n), !.auxpost = Comp(v[1], shape.bs, j)])

\* DenseVector::copy(any vector) / copy_inv(any vector): d := Flat(v1) resp. v1 := d for a plain DenseVector d
\* of the flat length -- the statement "a blocked or composed vector behaves like the plain vector" as a call
DenseCopyOp == /\ ph = "init" /\ Family \in {"blocked", "tuple", "power"}
               /\ LET d == AuxVec(FlatLen(shape)) IN
                    \/ Fin(Call("copy_to_dense", 0, 0, 1, 1), [Wr(v[1], 1) EXCEPT !.aux = d, !.auxpost = v[1]])
                    \/ Fin(Call("copy_from_dense", 0, 0, 1, 1), [Wr(d, 1) EXCEPT !.aux = d, !.auxpost = d])

(***************************************************************************)
(* SparseVector / SparseVectorBlocked: element access (the container built  *)
(* by raw arrays or by element-wise insertion represents Flat), format and  *)
(* the extremal elements.  The API does not say whether the implicit zeros  *)
(* take part in max/min: the calls are generated where both readings agree  *)
(* (always when every position is stored) and at least one entry is stored. *)
(* The vector is given by its write history (Writes); its contents are the  *)
(* last-write-wins Flat of the history, whatever was written before and     *)
(* whichever accessor is called first after the writes: the replayer issues *)
(* the call under test as the FIRST access after the writes (the container  *)
(* sorts and drops superseded writes lazily), then reads everything back.   *)
(***************************************************************************)
IsS == Family \in {"sparse", "sblocked"}
StoredVals == LET st == SetToSortSeq(Stored(shape), <) IN [q \in 1..Len(st) |-> v[1][st[q]]]
SBuildOp == /\ ph = "init" /\ IsS
            /\ Fin(Call("build", 0, 0, 1, 1), Wr(v[1], 1))
SFormatOp == /\ ph = "init" /\ IsS
             /\ \E al \in {<<0, 1>>, <<3, 1>>, <<-5, 2>>} :
                  Fin(Call("format", 0, 0, al[1], al[2]), Wr([i \in 1..Len(v[1]) |-> IF i \in Stored(shape) THEN al[1] ELSE 0], al[2]))
SMaxMinOp == /\ ph = "init" /\ IsS /\ Stored(shape) # {}
             /\ \E op \in {"max_abs_element", "min_abs_element", "max_element", "min_element"} :
                  LET f(w) == CASE op = "max_abs_element" -> MaxSeq(AbsVec(w)) [] op = "min_abs_element" -> MinSeq(AbsVec(w))
                                [] op = "max_element" -> MaxSeq(w) [] op = "min_element" -> MinSeq(w)
                  IN /\ f(v[1]) = f(StoredVals)
                     /\ Fin(Call(op, 0, 0, 1, 1), Rs(<<f(v[1])>>, "exact", 0))

(***************************************************************************)
(* ranged views: besides every operation above applied to the views, the    *)
(* same operations applied to the PARENT of slot 1 (the view then shows the *)
(* window of the new parent), and a deep clone of a view (an independent    *)
(* vector with the contents of the view).                                   *)
(***************************************************************************)
IsV == Family = "view"
PWr(pnew, wden) == [Wr(Window(pnew, shape.off * shape.bs, shape.n * shape.bs), wden) EXCEPT !.pp = pnew,
                       !.mag = IF Len(pnew) = 0 THEN 0 ELSE MaxSeq(AbsVec(pnew))]
ParentOp == /\ ph = "init" /\ IsV /\ shape.sib = -1
            /\ \E al \in {<<2, 1>>, <<-5, 2>>} :
                 \/ Fin(Call("p_format", 0, 0, al[1], al[2]), PWr([i \in 1..(shape.pn * shape.bs) |-> al[1]], al[2]))
                 \/ \E x \in {1, 2} : Fin(Call("p_scale", x, 0, al[1], al[2]), PWr(Scale(al[1], Parent(shape, x)), al[2]))
                 \/ \E x \in {1, 2} : Fin(Call("p_axpy", x, 0, al[1], al[2]), PWr(Axpy(al[1], Parent(shape, x), Scale(al[2], Parent(shape, 1))), al[2]))
                 \/ (al = <<2, 1>> /\ Fin(Call("p_copy", 2, 0, 1, 1), PWr(Parent(shape, 2), 1)))
CloneOp == /\ ph = "init" /\ IsV
           /\ Fin(Call("clone_deep", 0, 0, 1, 1), [Wr(v[1], 1) EXCEPT !.auxpost = v[1]])
\* the parents after the call (parent 1 scaled by wden like slot 1)
PPost(s) == IF s = 1 THEN (IF out.pp # <<>> THEN out.pp
                           ELSE [i \in 1..(shape.pn * shape.bs) |->
                                   IF i > shape.off * shape.bs /\ i <= (shape.off + shape.n) * shape.bs
                                   THEN out.post[1][i - shape.off * shape.bs] ELSE out.wden * Parent(shape, 1)[i]])
            ELSE Parent(shape, s)

Next == ParentOp \/ CloneOp \/ AxpyOp \/ ScaleOp \/ CompProdOp \/ CompInvOp \/ DotOp \/ TripleDotOp \/ Norm2Op \/ MaxMinOp \/ CopyOp \/ FormatOp
        \/ AxpyBlockedOp \/ ScaleBlockedOp \/ DotBlockedOp \/ TripleDotBlockedOp \/ Norm2BlockedOp \/ MaxMinBlockedOp \/ CompCopyOp \/ DenseCopyOp
        \/ SBuildOp \/ SFormatOp \/ SMaxMinOp
Spec == Init /\ [][Next]_vars

(***************************************************************************)
(* laws of the specification (checked by TLC in every generated state)      *)
(***************************************************************************)
\* operands that are not written keep their value; result lengths
Frame == ph = "done" => /\ Len(out.post) = 3 /\ out.post[2] = v[2] /\ out.post[3] = v[3]
                        /\ Len(out.post[1]) = FlatLen(shape) /\ Len(v[1]) = FlatLen(shape)
\* everything predicted stays an exactly representable float after scaling
ExactDomain == ph = "done" => /\ out.mag < Lim
                              /\ \A s \in 1..3 : \A i \in 1..Len(v[s]) : Abs(v[s][i]) < Lim
\* the dedicated alias branches of the kernels are algebraic identities of the definition
AliasLaws == ph = "done" =>
  /\ (call.op = "axpy" /\ call.x = 1 => out.post[1] = Scale(call.ad + call.an, v[1]))               \* r += a r  =  (1+a) r
  /\ (call.op = "dot" /\ call.x = 1 => out.res[1] = Norm2Sqr(v[1]))
  /\ (call.op = "component_product" /\ call.x = 1 /\ call.y = 1 => out.post[1] = [i \in 1..Len(v[1]) |-> v[1][i] * v[1][i]])
  /\ (call.op = "triple_dot" /\ call.x = call.y => out.res[1] = Dot(v[1], CompProd(v[call.x], v[call.x])))
  /\ (call.op = "axpy" /\ call.an = 0 => out.post[1] = Scale(call.ad, v[1]))
  /\ (call.op = "copy" /\ call.x = 1 => out.post[1] = v[1])
\* last-write-wins: the contents of a sparse vector do not depend on the superseded writes or the write order
HistoryLaw == IsS => /\ v[1] = [i \in 1..FlatLen(shape) |-> IF i \in Stored(shape) THEN PVal(1, i) ELSE 0]
                     /\ \A q \in 1..Len(shape.ins) : ~IsLastWrite(shape, q) => \A j \in 1..shape.bs : Writes(shape, 1)[q].val[j] = shape.junk
\* a view and its parent are one memory: after every call the view shows the window of its parent, a call on a view
\* leaves the parent unchanged outside the window (in particular inside a disjoint sibling window)
ViewLaw == ph = "done" /\ IsV =>
  /\ Window(PPost(1), shape.off * shape.bs, shape.n * shape.bs) = out.post[1]
  /\ (out.pp = <<>> => \A i \in 1..(shape.pn * shape.bs) :
         (i <= shape.off * shape.bs \/ i > (shape.off + shape.n) * shape.bs) => PPost(1)[i] = out.wden * Parent(shape, 1)[i])
  /\ (shape.sib >= 0 => Window(PPost(1), shape.sib * shape.bs, shape.n * shape.bs) = Scale(out.wden, out.post[2]))
\* first/rest recursion of the composed vectors: reductions are sums / extrema over the leaves
Seg(x, from, len) == [i \in 1..len |-> x[from + i - 1]]
LeafOff(k) == SumSeq([q \in 1..(k-1) |-> LeafLens(shape)[q]])
ComposeLaw == ph = "done" /\ Generic =>
  LET nl == Len(LeafLens(shape))
      seg(s, k) == Seg(v[s], LeafOff(k) + 1, LeafLens(shape)[k])
  IN /\ SumSeq(LeafLens(shape)) = FlatLen(shape)
     /\ (call.op = "dot" => out.res[1] = SumSeq([k \in 1..nl |-> Dot(seg(1, k), seg(call.x, k))]))
     /\ (call.op = "triple_dot" => out.res[1] = SumSeq([k \in 1..nl |-> TripleDot(seg(1, k), seg(call.x, k), seg(call.y, k))]))
     /\ (call.op \in {"norm2", "norm2sqr"} => out.res[1] = SumSeq([k \in 1..nl |-> Norm2Sqr(seg(1, k))]))
     /\ (call.op = "max_element" => out.res[1] = MaxSeq([k \in 1..nl |-> MaxSeq(seg(1, k))]))
     /\ (call.op = "min_abs_element" => out.res[1] = MinSeq([k \in 1..nl |-> MinSeq(AbsVec(seg(1, k)))]))
\* per-component results of a blocked vector add up to the plain result
BlockedIsPlain == ph = "done" /\ IsB =>
  /\ (call.op = "dot_blocked" => SumSeq(out.res) = Dot(v[1], v[call.x]))
  /\ (call.op = "triple_dot_blocked" => SumSeq(out.res) = TripleDot(v[1], v[call.x], v[call.y]))
  /\ (call.op \in {"norm2_blocked", "norm2sqr_blocked"} => SumSeq(out.res) = Norm2Sqr(v[1]))
  /\ (call.op = "max_abs_element_blocked" => MaxSeq(out.res) = MaxSeq(AbsVec(v[1])))
  /\ (call.op = "min_element_blocked" => MinSeq(out.res) = MinSeq(v[1]))
  /\ (call.op = "component_copy_to" => out.post = v)

(***************************************************************************)
(* emission: one JSON case per reached post-state                           *)
(***************************************************************************)
Emit == ph = "done" =>
  PrintT(ToJson([fam |-> Family, pal |-> Palette, shape |-> shape, flen |-> FlatLen(shape), nleaf |-> Len(LeafLens(shape)),
                 op |-> call.op, x |-> call.x, y |-> call.y, an |-> call.an, ad |-> call.ad, blk |-> call.blk, av |-> AV,
                 pre |-> v, post |-> out.post, wden |-> out.wden, res |-> out.res, rden |-> out.rden, rkind |-> out.rkind,
                 aux |-> out.aux, auxpost |-> out.auxpost,
                 writes |-> IF IsS THEN Writes(shape, 1) ELSE <<>>, twin |-> call.twin,
                 ppre |-> IF IsV THEN <<Parent(shape, 1), Parent(shape, 2), Parent(shape, 3)>> ELSE <<>>,
                 ppost |-> IF IsV THEN <<PPost(1), PPost(2), PPost(3)>> ELSE <<>>]))
=============================================================================
