------------------------ MODULE Sched_ThreadAsmPCT ------------------------
(* Priority schedules (PCT: probabilistic concurrency testing, Burckhardt et   *)
(* al.) over the behaviours of ThreadAsm: every actor (0 = master, 1..W =      *)
(* workers) has a priority drawn at the start; the enabled actor with the      *)
(* highest priority takes every step (one thread races as far ahead as the     *)
(* protocol lets it), and at the change points CPs (schedule lengths) the      *)
(* running actor is demoted below all others.  These are the adversarial       *)
(* schedules uniform random interleaving almost never produces.                *)
EXTENDS Sched_ThreadAsm, FiniteSets

CONSTANT CPs          \* sequence of change points (ascending schedule lengths)
VARIABLES prio, ncp
pvars == <<svars, prio, ncp>>

Actors == 0..W
Act(a) == (IF a = 0 THEN SMaster ELSE SWorker(a)) \/ SEnter(a)
Perms == {f \in [Actors -> 1..(W + 1)] : \A a, b \in Actors : a # b => f[a] # f[b]}
En == {a \in Actors : ENABLED Act(a)}
Top == CHOOSE a \in En : \A b \in En : prio[b] <= prio[a]
Due == ncp < Len(CPs) /\ Len(hist) >= CPs[ncp + 1]

PInit == SInit /\ prio \in Perms /\ ncp = 0
Demote == Due /\ En # {} /\ ncp' = ncp + 1
          /\ prio' = [a \in Actors |-> IF a = Top THEN 0 - ncp ELSE prio[a]]
          /\ UNCHANGED svars
PStep == ~Due /\ En # {} /\ Act(Top) /\ UNCHANGED <<prio, ncp>>
PNext == Demote \/ PStep \/ (SEmit /\ UNCHANGED <<prio, ncp>>)
PSpec == PInit /\ [][PNext]_pvars
=============================================================================
