SPECIFICATION Spec
CONSTANTS Mode = "single" ND = 2 NI = 2 NM = 0 MaxLen = 2 MaxLen2 = 0
INVARIANTS InputsValid LawSingle LawSort LawCompose LawInvolution LawPermute LawRename LawMatPerm Emit
CHECK_DEADLOCK FALSE
