--------------------------- MODULE PersistStream ---------------------------
(* C05, reuse of ONE stream object (FEAT::BinaryStream) for several         *)
(* write / read round trips: a history over the stream.                      *)
(*                                                                          *)
(* The stream is a byte container with ONE position (BinaryStream has a     *)
(* single buffer position shared by reading and writing).  Its content is   *)
(* held abstractly as the sequence of segments that were written            *)
(*    [kind = "obj",  o, off, len]   a container (write_out, fm_binary)     *)
(*    [kind = "ckpt", s, off, len]   a checkpoint (CheckpointControl::save) *)
(* Actions = the public calls                                               *)
(*    Write(o)   container o .write_out(FileMode::fm_binary, stream) at the  *)
(*               current position: appended at the end, or - after a seek - *)
(*               written OVER what is there (the stream grows only if the    *)
(*               new bytes run past its end; partly overwritten segments are *)
(*               no longer readable, their remaining bytes stay)             *)
(*    Seek(k,w)  stream.seekg / seekp (start of segment k)                   *)
(*    Read       a fresh container .read_from(fm_binary, stream) at the      *)
(*               current position (a container segment starts there)         *)
(*    Clear      stream.clear(): empty AND position 0 - the stream is as new *)
(*    Save(s)    a CheckpointControl with object set s .save(stream)         *)
(*    Load       a fresh CheckpointControl .load(stream) + restore of every  *)
(*               object (load reads from the first byte of the stream)       *)
(* TLC explores every history of MaxSteps calls; invariants: ReadRight,      *)
(* LoadRight (what is read is what was written there), SizeOK, NoOverlap, and        *)
(* ClearedIsNew.  Emit prints each complete history with the predicted       *)
(* stream size, position and segment layout after every call.                *)
EXTENDS PersistFmt, Json, TLC

CONSTANTS MaxSteps,    \* length of the histories
          CDT, CIT     \* data / index type width of the containers (bytes)

VARIABLES segs, size, pos, hist
vars == <<segs, size, pos, hist>>

Mk(kind, mm, nn, rep, al) == [kind |-> kind, m |-> mm, n |-> nn, bh |-> 1, bw |-> 1, rep |-> rep, alloc |-> al]
D23 == << <<3, -6, 7>>, <<-8, 11, -10>> >>
Palette == <<
  Mk("dv", 3, 1, [va |-> <<3, -6, 7>>], FALSE),
  Mk("csr", 2, 3, CSROf(2, 3, D23, {<<2, 1>>, <<2, 3>>}), FALSE),       \* first row empty
  Mk("csr", 2, 2, CSROf(2, 2, D23, {}), TRUE) >>                          \* no entries, allocated arrays of length 0
\* the object sets of the checkpoints: sequences of <<identifier, |identifier|, palette index>> in identifier order
CkptSets == << << <<"a", 1, 1>>, <<"ab", 2, 2>> >>, << <<"b", 1, 3>> >> >>
NativeMagic(kind) == IF kind = "dv" THEN 1 ELSE 4
ObjBin(o) == BinFile(Arrays(Palette[o]), NativeMagic(Palette[o].kind), CDT, CIT, 8, 8)      \* write_out serialises as <double, uint64>
CkBin(o) == BinFile(Arrays(Palette[o]), 13, CDT, CIT, CDT, CIT)                              \* checkpoint data: fm_binary, <DT, IT>
CkEntries(s) == [k \in 1..Len(CkptSets[s]) |-> [id |-> CkptSets[s][k][1], idlen |-> CkptSets[s][k][2], o |-> CkptSets[s][k][3],
                                                 len |-> CkBin(CkptSets[s][k][3]).len, bin |-> CkBin(CkptSets[s][k][3])]]
CkTotal(s) == SumSeq([k \in 1..Len(CkptSets[s]) |-> 8 + CkEntries(s)[k].idlen + 8 + CkEntries(s)[k].len])

Max2(a, b) == IF a < b THEN b ELSE a
Going == Len(hist) < MaxSteps
\* the segments that survive a write of len bytes at byte off: those it does not touch.  A segment that is partly
\* overwritten is no longer a readable object; its remaining bytes stay in the stream (the size never shrinks).
Untouched(off, len) == SelectSeq(segs, LAMBDA g : g.off + g.len <= off \/ off + len <= g.off)
\* the writing calls are made at the end of the stream (append) or at the start of a segment (overwrite after a seek)
\* or directly behind the bytes just written / read (pos is only ever moved by these calls)
Init == segs = <<>> /\ size = 0 /\ pos = 0 /\ hist = <<>>

Write(o) ==
  /\ Going
  /\ LET len == ObjBin(o).len IN
     /\ segs' = Append(Untouched(pos, len), [kind |-> "obj", o |-> o, off |-> pos, len |-> len])
     /\ size' = Max2(size, pos + len)
     /\ pos' = pos + len
     /\ hist' = Append(hist, [op |-> "write", arg |-> o, off |-> pos, size |-> Max2(size, pos + len), pos |-> pos + len, res |-> <<>>])
\* seekg / seekp to the start of a segment (the stream has ONE position: both calls move it)
Seek(k, which) ==
  /\ Going /\ k \in 1..Len(segs) /\ segs[k].off # pos
  /\ pos' = segs[k].off /\ UNCHANGED <<segs, size>>
  /\ hist' = Append(hist, [op |-> which, arg |-> segs[k].off, off |-> segs[k].off, size |-> size, pos |-> segs[k].off, res |-> <<>>])
Read ==
  /\ Going
  /\ \E k \in 1..Len(segs) :
       /\ segs[k].off = pos /\ segs[k].kind = "obj"
       /\ pos' = pos + segs[k].len /\ UNCHANGED <<segs, size>>
       /\ hist' = Append(hist, [op |-> "read", arg |-> segs[k].o, off |-> pos, size |-> size, pos |-> pos + segs[k].len,
                                res |-> <<ReadBin(ObjBin(segs[k].o))>>])
Clear ==
  /\ Going /\ size > 0
  /\ segs' = <<>> /\ size' = 0 /\ pos' = 0
  /\ hist' = Append(hist, [op |-> "clear", arg |-> 0, off |-> 0, size |-> 0, pos |-> 0, res |-> <<>>])
Save(s) ==
  /\ Going
  /\ LET len == 8 + CkTotal(s) IN
     /\ segs' = Append(Untouched(pos, len), [kind |-> "ckpt", o |-> s, off |-> pos, len |-> len])
     /\ size' = Max2(size, pos + len)
     /\ pos' = pos + len
     /\ hist' = Append(hist, [op |-> "save", arg |-> s, off |-> pos, size |-> Max2(size, pos + len), pos |-> pos + len, res |-> <<>>])
\* load reads the whole stream from its first byte: defined when the stream IS one checkpoint
Load ==
  /\ Going
  /\ \E k \in 1..Len(segs) :
       /\ segs[k].kind = "ckpt" /\ segs[k].off = 0 /\ segs[k].len = size
       /\ UNCHANGED <<segs, size, pos>>
       /\ hist' = Append(hist, [op |-> "load", arg |-> segs[k].o, off |-> 0, size |-> size, pos |-> pos,
                                res |-> [j \in 1..Len(CkptSets[segs[k].o]) |-> ReadBin(CkEntries(segs[k].o)[j].bin)]])

Next == (\E o \in 1..Len(Palette) : Write(o)) \/ (\E k \in 1..Len(segs), w \in {"seekg", "seekp"} : Seek(k, w)) \/ Read \/ Clear
        \/ (\E s \in 1..Len(CkptSets) : Save(s)) \/ Load
Spec == Init /\ [][Next]_vars

\* ---- properties ----------------------------------------------------------------------------------------
ReadRight == \A k \in 1..Len(hist) : hist[k].op = "read" => hist[k].res = <<Arrays(Palette[hist[k].arg])>>
LoadRight == \A k \in 1..Len(hist) : hist[k].op = "load" =>
               hist[k].res = [j \in 1..Len(CkptSets[hist[k].arg]) |-> Arrays(Palette[CkptSets[hist[k].arg][j][3]])]
SizeOK == pos <= size /\ \A k \in 1..Len(segs) : segs[k].off + segs[k].len <= size
NoOverlap == \A j, k \in 1..Len(segs) : j # k => (segs[j].off + segs[j].len <= segs[k].off \/ segs[k].off + segs[k].len <= segs[j].off)
ClearedIsNew == \A k \in 1..Len(hist) : hist[k].op = "clear" => hist[k].size = 0 /\ hist[k].pos = 0
\* after a clear, the next write starts at byte 0 again
WriteAfterClear == \A k \in 2..Len(hist) : hist[k-1].op = "clear" /\ hist[k].op \in {"write", "save"} => hist[k].off = 0

Emit == Len(hist) = MaxSteps =>
  PrintT(ToJson([part |-> "stream", cdt |-> CDT, cit |-> CIT, den |-> 4,
                 palette |-> [o \in 1..Len(Palette) |-> [c |-> Palette[o], arrays |-> Arrays(Palette[o]), bin |-> ObjBin(o)]],
                 ckpts |-> [s \in 1..Len(CkptSets) |-> [total |-> CkTotal(s), entries |-> CkEntries(s)]],
                 ops |-> hist]))
=============================================================================
