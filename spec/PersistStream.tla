--------------------------- MODULE PersistStream ---------------------------
(* C05, reuse of ONE stream object (FEAT::BinaryStream) for several         *)
(* write / read round trips: a history over the stream.                      *)
(*                                                                          *)
(* The stream is a byte container with ONE position (BinaryStream has a     *)
(* single buffer position shared by reading and writing).  Its content is   *)
(* held abstractly as the sequence of segments that were written            *)
(*    [kind = "obj",  o, off, len]   a container (write_out, fm_binary)     *)
(*    [kind = "ckpt", s, off, len]   a checkpoint (CheckpointControl::save) *)
(* Actions = the public calls                                               *)
(*    Write(o)   container o .write_out(FileMode::fm_binary, stream)         *)
(*               (enabled at the end of the stream: data is appended)        *)
(*    Seek0      stream.seekg(0)                                             *)
(*    Read       a fresh container .read_from(fm_binary, stream) at the      *)
(*               current position (a container segment starts there)         *)
(*    Clear      stream.clear(): empty AND position 0 - the stream is as new *)
(*    Save(s)    a CheckpointControl with object set s .save(stream)         *)
(*    Load       a fresh CheckpointControl .load(stream) + restore of every  *)
(*               object (load reads from the first byte of the stream)       *)
(* TLC explores every history of MaxSteps calls; invariants: ReadRight,      *)
(* LoadRight (what is read is what was written there), SizeIsSum, and        *)
(* ClearedIsNew.  Emit prints each complete history with the predicted       *)
(* stream size, position and segment layout after every call.                *)
EXTENDS PersistFmt, Json, TLC

CONSTANTS MaxSteps,    \* length of the histories
          CDT, CIT     \* data / index type width of the containers (bytes)

VARIABLES segs, pos, hist
vars == <<segs, pos, hist>>

Mk(kind, mm, nn, rep, al) == [kind |-> kind, m |-> mm, n |-> nn, bh |-> 1, bw |-> 1, rep |-> rep, alloc |-> al]
D23 == << <<3, -6, 7>>, <<-8, 11, -10>> >>
Palette == <<
  Mk("dv", 3, 1, [va |-> <<3, -6, 7>>], FALSE),
  Mk("csr", 2, 3, CSROf(2, 3, D23, {<<2, 1>>, <<2, 3>>}), FALSE),       \* first row empty
  Mk("csr", 2, 2, CSROf(2, 2, D23, {}), TRUE) >>                          \* no entries, allocated arrays of length 0
\* the object sets of the checkpoints: sequences of <<identifier, |identifier|, palette index>> in identifier order
CkptSets == << << <<"a", 1, 1>>, <<"ab", 2, 2>> >>, << <<"b", 1, 3>> >> >>
NativeMagic(kind) == IF kind = "dv" THEN 1 ELSE 4
ObjBin(o) == BinFile(Arrays(Palette[o]), NativeMagic(Palette[o].kind), CDT, CIT, 8, 8)      \* write_out serialises as <double, uint64>
CkBin(o) == BinFile(Arrays(Palette[o]), 13, CDT, CIT, CDT, CIT)                              \* checkpoint data: fm_binary, <DT, IT>
CkEntries(s) == [k \in 1..Len(CkptSets[s]) |-> [id |-> CkptSets[s][k][1], idlen |-> CkptSets[s][k][2], o |-> CkptSets[s][k][3],
                                                 len |-> CkBin(CkptSets[s][k][3]).len, bin |-> CkBin(CkptSets[s][k][3])]]
CkTotal(s) == SumSeq([k \in 1..Len(CkptSets[s]) |-> 8 + CkEntries(s)[k].idlen + 8 + CkEntries(s)[k].len])

Size == IF Len(segs) = 0 THEN 0 ELSE segs[Len(segs)].off + segs[Len(segs)].len
Step(op, arg, off, res) == [op |-> op, arg |-> arg, off |-> off, res |-> res]
Going == Len(hist) < MaxSteps

Init == segs = <<>> /\ pos = 0 /\ hist = <<>>

Write(o) ==
  /\ Going /\ pos = Size
  /\ segs' = Append(segs, [kind |-> "obj", o |-> o, off |-> pos, len |-> ObjBin(o).len])
  /\ pos' = pos + ObjBin(o).len
  /\ hist' = Append(hist, [op |-> "write", arg |-> o, off |-> pos, size |-> pos + ObjBin(o).len, pos |-> pos + ObjBin(o).len, res |-> <<>>])
Seek0 ==
  /\ Going /\ Size > 0 /\ pos # 0
  /\ pos' = 0 /\ UNCHANGED segs
  /\ hist' = Append(hist, [op |-> "seek0", arg |-> 0, off |-> 0, size |-> Size, pos |-> 0, res |-> <<>>])
Read ==
  /\ Going
  /\ \E k \in 1..Len(segs) :
       /\ segs[k].off = pos /\ segs[k].kind = "obj"
       /\ pos' = pos + segs[k].len /\ UNCHANGED segs
       /\ hist' = Append(hist, [op |-> "read", arg |-> segs[k].o, off |-> pos, size |-> Size, pos |-> pos + segs[k].len,
                                res |-> <<ReadBin(ObjBin(segs[k].o))>>])
Clear ==
  /\ Going /\ Size > 0
  /\ segs' = <<>> /\ pos' = 0
  /\ hist' = Append(hist, [op |-> "clear", arg |-> 0, off |-> 0, size |-> 0, pos |-> 0, res |-> <<>>])
Save(s) ==
  /\ Going /\ pos = Size
  /\ segs' = Append(segs, [kind |-> "ckpt", o |-> s, off |-> pos, len |-> 8 + CkTotal(s)])
  /\ pos' = pos + 8 + CkTotal(s)
  /\ hist' = Append(hist, [op |-> "save", arg |-> s, off |-> pos, size |-> pos + 8 + CkTotal(s), pos |-> pos + 8 + CkTotal(s), res |-> <<>>])
Load ==
  /\ Going /\ Len(segs) > 0 /\ segs[1].kind = "ckpt"
  /\ UNCHANGED <<segs, pos>>
  /\ hist' = Append(hist, [op |-> "load", arg |-> segs[1].o, off |-> 0, size |-> Size, pos |-> pos,
                           res |-> [k \in 1..Len(CkptSets[segs[1].o]) |-> ReadBin(CkEntries(segs[1].o)[k].bin)]])

Next == (\E o \in 1..Len(Palette) : Write(o)) \/ Seek0 \/ Read \/ Clear \/ (\E s \in 1..Len(CkptSets) : Save(s)) \/ Load
Spec == Init /\ [][Next]_vars

\* ---- properties ----------------------------------------------------------------------------------------
ReadRight == \A k \in 1..Len(hist) : hist[k].op = "read" => hist[k].res = <<Arrays(Palette[hist[k].arg])>>
LoadRight == \A k \in 1..Len(hist) : hist[k].op = "load" =>
               hist[k].res = [j \in 1..Len(CkptSets[hist[k].arg]) |-> Arrays(Palette[CkptSets[hist[k].arg][j][3]])]
SizeIsSum == Size = SumSeq([k \in 1..Len(segs) |-> segs[k].len]) /\ pos <= Size
ClearedIsNew == \A k \in 1..Len(hist) : hist[k].op = "clear" => hist[k].size = 0 /\ hist[k].pos = 0
\* after a clear, the next write starts at byte 0 again
WriteAfterClear == \A k \in 2..Len(hist) : hist[k-1].op = "clear" /\ hist[k].op \in {"write", "save"} => hist[k].off = 0

Emit == Len(hist) = MaxSteps =>
  PrintT(ToJson([part |-> "stream", cdt |-> CDT, cit |-> CIT, den |-> 4,
                 palette |-> [o \in 1..Len(Palette) |-> [c |-> Palette[o], arrays |-> Arrays(Palette[o]), bin |-> ObjBin(o)]],
                 ckpts |-> [s \in 1..Len(CkptSets) |-> [total |-> CkTotal(s), entries |-> CkEntries(s)]],
                 ops |-> hist]))
=============================================================================
