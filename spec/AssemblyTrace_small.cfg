\* manual run of the C16x trace specification on two small meshes (the check generates its own configurations):
\*   java -cp tla2tools.jar:CommunityModules-deps.jar tlc2.TLC -config AssemblyTrace_small.cfg AssemblyTrace.tla
SPECIFICATION Spec
CONSTANTS Tier = 0
 MeshSel = {"q11", "hfrust"}
 NVariants = 2
 MaxOps = 4
 DegSlack = 0
 CanonLen = 2
INVARIANTS MeshLaws CompLaw NormalLaw Emit
VIEW View
CHECK_DEADLOCK FALSE
