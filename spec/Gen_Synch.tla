----------------------------- MODULE Gen_Synch -----------------------------
(* G direction for C13: every decomposition (rank -> set of global dofs) of   *)
(* the Synch module with the results the gate operations must produce:        *)
(* type-0 synchronisation, sharer counts (frequencies 1/count), type-1        *)
(* synchronisation of a consistent vector, global dot product / squared norm  *)
(* of consistent vectors, and the distributed matrix-vector product with      *)
(* local (type-0) matrices summing to the undecomposed operator.              *)
EXTENDS Synch, Json

Owned == UNION {dofs[r] : r \in Ranks}
X(d) == 2 * d + 1            \* a consistent (type-1) global vector
Y(d) == 5 - 3 * d
\* local matrix of rank r on dofs[r] x dofs[r]; the undecomposed operator is the sum over ranks
ALoc(r, d, e) == (r + 2) * d - e + (IF d = e THEN 4 ELSE 0)
AGlob(d, e) == SumOver({r \in Ranks : d \in dofs[r] /\ e \in dofs[r]}, [r \in Ranks |-> ALoc(r, d, e)])
AX(d) == SumOver(Owned, [e \in Dofs |-> AGlob(d, e) * X(e)])

SortedDofs(r) == LET S == dofs[r] IN [i \in 1..Cardinality(S) |-> CHOOSE d \in S : Cardinality({e \in S : e < d}) = i - 1]
Case ==
  [nr |-> NR, nd |-> ND,
   dofs |-> [r \in Ranks |-> SortedDofs(r)],
   v0 |-> [r \in Ranks |-> [i \in 1..Cardinality(dofs[r]) |-> v0[r][SortedDofs(r)[i]]]],
   sync0 |-> [r \in Ranks |-> [i \in 1..Cardinality(dofs[r]) |-> Sync0Of(v0, dofs)[r][SortedDofs(r)[i]]]],
   count |-> [r \in Ranks |-> [i \in 1..Cardinality(dofs[r]) |-> Cardinality(Sharers(SortedDofs(r)[i]))]],
   x |-> [r \in Ranks |-> [i \in 1..Cardinality(dofs[r]) |-> X(SortedDofs(r)[i])]],
   y |-> [r \in Ranks |-> [i \in 1..Cardinality(dofs[r]) |-> Y(SortedDofs(r)[i])]],
   dot |-> SumOver(Owned, [d \in Dofs |-> X(d) * Y(d)]),
   nrm2 |-> SumOver(Owned, [d \in Dofs |-> X(d) * X(d)]),
   nglobal |-> Cardinality(Owned),
   aloc |-> [r \in Ranks |-> [i \in 1..Cardinality(dofs[r]) |-> [j \in 1..Cardinality(dofs[r]) |-> ALoc(r, SortedDofs(r)[i], SortedDofs(r)[j])]]],
   ax |-> [r \in Ranks |-> [i \in 1..Cardinality(dofs[r]) |-> AX(SortedDofs(r)[i])]]]

GenNext == UNCHANGED vars
GenSpec == Init /\ [][GenNext]_vars
\* every rank holds at least one dof (a patch is never empty)
NonEmpty == \A r \in Ranks : dofs[r] # {}
Emit == NonEmpty => PrintT(ToJson(Case))
=============================================================================
