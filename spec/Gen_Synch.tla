----------------------------- MODULE Gen_Synch -----------------------------
(* G direction for C13: every decomposition (rank -> set of global dofs) of   *)
(* the Synch module with the results the gate operations must produce:        *)
(* type-0 synchronisation, sharer counts (frequencies 1/count), type-1        *)
(* synchronisation of a consistent vector, global dot product / squared norm  *)
(* of consistent vectors, and the distributed matrix-vector product with      *)
(* local (type-0) matrices summing to the undecomposed operator.              *)
(*                                                                           *)
(* Every rank numbers its dofs locally by a renumbering kind ren[r] (module  *)
(* Renum: identity, reversal, rotation, ... up to kind RENK), so the mirrors *)
(* (local positions of the shared dofs in the common buffer order) are NOT   *)
(* monotone in general.  All per-rank data of a case (vectors, matrices,     *)
(* expected results) are listed in the LOCAL numbering of the rank; the      *)
(* mirrors are emitted with the case.  Besides the all-identity numbering    *)
(* only numberings with at least one non-monotone mirror are emitted (the    *)
(* others are relabellings of an emitted case).                              *)
EXTENDS Synch, Json, Renum

CONSTANT RENK            \* largest renumbering kind (0: ascending local numbering only)
VARIABLE ren             \* rank -> renumbering kind
gvars == <<vars, ren>>

Owned == UNION {dofs[r] : r \in Ranks}
X(d) == 2 * d + 1            \* a consistent (type-1) global vector
Y(d) == 5 - 3 * d
\* local matrix of rank r on dofs[r] x dofs[r]; the undecomposed operator is the sum over ranks
ALoc(r, d, e) == (r + 2) * d - e + (IF d = e THEN 4 ELSE 0)
AGlob(d, e) == SumOver({r \in Ranks : d \in dofs[r] /\ e \in dofs[r]}, [r \in Ranks |-> ALoc(r, d, e)])
AX(d) == SumOver(Owned, [e \in Dofs |-> AGlob(d, e) * X(e)])

\* the local numbering of rank r (sequence of global dofs) and its mirror for neighbour s
SortedDofs(r) == RnOrder(dofs[r], ren[r])
Mir(r, s) == IF s # r /\ Shared(r, s) # {} THEN RnMirror(SortedDofs(r), Shared(r, s)) ELSE <<>>
NonMono == \E r \in Ranks : \E s \in Nbrs(r) : ~RnMonotone(Mir(r, s))
AllIdentity == \A r \in Ranks : ren[r] = 0
Case ==
  [nr |-> NR, nd |-> ND,
   dofs |-> [r \in Ranks |-> SortedDofs(r)],
   ren |-> [r \in Ranks |-> ren[r]], nonmono |-> NonMono,
   mir |-> [r \in Ranks |-> [s \in Ranks |-> Mir(r, s)]],
   v0 |-> [r \in Ranks |-> [i \in 1..Cardinality(dofs[r]) |-> v0[r][SortedDofs(r)[i]]]],
   sync0 |-> [r \in Ranks |-> [i \in 1..Cardinality(dofs[r]) |-> Sync0Of(v0, dofs)[r][SortedDofs(r)[i]]]],
   count |-> [r \in Ranks |-> [i \in 1..Cardinality(dofs[r]) |-> Cardinality(Sharers(SortedDofs(r)[i]))]],
   x |-> [r \in Ranks |-> [i \in 1..Cardinality(dofs[r]) |-> X(SortedDofs(r)[i])]],
   y |-> [r \in Ranks |-> [i \in 1..Cardinality(dofs[r]) |-> Y(SortedDofs(r)[i])]],
   dot |-> SumOver(Owned, [d \in Dofs |-> X(d) * Y(d)]),
   nrm2 |-> SumOver(Owned, [d \in Dofs |-> X(d) * X(d)]),
   nglobal |-> Cardinality(Owned),
   aloc |-> [r \in Ranks |-> [i \in 1..Cardinality(dofs[r]) |-> [j \in 1..Cardinality(dofs[r]) |-> ALoc(r, SortedDofs(r)[i], SortedDofs(r)[j])]]],
   ax |-> [r \in Ranks |-> [i \in 1..Cardinality(dofs[r]) |-> AX(SortedDofs(r)[i])]]]

GenInit ==
  /\ Init
  /\ ren \in [Ranks -> 0..RENK]
  /\ \A r \in Ranks : RnCanon(dofs[r], ren[r])
  /\ (AllIdentity \/ NonMono)
GenNext == UNCHANGED gvars
GenSpec == GenInit /\ [][GenNext]_gvars
\* every rank holds at least one dof (a patch is never empty)
NonEmpty == \A r \in Ranks : dofs[r] # {}
Emit == NonEmpty => PrintT(ToJson(Case))
\* the local numberings are permutations of the patches and both sides of every mirror pair address the same global dof
LawRenum == \A r \in Ranks : RnIsPerm(SortedDofs(r), dofs[r]) /\ \A s \in Nbrs(r) : RnMirrorsAgree(SortedDofs(r), SortedDofs(s), Shared(r, s))
=============================================================================
