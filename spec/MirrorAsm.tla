------------------------------- MODULE MirrorAsm -------------------------------
(* C13: the DOF MIRRORS the control layer assembles for gates, muxers and base splitters                                          *)
(*      (kernel/assembly/mirror_assembler.hpp, control/asm/gate_asm.hpp, muxer_asm.hpp, splitter_asm.hpp).                        *)
(*                                                                                                                               *)
(* The dof mirror of a mesh part P of a mesh M for a finite element space with signature sig (RefElement!Sig: dofs per entity    *)
(* of every dimension) is the LIST of the dofs of the space that are located on the entities of P in the documented order:       *)
(*     dimension 0 first (vertices), then edges, faces, cells;  within a dimension the entities in the order of P's target set;  *)
(*     within an entity its dofs in their local order m = 0..sig[d]-1;                                                           *)
(* the index of the m-th dof of the d-entity E is the one of the numbering contract DofMap!AssignSpec: Off(d) + E*sig[d] + m.    *)
(*                                                                                                                               *)
(* A case C is the dump of Control::Domain::PartiDomainControl on C.nr MPI processes in the format of PartitionDist.tla (layers, *)
(* levels, patch meshes, halos, patch mesh parts of the children) extended by                                                    *)
(*   C.ranks[w+1].base  = the base-mesh levels kept on world rank 0 (keep_base_levels): [lvl, mesh, patches]                      *)
(*   C.ranks[w+1].virt  = the virtual levels of the process: [vi, lvl, layer, child, parent, ghost, base, layer_c, layer_p]       *)
(*   C.ranks[w+1].els[e] = [el, values, virt]: per virtual level what asm_gate / asm_muxer / asm_splitter assembled for the       *)
(*       family el - gate = [ranks, mir], mux = [pm, cm, ...], spl = [pm, cm, nbase, ...] - and, for the families whose node      *)
(*       functional of an affine function is its value in the barycentre of the entity (BaryFamilies), the results of the REAL    *)
(*       collective operations on the interpolant of f(x) = 1 + x1 + 64 x2 + 4096 x3, as integers value * 24 * 2^K.                *)
(* Entities - hence dof functionals - of different processes are identified GEOMETRICALLY (PartitionDist!GTup / GEnt), so every   *)
(* predicate is a cross-rank invariant that does not trust any numbering of another process.                                     *)
(*                                                                                                                               *)
(* Predicates (per family, per virtual level):                                                                                  *)
(*   VirtOK        the virtual levels are the ones the layer / level structure demands (plain, parent+child junction, ghost)      *)
(*   GateOrder     gate ranks = the neighbours with a non-empty mirror, in neighbour order; mirror = MirrorSpec(halo)            *)
(*   GateAgree     the mirrors of both sides of a neighbour pair denote the same functionals in the same order                   *)
(*   GateComplete  a pair of processes of the layer is connected iff it shares a functional; the mirror lists all shared ones     *)
(*   MuxOrder      child mirror k of a parent = MirrorSpec(patch mesh part k); parent mirror of a child = identity                *)
(*   MuxPairing    entry i of child mirror k is the parent dof of the functional that is dof i of child k (what the identity      *)
(*                 mirror on the child side relies on)                                                                           *)
(*   SplOrder / SplPairing   the same for the base splitter (patch mirrors on the base-mesh level of world rank 0)                *)
(*   Sync0Val, JoinVal, SplitVal, SSplitVal, SJoinVal   the numbers produced by the real operations are the values of f in the    *)
(*                 barycentres, times the number of patches that hold the functional where the operation sums up                  *)
EXTENDS PartitionDist, DofMap

BaryFamilies == {"lagrange1", "lagrange2", "discontinuous0", "crorav"}

\* ---- the dof mirror of a mesh part ----------------------------------------------------------------------------------------------
\* t = the target sets of the part: t[d+1][j] = index (0-based) in M of the j-th d-entity of the part
\* (TLCEval: TLC keeps a function constructor as an unevaluated lambda and would re-evaluate its body on every Len / application)
EntityDofs(off, sd, E) == TLCEval([m \in 1..sd |-> off + E * sd + (m - 1)])
DimDofs(M, sig, d, ts) == LET off == DofOffset(M, sig, d)  sd == sig[d + 1] IN TLCEval(FlattenSeq(TLCEval([j \in 1..Len(ts) |-> EntityDofs(off, sd, ts[j])])))
MirrorSpec(M, sig, dim, t) == TLCEval(FlattenSeq(TLCEval([d \in 1..(dim + 1) |-> DimDofs(M, sig, d - 1, t[d])])))
Identity(n) == TLCEval([k \in 1..n |-> k - 1])
\* the part that consists of all entities in their own order
WholeMesh(M, dim) == TLCEval([d \in 1..(dim + 1) |-> Identity(N(M, d - 1))])
\* law of the definition (evaluated on every mesh of every case): the mirror of the whole mesh is the identity - this is why a
\* child / patch process may pair its IDENTITY mirror with the parent's mirror of the patch mesh part
LawWholeMesh(M, sig, dim) == MirrorSpec(M, sig, dim, WholeMesh(M, dim)) = Identity(NumGlobalDofs(M, sig, dim))

\* ---- functionals, identified geometrically ---------------------------------------------------------------------------------------
\* the functional <<d, E, m>> of mesh M:  dimension, the entity as the set of its vertex coordinates - and, where an entity carries
\* several dofs (their meaning depends on the orientation of the entity), also as the TUPLE in local vertex order -, position m
EntKey(M, sig, d, E) == << GEnt(M, d, E), IF sig[d + 1] > 1 THEN GTup(M, d, E) ELSE << >> >>
\* FuncTable[i+1] = the functional with dof index i (the inverse of the numbering contract, by construction)
FuncTable(M, sig, dim) ==
  TLCEval(FlattenSeq(TLCEval([d \in 1..(dim + 1) |->
    TLCEval(FlattenSeq(TLCEval([E \in 1..N(M, d - 1) |->
      LET key == TLCEval(EntKey(M, sig, d - 1, E - 1)) IN TLCEval([m \in 1..sig[d] |-> << d - 1, key, m - 1 >>])])))])))
InRange(mir, n) == \A k \in 1..Len(mir) : mir[k] \in 0..(n - 1)
FSeq(FTab, mir) == TLCEval([k \in 1..Len(mir) |-> FTab[mir[k] + 1]])

\* ---- values of the affine test function ---------------------------------------------------------------------------------------------
PW == << 1, 64, 4096 >>
PAt(x) == FoldSeq(LAMBDA a, s : s + PW[a] * x[a], 0, [a \in 1..Len(x) |-> a])
PSumEnt(M, d, E) == FoldSeq(LAMBDA v, acc : acc + PAt(M.X[v + 1]), 0, VT(M, d, E))
\* 24 * 2^K * f(barycentre of the d-entity E);  coordinates are integers at scale 2^K
Val24(C, M, d, E) == 24 * TwoTo(C.K) + (24 \div NVerts(C.fam, d)) * PSumEnt(M, d, E)
ValTable(C, M, sig) ==
  TLCEval(FlattenSeq(TLCEval([d \in 1..(C.dim + 1) |->
    TLCEval(FlattenSeq(TLCEval([E \in 1..N(M, d - 1) |->
      LET val == Val24(C, M, d - 1, E - 1) IN TLCEval([m \in 1..sig[d] |-> val])])))])))

\* ---- access ----------------------------------------------------------------------------------------------------------------------------
RV(C, w) == RankRec(C, w).virt
ElRec(C, w, e) == RankRec(C, w).els[e]
EV(C, w, e) == ElRec(C, w, e).virt
Has(r, fld) == fld \in DOMAIN r
BaseRec(C, lv) == LET B == RankRec(C, 0).base IN B[CHOOSE k \in 1..Len(B) : B[k].lvl = lv]
HasBaseRec(C, lv) == \E k \in 1..Len(RankRec(C, 0).base) : RankRec(C, 0).base[k].lvl = lv
PartOfRank(ps, k) == ps[CHOOSE j \in 1..Len(ps) : ps[j].rank = k]
HasPart(ps, k) == \E j \in 1..Len(ps) : ps[j].rank = k
TargetsOK(M, t, dim) == Len(t) = dim + 1 /\ \A d \in 0..dim : \A j \in 1..Len(t[d + 1]) : t[d + 1][j] \in 0..(N(M, d) - 1)

\* ---- the virtual levels the structure demands (DomainControl::compile_virtual_levels) ---------------------------------------------------
VRec(lv, l, ch, pa, gh, lc, lp) == [lvl |-> lv, layer |-> l, child |-> ch, parent |-> pa, ghost |-> gh, layer_c |-> lc, layer_p |-> lp]
Plain(lv, l) == VRec(lv, l, FALSE, FALSE, FALSE, -1, -1)
LayerVirt(C, w, l, Lw) ==
  LET ls == LevelSeq(C, l, w)
      n == Len(ls)
      first == IF l = 0 THEN << Plain(ls[1], 0) >> ELSE << >>
      last == IF l + 1 < Lw THEN VRec(ls[n], l + 1, TRUE, TRUE, FALSE, l, l + 1)
              ELSE IF l < NLayers(C) - 1 THEN VRec(ls[n], l, TRUE, FALSE, TRUE, l, -1)
              ELSE Plain(ls[n], l)
  IN IF n <= 1 THEN first ELSE first \o [k \in 1..(n - 2) |-> Plain(ls[k + 1], l)] \o << last >>
ExpectedVirt(C, w) == LET Lw == Len(RankRec(C, w).layers) IN FlattenSeq([il \in 1..Lw |-> LayerVirt(C, w, il - 1, Lw)])
\* base levels are attached to the levels of layer 0 except the last one of several
ExpectedBase(C, w, i) ==
  LET v == RV(C, w)[i]  n == Len(LevelSeq(C, 0, w)) IN
    C.keep_base /\ v.layer = 0 /\ ~v.child /\ (i = 1 \/ i <= n - 1)
VirtOK(C) ==
  \A w \in 0..(C.nr - 1) :
    LET X == ExpectedVirt(C, w)  R == RV(C, w) IN
    /\ Len(R) = Len(X)
    /\ \A i \in 1..Len(X) :
         /\ R[i].vi = i - 1
         /\ [f \in DOMAIN X[i] |-> R[i][f]] = X[i]
         /\ R[i].base = ExpectedBase(C, w, i)
    /\ \A e \in 1..Len(RankRec(C, w).els) : Len(EV(C, w, e)) = Len(R) /\ \A i \in 1..Len(R) : EV(C, w, e)[i].vi = i - 1
    /\ RankRec(C, w).size_virtual = Max({Len(RV(C, u)) : u \in 0..(C.nr - 1)})
    /\ RankRec(C, w).size_physical = Cardinality({i \in 1..Len(R) : ~R[i].ghost})
\* the same families in the same order on every process
FamiliesOK(C) ==
  \A w \in 0..(C.nr - 1) :
    /\ Len(RankRec(C, w).els) = Len(C.els)
    /\ \A e \in 1..Len(C.els) : ElRec(C, w, e).el = C.els[e] /\ Supported(C.els[e], C.fam, C.dim)
                                /\ ElRec(C, w, e).values = (C.els[e] \in BaryFamilies)
\* index of the non-ghost virtual level of w that lives on (layer l, level lv)
VIdx(C, w, l, lv) == CHOOSE i \in 1..Len(RV(C, w)) : RV(C, w)[i].layer = l /\ RV(C, w)[i].lvl = lv /\ ~RV(C, w)[i].ghost
\* the (layer, level) pairs that carry a gate
GatePairs(C) == UNION {{<< RV(C, w)[i].layer, RV(C, w)[i].lvl >> : i \in {j \in 1..Len(RV(C, w)) : ~RV(C, w)[j].ghost}} : w \in 0..(C.nr - 1)}

\* ---- gates: one (layer, level, family) ------------------------------------------------------------------------------------------------------
Fail(cond, pred, w, vi, el) == IF cond THEN {} ELSE {[p |-> pred, w |-> w, vi |-> vi, el |-> el]}

GateFails(C, l, lv, e) ==
  LET el == C.els[e]
      sig == Sig(el, C.fam, C.dim)
      Mem == Members(C, l)
      FTab == TLCEval([u \in Mem |-> FuncTable(MeshOf(C, l, u, lv), sig, C.dim)])
      FSet == TLCEval([u \in Mem |-> TLCEval(TRange(FTab[u]))])
      idx == TLCEval([u \in Mem |-> VIdx(C, u, l, lv)])
      G(u) == EV(C, u, e)[idx[u]].gate
  IN UNION {
    LET M == MeshOf(C, l, w, lv)
        x == EV(C, w, e)[idx[w]]
        vi == idx[w] - 1
        nd == NumGlobalDofs(M, sig, C.dim)
        hs == LevelRec(C, l, w, lv).halos
        nb == LayerRec(C, l, w).nbrs
        wantm(s) == MirrorSpec(M, sig, C.dim, PartOfRank(hs, s).t)
        cand == SelectSeq(nb, LAMBDA s : HasPart(hs, s) /\ Len(wantm(s)) > 0)
        shapeok == /\ Has(x, "gate") /\ Has(x, "ndofs") /\ Len(x.gate.ranks) = Len(x.gate.mir)
                   /\ \A j \in 1..Len(x.gate.mir) : InRange(x.gate.mir[j], nd)
                   /\ \A j \in 1..Len(hs) : TargetsOK(M, hs[j].t, C.dim)
        me == LRank(C, l, w)
    IN Fail(LawWholeMesh(M, sig, C.dim) /\ Len(FTab[w]) = nd /\ Cardinality(FSet[w]) = nd, "LawWholeMesh", w, vi, el) \cup
       Fail(shapeok, "GateShape", w, vi, el) \cup
       (IF ~shapeok THEN {} ELSE
         Fail(x.ndofs = nd, "NumDofs", w, vi, el) \cup
         Fail(x.gate.ranks = cand /\ \A j \in 1..Len(cand) : j <= Len(x.gate.mir) => x.gate.mir[j] = wantm(cand[j]), "GateOrder", w, vi, el) \cup
         Fail(\A j \in 1..Len(x.gate.ranks) :
                LET s == x.gate.ranks[j]  u == WorldOf(C, l, s) IN
                /\ s \in 0..(LayerProcs(C)[l + 1] - 1) /\ s # me
                /\ (Has(EV(C, u, e)[idx[u]], "gate") /\ \E jj \in 1..Len(G(u).ranks) : G(u).ranks[jj] = me) =>
                     LET jj == CHOOSE q \in 1..Len(G(u).ranks) : G(u).ranks[q] = me IN
                     (jj <= Len(G(u).mir) /\ InRange(G(u).mir[jj], Len(FTab[u]))) => FSeq(FTab[w], x.gate.mir[j]) = FSeq(FTab[u], G(u).mir[jj]),
              "GateAgree", w, vi, el) \cup
         Fail(\A u \in Mem \ {w} :
                LET shared == FSet[w] \cap FSet[u]
                    js == {j \in 1..Len(x.gate.ranks) : x.gate.ranks[j] = LRank(C, l, u)}
                IN IF shared = {} THEN js = {}
                   ELSE /\ Cardinality(js) = 1
                        /\ \A j \in js : TRange(FSeq(FTab[w], x.gate.mir[j])) = shared /\ Len(x.gate.mir[j]) = Cardinality(shared),
              "GateComplete", w, vi, el) \cup
         (IF ~(el \in BaryFamilies) THEN {} ELSE
           Fail(/\ Has(x, "sync0") /\ Len(x.sync0) = nd
                /\ LET VTab == ValTable(C, M, sig) IN
                   \A k \in 1..nd : x.sync0[k] = Cardinality({u \in Mem : FTab[w][k] \in FSet[u]}) * VTab[k],
                "Sync0Val", w, vi, el)))
    : w \in Mem }

\* ---- muxers: the junction of child layer lc = lp - 1 and parent layer lp, one family -------------------------------------------------------------
\* world ranks of the children of the parent process p of layer lp
ChildWorldOf(C, lp, p, k) == p + k * Stride(C, lp - 1)
MuxFails(C, lp, e) ==
  LET el == C.els[e]
      sig == Sig(el, C.fam, C.dim)
      lc == lp - 1
      lv == PartLevel(C, lp)
      nsib == NumSibs(C, lp)
      bary == el \in BaryFamilies
      \* virtual level of a process of the child layer that is the junction (parent + child, or ghost)
      jidx(u) == CHOOSE i \in 1..Len(RV(C, u)) : RV(C, u)[i].child /\ RV(C, u)[i].layer_c = lc
      childfails(u) ==
        LET Mc == MeshOf(C, lc, u, lv)
            x == EV(C, u, e)[jidx(u)]
            vi == jidx(u) - 1
            nd == NumGlobalDofs(Mc, sig, C.dim)
        IN Fail(Has(x, "mux"), "MuxShape", u, vi, el) \cup
           (IF ~Has(x, "mux") THEN {} ELSE
             Fail(/\ x.mux.pm = Identity(nd) /\ x.mux.is_child /\ x.mux.parent_rank = 0
                  /\ x.mux.is_parent = (u \in Members(C, lp)) /\ x.mux.is_ghost = ~(u \in Members(C, lp))
                  /\ (u \notin Members(C, lp) => x.mux.cm = << >>), "MuxOrder", u, vi, el) \cup
             (IF ~bary THEN {} ELSE Fail(Has(x, "split") /\ x.split = ValTable(C, Mc, sig), "SplitVal", u, vi, el)))
      parentfails(p) ==
        LET Mp == MeshOf(C, lp, p, lv)
            x == EV(C, p, e)[jidx(p)]
            vi == jidx(p) - 1
            ps == LevelRec(C, lp, p, lv).patches
            ndp == NumGlobalDofs(Mp, sig, C.dim)
            FTp == TLCEval(FuncTable(Mp, sig, C.dim))
            FTc == TLCEval([k \in 0..(nsib - 1) |-> FuncTable(MeshOf(C, lc, ChildWorldOf(C, lp, p, k), lv), sig, C.dim)])
            shapeok == /\ Has(x, "mux") /\ Len(x.mux.cm) = nsib
                       /\ \A k \in 1..nsib : InRange(x.mux.cm[k], ndp)
                       /\ \A k \in 0..(nsib - 1) : HasPart(ps, k) /\ TargetsOK(Mp, PartOfRank(ps, k).t, C.dim)
        IN Fail(shapeok, "MuxShape", p, vi, el) \cup
           (IF ~shapeok THEN {} ELSE
             Fail(\A k \in 0..(nsib - 1) : x.mux.cm[k + 1] = MirrorSpec(Mp, sig, C.dim, PartOfRank(ps, k).t), "MuxOrder", p, vi, el) \cup
             Fail(\A k \in 0..(nsib - 1) :
                    /\ Len(x.mux.cm[k + 1]) = Len(FTc[k])
                    /\ FSeq(FTp, x.mux.cm[k + 1]) = FTc[k], "MuxPairing", p, vi, el) \cup
             (IF ~bary THEN {} ELSE
               Fail(/\ Has(x, "join") /\ Len(x.join) = ndp
                    /\ LET VTab == ValTable(C, Mp, sig)
                           FSc == TLCEval([k \in 0..(nsib - 1) |-> TLCEval(TRange(FTc[k]))])
                       IN \A j \in 1..ndp : x.join[j] = Cardinality({k \in 0..(nsib - 1) : FTp[j] \in FSc[k]}) * VTab[j],
                    "JoinVal", p, vi, el)))
  IN UNION {childfails(u) : u \in Members(C, lc)} \cup UNION {parentfails(p) : p \in Members(C, lp)}

\* ---- base splitter: one level of layer 0 with a base level, one family ---------------------------------------------------------------------------
SplFails(C, lv, e) ==
  LET el == C.els[e]
      sig == Sig(el, C.fam, C.dim)
      bary == el \in BaryFamilies
      idx(u) == VIdx(C, u, 0, lv)
      patchfails(u) ==
        LET M == MeshOf(C, 0, u, lv)
            x == EV(C, u, e)[idx(u)]
            vi == idx(u) - 1
            nd == NumGlobalDofs(M, sig, C.dim)
        IN Fail(Has(x, "spl"), "SplShape", u, vi, el) \cup
           (IF ~Has(x, "spl") THEN {} ELSE
             IF C.nr = 1 THEN Fail(x.spl.single /\ x.spl.pm = << >> /\ x.spl.cm = << >>, "SplOrder", u, vi, el)
             ELSE Fail(/\ ~x.spl.single /\ x.spl.pm = Identity(nd) /\ x.spl.root = (u = 0)
                       /\ (u # 0 => x.spl.cm = << >> /\ x.spl.nbase = 0), "SplOrder", u, vi, el) \cup
                  (IF ~bary THEN {} ELSE Fail(Has(x, "ssplit") /\ x.ssplit = ValTable(C, M, sig), "SSplitVal", u, vi, el)))
      rootfails ==
        IF C.nr = 1 THEN {} ELSE
        LET x == EV(C, 0, e)[idx(0)]
            vi == idx(0) - 1
        IN IF ~(Has(x, "spl") /\ HasBaseRec(C, lv)) THEN Fail(FALSE, "SplShape", 0, vi, el) ELSE
           LET Mb == BaseRec(C, lv).mesh
               ps == BaseRec(C, lv).patches
               ndb == NumGlobalDofs(Mb, sig, C.dim)
               FTb == TLCEval(FuncTable(Mb, sig, C.dim))
               shapeok == /\ WellFormed(Mb, C.fam, C.dim) /\ CoordsOK(Mb, C.dim) /\ Len(x.spl.cm) = C.nr
                          /\ \A k \in 1..C.nr : InRange(x.spl.cm[k], ndb)
                          /\ \A k \in 0..(C.nr - 1) : HasPart(ps, k) /\ TargetsOK(Mb, PartOfRank(ps, k).t, C.dim)
           IN Fail(shapeok, "SplShape", 0, vi, el) \cup
              (IF ~shapeok THEN {} ELSE
                Fail(x.spl.nbase = ndb /\ \A k \in 0..(C.nr - 1) : x.spl.cm[k + 1] = MirrorSpec(Mb, sig, C.dim, PartOfRank(ps, k).t),
                     "SplOrder", 0, vi, el) \cup
                Fail(\A k \in 0..(C.nr - 1) :
                       LET FTk == FuncTable(MeshOf(C, 0, k, lv), sig, C.dim) IN
                       Len(x.spl.cm[k + 1]) = Len(FTk) /\ FSeq(FTb, x.spl.cm[k + 1]) = FTk, "SplPairing", 0, vi, el) \cup
                (IF ~bary THEN {} ELSE Fail(Has(x, "sjoin") /\ x.sjoin = ValTable(C, Mb, sig), "SJoinVal", 0, vi, el)))
  IN UNION {patchfails(u) : u \in 0..(C.nr - 1)} \cup rootfails
\* the levels of layer 0 that carry a base level
BaseLevels(C) == {RV(C, 0)[i].lvl : i \in {j \in 1..Len(RV(C, 0)) : RV(C, 0)[j].base}}

\* ---- tuple spaces: the system gate / muxer / splitter built from the component objects -------------------------------------------------------
\* (Control::Asm::build_gate_tuple / build_muxer_tuple / build_splitter_tuple, 2 and 3 components).  The component objects of the same
\* process and virtual level are judged by the predicates above; the system object must be their component-wise combination:
\*   gate      neighbour ranks = the ascending union of the component gates' ranks; component c of the mirror for rank r = the component
\*             gate's mirror for r, EMPTY if r is not a neighbour of that component (a discontinuous pressure has no neighbours at all)
\*   muxer     parent mirror = tuple of the component parent mirrors, child mirror k = tuple of the component child mirrors k
\*   splitter  the same for root / patch mirrors; base vector template sized by the component base spaces
\* and every collective operation acts component-wise (sync_0, join, split of the interpolants).
TupRec(C, w, t) == RankRec(C, w).tups[t]
CompIdx(C, name) == CHOOSE e \in 1..Len(C.els) : C.els[e] = name
TuplesOK(C) ==
  \A w \in 0..(C.nr - 1) :
    /\ Len(RankRec(C, w).tups) = Len(C.tuples)
    /\ \A t \in 1..Len(C.tuples) :
         LET T == TupRec(C, w, t) IN
         /\ T.tu = C.tuples[t] /\ Len(T.comps) \in 2..3 /\ Len(T.virt) = Len(RV(C, w))
         /\ \A c \in 1..Len(T.comps) : \E e \in 1..Len(C.els) : C.els[e] = T.comps[c]
         /\ T.comps = TupRec(C, 0, t).comps
StrictlyAscending(sq) == \A j \in 1..(Len(sq) - 1) : sq[j] < sq[j + 1]
TupFails(C, t) ==
  LET name == C.tuples[t]
      comps == TupRec(C, 0, t).comps
      nc == Len(comps)
      ce == TLCEval([c \in 1..nc |-> CompIdx(C, comps[c])])
      bary == TLCEval([c \in 1..nc |-> comps[c] \in BaryFamilies])
      vals(c, rec, fld) == IF bary[c] /\ Has(rec, fld) THEN rec[fld] ELSE << >>
  IN UNION {UNION {
       LET v == RV(C, w)[i]
           y == TupRec(C, w, t).virt[i]
           X(c) == EV(C, w, ce[c])[i]
           gateok ==
             IF v.ghost THEN ~Has(y, "gate") ELSE
             /\ Has(y, "gate") /\ Has(y, "sync0") /\ \A c \in 1..nc : Has(X(c), "gate")
             /\ StrictlyAscending(y.gate.ranks)
             /\ TRange(y.gate.ranks) = UNION {TRange(X(c).gate.ranks) : c \in 1..nc}
             /\ Len(y.gate.mir) = Len(y.gate.ranks)
             /\ \A j \in 1..Len(y.gate.ranks) : \A c \in 1..nc :
                  LET r == y.gate.ranks[j]
                      js == {q \in 1..Len(X(c).gate.ranks) : X(c).gate.ranks[q] = r}
                  IN /\ Len(y.gate.mir[j]) = nc
                     /\ y.gate.mir[j][c] = (IF js = {} THEN << >> ELSE X(c).gate.mir[CHOOSE q \in js : TRUE])
             /\ Len(y.sync0) = nc /\ \A c \in 1..nc : y.sync0[c] = vals(c, X(c), "sync0")
           muxok ==
             IF ~v.child THEN ~Has(y, "mux") ELSE
             /\ Has(y, "mux") /\ Has(y, "split") /\ \A c \in 1..nc : Has(X(c), "mux")
             /\ y.mux.is_child /\ y.mux.is_parent = v.parent
             /\ Len(y.mux.pm) = nc /\ \A c \in 1..nc : y.mux.pm[c] = X(c).mux.pm
             /\ \A c \in 1..nc : Len(y.mux.cm) = Len(X(c).mux.cm)
             /\ \A k \in 1..Len(y.mux.cm) : Len(y.mux.cm[k]) = nc /\ \A c \in 1..nc : y.mux.cm[k][c] = X(c).mux.cm[k]
             /\ Len(y.split) = nc /\ \A c \in 1..nc : y.split[c] = vals(c, X(c), "split")
             /\ (v.parent => Has(y, "join") /\ Len(y.join) = nc /\ \A c \in 1..nc : y.join[c] = vals(c, X(c), "join"))
           splok ==
             IF ~v.base THEN ~Has(y, "spl") ELSE
             /\ Has(y, "spl") /\ \A c \in 1..nc : Has(X(c), "spl")
             /\ y.spl.single = (C.nr = 1) /\ (C.nr > 1 => y.spl.root = (w = 0))
             /\ Len(y.spl.pm) = nc /\ \A c \in 1..nc : y.spl.pm[c] = X(c).spl.pm
             /\ Len(y.spl.nbase) = nc /\ \A c \in 1..nc : y.spl.nbase[c] = X(c).spl.nbase
             /\ \A c \in 1..nc : Len(y.spl.cm) = Len(X(c).spl.cm)
             /\ \A k \in 1..Len(y.spl.cm) : Len(y.spl.cm[k]) = nc /\ \A c \in 1..nc : y.spl.cm[k][c] = X(c).spl.cm[k]
             /\ (C.nr > 1 =>
                   /\ y.spl_enabled /\ Has(y, "ssplit") /\ Len(y.ssplit) = nc /\ \A c \in 1..nc : y.ssplit[c] = vals(c, X(c), "ssplit")
                   /\ (w = 0 => Has(y, "sjoin") /\ Len(y.sjoin) = nc /\ \A c \in 1..nc : y.sjoin[c] = vals(c, X(c), "sjoin")))
       IN Fail(gateok, "TupGate", w, i - 1, name) \cup Fail(muxok, "TupMux", w, i - 1, name) \cup Fail(splok, "TupSpl", w, i - 1, name)
     : i \in 1..Len(RV(C, w))} : w \in 0..(C.nr - 1)}

=============================================================================
