SPECIFICATION Spec
CONSTANTS NS = {2} Kinds = {"jacobi", "sor", "ssor", "poly", "ilu", "scale", "diagonal", "matrix"} Pals = {1} MinOff = 1 MaxOff = 2 Filters = 0 Mode = "hist" MaxHist = 5
INVARIANTS SorRelation SsorRelation JacobiRelation IluLaws Linearity LifeOK Emit
CHECK_DEADLOCK FALSE
