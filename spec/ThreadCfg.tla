------------------------------ MODULE ThreadCfg ------------------------------
(* C17: the configuration space of a threaded domain assembly run, enumerated *)
(* by TLC: mesh x selected cell subset x threading strategy x requested worker *)
(* count (0 .. more than there are cells) x job kind (scatter / combine) x      *)
(* repeated jobs x injected task failure.  Each emitted record is one run of    *)
(* harness/c17_threads.cpp whose event log is validated by Trace_ThreadAsm.     *)
EXTENDS Integers, Sequences, FiniteSets, Json, TLC
CONSTANT Tier       \* 1 = quick, 2 = thorough
VARIABLE c

\* <<nx, ny, components>>: strips (many layers), squares, two disjoint components
Meshes == IF Tier = 1
  THEN {<<1,1,1>>, <<2,1,1>>, <<3,1,1>>, <<5,1,1>>, <<6,1,1>>, <<9,1,1>>, <<16,1,1>>, <<2,2,1>>, <<3,3,1>>, <<4,4,1>>, <<6,6,1>>, <<3,1,2>>, <<4,2,2>>}
  ELSE {<<1,1,1>>, <<2,1,1>>, <<3,1,1>>, <<4,1,1>>, <<5,1,1>>, <<6,1,1>>, <<8,1,1>>, <<9,1,1>>, <<12,1,1>>, <<16,1,1>>, <<2,2,1>>, <<3,2,1>>, <<3,3,1>>,
        <<4,4,1>>, <<6,6,1>>, <<8,8,1>>, <<16,16,1>>, <<3,1,2>>, <<4,2,2>>, <<8,1,2>>, <<12,3,1>>}
Cells(m) == m[1] * m[2] * m[3]
Strategies == {"automatic", "single", "layered", "layered_sorted", "colored"}
\* requested worker counts: 0, 1, 2, 3, ... up to the number of cells + 2 (capped for the big meshes)
MaxWs(m) == IF Cells(m) <= 6 THEN 0..(Cells(m) + 2) ELSE {0, 1, 2, 3, 4, 5, 8}
\* cell subsets: every non-empty subset for up to 6 cells; otherwise all cells and structured subsets
Subsets(m) ==
  LET n == Cells(m) all == 0..(n - 1) IN
  IF n <= (IF Tier = 1 THEN 4 ELSE 6) THEN (SUBSET all) \ {{}}
  ELSE {all, {k \in all : k % 2 = 0}, {k \in all : k < n \div 2}, {k \in all : k % 3 # 1}, {k \in all : k >= n - 2}}
Fails(S) == LET lo == CHOOSE k \in S : \A j \in S : k <= j  hi == CHOOSE k \in S : \A j \in S : k >= j IN {-1, lo, hi}

Init == \E m \in Meshes : \E S \in Subsets(m), st \in Strategies, w \in MaxWs(m), sc \in BOOLEAN, co \in BOOLEAN, jobs \in {1, 3} :
          \E f \in Fails(S) :
            c = [nx |-> m[1], ny |-> m[2], comps |-> m[3], subset |-> S, strategy |-> st, maxw |-> w,
                 scatter |-> sc, combine |-> co, jobs |-> jobs, fail |-> f]
Next == UNCHANGED c
Emit == PrintT(ToJson(c))
==============================================================================
