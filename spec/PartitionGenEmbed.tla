--------------------------- MODULE PartitionGenEmbed ---------------------------
(* C12 generator: base meshes whose WORLD dimension exceeds their SHAPE dimension - quadrilateral / triangle surface   *)
(* meshes in 3D, edge meshes in 2D and 3D (FEAT: ConformalMesh<Shape_, num_coords_> with num_coords_ > Shape_::dimension) *)
(* - for the clause "the extracted patch meshes together contain every cell exactly once" read GEOMETRICALLY: patch cell  *)
(* j IS base cell target[j], i.e. every patch vertex carries ALL world coordinates of the base vertex it maps to          *)
(* (Partition!PatchIsSubmesh, last conjunct), on every level of the joint refinement.                                      *)
(*                                                                                                                        *)
(* Meshes (all with small integer coordinates, every coordinate of every vertex non-zero, so that a coordinate that is     *)
(* never written - zero-initialised or stale memory - cannot coincide with the expected value):                            *)
(*   "surf"   the closed surface of the 3D reference cell, straight from the specification's own face table                *)
(*            (RefCell!FaceTable(fam, 3, 2)): 6 quadrilaterals (cube) / 4 triangles (tetrahedron), no boundary              *)
(*   "octa"   the closed surface of the octahedron (8 triangles, every vertex of valence 4)                                 *)
(*   "grid"   an nx x ny block of quadrilaterals (or 2 nx ny triangles) of the plane, LIFTED into 3D by one of the maps of  *)
(*            Lift3: a skew plane, a roof (non-planar quadrilaterals), a parabolic sheet with permuted axes                  *)
(*   "loop"   the closed polygon of the edges of the 2D reference cell (FaceTable(fam, 2, 1): 4 / 3 edges) in the plane     *)
(*            and lifted into 3D                                                                                            *)
(*   "line"   an open polyline of n edges along a parabola (2D) / a twisted cubic (3D); Flip: every second edge reversed      *)
(*            (local vertex order not monotone along the line)                                                              *)
(* checks/C12.py combines every mesh with every cell -> rank assignment of spec/PartitionGen.tla (<= 6 cells: all of them). *)
EXTENDS RefCell, SequencesExt, FiniteSetsExt, Json, TLC

VARIABLE mi

Abs(x) == IF x < 0 THEN 0 - x ELSE x
\* ---- placements: injective integer maps with no zero coordinate on the domains used below ---------------------------
\* 3D reference cells: an affine map with a shear (no coordinate of the image is an axis-parallel copy of an input)
Place3(p) == <<1 + 2 * p[1], 3 + 2 * p[2] + p[1], 5 + 2 * p[3] + p[2]>>
Place2(p) == <<1 + 2 * p[1] + p[2], 2 + 2 * p[2]>>
Lifts == {"plane", "roof", "sheet"}
Lift3(k, p) ==
  CASE k = "plane" -> <<1 + p[1], 2 + p[2], 3 + p[1] + 2 * p[2]>>
    [] k = "roof"  -> <<1 + p[1], 1 + p[2], 4 + 2 * Abs(p[1] - 1) + p[2] * p[2]>>
    [] k = "sheet" -> <<9 + p[2] * p[2] - p[1], 1 + p[1], 2 + p[1] + p[2]>>
Curve(w, i) == IF w = 2 THEN <<1 + i, 2 + i * i>> ELSE <<1 + i, 2 + i * i, 30 - i * i * i + 7 * i>>

\* ---- the meshes: [name, fam, dim, wdim, X (1-based tuple of points), cells (tuples of 0-based vertex numbers)] ---------
Surf(fam) ==
  [name |-> "surf-" \o fam, fam |-> fam, dim |-> 2, wdim |-> 3,
   X |-> [v \in 1..NVerts(fam, 3) |-> Place3(RefPoint(fam, 3, v - 1))],
   cells |-> FaceTable(fam, 3, 2)]
\* octahedron: vertices 0..5 = +x -x +y -y +z -z; a face per sign combination
Octa ==
  LET P == << <<2, 0, 0>>, <<-2, 0, 0>>, <<0, 2, 0>>, <<0, -2, 0>>, <<0, 0, 2>>, <<0, 0, -2>> >>
  IN [name |-> "octa", fam |-> "simplex", dim |-> 2, wdim |-> 3,
      X |-> [v \in 1..6 |-> <<4 + P[v][1], 5 + P[v][2] + P[v][1] \div 2, 6 + P[v][3]>>],
      cells |-> [k \in 1..8 |-> <<Bit(k - 1, 0), 2 + Bit(k - 1, 1), 4 + Bit(k - 1, 2)>>]]
GV(nx, i, j) == i + (nx + 1) * j
GridPts(nx, ny) == [v \in 1..((nx + 1) * (ny + 1)) |-> <<(v - 1) % (nx + 1), (v - 1) \div (nx + 1)>>]
GridCells(fam, nx, ny) ==
  IF fam = "hypercube"
  THEN [c \in 1..(nx * ny) |-> LET i == (c - 1) % nx  j == (c - 1) \div nx IN
          <<GV(nx, i, j), GV(nx, i + 1, j), GV(nx, i, j + 1), GV(nx, i + 1, j + 1)>>]
  ELSE [c \in 1..(2 * nx * ny) |-> LET q == (c - 1) \div 2  i == q % nx  j == q \div nx IN
          IF (c - 1) % 2 = 0 THEN <<GV(nx, i, j), GV(nx, i + 1, j), GV(nx, i, j + 1)>>
          ELSE <<GV(nx, i + 1, j + 1), GV(nx, i, j + 1), GV(nx, i + 1, j)>>]
Grid(fam, nx, ny, k) ==
  [name |-> "grid-" \o fam \o "-" \o ToString(nx) \o "x" \o ToString(ny) \o "-" \o k, fam |-> fam, dim |-> 2, wdim |-> 3,
   X |-> [v \in 1..((nx + 1) * (ny + 1)) |-> Lift3(k, GridPts(nx, ny)[v])],
   cells |-> GridCells(fam, nx, ny)]
Loop(fam, w, k) ==
  [name |-> "loop-" \o fam \o "-" \o ToString(w) \o "d" \o (IF w = 3 THEN "-" \o k ELSE ""), fam |-> "hypercube", dim |-> 1, wdim |-> w,
   X |-> [v \in 1..NVerts(fam, 2) |-> IF w = 2 THEN Place2(RefPoint(fam, 2, v - 1)) ELSE Lift3(k, RefPoint(fam, 2, v - 1))],
   cells |-> FaceTable(fam, 2, 1)]
Line(n, w, flip) ==
  [name |-> "line-" \o ToString(n) \o "-" \o ToString(w) \o "d" \o (IF flip THEN "-flip" ELSE ""), fam |-> "hypercube", dim |-> 1, wdim |-> w,
   X |-> [v \in 1..(n + 1) |-> Curve(w, v - 1)],
   cells |-> [c \in 1..n |-> IF flip /\ c % 2 = 0 THEN <<c, c - 1>> ELSE <<c - 1, c>>]]

Meshes ==
  {Surf("hypercube"), Surf("simplex"), Octa}
  \cup {Grid("hypercube", g[1], g[2], k) : g \in {<<2, 1>>, <<2, 2>>, <<3, 1>>, <<3, 2>>, <<4, 4>>}, k \in Lifts}
  \cup {Grid("simplex", g[1], g[2], k) : g \in {<<1, 1>>, <<2, 1>>, <<3, 1>>, <<3, 3>>}, k \in Lifts}
  \cup {Loop(f, 2, "plane") : f \in Families} \cup {Loop(f, 3, k) : f \in Families, k \in Lifts}
  \cup {Line(n, w, fl) : n \in {2, 3, 5, 6, 12}, w \in {2, 3}, fl \in BOOLEAN}
MeshSeq == SetToSeq(Meshes)

Init == mi \in 1..Len(MeshSeq)
Next == UNCHANGED mi
Spec == Init /\ [][Next]_mi

\* ---- sanity of the generator (invariants) -------------------------------------------------------------------------------
M == MeshSeq[mi]
NV == Len(M.X)
CellVS(c) == TRange(M.cells[c])
\* world dimension exceeds the shape dimension; all points have wdim coordinates; no coordinate is zero
Embedded ==
  /\ M.wdim > M.dim
  /\ \A v \in 1..NV : Len(M.X[v]) = M.wdim /\ \A a \in 1..M.wdim : M.X[v][a] # 0
\* the trailing coordinates (those a loop over the SHAPE dimension would never touch) separate at least two vertices
TrailingVaries == \A a \in (M.dim + 1)..M.wdim : Cardinality({M.X[v][a] : v \in 1..NV}) >= 2
DistinctPoints == Cardinality({M.X[v] : v \in 1..NV}) = NV
CellsOK ==
  /\ \A c \in 1..Len(M.cells) : Len(M.cells[c]) = NVerts(M.fam, M.dim) /\ Cardinality(CellVS(c)) = NVerts(M.fam, M.dim)
                                 /\ CellVS(c) \subseteq 0..(NV - 1)
  /\ UNION {CellVS(c) : c \in 1..Len(M.cells)} = 0..(NV - 1)
  /\ Cardinality({CellVS(c) : c \in 1..Len(M.cells)}) = Len(M.cells)
\* faces of a cell as vertex sets
FaceSets(c, e) == {{M.cells[c][v + 1] : v \in TRange(FaceVerts(M.fam, M.dim, e, k))} : k \in 0..(NFaces(M.fam, M.dim, e) - 1)}
\* conforming: two cells meet in a common face of both, or not at all
Conforming ==
  \A a, b \in 1..Len(M.cells) : a < b =>
    LET S == CellVS(a) \cap CellVS(b) IN
      S = {} \/ \E e \in 0..(M.dim - 1) : S \in FaceSets(a, e) /\ S \in FaceSets(b, e)
\* manifold: a facet belongs to at most two cells (FacetNeighbors::compute documents more as an error)
Manifold ==
  \A c \in 1..Len(M.cells) : \A F \in FaceSets(c, M.dim - 1) :
    Cardinality({b \in 1..Len(M.cells) : F \in FaceSets(b, M.dim - 1)}) <= 2
HasBoundary ==
  \E c \in 1..Len(M.cells) : \E F \in FaceSets(c, M.dim - 1) : Cardinality({b \in 1..Len(M.cells) : F \in FaceSets(b, M.dim - 1)}) = 1

Emit == PrintT(ToJson([name |-> M.name, fam |-> M.fam, dim |-> M.dim, wdim |-> M.wdim, ncells |-> Len(M.cells), closed |-> ~HasBoundary,
                       src |-> [raw |-> [X |-> M.X, cs |-> 0, cells |-> M.cells, wdim |-> M.wdim]]]))
=============================================================================
