--------------------------- MODULE Gen_GlobalMat ---------------------------
(* G direction for C13, distributed matrices: every decomposition of the     *)
(* SynchMat module (row dofs, column dofs, sparsity pattern variant) with    *)
(* the results Global::Matrix must produce for local type-0 matrices of      *)
(* scalar (CSR, 1x1) and blocked (BCSR 2x2 and 2x3) kind:                    *)
(*   convert_to_1     every entry of the local pattern holds the sum over    *)
(*                    all ranks that have this entry in their pattern        *)
(*   extract_diag     local diagonal (type 0) / synchronised (type 1)        *)
(*   lump_rows        local row sums / synchronised                          *)
(*   apply, apply_transposed, apply(r, x, y, alpha) and the _async variants  *)
(*   rows, columns, used_elements  of the distributed matrix                 *)
(* Block (k, l) of entry (d, e) is component (k-1)*3 + l of the module's     *)
(* value function; the scalar matrix is component 1.                         *)
(*                                                                           *)
(* Every rank numbers its row dofs and its column dofs locally by a          *)
(* renumbering kind (module Renum; SQUARE: the same kind for rows and        *)
(* columns), so the row and column mirrors handed to LAFEM::MatrixMirror     *)
(* (gather / scatter_axpy of the buffer matrices) are NOT monotone in        *)
(* general.  Per-rank data are listed in the local numbering: rows in local  *)
(* row order, the entries of a row in ascending LOCAL column order (the CSR  *)
(* layout of the local matrix).  Besides the all-identity numbering only     *)
(* numberings with a non-monotone row or column mirror are emitted.          *)
EXTENDS SynchMat, Json, Renum

CONSTANT RENK            \* largest renumbering kind (0: ascending local numbering only)
VARIABLES rren, cren     \* rank -> renumbering kind of the row / column dofs
gvars == <<vars, rren, cren>>

Types == {"s", "b22", "b23"}
BH(t) == IF t = "s" THEN 1 ELSE 2
BW(t) == IF t = "s" THEN 1 ELSE IF t = "b22" THEN 2 ELSE 3
BVal(r, d, e, k, l) == AVal(r, d, e, (k - 1) * 3 + l)

RowSharers(d) == {r \in Ranks : d \in rd[r]}
ColSharers(e) == {r \in Ranks : e \in cd[r]}
RowOwned == UNION {rd[r] : r \in Ranks}
ColOwned == UNION {cd[r] : r \in Ranks}

\* consistent (type-1) test vectors on the column / row dofs
XB(e, l) == 2 * e + 1 - l
YB(d, k) == 5 - 3 * d + 2 * k


\* --- expected results ---------------------------------------------------------------------------
Conv1(r, p, k, l) == LET S == {s \in Ranks : p \in Pat(s)} IN SumOver(S, [s \in S |-> BVal(s, p[1], p[2], k, l)])
Diag0(r, d, k) == IF <<d, d>> \in Pat(r) THEN BVal(r, d, d, k, k) ELSE 0
Diag1(d, k) == LET S == RowSharers(d) IN SumOver(S, [s \in S |-> Diag0(s, d, k)])
RowCols(r, d) == {e \in cd[r] : <<d, e>> \in Pat(r)}
ColRows(r, e) == {d \in rd[r] : <<d, e>> \in Pat(r)}
Lump0(t, r, d, k) == LET E == RowCols(r, d) IN SumOver(E, [e \in E |-> SumOver(1..BW(t), [l \in 1..BW(t) |-> BVal(r, d, e, k, l)])])
Lump1(t, d, k) == LET S == RowSharers(d) IN SumOver(S, [s \in S |-> Lump0(t, s, d, k)])
AX0(t, r, d, k) == LET E == RowCols(r, d) IN SumOver(E, [e \in E |-> SumOver(1..BW(t), [l \in 1..BW(t) |-> BVal(r, d, e, k, l) * XB(e, l)])])
AX(t, d, k) == LET S == RowSharers(d) IN SumOver(S, [s \in S |-> AX0(t, s, d, k)])
ATY0(t, r, e, l) == LET D == ColRows(r, e) IN SumOver(D, [d \in D |-> SumOver(1..BH(t), [k \in 1..BH(t) |-> BVal(r, d, e, k, l) * YB(d, k)])])
ATY(t, e, l) == LET S == ColSharers(e) IN SumOver(S, [s \in S |-> ATY0(t, s, e, l)])

Sorted(S) == [i \in 1..Cardinality(S) |-> CHOOSE d \in S : Cardinality({e \in S : e < d}) = i - 1]
RowsOf(r) == RnOrder(rd[r], rren[r])
ColsOf(r) == RnOrder(cd[r], cren[r])
\* the entries of local row d in ascending local column order
RowSeq(r, d) == SelectSeq(ColsOf(r), LAMBDA e : e \in RowCols(r, d))
PerRow(r, Op(_, _)) == [i \in 1..Cardinality(rd[r]) |-> LET d == RowsOf(r)[i] IN
                          LET E == RowSeq(r, d) IN [j \in 1..Len(E) |-> Op(d, E[j])]]
RMir(r, s) == IF s # r /\ rd[r] \cap rd[s] # {} THEN RnMirror(RowsOf(r), rd[r] \cap rd[s]) ELSE <<>>
CMir(r, s) == IF s # r /\ cd[r] \cap cd[s] # {} THEN RnMirror(ColsOf(r), cd[r] \cap cd[s]) ELSE <<>>
NonMono == \E r, s \in Ranks : ~RnMonotone(RMir(r, s)) \/ ~RnMonotone(CMir(r, s))
AllIdentity == \A r \in Ranks : rren[r] = 0 /\ cren[r] = 0
Six(Op(_, _)) == [c \in 1..6 |-> Op(((c - 1) \div 3) + 1, ((c - 1) % 3) + 1)]
RowVec(t, r, Op(_, _)) == [i \in 1..Cardinality(rd[r]) |-> [k \in 1..BH(t) |-> Op(RowsOf(r)[i], k)]]
ColVec(t, r, Op(_, _)) == [j \in 1..Cardinality(cd[r]) |-> [l \in 1..BW(t) |-> Op(ColsOf(r)[j], l)]]
\* number of ranks sharing a dof: the frequency 1/count is exact only for powers of two
CountsR == [r \in Ranks |-> [i \in 1..Cardinality(rd[r]) |-> Cardinality(RowSharers(RowsOf(r)[i]))]]
CountsC == [r \in Ranks |-> [j \in 1..Cardinality(cd[r]) |-> Cardinality(ColSharers(ColsOf(r)[j]))]]

Case ==
  [kind |-> "mat", nr |-> NR, nd |-> ND, nc |-> NC, square |-> SQUARE, pv |-> pv,
   rdofs |-> [r \in Ranks |-> RowsOf(r)], cdofs |-> [r \in Ranks |-> ColsOf(r)],
   rren |-> [r \in Ranks |-> rren[r]], cren |-> [r \in Ranks |-> cren[r]], nonmono |-> NonMono,
   rmir |-> [r \in Ranks |-> [s \in Ranks |-> RMir(r, s)]], cmir |-> [r \in Ranks |-> [s \in Ranks |-> CMir(r, s)]],
   rcount |-> CountsR, ccount |-> CountsC,
   pat |-> [r \in Ranks |-> PerRow(r, LAMBDA d, e : e)],
   a |-> [r \in Ranks |-> PerRow(r, LAMBDA d, e : Six(LAMBDA k, l : BVal(r, d, e, k, l)))],
   conv1 |-> [r \in Ranks |-> PerRow(r, LAMBDA d, e : Six(LAMBDA k, l : Conv1(r, <<d, e>>, k, l)))],
   diag0 |-> [r \in Ranks |-> RowVec("b22", r, LAMBDA d, k : Diag0(r, d, k))],
   diag1 |-> [r \in Ranks |-> RowVec("b22", r, LAMBDA d, k : Diag1(d, k))],
   lump0 |-> [t \in Types |-> [r \in Ranks |-> RowVec(t, r, LAMBDA d, k : Lump0(t, r, d, k))]],
   lump1 |-> [t \in Types |-> [r \in Ranks |-> RowVec(t, r, LAMBDA d, k : Lump1(t, d, k))]],
   x |-> [r \in Ranks |-> ColVec("b23", r, LAMBDA e, l : XB(e, l))],
   y |-> [r \in Ranks |-> RowVec("b22", r, LAMBDA d, k : YB(d, k))],
   ax |-> [t \in Types |-> [r \in Ranks |-> RowVec(t, r, LAMBDA d, k : AX(t, d, k))]],
   aty |-> [t \in Types |-> [r \in Ranks |-> ColVec(t, r, LAMBDA e, l : ATY(t, e, l))]],
   ymax |-> [t \in Types |-> [r \in Ranks |-> RowVec(t, r, LAMBDA d, k : YB(d, k) - AX(t, d, k))]],
   grows |-> Cardinality(RowOwned), gcols |-> Cardinality(ColOwned),
   gnnz |-> SumOver(Ranks, [r \in Ranks |-> Cardinality(Pat(r))])]

GenInit ==
  /\ Init
  /\ rren \in [Ranks -> 0..RENK]
  /\ IF SQUARE THEN cren = rren ELSE cren \in [Ranks -> 0..RENK]
  /\ \A r \in Ranks : RnCanon(rd[r], rren[r]) /\ RnCanon(cd[r], cren[r])
  /\ (AllIdentity \/ NonMono)
GenNext == UNCHANGED gvars
GenSpec == GenInit /\ [][GenNext]_gvars
Emit == PrintT(ToJson(Case))
\* sanity laws of the expected values themselves
\* (0) local numberings are permutations, both sides of a mirror pair address the same global dof, a CSR row lists every entry once
LawRenum == \A r \in Ranks :
  /\ RnIsPerm(RowsOf(r), rd[r]) /\ RnIsPerm(ColsOf(r), cd[r])
  /\ \A s \in Ranks \ {r} : RnMirrorsAgree(RowsOf(r), RowsOf(s), rd[r] \cap rd[s]) /\ RnMirrorsAgree(ColsOf(r), ColsOf(s), cd[r] \cap cd[s])
  /\ \A d \in rd[r] : Len(RowSeq(r, d)) = Cardinality(RowCols(r, d))
\* (1) a dof held by one rank only: the type-1 entry is the local entry
LawUnshared == \A r \in Ranks : \A p \in Pat(r) : (\A s \in Ranks \ {r} : p \notin Pat(s)) => Conv1(r, p, 1, 1) = BVal(r, p[1], p[2], 1, 1)
\* (2) all sharers of an entry see the same type-1 value
LawConsistent == \A r, s \in Ranks : \A p \in Pat(r) \cap Pat(s) : Conv1(r, p, 2, 3) = Conv1(s, p, 2, 3)
\* (3) the synchronised diagonal is the diagonal of the type-1 matrix wherever every sharer of the dof has the diagonal entry
LawDiag == \A r \in Ranks : \A d \in rd[r] : (\A s \in RowSharers(d) : <<d, d>> \in Pat(s)) => Diag1(d, 2) = Conv1(r, <<d, d>>, 2, 2)
=============================================================================
