------------------------------- MODULE Persist -------------------------------
(* C05: persisted containers read back equal to what was written.           *)
(*                                                                          *)
(* A container is [kind, m, n, bh, bw, rep] with rep the raw arrays of      *)
(* Storage.tla (values are integer numerators over Den = 4, i.e. dyadic).   *)
(* Arrays(c) is the generic container state the LAFEM base class persists:  *)
(*    el  the element arrays, ix the index arrays, si the scalar_index      *)
(* written from the constructors in kernel/lafem/*.hpp.                     *)
(*                                                                          *)
(* Actions:  Write(mode, cdt, cit, sdt, sit) produces an abstract FILE,     *)
(*           Read gives a container state back, computed FROM THE FILE.     *)
(*  binary modes (native binary of the kind, fm_binary, serialize<DT2,IT2>):*)
(*    the file is the u64 word sequence of the header, the byte offsets of  *)
(*    every array and the total byte length, computed by a transcription of *)
(*    the documented layout of Container::_serialize                        *)
(*      len, magic, hash(DT), hash(IT), #el, #ix, #el, #ix, #si, #sd, compress, *)
(*      el sizes, el byte sizes, ix sizes, ix byte sizes, scalar_index,     *)
(*      [scalar_dt], element arrays (aligned to sizeof DT2), index arrays   *)
(*      (aligned to sizeof IT2), 16 bytes padding                           *)
(*    so a writer/reader pair that is consistently wrong is still caught;   *)
(*  text modes: MatrixMarket (array / coordinate) and exponent text as a    *)
(*    sequence of lines [i: integer tokens, x: value tokens (numerators)].  *)
(* Invariant RoundTrip: binary -> the arrays read back are identical to     *)
(* Arrays(c) (bit-identical values and layout); text -> identical           *)
(* dimensions, pattern and values.                                           *)
(* The PATTERN (stored index set, used_elements) is state of its own: an    *)
(* entry that is stored stays stored whatever its value is.  Palettes 3-5   *)
(* assign {palette value, +0, -0 (PersistFmt!NegZero)} to the stored        *)
(* entries in every way; StoredWritten: a text file lists every stored      *)
(* entry (and its header counts them), PatternKept: the index arrays read   *)
(* back are the ones written.  Binary modes keep the sign bit of a zero,    *)
(* text modes are compared by value (Canon).  Palette 5: square CSR with    *)
(* symmetric pattern and values, additionally written in the symmetric      *)
(* MatrixMarket variant (mode "mtxsym": lower triangle, mirrored on read).  *)
(* Emit prints each behaviour for the C++ replayer (direction G), which     *)
(* compares the real byte stream / token stream with the predicted file and *)
(* the real container read back with the predicted one.                      *)
EXTENDS PersistFmt, Json, TLC

CONSTANTS Kind,        \* "dv" | "dvb" | "sv" | "svb" | "dm" | "csr" | "bcsr" | "cscr" | "banded"
          MaxM, MaxN,  \* sizes 0..MaxM (x 0..MaxN for matrices; block counts for blocked kinds)
          BH, BW,      \* block size of dvb/svb (BH) resp. block shape of bcsr
          Pal          \* value palette 1 | 2: fixed values (2: with zeros and repeats);
                       \* 3: palette 1 and EVERY assignment {keep, +0, -0} to the stored entries (stored zeros);
                       \* 4: as 3 without -0;  5: (csr) square matrices with symmetric pattern and values, every
                       \*    symmetric assignment {keep, +0, -0}: adds the symmetric MatrixMarket mode "mtxsym";
                       \* 6: as 5 without the assignments

VARIABLES ph,    \* "init" | "written" | "read"
          c,     \* the container
          call,  \* [mode, cdt, cit, sdt, sit]: container types (bytes) and serialisation types
          file,  \* the abstract file
          back   \* what Read produced
vars == <<ph, c, call, file, back>>

Den == 4
PV(k) == IF Pal = 2 THEN ((k * 5) % 7) - 3                                 \* -3..3 with zeros and repeats
         ELSE (IF k % 2 = 1 THEN 2 * k + 1 ELSE -(k + 4))                  \* 3,-6,7,-8,11,... (over 4)
Sym == Pal \in {5, 6}
MVal(i, j) == IF Sym THEN PV((Min(i, j) - 1) * 5 + Max(i, j)) ELSE PV((i - 1) * 5 + j)

(***************************************************************************)
(* Stored zeros.  A mask assigns to every STORED entry one of               *)
(*   0 keep the palette value, 1 the value +0, 2 the value -0 (NegZero).    *)
(* An entry that is stored stays stored whatever its value is.              *)
(***************************************************************************)
MaskVals == CASE Pal \in {3, 5} -> 0..2 [] Pal = 4 -> 0..1 [] OTHER -> {0}
Msk(q, v) == CASE q = 0 -> v [] q = 1 -> 0 [] q = 2 -> NegZero
Masks(S) == [S -> MaskVals]
\* masked vector values / masked dense matrix (positions outside DOMAIN f keep their value)
MVals(len, f) == [k \in 1..len |-> Msk(f[k], PV(k))]
MD(mm, nn, f) == [i \in 1..mm |-> [j \in 1..nn |-> IF <<i, j>> \in DOMAIN f THEN Msk(f[<<i, j>>], MVal(i, j)) ELSE MVal(i, j)]]
\* symmetric mask given on the lower triangle of a symmetric pattern
Lower(P) == {e \in P : e[1] >= e[2]}
SymPat(P) == \A e \in P : <<e[2], e[1]>> \in P
MirrorMask(P, g) == [e \in P |-> IF e[1] >= e[2] THEN g[e] ELSE g[<<e[2], e[1]>>]]
PatMasks(P) == IF Sym THEN {MirrorMask(P, g) : g \in Masks(Lower(P))} ELSE Masks(P)
Patterns(mm, nn) == IF Sym THEN {P \in SUBSET ((1..mm) \X (1..nn)) : SymPat(P)} ELSE SUBSET ((1..mm) \X (1..nn))
\* BCSR: the mask is given per stored BLOCK: 1 = a block of zeros, 2 = a block with +0 and -0 next to kept values
BlkMsk(q, li, lj, v) == CASE q = 0 -> v [] q = 1 -> 0 [] q = 2 -> IF (li + lj) % 2 = 0 THEN v ELSE IF li = 1 THEN 0 ELSE NegZero
BMD(mb, nb, f) == [i \in 1..(mb * BH) |-> [j \in 1..(nb * BW) |->
                     LET b == <<((i - 1) \div BH) + 1, ((j - 1) \div BW) + 1>>
                     IN  IF b \in DOMAIN f THEN BlkMsk(f[b], ((i - 1) % BH) + 1, ((j - 1) % BW) + 1, MVal(i, j)) ELSE MVal(i, j)]]

(***************************************************************************)
(* Containers and calls                                                      *)
(***************************************************************************)
DenseD(mm, nn) == [i \in 1..mm |-> [j \in 1..nn |-> MVal(i, j)]]
Mk(kind, mm, nn, rep) == [kind |-> kind, m |-> mm, n |-> nn, bh |-> BH, bw |-> BW, rep |-> rep, alloc |-> FALSE]
\* the entry-free container with allocated array slots of length 0 (see PersistFmt!Arrays)
MkAlloc(kind, mm, nn, rep) == [kind |-> kind, m |-> mm, n |-> nn, bh |-> BH, bw |-> BW, rep |-> rep, alloc |-> TRUE]
Dims == IF Sym THEN {<<mm, mm>> : mm \in 0..Min(MaxM, MaxN)} ELSE (0..MaxM) \X (0..MaxN)
Dims1 == {d \in Dims : d[1] >= 1 /\ d[2] >= 1}
Containers ==
  CASE Kind = "dv"  -> UNION {{Mk("dv", mm, 1, [va |-> MVals(mm, f)]) : f \in Masks(1..mm)} : mm \in 0..MaxM}
    [] Kind = "dvb" -> UNION {{Mk("dvb", mm, 1, [va |-> MVals(mm * BH, f)]) : f \in Masks(1..(mm * BH))} : mm \in 0..MaxM}
    [] Kind = "sv"  -> UNION {UNION {{Mk("sv", mm, 1, [idx |-> SetToSortSeq(I, <), va |-> MVals(Cardinality(I), f)]) : f \in Masks(1..Cardinality(I))} :
                                     I \in SUBSET (0..(mm - 1))} : mm \in 0..MaxM}
                       \cup {MkAlloc("sv", mm, 1, [idx |-> <<>>, va |-> <<>>]) : mm \in 1..MaxM}
    [] Kind = "svb" -> UNION {UNION {{Mk("svb", mm, 1, [idx |-> SetToSortSeq(I, <), va |-> MVals(Cardinality(I) * BH, f)]) : f \in Masks(1..(Cardinality(I) * BH))} :
                                     I \in SUBSET (0..(mm - 1))} : mm \in 0..MaxM}
                       \cup {MkAlloc("svb", mm, 1, [idx |-> <<>>, va |-> <<>>]) : mm \in 1..MaxM}
    [] Kind = "dm"  -> UNION {{Mk("dm", d[1], d[2], DenseOf(d[1], d[2], MD(d[1], d[2], f))) : f \in Masks((1..d[1]) \X (1..d[2]))} : d \in Dims1}     \* DenseMatrix requires non-zero dimensions
    [] Kind = "csr" -> UNION {UNION {{Mk("csr", d[1], d[2], CSROf(d[1], d[2], MD(d[1], d[2], f), P)) : f \in PatMasks(P)} : P \in Patterns(d[1], d[2])} : d \in Dims}
                       \cup {MkAlloc("csr", d[1], d[2], CSROf(d[1], d[2], DenseD(d[1], d[2]), {})) : d \in Dims1}
    [] Kind = "bcsr" -> UNION {UNION {{Mk("bcsr", d[1], d[2], BCSROf(d[1], d[2], BH, BW, BMD(d[1], d[2], f), P)) : f \in Masks(P)} : P \in SUBSET ((1..d[1]) \X (1..d[2]))} : d \in Dims}
                        \cup {MkAlloc("bcsr", d[1], d[2], BCSROf(d[1], d[2], BH, BW, DenseD(d[1] * BH, d[2] * BW), {})) : d \in Dims1}
    [] Kind = "cscr" -> UNION {UNION {UNION {{Mk("cscr", d[1], d[2], CSCROf(d[1], d[2], MD(d[1], d[2], f), P, R)) : f \in Masks(P)} :
                                 R \in {R \in SUBSET (1..d[1]) : {e[1] : e \in P} \subseteq R /\ (P = {} => R = {})}} :
                                 P \in SUBSET ((1..d[1]) \X (1..d[2]))} : d \in Dims}
                        \cup {MkAlloc("cscr", d[1], d[2], CSCROf(d[1], d[2], DenseD(d[1], d[2]), {}, {})) : d \in Dims1}
    [] Kind = "banded" -> UNION {UNION {{Mk("banded", d[1], d[2], BandedOf(d[1], d[2], MD(d[1], d[2], f), O, 0)) : f \in Masks(BandPattern(d[1], d[2], O))} :
                                   O \in SUBSET (0..(d[1] + d[2] - 2))} : d \in Dims1}   \* (no offsets: arrays of length 0)
\* the symmetric MatrixMarket variant write_out(fm_mtx, file, true) of CSR is defined for symmetric matrices only
TextModes(cc) == CASE cc.kind \in {"dv", "dvb"} -> {"exp", "mtx"} [] cc.kind \in {"sv", "dm", "bcsr"} -> {"mtx"}
                   [] cc.kind = "csr" -> {"mtx"} \cup (IF Sym /\ SymCSR(cc.m, cc.n, cc.rep) THEN {"mtxsym"} ELSE {})
                   [] OTHER -> {}
\* write_out/read_from binary modes always (de)serialise as <double, uint64>; serialize<DT2,IT2>()/deserialize
\* ("ser") take the serialisation types as template parameters
Calls(cc) ==
  {[mode |-> mo, cdt |-> t[1], cit |-> t[2], sdt |-> 8, sit |-> 8] : mo \in TextModes(cc) \cup {NativeMode(cc.kind), "binary"}, t \in {<<8, 8>>, <<4, 4>>}}
  \cup {[mode |-> "ser", cdt |-> t[1], cit |-> t[2], sdt |-> s[1], sit |-> s[2]] : t \in {<<8, 8>>, <<4, 4>>}, s \in {<<8, 8>>, <<8, 4>>, <<4, 8>>, <<4, 4>>}}
IsBin(mode) == mode \notin {"exp", "mtx", "mtxsym"}

Init ==
  /\ ph = "init" /\ c \in Containers /\ call \in Calls(c)
  /\ file = [fmt |-> "none"] /\ back = [fmt |-> "none"]
Write ==
  /\ ph = "init" /\ ph' = "written"
  /\ file' = IF IsBin(call.mode)
             THEN BinFile(Arrays(c), Magic(IF call.mode \in {"binary", "ser"} THEN NativeMode(c.kind) ELSE call.mode), call.cdt, call.cit, call.sdt, call.sit)
             ELSE TextFile(c, call.mode)
  /\ UNCHANGED <<c, call, back>>
Read ==
  /\ ph = "written" /\ ph' = "read"
  /\ back' = IF IsBin(call.mode) THEN ReadBin(file) ELSE ReadText(c.kind, call.mode, IF c.kind = "dvb" THEN c.bh ELSE 1, file)
  /\ UNCHANGED <<c, call, file>>
Next == Write \/ Read
Spec == Init /\ [][Next]_vars

\* ---- properties --------------------------------------------------------------------------------------
RoundTrip == ph = "read" => back = (IF IsBin(call.mode) THEN Arrays(c) ELSE AbsView(c, call.mode))
LayoutOK == ph # "init" /\ IsBin(call.mode) => BinLayoutOK(file)
\* a text file lists EVERY stored entry, whatever its value (the symmetric format: every stored entry of the lower
\* triangle), and the entry count of a coordinate header is the number of entry lines
StoredWritten == ph # "init" /\ ~IsBin(call.mode) =>
  LET ls == IF call.mode = "exp" THEN file.lines ELSE Tail(file.lines)          \* (the MatrixMarket formats start with the size line)
  IN  /\ call.mode # "mtxsym" => Len(ls) = StoredCount(c)
      /\ call.mode = "mtxsym" => Len(ls) = Cardinality(Lower(PatCSR(c.m, c.rep)))
      /\ file.hdr \in {HdrCoord, HdrCoordSym} => file.lines[1].i[3] = Len(ls)
\* the pattern survives a text round trip also where stored values are zero
PatternKept == ph = "read" /\ ~IsBin(call.mode) /\ c.kind \in {"sv", "csr"} =>
  /\ back.used = StoredCount(c)
  /\ c.kind = "sv" => back.idx = c.rep.idx
  /\ c.kind = "csr" => back.rep.ci = c.rep.ci /\ back.rep.rp = c.rep.rp
\* non-vacuity of the stored-zero palettes is measured by the check (cases with stored zeros per kind x mode)
NumZeros(cc) ==
  LET v == IF cc.kind = "bcsr" THEN Flatten([k \in 1..Len(cc.rep.va) |-> Flatten(cc.rep.va[k])]) ELSE cc.rep.va
  IN  <<Cardinality({k \in 1..Len(v) : v[k] = 0}), Cardinality({k \in 1..Len(v) : v[k] = NegZero})>>

Emit == ph = "read" =>
  PrintT(ToJson([part |-> "io", kind |-> c.kind, m |-> c.m, n |-> c.n, bh |-> c.bh, bw |-> c.bw, den |-> Den, negzero |-> NegZero, pal |-> Pal,
                 zeros |-> NumZeros(c), rep |-> c.rep, arrays |-> Arrays(c),
                 alloc |-> c.alloc, mode |-> call.mode, cdt |-> call.cdt, cit |-> call.cit, sdt |-> call.sdt, sit |-> call.sit,
                 file |-> file, back |-> back]))
=============================================================================
