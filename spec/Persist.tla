------------------------------- MODULE Persist -------------------------------
(* C05: persisted containers read back equal to what was written.           *)
(*                                                                          *)
(* A container is [kind, m, n, bh, bw, rep] with rep the raw arrays of      *)
(* Storage.tla (values are integer numerators over Den = 4, i.e. dyadic).   *)
(* Arrays(c) is the generic container state the LAFEM base class persists:  *)
(*    el  the element arrays, ix the index arrays, si the scalar_index      *)
(* written from the constructors in kernel/lafem/*.hpp.                     *)
(*                                                                          *)
(* Actions:  Write(mode, cdt, cit, sdt, sit) produces an abstract FILE,     *)
(*           Read gives a container state back, computed FROM THE FILE.     *)
(*  binary modes (native binary of the kind, fm_binary, serialize<DT2,IT2>):*)
(*    the file is the u64 word sequence of the header, the byte offsets of  *)
(*    every array and the total byte length, computed by a transcription of *)
(*    the documented layout of Container::_serialize                        *)
(*      len, magic, hash(DT), hash(IT), #el, #ix, #el, #ix, #si, #sd, compress, *)
(*      el sizes, el byte sizes, ix sizes, ix byte sizes, scalar_index,     *)
(*      [scalar_dt], element arrays (aligned to sizeof DT2), index arrays   *)
(*      (aligned to sizeof IT2), 16 bytes padding                           *)
(*    so a writer/reader pair that is consistently wrong is still caught;   *)
(*  text modes: MatrixMarket (array / coordinate) and exponent text as a    *)
(*    sequence of lines [i: integer tokens, x: value tokens (numerators)].  *)
(* Invariant RoundTrip: binary -> the arrays read back are identical to     *)
(* Arrays(c) (bit-identical values and layout); text -> identical           *)
(* dimensions, pattern and values.                                           *)
(* Emit prints each behaviour for the C++ replayer (direction G), which     *)
(* compares the real byte stream / token stream with the predicted file and *)
(* the real container read back with the predicted one.                      *)
EXTENDS PersistFmt, Json, TLC

CONSTANTS Kind,        \* "dv" | "dvb" | "sv" | "svb" | "dm" | "csr" | "bcsr" | "cscr" | "banded"
          MaxM, MaxN,  \* sizes 0..MaxM (x 0..MaxN for matrices; block counts for blocked kinds)
          BH, BW,      \* block size of dvb/svb (BH) resp. block shape of bcsr
          Pal          \* value palette 1 | 2

VARIABLES ph,    \* "init" | "written" | "read"
          c,     \* the container
          call,  \* [mode, cdt, cit, sdt, sit]: container types (bytes) and serialisation types
          file,  \* the abstract file
          back   \* what Read produced
vars == <<ph, c, call, file, back>>

Den == 4
PV(k) == IF Pal = 1 THEN (IF k % 2 = 1 THEN 2 * k + 1 ELSE -(k + 4))     \* 3,-6,7,-8,11,... (over 4)
         ELSE ((k * 5) % 7) - 3                                            \* -3..3 with zeros and repeats
MVal(i, j) == PV((i - 1) * 5 + j)

(***************************************************************************)
(* Containers and calls                                                      *)
(***************************************************************************)
Vals(len) == [k \in 1..len |-> PV(k)]
DenseD(mm, nn) == [i \in 1..mm |-> [j \in 1..nn |-> MVal(i, j)]]
Mk(kind, mm, nn, rep) == [kind |-> kind, m |-> mm, n |-> nn, bh |-> BH, bw |-> BW, rep |-> rep, alloc |-> FALSE]
\* the entry-free container with allocated array slots of length 0 (see PersistFmt!Arrays)
MkAlloc(kind, mm, nn, rep) == [kind |-> kind, m |-> mm, n |-> nn, bh |-> BH, bw |-> BW, rep |-> rep, alloc |-> TRUE]
Containers ==
  CASE Kind = "dv"  -> {Mk("dv", mm, 1, [va |-> Vals(mm)]) : mm \in 0..MaxM}
    [] Kind = "dvb" -> {Mk("dvb", mm, 1, [va |-> Vals(mm * BH)]) : mm \in 0..MaxM}
    [] Kind = "sv"  -> UNION {{Mk("sv", mm, 1, [idx |-> SetToSortSeq(I, <), va |-> Vals(Cardinality(I))]) : I \in SUBSET (0..(mm - 1))} : mm \in 0..MaxM}
                       \cup {MkAlloc("sv", mm, 1, [idx |-> <<>>, va |-> <<>>]) : mm \in 1..MaxM}
    [] Kind = "svb" -> UNION {{Mk("svb", mm, 1, [idx |-> SetToSortSeq(I, <), va |-> Vals(Cardinality(I) * BH)]) : I \in SUBSET (0..(mm - 1))} : mm \in 0..MaxM}
                       \cup {MkAlloc("svb", mm, 1, [idx |-> <<>>, va |-> <<>>]) : mm \in 1..MaxM}
    [] Kind = "dm"  -> {Mk("dm", mm, nn, DenseOf(mm, nn, DenseD(mm, nn))) : mm \in 1..MaxM, nn \in 1..MaxN}     \* DenseMatrix requires non-zero dimensions
    [] Kind = "csr" -> UNION {{Mk("csr", mm, nn, CSROf(mm, nn, DenseD(mm, nn), P)) : P \in SUBSET ((1..mm) \X (1..nn))} : mm \in 0..MaxM, nn \in 0..MaxN}
                       \cup {MkAlloc("csr", mm, nn, CSROf(mm, nn, DenseD(mm, nn), {})) : mm \in 1..MaxM, nn \in 1..MaxN}
    [] Kind = "bcsr" -> UNION {{Mk("bcsr", mm, nn, BCSROf(mm, nn, BH, BW, DenseD(mm * BH, nn * BW), P)) : P \in SUBSET ((1..mm) \X (1..nn))} : mm \in 0..MaxM, nn \in 0..MaxN}
                        \cup {MkAlloc("bcsr", mm, nn, BCSROf(mm, nn, BH, BW, DenseD(mm * BH, nn * BW), {})) : mm \in 1..MaxM, nn \in 1..MaxN}
    [] Kind = "cscr" -> UNION {UNION {{Mk("cscr", mm, nn, CSCROf(mm, nn, DenseD(mm, nn), P, R)) :
                                 R \in {R \in SUBSET (1..mm) : {e[1] : e \in P} \subseteq R /\ (P = {} => R = {})}} :
                                 P \in SUBSET ((1..mm) \X (1..nn))} : mm \in 0..MaxM, nn \in 0..MaxN}
                        \cup {MkAlloc("cscr", mm, nn, CSCROf(mm, nn, DenseD(mm, nn), {}, {})) : mm \in 1..MaxM, nn \in 1..MaxN}
    [] Kind = "banded" -> UNION {{Mk("banded", mm, nn, BandedOf(mm, nn, DenseD(mm, nn), O, 0)) : O \in SUBSET (0..(mm + nn - 2))} : mm \in 1..MaxM, nn \in 1..MaxN}   \* (no offsets: arrays of length 0)
TextModes(kind) == CASE kind \in {"dv", "dvb"} -> {"exp", "mtx"} [] kind \in {"sv", "dm", "csr", "bcsr"} -> {"mtx"} [] OTHER -> {}
\* write_out/read_from binary modes always (de)serialise as <double, uint64>; serialize<DT2,IT2>()/deserialize
\* ("ser") take the serialisation types as template parameters
Calls(kind) ==
  {[mode |-> mo, cdt |-> t[1], cit |-> t[2], sdt |-> 8, sit |-> 8] : mo \in TextModes(kind) \cup {NativeMode(kind), "binary"}, t \in {<<8, 8>>, <<4, 4>>}}
  \cup {[mode |-> "ser", cdt |-> t[1], cit |-> t[2], sdt |-> s[1], sit |-> s[2]] : t \in {<<8, 8>>, <<4, 4>>}, s \in {<<8, 8>>, <<8, 4>>, <<4, 8>>, <<4, 4>>}}
IsBin(mode) == mode \notin {"exp", "mtx"}

Init ==
  /\ ph = "init" /\ c \in Containers /\ call \in Calls(Kind)
  /\ file = [fmt |-> "none"] /\ back = [fmt |-> "none"]
Write ==
  /\ ph = "init" /\ ph' = "written"
  /\ file' = IF IsBin(call.mode)
             THEN BinFile(Arrays(c), Magic(IF call.mode \in {"binary", "ser"} THEN NativeMode(c.kind) ELSE call.mode), call.cdt, call.cit, call.sdt, call.sit)
             ELSE TextFile(c, call.mode)
  /\ UNCHANGED <<c, call, back>>
Read ==
  /\ ph = "written" /\ ph' = "read"
  /\ back' = IF IsBin(call.mode) THEN ReadBin(file) ELSE ReadText(c.kind, call.mode, IF c.kind = "dvb" THEN c.bh ELSE 1, file)
  /\ UNCHANGED <<c, call, file>>
Next == Write \/ Read
Spec == Init /\ [][Next]_vars

\* ---- properties --------------------------------------------------------------------------------------
RoundTrip == ph = "read" => back = (IF IsBin(call.mode) THEN Arrays(c) ELSE AbsView(c, call.mode))
LayoutOK == ph # "init" /\ IsBin(call.mode) => BinLayoutOK(file)

Emit == ph = "read" =>
  PrintT(ToJson([part |-> "io", kind |-> c.kind, m |-> c.m, n |-> c.n, bh |-> c.bh, bw |-> c.bw, den |-> Den, rep |-> c.rep, arrays |-> Arrays(c),
                 alloc |-> c.alloc, mode |-> call.mode, cdt |-> call.cdt, cit |-> call.cit, sdt |-> call.sdt, sit |-> call.sit,
                 file |-> file, back |-> back]))
=============================================================================
