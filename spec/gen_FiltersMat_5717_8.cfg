SPECIFICATION Spec
CONSTANTS MFmt = "bcsr" MaxM = 2 MaxN = 3 SquareOnly = FALSE BH = 1 BW = 2 Comp = "unit" Pal = 1
INVARIANTS RepValid MatConstraint MatComplement MatIdempotent FilteredSolve Emit
CHECK_DEADLOCK FALSE
