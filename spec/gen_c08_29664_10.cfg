SPECIFICATION Spec
CONSTANTS NS = {4} Kinds = {"ilu"} Pals = {2} MinOff = 4 MaxOff = 4 Filters = 0 Mode = "canon" MaxHist = 0
INVARIANTS SorRelation SsorRelation JacobiRelation IluLaws Linearity LifeOK Emit
CHECK_DEADLOCK FALSE
