-------------------------- MODULE Sched_ThreadAsm --------------------------
(* Direction G for C17: behaviours of ThreadAsm printed as SCHEDULES - the     *)
(* sequence of events (thread, event kind, argument, flag) the real threads    *)
(* must produce, in this global order.  harness/c17_driven.cpp forces the real *)
(* DomainAssembler threads along each schedule (every hook / job call is a     *)
(* scheduling point that blocks until it is the caller's turn) and reports the *)
(* first step at which the implementation wants to do something else, blocks   *)
(* where the model says it can go on, or observes another fence flag.          *)
(* The labelling is the inverse of Trace_ThreadAsm's event mapping: one event  *)
(* per non-silent action, arguments taken from the pre-state.                  *)
(* Task failures are injected where the schedule says "throw" (only in         *)
(* prepare/assemble; a throwing task constructor cannot be injected).          *)
EXTENDS ThreadAsm, Json

VARIABLES hist, emitted,
          entered     \* threads that have called wait() on a fence and may be blocked inside it (scheduler annotation, see SEnter)
svars == <<vars, hist, emitted, entered>>

E(name, t, a, ok) == [ev |-> name, t |-> t, a |-> a, ok |-> ok]
Lab(act, e) == act /\ hist' = Append(hist, e) /\ entered' = entered \ {e.t} /\ UNCHANGED emitted
Sil(act) == act /\ UNCHANGED <<hist, emitted, entered>>

\* ThreadAsm models wait(f) as ONE step that is enabled iff f is open.  The real call may be made earlier and then BLOCKS on the
\* fence's condition variable until another thread opens the fence.  A schedule may therefore contain the pseudo event
\* "wenter": the thread calls wait() now (the replayer lets it run into the call without waiting for the fence), while its
\* "wait" event - the model's step - stays where the model takes it.  This makes the wake-up path (several threads blocked on
\* one fence when it is opened) part of the forced schedules; the state of ThreadAsm is not changed by the annotation.
WaitFenceOf(t) ==      \* the fence thread t is about to wait for, -1 if its next step is not a wait
  IF t = 0 THEN (IF mpc \in {"c_wait1", "c_wait2"} THEN mi ELSE -1)
  ELSE CASE wpc[t] \in {"waitfront", "c_waitfront"} -> 0
         [] wpc[t] = "waitnext" -> t + 1
         [] wpc[t] = "c_waitback" -> Back
         [] OTHER -> -1
SEnter(t) == /\ WaitFenceOf(t) # -1 /\ t \notin entered
             /\ entered' = entered \cup {t} /\ hist' = Append(hist, E("wenter", t, WaitFenceOf(t), TRUE))
             /\ UNCHANGED <<vars, emitted>>

SMaster ==
  \/ Sil(MStart) \/ Sil(MSpawn) \/ Sil(MJoin) \/ Sil(MEndJob) \/ Sil(MColCheck)
  \/ Lab(MCloseAll, E("close", 0, mi, FALSE))
  \/ Lab(MColClose1, E("close", 0, mi, FALSE))
  \/ Lab(MColClose2, E("close", 0, mi, FALSE))
  \/ Lab(MColCloseFront, E("close", 0, 0, FALSE))
  \/ Lab(MColCloseBack, E("close", 0, Back, FALSE))
  \/ Lab(MOpenFront, E("open", 0, 0, TRUE))
  \/ Lab(MColOpenFront, E("open", 0, 0, TRUE))
  \/ Lab(MRunOpenFront, E("open", 0, 0, TRUE))
  \/ Lab(MColOpenBack, E("open", 0, Back, mallok))
  \/ Lab(MRunOpenBack, E("open", 0, Back, TRUE))
  \/ Lab(SFail, E("open", 0, 0, FALSE))
  \/ Lab(MColWait1, E("wait", 0, mi, fokay[mi]))
  \/ Lab(MColWait2, E("wait", 0, mi, fokay[mi]))
  \/ Lab(SPrepare, E("prep", 0, mi, TRUE))
  \/ Lab(SAssemble, E("asm", 0, mi, TRUE))
  \/ Lab(SFinish, E("fin", 0, mi, TRUE))
  \/ Lab(SScatterBegin, E("sb", 0, mi, TRUE))
  \/ Lab(SScatterEnd, E("se", 0, mi, TRUE))
  \/ Lab(SCombineBegin, E("cb", 0, 0, TRUE))
  \/ Lab(SCombineEnd, E("ce", 0, 0, TRUE))
  \/ Lab(SThrow, E("throw", 0, mi, FALSE))

SWorker(w) ==
  \/ Lab(WBegin(w), E("wbegin", w, w, TRUE))
  \/ Lab(WEnd(w), E("wend", w, w, w \notin failed))
  \/ Lab(WPrepare(w), E("prep", w, Pos(w), TRUE))
  \/ Lab(WColPrepare(w), E("prep", w, Pos(w), TRUE))
  \/ Lab(WAssemble(w), E("asm", w, Pos(w), TRUE))
  \/ Lab(WColAssemble(w), E("asm", w, Pos(w), TRUE))
  \/ Lab(WFinish(w), E("fin", w, Pos(w), TRUE))
  \/ Lab(WColFinish(w), E("fin", w, Pos(w), TRUE))
  \/ Lab(WScatterBegin(w), E("sb", w, Pos(w), TRUE))
  \/ Lab(WScatterEnd(w), E("se", w, Pos(w), TRUE))
  \/ Lab(WColScatterEnd(w), E("se", w, Pos(w), TRUE))
  \/ Lab(WLock(w), E("cb", w, 0, TRUE))
  \/ Lab(WUnlock(w), E("ce", w, 0, TRUE))
  \/ Lab(WThrow(w) /\ wpc[w] # "begin", E("throw", w, Pos(w), FALSE))
  \/ Lab(WOpenPrev(w), E("open", w, w, TRUE))
  \/ Lab(WColOpen1(w), E("open", w, w, TRUE))
  \/ Lab(WColOpen2(w), E("open", w, w, TRUE))
  \/ Lab(WFail(w), E("open", w, w, FALSE))
  \/ Lab(WWaitFront(w), E("wait", w, 0, fokay[0]))
  \/ Lab(WColWaitFront(w), E("wait", w, 0, fokay[0]))
  \/ Lab(WWaitNext(w), E("wait", w, w + 1, fokay[w + 1]))
  \/ Lab(WColWaitBack(w), E("wait", w, Back, fokay[Back]))

\* the behaviour is complete: print its schedule once, then stop
SEmit == Finished /\ ~emitted /\ emitted' = TRUE /\ PrintT(ToJson([sched |-> hist, failed |-> (\E k \in 1..Len(hist) : hist[k].ev = "throw")]))
         /\ UNCHANGED <<vars, hist, entered>>

SInit == Init /\ hist = <<>> /\ emitted = FALSE /\ entered = {}
SNext == SMaster \/ (\E w \in Workers : SWorker(w)) \/ (\E t \in 0..W : SEnter(t)) \/ SEmit
SchedSpec == SInit /\ [][SNext]_svars
=============================================================================
