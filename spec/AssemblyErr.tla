----------------------------- MODULE AssemblyErr -----------------------------
(* C16 extension (C16x), part 2: quantities integrated over the DOMAIN and the filter assemblers.                     *)
(*                                                                                                                   *)
(*  err   Assembly::ScalarErrorComputer<0|1|2>, ErrorFunctionIntegralJob / CellErrorFunctionIntegralJob,              *)
(*        AnalyticFunctionIntegralJob, DiscreteFunctionIntegralJob (kernel/assembly/error_computer.hpp,               *)
(*        function_integral_jobs.hpp):  for the analytic polynomial f = c x^a and the discrete function u_h =          *)
(*        interpolant of x^b (a monomial of the space, so u_h = x^b) the error d = f - u_h is a polynomial and          *)
(*           |d|_H0^2 = int d^2,  |d|_H1^2 = sum_k int (d_k d)^2,                                                      *)
(*           |d|_H2^2 = sum_k int (d_kk d)^2 + sum_{k<l} int (d_kl d)^2      (every multi-index of order 2 once),     *)
(*        int d, int grad d, int hess d, and |d|_L1 = int d for d >= 0 are exact rationals.                           *)
(*  verr  VectorErrorComputer<2> and the jobs on blocked vectors: component-wise norms, their sums, and the           *)
(*        L2 norms of divergence and vorticity of the error field.                                                    *)
(*  unit  UnitFilterAssembler: the constrained dofs are exactly the dofs of the entities (all dimensions) of the      *)
(*        mesh parts added, the values the node functionals of the boundary function (point values at entity          *)
(*        barycentres for the Lagrange families, facet means for Crouzeix-Raviart / Rannacher-Turek).                 *)
(*  slip  SlipFilterAssembler: nu(v) = sum over the facets f of the parts at v of |f| * outer unit normal of f.       *)
(*  mean  MeanFilterAssembler: primal vector = coefficients of 1, dual vector = (int phi_i).                          *)
(*  bop   the blocked operators of common_operators.hpp not used elsewhere: StrainRateTensorOperator,                 *)
(*        StressDivergenceOperator (symmetric and unsymmetric component layouts), GradientTrial/TestOperatorBlocked   *)
(*        -- every block entry is (a multiple of) a scalar form with one derivative -- and LaplaceBeltramiOperator    *)
(*        (= Laplace on a mesh of full dimension).                                                                    *)
EXTENDS AsmXMesh, Json

CONSTANTS Tier, MeshSel, NVariants, Kinds
ASSUME Tier \in {0, 1} /\ NVariants \in 1..8

VARIABLES msh, vk, job
vars == <<msh, vk, job>>

UnitE(dim, k) == [a \in 1..dim |-> IF a = k THEN 1 ELSE 0]
E11(dim) == [a \in 1..dim |-> IF a <= 2 THEN 1 ELSE 0]
ELast2(dim) == [a \in 1..dim |-> IF a = dim THEN 2 ELSE 0]
E21(dim) == [a \in 1..dim |-> IF a = 1 THEN 2 ELSE IF a = 2 THEN 1 ELSE 0]
AddE(u, v) == [k \in 1..Len(u) |-> u[k] + v[k]]

\* ------------------------------------------------------------------------------------------------------------------
\* polynomials = sequences of terms [c, e] (Assembly.tla); exact integration over the domain of a mesh
\* ------------------------------------------------------------------------------------------------------------------
Term(c, e) == [c |-> c, e |-> e]
PMul(p, q) == A!FlatA([i \in 1..Len(p) |-> [j \in 1..Len(q) |-> A!MulT(p[i], q[j])]])
PSq(p) == PMul(p, p)
PAdd(p, q) == p \o q
PNeg(p) == [i \in 1..Len(p) |-> A!ScaleT(-1, p[i])]
PDer(k, p) == A!NonZero([i \in 1..Len(p) |-> A!DerivT(k, p[i])])
PAbs(p) == [i \in 1..Len(p) |-> [c |-> Abs(p[i].c), e |-> p[i].e]]
PDeg(p) == IF Len(p) = 0 THEN 0 ELSE CHOOSE d \in {TotDeg(p[i].e) : i \in 1..Len(p)} : \A i \in 1..Len(p) : TotDeg(p[i].e) <= d
\* box meshes: value * 60^dim;  2D straight-sided meshes: value * 24 * G^(D+2) with D = PolyDegCap
PolyDegCap == 2
IntOK(m, p) == \A i \in 1..Len(p) : DomMomOK(m, p[i].e)
DInt(m, p) ==
  IF m.class = "box" THEN [n |-> SumA([i \in 1..Len(p) |-> p[i].c * A!MomBox(p[i].e)]), d |-> BoxDen(m.dim)]
  ELSE [n |-> SumA([i \in 1..Len(p) |-> p[i].c * PolyMom(m, p[i].e) * PowA(MeshG(m), PolyDegCap - TotDeg(p[i].e))]),
        d |-> A!PolyScale(MeshG(m), PolyDegCap)]
RAdd(x, y) == [n |-> x.n + y.n, d |-> x.d]            \* same denominator by construction
RZero(m) == [n |-> 0, d |-> DInt(m, << >>).d]
RECURSIVE RSum(_, _, _)
RSum(m, s, k) == IF k = 0 THEN RZero(m) ELSE RAdd(RSum(m, s, k - 1), s[k])

\* the integral quantities of a scalar polynomial d on the mesh m up to derivative order mx
H0(m, d) == DInt(m, PSq(d))
H1(m, d) == RSum(m, [k \in 1..m.dim |-> DInt(m, PSq(PDer(k, d)))], m.dim)
\* every multi-index of order two once: (k,k) and (k,l) with k < l  (Tiny::Matrix::norm_hessian_sqr: weight 1/2 on both (k,l), (l,k))
PairsLt(dim) == SetSeq({p \in (1..dim) \X (1..dim) : p[1] <= p[2]})
H2(m, d) == LET P == PairsLt(m.dim) IN RSum(m, [q \in 1..Len(P) |-> DInt(m, PSq(PDer(P[q][1], PDer(P[q][2], d))))], Len(P))
ScalarInfo(m, d) ==
  [val |-> DInt(m, d), grad |-> [k \in 1..m.dim |-> DInt(m, PDer(k, d))],
   hess |-> [k \in 1..m.dim |-> [l \in 1..m.dim |-> DInt(m, PDer(k, PDer(l, d)))]],
   h0 |-> H0(m, d), h1 |-> H1(m, d), h2 |-> H2(m, d),
   \* magnitudes for the rounding bounds: the same integrals of the polynomial with absolute coefficients (coordinates >= 0)
   m0 |-> H0(m, PAbs(d)), m1 |-> H1(m, PAbs(d)), m2 |-> H2(m, PAbs(d)), mv |-> DInt(m, PAbs(d))]
ScalarOK(m, d) == IntOK(m, PSq(PAbs(d)))

\* per-cell |d|_H0^2 on 2D meshes of axis-parallel boxes:  cell = [lo1,hi1] x [lo2,hi2];  value * 60^2 * G^(D+2), D = CellDegCap
CellDegCap == 4
CellLo(m, c, a) == LET P == CellPts(m, c) IN CHOOSE x \in {P[k][a] : k \in 1..Len(P)} : \A k \in 1..Len(P) : x <= P[k][a]
CellHi(m, c, a) == LET P == CellPts(m, c) IN CHOOSE x \in {P[k][a] : k \in 1..Len(P)} : \A k \in 1..Len(P) : x >= P[k][a]
CellMomBox(m, c, e) ==
  A!ProdA([a \in 1..m.dim |-> (PowA(CellHi(m, c, a), e[a] + 1) - PowA(CellLo(m, c, a), e[a] + 1)) * (A!BoxL \div (e[a] + 1))])
  * PowA(MeshG(m), CellDegCap - TotDeg(e))
CellH0OK(m, d) == m.class = "box" /\ m.shape = "hypercube" /\ m.dim = 2 /\ PDeg(PSq(d)) <= CellDegCap
CellH0(m, d) == LET p == PSq(d) IN
  [c \in 1..NC(m) |-> [n |-> SumA([i \in 1..Len(p) |-> p[i].c * CellMomBox(m, c, p[i].e)]),
                       d |-> BoxDen(2) * PowA(MeshG(m), CellDegCap + 2)]]

\* ------------------------------------------------------------------------------------------------------------------
\* err: scalar error / function integrals
\* ------------------------------------------------------------------------------------------------------------------
ErrSpaces == {"lagrange1", "lagrange2", "crrt", "disc0"}
\* highest derivative the element can evaluate (Lagrange-1 and the non-conforming element have no Hessians in FEAT)
ErrMaxNorm(s) == CASE s = "lagrange2" -> 2 [] s \in {"lagrange1", "crrt"} -> 1 [] OTHER -> 0
AnaSet(m) == LET dim == m.dim IN
  IF m.class = "box" THEN {Term(1, ZeroE(dim)), Term(2, UnitE(dim, 1)), Term(1, E11(dim)), Term(1, ELast2(dim)), Term(1, E21(dim))}
  ELSE {Term(1, ZeroE(dim)), Term(2, UnitE(dim, 1)), Term(1, UnitE(dim, 2))}
\* discrete monomials: in the space on every mesh of the class (Assembly!Monos), total degree <= 2;  "none" = the zero vector
DiscSet(s, m) ==
  LET S == A!Monos(s, m.shape, m.dim, m.class)
      cand == IF m.class = "box" THEN {ZeroE(m.dim), UnitE(m.dim, m.dim), E11(m.dim), ELast2(m.dim)} ELSE {ZeroE(m.dim), UnitE(m.dim, m.dim)}
      \* crrt: facet midpoint values interpolate linear functions on affine cells only
      ok(e) == e \in S /\ (s = "crrt" /\ m.class = "general" => TotDeg(e) = 0)
  IN {<<e>> : e \in {x \in cand : ok(x)}} \cup {<< >>}
ErrPoly(a, h) == <<a>> \o (IF h = << >> THEN << >> ELSE <<Term(-1, h[1])>>)
ErrJobs(m) == {[k |-> "err", s |-> s, a |-> a, h |-> h] : s \in ErrSpaces, a \in AnaSet(m), h \in UNION {DiscSet(s2, m) : s2 \in ErrSpaces}}
ErrJobOK(m, j) == j.h \in DiscSet(j.s, m) /\ ScalarOK(m, ErrPoly(j.a, j.h))
ErrCase(m, j) ==
  LET d == ErrPoly(j.a, j.h)
      ud == IF j.h = << >> THEN << >> ELSE <<Term(1, j.h[1])>>
      dg == 2 * (IF PDeg(d) > 1 THEN PDeg(d) ELSE 1) + 2
  IN [kind |-> "err", space |-> j.s, maxn |-> ErrMaxNorm(j.s), ana |-> j.a, disc |-> j.h, deg |-> dg,
      \* the variant of the error computer for sub-dimensional (surface) meshes works with reference gradients, which only the
      \* parametric elements provide (the rotated multilinear element on hypercubes is non-parametric)
      sub |-> ErrMaxNorm(j.s) >= 1 /\ (j.s = "crrt" => m.shape = "simplex"),
      err |-> ScalarInfo(m, d),
      \* |d|_L1 = int d when d >= 0 on the domain: the discrete part is absent
      l1 |-> IF j.h = << >> THEN <<DInt(m, d)>> ELSE << >>,
      \* the analytic function alone (AnalyticFunctionIntegralJob) and the discrete function alone (DiscreteFunctionIntegralJob)
      fana |-> ScalarInfo(m, <<j.a>>),
      fdisc |-> IF ud = << >> THEN << >> ELSE <<ScalarInfo(m, ud)>>,
      cellh0 |-> IF CellH0OK(m, d) THEN CellH0(m, d) ELSE << >>]

\* ------------------------------------------------------------------------------------------------------------------
\* verr: vector fields;  a field = tuple over the components of single terms
\* ------------------------------------------------------------------------------------------------------------------
VErrSpaces == {"lagrange1", "lagrange2"}
VAna(m) == LET dim == m.dim IN
  IF m.class = "box" THEN
    {[k \in 1..dim |-> Term(1, UnitE(dim, k))],
     [k \in 1..dim |-> IF k = 1 THEN Term(1, UnitE(dim, 2)) ELSE IF k = 2 THEN Term(-1, UnitE(dim, 1)) ELSE Term(0, ZeroE(dim))],
     [k \in 1..dim |-> IF k = 1 THEN Term(1, E11(dim)) ELSE IF k = 2 THEN Term(1, [a \in 1..dim |-> IF a = 2 THEN 2 ELSE 0])
                        ELSE Term(1, [a \in 1..dim |-> IF a = 1 \/ a = 3 THEN 1 ELSE 0])]}
  ELSE {[k \in 1..dim |-> Term(1, UnitE(dim, k))],
        [k \in 1..dim |-> IF k = 1 THEN Term(1, UnitE(dim, 2)) ELSE IF k = 2 THEN Term(-1, UnitE(dim, 1)) ELSE Term(0, ZeroE(dim))]}
VDisc(m) == LET dim == m.dim IN
  {[k \in 1..dim |-> Term(0, ZeroE(dim))],
   [k \in 1..dim |-> Term(1, UnitE(dim, k))],
   [k \in 1..dim |-> IF k = 1 THEN Term(1, UnitE(dim, 2)) ELSE Term(k, UnitE(dim, 1))]}
VErrJobs(m) == {[k |-> "verr", s |-> s, a |-> a, h |-> h] : s \in VErrSpaces, a \in VAna(m), h \in VDisc(m)}
VComp(j, k) == A!NonZero(<<j.a[k], A!ScaleT(-1, j.h[k])>>)
VErrJobOK(m, j) == \A k \in 1..m.dim : ScalarOK(m, VComp(j, k))
\* (sum_k d_k d_k)^2 and the squared vorticity
DivPoly(m, j) == A!FlatA([k \in 1..m.dim |-> PDer(k, VComp(j, k))])
VortPolys(m, j) ==
  LET rot(p, q) == PAdd(PDer(p, VComp(j, q)), PNeg(PDer(q, VComp(j, p)))) IN      \* d_p u_q - d_q u_p
  IF m.dim = 2 THEN <<rot(1, 2)>> ELSE <<rot(2, 3), rot(3, 1), rot(1, 2)>>
VErrCase(m, j) ==
  LET dim == m.dim
      mxd == CHOOSE x \in {PDeg(VComp(j, k)) : k \in 1..dim} : \A k \in 1..dim : PDeg(VComp(j, k)) <= x
      vp == VortPolys(m, j)
  IN [kind |-> "verr", space |-> j.s, maxn |-> ErrMaxNorm(j.s), ana |-> j.a, disc |-> j.h, deg |-> 2 * (IF mxd > 1 THEN mxd ELSE 1) + 2,
      comp |-> [k \in 1..dim |-> ScalarInfo(m, VComp(j, k))],
      div2 |-> DInt(m, PSq(DivPoly(m, j))),
      vort2 |-> RSum(m, [q \in 1..Len(vp) |-> DInt(m, PSq(vp[q]))], Len(vp))]

\* ------------------------------------------------------------------------------------------------------------------
\* mesh parts of the filter assemblers: sets of boundary facets and their closure
\* ------------------------------------------------------------------------------------------------------------------
MinC(m, a) == CHOOSE x \in {m.X[v][a] : v \in 1..NV(m)} : \A v \in 1..NV(m) : x <= m.X[v][a]
BndPairs(m) == LET CF == CellFacets(m)
                   fo == TLCEval([cl \in CF |-> FacetOf(m, cl)])
               IN {cl \in CF : Cardinality({c2 \in CF : fo[c2] = fo[cl]}) = 1}
SidePairs(m, B, a) == {cl \in B : \A v \in FacetOf(m, cl) : Pt(m, v)[a] = MinC(m, a)}
\* the parts: "p1" = the side x_1 = min, "p2" = the sides x_1 = min and x_2 = min (a corner / an edge between them), "bnd" = all
PartsOf(m) == LET B == BndPairs(m) IN
  [p1 |-> SidePairs(m, B, 1), p2 |-> SidePairs(m, B, 1) \cup SidePairs(m, B, 2), bnd |-> B]
PartNames == {"p1", "p2", "bnd"}
\* sub-entities: the e-dimensional faces of a facet given by its tuple (a facet is itself a cell of its shape)
FacetShapeDim(m) == m.dim - 1
SubEnts(m, cl, e) ==
  LET t == FacetTuple(m, cl[1], cl[2])   fd == m.dim - 1 IN
  IF e = fd THEN {RangeA(t)}
  ELSE IF e = 0 THEN {{t[i]} : i \in 1..Len(t)}
  ELSE {{t[RC!FaceVerts(m.shape, fd, e, q)[i] + 1] : i \in 1..RC!NVerts(m.shape, e)} : q \in 0..(RC!NFaces(m.shape, fd, e) - 1)}
ClosureEnts(m, P, e) == UNION {SubEnts(m, cl, e) : cl \in P}
\* ---- unit filter -------------------------------------------------------------------------------------------------
UnitSpaces == {"lagrange1", "lagrange2", "crrt"}
UnitFuncs(s, m) == IF s = "crrt" THEN {ZeroE(m.dim), UnitE(m.dim, 1), UnitE(m.dim, m.dim)}
                   ELSE {ZeroE(m.dim), UnitE(m.dim, m.dim), E11(m.dim), E21(m.dim)}
UnitJobs(m) == {[k |-> "unit", s |-> s, part |-> p, f |-> f] : s \in UnitSpaces, p \in PartNames, f \in UNION {UnitFuncs(s2, m) : s2 \in UnitSpaces}}
UnitJobOK(m, j) == j.f \in UnitFuncs(j.s, m) /\ PartsOf(m)[j.part] # {}
UnitCase(m, j) ==
  LET P == PartsOf(m)[j.part]
      sig == A!DofsPerEnt(j.s, m.shape, m.dim)
      ents(e) == SetSeq(ClosureEnts(m, P, e))
      row(e) == LET S == ents(e) IN [q \in 1..Len(S) |-> [d |-> e, vs |-> SortedSeq(S[q]), val |-> BaryVal(m, S[q], j.f)]]
      dims == SetSeq({e \in 0..(m.dim - 1) : sig[e + 1] > 0})
  IN [kind |-> "unit", space |-> j.s, part |-> j.part, f |-> j.f, sig |-> sig,
      facets |-> LET S == SetSeq(P) IN [q \in 1..Len(S) |-> SortedSeq(FacetOf(m, S[q]))],
      dofs |-> A!FlatA([q \in 1..Len(dims) |-> row(dims[q])])]

\* ---- slip filter -------------------------------------------------------------------------------------------------
SlipSpaces == {"lagrange1", "lagrange2"}
SlipJobs(m) == {[k |-> "slip", s |-> s, part |-> p] : s \in SlipSpaces, p \in PartNames}
SlipJobOK(m, j) == LET P == PartsOf(m)[j.part] IN P # {} /\ \A cl \in P : FKind(m, cl) \in {"seg", "rect", "rtri"}
\* nu(v) * den,  den = G^(dim-1) * (2 for triangles: |a x b| = 2 * area)
SlipDen(m) == PowA(MeshG(m), m.dim - 1) * (IF m.dim = 3 /\ m.shape = "simplex" THEN 2 ELSE 1)
SlipNu(m, P, v) == LET S == SetSeq({cl \in P : v \in FacetOf(m, cl)}) IN
  [a \in 1..m.dim |-> SumA([q \in 1..Len(S) |-> OutNormal(m, S[q])[a]])]
SlipCase(m, j) ==
  LET P == PartsOf(m)[j.part]
      V == SetSeq(ClosureEnts(m, P, 0))
      vnu == [q \in 1..Len(V) |-> [v |-> (CHOOSE x \in V[q] : TRUE), nu |-> SlipNu(m, P, CHOOSE x \in V[q] : TRUE)]]
      \* Lagrange-2: the direction at an entity = the sum of nu over its vertices
      sig == A!DofsPerEnt(j.s, m.shape, m.dim)
      dims == SetSeq({e \in 0..(m.dim - 1) : sig[e + 1] > 0})
      row(e) == LET S == SetSeq(ClosureEnts(m, P, e)) IN
                [q \in 1..Len(S) |-> [d |-> e, vs |-> SortedSeq(S[q]),
                   dir |-> LET W == SetSeq(S[q]) IN [a \in 1..m.dim |-> SumA([r \in 1..Len(W) |-> SlipNu(m, P, W[r])[a]])]]]
  IN [kind |-> "slip", space |-> j.s, part |-> j.part, den |-> SlipDen(m), sig |-> sig,
      facets |-> LET S == SetSeq(P) IN [q \in 1..Len(S) |-> SortedSeq(FacetOf(m, S[q]))],
      nu |-> vnu, dofs |-> A!FlatA([q \in 1..Len(dims) |-> row(dims[q])])]

\* ---- mean filter -------------------------------------------------------------------------------------------------
MeanSpaces == {"lagrange1", "lagrange2", "crrt", "disc0"}
MeanJobs(m) == {[k |-> "mean", s |-> s] : s \in MeanSpaces}
MeanMonos(s, m) == {e \in A!IdMonos(s, m.shape, m.dim, m.class) : DomMomOK(m, e) /\ (s = "crrt" /\ m.class = "general" => TotDeg(e) = 0)}
MeanCase(m, j) ==
  LET U == SetSeq(MeanMonos(j.s, m)) IN
  [kind |-> "mean", space |-> j.s, deg |-> 2 * A!LocalDeg(j.s, m.shape) + 2,
   vol |-> DInt(m, <<Term(1, ZeroE(m.dim))>>),
   ids |-> [q \in 1..Len(U) |-> [u |-> U[q], val |-> DInt(m, <<Term(1, U[q])>>)]]]

\* ------------------------------------------------------------------------------------------------------------------
\* bop: blocked operators.  A block entry is a sequence of terms [n, k, on]: (n/2) * int d_k(trial) test  (on = "trial")
\* or (n/2) * int trial d_k(test)  (on = "test")
\* ------------------------------------------------------------------------------------------------------------------
\* component layouts of a stress tensor as documented in common_operators.hpp
SIdx(dim, nsc) ==
  CASE dim = 2 /\ nsc = 3 -> << <<1, 1>>, <<2, 2>>, <<1, 2>> >>
    [] dim = 2 /\ nsc = 4 -> << <<1, 1>>, <<1, 2>>, <<2, 1>>, <<2, 2>> >>
    [] dim = 3 /\ nsc = 6 -> << <<1, 1>>, <<2, 2>>, <<3, 3>>, <<1, 2>>, <<2, 3>>, <<1, 3>> >>
    [] dim = 3 /\ nsc = 9 -> << <<1, 1>>, <<1, 2>>, <<1, 3>>, <<2, 1>>, <<2, 2>>, <<2, 3>>, <<3, 1>>, <<3, 2>>, <<3, 3>> >>
BTerm(n, k, on) == [n |-> n, k |-> k, on |-> on]
\* strain rate tensor D(u) = (grad u + grad u^T) / 2:  row = stress component (a,b), column = velocity component c
StrainBlock(dim, nsc, r, c) ==
  LET ab == SIdx(dim, nsc)[r] IN
  (IF ab[1] = c THEN <<BTerm(1, ab[2], "trial")>> ELSE << >>) \o (IF ab[2] = c THEN <<BTerm(1, ab[1], "trial")>> ELSE << >>)
\* stress divergence (div sigma)_a = sum_b d_b sigma_ab:  row = a, column = stress component s
StressBlock(dim, nsc, a, s) ==
  LET pq == SIdx(dim, nsc)[s]   sym == nsc < dim * dim IN
  (IF pq[1] = a THEN <<BTerm(2, pq[2], "trial")>> ELSE << >>)
  \o (IF sym /\ pq[2] = a /\ pq[1] # pq[2] THEN <<BTerm(2, pq[1], "trial")>> ELSE << >>)
BOps(dim) == {[name |-> "strain", nsc |-> n] : n \in (IF dim = 2 THEN {3, 4} ELSE {6, 9})}
             \cup {[name |-> "stressdiv", nsc |-> n] : n \in (IF dim = 2 THEN {3, 4} ELSE {6, 9})}
             \cup {[name |-> "gradtrial", nsc |-> 1], [name |-> "gradtest", nsc |-> 1]}
BRows(dim, b) == CASE b.name = "strain" -> b.nsc [] b.name = "stressdiv" -> dim [] OTHER -> dim
BCols(dim, b) == CASE b.name = "strain" -> dim [] b.name = "stressdiv" -> b.nsc [] OTHER -> 1
BBlock(dim, b, r, c) ==
  CASE b.name = "strain" -> StrainBlock(dim, b.nsc, r, c)
    [] b.name = "stressdiv" -> StressBlock(dim, b.nsc, r, c)
    [] b.name = "gradtrial" -> <<BTerm(2, r, "trial")>>
    [] b.name = "gradtest" -> <<BTerm(2, r, "test")>>
\* 2 * value of the block entry for the monomials u (trial), v (test), as a polynomial
BForm(blk, u, v) ==
  A!NonZero([q \in 1..Len(blk) |-> IF blk[q].on = "trial" THEN A!ScaleT(blk[q].n, A!MulT(A!DerivT(blk[q].k, A!Mono(u)), A!Mono(v)))
                                    ELSE A!ScaleT(blk[q].n, A!MulT(A!Mono(u), A!DerivT(blk[q].k, A!Mono(v))))])
BopSpaces == {"lagrange2"}
BopMonos(m) == {e \in A!IdMonos("lagrange2", m.shape, m.dim, m.class) : TotDeg(e) <= 2}
\* one case per row of blocks
BopJobs(m) == IF m.class # "box" THEN {}
              ELSE UNION {{[k |-> "bop", s |-> s, b |-> b, r |-> r] : r \in 1..BRows(m.dim, b)} : s \in BopSpaces, b \in BOps(m.dim)}
BopCase(m, j) ==
  LET dim == m.dim
      U == SetSeq(BopMonos(m))
      V == SetSeq({e \in BopMonos(m) : TotDeg(e) <= 1})
      half(x) == [n |-> x.n, d |-> 2 * x.d]
  IN [kind |-> "bop", space |-> j.s, op |-> j.b, rows |-> BRows(dim, j.b), cols |-> BCols(dim, j.b), deg |-> 5, row |-> j.r - 1,
      blocks |-> [c \in 1..BCols(dim, j.b) |->
                    LET blk == BBlock(dim, j.b, j.r, c) IN
                    [zero |-> blk = << >>,
                     ids |-> A!FlatA([p \in 1..Len(U) |-> [q \in 1..Len(V) |->
                               [u |-> U[p], v |-> V[q], val |-> half(DInt(m, BForm(blk, U[p], V[q])))]]])]]]

\* Laplace-Beltrami on a mesh of full dimension = Laplace;  the sub-dimensional H1 error = the H1 error (kind err, route "sub")
LbJobs(m) == {[k |-> "lb", s |-> s] : s \in {"lagrange1", "lagrange2"}}
LbMonos(s, m) == {e \in A!IdMonos(s, m.shape, m.dim, m.class) : TotDeg(e) <= 2}
LbCase(m, j) ==
  LET U == SetSeq(LbMonos(j.s, m))
      form(u, v) == A!FlatA([k \in 1..m.dim |-> PMul(PDer(k, <<A!Mono(u)>>), PDer(k, <<A!Mono(v)>>))])
      ok(u, v) == IntOK(m, form(u, v))
      P == SetSeq({p \in LbMonos(j.s, m) \X LbMonos(j.s, m) : ok(p[1], p[2])})
  IN [kind |-> "lb", space |-> j.s, deg |-> 2 * A!LocalDeg(j.s, m.shape) + (IF m.class = "general" THEN 2 ELSE 0),
      vol |-> DInt(m, <<Term(1, ZeroE(m.dim))>>),
      ids |-> [q \in 1..Len(P) |-> [u |-> P[q][1], v |-> P[q][2], val |-> DInt(m, form(P[q][1], P[q][2]))]]]

\* ------------------------------------------------------------------------------------------------------------------
\* info: the result objects are values.  ScalarErrorInfo converts between data types (constructor and assignment),
\* FunctionCellIntegralInfo is copied (constructor and assignment): the target equals the source in every field.  The cases give
\* the flags and the values (numerators over 8); "expected = source" is the whole specification.  (Independent of the mesh:
\* emitted once, with the mesh q11.)
InfoJobs(m) == {[k |-> "info", cls |-> cls, how |-> how, flags |-> fl, vals |-> vs] :
                  cls \in {"scalar", "cell"}, how \in {"construct", "assign"},
                  fl \in {<<1, 0, 0, 1, 1>>, <<1, 1, 1, 1, 1>>}, vs \in {<<20, 12, 8, 3, 1>>, <<0, 0, 0, 0, 0>>}}
InfoCase(m, j) == [kind |-> "info", space |-> "", cls |-> j.cls, how |-> j.how, flags |-> j.flags, vals |-> j.vals]

Jobs(m) ==
  (IF "err" \in Kinds THEN {j \in ErrJobs(m) : ErrJobOK(m, j)} ELSE {})
  \cup (IF "verr" \in Kinds THEN {j \in VErrJobs(m) : VErrJobOK(m, j)} ELSE {})
  \cup (IF "unit" \in Kinds THEN {j \in UnitJobs(m) : UnitJobOK(m, j)} ELSE {})
  \cup (IF "slip" \in Kinds THEN {j \in SlipJobs(m) : SlipJobOK(m, j)} ELSE {})
  \cup (IF "mean" \in Kinds THEN MeanJobs(m) ELSE {})
  \cup (IF "bop" \in Kinds THEN BopJobs(m) ELSE {})
  \cup (IF "lb" \in Kinds THEN LbJobs(m) ELSE {})

Init ==
  /\ \E k \in 1..Len(Catalogue) : \E v \in 0..(NVariants - 1) :
       /\ Catalogue[k].t <= Tier /\ Catalogue[k].m.name \in MeshSel
       /\ (Catalogue[k].m.dim = 2 \/ Catalogue[k].m.class = "box")           \* domain moments: unit boxes, or 2D straight-sided
       /\ msh = Variant(Catalogue[k].m, v) /\ vk = v
  /\ job \in Jobs(msh) \cup (IF "info" \in Kinds /\ vk = 0 /\ msh.name = "q11" THEN InfoJobs(msh) ELSE {})
Next == UNCHANGED vars
Spec == Init /\ [][Next]_vars

MeshJson == [name |-> msh.name, shape |-> msh.shape, dim |-> msh.dim, class |-> msh.class, cs |-> msh.cs, X |-> msh.X, cells |-> msh.cells,
             route |-> IF vk % 2 = 0 THEN "deduct" ELSE "factory"]
CaseOf(m, j) ==
  CASE j.k = "err" -> ErrCase(m, j) [] j.k = "verr" -> VErrCase(m, j) [] j.k = "unit" -> UnitCase(m, j)
    [] j.k = "slip" -> SlipCase(m, j) [] j.k = "mean" -> MeanCase(m, j) [] j.k = "bop" -> BopCase(m, j) [] j.k = "lb" -> LbCase(m, j)
    [] j.k = "info" -> InfoCase(m, j)
Emit == PrintT(ToJson([mesh |-> MeshJson, variant |-> vk] @@ CaseOf(msh, job)))

\* laws of the specification itself
\* the two moment formulas agree on 2D box meshes; the H-norms are additive over the splitting d = d1 + d2 only with the cross term
MomLaw == (msh.class = "box" /\ msh.dim = 2) =>
            \A e \in {x \in [1..2 -> 0..2] : TotDeg(x) <= 2} :
               PolyMom(msh, e) * BoxDen(2) = A!MomBox(e) * A!PolyScale(MeshG(msh), TotDeg(e))
\* the symmetric stress layouts are the symmetrisation of the unsymmetric one: StrainBlock of (a,b) and (b,a) coincide
StrainLaw == \A dim \in {2, 3} : \A r1, r2 \in 1..(dim * dim) : \A c \in 1..dim :
               LET S == SIdx(dim, dim * dim) IN
               (S[r1][1] = S[r2][2] /\ S[r1][2] = S[r2][1]) =>
                  {StrainBlock(dim, dim * dim, r1, c)[q] : q \in 1..Len(StrainBlock(dim, dim * dim, r1, c))}
                  = {StrainBlock(dim, dim * dim, r2, c)[q] : q \in 1..Len(StrainBlock(dim, dim * dim, r2, c))}
=============================================================================
