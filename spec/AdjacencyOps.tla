--------------------------- MODULE AdjacencyOps ---------------------------
(* C19, adjactor part: rendering and composing ANY object that implements *)
(* the Adjactor interface (kernel/adjacency/adjactor.hpp), not only        *)
(* Adjacency::Graph.                                                       *)
(*                                                                         *)
(* An OPERAND is a leaf adjactor  [k, nd, ni, a, R, L]:                    *)
(*    k   kind (which class implements it, i.e. which ImageIterator type)  *)
(*    nd, ni  number of domain / image nodes                               *)
(*    a   the integer parameters the object is built from                  *)
(*    R   raw adjacency lists the object is built from (graph, dyn)        *)
(*    L   its MEANING: for every domain node the sequence of image nodes   *)
(*        in the order the adjactor's ImageIterator visits them            *)
(* kinds:                                                                  *)
(*   graph     Adjacency::Graph (vector iterator): L = R, any sequences    *)
(*   dyn       Adjacency::DynamicGraph (std::set iterator) filled by       *)
(*             insert(i, j) in the order of R: L = ascending, no duplicates *)
(*   interval  an adjactor whose ImageIterator is                          *)
(*             Adjactor::IndexImageIterator: node i -> lo[i] .. hi[i]-1     *)
(*             (identity, shifts, permutations of width 1, blocks, empty   *)
(*             and overlapping intervals are all instances)                *)
(*   block     Geometry::Intern::CoarseFineCellMapping (unstructured):     *)
(*             node i -> i*k .. i*k+k-1                                    *)
(*   indexset2 Geometry::IndexSet<2> (pointer iterator): node i -> its     *)
(*             index tuple                                                 *)
(*   struct1   Geometry::StructIndexSet<1,1,0> (class iterator whose       *)
(*             default value equals image_begin(0)): cell i -> i, i+1      *)
(*   cf2       Geometry::Intern::CoarseFineCellMapping (structured, 2D,    *)
(*             cx x cy coarse cells; own iterator class that walks the     *)
(*             2x2 children of a coarse cell in the fine numbering)        *)
(* An EXPRESSION is a chain of 1..3 operands combined by                   *)
(* CompositeAdjactor: a, a*b, (a*b)*c ("left"), a*(b*c) ("right").  Its    *)
(* meaning is Rel!CompL (composition in traversal order), its node counts  *)
(* are those of the first / last operand.  CompositeAdjactor only demands  *)
(* a.ni <= b.nd (slack), the two-adjactor constructors demand equality.    *)
(*                                                                         *)
(* Init fixes the shape (kinds, node counts, slack, nesting), the action    *)
(* Pick chooses the operands, the action Eval predicts, for the expression *)
(* e with top-level split e = e1*e2, the result of every public route:     *)
(*   iteration of e through image_begin/image_end          = L             *)
(*   Graph(t, e), Graph(t, e1, e2)                          = exp[t]        *)
(*   DynamicGraph(t, e), DynamicGraph(t, e1, e2)           = exp[dynt[t]]  *)
(*   DynamicGraph(as_is, e1).compose(e2)                   = exp[dynt[as_is]] *)
(* INVARIANTS Law* check the constructive prediction against the           *)
(* declarative bag semantics (product of the multiplicity matrices,        *)
(* independent of the nesting).                                            *)
EXTENDS Adjacency, Json, TLC

CONSTANTS N, K1, K2, K3,\* chain length 1..3 and the sets of kinds of the 1st / 2nd / 3rd operand (every combination)
          Nests,      \* nestings generated for chains of length 3: subset of {"left", "right", "both"}; "both" = the case is
                      \* replayed under both nestings (their meaning is the same, LawAssoc)
          ND, NM, NI, \* bounds: domain nodes of the first operand, middle sizes, image nodes of the last operand
          MaxLen,     \* max images per node of graph / dyn operands
          MaxSlack    \* unused extra domain nodes of a later operand (0 or 1)

VARIABLES ph, ops, nest, sl, res
vars == <<ph, ops, nest, sl, res>>

\* ---- operands ---------------------------------------------------------------------------------------
Leaf(k, nd, ni, a, R, L) == [k |-> k, nd |-> nd, ni |-> ni, a |-> a, R |-> R, L |-> L]
IntervalL(lo, hi) == [i \in 1..Len(lo) |-> [q \in 1..(hi[i] - lo[i]) |-> lo[i] + q - 1]]
BlockL(nd, k) == [i \in 1..nd |-> [q \in 1..k |-> (i - 1) * k + q - 1]]
\* structured 2D coarse -> fine cells: coarse cell c = y*cx + x, fine mesh 2cx x 2cy cells numbered row by row
Cf2L(cx, cy) == [c \in 1..(cx * cy) |->
                   LET x == (c - 1) % cx  y == (c - 1) \div cx  w == 2 * cx  f == 2 * y * w + 2 * x
                   IN  <<f, f + 1, f + w, f + w + 1>>]

LeavesOf(k, nd, ni) ==
  CASE k = "graph"     -> {Leaf(k, nd, ni, <<>>, L, L) : L \in AllAdj(nd, ni, MaxLen)}
    [] k = "dyn"       -> {Leaf(k, nd, ni, <<>>, R, SortL(ni, InjL(R))) : R \in AllAdj(nd, ni, MaxLen)}
    [] k = "interval"  -> {Leaf(k, nd, ni, lh[1] \o lh[2], <<>>, IntervalL(lh[1], lh[2])) :
                             lh \in {x \in [1..nd -> 0..ni] \X [1..nd -> 0..ni] : \A i \in 1..nd : x[1][i] <= x[2][i]}}
    [] k = "block"     -> IF nd >= 1 /\ ni >= nd /\ ni % nd = 0
                          THEN {Leaf(k, nd, ni, <<ni \div nd>>, <<>>, BlockL(nd, ni \div nd))} ELSE {}
    [] k = "indexset2" -> IF nd > 0 /\ ni = 0 THEN {} ELSE {Leaf(k, nd, ni, <<2>>, <<>>, L) : L \in [1..nd -> [1..2 -> 0..(ni - 1)]]}
    [] k = "struct1"   -> IF nd >= 1 /\ ni = nd + 1 THEN {Leaf(k, nd, ni, <<nd>>, <<>>, [i \in 1..nd |-> <<i - 1, i>>])} ELSE {}
    [] k = "cf2"       -> {Leaf(k, nd, ni, <<d[1], d[2]>>, <<>>, Cf2L(d[1], d[2])) :
                             d \in {x \in (1..2) \X (1..2) : x[1] * x[2] = nd /\ 4 * nd = ni}}

LeafValid(a) ==
  /\ Len(a.L) = a.nd
  /\ \A i \in 1..a.nd : \A q \in 1..Len(a.L[i]) : a.L[i][q] \in 0..(a.ni - 1)
  /\ (a.k \in {"interval", "block"} => \A i \in 1..a.nd : \A q \in 1..(Len(a.L[i]) - 1) : a.L[i][q + 1] = a.L[i][q] + 1)
  /\ (a.k = "dyn" => \A i \in 1..a.nd : NoDup(a.L[i]) /\ IsSortedSeq(a.L[i]) /\ SeqRange(a.L[i]) = SeqRange(a.R[i]))
  /\ (a.k = "block" => \A j \in 0..(a.ni - 1) : Cardinality({i \in 1..a.nd : Count(a.L[i], j) = 1}) = 1)   \* a partition of the image
  /\ (a.k = "cf2" => \A j \in 0..(a.ni - 1) : Cardinality({i \in 1..a.nd : Count(a.L[i], j) = 1}) = 1)

\* ---- expressions ------------------------------------------------------------------------------------
Chains == CASE N = 1 -> {<<k1>> : k1 \in K1}
            [] N = 2 -> {<<k1, k2>> : k1 \in K1, k2 \in K2}
            [] N = 3 -> {<<k1, k2, k3>> : k1 \in K1, k2 \in K2, k3 \in K3}
NoRes == [nd |-> 0, ni |-> 0, L |-> <<>>, exp |-> <<>>]
Slacks == 0..MaxSlack

\* Init fixes the shape of the expression (kinds, node counts, slack, nesting), Pick chooses the operands of that shape
Init ==
  /\ ph = "shape" /\ res = NoRes
  /\ \E ks \in Chains :
       \/ /\ N = 1
          /\ \E d0 \in 0..ND, d1 \in 0..NI : ops = <<Leaf(ks[1], d0, d1, <<>>, <<>>, <<>>)>>
          /\ nest = "flat" /\ sl = <<0>>
       \/ /\ N = 2
          /\ \E d0 \in 0..ND, d1 \in 0..NM, d2 \in 0..NI, s2 \in Slacks :
               /\ ops = <<Leaf(ks[1], d0, d1, <<>>, <<>>, <<>>), Leaf(ks[2], d1 + s2, d2, <<>>, <<>>, <<>>)>>
               /\ sl = <<0, s2>>
          /\ nest = "flat"
       \/ /\ N = 3
          /\ \E d0 \in 0..ND, d1 \in 0..NM, d2 \in 0..NM, d3 \in 0..NI, s2 \in Slacks, s3 \in Slacks :
               /\ ops = <<Leaf(ks[1], d0, d1, <<>>, <<>>, <<>>), Leaf(ks[2], d1 + s2, d2, <<>>, <<>>, <<>>),
                          Leaf(ks[3], d2 + s3, d3, <<>>, <<>>, <<>>)>>
               /\ sl = <<0, s2, s3>>
          /\ nest \in Nests

Pick ==
  /\ ph = "shape"
  /\ \/ /\ N = 1
        /\ \E a \in LeavesOf(ops[1].k, ops[1].nd, ops[1].ni) : ops' = <<a>>
     \/ /\ N = 2
        /\ \E a \in LeavesOf(ops[1].k, ops[1].nd, ops[1].ni), b \in LeavesOf(ops[2].k, ops[2].nd, ops[2].ni) : ops' = <<a, b>>
     \/ /\ N = 3
        /\ \E a \in LeavesOf(ops[1].k, ops[1].nd, ops[1].ni), b \in LeavesOf(ops[2].k, ops[2].nd, ops[2].ni),
              c \in LeavesOf(ops[3].k, ops[3].nd, ops[3].ni) : ops' = <<a, b, c>>
  /\ ph' = "init" /\ UNCHANGED <<nest, sl, res>>

\* meaning of the expression: composition in traversal order, for the nesting that is built
ExprL ==
  CASE Len(ops) = 1 -> ops[1].L
    [] Len(ops) = 2 -> CompL(ops[1].L, ops[2].L)
    [] nest = "right" -> CompL(ops[1].L, CompL(ops[2].L, ops[3].L))
    [] OTHER          -> CompL(CompL(ops[1].L, ops[2].L), ops[3].L)

Eval ==
  /\ ph = "init"
  /\ LET nd == ops[1].nd  ni == ops[Len(ops)].ni  L == ExprL IN
     res' = [nd |-> nd, ni |-> ni, L |-> L,
             exp |-> [t \in RenderTypes |-> LET r == RenderL(t, nd, ni, L) IN GraphOf(r.nd, r.ni, r.L)]]
  /\ ph' = "done" /\ UNCHANGED <<ops, nest, sl>>

Next == Pick \/ Eval
Spec == Init /\ [][Next]_vars

\* ---- laws -------------------------------------------------------------------------------------------
OpsValid == ph # "shape" =>
            /\ \A j \in 1..Len(ops) : LeafValid(ops[j])
            /\ \A j \in 1..(Len(ops) - 1) : ops[j + 1].nd = ops[j].ni + sl[j + 1]       \* CompositeAdjactor: adj1.ni <= adj2.nd

\* multiplicity of image l at node i of an operand (0 for the unused slack nodes' columns)
MultL(a, i, l) == IF i + 1 <= Len(a.L) THEN Count(a.L[i + 1], l) ELSE 0
\* product of the multiplicity matrices - independent of the nesting
ChainMult(i, l) ==
  CASE Len(ops) = 1 -> MultL(ops[1], i, l)
    [] Len(ops) = 2 -> SumSeq([k \in 1..ops[1].ni |-> MultL(ops[1], i, k - 1) * MultL(ops[2], k - 1, l)])
    [] OTHER        -> SumSeq([k \in 1..ops[1].ni |->
                         MultL(ops[1], i, k - 1) * SumSeq([m \in 1..ops[2].ni |-> MultL(ops[2], k - 1, m - 1) * MultL(ops[3], m - 1, l)])])

LawExpr == ph = "done" =>
  LET M == [i \in 0..(res.nd - 1) |-> [l \in 0..(res.ni - 1) |-> ChainMult(i, l)]]
      MM(a, b) == M[a][b]
  IN
  /\ Len(res.L) = res.nd
  /\ \A t \in RenderTypes :
       LET r == res.exp[t]  A == AdjOf(r) IN
       /\ GraphValid(r)
       /\ r.nd = (IF Transposing(t) THEN res.ni ELSE res.nd) /\ r.ni = (IF Transposing(t) THEN res.nd ELSE res.ni)
       /\ \A i \in 0..(r.nd - 1), j \in 0..(r.ni - 1) : Count(A[i + 1], j) = WantMult(t, MM, i, j)
       /\ (t = "as_is" => A = res.L)
       /\ (OrderContractual(t) /\ t # "as_is" => \A i \in 1..r.nd : IsSortedSeq(A[i]))
       /\ (Injectifying(t) => \A i \in 1..r.nd : NoDup(A[i]))
\* the traversal order is associative, too
LawAssoc == ph = "done" /\ Len(ops) = 3 =>
  CompL(CompL(ops[1].L, ops[2].L), ops[3].L) = CompL(ops[1].L, CompL(ops[2].L, ops[3].L))
\* an identity operand (interval i -> i..i) does not change the other operand's meaning
IsIdentityOp(a) == a.k = "interval" /\ a.nd = a.ni /\ \A i \in 1..a.nd : a.L[i] = <<i - 1>>
LawIdentity == ph = "done" /\ Len(ops) = 2 =>
  /\ (IsIdentityOp(ops[1]) /\ sl[2] = 0 => res.L = ops[2].L)
  /\ (IsIdentityOp(ops[2]) /\ sl[2] = 0 => res.L = ops[1].L)

\* ---- emission ---------------------------------------------------------------------------------------
DynTypeOf(t) == IF Transposing(t) THEN "injectify_transpose_sorted" ELSE "injectify_sorted"
\* the top-level split e = e1*e2 can also be rendered by the two-adjactor constructors iff the sizes are equal:
\* flat a|b and right a|(b*c) split at operand 2, left (a*b)|c splits at operand 3
Eq2 == [flat |-> (Len(ops) = 2 /\ sl[2] = 0), left |-> (Len(ops) = 3 /\ sl[3] = 0), right |-> (Len(ops) = 3 /\ sl[2] = 0)]
Emit == ph = "done" =>
  PrintT(ToJson([op |-> "adjexpr", nest |-> nest, kinds |-> [j \in 1..Len(ops) |-> ops[j].k], ops |-> ops, sl |-> sl,
                 nd |-> res.nd, ni |-> res.ni, L |-> res.L, exp |-> res.exp,
                 ordered |-> [t \in RenderTypes |-> OrderContractual(t)],
                 dynt |-> [t \in RenderTypes |-> DynTypeOf(t)],
                 eq2 |-> Eq2]))
=============================================================================
