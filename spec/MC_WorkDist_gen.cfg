INIT Init
NEXT Next
CONSTANTS MaxLayers = 7 MaxSize = 3 MaxW = 5
INVARIANT Emit
