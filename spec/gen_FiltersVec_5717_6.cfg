SPECIFICATION Spec
CONSTANTS Family = "mean" MinN = 0 MaxN = 5 BS = 2 Depth = 1 Pal = 1
INVARIANTS FilterOK ExactDomain ConstraintHolds ComplementHolds IdempotentHolds Emit
CHECK_DEADLOCK FALSE
