SPECIFICATION Spec
CONSTANTS Fam = "hypercube" Dim = 2 CellCounts = {2} PartSets = {{"A","D"}} PtnCfgs = {2} Indents = {TRUE} ChartKinds = {0, 1, 2} Muts = TRUE
INVARIANTS DocValid GrammarSane MutSane Emit
CHECK_DEADLOCK FALSE
