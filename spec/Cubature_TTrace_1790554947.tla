---- MODULE Cubature_TTrace_1790554947 ----
EXTENDS Sequences, TLCExt, Cubature, Toolbox, Naturals, TLC

_expression ==
    LET Cubature_TEExpression == INSTANCE Cubature_TEExpression
    IN Cubature_TEExpression!expression
----

_trace ==
    LET Cubature_TETrace == INSTANCE Cubature_TETrace
    IN Cubature_TETrace!trace
----

_inv ==
    ~(
        TLCGet("level") = Len(_TETrace)
        /\
        sentence = ([core |-> [kind |-> "alias", tok |-> "midpoint", par |-> [kind |-> "none", n |-> 0, txt |-> "", why |-> ""]], prefix |-> "", refine |-> [kind |-> "plain", k |-> 1, txt |-> "", why |-> ""], style |-> "lower"])
        /\
        shape = ([kind |-> "simplex", dim |-> 1])
        /\
        ph = ("done")
    )
----

_init ==
    /\ ph = _TETrace[1].ph
    /\ sentence = _TETrace[1].sentence
    /\ shape = _TETrace[1].shape
----

_next ==
    /\ \E i,j \in DOMAIN _TETrace:
        /\ \/ /\ j = i + 1
              /\ i = TLCGet("level")
        /\ ph  = _TETrace[i].ph
        /\ ph' = _TETrace[j].ph
        /\ sentence  = _TETrace[i].sentence
        /\ sentence' = _TETrace[j].sentence
        /\ shape  = _TETrace[i].shape
        /\ shape' = _TETrace[j].shape

\* Uncomment the ASSUME below to write the states of the error trace
\* to the given file in Json format. Note that you can pass any tuple
\* to `JsonSerialize`. For example, a sub-sequence of _TETrace.
    \* ASSUME
    \*     LET J == INSTANCE Json
    \*         IN J!JsonSerialize("Cubature_TTrace_1790554947.json", _TETrace)

=============================================================================

 Note that you can extract this module `Cubature_TEExpression`
  to a dedicated file to reuse `expression` (the module in the 
  dedicated `Cubature_TEExpression.tla` file takes precedence 
  over the module `Cubature_TEExpression` below).

---- MODULE Cubature_TEExpression ----
EXTENDS Sequences, TLCExt, Cubature, Toolbox, Naturals, TLC

expression == 
    [
        \* To hide variables of the `Cubature` spec from the error trace,
        \* remove the variables below.  The trace will be written in the order
        \* of the fields of this record.
        ph |-> ph
        ,sentence |-> sentence
        ,shape |-> shape
        
        \* Put additional constant-, state-, and action-level expressions here:
        \* ,_stateNumber |-> _TEPosition
        \* ,_phUnchanged |-> ph = ph'
        
        \* Format the `ph` variable as Json value.
        \* ,_phJson |->
        \*     LET J == INSTANCE Json
        \*     IN J!ToJson(ph)
        
        \* Lastly, you may build expressions over arbitrary sets of states by
        \* leveraging the _TETrace operator.  For example, this is how to
        \* count the number of times a spec variable changed up to the current
        \* state in the trace.
        \* ,_phModCount |->
        \*     LET F[s \in DOMAIN _TETrace] ==
        \*         IF s = 1 THEN 0
        \*         ELSE IF _TETrace[s].ph # _TETrace[s-1].ph
        \*             THEN 1 + F[s-1] ELSE F[s-1]
        \*     IN F[_TEPosition - 1]
    ]

=============================================================================



Parsing and semantic processing can take forever if the trace below is long.
 In this case, it is advised to uncomment the module below to deserialize the
 trace from a generated binary file.

\*
\*---- MODULE Cubature_TETrace ----
\*EXTENDS IOUtils, Cubature, TLC
\*
\*trace == IODeserialize("Cubature_TTrace_1790554947.bin", TRUE)
\*
\*=============================================================================
\*

---- MODULE Cubature_TETrace ----
EXTENDS Cubature, TLC

trace == 
    <<
    ([sentence |-> [core |-> [kind |-> "raw", tok |-> "", par |-> [kind |-> "bad", n |-> 0, txt |-> "", why |-> ""]], prefix |-> "", refine |-> [kind |-> "none", k |-> 0, txt |-> "", why |-> ""], style |-> "lower"],shape |-> [kind |-> "simplex", dim |-> 1],ph |-> "init"]),
    ([sentence |-> [core |-> [kind |-> "alias", tok |-> "midpoint", par |-> [kind |-> "none", n |-> 0, txt |-> "", why |-> ""]], prefix |-> "", refine |-> [kind |-> "plain", k |-> 1, txt |-> "", why |-> ""], style |-> "lower"],shape |-> [kind |-> "simplex", dim |-> 1],ph |-> "done"])
    >>
----


=============================================================================

---- CONFIG Cubature_TTrace_1790554947 ----
CONSTANTS
    Prefixes = FALSE
    Styles = { "lower" }
    RefineMaxPar = 5
    Refine2MaxPar = 3
    Invalid = TRUE

INVARIANT
    _inv

CHECK_DEADLOCK
    \* CHECK_DEADLOCK off because of PROPERTY or INVARIANT above.
    FALSE

INIT
    _init

NEXT
    _next

CONSTANT
    _TETrace <- _trace

ALIAS
    _expression
=============================================================================
\* Generated on Mon Sep 28 00:22:30 UTC 2026