------------------------------- MODULE IluSym -------------------------------
(* C08, symbolic part of ILU(p) on larger patterns (n = 5..8).                                  *)
(* The level of fill is defined by the elimination recurrence                                   *)
(*     lev_0(i,k) = 0 on the pattern of A (and on the diagonal), "infinite" elsewhere,          *)
(*     lev_j(i,k) = min( lev_{j-1}(i,k), lev_{j-1}(i,j) + lev_{j-1}(j,k) + 1 )   for i,k > j,    *)
(* the ILU(p) pattern is { (i,k) : lev_n(i,k) <= p }.  The recurrence takes the MINIMUM: an     *)
(* entry that is first created by a pivot j with some level can be re-created by a later pivot  *)
(* with a smaller level, and entries depending on it then have smaller levels too.  Law          *)
(* FillPathLaw checks the recurrence against the order-independent characterisation (fill path  *)
(* theorem): lev(i,k) = (number of interior vertices of a shortest path i -> k in the graph of A *)
(* whose interior vertices are all smaller than min(i,k)).                                       *)
(* TLC enumerates a seeded pseudo-random family of sparse patterns with full diagonal (linear    *)
(* congruential generator, densities Dens) and a few crafted structures, and prints each with    *)
(* its ILU(p) patterns for p = 0..PMax; the replayer compares Intern::ILUCoreSymbolic.           *)
(* For the evidence the spec also classifies each (pattern, p): `redisc` - some entry is first   *)
(* found (with level <= p) at a larger level than its final one; `sens` - ignoring such a        *)
(* re-discovery (named deviation "first level wins") changes the ILU(p) pattern.                 *)
EXTENDS Integers, Sequences, FiniteSets, Json, TLC

CONSTANTS NS,       \* matrix sizes
          Seeds,    \* seeds of the pseudo-random patterns
          Dens,     \* densities (per cent of the off-diagonal positions)
          PMax,     \* fill levels 0..PMax
          VSeed,    \* run seed (VERIF_SEED)
          Crafted   \* TRUE: also the crafted structures

VARIABLES n, E, src
vars == <<n, E, src>>

BIG == 99
Pos(nn) == (1..nn) \X (1..nn)
Off(nn) == {ij \in Pos(nn) : ij[1] # ij[2]}

\* ---- pattern family ---------------------------------------------------------------------------------------
Lcg(x) == (x * 75 + 74) % 65537
RECURSIVE LcgN(_, _)
LcgN(x, k) == IF k = 0 THEN x ELSE LcgN(Lcg(x), k - 1)
RandPat(nn, s, d) ==
  LET x0 == ((s * 7919 + VSeed * 10007 + nn * 31 + d) % 65536) + 1
  IN {ij \in Off(nn) : (LcgN(x0, (ij[1] - 1) * nn + ij[2]) \div 7) % 100 < d}

CraftedNames == {"rechain", "rechain2", "arrow_first", "arrow_last", "band_outlier", "ring", "comb"}
CraftedPat(nn, name) ==
  CASE name = "rechain"      -> \* (5,4) is created by pivot 2 with level 2 and again by pivot 3 with level 1; (5,6) depends on it
         {<<5, 1>>, <<1, 2>>, <<2, 4>>, <<5, 3>>, <<3, 4>>, <<4, 6>>} \cap Off(nn)
    [] name = "rechain2"     -> \* the same in the upper/lower mirrored position plus a longer chain
         {<<1, 5>>, <<2, 1>>, <<4, 2>>, <<3, 5>>, <<4, 3>>, <<6, 4>>, <<nn, 1>>, <<1, 3>>, <<3, nn - 1>>, <<nn, 2>>, <<2, nn - 1>>} \cap Off(nn)
    [] name = "arrow_first"  -> {ij \in Off(nn) : ij[1] = 1 \/ ij[2] = 1}
    [] name = "arrow_last"   -> {ij \in Off(nn) : ij[1] = nn \/ ij[2] = nn}
    [] name = "band_outlier" -> {ij \in Off(nn) : ij[1] - ij[2] \in {-1, 1}} \cup {<<nn, 1>>, <<1, nn>>, <<nn - 1, 2>>}
    [] name = "ring"         -> {ij \in Off(nn) : ij[2] = (ij[1] % nn) + 1 \/ ij[1] = (ij[2] % nn) + 1}
    [] name = "comb"         -> {ij \in Off(nn) : ij[2] = 1 \/ (ij[1] = 1 /\ ij[2] % 2 = 0) \/ ij[1] + 1 = ij[2]}

Init ==
  /\ n \in NS
  /\ \/ \E s \in Seeds, d \in Dens : E = RandPat(n, s, d) /\ src = [kind |-> "rand", s |-> s, d |-> d]
     \/ Crafted /\ \E c \in CraftedNames : E = CraftedPat(n, c) /\ src = [kind |-> c, s |-> 0, d |-> 0]
Next == UNCHANGED vars
Spec == Init /\ [][Next]_vars

\* ---- the level of fill --------------------------------------------------------------------------------------
Lev0 == [ik \in Pos(n) |-> IF ik[1] = ik[2] \/ ik \in E THEN 0 ELSE BIG]
RECURSIVE LevSeq(_)
LevSeq(j) ==
  IF j = 0 THEN Lev0
  ELSE LET l == LevSeq(j - 1)
       IN TLCEval([ik \in Pos(n) |->
            LET c == l[<<ik[1], j>>] + l[<<j, ik[2]>>] + 1
            IN IF ik[1] > j /\ ik[2] > j /\ c < l[ik] THEN c ELSE l[ik]])
Levs == TLCEval([j \in 0..n |-> LevSeq(j)])
Pattern(lv, p) == {ik \in Pos(n) : lv[ik] <= p}

\* order-independent characterisation: shortest fill path
RECURSIVE Bfs(_, _, _, _, _)
Bfs(front, seen, tgt, allowed, d) ==
  IF \E u \in front : <<u, tgt>> \in E THEN d
  ELSE LET nx == {v \in allowed \ seen : \E u \in front : <<u, v>> \in E}
       IN IF nx = {} THEN BIG ELSE Bfs(nx, seen \cup nx, tgt, allowed, d + 1)
FillLev(i, k) == IF i = k THEN 0 ELSE Bfs({i}, {i}, k, {v \in 1..n : v < i /\ v < k}, 0)
FillPathLaw == LET L == Levs IN \A ik \in Pos(n) : L[n][ik] = FillLev(ik[1], ik[2])
\* a level is bounded by the number of admissible interior vertices; the running minimum only decreases
Monotone == LET L == Levs IN
            /\ \A ik \in Pos(n) : L[n][ik] = BIG \/ L[n][ik] <= Cardinality({v \in 1..n : v < ik[1] /\ v < ik[2]})
            /\ \A j \in 1..n, ik \in Pos(n) : L[j][ik] <= L[j - 1][ik]

\* ---- classification for the evidence ----------------------------------------------------------------------------
\* first level (<= p) with which an entry is found along the pivot order
FirstLev(L, ik, p) == LET js == {j \in 0..n : L[j][ik] <= p} IN
                      IF js = {} THEN BIG ELSE L[CHOOSE j \in js : \A j2 \in js : j <= j2][ik]
Redisc(L, p) == \E ik \in Pos(n) : FirstLev(L, ik, p) # BIG /\ L[n][ik] < FirstLev(L, ik, p)
\* named deviation "first level wins" (candidates above p are not stored, a stored level is never lowered)
RECURSIVE LevDev(_, _)
LevDev(j, p) ==
  IF j = 0 THEN Lev0
  ELSE LET l == LevDev(j - 1, p)
       IN TLCEval([ik \in Pos(n) |->
            LET c == l[<<ik[1], j>>] + l[<<j, ik[2]>>] + 1
            IN IF ik[1] > j /\ ik[2] > j /\ c <= p /\ l[ik] = BIG THEN c ELSE l[ik]])
Sens(L, p) == LET ld == LevDev(n, p) IN Pattern(ld, p) # Pattern(L[n], p)

Mat01(S) == [i \in 1..n |-> [k \in 1..n |-> IF <<i, k>> \in S THEN 1 ELSE 0]]
Emit == LET L == Levs IN
        PrintT(ToJson([n |-> n, src |-> src, pat |-> Mat01(E \cup {ik \in Pos(n) : ik[1] = ik[2]}),
                       exps |-> [q \in 1..(PMax + 1) |-> Mat01(Pattern(L[n], q - 1))],
                       redisc |-> [q \in 1..(PMax + 1) |-> Redisc(L, q - 1)],
                       sens |-> [q \in 1..(PMax + 1) |-> Sens(L, q - 1)]]))
=============================================================================
