----------------------------- MODULE FiltersLife -----------------------------
(* C06, vector part with the life cycle of the filter object (supersedes    *)
(* FiltersVec.tla): one filter F, one vector; the public calls               *)
(*    F.filter_<op>(v)        op in {rhs, sol, def, cor}                      *)
(* are made twice in a row on the same vector:                               *)
(*    init --Live(clone|convert|move|none)--> live --Filter--> once --Filter--> twice *)
(* TLC enumerates every initial state (family x size x ALL index sets x      *)
(* chain orders x operation) and checks in every reached state               *)
(*    ConstraintHolds, ComplementHolds, IdempotentHolds, ExactDomain         *)
(* (Filters.tla) - these decide the property for the DENOTATION; the         *)
(* invariant Emit prints every behaviour with the predicted vectors after    *)
(* the first and the second call, which the C++ replayer executes on the     *)
(* real filter classes and compares bit-exactly (direction G).               *)
EXTENDS Filters, Json, TLC

CONSTANTS Family,  \* "unit" | "slip" | "mean" | "none" | "chain" | "seq" | "tuple" | "power" | "nest"
          MinN, MaxN, \* vector sizes MinN..MaxN (in blocks)
          BS,      \* block size 1..3 (tuple/nest: block size of the blocked component)
          Depth,   \* chains / sequences of 1..Depth parts (sequences also 0)
          Pal,     \* value palette 1 | 2
          LCs      \* the life-cycle operations (Filters!LifeCycleOps) the filter object goes through before it is applied,
                   \* plus the capability tokens (Filters!AllCaps): which of the conditionally instantiable calls exist on
                   \* the tree under verification (found by the check by try-compiling each of them)

VARIABLES ph,      \* "init" | "live" | "once" | "twice"
          F0, lc,  \* the filter as built and the life-cycle operation that produces the filter F that is applied
          F, op,   \* the filter and the operation
          n,       \* number of blocks (tuple: sequence of block counts)
          den,     \* the dyadic grid: every vector entry is numerator / den
          v0,      \* the input vector (numerators)
          r1, r2   \* Apply results [v, ex, mx] after the first / second call
vars == <<ph, F0, lc, F, op, n, den, v0, r1, r2>>

\* ---- the filters of a family over nb blocks ----------------------------------------------------------
Subsets(nb) == SUBSET (0..(nb - 1))
PalAt(j) == ((j + Pal) % 2) + 1
AtomsAt(nb, bs, j) ==
  {UnitOf(bs, I, PalAt(j)) : I \in Subsets(nb)}
  \cup (IF bs >= 2 THEN {SlipOf(bs, I, PalAt(j)) : I \in Subsets(nb)} ELSE {})
  \cup (IF nb >= 1 THEN {MeanOf(nb, bs, Pal)} ELSE {MeanEmptyF(bs)})
  \cup {NoneF(bs)}
NumMeans(fs) == Cardinality({j \in 1..Len(fs) : fs[j].kind = "mean"})
Seqs(nb, bs) ==
  (IF Family = "seq" THEN {<<>>} ELSE {})
  \cup {<<a>> : a \in AtomsAt(nb, bs, 1)}
  \cup (IF Depth >= 2 THEN {fs \in {<<a, b>> : a \in AtomsAt(nb, bs, 1), b \in AtomsAt(nb, bs, 2)} : NumMeans(fs) <= 1} ELSE {})
  \cup (IF Depth >= 3 THEN {fs \in {<<a, b, c>> : a \in AtomsAt(nb, bs, 1), b \in AtomsAt(nb, bs, 2), c \in AtomsAt(nb, bs, 3)} : NumMeans(fs) <= 1} ELSE {})
SeqNames == <<"a", "ab", "abc">>       \* names that are prefixes of each other
FiltersOf(nb) ==
  CASE Family = "unit"  -> {UnitOf(BS, I, Pal) : I \in Subsets(nb)}
    [] Family = "slip"  -> {SlipOf(BS, I, Pal) : I \in Subsets(nb)}
    [] Family = "mean"  -> (IF nb >= 1 THEN {MeanOf(nb, BS, Pal)} ELSE {}) \cup {MeanEmptyF(BS)}
    [] Family = "none"  -> {NoneF(BS)}
    [] Family = "chain" -> {[kind |-> "chain", bs |-> BS, fs |-> fs] : fs \in Seqs(nb, BS)}
    [] Family = "seq"   -> {[kind |-> "seq", bs |-> BS, fs |-> fs, names |-> SubSeq(SeqNames, 1, Len(fs))] : fs \in Seqs(nb, BS)}
    [] Family = "tuple" -> {[kind |-> "tuple", fs |-> <<a, b>>] : a \in AtomsAt(nb, 1, 1), b \in AtomsAt(nb + 1, BS, 2)}
    [] Family = "power" -> {[kind |-> "power", fs |-> <<a, b>>] : a \in AtomsAt(nb, 1, 1), b \in AtomsAt(nb, 1, 2)}
    [] Family = "nest"  -> {[kind |-> "tuple", fs |-> <<[kind |-> "chain", bs |-> 1, fs |-> <<a, b>>], c>>] :
                              a \in AtomsAt(nb, 1, 1), b \in AtomsAt(nb, 1, 2), c \in AtomsAt(nb + 1, BS, 1)}
SizesOf(f, nb) ==
  CASE Family \in {"tuple", "nest"} -> <<nb, nb + 1>>
    [] Family = "power" -> <<nb, nb>>
    [] OTHER -> nb
InputOf(f, nb, dn) ==
  IF IsTuple(f)
  THEN [j \in 1..2 |-> [k \in 1..(SizesOf(f, nb)[j] * f.fs[j].bs) |-> dn * V0(k + 2 * j)]]
  ELSE [k \in 1..(nb * f.bs) |-> dn * V0(k)]

Init ==
  /\ ph = "init"
  /\ \E nb \in MinN..MaxN : \E f \in FiltersOf(nb) : \E o \in Ops :
       /\ F = f /\ F0 = f /\ op = o /\ n = SizesOf(f, nb)
       /\ den = DivOf(f) * DivOf(f)
       /\ v0 = InputOf(f, nb, DivOf(f) * DivOf(f))
  /\ lc \in {l \in LCs \cap LifeCycleOps : OfferedWith(F0, l, LCs \cap AllCaps)}
  /\ r1 = [v |-> <<>>, ex |-> TRUE, mx |-> 0] /\ r2 = [v |-> <<>>, ex |-> TRUE, mx |-> 0]

\* the filter object that is applied is obtained from the built one by clone / convert / move (or is the built one)
Live == ph = "init" /\ ph' = "live" /\ F' = LifeCycle(F0, lc) /\ UNCHANGED <<F0, lc, op, n, den, v0, r1, r2>>
\* the public call F.filter_<op>(v)
FilterOnce  == ph = "live" /\ ph' = "once"  /\ r1' = Apply(F, op, den, v0)   /\ UNCHANGED <<F0, lc, F, op, n, den, v0, r2>>
FilterTwice == ph = "once" /\ ph' = "twice" /\ r2' = Apply(F, op, den, r1.v) /\ UNCHANGED <<F0, lc, F, op, n, den, v0, r1>>
Next == Live \/ FilterOnce \/ FilterTwice
Spec == Init /\ [][Next]_vars

\* ---- the property, decided on the denotation ------------------------------------------------------------
FilterOK == WellFormed(F, n) /\ LCs \subseteq (LifeCycleOps \cup AllCaps)
\* the law of the life-cycle operations: same value, same denotation (for every operation, not only the one called)
LifeCycleLaw == /\ ph # "init" => F = F0
                /\ ph = "live" /\ lc # "none" => \A o \in Ops : Apply(F, o, den, v0).v = Apply(F0, o, den, v0).v
ExactDomain == r1.ex /\ r2.ex
ConstraintHolds ==
  /\ ph \in {"once", "twice"} => Constraint(F, op, den, n, r1.v)
  /\ ph = "twice" => Constraint(F, op, den, n, r2.v)
ComplementHolds ==
  /\ ph \in {"once", "twice"} => Complement(F, op, n, v0, r1.v)
  /\ ph = "twice" => Complement(F, op, n, r1.v, r2.v)
IdempotentHolds == ph = "twice" /\ IdemGuaranteed(F, n) => r2.v = r1.v

\* ---- emission ------------------------------------------------------------------------------------------
FloatSafe == Max(r1.mx, r2.mx) < (4194304 \div MaxDiv(F))          \* 2^22 / largest divisor
Emit == ph = "twice" =>
  PrintT(ToJson([fam |-> Family, lc |-> lc, f |-> F0, op |-> op, n |-> n, den |-> den, v0 |-> v0, v1 |-> r1.v, v2 |-> r2.v,
                 idem |-> IdemGuaranteed(F, n), f32 |-> FloatSafe, mx |-> Max(r1.mx, r2.mx)]))
=============================================================================
