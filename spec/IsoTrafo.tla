------------------------------- MODULE IsoTrafo -------------------------------
(* C15, isoparametric part (direction G): the transformation Trafo::Isoparam::Mapping<Mesh, 2> on quadrilaterals.      *)
(*                                                                                                                  *)
(* The iso-parametric map of degree 2 is the biquadratic Lagrange interpolant of 3 x 3 control points c[i][j]         *)
(* (i = eta index, j = xi index; 0, 1, 2 = -1, 0, +1):  the corners, the edge midpoints - projected onto the chart of  *)
(* the edge if it has one - and the centre = mean of the four edge points ("interpolate inner quad points              *)
(* bilinearly", kernel/trafo/isoparam/evaluator.hpp):                                                                *)
(*       F(xi, eta) = sum_ij c[i][j] * l_i(eta) * l_j(xi),      l = Lagrange-2 basis of [-1,1] (RefElement: L2lo..)    *)
(* Cells are taken from a catalogue whose corners lie on integer points of the circle |x| = 40 such that the projected *)
(* chord midpoints are integer points too ((0,+-40), (+-40,0)); every cell is offered in all four rotations of its     *)
(* local numbering, so each local edge is the curved one in some case.  F is then a polynomial with integer           *)
(* coefficients over the denominator 4; the Jacobian and the Hessian tensor are its FORMAL derivatives (PDiff), and   *)
(* the specification emits img_point, jac_mat, hess_ten at the lattice points n/4 as integers over `den`, and the      *)
(* exact cell volume  int det DF  as a rational.  The harness compares the real evaluator with ==, and uses the       *)
(* SPECIFIED jac/hess to verify the physical gradients and Hessians of Lagrange-1/2 basis functions (chain rule).      *)
EXTENDS RefElement, Json

Radius == 40
\* all integer coordinates stand for multiples of 2^-CoordShift (cells of diameter ~1, still dyadic): the absolute Newton tolerance of
\* Trafo::InverseMapping (eps^0.9) is of the order of the rounding error of coordinates of magnitude 40
CoordShift == 6
OnCircle(p) == p[1] * p[1] + p[2] * p[2] = Radius * Radius
\* projection of a point m onto the circle (centre 0): m * R / |m|; defined (exact) only if |m| is an integer dividing m * R
NormOf(m) == CHOOSE n \in 0..(2 * Radius) : n * n = m[1] * m[1] + m[2] * m[2]
ProjectExact(m) == (\E n \in 1..(2 * Radius) : n * n = m[1] * m[1] + m[2] * m[2]) /\ \A a \in 1..2 : (m[a] * Radius) % NormOf(m) = 0
Project(m) == [a \in 1..2 |-> (m[a] * Radius) \div NormOf(m)]

\* corner points in reference order: v0 = (-,-), v1 = (+,-), v2 = (-,+), v3 = (+,+)
Catalogue == <<
  << <<-24, -32>>, <<24, -32>>, <<-8, -8>>, <<8, -8>> >>,         \* ring cell below the inner square: edge 0 curved
  << <<8, -8>>, <<24, -32>>, <<8, 8>>, <<24, 32>> >>,             \* ring cell to the right: edge 3 curved
  << <<-24, -32>>, <<24, -32>>, <<-24, 32>>, <<24, 32>> >>,       \* the inscribed rectangle: all four edges curved
  << <<-24, -32>>, <<24, -32>>, <<-16, 0>>, <<16, 8>> >>,         \* general quadrilateral, edge 0 curved
  << <<-16, -8>>, <<8, -16>>, <<-8, 16>>, <<16, 8>> >> >>          \* straight (bilinear) cell: no curved edge

VARIABLE cur
Init == cur \in {<<q, s>> : q \in 1..Len(Catalogue), s \in Rot("hypercube", 2)}
Next == UNCHANGED cur
Spec == Init /\ [][Next]_cur

\* the cell in the chosen local numbering
CellP == [k \in 1..4 |-> Catalogue[cur[1]][cur[2][k] + 1]]

\* ---- everything below is a function of the corner tuple cp (constant level) -------------------------------------------------
EdgeV(e) == FaceVerts("hypercube", 2, 1, e)                       \* local vertices of local edge e
Curved(cp, e) == OnCircle(cp[EdgeV(e)[1] + 1]) /\ OnCircle(cp[EdgeV(e)[2] + 1])
Mid(cp, e) == LET a == cp[EdgeV(e)[1] + 1]  b == cp[EdgeV(e)[2] + 1] IN [x \in 1..2 |-> (a[x] + b[x]) \div 2]
MidExact(cp, e) == LET a == cp[EdgeV(e)[1] + 1]  b == cp[EdgeV(e)[2] + 1] IN \A x \in 1..2 : (a[x] + b[x]) % 2 = 0
EdgePoint(cp, e) == IF Curved(cp, e) THEN Project(Mid(cp, e)) ELSE Mid(cp, e)
CentreSum(cp) == [x \in 1..2 |-> EdgePoint(cp, 0)[x] + EdgePoint(cp, 1)[x] + EdgePoint(cp, 2)[x] + EdgePoint(cp, 3)[x]]
\* control points c[i][j]: edges 0 / 1 = bottom / top (eta = -1 / +1), 2 / 3 = left / right (xi = -1 / +1)
CtrlOf(cp) == << << cp[1], EdgePoint(cp, 0), cp[2] >>,
                 << EdgePoint(cp, 2), [x \in 1..2 |-> CentreSum(cp)[x] \div 4], EdgePoint(cp, 3) >>,
                 << cp[3], EdgePoint(cp, 1), cp[4] >> >>
\* the control points of the same cell WITHOUT charts: all nodes are bilinear images of the equispaced reference nodes, so the
\* iso-parametric map of every degree (1, 2, 3) without charts IS the bilinear map of the four corners
StraightCtrl(cp) ==
  LET m(e) == Mid(cp, e)
      cs == [x \in 1..2 |-> m(0)[x] + m(1)[x] + m(2)[x] + m(3)[x]]
  IN << << cp[1], m(0), cp[2] >>, << m(2), [x \in 1..2 |-> cs[x] \div 4], m(3) >>, << cp[3], m(1), cp[4] >> >>
StraightExact(cp) == \A x \in 1..2 : (Mid(cp, 0)[x] + Mid(cp, 1)[x] + Mid(cp, 2)[x] + Mid(cp, 3)[x]) % 4 = 0
\* side conditions of the exact domain (invariant: the catalogue stays inside it)
ExactDomainOf(cp) ==
  /\ \A e \in 0..3 : MidExact(cp, e) /\ (Curved(cp, e) => ProjectExact(Mid(cp, e)))
  /\ \A x \in 1..2 : CentreSum(cp)[x] % 4 = 0
  /\ StraightExact(cp)
ExactDomain == ExactDomainOf(CellP)

\* 1-D Lagrange-2 factors padded to the exponent box 0..3 (the determinant has degree 3 per variable)
BoxQ == 3
L2pad == << L2lo \o <<0>>, L2mid \o <<0>>, L2hi \o <<0>> >>
\* the nine tensor basis polynomials l_i(eta) l_j(xi), t = 3 (i - 1) + j, over the denominator 4
BasisT == TLCEval([t \in 1..9 |-> PTensor(2, BoxQ, << L2pad[((t - 1) % 3) + 1], L2pad[((t - 1) \div 3) + 1] >>)])
\* component k of the map for the control points ctrl (a value), over the denominator 4
MapPoly(ctrl, k) ==
  TLCEval([e \in Exps(2, BoxQ) |-> MapThenSumSet(LAMBDA t : ctrl[((t - 1) \div 3) + 1][((t - 1) % 3) + 1][k] * BasisT[t][e], 1..9)])
\* 3 * integral of xi^m over [-1,1]
I3(m) == IF m = 0 THEN 6 ELSE IF m = 2 THEN 2 ELSE 0
Lattice == [1..2 -> -4..4]
LatS == 4
LatD == 4

\* all derived data of one cell for given control points, evaluated once
CellDataOf(ctrl0) ==
  LET ctrl == ctrl0
      Fk == TLCEval([k \in 1..2 |-> MapPoly(ctrl, k)])
      Jk == TLCEval([k \in 1..2 |-> TLCEval([a \in 1..2 |-> PDiff(Fk[k], a, BoxQ)])])
      Hk == TLCEval([k \in 1..2 |-> TLCEval([a \in 1..2 |-> TLCEval([b \in 1..2 |-> PDiff(Jk[k][a], b, BoxQ)])])])
      det == PSub(PMul(Jk[1][1], Jk[2][2]), PMul(Jk[1][2], Jk[2][1]))          \* over 16
  IN [ctrl |-> ctrl, F |-> Fk, J |-> Jk, H |-> Hk, det |-> det,
      volnum |-> MapThenSumSet(LAMBDA e : det[e] * I3(e[1]) * I3(e[2]), DOMAIN det)]          \* volume = volnum / 144

CellData(cp) == CellDataOf(TLCEval(CtrlOf(cp)))
\* the bilinear map of the four corners (= the iso-parametric map of any degree without charts)
BilinearData(cp) == CellDataOf(TLCEval(StraightCtrl(cp)))

Emit ==
  LET cp == TLCEval(CellP)
      C == TLCEval(CellData(cp))
      at(n) == [n |-> n,
                x |-> [k \in 1..2 |-> PEval(C.F[k], n, LatS, LatD)],
                j |-> [k \in 1..2 |-> [a \in 1..2 |-> PEval(C.J[k][a], n, LatS, LatD)]],
                h |-> [k \in 1..2 |-> [a \in 1..2 |-> [b \in 1..2 |-> PEval(C.H[k][a][b], n, LatS, LatD)]]]]
      B == TLCEval(BilinearData(cp))
      bl(n) == [n |-> n,
                x |-> [k \in 1..2 |-> PEval(B.F[k], n, LatS, LatD)],
                j |-> [k \in 1..2 |-> [a \in 1..2 |-> PEval(B.J[k][a], n, LatS, LatD)]],
                h |-> [k \in 1..2 |-> [a \in 1..2 |-> [b \in 1..2 |-> PEval(B.H[k][a][b], n, LatS, LatD)]]]]
      \* the map preserves orientation at every lattice point (a valid cell); otherwise nothing is emitted and Valid fails
      valid == \A n \in Lattice : PEval(C.det, n, LatS, 6) > 0
  IN /\ valid
     /\ PrintT(ToJson([kind |-> "iso", cell |-> cur[1], P |-> cp, radius |-> Radius, curved |-> SetToSeq({e \in 0..3 : Curved(cp, e)}),
                       cs |-> CoordShift, ctrl |-> C.ctrl, S |-> LatS, den |-> 4 * IPow(LatS, LatD), volnum |-> C.volnum, volden |-> 144,
                       pts |-> SetToSeq({at(n) : n \in Lattice}),
                       blvolnum |-> B.volnum, blpts |-> SetToSeq({bl(n) : n \in Lattice})]))
=============================================================================
