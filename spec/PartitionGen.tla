------------------------------ MODULE PartitionGen ------------------------------
(* C12 generator: ALL assignments of NCells cells to ranks, for every rank count 1..NCells (surjective maps, so no  *)
(* patch is empty - extract_patch documents an empty patch as an error).  Includes disconnected patches and patches *)
(* that touch in a single vertex, whatever the mesh is.  Canon = TRUE keeps only the assignments whose ranks are      *)
(* numbered in the order of their first cell (one representative per set partition), FALSE keeps every labelling.    *)
EXTENDS Integers, Sequences, FiniteSets, Json, TLC
CONSTANTS NCells, Canon
VARIABLE asg          \* asg[c] = rank (0-based) of cell c-1
Surj(f, n) == \A r \in 0..(n - 1) : \E c \in 1..NCells : f[c] = r
FirstCell(f, r) == CHOOSE c \in 1..NCells : f[c] = r /\ \A b \in 1..(c - 1) : f[b] # r
IsCanon(f, n) == \A r \in 0..(n - 2) : FirstCell(f, r) < FirstCell(f, r + 1)
Init == \E n \in 1..NCells : asg \in {f \in [1..NCells -> 0..(n - 1)] : Surj(f, n) /\ (Canon => IsCanon(f, n))}
Next == UNCHANGED asg
Spec == Init /\ [][Next]_asg
NR == 1 + (CHOOSE m \in 0..(NCells - 1) : (\E c \in 1..NCells : asg[c] = m) /\ \A c \in 1..NCells : asg[c] <= m)
RECURSIVE CellsOf(_, _)
CellsOf(r, c) == IF c > NCells THEN << >> ELSE (IF asg[c] = r THEN << c - 1 >> ELSE << >>) \o CellsOf(r, c + 1)
\* sanity of the generator: a partition into NR non-empty classes
IsPartition == /\ \A r \in 0..(NR - 1) : Len(CellsOf(r, 1)) >= 1
               /\ \A c \in 1..NCells : asg[c] \in 0..(NR - 1)
Emit == PrintT(ToJson([ncells |-> NCells, ranks |-> [r \in 1..NR |-> CellsOf(r - 1, 1)]]))
=============================================================================
