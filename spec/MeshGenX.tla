------------------------------- MODULE MeshGenX -------------------------------
(* C10 generator, extension of MeshGen (same meshes; MeshGen itself is shared with C12/C15/C18 and unchanged):       *)
(*                                                                                                                  *)
(* 1. ORIENTED MESH PARTS.  A mesh part may carry its own topology, and nothing ties the local numbering of a part   *)
(*    entity to the numbering of the parent entity it is attached to (a quad surface part of a hexahedral mesh        *)
(*    "seen from the other side", a sub-mesh written by another tool, ...).  OrientedPart builds such a part           *)
(*    explicitly: every top-dimensional part entity j is the parent entity EL[j] re-numbered by an arbitrary          *)
(*    symmetry sy[j] of its shape (RefCell!Aut(Fam, e): 2 codes for an edge, 6 for a triangle, all 8 for a            *)
(*    quadrilateral - including the two transpositions that keep vertex 0), the edges of a 2D part entity run in      *)
(*    either direction (bit mask), and the part's own vertex numbering is a rotation / reversal of the sorted one.    *)
(*    The part comes with its complete own topology (tidx) and the parent entities (ents, as vertex sets) per         *)
(*    dimension; the harness only fills both into a MeshPart.                                                         *)
(*    Enumerated: mode "single": EVERY (entity of the cell, orientation code) for edges and 2D faces/cells;           *)
(*    mode "pair" 2D: EVERY pair of codes (s1, s2) of the two cells; 3D / chains: all faces (all cells) with codes     *)
(*    running through the group by patterns (stride p, offset q) + all edges in both directions.                      *)
(*                                                                                                                  *)
(* 2. ADAPT CONFIGURATIONS for RootMeshNode::refine_unique(AdaptMode): every mode none / chart / dual / chart|dual,  *)
(*    without a chart and with a chart on a boundary facet of cell 1 that lies in a coordinate plane x_b = c          *)
(*    (the chart is the graph  x_b = c + sgn * x_a^2 / 2^s  over that plane: idempotent, non-linear, exact in         *)
(*    dyadic arithmetic; spec/MeshTopo.tla!GraphChartRule is its definition).                                         *)
EXTENDS MeshGen

CONSTANT OriLevel     \* 0 = none of the above, 1 = quick selection of patterns, 2 = all patterns

\* ---- oriented parts ---------------------------------------------------------------------------------------------------------
\* gx: everything derived from the mesh that the operators below need, evaluated ONCE per mesh (a state variable, so that TLC
\* does not re-evaluate the global numbering at every reference)
VARIABLE gx
CS == gx.cells
\* constant tables (evaluated once)
AutSeq1 == SetToSeq(Aut(Fam, 1))
AutSeq2 == SetToSeq(Aut(Fam, 2))
AutSeq(e) == IF e = 1 THEN AutSeq1 ELSE AutSeq2
NAut(e) == Len(AutSeq(e))
FT21 == FaceTable(Fam, 2, 1)                \* local edges of a 2D part entity
FTD1 == FaceTable(Fam, Dim, 1)
FTD2 == FaceTable(Fam, Dim, 2)
FTD(e) == IF e = 1 THEN FTD1 ELSE FTD2
P2(n) == 2 ^ n
MaskBit(mask, m) == (mask \div P2(m % 8)) % 2

\* the e-entities of the mesh as tuples in the reference order of (some) cell they belong to
LocalTupleOf(CC, c, e, k) == [i \in 1..NVerts(Fam, e) |-> CC[c][FTD(e)[k + 1][i] + 1]]
TuplesOfCells(CC, e) == {LocalTupleOf(CC, c, e, k) : c \in 1..Len(CC), k \in 0..(Len(FTD(e)) - 1)}
EntTuplesOf(CC, e) ==
  LET TT == TuplesOfCells(CC, e)
      L == SetToSeq({TRange(t) : t \in TT})
  IN [j \in 1..Len(L) |-> CHOOSE t \in TT : TRange(t) = L[j]]
EntTuples(e) == IF e = 1 THEN gx.et1 ELSE gx.et2

EdgeSetsOf(G) == {{G[j][FT21[k][1] + 1], G[j][FT21[k][2] + 1]} : j \in 1..Len(G), k \in 1..Len(FT21)}

\* e = dimension of the part (1 or 2); EL = parent entities (tuples); sy[j] = symmetry applied to EL[j];
\* mask = directions of the part's edges (2D parts); vn = the part's vertex numbering
OrientedPart(name, e, EL, sy, mask, vn) ==
  LET G   == [j \in 1..Len(EL) |-> Compose(EL[j], sy[j])]
      V0  == SetToSeq(UNION {TRange(G[j]) : j \in 1..Len(G)})
      nv  == Len(V0)
      rot == vn % nv
      rev == (vn \div nv) % 2 = 1
      PV  == [i \in 1..nv |-> LET r == ((i - 1 + rot) % nv) + 1 IN V0[IF rev THEN nv + 1 - r ELSE r]]
      LM  == [g \in TRange(PV) |-> (CHOOSE i \in 1..nv : PV[i] = g) - 1]       \* global vertex -> part vertex
      ES  == IF e = 2 THEN SetToSeq(EdgeSetsOf(G)) ELSE << >>
      EM  == [m \in 1..Len(ES) |-> LET t == SetToSeq(ES[m]) IN IF MaskBit(mask, m) = 1 THEN << t[2], t[1] >> ELSE t]
      EI  == [S \in TRange(ES) |-> (CHOOSE m \in 1..Len(ES) : ES[m] = S) - 1]
      top  == [j \in 1..Len(G) |-> [i \in 1..Len(G[j]) |-> LM[G[j][i]]]]
      i10  == IF e = 1 THEN top ELSE [m \in 1..Len(ES) |-> << LM[EM[m][1]], LM[EM[m][2]] >>]
      i20  == IF e = 2 THEN top ELSE << >>
      i21  == IF e = 2 THEN [j \in 1..Len(G) |-> [k \in 1..Len(FT21) |-> EI[{G[j][FT21[k][1] + 1], G[j][FT21[k][2] + 1]}]]]
              ELSE << >>
      ents0 == [i \in 1..nv |-> << PV[i] >>]
      ents1 == IF e = 1 THEN [j \in 1..Len(EL) |-> SetToSeq(TRange(EL[j]))] ELSE [m \in 1..Len(ES) |-> SetToSeq(ES[m])]
      ents2 == IF e = 2 THEN [j \in 1..Len(EL) |-> SetToSeq(TRange(EL[j]))] ELSE << >>
  IN [name |-> name, deduce |-> "none", topo |-> TRUE,
      ents |-> [d \in 1..(Dim + 1) |-> IF d = 1 THEN ents0 ELSE IF d = 2 THEN ents1 ELSE IF d = 3 THEN ents2 ELSE << >>],
      tidx |-> [i10 |-> i10, i20 |-> i20, i21 |-> i21]]

\* pattern: the code of the j-th entity runs through the group with stride p from offset q
PatSym(e, j, p, q) == AutSeq(e)[((j * p + q) % NAut(e)) + 1]
PatPart(name, e, EL, p, q) ==
  OrientedPart(name, e, EL, [j \in 1..Len(EL) |-> PatSym(e, j, p, q)], 5 * q + 3 * p + 1, q + 2 * p)

\* single cell: every (entity, code); the edge directions / vertex numberings alternate with the code
SingleEntityParts(e) ==
  LET EL == EntTuples(e)  A == AutSeq(e)
      C == SetToSeq((1..Len(EL)) \X (1..Len(A)))
  IN [x \in 1..Len(C) |-> LET j == C[x][1]  a == C[x][2] IN
        OrientedPart("o" \o ToString(e) \o "s" \o ToString(j) \o "c" \o ToString(a), e, << EL[j] >>, << A[a] >>, 3 * a + j, a + 2 * j)]
\* two cells (2D): every pair of codes
PairCodeParts ==
  LET A == AutSeq(Dim)  C == SetToSeq((1..Len(A)) \X (1..Len(A)))
  IN [x \in 1..Len(C) |-> OrientedPart("o2p" \o ToString(C[x][1]) \o "c" \o ToString(C[x][2]), Dim,
                                       << CS[1], CS[2] >>, << A[C[x][1]], A[C[x][2]] >>, 7 * C[x][1] + C[x][2], C[x][1] + 3 * C[x][2])]
Patterns == IF OriLevel >= 2 THEN SetToSeq({<<p, q>> : p \in {1, 3}, q \in 0..7}) ELSE << <<1, 0>>, <<3, 5>>, <<1, 4>> >>
PatternParts(e, tag, EL) ==
  [x \in 1..Len(Patterns) |-> PatPart("o" \o ToString(e) \o tag \o ToString(Patterns[x][1]) \o "q" \o ToString(Patterns[x][2]),
                                      e, EL, Patterns[x][1], Patterns[x][2])]
\* the faces of one cell (3D), as parent tuples
CellFaceTuples(c) == LET ET == EntTuples(2) IN
  SelectSeq(ET, LAMBDA t : TRange(t) \subseteq TRange(CS[c]))

OrientedPartsDef ==
  IF OriLevel = 0 THEN << >>
  ELSE IF Mode = "single" THEN SingleEntityParts(1) \o SingleEntityParts(2) \o PatternParts(1, "a", EntTuples(1)) \o PatternParts(2, "a", EntTuples(2))
  ELSE IF Mode = "pair" /\ Dim = 2 THEN PairCodeParts \o PatternParts(1, "a", EntTuples(1))
  ELSE \* 3D pairs, 2D chains: all entities / the surface of one cell, codes by pattern
       PatternParts(1, "a", EntTuples(1)) \o PatternParts(2, "a", EntTuples(2))
       \o (IF Dim = 3 THEN PatternParts(2, "k", CellFaceTuples(2)) ELSE << >>)
OrientedParts == gx.oparts

InitX ==
  /\ Init
  /\ \E g \in {[cells |-> Cells, et1 |-> EntTuplesOf(Cells, 1), et2 |-> EntTuplesOf(Cells, 2)]} :
       gx = [cells |-> g.cells, et1 |-> g.et1, et2 |-> g.et2, oparts |-> << >>]
\* second step: the oriented parts (they read gx)
NextX == /\ gx.oparts = << >> /\ OriLevel > 0
         /\ gx' = [gx EXCEPT !.oparts = OrientedPartsDef]
         /\ UNCHANGED cellpts
SpecX == InitX /\ [][NextX]_<<cellpts, gx>>
Ready == OriLevel = 0 \/ gx.oparts # << >>

\* sanity of the construction (invariant): every oriented part lists each vertex / edge once and its entities are
\* re-numberings of the parent entities
OrientedPartsOK ==
  \A x \in 1..Len(OrientedParts) :
    LET P == OrientedParts[x] IN
      /\ \A d \in 1..(Dim + 1) : Cardinality({TRange(P.ents[d][i]) : i \in 1..Len(P.ents[d])}) = Len(P.ents[d])
      /\ \A i \in 1..Len(P.tidx.i10) : P.tidx.i10[i][1] # P.tidx.i10[i][2]
      /\ \A i \in 1..Len(P.tidx.i20) :
           {P.ents[1][P.tidx.i20[i][k] + 1][1] : k \in 1..NVerts(Fam, 2)} = TRange(P.ents[3][i])

\* ---- adapt configurations ----------------------------------------------------------------------------------------------------
Modes == << "none", "chart", "dual", "chartdual" >>
\* boundary facets of cell 1 (not shared with another cell) that lie in a coordinate plane x_b = c
FacetPts(f) == {cellpts[1][v + 1] : v \in TRange(FaceVerts(Fam, Dim, Dim - 1, f))}
IsBoundaryFacet(f) == \A c \in 2..Len(cellpts) : ~(FacetPts(f) \subseteq TRange(cellpts[c]))
ChartCands ==
  {<<f, b>> \in Facets \X (1..Dim) : IsBoundaryFacet(f) /\ Cardinality({p[b] : p \in FacetPts(f)}) = 1}
ChartOf(fb, a, sgn) ==
  LET f == fb[1]  b == fb[2]
      S == {CS[1][v + 1] : v \in TRange(FaceVerts(Fam, Dim, Dim - 1, f))}
  IN [part |-> "gch", a |-> a, b |-> b, c |-> (CHOOSE p \in FacetPts(f) : TRUE)[b], neg |-> (sgn < 0), s |-> 4,
      ents |-> OneEnt(Dim - 1, S)]
ChartConfigs ==
  LET CC == SetToSeq(ChartCands) IN
  [x \in 1..Len(CC) |-> LET b == CC[x][2]  a == (b % Dim) + 1 IN ChartOf(CC[x], a, IF x % 2 = 0 THEN 1 ELSE -1)]

EmitX == Ready => PrintT(ToJson([kind |-> "mesh", fam |-> Fam, dim |-> Dim, mode |-> Mode,
                        src |-> [raw |-> [X |-> X, cs |-> 0, cells |-> CS]], parts |-> Parts, oparts |-> OrientedParts,
                        modes |-> Modes, charts |-> ChartConfigs]))
=============================================================================
