----------------------------- MODULE FiltersInto -----------------------------
(* C06, life-cycle calls INTO an existing, non-empty filter object.          *)
(*                                                                          *)
(* FiltersLife.tla obtains the applied filter from a FRESH object (the       *)
(* returning clone, clone/convert into a default constructed object, move).  *)
(* Here the target object T already holds other content T0 - other (more,    *)
(* fewer) indices and values, another vector size nT, another ignore_nans    *)
(* flag, a mean filter with other weights, and for the composed filters      *)
(* other sub-filters per slot; a FilterSequence with more / fewer /          *)
(* differently named / differently ordered entries - and one of              *)
(*    T.clone(S, Deep|Weak|Shallow)   T.convert(S)   T.convert(S of other    *)
(*    data/index types)   T = std::move(S)                                   *)
(* is called:                                                                *)
(*    init --IntoCall--> live --Filter--> once --Filter--> twice             *)
(* Into(T, S, io) is the value of the target after the call, written from    *)
(* the documented semantics of the classes, slot by slot (an atom replaces   *)
(* every field; chain / tuple / power call the operation on each slot of the *)
(* existing object; a sequence is CLEARED and gets one entry per entry of    *)
(* the source, in the order and with the names of the source).  The law      *)
(*    IntoLaw:  Into(T0, S, io) = CopyOf(S)                                  *)
(* says that nothing of T0 is left over, for EVERY pair (T0, S); the         *)
(* property's clauses are then required of the filtered vectors IN TERMS OF  *)
(* THE SOURCE: the constraints of S hold, every entry S does not constrain   *)
(* is unchanged (a surviving constraint of T0 would change one), and the     *)
(* second call changes nothing.  Emit prints every behaviour with the        *)
(* predicted vectors; harness/c06_into.cpp replays them on the real classes. *)
EXTENDS Filters, Json, TLC

CONSTANTS Family,  \* "unit" | "slip" | "mean" | "none" | "chain" | "seq" | "tuple" | "power" | "nest"
          MinN, MaxN, \* vector sizes of the SOURCE MinN..MaxN (in blocks)
          BS,      \* block size 1..3 (tuple/nest: block size of the blocked component)
          Depth,   \* chains / sequences of 1..Depth parts (sequences also 0)
          Pal,     \* value palette of the source 1 | 2 (the previous content of the target uses the other one)
          TSz,     \* sizes the previous content of the target was built for: 0 = the size of the source, 1 = also one block more,
                   \* 2 = every size 0..MaxN
          OpSel,   \* the filter operations applied afterwards (subset of Filters!Ops)
          IOs      \* the into-operations (IntoOps) that are called, plus the capability tokens (Filters!AllCaps) of the tree

VARIABLES ph,      \* "init" | "live" | "once" | "twice"
          T0, nT,  \* the previous content of the target object and the number of blocks it was built for
          S, io,   \* the source filter and the into-operation
          F, op,   \* the value of the target object and the filter operation
          n,       \* number of blocks of the source / of the filtered vector (tuple: sequence of block counts)
          den,     \* the dyadic grid
          v0,      \* the input vector (numerators)
          r1, r2   \* Apply results after the first / second call
vars == <<ph, T0, nT, S, io, F, op, n, den, v0, r1, r2>>

IntoOps == {"clone_into_deep", "clone_into_weak", "clone_into_shallow", "convert_same", "convert_other", "move_assign"}
\* which into-operations exist on the tree (see Filters!OfferedWith)
IntoOffered(f, i, caps) ==
  CASE i \in {"clone_into_deep", "clone_into_weak", "clone_into_shallow"} -> CloneIntoOffered(f, caps)
    [] i \in {"convert_same", "convert_other"} -> OfferedWith(f, i, caps)
    [] OTHER -> TRUE

(***************************************************************************)
(* The value of the target after T.<io>(S)                                  *)
(***************************************************************************)
SeqPush(Q, name, f) == [Q EXCEPT !.fs = Append(@, f), !.names = Append(@, name)]
RECURSIVE SeqFill(_, _, _)
SeqFill(Q, src, j) == IF j > Len(src.fs) THEN Q ELSE SeqFill(SeqPush(Q, src.names[j], CopyOf(src.fs[j])), src, j + 1)
RECURSIVE Into(_, _, _)
Into(T, src, i) ==
  CASE i = "move_assign" -> CopyOf(src)                                  \* the members are move-assigned: the whole value
    [] IsAtom(src)       -> CopyOf(src)                                  \* every container / scalar / flag of the atom is replaced
    [] src.kind = "seq"  -> SeqFill([T EXCEPT !.fs = <<>>, !.names = <<>>], src, 1)     \* clear(), then one entry per source entry
    [] OTHER             -> [T EXCEPT !.fs = [j \in 1..Len(src.fs) |-> Into(T.fs[j], src.fs[j], i)]]  \* the call on every slot

\* ---- the source filters (as in FiltersLife) -------------------------------------------------------------
Subsets(nb) == SUBSET (0..(nb - 1))
PalAt(j) == ((j + Pal) % 2) + 1
AtomsAt(nb, bs, j) ==
  {UnitOf(bs, I, PalAt(j)) : I \in Subsets(nb)}
  \cup (IF bs >= 2 THEN {SlipOf(bs, I, PalAt(j)) : I \in Subsets(nb)} ELSE {})
  \cup (IF nb >= 1 THEN {MeanOf(nb, bs, Pal)} ELSE {MeanEmptyF(bs)})
  \cup {NoneF(bs)}
NumMeans(fs) == Cardinality({j \in 1..Len(fs) : fs[j].kind = "mean"})
SeqsOfLen(At(_), L) ==
  CASE L = 0 -> {<<>>}
    [] L = 1 -> {<<a>> : a \in At(1)}
    [] L = 2 -> {fs \in {<<a, b>> : a \in At(1), b \in At(2)} : NumMeans(fs) <= 1}
    [] L = 3 -> {fs \in {<<a, b, c>> : a \in At(1), b \in At(2), c \in At(3)} : NumMeans(fs) <= 1}
SeqNames == <<"a", "ab", "abc">>
SourcesOf(nb) ==
  LET At(j) == AtomsAt(nb, BS, j)
      At1(j) == AtomsAt(nb, 1, j)
  IN
  CASE Family = "unit"  -> {UnitOf(BS, I, Pal) : I \in Subsets(nb)}
    [] Family = "slip"  -> {SlipOf(BS, I, Pal) : I \in Subsets(nb)}
    [] Family = "mean"  -> (IF nb >= 1 THEN {MeanOf(nb, BS, Pal)} ELSE {}) \cup {MeanEmptyF(BS)}
    [] Family = "none"  -> {NoneF(BS)}
    [] Family = "chain" -> {[kind |-> "chain", bs |-> BS, fs |-> fs] : fs \in UNION {SeqsOfLen(At, L) : L \in 1..Depth}}
    [] Family = "seq"   -> {[kind |-> "seq", bs |-> BS, fs |-> fs, names |-> SubSeq(SeqNames, 1, Len(fs))] : fs \in UNION {SeqsOfLen(At, L) : L \in 0..Depth}}
    [] Family = "tuple" -> {[kind |-> "tuple", fs |-> <<a, b>>] : a \in AtomsAt(nb, 1, 1), b \in AtomsAt(nb + 1, BS, 2)}
    [] Family = "power" -> {[kind |-> "power", fs |-> <<a, b>>] : a \in At1(1), b \in At1(2)}
    [] Family = "nest"  -> {[kind |-> "tuple", fs |-> <<[kind |-> "chain", bs |-> 1, fs |-> <<a, b>>], c>>] :
                              a \in At1(1), b \in At1(2), c \in AtomsAt(nb + 1, BS, 1)}
SizesOf(nb) ==
  CASE Family \in {"tuple", "nest"} -> <<nb, nb + 1>>
    [] Family = "power" -> <<nb, nb>>
    [] OTHER -> nb
InputOf(f, nb, dn) ==
  IF IsTuple(f)
  THEN [j \in 1..2 |-> [k \in 1..(SizesOf(nb)[j] * f.fs[j].bs) |-> dn * V0(k + 2 * j)]]
  ELSE [k \in 1..(nb * f.bs) |-> dn * V0(k)]

\* ---- the previous content of the target -----------------------------------------------------------------
\* an atom family: EVERY filter of the family over m blocks, with the other value palette (other values, other normals,
\* other weights and prescribed mean, the other ignore_nans flag);
\* a slot of a composed filter: an atom of any kind that constrains EVERY block of an m-block vector (whatever survives the
\* call is visible on every entry the source leaves alone), or nothing
OPal == 3 - Pal
OPalAt(j) == ((j + OPal) % 2) + 1
All(m) == 0..(m - 1)
TAtomsAt(m, bs, j) ==
  {UnitOf(bs, All(m), OPalAt(j)), NoneF(bs)}
  \cup (IF bs >= 2 THEN {SlipOf(bs, All(m), OPalAt(j))} ELSE {})
  \cup (IF m >= 1 THEN {MeanOf(m, bs, OPal)} ELSE {MeanEmptyF(bs)})
\* names of the entries of the target sequence: the same ids in the same / another order, other ids, ids that are prefixes
TNamesOf(L) ==
  CASE L = 0 -> {<<>>}
    [] L = 1 -> {<<"a">>, <<"x">>}
    [] L = 2 -> {<<"a", "ab">>, <<"ab", "a">>, <<"x", "a">>, <<"x", "y">>}
    [] L = 3 -> {<<"a", "ab", "abc">>, <<"abc", "x", "a">>, <<"x", "ab", "y">>}
TargetsOf(s, m) ==
  LET At(j) == TAtomsAt(m, BS, j)
      At1(j) == TAtomsAt(m, 1, j)
  IN
  CASE Family = "unit"  -> {UnitOf(BS, I, OPal) : I \in Subsets(m)}
    [] Family = "slip"  -> {SlipOf(BS, I, OPal) : I \in Subsets(m)}
    [] Family = "mean"  -> (IF m >= 1 THEN {MeanOf(m, BS, OPal)} ELSE {}) \cup {MeanEmptyF(BS)}
    [] Family = "none"  -> {NoneF(BS)}
    [] Family = "chain" -> {[kind |-> "chain", bs |-> BS, fs |-> fs] : fs \in SeqsOfLen(At, Len(s.fs))}      \* the length is part of the type
    [] Family = "seq"   -> UNION {{[kind |-> "seq", bs |-> BS, fs |-> fs, names |-> nm] : fs \in SeqsOfLen(At, L), nm \in TNamesOf(L)} : L \in 0..Depth}
    [] Family = "tuple" -> {[kind |-> "tuple", fs |-> <<a, b>>] : a \in TAtomsAt(m, 1, 1), b \in TAtomsAt(m + 1, BS, 2)}
    [] Family = "power" -> {[kind |-> "power", fs |-> <<a, b>>] : a \in At1(1), b \in At1(2)}
    [] Family = "nest"  -> {[kind |-> "tuple", fs |-> <<[kind |-> "chain", bs |-> 1, fs |-> <<a, b>>], c>>] :
                              a \in At1(1), b \in At1(2), c \in TAtomsAt(m + 1, BS, 1)}
TSizes(nb) == CASE TSz = 0 -> {nb} [] TSz = 1 -> {nb, nb + 1} [] OTHER -> 0..MaxN

Init ==
  /\ ph = "init"
  /\ \E nb \in MinN..MaxN : \E s \in SourcesOf(nb) : \E o \in OpSel : \E m \in TSizes(nb) : \E t \in TargetsOf(s, m) :
       /\ S = s /\ T0 = t /\ F = t /\ op = o /\ n = SizesOf(nb)
       /\ nT = (CASE Family \in {"tuple", "nest"} -> <<m, m + 1>> [] Family = "power" -> <<m, m>> [] OTHER -> m)
       /\ den = DivOf(s) * DivOf(s)
       /\ v0 = InputOf(s, nb, DivOf(s) * DivOf(s))
  /\ io \in {i \in IOs \cap IntoOps : IntoOffered(S, i, IOs \cap AllCaps)}
  /\ r1 = [v |-> <<>>, ex |-> TRUE, mx |-> 0] /\ r2 = [v |-> <<>>, ex |-> TRUE, mx |-> 0]

\* the public call T.clone(S, mode) / T.convert(S) / T = std::move(S) on the object that holds T0
IntoCall    == ph = "init" /\ ph' = "live"  /\ F' = Into(T0, S, io)          /\ UNCHANGED <<T0, nT, S, io, op, n, den, v0, r1, r2>>
\* the public call T.filter_<op>(v), twice
FilterOnce  == ph = "live" /\ ph' = "once"  /\ r1' = Apply(F, op, den, v0)   /\ UNCHANGED <<T0, nT, S, io, F, op, n, den, v0, r2>>
FilterTwice == ph = "once" /\ ph' = "twice" /\ r2' = Apply(F, op, den, r1.v) /\ UNCHANGED <<T0, nT, S, io, F, op, n, den, v0, r1>>
Next == IntoCall \/ FilterOnce \/ FilterTwice
Spec == Init /\ [][Next]_vars

\* ---- the property, decided on the denotation ------------------------------------------------------------
RECURSIVE SameShape(_, _)
SameShape(a, b) ==      \* the two values can be held by objects of the same class
  CASE IsAtom(a) -> IsAtom(b)               \* (slots of the composed filters hold any atom; the atom families are uniform by construction)
    [] a.kind = "seq" -> b.kind = "seq"
    [] OTHER -> a.kind = b.kind /\ Len(a.fs) = Len(b.fs) /\ \A j \in 1..Len(a.fs) : SameShape(a.fs[j], b.fs[j])
FilterOK == /\ WellFormed(S, n) /\ WellFormed(T0, nT) /\ SameShape(T0, S)
            /\ IOs \subseteq (IntoOps \cup AllCaps) /\ OpSel \subseteq Ops
\* nothing of the previous content is left over: the target has the value of the source, and imposes - for every operation -
\* what the source imposes
IntoLaw == /\ ph # "init" => F = CopyOf(S)
           /\ ph = "live" => \A o \in Ops : Apply(F, o, den, v0).v = Apply(S, o, den, v0).v
ExactDomain == r1.ex /\ r2.ex
\* the clauses of the property for the vectors filtered by the TARGET, in terms of the SOURCE
ConstraintHolds ==
  /\ ph \in {"once", "twice"} => Constraint(S, op, den, n, r1.v)
  /\ ph = "twice" => Constraint(S, op, den, n, r2.v)
ComplementHolds ==
  /\ ph \in {"once", "twice"} => Complement(S, op, n, v0, r1.v)
  /\ ph = "twice" => Complement(S, op, n, r1.v, r2.v)
IdempotentHolds == ph = "twice" /\ IdemGuaranteed(S, n) => r2.v = r1.v

\* ---- emission ------------------------------------------------------------------------------------------
FloatSafe == Max(r1.mx, r2.mx) < (4194304 \div MaxDiv(F))
Emit == ph = "twice" =>
  PrintT(ToJson([part |-> "into", fam |-> Family, io |-> io, t0 |-> T0, nt |-> nT, f |-> S, op |-> op, n |-> n, den |-> den,
                 v0 |-> v0, v1 |-> r1.v, v2 |-> r2.v, idem |-> IdemGuaranteed(S, n), f32 |-> FloatSafe, differs |-> (T0 # S)]))
=============================================================================
