------------------------------- MODULE RefCell -------------------------------
(* Reference cells of FEAT3 (C10/C12): simplex and hypercube of dimension 1..3.            *)
(*                                                                                        *)
(* The local numbering is transcribed from the DOCUMENTATION of the shapes                 *)
(* (doxy_in/mesh_format.dox, section "Topology Ordering", kernel/shape.hpp), not from the  *)
(* implementation table kernel/geometry/intern/face_index_mapping.hpp (that table is only  *)
(* cross-checked against this module by checks/C10.py, case kind "refcell"):               *)
(*   hypercube: the binary digits of a local vertex index are its unit-cube coordinates    *)
(*      (bit 0 = X, bit 1 = Y, bit 2 = Z); edges: first all edges parallel to X sorted by   *)
(*      their YZ-coords, then parallel to Y sorted by XZ, then parallel to Z sorted by XY;  *)
(*      faces: first parallel to the XY-plane sorted by Z, then XZ sorted by Y, then YZ     *)
(*      sorted by X; the vertices of a face are listed in ascending local index (zig-zag). *)
(*   triangle: counter-clockwise, edge k opposite to vertex k: (1,2) (2,0) (0,1)           *)
(*   tetrahedron: edges (0,1)(0,2)(0,3)(1,2)(1,3)(2,3); face k opposite to vertex k:        *)
(*      (1,2,3) (0,2,3) (0,1,3) (0,1,2)                                                     *)
(* All local indices are 0-based VALUES held in 1-based TLA+ tuples.                       *)
EXTENDS Integers, Sequences, FiniteSets

Families == {"simplex", "hypercube"}

Pow2(n) == IF n = 0 THEN 1 ELSE IF n = 1 THEN 2 ELSE IF n = 2 THEN 4 ELSE IF n = 3 THEN 8 ELSE 16
Bit(v, a) == (v \div Pow2(a)) % 2

\* number of vertices of a d-dimensional cell
NVerts(fam, d) == IF fam = "hypercube" THEN Pow2(d) ELSE d + 1

\* ascending tuple of a finite set of naturals
RECURSIVE SortedTuple(_)
SortedTuple(S) == IF S = {} THEN <<>> ELSE
                    LET m == CHOOSE x \in S : \A y \in S : x <= y IN <<m>> \o SortedTuple(S \ {m})
TRange(t) == {t[i] : i \in 1..Len(t)}

\* ---- hypercube faces, from the documented ordering rule -------------------------------------
\* groups of e-faces of the d-cube by their set of free axes, in lexicographic order
FreeSets(d, e) ==
  IF e = d THEN << 0..(d-1) >>
  ELSE IF e = 0 THEN << {} >>
  ELSE IF d = 2 /\ e = 1 THEN << {0}, {1} >>
  ELSE IF d = 3 /\ e = 1 THEN << {0}, {1}, {2} >>
  ELSE IF d = 3 /\ e = 2 THEN << {0, 1}, {0, 2}, {1, 2} >>
  ELSE << >>
\* k-th e-face of the d-cube: group g = k div 2^(d-e); j = k mod 2^(d-e) encodes the coordinates on the
\* fixed axes (lowest fixed axis = lowest digit: "sorted by their YZ-coords")
CubeFaceVerts(d, e, k) ==
  LET m == d - e
      g == k \div Pow2(m)
      j == k % Pow2(m)
      free == FreeSets(d, e)[g + 1]
      fixed == SortedTuple((0..(d-1)) \ free)
  IN SortedTuple({v \in 0..(Pow2(d)-1) : \A i \in 1..m : Bit(v, fixed[i]) = Bit(j, i - 1)})

\* ---- simplex faces, from the documented tables -------------------------------------------------
SimplexFaceVerts(d, e, k) ==
  IF e = d THEN [i \in 1..(d+1) |-> i - 1]
  ELSE IF e = 0 THEN <<k>>
  ELSE IF d = 2 /\ e = 1 THEN << <<1, 2>>, <<2, 0>>, <<0, 1>> >>[k + 1]
  ELSE IF d = 3 /\ e = 1 THEN << <<0, 1>>, <<0, 2>>, <<0, 3>>, <<1, 2>>, <<1, 3>>, <<2, 3>> >>[k + 1]
  ELSE IF d = 3 /\ e = 2 THEN << <<1, 2, 3>>, <<0, 2, 3>>, <<0, 1, 3>>, <<0, 1, 2>> >>[k + 1]
  ELSE << >>

Binom(n, k) == IF k = 0 \/ k = n THEN 1 ELSE IF k = 1 \/ k = n - 1 THEN n ELSE IF n = 4 /\ k = 2 THEN 6 ELSE 0
\* number of e-faces of a d-cell
NFaces(fam, d, e) == IF fam = "hypercube" THEN Pow2(d - e) * Binom(d, e) ELSE Binom(d + 1, e + 1)

\* local vertices (tuple) of the k-th local e-face of a d-cell, k = 0..NFaces-1
FaceVerts(fam, d, e, k) == IF fam = "hypercube" THEN CubeFaceVerts(d, e, k) ELSE SimplexFaceVerts(d, e, k)

\* the table as a constant (tuple over k) -- evaluated once
FaceTable(fam, d, e) == [k \in 1..NFaces(fam, d, e) |-> FaceVerts(fam, d, e, k - 1)]

\* ---- reference coordinates (integers) --------------------------------------------------------------
RefPoint(fam, d, v) ==
  IF fam = "hypercube" THEN [a \in 1..d |-> Bit(v, a - 1)]
  ELSE [a \in 1..d |-> IF v = a THEN 1 ELSE 0]
RefCoords(fam, d) == [v \in 1..NVerts(fam, d) |-> RefPoint(fam, d, v - 1)]

\* ---- integer geometry of one cell given as a tuple P of points (1-based, local vertex k at P[k+1]) ---
Sub(p, q) == [a \in 1..Len(p) |-> p[a] - q[a]]
Add(p, q) == [a \in 1..Len(p) |-> p[a] + q[a]]
Scal(c, p) == [a \in 1..Len(p) |-> c * p[a]]
Det2(u, v) == u[1] * v[2] - u[2] * v[1]
Det3(u, v, w) == u[1] * (v[2] * w[3] - v[3] * w[2]) - u[2] * (v[1] * w[3] - v[3] * w[1]) + u[3] * (v[1] * w[2] - v[2] * w[1])
\* Jacobian determinant of the reference map at local vertex 0 (columns = images of the unit vectors)
JacDet0(fam, d, P) ==
  IF d = 1 THEN P[2][1] - P[1][1]
  ELSE IF fam = "hypercube" THEN
    IF d = 2 THEN Det2(Sub(P[2], P[1]), Sub(P[3], P[1]))
             ELSE Det3(Sub(P[2], P[1]), Sub(P[3], P[1]), Sub(P[5], P[1]))
  ELSE
    IF d = 2 THEN Det2(Sub(P[2], P[1]), Sub(P[3], P[1]))
             ELSE Det3(Sub(P[2], P[1]), Sub(P[3], P[1]), Sub(P[4], P[1]))
\* Jacobian determinant of a hypercube cell at every corner c (columns = edges leaving c along X,Y,Z, with the
\* sign that makes it the Jacobian of the multilinear map there); all positive <=> the map is orientation preserving
\* at every corner
CubeJacDetAt(d, P, c) ==
  LET nb(a) == IF Bit(c, a) = 0 THEN c + Pow2(a) ELSE c - Pow2(a)
      col(a) == IF Bit(c, a) = 0 THEN Sub(P[nb(a) + 1], P[c + 1]) ELSE Sub(P[c + 1], P[nb(a) + 1])
  IN IF d = 2 THEN Det2(col(0), col(1)) ELSE Det3(col(0), col(1), col(2))

\* Jacobian determinant of the multilinear map of a hypercube cell at the half-lattice point t (t[a+1] in {0,1,2} stands
\* for the reference coordinate 0, 1/2, 1 on axis a); every column is scaled by 2^(d-1), so the value is
\* 2^(d(d-1)) * det DPhi(t/2).  The corners of the 2^d children of a regular refinement are exactly these points, hence:
\* the children are positively oriented at all their corners  <=>  the value is positive for all t.
CubeJacHalf(d, P, t) ==
  LET wgt(v, a) == LET f(b) == IF b = a \/ b >= d THEN 1 ELSE (IF Bit(v, b) = 1 THEN t[b + 1] ELSE 2 - t[b + 1])
                   IN f(0) * f(1) * f(2)
      zero == [x \in 1..d |-> 0]
      term(v, a) == IF Bit(v, a) = 1 THEN zero ELSE Scal(wgt(v, a), Sub(P[v + Pow2(a) + 1], P[v + 1]))
      col(a) == IF d = 2 THEN Add(Add(term(0, a), term(1, a)), Add(term(2, a), term(3, a)))
                ELSE Add(Add(Add(term(0, a), term(1, a)), Add(term(2, a), term(3, a))),
                         Add(Add(term(4, a), term(5, a)), Add(term(6, a), term(7, a))))
  IN IF d = 2 THEN Det2(col(0), col(1)) ELSE Det3(col(0), col(1), col(2))
HalfLattice(d) == [1..d -> 0..2]
CornerLattice(d) == [1..d -> {0, 2}]
\* a cell is valid if its reference map preserves orientation (simplex: constant Jacobian; hypercube: at the half lattice)
CellValid(fam, d, P) == IF fam = "simplex" THEN JacDet0(fam, d, P) > 0 ELSE \A t \in HalfLattice(d) : CubeJacHalf(d, P, t) > 0
\* positive orientation at every corner (at a corner the half-lattice value is 2^(d(d-1)) times CubeJacDetAt, see RefCellSanity)
CellPositive(fam, d, P) == IF fam = "simplex" THEN JacDet0(fam, d, P) > 0 ELSE \A c \in 0..(Pow2(d) - 1) : CubeJacDetAt(d, P, c) > 0

\* scaled volume of a cell: simplex d! * vol (2A, 6V); quadrilateral 2A (shoelace, exact for any
\* straight-edged quad); hexahedron 12V, exact for the trilinear cell: V = 1/3 * sum over the six bilinear
\* faces of the outward flux of x, and for a bilinear patch a + uB + vC + uvD the flux integral equals
\* det[a,B,C] + 1/2 det[a,B,D] + 1/2 det[a,D,C] - 1/4 det[B,C,D].  Points are taken relative to P[1].
PatchFlux4(a, b, c, dd) ==   \* 4 * flux through the patch with corners a=(0,0) b=(1,0) c=(0,1) dd=(1,1)
  LET B == Sub(b, a)  C == Sub(c, a)  D == Sub(Sub(dd, b), Sub(c, a))
  IN 4 * Det3(a, B, C) + 2 * Det3(a, B, D) + 2 * Det3(a, D, C) - Det3(B, C, D)
CellVolScaled(fam, d, P) ==
  IF d = 1 THEN P[2][1] - P[1][1]
  ELSE IF fam = "simplex" THEN JacDet0(fam, d, P)
  ELSE IF d = 2 THEN Det2(Sub(P[2], P[1]), Sub(P[4], P[1])) + Det2(Sub(P[4], P[1]), Sub(P[3], P[1]))
  ELSE LET Q == [k \in 1..8 |-> Sub(P[k], P[1])]
           f(k) == FaceVerts("hypercube", 3, 2, k)
           \* outward normal orientation: faces 0 (z=0), 3 (y=1), 4 (x=0) have u x v pointing inwards/outwards:
           \* face k with tuple (p0,p1,p2,p3): u = p1-p0, v = p2-p0.  z=0: u=X,v=Y -> +Z = inward (sign -1);
           \* z=1: +Z outward (+1); y=0: u=X, v=Z -> X x Z = -Y outward (+1); y=1: -Y inward (-1);
           \* x=0: u=Y, v=Z -> +X inward (-1); x=1: outward (+1)
           sgn == << -1, 1, 1, -1, -1, 1 >>
           flux(k) == PatchFlux4(Q[f(k)[1] + 1], Q[f(k)[2] + 1], Q[f(k)[3] + 1], Q[f(k)[4] + 1])
       IN sgn[1] * flux(0) + sgn[2] * flux(1) + sgn[3] * flux(2) + sgn[4] * flux(3) + sgn[5] * flux(4) + sgn[6] * flux(5)
\* the unit of CellVolScaled: true volume = CellVolScaled / VolUnit
VolUnit(fam, d) == IF d = 1 THEN 1 ELSE IF fam = "simplex" THEN (IF d = 2 THEN 2 ELSE 6) ELSE (IF d = 2 THEN 2 ELSE 12)

\* ---- symmetry groups ------------------------------------------------------------------------------------
\* a symmetry is a tuple s over the local vertices: local vertex k of the transformed cell is the old local
\* vertex s[k+1].  Hypercube: axis permutation + flips (constructive); simplex: all permutations.
Perms(n) == {p \in [1..n -> 0..(n-1)] : \A i, j \in 1..n : i # j => p[i] # p[j]}
AxisPerms(d) == {p \in [0..(d-1) -> 0..(d-1)] : \A i, j \in 0..(d-1) : i # j => p[i] # p[j]}
CubeSym(d, sigma, m) ==
  [k \in 1..Pow2(d) |-> LET v == k - 1
                            term(a) == ((Bit(v, a) + Bit(m, a)) % 2) * Pow2(sigma[a])
                        IN term(0) + (IF d > 1 THEN term(1) ELSE 0) + (IF d > 2 THEN term(2) ELSE 0)]
Aut(fam, d) ==
  IF fam = "hypercube" THEN {CubeSym(d, sg, m) : sg \in AxisPerms(d), m \in 0..(Pow2(d) - 1)}
  ELSE Perms(d + 1)
\* declarative characterisation used as a sanity theorem (RefCellSanity): a vertex permutation is a symmetry iff it
\* maps every edge onto an edge
EdgeSets(fam, d) == {TRange(FaceVerts(fam, d, 1, k)) : k \in 0..(NFaces(fam, d, 1) - 1)}
IsSym(fam, d, s) == \A E \in EdgeSets(fam, d) : {s[v + 1] : v \in E} \in EdgeSets(fam, d)
\* orientation of a symmetry = sign of the Jacobian of the re-numbered reference cell
SymPoints(fam, d, s) == [k \in 1..NVerts(fam, d) |-> RefPoint(fam, d, s[k])]
SymSign(fam, d, s) == IF JacDet0(fam, d, SymPoints(fam, d, s)) > 0 THEN 1 ELSE -1
Rot(fam, d) == {s \in Aut(fam, d) : SymSign(fam, d, s) = 1}
Refl(fam, d) == {s \in Aut(fam, d) : SymSign(fam, d, s) = -1}
Compose(t, s) == [k \in 1..Len(s) |-> t[s[k] + 1]]       \* tuple t re-numbered by symmetry s

\* two tuples describe the same e-dimensional entity (same vertex set, and - for quadrilaterals, where not every
\* permutation of the vertices is a valid quadrilateral - the same cyclic structure)
SameEntity(fam, e, t1, t2) ==
  /\ TRange(t1) = TRange(t2)
  /\ (fam = "hypercube" /\ e >= 2) => \E s \in Aut(fam, e) : t2 = Compose(t1, s)

\* ---- neighbour across a facet (integer points) ----------------------------------------------------------------
\* image of the cell with points P under an orientation-reversing affine-like involution that fixes the local facet f:
\* hypercube: point reflection of every vertex through its projection onto the facet; simplex: the vertex opposite
\* to the facet goes to  sum(facet vertices) - (d-1) * itself
RECURSIVE SumPts(_, _, _)
SumPts(P, t, n) == IF n = 1 THEN P[t[1] + 1] ELSE Add(P[t[n] + 1], SumPts(P, t, n - 1))
MirrorCell(fam, d, P, f) ==
  IF fam = "hypercube" THEN
    LET fs == TRange(FaceVerts(fam, d, d - 1, f))
    IN [k \in 1..Pow2(d) |-> LET v == k - 1
                                 proj == IF v \in fs THEN v
                                         ELSE CHOOSE w \in fs : \E a \in 0..(d - 1) :
                                                \/ (Bit(v, a) = 0 /\ w = v + Pow2(a))
                                                \/ (Bit(v, a) = 1 /\ w = v - Pow2(a))
                             IN Sub(Scal(2, P[proj + 1]), P[k])]
  ELSE
    LET fv == FaceVerts(fam, d, d - 1, f) IN
    [k \in 1..(d + 1) |-> IF (k - 1) \in TRange(fv) THEN P[k]
                          ELSE Sub(SumPts(P, fv, d), Scal(d - 1, P[k]))]

\* ---- refinement: number of fine e-entities whose parent is one coarse d-entity (2-level regular refinement) ----
\* edge: 1 midpoint, 2 edges.  triangle: 3 inner edges, 4 triangles.  quadrilateral: 1 centre, 4 edges, 4 quads.
\* tetrahedron (FEAT's documented scheme, standard_refinement_traits.hpp: the inner octahedron is split through a new
\* centre vertex): 1 centre, 6 inner edges, 16 inner triangles, 12 tetrahedra.  hexahedron: 1 centre, 6 edges, 12 quads,
\* 8 hexas.  (Both schemes satisfy the Euler relation  sum (-1)^e NumChildren(d,e) = (-1)^d, see RefCellSanity.)
NumChildren(fam, d, e) ==
  IF d = 0 THEN (IF e = 0 THEN 1 ELSE 0)
  ELSE IF d = 1 THEN (IF e = 0 THEN 1 ELSE IF e = 1 THEN 2 ELSE 0)
  ELSE IF fam = "hypercube" THEN
    IF d = 2 THEN (IF e = 0 THEN 1 ELSE IF e = 1 THEN 4 ELSE IF e = 2 THEN 4 ELSE 0)
             ELSE (IF e = 0 THEN 1 ELSE IF e = 1 THEN 6 ELSE IF e = 2 THEN 12 ELSE IF e = 3 THEN 8 ELSE 0)
  ELSE
    IF d = 2 THEN (IF e = 0 THEN 0 ELSE IF e = 1 THEN 3 ELSE IF e = 2 THEN 4 ELSE 0)
             ELSE (IF e = 0 THEN 1 ELSE IF e = 1 THEN 6 ELSE IF e = 2 THEN 16 ELSE IF e = 3 THEN 12 ELSE 0)
\* does the refinement put a new vertex into the barycentre of a d-entity?
HasMidVertex(fam, d) == NumChildren(fam, d, 0) = 1

=============================================================================
