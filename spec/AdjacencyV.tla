----------------------------- MODULE AdjacencyV -----------------------------
(* C19, validation of recorded results of the real adjacency classes        *)
(* (direction V).  The file named by the environment variable TRACE holds   *)
(* one JSON record per executed call:  the input exactly as it was given to *)
(* the class (from AdjacencyUG.tla or from the seeded random driver) and    *)
(* the observed result `out`.  Every record is judged by the contract of    *)
(* Adjacency.tla / Rel.tla; the names of the violated clauses are printed.  *)
(*    coloring   ColoringContract   (range, proper, greedy-along-order, partition graph)  *)
(*    cmk        CmkContract        (bijection + swap array, component blocks with BFS-level *)
(*                                   monotonicity, root rule, level sort rule, reverse)     *)
(*    randperm   PermObjValid       (random constructor: some bijection, arrays consistent) *)
(*    render     LawRender          (bag semantics of every render type, large graphs)      *)
(*    render2    LawRender2         (composition)                                           *)
(*    permute    relabelling law of Graph(g, domain_perm, image_perm)                       *)
EXTENDS Adjacency, Json, TLC, IOUtils

Records == ndJsonDeserialize(IOEnv.TRACE)

VARIABLE k
Init == k = 0
Next == k < Len(Records) /\ k' = k + 1
Spec == Init /\ [][Next]_k

Failing(names, oks) == SelectSeq([i \in 1..Len(names) |-> IF oks[i] THEN "" ELSE names[i]], LAMBDA s : s # "")

Clauses(r) ==
  CASE r.op = "coloring" ->
         IF ~ColorRangeOk(r.g, r.out.col, r.out.ncol) THEN <<"range">>
         ELSE Failing(<<"proper", "greedy_along_order", "partition_graph">>,
                      \* (the order clause is documented for the constructor taking an order only)
                      <<ProperColoring(r.g, r.out.col), ~r.call.ordered \/ GreedyAlong(r.g, r.out.col, r.call.order),
                        PartitionOk(r.g, r.out.col, r.out.ncol, r.out.pg)>>)
    [] r.op = "cmk" ->
         IF ~(Len(r.out.perm) = r.g.nd /\ Len(r.out.swap) = r.g.nd /\ IsPerm0(r.out.perm)) THEN <<"bijection">>
         ELSE IF ~PermObjValid(r.out) THEN <<"swap_array">>
         ELSE IF ~CmkBlocksOk(r.g, r.out.perm, 1, r.call.reverse, r.call.rt, r.call.st) THEN <<"bfs_blocks">> ELSE <<>>
    [] r.op = "randperm" ->
         IF Len(r.out.perm) = r.n /\ PermObjValid(r.out) THEN <<>> ELSE <<"permobj">>
    [] r.op = "render"  -> IF LawRender(r.t, r.g, r.out) THEN <<>> ELSE <<"render_law">>
    [] r.op = "render2" -> IF LawRender2(r.t, r.g, r.g2, r.out) THEN <<>> ELSE <<"render2_law">>
    [] r.op = "permute" ->
         IF /\ GraphValid(r.out) /\ r.out.nd = r.g.nd /\ r.out.ni = r.g.ni
            /\ \A i \in 0..(r.g.nd - 1), j \in 0..(r.g.ni - 1) : Mult(r.out, i, r.ip[j + 1]) = Mult(r.g, r.dp[i + 1], j)
         THEN <<>> ELSE <<"permute_law">>

\* always true; prints the verdict of every rejected record
Report == k > 0 => LET bad == Clauses(Records[k]) IN
                   bad = <<>> \/ PrintT(ToJson([id |-> Records[k].id, failed |-> bad]))
\* (the check verifies that TLC visited one state per record, i.e. every record was judged)
=============================================================================
