\* manual run of the C16x domain specification on two small meshes (the check generates its own configurations)
SPECIFICATION Spec
CONSTANTS Tier = 0
 MeshSel = {"q11", "s111"}
 NVariants = 2
 Kinds = {"err", "verr", "unit", "slip", "mean", "bop", "lb", "info"}
INVARIANTS MomLaw StrainLaw Emit
CHECK_DEADLOCK FALSE
