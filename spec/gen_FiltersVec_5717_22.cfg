SPECIFICATION Spec
CONSTANTS Family = "chain" MinN = 0 MaxN = 2 BS = 3 Depth = 2 Pal = 2
INVARIANTS FilterOK ExactDomain ConstraintHolds ComplementHolds IdempotentHolds Emit
CHECK_DEADLOCK FALSE
