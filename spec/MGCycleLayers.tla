----------------------------- MODULE MGCycleLayers -----------------------------
(* C09 (G, multigrid over process layers): "... performs exactly the documented cycle ... using the given      *)
(* transfer operators" on a LAYERED parallel hierarchy (recursive partitioning): the finest level lives on all  *)
(* NR processes, the coarser levels on fewer processes.                                                         *)
(*                                                                                                              *)
(*   level 0 (Dim 3)  on every rank r, patch Patch(0, r)                                                        *)
(*   levels 1 (Dim 2) and 2 (Dim 3)  on the PARENTS only: the ranks are grouped into groups of consecutive      *)
(*                    ranks, the first rank of a group is its parent, the other ranks of the group are GHOSTS   *)
(*                    on the coarser levels (hierarchy with size_physical = 1 < size_virtual = 3)               *)
(*   transfer 0 -> 1  Global::Transfer over a Global::Muxer: local product on the child patch cd[r] of every    *)
(*                    rank, join = sum over the children of a group on the parent (ghosts: rest_send /          *)
(*                    prol_recv), then the synchronisation over the coarse gate BETWEEN THE PARENTS             *)
(*   transfer 1 -> 2  Global::Transfer without muxer on the communicator of the parents                         *)
(*                                                                                                              *)
(* Patches overlap; all vectors / matrices are distributed in the FEAT way: a type-1 vector holds the global    *)
(* value at every dof of the patch, type-0 local matrices sum up (over the ranks) to the global matrix.  The    *)
(* global operators are the Z_p level data of MGCycle.tla; the local matrices are a splitting of them           *)
(* (LocMat): entry (i, j) is distributed over the ranks that hold both dofs, as residues that sum up to the     *)
(* entry modulo p.                                                                                              *)
(*                                                                                                              *)
(* Contract: on every rank, at every dof of its finest patch, the correction returned by MultiGrid::apply is    *)
(* the correction of the single-process cycle, Apply of MGCycle.tla with the global operators; the smoother /   *)
(* coarse solver calls of a rank are those of the documented cycle on the levels the rank holds.                *)
(* LawSplit states that the distributed data IS a distribution of the global operators.                         *)
EXTENDS MGCycle, Json

CONSTANTS NR,      \* number of ranks
          FSELS,   \* fine patch families explored
          PSELS,   \* parent patch families explored
          CSELS,   \* child patch families explored
          MING, MAXG   \* number of groups (= parents)

Ranks == 0..(NR - 1)
NLv == 3
Dofs(l) == 1..Dim(l)

VARIABLES cut,    \* set of ranks that start a new group (besides rank 0)
          fsel, psel, csel
vars == <<cut, fsel, psel, csel>>

Grp(r) == Cardinality({c \in cut : c <= r})
Members(g) == {r \in Ranks : Grp(r) = g}
Groups == {Grp(r) : r \in Ranks}
MinOf(S) == CHOOSE x \in S : \A y \in S : x <= y
Parent(g) == MinOf(Members(g))
IsParent(r) == Parent(Grp(r)) = r
Parents == {r \in Ranks : IsParent(r)}
\* ranks that hold level l
OnLevel(l) == IF l = 0 THEN Ranks ELSE Parents

\* ---- patches -----------------------------------------------------------------------------------------------------
\* level 0 (by rank):       0 = every rank holds every dof;  1 = ranks 0, 1 hold every dof, the others {1, 2};
\*                          2 = rank 0 holds every dof, rank 1 {2, 3}, the others {2};  3 = a ring (dofs r, r+1 modulo 3)
\* levels 1, 2 (by group):  0 = every parent holds every dof;  1 = parent 0 holds every dof, the others a ring part;
\*                          2 = parent 0 holds every dof, odd parents the first dofs, even parents the last dof
Patch(l, r) ==
  IF l = 0 THEN CASE fsel = 0 -> Dofs(0)
                  [] fsel = 1 -> IF r < 2 THEN Dofs(0) ELSE {1, 2}
                  [] fsel = 2 -> IF r = 0 THEN Dofs(0) ELSE IF r = 1 THEN {2, 3} ELSE {2}
                  [] OTHER    -> {1 + (r % 3), 1 + ((r + 1) % 3)}
  ELSE IF ~IsParent(r) THEN {}
  ELSE LET g == Grp(r) IN
       IF psel = 0 \/ g = 0 THEN Dofs(l)
       ELSE IF psel = 1 THEN (IF l = 1 THEN {1 + (g % 2)} ELSE {1 + (g % 3), 1 + ((g + 1) % 3)})
       ELSE IF g % 2 = 1 THEN 1..(Dim(l) - 1) ELSE {Dim(l)}
\* child patch of rank r on level 1 (subset of its parent's patch): 0 = the parent patch; 1 = ghosts hold one dof of it
ParentPatch(r) == Patch(1, Parent(Grp(r)))
Child(r) ==
  IF csel = 0 \/ IsParent(r) THEN ParentPatch(r)
  ELSE LET one == ParentPatch(r) \cap {1 + (r % 2)} IN IF one = {} THEN ParentPatch(r) ELSE one

\* every entry of every global operator has a rank that holds both of its dofs
HoldersA(l, i, j) == {r \in OnLevel(l) : i \in Patch(l, r) /\ j \in Patch(l, r)}
Holders01(i, j) == {r \in Ranks : i \in Patch(0, r) /\ j \in Child(r)}               \* fine dof i, coarse dof j
Holders12(i, j) == {r \in Parents : i \in Patch(1, r) /\ j \in Patch(2, r)}           \* level-1 dof i, level-2 dof j
\* Global::Matrix::apply(r, x, y, alpha) converts y from type 1 to type 0, i.e. divides by the number of ranks that hold
\* the dof: the exact-arithmetic principle wants these multiplicities to be powers of two
Mult(l, i) == Cardinality({r \in OnLevel(l) : i \in Patch(l, r)})
Covered ==
  /\ \A l \in 0..(NLv - 1) : \A i \in Dofs(l) : Mult(l, i) \in {1, 2, 4, 8}
  /\ \A l \in 0..(NLv - 1) : \A i \in Dofs(l), j \in Dofs(l) : HoldersA(l, i, j) # {}
  /\ \A i \in Dofs(0), j \in Dofs(1) : Holders01(i, j) # {}
  /\ \A i \in Dofs(1), j \in Dofs(2) : Holders12(i, j) # {}

Init == /\ cut \in SUBSET (1..(NR - 1))
        /\ Cardinality(cut) + 1 \in MING..MAXG
        /\ fsel \in FSELS /\ psel \in PSELS /\ csel \in CSELS
        /\ Covered
Next == UNCHANGED vars
Spec == Init /\ [][Next]_vars

\* ---- splitting of a global entry over its holders --------------------------------------------------------------------
FSX == INSTANCE FiniteSetsExt
SumSet(S, f(_)) == FSX!FoldSet(LAMBDA x, acc : (f(x) + acc) % P, 0, S)
\* share of rank r of the entry with value v: the first holder takes the rest
Part(tag, l, i, j, r) == Val(20 + tag, 8 * l + r, i, j)
Share(tag, l, i, j, r, H, v) ==
  IF r \notin H THEN 0
  ELSE IF r # MinOf(H) THEN Part(tag, l, i, j, r)
  ELSE (v - SumSet(H \ {r}, LAMBDA s : Part(tag, l, i, j, s))) % P

Sorted(S) == SeqX!SetToSortSeq(S, LAMBDA a, b : a < b)
Pos(S, d) == Cardinality({e \in S : e < d})          \* 0-based local index of dof d in patch S

\* local matrix (rows: dofs of RS, columns: dofs of CS in ascending order) of rank r for the global matrix M
LocMat(tag, l, r, RS, CS, M, H(_, _)) ==
  LET rs == Sorted(RS)  cs == Sorted(CS) IN
  [a \in 1..Len(rs) |-> [b \in 1..Len(cs) |-> Share(tag, l, rs[a], cs[b], r, H(rs[a], cs[b]), M[rs[a]][cs[b]])]]

LocA(l, r) == LocMat(1, l, r, Patch(l, r), Patch(l, r), Amat[l], LAMBDA i, j : HoldersA(l, i, j))
\* prolongation: rows fine, columns coarse; restriction / truncation: rows coarse, columns fine
Tmat0 == GenMat(10, 0, Dim(1), Dim(0))
LocP01(r) == LocMat(2, 0, r, Patch(0, r), Child(r), Pmat[0], LAMBDA i, j : Holders01(i, j))
LocR01(r) == LocMat(3, 0, r, Child(r), Patch(0, r), Rmat[0], LAMBDA j, i : Holders01(i, j))
LocT01(r) == LocMat(4, 0, r, Child(r), Patch(0, r), Tmat0, LAMBDA j, i : Holders01(i, j))
LocP12(r) == LocMat(5, 1, r, Patch(1, r), Patch(2, r), Pmat[1], LAMBDA i, j : Holders12(i, j))
LocR12(r) == LocMat(6, 1, r, Patch(2, r), Patch(1, r), Rmat[1], LAMBDA j, i : Holders12(i, j))

\* the local matrices sum up to the global operators (every entry, modulo p)
Entry(m, RS, CS, i, j) == IF i \in RS /\ j \in CS THEN m[Pos(RS, i) + 1][Pos(CS, j) + 1] ELSE 0
LawSplit ==
  /\ \A l \in 0..(NLv - 1) : \A i \in Dofs(l), j \in Dofs(l) :
       SumSet(OnLevel(l), LAMBDA r : Entry(LocA(l, r), Patch(l, r), Patch(l, r), i, j)) = Amat[l][i][j]
  /\ \A i \in Dofs(0), j \in Dofs(1) :
       /\ SumSet(Ranks, LAMBDA r : Entry(LocP01(r), Patch(0, r), Child(r), i, j)) = Pmat[0][i][j]
       /\ SumSet(Ranks, LAMBDA r : Entry(LocR01(r), Child(r), Patch(0, r), j, i)) = Rmat[0][j][i]
  /\ \A i \in Dofs(1), j \in Dofs(2) :
       /\ SumSet(Parents, LAMBDA r : Entry(LocP12(r), Patch(1, r), Patch(2, r), i, j)) = Pmat[1][i][j]
       /\ SumSet(Parents, LAMBDA r : Entry(LocR12(r), Patch(2, r), Patch(1, r), j, i)) = Rmat[1][j][i]
  \* child patches lie inside the parent patch; every parent patch dof of level 1 is held by a child
  /\ \A r \in Ranks : Child(r) \subseteq ParentPatch(r) /\ Child(r) # {}

\* ---- mirrors ------------------------------------------------------------------------------------------------------------
\* gate mirror of rank r towards rank s on level l: local indices (0-based) of the shared dofs, in ascending global order
Mir(l, r, s) == LET sh == Sorted(Patch(l, r) \cap Patch(l, s)) IN [k \in 1..Len(sh) |-> Pos(Patch(l, r), sh[k])]
\* muxer: the buffer of child m holds its child patch in ascending order; on the parent it is scattered to these indices
MuxP(m) == LET ch == Sorted(Child(m)) IN [k \in 1..Len(ch) |-> Pos(ParentPatch(m), ch[k])]

\* ---- expected results: the single-process cycle --------------------------------------------------------------------------
Flags(peak) == [l \in 0..MaxLevAll |-> [pre |-> TRUE, post |-> TRUE, peak |-> peak, cs |-> TRUE]]
AppCfgs == <<[cyc |-> 0, peak |-> TRUE], [cyc |-> 1, peak |-> TRUE], [cyc |-> 2, peak |-> TRUE], [cyc |-> 2, peak |-> FALSE]>>
MkLApp(a) ==
  LET c == [top |-> 0, crs |-> NLv - 1, adapt |-> 0, fl |-> Flags(a.peak), share |-> FALSE]
      r == Apply(c, a.cyc, Defect(1, 0))
  IN [cyc |-> a.cyc, peak |-> a.peak,
      calls |-> SelectSeq(Calls(Decl(a.cyc, 0, NLv - 1), c.fl), LAMBDA e : EvKind(e) \in {KPre, KPost, KPeak, KCoarse}),
      cor |-> r.cor]
ExpApps == [i \in 1..Len(AppCfgs) |-> MkLApp(AppCfgs[i])]

\* ---- emission ------------------------------------------------------------------------------------------------------------
PerRank(f(_)) == [q \in 1..NR |-> f(q - 1)]
LevelRec(l) ==
  [dofs |-> PerRank(LAMBDA r : Sorted(Patch(l, r))),
   mir  |-> PerRank(LAMBDA r : PerRank(LAMBDA s : IF s = r \/ r \notin OnLevel(l) \/ s \notin OnLevel(l) THEN <<>> ELSE Mir(l, r, s))),
   A    |-> PerRank(LAMBDA r : IF r \in OnLevel(l) THEN LocA(l, r) ELSE <<>>)]
Emit ==
  PrintT(ToJson(
    [kind |-> "layers", nr |-> NR, seed |-> Seed, p |-> P, fsel |-> fsel, psel |-> psel, csel |-> csel,
     grp |-> PerRank(Grp), isparent |-> PerRank(IsParent), parent |-> PerRank(LAMBDA r : Parent(Grp(r))),
     members |-> PerRank(LAMBDA r : Sorted(Members(Grp(r)))), nparents |-> Cardinality(Parents),
     dims |-> [l \in 1..NLv |-> Dim(l - 1)],
     lev |-> [l \in 1..NLv |-> LevelRec(l - 1)],
     cdofs |-> PerRank(LAMBDA r : Sorted(Child(r))), muxp |-> PerRank(MuxP),
     P01 |-> PerRank(LocP01), R01 |-> PerRank(LocR01), T01 |-> PerRank(LocT01),
     P12 |-> PerRank(LAMBDA r : IF IsParent(r) THEN LocP12(r) ELSE <<>>),
     R12 |-> PerRank(LAMBDA r : IF IsParent(r) THEN LocR12(r) ELSE <<>>),
     fkind |-> [l \in 1..NLv |-> FKinds[l - 1]], fp |-> [l \in 1..NLv |-> FP[l - 1]], fd |-> [l \in 1..NLv |-> FD[l - 1]],
     Spre |-> [l \in 1..NLv |-> Spre[l - 1]], Spost |-> [l \in 1..NLv |-> Spost[l - 1]], Speak |-> [l \in 1..NLv |-> Speak[l - 1]],
     C |-> [l \in 1..NLv |-> Csol[l - 1]],
     defect |-> Defect(1, 0), apps |-> ExpApps]))
=============================================================================
