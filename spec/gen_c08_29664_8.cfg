SPECIFICATION Spec
CONSTANTS NS = {1} Kinds = {"jacobi", "sor", "ssor", "poly", "ilu", "scale", "diagonal", "matrix"} Pals = {1, 2} MinOff = 0 MaxOff = 0 Filters = 0 Mode = "canon" MaxHist = 0
INVARIANTS SorRelation SsorRelation JacobiRelation IluLaws Linearity LifeOK Emit
CHECK_DEADLOCK FALSE
