SPECIFICATION Spec
CONSTANTS Family = "nest" MinN = 0 MaxN = 1 BS = 2 Depth = 1 Pal = 1
INVARIANTS FilterOK ExactDomain ConstraintHolds ComplementHolds IdempotentHolds Emit
CHECK_DEADLOCK FALSE
