----------------------------- MODULE Gen_Muxer ------------------------------
(* G direction for C13, multi-layered hierarchies: Global::Muxer             *)
(* (kernel/global/muxer.hpp).  The NR ranks of the child layer are grouped   *)
(* into sibling groups of consecutive ranks (every composition of NR); one   *)
(* rank of each group is the parent.  The parent patch of a group has NP     *)
(* dofs; child c holds the sub-patch cdofs[c] of it (child patches overlap,  *)
(* and they are of UNEQUAL size in general, so the common buffer length is   *)
(* the maximum over the children).                                           *)
(*   join   (type-0 / dual vectors: restriction)  parent entry = SUM of the  *)
(*          entries of all children holding the dof, 0 where nobody does     *)
(*   split  (type-1 / primal vectors: prolongation)  child entry = parent    *)
(*          entry of that dof                                                *)
(* The parent calls join/split, the other children join_send/split_recv.     *)
(* A group with a single rank copies (its child patch is the parent patch).  *)
EXTENDS Integers, Sequences, FiniteSets, TLC, Json

CONSTANTS NR,      \* ranks of the child layer
          NP,      \* dofs of a parent patch
          CSETS,   \* admissible child patches (subsets of 1..NP)
          MAXG     \* maximal number of groups

Ranks == 0..(NR - 1)
PDofs == 1..NP

VARIABLES cut,     \* set of ranks that start a new group (besides rank 0)
          plast,   \* parent of a group: FALSE its first rank, TRUE its last rank
          cdofs    \* rank -> child patch
vars == <<cut, plast, cdofs>>

Grp(r) == Cardinality({c \in cut : c <= r})
Members(g) == {r \in Ranks : Grp(r) = g}
Groups == {Grp(r) : r \in Ranks}
First(g) == CHOOSE r \in Members(g) : \A s \in Members(g) : r <= s
Last(g) == CHOOSE r \in Members(g) : \A s \in Members(g) : s <= r
Parent(g) == IF plast THEN Last(g) ELSE First(g)

Init ==
  /\ cut \in SUBSET (1..(NR - 1)) /\ Cardinality(cut) < MAXG
  /\ plast \in BOOLEAN
  /\ cdofs \in [Ranks -> CSETS]
  /\ \A r \in Ranks : Cardinality(Members(Grp(r))) = 1 => cdofs[r] = PDofs
  /\ (plast => \E g \in Groups : Cardinality(Members(g)) > 1)      \* otherwise the same as plast = FALSE
Next == UNCHANGED vars
Spec == Init /\ [][Next]_vars

RECURSIVE SumOver(_, _)
SumOver(S, f) == IF S = {} THEN 0 ELSE LET x == CHOOSE x \in S : TRUE IN f[x] + SumOver(S \ {x}, f)

\* child vectors (type 0: every child has its own value), parent vectors to be split; component k of a blocked vector
CV(r, p, k) == (r + 1) * 5 + p * p * k - 2 * r * p + 3 * k
PV(g, p, k) == 9 * (g + 1) - 4 * p + k * k
Join(g, p, k) == LET S == {c \in Members(g) : p \in cdofs[c]} IN SumOver(S, [c \in S |-> CV(c, p, k)])

Sorted(S) == [i \in 1..Cardinality(S) |-> CHOOSE d \in S : Cardinality({e \in S : e < d}) = i - 1]
Blk(Op(_)) == [k \in 1..2 |-> Op(k)]
Case ==
  [kind |-> "mux", nr |-> NR, np |-> NP,
   grp |-> [r \in Ranks |-> Grp(r)],
   srank |-> [r \in Ranks |-> r - First(Grp(r))],                           \* rank in the sibling communicator
   prank |-> [r \in Ranks |-> Parent(Grp(r)) - First(Grp(r))],               \* sibling rank of the parent
   gsize |-> [r \in Ranks |-> Cardinality(Members(Grp(r)))],
   members |-> [r \in Ranks |-> Sorted(Members(Grp(r)))],
   cdofs |-> [r \in Ranks |-> Sorted(cdofs[r])],
   cv |-> [r \in Ranks |-> [i \in 1..Cardinality(cdofs[r]) |-> Blk(LAMBDA k : CV(r, Sorted(cdofs[r])[i], k))]],
   pv |-> [r \in Ranks |-> [p \in PDofs |-> Blk(LAMBDA k : PV(Grp(r), p, k))]],
   join |-> [r \in Ranks |-> [p \in PDofs |-> Blk(LAMBDA k : Join(Grp(r), p, k))]],
   split |-> [r \in Ranks |-> [i \in 1..Cardinality(cdofs[r]) |-> Blk(LAMBDA k : PV(Grp(r), Sorted(cdofs[r])[i], k))]],
   unequal |-> \E r, s \in Ranks : Grp(r) = Grp(s) /\ Cardinality(cdofs[r]) # Cardinality(cdofs[s])]
Emit == PrintT(ToJson(Case))
\* sanity law: a group with a single rank copies
LawJoinSplit == \A g \in Groups : \A p \in PDofs : Cardinality(Members(g)) = 1 => Join(g, p, 1) = CV(First(g), p, 1)
=============================================================================
