---------------------------- MODULE PartitionCheck ----------------------------
(* Trace validation for C12: every line of the ndjson file named by the environment variable C12_BATCH is one    *)
(* case dumped by harness/c12_parti.cpp (all levels of the joint refinement).  One TLC state per case; Emit        *)
(* evaluates the invariants of Partition.tla on every level and prints the verdict (those that do not hold).       *)
EXTENDS Partition, Json, IOUtils

Cases == ndJsonDeserialize(IOEnv.C12_BATCH)
VARIABLE ci
Init == ci \in 1..Len(Cases)
Next == UNCHANGED ci
Spec == Init /\ [][Next]_ci

Fail(cond, pred, lev) == IF cond THEN {} ELSE {[p |-> pred, l |-> lev, part |-> ""]}

\* the world dimension of the mesh type: the shape dimension unless the dump says otherwise (harness/c12_embed.cpp: surface meshes
\* in 3D, edge meshes in 2D / 3D).  Base mesh and patch meshes carry one point of WDim coordinates per vertex - so that the
\* coordinate clause of PatchIsSubmesh compares ALL world coordinates
WDim(C) == IF "wdim" \in DOMAIN C THEN C.wdim ELSE C.dim
CoordsShape(C, Lv) ==
  /\ WDim(C) >= C.dim
  /\ CoordsOK(Lv.base, WDim(C))
  /\ \A r \in Ranks(C) : CoordsOK(PatchOf(Lv, r).mesh, WDim(C))

LevelFails(C, l) ==
  LET Lv == C.levels[l] IN
  IF ~(WellFormed(Lv.base, C.fam, C.dim) /\ ShapeOK(C, Lv)) THEN Fail(FALSE, "ShapeOK", l - 1)
  ELSE IF ~CoordsShape(C, Lv) THEN Fail(FALSE, "CoordsShape", l - 1)
  ELSE UNION {
    Fail(Cover(C, Lv), "Cover", l - 1),
    Fail(Injective(C, Lv), "Injective", l - 1),
    Fail(PatchIsSubmesh(C, Lv), "PatchIsSubmesh", l - 1),
    Fail(NeighbourSymmetricComplete(C, Lv), "NeighbourSymmetricComplete", l - 1),
    Fail(HaloAgree(C, Lv), "HaloAgree", l - 1),
    Fail(SplitPartsOK(C, Lv), "SplitPartsOK", l - 1) }

\* the assignment that was requested is the one the patch parts realise on level 0 (cells in the order given)
AssignRealised(C) ==
  (C.parti.success /\ Len(C.levels) >= 1) =>
    \A r \in Ranks(C) : Map(C.levels[1], r, C.dim) = C.assign[r + 1]

Verdict(C) ==
  UNION {LevelFails(C, l) : l \in 1..Len(C.levels)}
  \cup Fail(PartitionerOK(C), "PartitionerOK", -1)
  \cup Fail(Parti2LvlDocumented(C), "Parti2LvlDocumented", -1)
  \cup Fail(C.parti.success => Len(C.levels) = C.wantlevels, "AllLevelsProduced", -1)
  \cup (IF Len(C.levels) >= 1 /\ WellFormed(C.levels[1].base, C.fam, C.dim) /\ ShapeOK(C, C.levels[1])
        THEN Fail(AssignRealised(C), "AssignRealised", 0) ELSE {})

Info(C) ==
  IF Len(C.levels) = 0 THEN [nb |-> 0, single |-> 0, wdim |-> WDim(C)]
  ELSE LET Lv == C.levels[1] IN
    [wdim |-> WDim(C),
     nb |-> FoldSeq(LAMBDA p, acc : acc + Len(p.comm), 0, Lv.patches),
     \* number of neighbour pairs that touch in a single vertex only
     single |-> Cardinality({rs \in Ranks(C) \X Ranks(C) : rs[1] < rs[2]
                              /\ Cardinality(Ent(Lv, rs[1], C.dim, 0) \cap Ent(Lv, rs[2], C.dim, 0)) = 1})]

Emit == LET C == Cases[ci] IN PrintT(ToJson([id |-> C.id, fails |-> SetToSeq(Verdict(C)), info |-> Info(C)]))
=============================================================================
