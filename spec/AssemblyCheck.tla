---------------------------- MODULE AssemblyCheck ----------------------------
(* C16, direction V: every line of the ndjson file named by the environment variable C16_BATCH is one case =     *)
(* what the real code produced for one plan of Assembly.tla on one mesh (harness/c16_assembly*.cpp): mesh          *)
(* incidences and integer coordinates, the dof mappings, the symbolic patterns, and per job the measured          *)
(* observations (route agreement, AssembleTwice, symmetry, kernel, scaled integer values of the identities).      *)
(* One TLC state per case; Emit evaluates every predicate of Assembly.tla on the case and prints the verdict (the  *)
(* list of predicates that do NOT hold).  The check never interprets a dump itself.                                *)
EXTENDS Assembly, IOUtils

Cases == ndJsonDeserialize(IOEnv.C16_BATCH)

VARIABLE ci
CInit == ci \in 1..Len(Cases) /\ plan = "judge"      \* the generator's variable is not used here
CNext == UNCHANGED <<ci, plan>>
CSpec == CInit /\ [][CNext]_<<ci, plan>>

Fail(cond, pred, job, det) == IF cond THEN {} ELSE {[p |-> pred, j |-> job, d |-> det]}

\* ------------------------------------------------------------------------------------------------------
\* mesh view (all indices in the dump are 0-based; sequences are 1-based)
\* ------------------------------------------------------------------------------------------------------
NC(C) == C.n[C.dim + 1]
\* entities of dimension d (0-based numbers) at cell c (1-based position)
EntAtCell(C, d, c) ==
  IF d = 0 THEN RangeA(C.vc[c])
  ELSE IF d = C.dim THEN {c - 1}
  ELSE IF d = 1 THEN RangeA(C.ec[c])
  ELSE RangeA(C.fc[c])
FacetsAtCell(C, c) == EntAtCell(C, C.dim - 1, c)

\* offsets of the entity blocks in the global numbering: vertices first, then edges, ..., cells last
DofOffset(C, s, d) == LET k == DofsPerEnt(s, C.shape, C.dim) IN SumA([q \in 1..d |-> C.n[q] * k[q]])
NumDofs(C, s) == DofOffset(C, s, C.dim + 1)
\* (a) the dofs of a cell according to the signature of the space
DofSet(C, s, c) ==
  LET k == DofsPerEnt(s, C.shape, C.dim) IN
  UNION {{DofOffset(C, s, d) + e * k[d + 1] + m : e \in EntAtCell(C, d, c), m \in 0..(k[d + 1] - 1)} : d \in 0..C.dim}

\* ------------------------------------------------------------------------------------------------------
\* (a) sparsity contract
\* ------------------------------------------------------------------------------------------------------
RowOf(g, i) == SubSeq(g.ci, g.rp[i + 1] + 1, g.rp[i + 2])       \* row i (0-based) of a CSR pattern
StrictlyAscending(s) == \A k \in 1..(Len(s) - 1) : s[k] < s[k + 1]
CsrValid(g, nrows, ncols) ==
  /\ Len(g.rp) = nrows + 1 /\ g.rp[1] = 0 /\ g.rp[nrows + 1] = Len(g.ci)
  /\ \A i \in 1..nrows : g.rp[i] <= g.rp[i + 1]
  /\ \A k \in 1..Len(g.ci) : g.ci[k] \in 0..(ncols - 1)

\* cell neighbourhoods: kind "std" = the cell itself, "extf" = cells sharing a facet, "extn" = cells sharing a vertex
Neigh(C, kind, c) ==
  CASE kind = "std"  -> {c}
    [] kind = "extf" -> {c2 \in 1..NC(C) : FacetsAtCell(C, c) \cap FacetsAtCell(C, c2) # {}}
    [] kind = "extn" -> {c2 \in 1..NC(C) : EntAtCell(C, 0, c) \cap EntAtCell(C, 0, c2) # {}}

\* Pat(kind) = { (i, j) : exists cells c, c2 in Neigh(kind, c) with i in Dofs_test(c), j in Dofs_trial(c2) }, row-wise
PatternFails(C) ==
  LET nc == NC(C)
      TD == TLCEval([c \in 1..nc |-> DofSet(C, C.test, c)])      \* TLCEval: evaluate once, not at every application
      RD == TLCEval([c \in 1..nc |-> DofSet(C, C.trial, c)])
      nt == NumDofs(C, C.test)   nr == NumDofs(C, C.trial)
      CellsAt == TLCEval([i \in 0..(nt - 1) |-> {c \in 1..nc : i \in TD[c]}])
      one(kind, g) ==
        IF ~CsrValid(g, nt, nr) THEN Fail(FALSE, "PatternValid", -1, kind)
        ELSE LET \* trial dofs reachable from a cell through its neighbourhood
                 Reach == TLCEval([c \in 1..nc |-> UNION {RD[c2] : c2 \in Neigh(C, kind, c)}])
                 SpecRow(i) == IF kind = "diag" THEN {i} ELSE UNION {Reach[c] : c \in CellsAt[i]}
                 bad == {i \in 0..(nt - 1) : ~(StrictlyAscending(RowOf(g, i)) /\ RangeA(RowOf(g, i)) = SpecRow(i))}
             IN Fail(bad = {}, "PatternEqualsSpec", -1, kind)
      dofs == \* the dumped dof mappings realise the signature: same set, no local duplicates, right global count
        Fail(C.nt = nt /\ C.nr = nr, "NumDofs", -1, "")
        \cup Fail(\A c \in 1..nc : RangeA(C.td[c]) = TD[c] /\ Len(C.td[c]) = Cardinality(TD[c]), "DofSetContract", -1, C.test)
        \cup Fail(\A c \in 1..nc : RangeA(C.rd[c]) = RD[c] /\ Len(C.rd[c]) = Cardinality(RD[c]), "DofSetContract", -1, C.trial)
  IN dofs \cup UNION {one(C.pats[k].kind, C.pats[k]) : k \in 1..Len(C.pats)}

\* Couplings \subseteq Pat_std: every (i,j) that received a non-zero value when the job was assembled into a FULL matrix
CouplingsOK(C, coup) ==
  LET nc == NC(C)
      TD == TLCEval([c \in 1..nc |-> DofSet(C, C.test, c)])
      RD == TLCEval([c \in 1..nc |-> DofSet(C, C.trial, c)])
      nt == NumDofs(C, C.test)
      \* Pat_std row-wise, computed once per job
      Row == TLCEval([i \in 0..(nt - 1) |-> UNION {RD[c] : c \in {c2 \in 1..nc : i \in TD[c2]}}])
  IN \A k \in 1..Len(coup) : coup[k][1] \in 0..(nt - 1) /\ coup[k][2] \in Row[coup[k][1]]

\* ------------------------------------------------------------------------------------------------------
\* (c) exact moments of the case's mesh
\* ------------------------------------------------------------------------------------------------------
Pt(C, v) == C.X[v + 1]
CellPts(C, c) == [k \in 1..Len(C.vc[c]) |-> Pt(C, C.vc[c][k])]
MomPoly(C, e) ==
  SumA([c \in 1..NC(C) |->
     LET T == CellTris(C.shape, CellPts(C, c)) IN SumA([q \in 1..Len(T) |-> TriMom24(T[q][1], T[q][2], T[q][3], e)])])

\* the mesh is what its class claims (a wrong claim is an error of the machinery, never of FEAT)
Bit(k, d) == (k \div PowA(2, d - 1)) % 2
Det3(a, b, c) == a[1] * (b[2] * c[3] - b[3] * c[2]) - a[2] * (b[1] * c[3] - b[3] * c[1]) + a[3] * (b[1] * c[2] - b[2] * c[1])
Diff(p, q) == [d \in 1..Len(p) |-> p[d] - q[d]]
\* an axis-parallel box in ANY admissible local numbering: the cell is the affine image of the reference cube (vertex k =
\* corner with the bits of k), every edge vector along exactly one axis, positive orientation
EdgeVec(P, d) == Diff(P[1 + PowA(2, d - 1)], P[1])
DetEdges(P, dim) ==
  IF dim = 2 THEN EdgeVec(P, 1)[1] * EdgeVec(P, 2)[2] - EdgeVec(P, 1)[2] * EdgeVec(P, 2)[1]
  ELSE Det3(EdgeVec(P, 1), EdgeVec(P, 2), EdgeVec(P, 3))
IsBoxCell(C, c) ==
  LET P == CellPts(C, c) IN
  /\ \A k \in 1..Len(P) : \A x \in 1..C.dim :
        P[k][x] = P[1][x] + SumA([d \in 1..C.dim |-> Bit(k - 1, d) * EdgeVec(P, d)[x]])
  /\ \A d \in 1..C.dim : Cardinality({x \in 1..C.dim : EdgeVec(P, d)[x] # 0}) = 1
  /\ DetEdges(P, C.dim) > 0
BoxVol(C, c) == DetEdges(CellPts(C, c), C.dim)
QuadAffine(P) == \A d \in 1..2 : P[1][d] + P[4][d] = P[2][d] + P[3][d]
Convex2D(C, c) ==
  LET P == CellPts(C, c) IN
  IF C.shape = "simplex" THEN TriD(P[1], P[2], P[3]) > 0
  ELSE TriD(P[1], P[2], P[4]) > 0 /\ TriD(P[1], P[4], P[3]) > 0 /\ TriD(P[1], P[2], P[3]) > 0 /\ TriD(P[2], P[4], P[3]) > 0
\* dim! * volume of a cell (simplices; hypercubes only as axis-parallel boxes, where it is dim! * BoxVol)
CellVolF(C, c) ==
  LET P == CellPts(C, c) IN
  IF C.shape = "hypercube" THEN (IF C.dim = 2 THEN 2 ELSE 6) * BoxVol(C, c)
  ELSE IF C.dim = 2 THEN TriD(P[1], P[2], P[3])
  ELSE Det3(Diff(P[2], P[1]), Diff(P[3], P[1]), Diff(P[4], P[1]))
CornersPositive3D(C, c) ==
  LET P == CellPts(C, c) IN
  IF C.shape = "simplex" THEN Det3(Diff(P[2], P[1]), Diff(P[3], P[1]), Diff(P[4], P[1])) > 0
  ELSE \A k \in 0..7 :
         LET nb(d) == k + (1 - 2 * Bit(k, d)) * PowA(2, d - 1)            \* the neighbour corner along local axis d
             ev(d) == [x \in 1..3 |-> (1 - 2 * Bit(k, d)) * (P[nb(d) + 1][x] - P[k + 1][x])]
         IN Det3(ev(1), ev(2), ev(3)) > 0
ClassOK(C) ==
  \* box: the cells tile [0,1]^dim (positive volumes summing to 1 inside the box; conformity is C10's subject);
  \*      hypercube cells are axis-parallel boxes in FEAT's vertex numbering
  /\ (C.class = "box" =>
        /\ (C.shape = "hypercube" => \A c \in 1..NC(C) : IsBoxCell(C, c))
        /\ \A c \in 1..NC(C) : CellVolF(C, c) > 0
        /\ \A v \in 1..Len(C.X) : \A d \in 1..C.dim : C.X[v][d] \in 0..C.G
        /\ SumA([c \in 1..NC(C) |-> CellVolF(C, c)]) = (IF C.dim = 2 THEN 2 ELSE 6) * PowA(C.G, C.dim))
  /\ (C.class = "affine" /\ C.shape = "hypercube" => C.dim = 2 /\ \A c \in 1..NC(C) : QuadAffine(CellPts(C, c)))
  /\ (C.dim = 2 => \A c \in 1..NC(C) : Convex2D(C, c))
  \* 3D cells of non-box meshes: the Jacobian determinant of the (tri)linear map is positive at every corner
  /\ (C.dim = 3 /\ C.class # "box" => C.class = "general" /\ \A c \in 1..NC(C) : CornersPositive3D(C, c))

\* expected value of a polynomial (sequence of terms) integrated over the domain, times SpecScale
ExpNum(C, mom, mode, poly) ==
  SumA([q \in 1..Len(poly) |-> poly[q].c * (IF mode = "box" THEN MomBox(poly[q].e) ELSE mom[poly[q].e])])

\* ------------------------------------------------------------------------------------------------------
\* judgement of one job
\* ------------------------------------------------------------------------------------------------------
Str(x) == ToString(x)
RouteFails(C, j, J, O) ==
  LET isRef(r) == r = J.ref
      obsOf(r) == {k \in 1..Len(O.routes) : O.routes[k].r = r}
      one(r) ==
        IF isRef(r) THEN {}
        ELSE IF obsOf(r) = {} THEN Fail(FALSE, "MACHINERY:RouteNotExecuted", j, r)
        ELSE LET o == O.routes[CHOOSE k \in obsOf(r) : TRUE]
                 bitwise == <<J.ref, r>> \in BitPairs
             IN Fail(IF bitwise THEN o.bit ELSE o.within, IF bitwise THEN "RoutesAgreeBitwise" ELSE "RoutesAgree", j, r)
  IN UNION {one(J.routes[k]) : k \in 1..Len(J.routes)}
     \* two routes of a bitwise pair of which neither is the reference are compared with each other
     \cup UNION {IF {bp[1], bp[2]} \subseteq RangeA(J.routes) /\ J.ref \notin {bp[1], bp[2]}
                 THEN Fail(\E k \in 1..Len(O.pairs) : O.pairs[k].a = bp[1] /\ O.pairs[k].b = bp[2] /\ O.pairs[k].bit,
                           "RoutesAgreeBitwise", j, bp[2])
                 ELSE {} : bp \in BitPairs}
     \* AssembleTwice: adding alpha * A onto an assembled A gives (1 + alpha) * A, on every route that takes alpha
     \cup UNION {Fail(O.twice[k].within, "AssembleTwice", j, O.twice[k].r) : k \in 1..Len(O.twice)}
     \cup Fail(\A r \in RangeA(J.routes) \cap AlphaRoutes : \A a \in RangeA(J.alphas) :
                 \E k \in 1..Len(O.twice) : O.twice[k].r = r /\ O.twice[k].a = a, "MACHINERY:TwiceNotExecuted", j, "")

\* matrix-free routes: O.vr = sequence of [r, mv, ow, acc, probes]  (mv: r(x) = A x; ow / acc: a call with alpha into the filled
\* vector gave alpha * A x / y + alpha * A x; probes: per probe field of the job the scaled integers of its identities)
VRouteFails(C, j, J, O) ==
  UNION {LET r == J.vroutes[q]   hit == {k \in 1..Len(O.vr) : O.vr[k].r = r} IN
         IF r \notin MatrixFreeRoutes THEN Fail(FALSE, "MACHINERY:JobNotInCatalogue", j, r)
         ELSE IF hit = {} THEN Fail(FALSE, "MACHINERY:RouteNotExecuted", j, r)
         ELSE LET o == O.vr[CHOOSE k \in hit : TRUE] IN
              Fail(o.mv, "ApplyEqualsMatVec", j, r)
              \cup (IF RepeatSemantics(r) = "overwrite" THEN Fail(o.ow, "RepeatOverwrites", j, r) ELSE Fail(o.acc, "AssembleTwice", j, r))
         : q \in 1..Len(J.vroutes)}

IdFails(C, j, mom, poly, deg, id, o) ==
  IF o.S # SpecScale(id.mode, C.G, deg, C.dim) THEN Fail(FALSE, "MACHINERY:Scale", j, Str(id))
  ELSE IF ~o.dec THEN {}      \* the rounding bound did not allow to decide the integer: counted by the check, never a verdict
  ELSE Fail(~o.nonint /\ o.num = ExpNum(C, mom, id.mode, poly), "Bilinear", j,
            Str([id |-> id, exp |-> ExpNum(C, mom, id.mode, poly), got |-> o.num]))

MatJobFails(C, j, mom, J, O) ==
  LET op == J.op  same == C.test = C.trial
      zero == [k \in 1..C.dim |-> 0]
  IN UNION {
       Fail(/\ op \in MatOps(C.shape, C.dim, C.class, C.test, C.trial)
            /\ J.deg >= ReqDegMat(C.shape, C.dim, C.class, C.test, C.trial, op)
            /\ RangeA(J.routes) \subseteq MatRoutes(op, C.shape, C.dim, C.test, C.trial) /\ J.ref = RefRoute(op)
            /\ RangeA(J.ids) \subseteq MatIds(op, C.shape, C.dim, C.class, C.test, C.trial),
            "MACHINERY:JobNotInCatalogue", j, ""),
       RouteFails(C, j, J, O),
       Fail(RangeA(J.vroutes) \subseteq MatVRoutes(op, C.test, C.trial), "MACHINERY:JobNotInCatalogue", j, "vroutes") \cup VRouteFails(C, j, J, O),
       \* the matrix-free route overwrites its output vector: alpha * A x whatever the vector contained
       IF "apply" \in RangeA(J.routes) THEN Fail(RepeatSemantics("apply") = "overwrite" /\ O.applyrep.within, "RepeatOverwrites", j, "apply") ELSE {},
       IF same /\ IsSymmetric(op) THEN Fail(O.sym.within, "Symmetric", j, "") ELSE {},
       IF KernelTrial(op) THEN Fail(O.kert, "KernelConst", j, "trial") ELSE {},
       IF KernelTest(op) THEN Fail(O.kers, "KernelConst", j, "test") ELSE {},
       \* MassSum = Volume
       IF HasMassSum(op) /\ PartitionOfUnity(C.test) /\ PartitionOfUnity(C.trial) /\ (C.class = "box" \/ C.dim = 2) THEN
         LET md == IF C.class = "box" THEN "box" ELSE "poly" IN
         IF O.sum.S # SpecScale(md, C.G, 0, C.dim) THEN Fail(FALSE, "MACHINERY:Scale", j, "sum")
         ELSE IF ~O.sum.dec THEN {}
         ELSE Fail(~O.sum.nonint /\ O.sum.num = ExpNum(C, mom, md, <<Mono(zero)>>), "MassSumVolume", j, Str(O.sum.num))
       ELSE {},
       IF Len(O.ids) # Len(J.ids) THEN Fail(FALSE, "MACHINERY:IdCount", j, "")
       ELSE UNION {IdFails(C, j, mom, Form(op, C.dim, J.ids[k].u, J.ids[k].v), FormDeg(op, J.ids[k].u, J.ids[k].v), J.ids[k], O.ids[k]) : k \in 1..Len(J.ids)},
       IF O.coup.done THEN Fail(O.coup.bit, "FullPatternSameValues", j, "") \cup Fail(CouplingsOK(C, O.coup.pairs), "CouplingsInPattern", j, "")
       ELSE {} }

VecJobFails(C, j, mom, J, O) ==
  LET fn == J.fn
      zero == [k \in 1..C.dim |-> 0]
  IN UNION {
       Fail(/\ fn \in FuncsOf(C.dim) /\ C.test = C.trial
            /\ J.deg >= ReqDegVec(C.shape, C.dim, C.class, C.test, fn)
            /\ RangeA(J.routes) \subseteq VecRoutes(fn)
            /\ RangeA(J.ids) \subseteq VecIds(fn, C.shape, C.dim, C.class, C.test),
            "MACHINERY:JobNotInCatalogue", j, ""),
       RouteFails(C, j, J, O),
       \* FunctionalOfOne: the entries of a functional vector sum to the integral of the density
       IF PartitionOfUnity(C.test) /\ FuncDeg(fn) >= 0 /\ (C.class = "box" \/ (C.dim = 2 /\ FuncDeg(fn) <= 2)) THEN
         LET md == IF C.class = "box" THEN "box" ELSE "poly" IN
         IF O.sum.S # SpecScale(md, C.G, FuncDeg(fn), C.dim) THEN Fail(FALSE, "MACHINERY:Scale", j, "sum")
         ELSE IF ~O.sum.dec THEN {}
         ELSE Fail(~O.sum.nonint /\ O.sum.num = ExpNum(C, mom, md, FuncForm(fn, C.dim, zero)), "FunctionalOfOne", j, Str(O.sum.num))
       ELSE {},
       IF Len(O.ids) # Len(J.ids) THEN Fail(FALSE, "MACHINERY:IdCount", j, "")
       ELSE UNION {IdFails(C, j, mom, FuncForm(fn, C.dim, J.ids[k].u), FuncDeg(fn) + TotDeg(J.ids[k].u), J.ids[k], O.ids[k]) : k \in 1..Len(J.ids)} }

\* blocked = scalar (x) structure on every route
BlkJobFails(C, j, mom, J, O) ==
  UNION {
    Fail(/\ J.bop \in BOpsOf(C.dim) /\ C.test = C.trial /\ BOpSensible(J.bop, C.shape, C.dim, C.class, C.test)
         /\ J.deg >= BReqDeg(J.bop, C.shape, C.dim, C.class, C.test)
         /\ RangeA(J.routes) \subseteq BRoutes(J.bop, C.shape, C.test) /\ J.ref = BRef(J.bop)
         /\ J.blocks = BlocksOf(J.bop, C.dim)
         /\ RangeA(J.vroutes) \subseteq BVRoutes(J.bop, C.shape, C.test)
         /\ \A q \in 1..Len(J.probes) : /\ J.probes[q].field \in BProbeFields(J.bop, C.shape, C.dim, C.class, C.test)
                                        /\ RangeA(J.probes[q].ids) \subseteq BProbeIds(J.bop, J.probes[q].field, C.shape, C.dim, C.class, C.test),
         "MACHINERY:JobNotInCatalogue", j, ""),
    RouteFails(C, j, J, O),
    VRouteFails(C, j, J, O),
    \* ApplyBilinear: the exact value of (v e_row)^T r(P) for every probe field P, on every matrix-free route that takes a
    \* free argument (burgersjobself is applied to the convection field itself)
    UNION {LET r == J.vroutes[q]   hit == {k \in 1..Len(O.vr) : O.vr[k].r = r} IN
           IF hit = {} \/ r = "burgersjobself" THEN {}
           ELSE LET o == O.vr[CHOOSE k \in hit : TRUE] IN
                IF Len(o.probes) # Len(J.probes) THEN Fail(FALSE, "MACHINERY:ProbeCount", j, r)
                ELSE UNION {IF Len(o.probes[f]) # Len(J.probes[f].ids) THEN Fail(FALSE, "MACHINERY:IdCount", j, r)
                            ELSE UNION {LET id == J.probes[f].ids[k]   ob == o.probes[f][k]
                                            poly == NonZero(ProbeForm(J.bop, C.dim, J.probes[f].field, id.row, id.v))
                                        IN IF ob.S # SpecScale(id.mode, C.G, id.fd, C.dim) THEN Fail(FALSE, "MACHINERY:Scale", j, Str(id))
                                           ELSE IF ~ob.dec THEN {}
                                           ELSE Fail(~ob.nonint /\ ob.num = ExpNum(C, mom, id.mode, poly), "ApplyBilinear", j,
                                                     Str([r |-> r, field |-> J.probes[f].field, id |-> id, exp |-> ExpNum(C, mom, id.mode, poly), got |-> ob.num]))
                                        : k \in 1..Len(J.probes[f].ids)}
                            : f \in 1..Len(J.probes)}
           : q \in 1..Len(J.vroutes)},
    UNION {LET hit == {k \in 1..Len(O.blk) : O.blk[k].r = J.routes[q]} IN
           IF hit = {} THEN Fail(FALSE, "MACHINERY:RouteNotExecuted", j, J.routes[q])
           ELSE Fail(\A k \in hit : O.blk[k].within, "BlockedIsScalar", j, J.routes[q]) : q \in 1..Len(J.routes)} }

\* gradient / divergence special assemblers: blocks are the scalar testderiv matrices, D is the adjoint of B
GdJobFails(C, j, mom, J, O) ==
  UNION {
    VRouteFails(C, j, J, O),
    UNION {LET hit == {k \in 1..Len(O.vr) : O.vr[k].r = J.vroutes[q]} IN
           IF hit = {} THEN {}
           ELSE LET o == O.vr[CHOOSE k \in hit : TRUE] IN
                IF Len(o.ids) # Len(J.vids) THEN Fail(FALSE, "MACHINERY:IdCount", j, J.vroutes[q])
                ELSE UNION {LET id == J.vids[k]   ob == o.ids[k]
                                poly == Form(Op("trialderiv", <<id.row - 1>>), C.dim, id.u, id.v)
                            IN IF ob.S # SpecScale(id.mode, C.G, id.fd, C.dim) THEN Fail(FALSE, "MACHINERY:Scale", j, Str(id))
                               ELSE IF ~ob.dec THEN {}
                               ELSE Fail(~ob.nonint /\ ob.num = ExpNum(C, mom, id.mode, poly), "ApplyBilinear", j,
                                         Str([r |-> J.vroutes[q], id |-> id, exp |-> ExpNum(C, mom, id.mode, poly), got |-> ob.num]))
                            : k \in 1..Len(J.vids)}
           : q \in 1..Len(J.vroutes)},
    \* (the identity list is compared as a set: the order of a sequence made from a set is not part of the catalogue)
    Fail(/\ <<C.test, C.trial>> \in GDPairs
         /\ \E sl \in 0..3 : [J EXCEPT !.vids = << >>] = [GDJob(C.shape, C.dim, C.class, C.test, C.trial, sl) EXCEPT !.vids = << >>]
         /\ RangeA(J.vids) \subseteq GDVecIds(C.shape, C.dim, C.class, C.test, C.trial),
         "MACHINERY:JobNotInCatalogue", j, ""),
    Fail(Len(O.sc) = Len(J.scales), "MACHINERY:ScalesNotExecuted", j, ""),
    UNION {Fail(O.sc[k].b, "GradPresIsTestDeriv", j, "gpdv") \cup Fail(O.sc[k].adj, "GradDivAdjoint", j, "gpdv")
           \cup Fail(O.sc[k].g, "GradOperatorIsAdjoint", j, "gradop")
           \* a repeated call into the filled matrices: these routes overwrite, the result must be reproduced
           \cup Fail(\A r \in RangeA(J.routes) : RepeatSemantics(r) = "overwrite" => \E q \in 1..Len(O.sc[k].rep) : O.sc[k].rep[q].r = r,
                     "MACHINERY:RepeatNotExecuted", j, "")
           \cup UNION {Fail(O.sc[k].rep[q].same, "RepeatOverwrites", j, O.sc[k].rep[q].r) : q \in 1..Len(O.sc[k].rep)}
           : k \in 1..Len(O.sc)} }

\* Burgers parameter combinations
BParJobFails(C, j, J, O) ==
  UNION {
    Fail(C.test = C.trial /\ BParOK(J, C.shape, C.dim, C.class, C.test), "MACHINERY:JobNotInCatalogue", j, ""),
    RouteFails(C, j, J, O),
    UNION {LET hit == {k \in 1..Len(O.sum) : O.sum[k].r = J.routes[q]} IN
           IF hit = {} THEN Fail(FALSE, "MACHINERY:RouteNotExecuted", j, J.routes[q])
           ELSE Fail(\A k \in hit : O.sum[k].within, "BurgersSumOfTerms", j, J.routes[q]) : q \in 1..Len(J.routes)},
    IF RangeA(J.on) = {"sd"} THEN
      UNION {LET hit == {k \in 1..Len(O.sd) : O.sd[k].r = J.routes[q]} IN
             IF hit = {} THEN Fail(FALSE, "MACHINERY:RouteNotExecuted", j, J.routes[q])
             ELSE UNION {Fail(O.sd[k].sym, "SdSymmetric", j, J.routes[q]) \cup Fail(O.sd[k].ker, "SdKernelConst", j, J.routes[q])
                         \cup Fail(O.sd[k].pos, "SdPositive", j, J.routes[q]) \cup Fail(O.sd[k].lin, "SdLinearInDelta", j, J.routes[q])
                         : k \in hit} : q \in 1..Len(J.routes)}
    ELSE {} }

\* ------------------------------------------------------------------------------------------------------
\* two-level cases: {id, shape, dim, space, deg, fperm, cperm, G, fine: mesh, coarse: mesh, nf, nc, fd, cd, par, pats, coup}
\* ------------------------------------------------------------------------------------------------------
IsTwoLevel(C) == "fine" \in DOMAIN C
MeshOf(C, M) == [shape |-> C.shape, dim |-> C.dim, n |-> M.n, X |-> M.X, vc |-> M.vc, ec |-> M.ec, fc |-> M.fc]
\* x lies in the closure of the (convex) cell with corner points P  (2D: any straight-sided cell; 3D: simplex, axis-parallel box)
InClosure(shape, dim, P, x) ==
  IF dim = 2 THEN
    LET Q == IF shape = "simplex" THEN <<P[1], P[2], P[3]>> ELSE <<P[1], P[2], P[4], P[3]>>      \* counter-clockwise
    IN \A k \in 1..Len(Q) : TriD(Q[k], Q[(k % Len(Q)) + 1], x) >= 0
  ELSE IF shape = "simplex" THEN
    \A k \in 1..4 : Det3(Diff([P EXCEPT ![k] = x][2], [P EXCEPT ![k] = x][1]), Diff([P EXCEPT ![k] = x][3], [P EXCEPT ![k] = x][1]),
                          Diff([P EXCEPT ![k] = x][4], [P EXCEPT ![k] = x][1])) >= 0
  ELSE \A d \in 1..3 : (\E k \in 1..8 : P[k][d] <= x[d]) /\ (\E k \in 1..8 : P[k][d] >= x[d])

TwoLevelVerdict(C) ==
  LET MF == MeshOf(C, C.fine)   MC == MeshOf(C, C.coarse)
      nfc == NC(MF)   ncc == NC(MC)
      \* the parent certificate is checked: every vertex of a fine cell lies in the closure of its parent, cells are not
      \* degenerate, every coarse cell has the number of children of its shape  =>  par is the refinement relation
      parok == /\ Len(C.par) = nfc /\ \A f \in 1..nfc : C.par[f] \in 0..(ncc - 1)
               /\ \A f \in 1..nfc : \A k \in 1..Len(C.fine.vc[f]) :
                     InClosure(C.shape, C.dim, CellPts(MC, C.par[f] + 1), Pt(MF, C.fine.vc[f][k]))
               /\ \A c \in 0..(ncc - 1) : Cardinality({f \in 1..nfc : C.par[f] = c}) = NumChildren(C.shape, C.dim)
               /\ (C.dim = 2 => (\A f \in 1..nfc : Convex2D(MF, f)) /\ (\A c \in 1..ncc : Convex2D(MC, c)))
               /\ (C.dim = 3 /\ C.shape = "hypercube" => \A c \in 1..ncc : IsBoxCell(MC, c))
               /\ (C.dim = 3 /\ C.shape = "simplex" => \A c \in 1..ncc : CornersPositive3D(MC, c))
  IN
  IF ~(<<C.fperm, C.cperm>> \in PermPairsFull /\ C.space \in Spaces /\ C.deg >= TwoLevelDeg(C.space, C.shape))
    THEN Fail(FALSE, "MACHINERY:JobNotInCatalogue", -1, "")
  ELSE IF ~parok THEN Fail(FALSE, "MACHINERY:ParentCertificate", -1, "")
  ELSE
    LET FD == TLCEval([f \in 1..nfc |-> DofSet(MF, C.space, f)])
        CD == TLCEval([c \in 1..ncc |-> DofSet(MC, C.space, c)])
        nf == NumDofs(MF, C.space)   nc == NumDofs(MC, C.space)
        FCellsAt == TLCEval([i \in 0..(nf - 1) |-> {f \in 1..nfc : i \in FD[f]}])
        \* Pat_2lvl row-wise: the coarse dofs of the parents of the fine cells that carry fine dof i
        Row == TLCEval([i \in 0..(nf - 1) |-> UNION {CD[C.par[f] + 1] : f \in FCellsAt[i]}])
        one(g) == IF ~CsrValid(g, nf, nc) THEN Fail(FALSE, "PatternValid", -1, g.kind)
                  ELSE Fail({i \in 0..(nf - 1) : ~(StrictlyAscending(RowOf(g, i)) /\ RangeA(RowOf(g, i)) = Row[i])} = {},
                            "PatternEqualsSpec", -1, g.kind)
    IN UNION {
         Fail(C.nf = nf /\ C.nc = nc, "NumDofs", -1, ""),
         Fail(\A f \in 1..nfc : RangeA(C.fd[f]) = FD[f] /\ Len(C.fd[f]) = Cardinality(FD[f]), "DofSetContract", -1, "fine"),
         Fail(\A c \in 1..ncc : RangeA(C.cd[c]) = CD[c] /\ Len(C.cd[c]) = Cardinality(CD[c]), "DofSetContract", -1, "coarse"),
         UNION {one(C.pats[k]) : k \in 1..Len(C.pats)},
         Fail({"2lvl", "intermesh"} \subseteq {C.pats[k].kind : k \in 1..Len(C.pats)}, "MACHINERY:PatternNotDumped", -1, ""),
         IF C.coup.done THEN
           \* every (i,j) that receives a value from GridTransfer::assemble_prolongation lies in Pat_2lvl and in the real pattern,
           \* and assembling into the real pattern gives the values of the assembly into a full matrix
           Fail(\A k \in 1..Len(C.coup.pairs) : C.coup.pairs[k][1] \in 0..(nf - 1) /\ C.coup.pairs[k][2] \in Row[C.coup.pairs[k][1]],
                "CouplingsInPattern", -1, "2lvl")
           \cup Fail(C.coup.real, "CouplingsInRealPattern", -1, "2lvl")
           \cup Fail(C.coup.real => C.coup.bit, "FullPatternSameValues", -1, "2lvl")
           \cup Fail(Len(C.coup.pairs) > 0, "MACHINERY:NoCouplings", -1, "")
         ELSE {} }

Verdict(C) ==
  IF ~ClassOK(C) THEN Fail(FALSE, "MACHINERY:MeshClass", -1, C.class)
  ELSE
    LET mom == IF C.dim = 2 THEN TLCEval([e \in PSet(2, 2) |-> MomPoly(C, e)]) ELSE << >>
        \* on 2D box meshes the two closed forms must agree (law of the specification itself)
        law == IF C.dim = 2 /\ C.class = "box"
               THEN Fail(\A e \in PSet(2, 2) : mom[e] * BoxScale(2) = MomBox(e) * PolyScale(C.G, TotDeg(e)), "MACHINERY:MomLaw", -1, "")
               ELSE {}
    IN law \cup PatternFails(C)
       \cup UNION {CASE C.jobs[j].spec.k = "mat" -> MatJobFails(C, j, mom, C.jobs[j].spec, C.jobs[j].obs)
                     [] C.jobs[j].spec.k = "vec" -> VecJobFails(C, j, mom, C.jobs[j].spec, C.jobs[j].obs)
                     [] C.jobs[j].spec.k = "blk" -> BlkJobFails(C, j, mom, C.jobs[j].spec, C.jobs[j].obs)
                     [] C.jobs[j].spec.k = "gd" -> GdJobFails(C, j, mom, C.jobs[j].spec, C.jobs[j].obs)
                     [] C.jobs[j].spec.k = "bpar" -> BParJobFails(C, j, C.jobs[j].spec, C.jobs[j].obs) : j \in 1..Len(C.jobs)}

\* identity values judged / not decidable within the rounding bound: Bilinear and functional values of the scalar jobs, ApplyBilinear
\* values of the matrix-free routes of the blocked and gradient jobs
ObsIdLists(jb) ==
  CASE jb.spec.k \in {"mat", "vec"} -> <<jb.obs.ids>>
    [] jb.spec.k = "blk" -> FlatA([q \in 1..Len(jb.obs.vr) |-> jb.obs.vr[q].probes])
    [] jb.spec.k = "gd" -> [q \in 1..Len(jb.obs.vr) |-> jb.obs.vr[q].ids]
    [] OTHER -> << >>
NIds(C) == SumA([j \in 1..Len(C.jobs) |-> LET L == ObsIdLists(C.jobs[j]) IN SumA([q \in 1..Len(L) |-> Len(L[q])])])
NUndec(C) == SumA([j \in 1..Len(C.jobs) |-> LET L == ObsIdLists(C.jobs[j]) IN
                    SumA([q \in 1..Len(L) |-> Cardinality({k \in 1..Len(L[q]) : ~L[q][k].dec})])])

CEmit == LET C == Cases[ci] IN
  IF IsTwoLevel(C) THEN PrintT(ToJson([id |-> C.id, fails |-> SetToSeqA(TwoLevelVerdict(C)), nids |-> 0, nundec |-> 0])) ELSE
  PrintT(ToJson([id |-> C.id, fails |-> SetToSeqA(Verdict(C)), nids |-> NIds(C), nundec |-> NUndec(C)]))
=============================================================================
