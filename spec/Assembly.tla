------------------------------ MODULE Assembly ------------------------------
(* C16: assembled matrices / vectors equal their integrals on every assembly route.                       *)
(*                                                                                                        *)
(* Three parts, all held by this module (the oracle); the harnesses only execute and measure:             *)
(*  (a) SPARSITY CONTRACT   the dofs of a cell from the space's signature (dofs per entity dimension) and  *)
(*      the mesh incidences; Pat_std / Pat_ext_facet / Pat_ext_node / Pat_diag as relation compositions;  *)
(*      Couplings \subseteq Pat.                                                                          *)
(*  (b) ROUTE MACHINE       one abstract job (operator, spaces, rule, scalar|blocked) and the set of      *)
(*      assembly entry points (routes) on which it is defined; which pairs of routes must agree BITWISE   *)
(*      (same evaluation order) and which within the stated rounding bound; AssembleTwice.                *)
(*  (c) IDENTITY CATALOGUE  which identity applies to which operator, and the EXACT value of every        *)
(*      bilinear form / functional on monomials (integer arithmetic over a common denominator).           *)
(*                                                                                                        *)
(* Used twice:  Gen (this module + a generated gen_c16_*.cfg): TLC enumerates every plan = (shape, dim,  *)
(* mesh class, test space, trial space) with its complete job list and prints it (direction G);           *)
(* AssemblyCheck.tla: TLC judges what the real assemblers produced for these jobs (direction V).          *)
EXTENDS Integers, Sequences, FiniteSets, TLC, Json

\* ------------------------------------------------------------------------------------------------------
\* small helpers
\* ------------------------------------------------------------------------------------------------------
RECURSIVE SumSeqA(_, _)
SumSeqA(s, k) == IF k = 0 THEN 0 ELSE SumSeqA(s, k - 1) + s[k]
SumA(s) == SumSeqA(s, Len(s))
RECURSIVE ProdSeqA(_, _)
ProdSeqA(s, k) == IF k = 0 THEN 1 ELSE ProdSeqA(s, k - 1) * s[k]
ProdA(s) == ProdSeqA(s, Len(s))
RECURSIVE PowA(_, _)
PowA(b, k) == IF k <= 0 THEN 1 ELSE b * PowA(b, k - 1)
RECURSIVE FlattenA(_, _)
FlattenA(ss, k) == IF k = 0 THEN << >> ELSE FlattenA(ss, k - 1) \o ss[k]
FlatA(ss) == FlattenA(ss, Len(ss))
RangeA(s) == {s[k] : k \in 1..Len(s)}
RECURSIVE SetToSeqA(_)
SetToSeqA(S) == IF S = {} THEN << >> ELSE LET x == CHOOSE y \in S : TRUE IN <<x>> \o SetToSeqA(S \ {x})
Delta(a, b) == IF a = b THEN 1 ELSE 0

\* ------------------------------------------------------------------------------------------------------
\* (a.1) catalogue of finite element spaces: signature = dofs per entity dimension, polynomial content
\* ------------------------------------------------------------------------------------------------------
Spaces == {"lagrange1", "lagrange2", "crrt", "disc0", "disc1"}
Shapes == {"hypercube", "simplex"}
Classes == {"box", "affine", "general"}   \* box: axis-parallel boxes tiling [0,1]^d;  affine: every cell an affine image

\* number of dofs on ONE entity of dimension d (sequence index d+1)
DofsPerEnt(s, shape, dim) ==
  CASE s = "lagrange1" -> [d \in 1..(dim + 1) |-> IF d = 1 THEN 1 ELSE 0]
    [] s = "lagrange2" -> IF shape = "simplex" THEN [d \in 1..(dim + 1) |-> IF d <= 2 THEN 1 ELSE 0]
                          ELSE [d \in 1..(dim + 1) |-> 1]
    [] s = "crrt"      -> [d \in 1..(dim + 1) |-> IF d = dim THEN 1 ELSE 0]
    [] s = "disc0"     -> [d \in 1..(dim + 1) |-> IF d = dim + 1 THEN 1 ELSE 0]
    [] s = "disc1"     -> [d \in 1..(dim + 1) |-> IF d = dim + 1 THEN dim + 1 ELSE 0]

\* the basis functions sum to one (then: sum of all mass entries = volume, sum of a force vector = integral of f)
PartitionOfUnity(s) == s \in {"lagrange1", "lagrange2", "crrt", "disc0"}

\* polynomial degree of the local space per variable (hypercube) / in total (simplex)
LocalDeg(s, shape) ==
  CASE s = "lagrange1" -> 1
    [] s = "lagrange2" -> 2
    [] s = "crrt"      -> IF shape = "hypercube" THEN 2 ELSE 1     \* rotated Q1 contains x^2 - y^2
    [] s = "disc0"     -> 0
    [] s = "disc1"     -> 1

Exps(dim, k) == [1..dim -> 0..k]
TotDeg(e) == SumA(e)
PSet(dim, k) == {e \in Exps(dim, k) : TotDeg(e) <= k}
QSet(dim, k) == Exps(dim, k)

\* the monomials x^e that lie in the GLOBAL space on every mesh of the class, and whose interpolant the harness
\* can therefore form exactly (point values at dyadic entity barycentres / facet midpoints)
Monos(s, shape, dim, class) ==
  CASE s = "lagrange1" -> IF shape = "hypercube" /\ class = "box" THEN QSet(dim, 1) ELSE PSet(dim, 1)
    [] s = "lagrange2" -> IF shape = "hypercube" /\ class = "box" THEN QSet(dim, 2) ELSE PSet(dim, 2)
    \* facet means of a linear function = its value at the facet barycentre, unless the facet is a non-planar bilinear face
    [] s = "crrt"      -> IF class = "general" /\ shape = "hypercube" /\ dim = 3 THEN PSet(dim, 0) ELSE PSet(dim, 1)
    [] s = "disc0"     -> PSet(dim, 0)
    [] s = "disc1"     -> IF class = "general" /\ shape = "hypercube" THEN PSet(dim, 0) ELSE PSet(dim, 1)

\* monomials used for the Bilinear(u,v) identities (3D: a subset, the catalogue would have 27 x 27 pairs)
IdMonos(s, shape, dim, class) ==
  LET M == Monos(s, shape, dim, class) IN
  IF dim <= 2 THEN M ELSE {e \in M : TotDeg(e) <= 2 \/ e = [k \in 1..dim |-> 1] \/ e = [k \in 1..dim |-> 2]}

\* ------------------------------------------------------------------------------------------------------
\* (c.1) polynomials: a term is [c |-> integer coefficient, e |-> exponent tuple]; a polynomial a sequence of terms
\* ------------------------------------------------------------------------------------------------------
Mono(e) == [c |-> 1, e |-> e]
DerivT(k, t) == [c |-> t.c * t.e[k], e |-> [t.e EXCEPT ![k] = IF @ > 0 THEN @ - 1 ELSE 0]]
MulT(s, t) == [c |-> s.c * t.c, e |-> [k \in DOMAIN s.e |-> s.e[k] + t.e[k]]]
ScaleT(a, t) == [c |-> a * t.c, e |-> t.e]
NonZero(p) == SelectSeq(p, LAMBDA t : t.c # 0)

\* ------------------------------------------------------------------------------------------------------
\* (c.2) catalogue of bilinear operators.  An operator is [name, p] with p a sequence of integer parameters.
\*       Form(op, dim, u, v) = the integrand of a(u, v) for monomials u (TRIAL) and v (TEST), from the
\*       mathematical definition in the documentation of kernel/assembly/common_operators.hpp.
\* ------------------------------------------------------------------------------------------------------
Op(name, p) == [name |-> name, p |-> p]

GradDot(dim, U, V) == [k \in 1..dim |-> MulT(DerivT(k, U), DerivT(k, V))]

\* 2 D(U e_ic) : D(V e_ir) = sum_{a,b} (d_b U_a + d_a U_b) d_b V_a   with U_a = delta(a,ic) U, V_a = delta(a,ir) V
DuDvForm(dim, ir, ic, U, V) ==
  FlatA([a \in 1..dim |-> FlatA([b \in 1..dim |->
     <<ScaleT(Delta(a, ic) * Delta(a, ir), MulT(DerivT(b, U), DerivT(b, V))),
       ScaleT(Delta(b, ic) * Delta(a, ir), MulT(DerivT(a, U), DerivT(b, V)))>>])])

\* a polynomial vector field beta (sequence over components of polynomials): (beta . grad U) V
ConvForm(dim, beta, U, V) ==
  FlatA([k \in 1..dim |-> [q \in 1..Len(beta[k]) |-> MulT(MulT(beta[k][q], DerivT(k, U)), V)]])

\* the convection fields of the catalogue (index = op.p[1]); components are polynomials of ONE common degree
ConvField(dim, n) ==
  LET E(k) == [j \in 1..dim |-> IF j = k THEN 1 ELSE 0]      \* exponent of x_k
      Z == [j \in 1..dim |-> 0]
  IN CASE n = 0 -> [k \in 1..dim |-> <<[c |-> k, e |-> Z]>>]                                   \* (1, 2, 3)
       [] n = 1 -> [k \in 1..dim |-> <<[c |-> 1, e |-> E(k)]>>]                                 \* (x, y, z)
       [] n = 2 -> [k \in 1..dim |-> <<[c |-> (IF k = 1 THEN 1 ELSE -1), e |-> E(IF k = 1 THEN 2 ELSE 1)]>>]  \* (y, -x, -x)
ConvFieldDeg(n) == IF n = 0 THEN 0 ELSE 1

Form(op, dim, u, v) ==
  LET U == Mono(u)  V == Mono(v) IN
  NonZero(
  CASE op.name = "mass"       -> <<MulT(U, V)>>
    [] op.name = "laplace"    -> GradDot(dim, U, V)
    [] op.name = "dudv"       -> DuDvForm(dim, op.p[1] + 1, op.p[2] + 1, U, V)
    [] op.name = "divdiv"     -> <<MulT(DerivT(op.p[2] + 1, U), DerivT(op.p[1] + 1, V))>>    \* div(U e_ic) div(V e_ir)
    [] op.name = "trialderiv" -> <<MulT(DerivT(op.p[1] + 1, U), V)>>                          \* d_k u * v
    [] op.name = "testderiv"  -> <<MulT(U, DerivT(op.p[1] + 1, V))>>                          \* u * d_k v
    [] op.name = "conv"       -> ConvForm(dim, ConvField(dim, op.p[1]), U, V))

\* number of derivatives on (trial, test) and degree the coefficient adds
NDeriv(op) == CASE op.name = "mass" -> <<0, 0>>
                [] op.name \in {"laplace", "dudv", "divdiv"} -> <<1, 1>>
                [] op.name \in {"trialderiv", "conv"} -> <<1, 0>>
                [] op.name = "testderiv" -> <<0, 1>>
CoefDeg(op) == IF op.name = "conv" THEN ConvFieldDeg(op.p[1]) ELSE 0
\* degree of the integrand of a(u,v) (all its terms are homogeneous of this degree)
FormDeg(op, u, v) == TotDeg(u) + TotDeg(v) - NDeriv(op)[1] - NDeriv(op)[2] + CoefDeg(op)

\* identity catalogue: which law applies to which operator
IsSymmetric(op) == \/ op.name \in {"mass", "laplace"}
                   \/ (op.name \in {"dudv", "divdiv"} /\ op.p[1] = op.p[2])
KernelTrial(op) == NDeriv(op)[1] = 1          \* A * (coefficients of the constant 1) = 0
KernelTest(op)  == NDeriv(op)[2] = 1          \* (coefficients of 1)^T * A = 0
HasMassSum(op)  == op.name = "mass"

\* ------------------------------------------------------------------------------------------------------
\* (c.3) linear functionals:  force(f): b_i = int f phi_i ;  laplacefn(f): b_i = int (-Laplace f) phi_i
\* ------------------------------------------------------------------------------------------------------
FuncDensity(fn, dim) ==     \* the density g with b_i = int g phi_i, as a polynomial
  LET F == Mono(fn.f) IN
  NonZero(IF fn.name = "force" THEN <<F>> ELSE [k \in 1..dim |-> ScaleT(-1, DerivT(k, DerivT(k, F)))])
FuncDeg(fn) == IF fn.name = "force" THEN TotDeg(fn.f) ELSE TotDeg(fn.f) - 2
FuncForm(fn, dim, u) == LET g == FuncDensity(fn, dim) IN [q \in 1..Len(g) |-> MulT(g[q], Mono(u))]

\* ------------------------------------------------------------------------------------------------------
\* (c.4) exact moments.  Coordinates are integers X in units of 1/G.
\*   mode "poly": 2D straight-sided cells, degree <= 2, closed forms on triangles; value * 24 * G^(deg+2) is an integer
\*   mode "box" : domain [0,1]^dim; int x^e = prod 1/(e_k+1); value * BoxL^dim is an integer for e_k <= 5
\* ------------------------------------------------------------------------------------------------------
BoxL == 60
MomBox(e) == ProdA([k \in 1..Len(e) |-> BoxL \div (e[k] + 1)])
BoxOK(e) == \A k \in 1..Len(e) : BoxL % (e[k] + 1) = 0

TriD(p1, p2, p3) == (p2[1] - p1[1]) * (p3[2] - p1[2]) - (p3[1] - p1[1]) * (p2[2] - p1[2])     \* 2 * signed area
\* 24 * integral of x^e over the triangle (p1,p2,p3), total degree of e <= 2
TriMom24(p1, p2, p3, e) ==
  LET D == TriD(p1, p2, p3)
      sx == p1[1] + p2[1] + p3[1]   sy == p1[2] + p2[2] + p3[2]
      S2(k) == p1[k] * p1[k] + p2[k] * p2[k] + p3[k] * p3[k] + p1[k] * p2[k] + p1[k] * p3[k] + p2[k] * p3[k]
  IN CASE e = <<0, 0>> -> 12 * D
       [] e = <<1, 0>> -> 4 * D * sx
       [] e = <<0, 1>> -> 4 * D * sy
       [] e = <<2, 0>> -> 2 * D * S2(1)
       [] e = <<0, 2>> -> 2 * D * S2(2)
       [] e = <<1, 1>> -> D * (sx * sy + p1[1] * p1[2] + p2[1] * p2[2] + p3[1] * p3[2])

\* triangles of a 2D cell given by its vertex coordinate tuple P (FEAT numbering: quad 0=(0,0) 1=(1,0) 2=(0,1) 3=(1,1))
CellTris(shape, P) == IF shape = "simplex" THEN <<<<P[1], P[2], P[3]>>>> ELSE <<<<P[1], P[2], P[4]>>, <<P[1], P[4], P[3]>>>>

PolyScale(G, deg) == 24 * PowA(G, deg + 2)
BoxScale(dim) == PowA(BoxL, dim)
SpecScale(mode, G, deg, dim) == IF mode = "box" THEN BoxScale(dim) ELSE PolyScale(G, deg)

\* modes in which a pair can be decided on a mesh of the class: box -> closed form on the unit box (any degree the
\* scale divides); poly -> triangle closed forms (2D, degree <= 2); on 2D box meshes BOTH (the two must agree)
ModesFor(dim, class, deg, exps) ==
  (IF class = "box" /\ \A e \in exps : BoxOK(e) THEN {"box"} ELSE {})
  \cup (IF dim = 2 /\ deg >= 0 /\ deg <= 2 THEN {"poly"} ELSE {})

\* ------------------------------------------------------------------------------------------------------
\* (b) the route machine
\* ------------------------------------------------------------------------------------------------------
\* cubature degree that makes every identity of the catalogue exact:  hypercube rules are exact per variable, the
\* determinant of a multilinear map adds dim-1 per variable on non-affine cells; simplex cells are affine (total degree)
GeoDeg(shape, dim, class) == IF shape = "hypercube" /\ class = "general" THEN dim - 1 ELSE 0
ReqDegMat(shape, dim, class, T, R, op) ==
  LET d == IF shape = "hypercube" THEN LocalDeg(T, shape) + LocalDeg(R, shape) + CoefDeg(op) + GeoDeg(shape, dim, class)
           ELSE LocalDeg(T, shape) + LocalDeg(R, shape) + CoefDeg(op) - NDeriv(op)[1] - NDeriv(op)[2]
  IN IF d < 1 THEN 1 ELSE d
ReqDegVec(shape, dim, class, T, fn) ==
  LET fd == IF FuncDeg(fn) < 0 THEN 0 ELSE FuncDeg(fn)
      d == LocalDeg(T, shape) + fd + GeoDeg(shape, dim, class)
  IN IF d < 1 THEN 1 ELSE d

\* scalar matrix routes.  classic = BilinearOperatorAssembler::assemble_matrix1/2, domain = DomainAssembler job with 0
\* worker threads, apply = BilinearOperatorAssembler::apply1/2 (matrix-free), burgers = BurgersAssembler::
\* assemble_scalar_matrix, burgersjob = BurgersScalarMatrixAssemblyJob, voxel = VoxelPoissonAssembler
OpsOf(dim) ==
  {Op("mass", << >>), Op("laplace", << >>)}
  \cup {Op("dudv", <<0, 1>>), Op("dudv", <<dim - 1, dim - 1>>), Op("divdiv", <<1, 0>>)}
  \cup {Op("trialderiv", <<k>>) : k \in {0, dim - 1}} \cup {Op("testderiv", <<k>>) : k \in {0, dim - 1}}
  \cup {Op("conv", <<n>>) : n \in 0..2}

BurgersKind(op) == op.name \in {"mass", "laplace", "conv"}     \* theta * M, nu * L (gradient form), beta * K(v)
\* spaces for which the Burgers / blocked routes are exercised (velocity-type spaces)
BlockedSpaces == {"lagrange1", "lagrange2", "crrt"}
MatRoutes(op, shape, dim, T, R) ==
  IF op.name = "conv" THEN (IF T = R /\ T \in BlockedSpaces THEN {"burgers", "burgersjob"} ELSE {})
  ELSE {"classic", "domain", "apply"}
       \cup (IF BurgersKind(op) /\ T = R /\ T \in BlockedSpaces THEN {"burgers", "burgersjob"} ELSE {})
       \cup (IF op.name = "laplace" /\ T = "lagrange2" /\ R = "lagrange2" /\ shape = "hypercube" THEN {"voxel"} ELSE {})
\* the reference route every other route is compared with
RefRoute(op) == IF op.name = "conv" THEN "burgers" ELSE "classic"
\* pairs of routes that run the same evaluation order on one thread: any difference is a divergence, not rounding
BitwiseWithRef(op, r) == (RefRoute(op) = "classic" /\ r = "domain") \/ (RefRoute(op) = "burgers" /\ r = "burgersjob")
\* routes that take the scaling factor alpha and add onto the existing matrix (AssembleTwice)
AlphaRoutes == {"classic", "domain", "burgers", "burgersjob", "voxel", "voxeldefo"}      \* all of RepeatSemantics "accumulate"

OpSensible(op, shape, dim, class, T, R) ==    \* a derivative on piecewise constants is identically zero: not a job
  /\ (NDeriv(op)[1] = 1 => LocalDeg(R, shape) >= 1)
  /\ (NDeriv(op)[2] = 1 => LocalDeg(T, shape) >= 1)
  /\ (op.name \in {"dudv", "divdiv", "conv"} => T = R)
  \* the convection field is given as a coefficient vector of the same space: it must lie in it
  /\ (op.name = "conv" => \A k \in 1..dim : \A t \in RangeA(ConvField(dim, op.p[1])[k]) : t.e \in Monos(T, shape, dim, class))

\* ---- blocked jobs: value type = dim x dim blocks (SparseMatrixBCSR) ------------------------------------------------
\* mass_b / laplace_b / dudv_b = Identity/Laplace/DuDvOperatorBlocked;  the Burgers assemblers provide all kinds through
\* their parameters (theta, nu without/with deformation, beta with a convection field, frechet_beta);
\* ugrad_b = a USER operator (implemented by the harness against the documented BilinearOperator interface, not shipped
\* by FEAT): block (r,c) = (r + 2c - 2) * int d_c(trial) test -- gradient-type, its blocks are symmetric in no sense
BOpsOf(dim) == {Op("mass_b", << >>), Op("laplace_b", << >>), Op("dudv_b", << >>), Op("ugrad_b", << >>)}
               \cup {Op("conv_b", <<n>>) : n \in 0..2} \cup {Op("frechet_b", <<n>>) : n \in 1..2}
\* d_c beta_r of a field of the catalogue with linear components (an integer)
FieldGrad(dim, n, r, c) == LET b == ConvField(dim, n)[r] IN SumA([q \in 1..Len(b) |-> b[q].c * b[q].e[c]])
\* blocked = scalar (x) structure:  block (r,c) = s * (scalar matrix of operator op)
BlockOf(bop, dim, r, c) ==
  CASE bop.name = "mass_b"    -> [op |-> Op("mass", << >>), s |-> Delta(r, c)]
    [] bop.name = "laplace_b" -> [op |-> Op("laplace", << >>), s |-> Delta(r, c)]
    [] bop.name = "dudv_b"    -> [op |-> Op("dudv", <<r - 1, c - 1>>), s |-> 1]
    [] bop.name = "conv_b"    -> [op |-> Op("conv", bop.p), s |-> Delta(r, c)]
    [] bop.name = "frechet_b" -> [op |-> Op("mass", << >>), s |-> FieldGrad(dim, bop.p[1], r, c)]
    [] bop.name = "ugrad_b"   -> [op |-> Op("trialderiv", <<c - 1>>), s |-> r + 2 * c - 2]
BlocksOf(bop, dim) == [r \in 1..dim |-> [c \in 1..dim |-> BlockOf(bop, dim, r, c)]]
BHasClassic(bop) == bop.name \in {"mass_b", "laplace_b", "dudv_b", "ugrad_b"}
BHasBurgers(bop) == bop.name # "ugrad_b"
BRoutes(bop, shape, T) ==
  (IF BHasClassic(bop) THEN {"classic", "domain"} ELSE {})
  \cup (IF BHasBurgers(bop) THEN
          {"burgers", "burgersjob"}
          \cup (IF T = "lagrange2" /\ shape = "hypercube" THEN {"voxel"} \cup (IF bop.name = "dudv_b" THEN {"voxeldefo"} ELSE {}) ELSE {})
        ELSE {})
BRef(bop) == IF BHasClassic(bop) THEN "classic" ELSE "burgers"
BOpSensible(bop, shape, dim, class, T) ==
  /\ T \in BlockedSpaces
  /\ (bop.name \in {"conv_b", "frechet_b"} =>
        \A k \in 1..dim : \A t \in RangeA(ConvField(dim, bop.p[1])[k]) : t.e \in Monos(T, shape, dim, class))
BReqDeg(bop, shape, dim, class, T) ==
  LET o == IF bop.name \in {"conv_b", "frechet_b"} THEN Op("conv", bop.p) ELSE Op("mass", << >>) IN
  ReqDegMat(shape, dim, class, T, T, o) + (IF shape = "simplex" /\ o.name = "conv" THEN 1 ELSE 0)
\* pairs of routes that run the same evaluation order on one thread (any difference is a divergence, never rounding)
BitPairs == {<<"classic", "domain">>, <<"burgers", "burgersjob">>}

\* ---- MATRIX-FREE routes: the operator of a job applied to a coefficient vector WITHOUT assembling a matrix ------------------
\*   apply         BilinearOperatorAssembler::apply1 (scalar jobs on mixed pairs: apply2); value type scalar or blocked
\*   apply2        BilinearOperatorAssembler::apply2 with the space of the job in both roles (blocked jobs)
\*   burgersvec    BurgersAssembler::assemble_vector (blocked; the terms nu, theta, beta only: no Frechet / SD term)
\*   burgersjobvec BurgersBlockedVectorAssemblyJob / BurgersScalarVectorAssemblyJob (every term of the Burgers matrix jobs)
\*   burgersjobself  the same job with solution vector and convection vector being ONE object (a separate branch of the task)
\*   voxelvec      VoxelBurgersAssembler::assemble_vector (blocked, terms as burgersvec)
\*   gradopvec     GradOperatorAssembler::assemble(blocked vector, scalar vector): the gradient matrix applied matrix-free
\* Laws (for every matrix-free route r of a job whose reference route gives the matrix A):
\*   ApplyEqualsMatVec   r(x) = A x for the generic coefficient vector x of the harness (component-wise different, not smooth)
\*   ApplyBilinear       for every probe field P of the catalogue, test monomial v and component row:
\*                       (v e_row)^T r(P) = sum_c s(row,c) * a_(row,c)(P_c, v)  EXACTLY (scaled integers, as Bilinear(u,v))
\*   RepeatSemantics     overwrite: a call with alpha into a filled vector gives alpha * A x; accumulate: y + alpha * A x
MatrixFreeRoutes == {"apply", "apply2", "burgersvec", "burgersjobvec", "burgersjobself", "voxelvec", "gradopvec"}
\* the Burgers vector assemblers that do not take the job classes' route have no Frechet / streamline-diffusion term
BVecTermsOnly(bop) == bop.name \in {"mass_b", "laplace_b", "dudv_b", "conv_b"}
\* apply1 / apply2 with blocked value types: on the operators whose blocks are NOT symmetric (what is specific to blocked value
\* types in these routes is the handling of the block, everything else is decided by the scalar jobs on the same routes)
BApplyOps == {"dudv_b", "ugrad_b"}
BVRoutes(bop, shape, T) ==
  (IF bop.name \in BApplyOps THEN {"apply", "apply2"} ELSE {})
  \cup (IF BHasBurgers(bop) THEN {"burgersjobvec"} ELSE {})
  \cup (IF bop.name = "conv_b" /\ bop.p[1] > 0 THEN {"burgersjobself"} ELSE {})     \* A(v) v with the field itself as the argument
  \cup (IF BHasBurgers(bop) /\ BVecTermsOnly(bop) THEN
          {"burgersvec"} \cup (IF T = "lagrange2" /\ shape = "hypercube" THEN {"voxelvec"} ELSE {})
        ELSE {})
\* probe fields = the vector fields of the catalogue (ConvField) that lie in the space; constants only where the trial
\* function is not differentiated (otherwise the identity would read 0 = 0)
BTrialDeriv(bop) == bop.name \in {"laplace_b", "dudv_b", "conv_b", "ugrad_b"}
FieldInSpace(dim, n, T, shape, class) == \A k \in 1..dim : \A t \in RangeA(ConvField(dim, n)[k]) : t.e \in Monos(T, shape, dim, class)
BProbeFields(bop, shape, dim, class, T) ==
  {n \in 0..2 : FieldInSpace(dim, n, T, shape, class) /\ (n = 0 => ~BTrialDeriv(bop))}
\* the integrand of (v e_row)^T A P for the probe field P = ConvField(dim, n): a polynomial
ProbeForm(bop, dim, n, row, v) ==
  FlatA([c \in 1..dim |->
     LET B == BlockOf(bop, dim, row, c)   f == ConvField(dim, n)[c] IN
     FlatA([q \in 1..Len(f) |-> LET F == Form(B.op, dim, f[q].e, v) IN [t \in 1..Len(F) |-> ScaleT(B.s * f[q].c, F[t])]])])
\* all its terms are homogeneous of this degree (the components of a field have one common degree)
ProbeDeg(bop, dim, n, v) == FormDeg(BlockOf(bop, dim, 1, 1).op, ConvField(dim, n)[1][1].e, v)
ProbeTests(T, shape, dim, class) == {v \in IdMonos(T, shape, dim, class) : TotDeg(v) <= 1}
BProbeIds(bop, n, shape, dim, class, T) ==
  {id \in {[v |-> v, row |-> r, mode |-> m, fd |-> ProbeDeg(bop, dim, n, v)] :
             v \in ProbeTests(T, shape, dim, class), r \in 1..dim, m \in {"box", "poly"}} :
     id.mode \in ModesFor(dim, class, id.fd, {t.e : t \in RangeA(NonZero(ProbeForm(bop, dim, n, id.row, id.v)))})}
BProbes(bop, shape, dim, class, T) ==
  [q \in 1..Cardinality(BProbeFields(bop, shape, dim, class, T)) |->
     LET n == SetToSeqA(BProbeFields(bop, shape, dim, class, T))[q]
     IN [field |-> n, ids |-> SetToSeqA(BProbeIds(bop, n, shape, dim, class, T))]]
\* scalar jobs: the Burgers vector job on the Burgers kinds (mass, laplace, conv)
MatVRoutes(op, T, R) == IF BurgersKind(op) /\ T = R /\ T \in BlockedSpaces THEN {"burgersjobvec"} ELSE {}

\* ---- gradient / divergence special assemblers (velocity space V = test, pressure space P = trial) ----------------------
\* gpdv   = GradPresDivVeloAssembler::assemble(B, D, V, P, rule, scale_b, scale_d):  B (dim x 1 blocks, rows V, columns P),
\*          D (1 x dim blocks, rows P, columns V);   B_m = scale_b * S_m,  D_m = scale_d * S_m^T   (GradDivAdjoint)
\*          with S_m = the scalar matrix of testderiv(m) = int p d_m v on (test V, trial P)
\* gradop = GradOperatorAssembler::assemble(G, test P, trial V, rule, scale):  G_m = scale * int d_m(u) q = scale * S_m^T
GDPairs == {<<"lagrange2", "disc1">>, <<"crrt", "disc0">>}
GDScales == <<<<-2, -2>>, <<4, -1>>>>        \* (scale_b, scale_d) as numerators over 2: the defaults (-1,-1) and (2,-1/2)
GDVecIds(shape, dim, class, V, P) ==
  {id \in {[u |-> u, v |-> q, row |-> m, mode |-> md, fd |-> TotDeg(u) + TotDeg(q) - 1] :
             u \in {e \in IdMonos(V, shape, dim, class) : TotDeg(e) \in 1..2}, q \in {e \in IdMonos(P, shape, dim, class) : TotDeg(e) <= 1},
             m \in 1..dim, md \in {"box", "poly"}} :
     id.mode \in ModesFor(dim, class, id.fd, {t.e : t \in RangeA(Form(Op("trialderiv", <<id.row - 1>>), dim, id.u, id.v))})}
GDJob(shape, dim, class, V, P, sl) ==
  [k |-> "gd", deg |-> ReqDegMat(shape, dim, class, V, P, Op("testderiv", <<0>>)) + sl, scales |-> GDScales,
   routes |-> <<"gpdv", "gradop">>, ref |-> "classic", blk |-> [m \in 1..dim |-> Op("testderiv", <<m - 1>>)],
   \* the gradient matrix G (test P, trial V) applied matrix-free to the coefficients of a velocity-space monomial u:
   \* (q e_m)^T gradopvec(u) = int d_m(u) q  EXACTLY, for every pressure-space monomial q
   \* (matrix-free routes are executed with the rule of the required degree only: sl = 0)
   vroutes |-> IF sl = 0 THEN <<"gradopvec">> ELSE << >>,
   vids |-> IF sl = 0 THEN SetToSeqA(GDVecIds(shape, dim, class, V, P)) ELSE << >>]

\* ---- Burgers parameter combinations ------------------------------------------------------------------------------------
\* The Burgers assemblers build  nu*L (gradient or deformation form) + theta*M + beta*K(v) + frechet_beta*K'(v) + S(sd_delta)
\* from switches "parameter # 0".  EVERY non-empty on/off combination is a job (kind "bpar"), on every Burgers route, scalar
\* (assemble_scalar_matrix / BurgersScalarMatrixAssemblyJob; no Frechet term) and blocked (assemble_matrix /
\* BurgersBlockedMatrixAssemblyJob / VoxelBurgersAssembler).  Laws: RoutesAgree on each combination; SumOfTerms: the matrix
\* of a combination is the sum of the matrices of its single terms (on the same route); for the streamline diffusion term
\* S alone: symmetric, constants in the kernel, linear in sd_delta, and u^T S u > 0 for u = x_1 (v . grad x_1 = v_1 is not
\* identically zero for the fields of the catalogue), i.e. S is really there when switched on.
BParams == <<"nu", "theta", "beta", "frechet", "sd">>
BParVal(p) == CASE p = "nu" -> 3 [] p = "theta" -> 6 [] p = "beta" -> 2 [] p = "frechet" -> 1 [] p = "sd" -> 2     \* numerators over 4
BParSet(blocked) == IF blocked THEN RangeA(BParams) ELSE RangeA(BParams) \ {"frechet"}
BNeedsField(on) == on \cap {"beta", "frechet", "sd"} # {}
BParFields == {0, 2}
BParRoutes(blocked, shape, T) ==
  {"burgers", "burgersjob"} \cup (IF blocked /\ T = "lagrange2" /\ shape = "hypercube" THEN {"voxel"} ELSE {})
BParJob(blocked, on, defo, field, shape, dim, class, T) ==
  [k |-> "bpar", blocked |-> blocked, on |-> SelectSeq(BParams, LAMBDA p : p \in on),
   vals |-> [q \in 1..Len(SelectSeq(BParams, LAMBDA p : p \in on)) |-> BParVal(SelectSeq(BParams, LAMBDA p : p \in on)[q])],
   defo |-> defo, field |-> field, deg |-> BReqDeg(Op("conv_b", <<field>>), shape, dim, class, T), alphas |-> << >>,
   routes |-> SetToSeqA(BParRoutes(blocked, shape, T)), ref |-> "burgers"]
BParOK(J, shape, dim, class, T) ==
  LET on == RangeA(J.on) IN
  /\ T \in BlockedSpaces /\ on # {} /\ on \subseteq BParSet(J.blocked)
  /\ (J.defo => J.blocked /\ "nu" \in on)
  /\ (~BNeedsField(on) => J.field = 0)
  /\ J.field \in BParFields
  /\ (BNeedsField(on) => \A k \in 1..dim : \A t \in RangeA(ConvField(dim, J.field)[k]) : t.e \in Monos(T, shape, dim, class))
  /\ J = BParJob(J.blocked, on, J.defo, J.field, shape, dim, class, T)

BParJobs(shape, dim, class, T) ==
  {J \in {BParJob(b, on, defo, f, shape, dim, class, T) :
            b \in BOOLEAN, on \in SUBSET RangeA(BParams), defo \in BOOLEAN, f \in BParFields} : BParOK(J, shape, dim, class, T)}

\* ---- what a repeated call into the same (already filled) target does, per route -----------------------------------------
\* accumulate: the result of the call is ADDED (alpha-weighted) onto the existing contents (AssembleTwice);
\* overwrite : the target is formatted first, a repeated call reproduces the result of the first call (RepeatOverwrites)
\* (apply1/apply2 format their output vector: a call with alpha into a filled vector yields alpha * A x)
\* (burgersvec / voxelvec / gradopvec add scale * A x onto the vector; the Burgers vector JOBS add A x, the scaling is in
\* the parameters of the job)
RepeatSemantics(r) == IF r \in {"gpdv", "gradop", "apply", "apply2"} THEN "overwrite" ELSE "accumulate"

\* ---- two-level (inter-mesh) sparsity contract ----------------------------------------------------------------------
\* Pat_2lvl(fine space, coarse space) = union over coarse cells c of Dofs_fine(children(c)) x Dofs_coarse(c):  the pattern of
\* SymbolicAssembler::assemble_matrix_2lvl / assemble_graph_2lvl / assemble_graph_intermesh, into which GridTransfer writes
\* prolongation / truncation matrices.  The contract is stated on the meshes AS THEY ARE NUMBERED, so it must hold for every
\* mesh permutation strategy (RootMeshNode / ConformalMesh::create_permutation) on the fine and / or the coarse level.
PermStrategies == {"none", "random", "lexicographic", "colored", "cuthill_mckee", "cuthill_mckee_reversed",
                   "geometric_cuthill_mckee", "geometric_cuthill_mckee_reversed"}
PermPairsFull == {<<f, c>> : f \in PermStrategies, c \in PermStrategies}                    \* <<fine, coarse>>
PermPairsCross == {p \in PermPairsFull : p[1] = "none" \/ p[2] = "none" \/ p[1] = p[2]}
NumChildren(shape, dim) == IF shape = "hypercube" THEN PowA(2, dim) ELSE IF dim = 2 THEN 4 ELSE 12
\* cubature degree for the local mass matrices of the grid transfer
TwoLevelDeg(s, shape) == 2 * LocalDeg(s, shape) + 2
TwoLevelPlan(s, shape) == [space |-> s, deg |-> TwoLevelDeg(s, shape), full |-> SetToSeqA(PermPairsFull), cross |-> SetToSeqA(PermPairsCross)]

\* vector routes: classic = LinearFunctionalAssembler::assemble_vector, domain = LinearFunctionalAssemblyJob,
\* domainforce = ForceFunctionalAssemblyJob (force only)
FuncsOf(dim) ==
  LET Z == [k \in 1..dim |-> 0]
      E1 == [k \in 1..dim |-> IF k = 1 THEN 1 ELSE 0]
      E11 == [k \in 1..dim |-> IF k <= 2 THEN 1 ELSE 0]
      E2 == [k \in 1..dim |-> IF k = dim THEN 2 ELSE 0]
      E21 == [k \in 1..dim |-> IF k = 1 THEN 2 ELSE IF k = 2 THEN 1 ELSE 0]
  IN {[name |-> "force", f |-> Z], [name |-> "force", f |-> E1], [name |-> "force", f |-> E11],
      [name |-> "laplacefn", f |-> E2], [name |-> "laplacefn", f |-> E21]}
VecRoutes(fn) == {"classic", "domain"} \cup (IF fn.name = "force" THEN {"domainforce"} ELSE {})

\* ------------------------------------------------------------------------------------------------------
\* identities of a job
\* ------------------------------------------------------------------------------------------------------
MatIds(op, shape, dim, class, T, R) ==
  {id \in {[u |-> u, v |-> v, mode |-> m, fd |-> FormDeg(op, u, v)] :
             u \in IdMonos(R, shape, dim, class), v \in IdMonos(T, shape, dim, class), m \in {"box", "poly"}} :
     id.mode \in ModesFor(dim, class, id.fd, {t.e : t \in RangeA(Form(op, dim, id.u, id.v))})}

VecIds(fn, shape, dim, class, T) ==
  {id \in {[u |-> u, mode |-> m, fd |-> FuncDeg(fn) + TotDeg(u)] : u \in IdMonos(T, shape, dim, class), m \in {"box", "poly"}} :
     id.mode \in ModesFor(dim, class, id.fd, {t.e : t \in RangeA(FuncForm(fn, dim, id.u))})}

\* ------------------------------------------------------------------------------------------------------
\* plans: everything that is to be executed for one (shape, dim, class, test, trial)
\* ------------------------------------------------------------------------------------------------------
CONSTANTS DegSlack,      \* rules auto-degree:k for k in Req..Req+DegSlack
          PlanShapes,    \* subset of Shapes
          PlanDims,      \* subset of {2, 3}
          PairKind       \* "same" | "mixed" | "all": which <<test, trial>> pairs
ASSUME DegSlack \in 0..3 /\ PlanShapes \subseteq Shapes /\ PlanDims \subseteq {2, 3}

SamePairs == {<<s, s>> : s \in Spaces}
\* velocity/pressure pairs in both roles (gradient B and divergence D), and two conforming spaces of different degree
MixedPairs == {<<"lagrange2", "disc1">>, <<"disc1", "lagrange2">>, <<"crrt", "disc0">>, <<"disc0", "crrt">>,
               <<"lagrange1", "lagrange2">>}
PlanPairs == CASE PairKind = "same" -> SamePairs [] PairKind = "mixed" -> MixedPairs [] OTHER -> SamePairs \cup MixedPairs

\* alpha of the second assembly as numerator over 2 (-1/2, 2, 1): the result must be (1 + alpha) * first assembly
Alphas == <<-1, 4, 2>>

MatJob(op, shape, dim, class, T, R, sl) ==
  [k |-> "mat", op |-> op, deg |-> ReqDegMat(shape, dim, class, T, R, op) + sl, alphas |-> Alphas,
   routes |-> SetToSeqA(MatRoutes(op, shape, dim, T, R)), ref |-> RefRoute(op),
   vroutes |-> IF sl = 0 THEN SetToSeqA(MatVRoutes(op, T, R)) ELSE << >>,
   ids |-> SetToSeqA(MatIds(op, shape, dim, class, T, R))]
VecJob(fn, shape, dim, class, T, sl) ==
  [k |-> "vec", fn |-> fn, deg |-> ReqDegVec(shape, dim, class, T, fn) + sl, alphas |-> Alphas,
   routes |-> SetToSeqA(VecRoutes(fn)), ref |-> "classic",
   ids |-> SetToSeqA(VecIds(fn, shape, dim, class, T))]

MatOps(shape, dim, class, T, R) ==
  {o \in OpsOf(dim) : OpSensible(o, shape, dim, class, T, R) /\ MatRoutes(o, shape, dim, T, R) # {}}
MatJobs(shape, dim, class, T, R) ==
  {MatJob(op, shape, dim, class, T, R, sl) : op \in MatOps(shape, dim, class, T, R), sl \in 0..DegSlack}
VecJobs(shape, dim, class, T) ==
  {VecJob(fn, shape, dim, class, T, sl) : fn \in FuncsOf(dim), sl \in 0..DegSlack}
GDJobs(shape, dim, class, V, P) ==
  IF <<V, P>> \in GDPairs THEN {GDJob(shape, dim, class, V, P, sl) : sl \in 0..DegSlack} ELSE {}
BlkJob(bop, shape, dim, class, T, sl) ==
  [k |-> "blk", bop |-> bop, deg |-> BReqDeg(bop, shape, dim, class, T) + sl, alphas |-> Alphas,
   routes |-> SetToSeqA(BRoutes(bop, shape, T)), ref |-> BRef(bop), blocks |-> BlocksOf(bop, dim),
   vroutes |-> IF sl = 0 THEN SetToSeqA(BVRoutes(bop, shape, T)) ELSE << >>,
   probes |-> IF sl = 0 THEN BProbes(bop, shape, dim, class, T) ELSE << >>]
BlkJobs(shape, dim, class, T) ==
  {BlkJob(bop, shape, dim, class, T, sl) : bop \in {b \in BOpsOf(dim) : BOpSensible(b, shape, dim, class, T)}, sl \in 0..DegSlack}

Plans == {[shape |-> sh, dim |-> d, class |-> cl, test |-> pr[1], trial |-> pr[2]] :
            sh \in PlanShapes, d \in PlanDims, cl \in Classes, pr \in PlanPairs}
PlanOK(p) == (p.shape = "simplex" => p.class # "general")     \* straight simplices are affine

VARIABLE plan
Init == plan \in {p \in Plans : PlanOK(p)}
Next == UNCHANGED plan
Spec == Init /\ [][Next]_plan

JobsOf(p) == SetToSeqA(MatJobs(p.shape, p.dim, p.class, p.test, p.trial))
             \o (IF p.test = p.trial THEN SetToSeqA(VecJobs(p.shape, p.dim, p.class, p.test)) ELSE << >>)
             \o (IF p.test = p.trial THEN SetToSeqA(BlkJobs(p.shape, p.dim, p.class, p.test)) ELSE << >>)
             \o SetToSeqA(GDJobs(p.shape, p.dim, p.class, p.test, p.trial))
             \o (IF p.test = p.trial THEN SetToSeqA(BParJobs(p.shape, p.dim, p.class, p.test)) ELSE << >>)

Emit == PrintT(ToJson([plan |-> plan, jobs |-> JobsOf(plan),
                       twolevel |-> IF plan.test = plan.trial /\ plan.class = "box" THEN <<TwoLevelPlan(plan.test, plan.shape)>> ELSE << >>]))

\* sanity laws of the catalogue, evaluated by TLC on every plan
\* the two closed forms agree on the unit square (one cell, G = 1)
MomLaw == \A e \in PSet(2, 2) :
            LET P == <<<<0, 0>>, <<1, 0>>, <<0, 1>>, <<1, 1>>>>
                T == CellTris("hypercube", P)
            IN (TriMom24(T[1][1], T[1][2], T[1][3], e) + TriMom24(T[2][1], T[2][2], T[2][3], e)) * BoxScale(2)
                 = MomBox(e) * PolyScale(1, TotDeg(e))
\* symmetric operators have symmetric forms; kernel operators annihilate constants
FormLaw == \A op \in OpsOf(plan.dim) : \A u, v \in PSet(plan.dim, 1) :
             /\ (IsSymmetric(op) => \A e \in PSet(plan.dim, 2) :
                   SumA([q \in 1..Len(Form(op, plan.dim, u, v)) |-> IF Form(op, plan.dim, u, v)[q].e = e THEN Form(op, plan.dim, u, v)[q].c ELSE 0])
                   = SumA([q \in 1..Len(Form(op, plan.dim, v, u)) |-> IF Form(op, plan.dim, v, u)[q].e = e THEN Form(op, plan.dim, v, u)[q].c ELSE 0]))
             /\ (KernelTrial(op) => Form(op, plan.dim, [k \in 1..plan.dim |-> 0], v) = << >>)
             /\ (KernelTest(op) => Form(op, plan.dim, u, [k \in 1..plan.dim |-> 0]) = << >>)
\* the probe fields separate every blocked operator of the catalogue from its block-transpose (the operator that applies
\* every dim x dim block transposed, e.g. Vector * Matrix instead of Matrix * Vector in a matrix-free route): whenever the
\* block structure is not symmetric there are a probe field, a row and a test monomial of degree <= 1 whose ApplyBilinear
\* integrands differ as polynomials -- decided on the monomials every velocity space contains on every mesh class but "general" 3D
PolyCoef(p, e) == SumA([q \in 1..Len(p) |-> IF p[q].e = e THEN p[q].c ELSE 0])
PolyEq(p, q) == \A e \in {p[k].e : k \in 1..Len(p)} \cup {q[k].e : k \in 1..Len(q)} : PolyCoef(p, e) = PolyCoef(q, e)
ProbeFormT(bop, dim, n, row, v) ==       \* the same with block (c, row) in the place of block (row, c)
  FlatA([c \in 1..dim |->
     LET B == BlockOf(bop, dim, c, row)   f == ConvField(dim, n)[c] IN
     FlatA([q \in 1..Len(f) |-> LET F == Form(B.op, dim, f[q].e, v) IN [t \in 1..Len(F) |-> ScaleT(B.s * f[q].c, F[t])]])])
BlockSymmetric(bop, dim) ==
  \A r, c \in 1..dim : \A u, v \in PSet(dim, 1) :
     LET A == BlockOf(bop, dim, r, c)   B == BlockOf(bop, dim, c, r)
     IN PolyEq([t \in 1..Len(Form(A.op, dim, u, v)) |-> ScaleT(A.s, Form(A.op, dim, u, v)[t])],
               [t \in 1..Len(Form(B.op, dim, u, v)) |-> ScaleT(B.s, Form(B.op, dim, u, v)[t])])
ProbeLaw == \A bop \in BOpsOf(plan.dim) :
              \/ BlockSymmetric(bop, plan.dim)
              \/ \E n \in {k \in 0..2 : k = 0 => ~BTrialDeriv(bop)} : \E row \in 1..plan.dim : \E v \in PSet(plan.dim, 1) :
                    ~PolyEq(ProbeForm(bop, plan.dim, n, row, v), ProbeFormT(bop, plan.dim, n, row, v))
=============================================================================
