SPECIFICATION Spec
CONSTANTS Seed = 1 BaseLevel = 2
INVARIANTS WellFormed CallsAccepted ShapeAccepted Contracts RateBelowHalf LevelIndependent
CHECK_DEADLOCK FALSE
