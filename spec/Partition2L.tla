------------------------------- MODULE Partition2L -------------------------------
(* C12, two-layer (recursive) partitioning: the base mesh is split into PARENT patches, every parent patch into     *)
(* CHILD patches; the halos between children of different parents are derived from the parent halos by               *)
(* Geometry::PatchHaloSplitter (route of PartiDomainControlBase::_split_basemesh_halos), the halos between siblings   *)
(* by extract_patch on the parent node, the mesh parts by PatchMeshPartSplitter applied twice.                       *)
(*                                                                                                                  *)
(* A two-layer level Lv2 holds                                                                                       *)
(*   Lv2.base            base mesh; its first np mesh parts "P<p>" are the parent patch parts (parent -> base maps)   *)
(*   Lv2.parents[p+1]    [rank, first, nchild, mesh, comm, halos]: the parent patch mesh, whose first nchild mesh      *)
(*                       parts "q<k>" are the child patch parts (child -> parent maps)                                *)
(*   Lv2.patches[c+1]    the child patches in global rank order (rank = first(parent) + local)                        *)
(* The specification composes the maps child -> parent -> base itself (ChildLevel) and then demands of the child     *)
(* layer EXACTLY the invariants of Partition.tla: the children are a partition of the BASE mesh (Cover, Injective,    *)
(* PatchIsSubmesh), a child's communication ranks are all children - siblings or not - that share a vertex with it   *)
(* (NeighbourSymmetricComplete), both halos of a pair list the brute-force shared entities Ent(c,d) \cap Ent(c',d) in *)
(* the same order (HaloAgree), and the twice split mesh parts hold the entities of the base part inside the child     *)
(* (SplitPartsOK).  The parent layer is judged as an ordinary single-layer level (ParentLevel).                      *)
EXTENDS Partition

ParentOfChild(Lv2, c) == Lv2.patches[c + 1].parent
LocalOfChild(Lv2, c) == Lv2.patches[c + 1].local

Shape2LOK(C, Lv2) ==
  /\ Len(Lv2.parents) = C.np /\ Len(Lv2.patches) = C.nranks /\ Len(Lv2.base.parts) >= C.np
  /\ \A p \in 0..(C.np - 1) :
       /\ Lv2.parents[p + 1].rank = p /\ Lv2.parents[p + 1].nchild >= 1
       /\ Len(Lv2.parents[p + 1].mesh.parts) >= Lv2.parents[p + 1].nchild
       /\ PartTargetsOK(Lv2.base, Lv2.base.parts[p + 1], C.dim)
       /\ WellFormed(Lv2.parents[p + 1].mesh, C.fam, C.dim)
       /\ \A k \in 1..Lv2.parents[p + 1].nchild :
            PartTargetsOK(Lv2.parents[p + 1].mesh, Lv2.parents[p + 1].mesh.parts[k], C.dim)
       \* the parent mesh has exactly the entities its patch part maps (so that the composition is defined)
       /\ \A d \in 0..C.dim : N(Lv2.parents[p + 1].mesh, d) = Len(Lv2.base.parts[p + 1].t[d + 1])
  /\ \A c \in 0..(C.nranks - 1) :
       LET ch == Lv2.patches[c + 1] IN
         /\ ch.rank = c /\ ch.parent \in 0..(C.np - 1)
         /\ ch.local \in 0..(Lv2.parents[ch.parent + 1].nchild - 1)
         /\ c = Lv2.parents[ch.parent + 1].first + ch.local

\* composition of the target sets: child-local entity -> parent-local entity -> base entity
ComposedPart(C, Lv2, c) ==
  LET p  == ParentOfChild(Lv2, c)
      pm == Lv2.base.parts[p + 1].t
      cm == Lv2.parents[p + 1].mesh.parts[LocalOfChild(Lv2, c) + 1].t
  IN [name |-> "child", topo |-> FALSE,
      t |-> [d \in 1..(C.dim + 1) |-> [j \in 1..Len(cm[d]) |-> pm[d][cm[d][j] + 1]]]]

\* the child layer as a single-layer level over the base mesh
ChildLevel(C, Lv2) ==
  [base |-> [n |-> Lv2.base.n, X |-> Lv2.base.X, idx |-> Lv2.base.idx,
             parts |-> [c \in 1..C.nranks |-> ComposedPart(C, Lv2, c - 1)] \o SubSeq(Lv2.base.parts, C.np + 1, Len(Lv2.base.parts))],
   patches |-> Lv2.patches]
\* the parent layer as a single-layer level
ParentLevel(C, Lv2) == [base |-> Lv2.base, patches |-> Lv2.parents]
ParentCase(C) == [fam |-> C.fam, dim |-> C.dim, nranks |-> C.np]

=============================================================================
