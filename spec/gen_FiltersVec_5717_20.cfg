SPECIFICATION Spec
CONSTANTS Family = "chain" MinN = 0 MaxN = 2 BS = 2 Depth = 3 Pal = 1
INVARIANTS FilterOK ExactDomain ConstraintHolds ComplementHolds IdempotentHolds Emit
CHECK_DEADLOCK FALSE
