SPECIFICATION Spec
CONSTANTS MaxD = 2 MaxI = 2 MaxDeg = 2
INVARIANTS CsrValid Emit
CHECK_DEADLOCK FALSE
