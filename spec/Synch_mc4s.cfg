SPECIFICATION Spec
CONSTANTS NR = 4 ND = 1
INVARIANTS Sync0Correct RecvOnce NoLostMessage
