SPECIFICATION GenSpec
CONSTANTS NR = 3 ND = 3
INVARIANT Emit
