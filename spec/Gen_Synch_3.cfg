SPECIFICATION GenSpec
CONSTANTS NR = 3 ND = 3 RENK = 2
INVARIANTS Emit LawRenum
