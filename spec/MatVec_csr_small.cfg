SPECIFICATION Spec
CONSTANTS Fmt = "csr" MaxM = 2 MaxN = 2 BH = 1 BW = 1 Palette = 1 MaxNnz = 99
INVARIANTS RepValid TransposeConsistent AlphaZero Emit
CHECK_DEADLOCK FALSE
