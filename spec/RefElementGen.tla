---------------------------- MODULE RefElementGen ----------------------------
(* C15, direction G: for every family with an exact reference basis the specification emits the integer          *)
(* numerators of all basis values, gradients (formal derivatives) and Hessians at dyadic lattice points of the    *)
(* reference cell; harness/c15_element.cpp evaluates the real Evaluator::eval_ref_* there and compares with ==.   *)
(* All numerators share the denominator  den = BasisDen * S^D.                                                    *)
EXTENDS RefElement, Json

Shapes == {<<"simplex", 2>>, <<"simplex", 3>>, <<"hypercube", 1>>, <<"hypercube", 2>>, <<"hypercube", 3>>}
VARIABLE cur
Init == cur \in {x \in {<<el, sh>> : el \in Elements, sh \in Shapes} : HasExactBasis(x[1], x[2][1], x[2][2])}
Next == UNCHANGED cur
Spec == Init /\ [][Next]_cur

El == cur[1]  Fm == cur[2][1]  Dm == cur[2][2]

\* lattice coordinates per axis (numerators over PointScale)
Axis == IF Fm = "hypercube" THEN (IF Dm <= 2 THEN -4..4 ELSE {-4, -3, 0, 2, 4})
        ELSE (IF Dm = 2 THEN 0..8 ELSE {0, 1, 2, 3, 4, 6, 8})
InCell(n) == Fm = "hypercube" \/ TupleSum(n, Dm) <= 8
Lattice == {n \in [1..Dm -> Axis] : InCell(n)}

Emit ==
  LET T == TLCEval(FamilyTable(El, Fm, Dm))
      nl == Len(T.layout)
      G == TLCEval([j \in 1..nl |-> GradOf(T, j)])
      H == TLCEval([j \in 1..nl |-> HessOf(T, j)])
      at(n) == [n |-> n,
                v |-> [j \in 1..nl |-> PEval(T.basis[j], n, T.S, T.D)],
                g |-> [j \in 1..nl |-> [a \in 1..Dm |-> PEval(G[j][a], n, T.S, T.D)]],
                h |-> [j \in 1..nl |-> [a \in 1..Dm |-> [b \in 1..Dm |-> PEval(H[j][a][b], n, T.S, T.D)]]]]
  IN PrintT(ToJson([kind |-> "ref", el |-> El, fam |-> Fm, dim |-> Dm, S |-> T.S, den |-> T.den * IPow(T.S, T.D), nloc |-> nl, rv |-> [k \in 1..NVerts(Fm, Dm) |-> RefVertex(Fm, Dm, k - 1)],
                    pts |-> SetToSeq({at(n) : n \in Lattice})]))
=============================================================================
