------------------------------- MODULE PrecondUzawa -------------------------------
(* C08 extension: Solver::UzawaPrecond (kernel/solver/uzawa_precond.hpp) applies exactly the   *)
(* block operator of its UzawaType on the saddle-point system [A B; D 0].                     *)
(*                                                                                            *)
(* The preconditioner is a composition: it owns no approximation of A^-1 or S^-1 itself but   *)
(* two inner solvers  SolA : velocity -> velocity,  SolS : pressure -> pressure  (any         *)
(* SolverBase; each applies the correction filter of its component).  With the defect         *)
(* filters FdV, FdP of the two components the four documented operators are                   *)
(*   diagonal  u = SolA f_v                    p = SolS f_p                                   *)
(*   lower     u = SolA f_v                    p = SolS FdP(f_p - D u)                        *)
(*   upper     p = SolS f_p                    u = SolA FdV(f_v - B p)                        *)
(*   full      u' = SolA f_v   p = SolS FdP(f_p - D u')   u = SolA FdV(f_v - B p)             *)
(* Part 3 ties them to the documented block systems: when SolA = A^-1 and SolS = S^-1 exactly *)
(* (no filters) the result solves  [A 0; 0 S], [A 0; D S], [A B; 0 S]  resp. - for `full` -   *)
(* [I 0; D A^-1 I][A B; 0 S] = [A B; D S + D A^-1 B], which for the Schur complement          *)
(* S = -D A^-1 B is the saddle-point matrix [A B; D 0] itself: full Uzawa with exact inner    *)
(* solvers is the exact inverse (law FullIsSaddleInverse).                                    *)
(* NOTE (documentation finding, not a code defect): the class documentation writes the left   *)
(* factor of `full` as [I 0; -D A^-1 I]; that is its INVERSE (the operator applied to the      *)
(* right-hand side).  With the documented sign the system would be [A B; -D S - D A^-1 B],    *)
(* which is not the saddle-point matrix for S = -D A^-1 B.  The code implements the correct   *)
(* factorisation; DocumentedFullSystem below is the literal formula, for reference.           *)
(*                                                                                            *)
(* Inner solvers of the generated cases ("flavours"):                                         *)
(*   mock   both are general dense linear maps MA (n x n), MS (m x m) held by a mock SolverBase *)
(*          which captures its matrix at init_numeric, applies the component's correction     *)
(*          filter and logs every call - so the forwarding of the life-cycle calls (order,    *)
(*          auto_init_s) and of a failing inner solver (Status::aborted) is specified, too    *)
(*   feat   SolA = JacobiPrecond(A, filter_v, omega) (caches omega/diag at init_numeric),     *)
(*          SolS = MatrixPrecond(MS, filter_p) (reads its matrix at apply)                    *)
(*   inv    mock with MA = A^-1 for a matrix A with dyadic inverse, MS = S^-1 likewise        *)
(*   schur  as inv with S = -D A^-1 B (only systems whose Schur complement has a dyadic       *)
(*          inverse are generated)                                                            *)
(* Part 2 is the life-cycle machine of C08 (init_symbolic / init_numeric / apply / value      *)
(* update / done_numeric / done_symbolic), extended by the calls the application makes on    *)
(* SolS itself when auto_init_s = false.  B and D are read at apply; between a value update  *)
(* and the next init_numeric the property leaves the result open and the specification      *)
(* allows every mixture of old and new values for SolA, SolS and (B, D).                     *)
EXTENDS DyadicLA, Json, TLC

CONSTANTS Sizes,      \* set of 10 n + m: velocity / pressure dimension (configuration files cannot hold tuples)
          Types,      \* subset of {"diagonal", "lower", "upper", "full"}
          Flavs,      \* subset of {"mock", "feat", "inv", "schur"}
          FiltSel,    \* subset of {"none", "v", "mean", "unit", "vmean"}
          Autos,      \* subset of BOOLEAN: auto_init_s
          Fails,      \* subset of {"none", "A", "S"}: a failing inner solver (mock only)
          Pals,       \* value palettes (1..3); the update switches to the next palette
          MinNz, MaxNz,   \* bounds on the number of pattern entries of B plus D
          Mode,       \* "canon": canonical history; "hist": every history of MaxHist calls
          MaxHist

VARIABLES n, m, PB, PD, pal, typ, flav, fsel, auto, fail,     \* the chosen input
          mats,                                                 \* mats[c]: the matrices / inner solver maps of value set c
          tab,                                                  \* tab[c][k]: the operator with the values c applied to test vector k
          lifeU, lifeS, cur, atA, atS, hist
vars == <<n, m, PB, PD, pal, typ, flav, fsel, auto, fail, mats, tab, lifeU, lifeS, cur, atA, atS, hist>>
input == <<n, m, PB, PD, pal, typ, flav, fsel, auto, fail, mats, tab>>

\* ---- inputs -------------------------------------------------------------------------------------------
NextPal(pl) == (pl % 3) + 1
PalOf(c) == IF c = 1 THEN pal ELSE NextPal(pal)
\* B (n x m) and D (m x n): independent values, so D # B^T
BPalette == <<D(1), D(-2), H(1, 1), D(-1), D(2), H(-1, 1), D(1)>>
BVal(i, q, pl) == BPalette[((i * 3 + q * 5 + pl) % 7) + 1]
DVal(q, j, pl) == BPalette[((q * 2 + j * 3 + pl * 4) % 7) + 1]
BMat(nn, mm, pb, pl) == MatOf(nn, mm, LAMBDA i, q : IF <<i, q>> \in pb THEN BVal(i, q, pl) ELSE Zero)
DMat(nn, mm, pd, pl) == MatOf(mm, nn, LAMBDA q, j : IF <<q, j>> \in pd THEN DVal(q, j, pl) ELSE Zero)
\* general dense maps of the mock solvers (non-symmetric, with a zero entry)
GenPalette == <<D(1), H(1, 1), D(-1), D(2), Zero, H(-3, 1), D(1), H(1, 2)>>
MockA(nn, pl) == MatOf(nn, nn, LAMBDA i, j : GenPalette[((i * 5 + j * 3 + pl) % 8) + 1])
MockS(mm, pl) == MatOf(mm, mm, LAMBDA i, j : GenPalette[((i * 3 + j * 7 + pl * 2) % 8) + 1])
\* matrix handed to JacobiPrecond: power-of-two diagonal, off-diagonal entries present (Jacobi ignores them)
JacDiag(i, pl) == <<D(2), D(4), H(1, 1), D(1)>>[((i + pl) % 4) + 1]
JacA(nn, pl) == MatOf(nn, nn, LAMBDA i, j : IF i = j THEN JacDiag(i, pl) ELSE GenPalette[((i + j * 3 + pl) % 8) + 1])
JacOmega(nn) == <<H(3, 1), H(1, 1), One>>[nn]      \* the relaxation parameter is fixed at construction
\* matrices with dyadic inverse: unit lower triangular times upper triangular with power-of-two diagonal
InvL(i, j, pl) == IF i = j THEN One ELSE IF i > j THEN <<D(1), D(-2), H(1, 1)>>[((i + j + pl) % 3) + 1] ELSE Zero
InvU(i, j, pl) == IF i = j THEN <<D(2), H(1, 1), D(-1), D(4)>>[((i + pl) % 4) + 1]
                  ELSE IF i < j THEN <<D(-1), D(1), D(2)>>[((i * 2 + j + pl) % 3) + 1] ELSE Zero
InvMat(k, pl) == RMatMul(k, k, k, MatOf(k, k, LAMBDA i, j : InvL(i, j, pl)), MatOf(k, k, LAMBDA i, j : InvU(i, j, pl)))
NegMat(r, c, M) == MatOf(r, c, LAMBDA i, j : Neg(M[i][j]))

\* the system matrix A (flavours inv, schur, feat) - the Uzawa preconditioner itself never reads it
AMat(fl, nn, pl) == IF fl = "feat" THEN JacA(nn, pl) ELSE InvMat(nn, pl)
\* the linear maps of the inner solvers (before their correction filter)
MapA(fl, nn, pl) ==
  CASE fl = "mock" -> MockA(nn, pl)
    [] fl = "feat" -> MatOf(nn, nn, LAMBDA i, j : IF i = j THEN Div(JacOmega(nn), JacDiag(i, pl)) ELSE Zero)
    [] OTHER       -> Inverse(nn, InvMat(nn, pl)).a
\* Schur complement -D A^-1 B and the pressure matrix S of flavour inv
SchurOf(nn, mm, pb, pd, pl) ==
  NegMat(mm, mm, RMatMul(mm, nn, mm, DMat(nn, mm, pd, pl), RMatMul(nn, nn, mm, MapA("inv", nn, pl), BMat(nn, mm, pb, pl))))
SMat(fl, nn, mm, pb, pd, pl) == IF fl = "schur" THEN SchurOf(nn, mm, pb, pd, pl) ELSE InvMat(mm, pl + 1)
MapS(fl, nn, mm, pb, pd, pl) ==
  CASE fl \in {"mock", "feat"} -> MockS(mm, pl)
    [] OTHER -> Inverse(mm, SMat(fl, nn, mm, pb, pd, pl)).a
InnerOK(fl, nn, mm, pb, pd, pl) ==
  fl \in {"inv", "schur"} => Inverse(nn, InvMat(nn, pl)).st = "ok" /\ Inverse(mm, SMat(fl, nn, mm, pb, pd, pl)).st = "ok"

\* filters: velocity UnitFilter on FV; pressure none / MeanFilter (primal (1,..), dual (1,3,..)) / UnitFilter on {m}
FVOf(fs, nn) == IF fs \in {"v", "vmean"} THEN {nn} ELSE IF fs = "unit" THEN {1} ELSE {}
FPKind(fs) == IF fs \in {"mean", "vmean"} THEN "mean" ELSE IF fs = "unit" THEN "unit" ELSE "none"
MeanP(mm) == Vec(mm, LAMBDA i : One)
MeanD(mm) == Vec(mm, LAMBDA i : <<D(1), D(3), D(4)>>[i])
MeanVol(mm) == DDot(MeanP(mm), MeanD(mm))
UnitF(v, S) == Vec(Len(v), LAMBDA i : IF i \in S THEN Zero ELSE v[i])
FdefV(fs, v) == UnitF(v, FVOf(fs, Len(v)))
FcorV(fs, v) == UnitF(v, FVOf(fs, Len(v)))
\* MeanFilter: def  v - ((v.p)/vol) d;  cor  v - ((v.d)/vol) p
FdefP(fs, q) ==
  CASE FPKind(fs) = "none" -> q
    [] FPKind(fs) = "unit" -> UnitF(q, {Len(q)})
    [] OTHER -> RVSub(q, RVScale(Div(DDot(q, MeanP(Len(q))), MeanVol(Len(q))), MeanD(Len(q))))
FcorP(fs, q) ==
  CASE FPKind(fs) = "none" -> q
    [] FPKind(fs) = "unit" -> UnitF(q, {Len(q)})
    [] OTHER -> RVSub(q, RVScale(Div(DDot(q, MeanD(Len(q))), MeanVol(Len(q))), MeanP(Len(q))))

\* test right-hand sides: unit vectors, a generic vector g and 2g - e_1
GenV(len) == Vec(len, LAMBDA i : <<D(1), D(-2), D(3), H(1, 1), D(-1), D(2)>>[i])
Tests(len) == Vec(len + 2, LAMBDA k : IF k <= len THEN UnitVec(len, k)
                                      ELSE IF k = len + 1 THEN GenV(len) ELSE RVSub(RVScale(D(2), GenV(len)), UnitVec(len, 1)))

\* ---- Part 1: the operators ---------------------------------------------------------------------------------
\* ma, ms: maps of the inner solvers; bm, dm: B and D; f = (f_v, f_p) flat
UzOp(ty, fs, nn, mm, ma, ms, bm, dm, f) ==
  LET fv == SubVec(f, 1, nn)
      fp == SubVec(f, nn + 1, mm)
      SolA(v) == FcorV(fs, RMatVec(nn, nn, ma, v))
      SolS(q) == FcorP(fs, RMatVec(mm, mm, ms, q))
  IN CASE ty = "diagonal" -> SolA(fv) \o SolS(fp)
       [] ty = "lower" -> LET u == SolA(fv) IN u \o SolS(FdefP(fs, RVSub(fp, RMatVec(mm, nn, dm, u))))
       [] ty = "upper" -> LET p == SolS(fp) IN SolA(FdefV(fs, RVSub(fv, RMatVec(nn, mm, bm, p)))) \o p
       [] ty = "full"  -> LET u1 == SolA(fv)
                              p == SolS(FdefP(fs, RVSub(fp, RMatVec(mm, nn, dm, u1))))
                          IN SolA(FdefV(fs, RVSub(fv, RMatVec(nn, mm, bm, p)))) \o p
\* the inner applications one apply() makes, in order
CallsOf(ty) == CASE ty = "diagonal" -> <<"A", "S">> [] ty = "lower" -> <<"A", "S">> [] ty = "upper" -> <<"S", "A">> [] OTHER -> <<"A", "S", "A">>
\* ... up to and including the first failing one
RECURSIVE UpToFail(_, _)
UpToFail(cs, fl) == IF cs = <<>> THEN <<>> ELSE IF Head(cs) = fl THEN <<Head(cs)>> ELSE <<Head(cs)>> \o UpToFail(Tail(cs), fl)

\* the matrices of value set c (1 = initial values, 2 = updated values)
Mats(c) == [ma |-> MapA(flav, n, PalOf(c)), ms |-> MapS(flav, n, m, PB, PD, PalOf(c)), bm |-> BMat(n, m, PB, PalOf(c)), dm |-> DMat(n, m, PD, PalOf(c))]
\* operator with the values a (SolA), s (SolS), bd (B, D) taken from M[a], M[s], M[bd]
OpWith(M, a, s, bd, f) == UzOp(typ, fsel, n, m, M[a].ma, M[s].ms, M[bd].bm, M[bd].dm, f)
\* results allowed when SolA holds the values a, SolS the values s and the matrices the values cur: B and D are read at apply;
\* while something is stale every mixture of old and new inner solvers is accepted, and the all-old operator
Allowed(M, a, s, kk, f) ==
  IF a = cur /\ s = cur THEN {tab[cur][kk]}
  ELSE {OpWith(M, x, y, cur, f) : x \in {a, cur}, y \in {s, cur}} \cup {OpWith(M, a, s, a, f)}

\* the input lies in the exact domain: sums and products of dyadic values are dyadic, so only the quotients matter - the
\* inverses of flavours inv / schur (all pivots powers of two) and the division by the volume of the mean filter
ExactInput(nn, mm, pb, pd, pl, fl) ==
  /\ InnerOK(fl, nn, mm, pb, pd, pl) /\ InnerOK(fl, nn, mm, pb, pd, NextPal(pl))
  /\ IsPow2(MeanVol(mm))

\* ---- Part 2: life cycle --------------------------------------------------------------------------------------
Init ==
  /\ \E sz \in Sizes : n = sz \div 10 /\ m = sz % 10
  /\ PB \in SUBSET ((1..n) \X (1..m)) /\ PD \in SUBSET ((1..m) \X (1..n))
  /\ Cardinality(PB) + Cardinality(PD) >= MinNz /\ Cardinality(PB) + Cardinality(PD) <= MaxNz
  /\ pal \in Pals /\ typ \in Types /\ flav \in Flavs /\ fsel \in FiltSel /\ auto \in Autos /\ fail \in Fails
  /\ (flav \in {"inv", "schur"} => fsel = "none")          \* the block-system laws are stated without filters
  /\ (fail # "none" => flav = "mock")
  /\ (~auto => flav = "mock")
  /\ ExactInput(n, m, PB, PD, pal, flav)
  /\ mats = <<Mats(1), Mats(2)>>
  /\ tab = LET TT == Tests(n + m) IN Vec(2, LAMBDA c : Vec(n + m + 2, LAMBDA k : OpWith(mats, c, c, c, TT[k])))
  /\ lifeU = "created" /\ lifeS = "created" /\ cur = 1 /\ atA = 0 /\ atS = 0 /\ hist = <<>>

CanonAuto == <<"IS", "IN", "AP", "UP", "AP", "IN", "AP", "AP", "DN", "UP", "IN", "AP", "DN", "DS">>
\* auto_init_s = false: the application drives SolS itself; after IN only SolA is fresh
CanonMan  == <<"sIS", "IS", "sIN", "IN", "AP", "UP", "IN", "AP", "sIN", "AP", "DN", "sDN", "sIN", "IN", "AP", "DN", "DS", "sDN", "sDS">>
Canon == IF auto THEN CanonAuto ELSE CanonMan
Enabled(op) == IF Mode = "canon" THEN Len(hist) < Len(Canon) /\ Canon[Len(hist) + 1] = op
               ELSE Len(hist) < MaxHist
Rec(op, exp, log, calls) == hist' = Append(hist, [op |-> op, exp |-> exp, log |-> log, calls |-> calls])
SLog(op) == IF auto THEN <<"S." \o op>> ELSE <<>>

InitSymbolic == /\ Enabled("IS") /\ lifeU = "created" /\ (auto => lifeS = "created")
                /\ lifeU' = "symbolic" /\ lifeS' = (IF auto THEN "symbolic" ELSE lifeS)
                /\ Rec("IS", <<>>, <<"A.IS">> \o SLog("IS"), <<>>) /\ UNCHANGED <<input, cur, atA, atS>>
InitNumeric  == /\ Enabled("IN") /\ lifeU \in {"symbolic", "numeric"} /\ (auto => lifeS \in {"symbolic", "numeric"})
                /\ lifeU' = "numeric" /\ atA' = cur
                /\ lifeS' = (IF auto THEN "numeric" ELSE lifeS) /\ atS' = (IF auto THEN cur ELSE atS)
                /\ Rec("IN", <<>>, <<"A.IN">> \o SLog("IN"), <<>>) /\ UNCHANGED <<input, cur>>
DoneNumeric  == /\ Enabled("DN") /\ lifeU = "numeric" /\ (auto => lifeS = "numeric")
                /\ lifeU' = "symbolic" /\ atA' = 0
                /\ lifeS' = (IF auto THEN "symbolic" ELSE lifeS) /\ atS' = (IF auto THEN 0 ELSE atS)
                /\ Rec("DN", <<>>, SLog("DN") \o <<"A.DN">>, <<>>) /\ UNCHANGED <<input, cur>>
DoneSymbolic == /\ Enabled("DS") /\ lifeU = "symbolic" /\ (auto => lifeS = "symbolic")
                /\ lifeU' = "created" /\ lifeS' = (IF auto THEN "created" ELSE lifeS)
                /\ Rec("DS", <<>>, SLog("DS") \o <<"A.DS">>, <<>>) /\ UNCHANGED <<input, cur, atA, atS>>
\* calls of the application on SolS (auto_init_s = false)
SInitSymbolic == ~auto /\ Enabled("sIS") /\ lifeS = "created" /\ lifeS' = "symbolic" /\ Rec("sIS", <<>>, <<"S.IS">>, <<>>)
                 /\ UNCHANGED <<input, lifeU, cur, atA, atS>>
SInitNumeric  == ~auto /\ Enabled("sIN") /\ lifeS \in {"symbolic", "numeric"} /\ lifeS' = "numeric" /\ atS' = cur /\ Rec("sIN", <<>>, <<"S.IN">>, <<>>)
                 /\ UNCHANGED <<input, lifeU, cur, atA>>
SDoneNumeric  == ~auto /\ Enabled("sDN") /\ lifeS = "numeric" /\ lifeS' = "symbolic" /\ atS' = 0 /\ Rec("sDN", <<>>, <<"S.DN">>, <<>>)
                 /\ UNCHANGED <<input, lifeU, cur, atA>>
SDoneSymbolic == ~auto /\ Enabled("sDS") /\ lifeS = "symbolic" /\ lifeS' = "created" /\ Rec("sDS", <<>>, <<"S.DS">>, <<>>)
                 /\ UNCHANGED <<input, lifeU, cur, atA, atS>>
\* one apply() per test vector; exp[k] = set of allowed results (empty when an inner solver fails: status aborted)
Apply == /\ Enabled("AP") /\ lifeU = "numeric" /\ lifeS = "numeric"
         /\ Rec("AP", IF fail = "none" THEN LET TT == Tests(n + m) IN Vec(n + m + 2, LAMBDA k : Allowed(mats, atA, atS, k, TT[k])) ELSE <<>>,
                <<>>, IF fail = "none" THEN CallsOf(typ) ELSE UpToFail(CallsOf(typ), fail))
         /\ UNCHANGED <<input, lifeU, lifeS, cur, atA, atS>>
UpdateValues == Enabled("UP") /\ cur' = 3 - cur /\ Rec("UP", <<>>, <<>>, <<>>) /\ UNCHANGED <<input, lifeU, lifeS, atA, atS>>

Next == InitSymbolic \/ InitNumeric \/ DoneNumeric \/ DoneSymbolic \/ Apply \/ UpdateValues
        \/ SInitSymbolic \/ SInitNumeric \/ SDoneNumeric \/ SDoneSymbolic
Spec == Init /\ [][Next]_vars

\* ---- Part 3: laws of the definitions (evaluated on every generated input) -------------------------------------------
T == Tests(n + m)
Linearity == hist = <<>> => \A c \in {1, 2} : tab[c][n + m + 2] = RVSub(RVScale(D(2), tab[c][n + m + 1]), tab[c][1])
\* the correction of a filtered velocity dof is zero; a mean-filtered pressure correction has dual mean zero
FilterLaw == hist = <<>> /\ fsel # "none" => \A c \in {1, 2}, k \in 1..(n + m + 2) :
   LET x == tab[c][k] IN
     /\ \A i \in FVOf(fsel, n) : x[i] = Zero
     /\ (FPKind(fsel) = "mean" => DDot(SubVec(x, n + 1, m), MeanD(m)) = Zero)
     /\ (FPKind(fsel) = "unit" => x[n + m] = Zero)
\* the documented block systems (exact inner solvers, no filters): K x = f
BlockSys(ty, A, S, bm, dm, ma) ==        \* (n + m) x (n + m)
  LET S2 == IF ty = "full" THEN MatOf(m, m, LAMBDA i, j : Add(S[i][j], RMatMul(m, n, m, dm, RMatMul(n, n, m, ma, bm))[i][j])) ELSE S
  IN MatOf(n + m, n + m, LAMBDA i, j :
       IF i <= n /\ j <= n THEN A[i][j]
       ELSE IF i <= n THEN (IF ty \in {"upper", "full"} THEN bm[i][j - n] ELSE Zero)
       ELSE IF j <= n THEN (IF ty \in {"lower", "full"} THEN dm[i - n][j] ELSE Zero)
       ELSE S2[i - n][j - n])
BlockLaw == hist = <<>> /\ flav \in {"inv", "schur"} => LET M == mats IN \A c \in {1, 2} :
   LET pl == PalOf(c)
       K == BlockSys(typ, InvMat(n, pl), SMat(flav, n, m, PB, PD, pl), M[c].bm, M[c].dm, M[c].ma)
   IN /\ InverseLaw(n, InvMat(n, pl), M[c].ma) /\ InverseLaw(m, SMat(flav, n, m, PB, PD, pl), M[c].ms)
      /\ \A k \in 1..(n + m + 2) : RMatVec(n + m, n + m, K, tab[c][k]) = T[k]
\* full Uzawa with the exact Schur complement inverts the saddle-point matrix [A B; D 0]
Saddle(A, bm, dm) == MatOf(n + m, n + m, LAMBDA i, j :
       IF i <= n /\ j <= n THEN A[i][j] ELSE IF i <= n THEN bm[i][j - n] ELSE IF j <= n THEN dm[i - n][j] ELSE Zero)
FullIsSaddleInverse == hist = <<>> /\ flav = "schur" /\ typ = "full" => LET M == mats IN \A c \in {1, 2} :
   LET K == Saddle(InvMat(n, PalOf(c)), M[c].bm, M[c].dm) IN \A k \in 1..(n + m + 2) : RMatVec(n + m, n + m, K, tab[c][k]) = T[k]
\* the literal formula of the class documentation for `full`: [I 0; -D A^-1 I][A B; 0 S] = [A B; -D  S - D A^-1 B]  (see NOTE above)
DocumentedFullSystem(A, S, bm, dm, ma) ==
  MatOf(n + m, n + m, LAMBDA i, j :
       IF i <= n /\ j <= n THEN A[i][j] ELSE IF i <= n THEN bm[i][j - n] ELSE IF j <= n THEN Neg(dm[i - n][j])
       ELSE Sub(S[i - n][j - n], RMatMul(m, n, m, dm, RMatMul(n, n, m, ma, bm))[i - n][j - n]))
ResultsExact == hist = <<>> => \A x \in {1, 2}, k \in 1..(n + m + 2) : VecExact(tab[x][k])
LifeOK == /\ lifeU \in {"created", "symbolic", "numeric"} /\ lifeS \in {"created", "symbolic", "numeric"}
          /\ (lifeU = "numeric" <=> atA # 0) /\ (lifeS = "numeric" <=> atS # 0)
          /\ (auto => lifeS = lifeU /\ atS = atA)

\* ---- Part 4: generator -----------------------------------------------------------------------------------------------
Final == IF Mode = "canon" THEN Len(hist) = Len(Canon) ELSE Len(hist) = MaxHist
SetToSeq(S) == LET RECURSIVE Go(_) Go(Q) == IF Q = {} THEN <<>> ELSE LET x == CHOOSE y \in Q : TRUE IN <<x>> \o Go(Q \ {x}) IN Go(S)
Emit == Final =>
  PrintT(ToJson([n |-> n, m |-> m, typ |-> typ, flav |-> flav, fsel |-> fsel, auto |-> auto, fail |-> fail,
                 FV |-> SetSeq(FVOf(fsel, n)), fp |-> FPKind(fsel), mp |-> MeanP(m), md |-> MeanD(m),
                 patB |-> MatOf(n, m, LAMBDA i, q : IF <<i, q>> \in PB THEN 1 ELSE 0),
                 patD |-> MatOf(m, n, LAMBDA q, j : IF <<q, j>> \in PD THEN 1 ELSE 0),
                 B1 |-> mats[1].bm, B2 |-> mats[2].bm, D1 |-> mats[1].dm, D2 |-> mats[2].dm,
                 A1 |-> AMat(flav, n, PalOf(1)), A2 |-> AMat(flav, n, PalOf(2)),
                 w |-> JacOmega(n),
                 MA1 |-> mats[1].ma, MA2 |-> mats[2].ma, MS1 |-> mats[1].ms, MS2 |-> mats[2].ms,
                 tests |-> T,
                 steps |-> [s \in 1..Len(hist) |-> [op |-> hist[s].op, log |-> hist[s].log, calls |-> hist[s].calls,
                             exp |-> [k \in 1..Len(hist[s].exp) |-> SetToSeq(hist[s].exp[k])]]]]))
=============================================================================
