------------------------------- MODULE Precond -------------------------------
(* C08: stationary preconditioners apply exactly their defining operator.     *)
(*                                                                            *)
(* Part 1 defines the operators in exact dyadic arithmetic (module Dyadic):   *)
(*   Jacobi   omega D^-1                                                      *)
(*   SOR      (D/omega + L)^-1                     (forward substitution)     *)
(*   SSOR     omega(2-omega) (D+omega U)^-1 D (D+omega L)^-1                  *)
(*   Poly     sum_{k<=m} (I - omega D^-1 F A)^k omega D^-1   (F = defect filter) *)
(*   ILU(p)   (LU)^-1, pattern = level-of-fill <= p (symbolic, pure           *)
(*            combinatorics), values = IKJ factorisation restricted to it     *)
(*   Scale    omega I,  Diagonal  diag(d),  Matrix  M                         *)
(* each followed by the correction filter (unit filter: zero on the filtered  *)
(* dofs).  Part 2 is the life-cycle machine: one action per public call       *)
(*   InitSymbolic, InitNumeric, Apply, DoneNumeric, DoneSymbolic              *)
(* plus UpdateValues (the application changes the matrix values, same         *)
(* pattern).  After InitNumeric the next Apply must equal the operator of the *)
(* CURRENT values; between an update and the next InitNumeric the result is   *)
(* unspecified by the property and the specification allows the operator of   *)
(* the old values, of the new values, or (Poly: cached diagonal, live matrix) *)
(* the mixture the code computes.  Part 3 are sanity laws of the definitions, *)
(* checked by TLC on every generated matrix (defining relations, LU = A on    *)
(* the pattern, complete fill => A^-1, linearity).  Part 4 prints every       *)
(* behaviour with the predicted results for the replayer.                     *)
EXTENDS Dyadic, Json, TLC

CONSTANTS NS,        \* matrix sizes
          Kinds,     \* subset of {"jacobi","sor","ssor","poly","ilu","scale","diagonal","matrix"}
          Pals,      \* value palettes for the initial values (1..3); the update switches to the next palette
          MinOff, MaxOff, \* bounds on the number of off-diagonal entries of the pattern
          Filters,   \* 0: no filter only, 1: also filtered dofs
          Mode,      \* "canon": the canonical history below; "hist": every history of MaxHist calls
          MaxHist

VARIABLES n, P, pal, kind, par, F,   \* the chosen input (constant along a behaviour, except par.w: set_omega)
          life, cur, atInit, hist,
          wAt                          \* relaxation parameter at the time of the last init_numeric (construction before)
vars == <<n, P, pal, kind, par, F, life, cur, atInit, wAt, hist>>

\* ---- inputs ------------------------------------------------------------------------------------------
OffPos(nn) == {ij \in (1..nn) \X (1..nn) : ij[1] # ij[2]}
\* off-diagonal values in {+-1, +-2, +-1/2}, diagonal values powers of two
OffVal(i, j, pl) ==
  LET k == (i * 3 + j * 5 + pl) % 4 IN
  CASE pl = 1 -> <<D(-1), D(2), D(1), D(-2)>>[k + 1]
    [] pl = 2 -> <<H(1, 1), D(-1), H(-1, 1), D(2)>>[k + 1]
    [] OTHER  -> <<D(1), D(1), D(-2), H(-1, 1)>>[k + 1]
DiagVal(i, pl) ==
  CASE pl = 1 -> <<D(2), D(4), D(1), D(2)>>[i]
    [] pl = 2 -> <<D(4), D(1), D(2), H(1, 1)>>[i]
    [] OTHER  -> <<D(1), D(2), D(4), D(4)>>[i]
Mat(nn, pat, pl) == Tup(nn, LAMBDA i : Tup(nn, LAMBDA j :
                       IF i = j THEN DiagVal(i, pl) ELSE IF <<i, j>> \in pat THEN OffVal(i, j, pl) ELSE Zero))
DiagVec(nn, pl) == Tup(nn, LAMBDA i : <<H(1, 1), D(-2), D(3), H(3, 2)>>[((i + pl) % 4) + 1])
NextPal(pl) == (pl % 3) + 1
AOf(c) == Mat(n, P, IF c = 1 THEN pal ELSE NextPal(pal))
DOf(c) == DiagVec(n, IF c = 1 THEN pal ELSE NextPal(pal))

\* test vectors: the unit vectors, a generic vector g and 2g - e_1 (linearity)
Unit(nn, k) == Tup(nn, LAMBDA i : IF i = k THEN One ELSE Zero)
Gen(nn) == Tup(nn, LAMBDA i : <<D(1), D(-2), D(3), H(1, 1)>>[i])
Tests(nn) == Tup(nn + 2, LAMBDA k : IF k <= nn THEN Unit(nn, k)
                                    ELSE IF k = nn + 1 THEN Gen(nn) ELSE VSub(VScale(D(2), Gen(nn)), Unit(nn, 1)))

Omegas == {H(1, 1), One, H(3, 1)}
Params(kd) ==
  CASE kd \in {"jacobi", "sor", "ssor"} -> {[w |-> w, m |-> 0, p |-> 0] : w \in Omegas}
    [] kd = "poly"  -> {[w |-> w, m |-> m, p |-> 0] : w \in {H(1, 1), One}, m \in 1..3}
    [] kd = "ilu"   -> {[w |-> One, m |-> 0, p |-> p] : p \in 0..3}
    [] kd = "scale" -> {[w |-> w, m |-> 0, p |-> 0] : w \in {H(1, 1), H(3, 1), D(2)}}
    [] OTHER        -> {[w |-> One, m |-> 0, p |-> 0]}

\* ---- Part 1: the operators -----------------------------------------------------------------------------
Filt(v, FF) == Tup(Len(v), LAMBDA i : IF i \in FF THEN Zero ELSE v[i])

\* code: inv_diag := omega / d (component_invert), result := inv_diag * b
JacobiOp(nn, A, w, b) == Tup(nn, LAMBDA i : Mul(Div(w, A[i][i]), b[i]))

\* (D/omega + L) x = b:  x_k = omega (b_k - sum_{j<k} a_kj x_j) / a_kk
RECURSIVE SorX(_, _, _, _, _)
SorX(nn, A, w, b, k) ==
  IF k = 0 THEN <<>>
  ELSE LET x == SorX(nn, A, w, b, k - 1)
           s == DSumTo(LAMBDA j : Mul(A[k][j], x[j]), k - 1)
       IN Append(x, Div(Mul(w, Sub(b[k], s)), A[k][k]))
SorOp(nn, A, w, b) == SorX(nn, A, w, b, nn)

\* (D + omega L) y = b;  (D + omega U) x = D y;  result omega (2 - omega) x
RECURSIVE SsorY(_, _, _, _, _)
SsorY(nn, A, w, b, k) ==
  IF k = 0 THEN <<>>
  ELSE LET y == SsorY(nn, A, w, b, k - 1)
           s == DSumTo(LAMBDA j : Mul(A[k][j], y[j]), k - 1)
       IN Append(y, Div(Sub(b[k], Mul(w, s)), A[k][k]))
\* backward sweep: returns the full-length tuple whose entries k..nn are final (entries below k are y)
RECURSIVE SsorBack(_, _, _, _, _)
SsorBack(nn, A, w, y, k) ==
  IF k > nn THEN y
  ELSE LET xs == SsorBack(nn, A, w, y, k + 1)
           s == DSumTo(LAMBDA t : Mul(A[k][k + t], xs[k + t]), nn - k)
           xk == Sub(y[k], Div(Mul(w, s), A[k][k]))
       IN Tup(nn, LAMBDA i : IF i = k THEN xk ELSE xs[i])
SsorOp(nn, A, w, b) ==
  LET y == SsorY(nn, A, w, b, nn)
      x == SsorBack(nn, A, w, y, 1)
  IN VScale(Mul(w, Sub(D(2), w)), x)

\* c_0 = z = omega Dd^-1 b;  c_i = c_{i-1} + z - omega Dd^-1 F(A c_{i-1})
\* (Ad supplies the cached diagonal, Al the matrix that is multiplied with)
RECURSIVE PolyC(_, _, _, _, _, _, _)
PolyC(nn, Ad, Al, w, z, FF, i) ==
  IF i = 0 THEN z
  ELSE LET c == PolyC(nn, Ad, Al, w, z, FF, i - 1)
       IN VSub(VAdd(c, z), JacobiOp(nn, Ad, w, Filt(MatVec(nn, Al, c), FF)))
PolyOp(nn, Ad, Al, w, m, b, FF) == PolyC(nn, Ad, Al, w, JacobiOp(nn, Ad, w, b), FF, m)

\* ILU(p), symbolic: level of fill.  lev^(0) = 0 on the pattern of A, "infinite" elsewhere;
\* pivot j:  lev(i,k) := min(lev(i,k), lev(i,j) + lev(j,k) + 1)  for i,k > j
BIG == 99
RECURSIVE LevAfter(_, _, _)
LevAfter(nn, pat, j) ==
  IF j = 0 THEN Tup(nn, LAMBDA i : Tup(nn, LAMBDA k : IF i = k \/ <<i, k>> \in pat THEN 0 ELSE BIG))
  ELSE LET l == LevAfter(nn, pat, j - 1)
       IN Tup(nn, LAMBDA i : Tup(nn, LAMBDA k :
            IF i > j /\ k > j /\ l[i][j] + l[j][k] + 1 < l[i][k] THEN l[i][j] + l[j][k] + 1 ELSE l[i][k]))
IluPattern(nn, pat, p) == LET l == LevAfter(nn, pat, nn) IN {ik \in (1..nn) \X (1..nn) : l[ik[1]][ik[2]] <= p}

\* numeric: IKJ elimination of row i with the pivots j < i of the pattern, updates restricted to the pattern.
\* The code multiplies by stored reciprocals of the pivots: exact iff every pivot is a power of two.
RECURSIVE IluRow(_, _, _, _, _, _)
IluRow(nn, Q, Udone, row, i, j) ==        \* Udone: finished rows 1..i-1 (multipliers left of, U right of the diagonal)
  IF j = i THEN row
  ELSE IF <<i, j>> \notin Q THEN IluRow(nn, Q, Udone, row, i, j + 1)
  ELSE LET l == IF IsPow2(Udone[j][j]) THEN Div(row[j], Udone[j][j]) ELSE Inexact
           r2 == Tup(nn, LAMBDA k : IF k = j THEN l
                                  ELSE IF k > j /\ <<i, k>> \in Q /\ <<j, k>> \in Q THEN Sub(row[k], Mul(l, Udone[j][k]))
                                  ELSE row[k])
       IN IluRow(nn, Q, Udone, r2, i, j + 1)
RECURSIVE IluRows(_, _, _, _)
IluRows(nn, A, Q, i) ==
  IF i = 0 THEN <<>>
  ELSE LET prev == IluRows(nn, A, Q, i - 1)
           row0 == Tup(nn, LAMBDA k : IF <<i, k>> \in Q THEN A[i][k] ELSE Zero)
       IN Append(prev, IluRow(nn, Q, prev, row0, i, 1))
IluFactor(nn, A, Q) == IluRows(nn, A, Q, nn)
IluL(nn, LU) == Tup(nn, LAMBDA i : Tup(nn, LAMBDA j : IF j < i THEN LU[i][j] ELSE IF j = i THEN One ELSE Zero))
IluU(nn, LU) == Tup(nn, LAMBDA i : Tup(nn, LAMBDA j : IF j >= i THEN LU[i][j] ELSE Zero))
RECURSIVE IluFwd(_, _, _, _)
IluFwd(nn, LU, b, k) ==
  IF k = 0 THEN <<>>
  ELSE LET y == IluFwd(nn, LU, b, k - 1)
       IN Append(y, Sub(b[k], DSumTo(LAMBDA j : Mul(LU[k][j], y[j]), k - 1)))
RECURSIVE IluBack(_, _, _, _)
IluBack(nn, LU, y, k) ==
  IF k > nn THEN y
  ELSE LET xs == IluBack(nn, LU, y, k + 1)
           s == DSumTo(LAMBDA t : Mul(LU[k][k + t], xs[k + t]), nn - k)
           xk == IF IsPow2(LU[k][k]) THEN Div(Sub(y[k], s), LU[k][k]) ELSE Inexact
       IN Tup(nn, LAMBDA i : IF i = k THEN xk ELSE xs[i])
IluOp(nn, A, pat, p, b) ==
  LET LU == IluFactor(nn, A, IluPattern(nn, pat, p))
  IN IluBack(nn, LU, IluFwd(nn, LU, b, nn), 1)

\* operator of the preconditioner with the values `c` (1 = initial, 2 = updated), before the correction filter
RawOp(kd, pr, c, b) ==
  LET A == AOf(c) IN
  CASE kd = "jacobi"   -> JacobiOp(n, A, pr.w, b)
    [] kd = "sor"      -> SorOp(n, A, pr.w, b)
    [] kd = "ssor"     -> SsorOp(n, A, pr.w, b)
    [] kd = "poly"     -> PolyOp(n, A, A, pr.w, pr.m, b, F)
    [] kd = "ilu"      -> IluOp(n, A, P, pr.p, b)
    [] kd = "scale"    -> VScale(pr.w, b)
    [] kd = "diagonal" -> VMul(DOf(c), b)
    [] kd = "matrix"   -> MatVec(n, A, b)
Op(c, b) == Filt(RawOp(kind, par, c, b), F)
OpW(w, c, b) == Filt(RawOp(kind, [par EXCEPT !.w = w], c, b), F)
\* what PolynomialPrecond computes between an update and the next init_numeric
PolyMixedW(w, a, c, b) == Filt(PolyOp(n, AOf(a), AOf(c), w, par.m, b, F), F)
PolyMixed(a, c, b) == PolyMixedW(par.w, a, c, b)

\* results allowed for Apply(b) when the factorisation / cached data stem from values a and relaxation parameter wAt
\* and the matrix now holds values c and the parameter is par.w: a preconditioner may cache (Jacobi, polynomial: the
\* scaled inverse diagonal is built in init_numeric) or read matrix and parameter live (SOR, SSOR, scale); the
\* specification allows either until the next init_numeric, after which only the current values are allowed.
\* A mixture (sweeps with one parameter, scaling with the other) is never allowed.
Allowed(a, c, b) ==
  LET ws == IF wAt = par.w THEN {par.w} ELSE {wAt, par.w}
      cs == IF a = c THEN {c} ELSE {a, c}
  IN {OpW(w, x, b) : w \in ws, x \in cs}
     \cup (IF kind = "poly" /\ a # c THEN {PolyMixedW(w, a, c, b) : w \in ws} ELSE {})

\* the input lies in the exact domain: every result on every test vector is dyadic
ExactInput(nn, pat, pl, kd, pr, FF) ==
  LET T == Tests(nn) IN
  \A c \in {1, 2} : \A k \in 1..(nn + 2) :
     LET A == Mat(nn, pat, IF c = 1 THEN pl ELSE NextPal(pl))
         Ao == Mat(nn, pat, IF c = 1 THEN NextPal(pl) ELSE pl)
         r == CASE kd = "jacobi"   -> JacobiOp(nn, A, pr.w, T[k])
                [] kd = "sor"      -> SorOp(nn, A, pr.w, T[k])
                [] kd = "ssor"     -> SsorOp(nn, A, pr.w, T[k])
                [] kd = "poly"     -> VAdd(PolyOp(nn, A, A, pr.w, pr.m, T[k], FF), PolyOp(nn, Ao, A, pr.w, pr.m, T[k], FF))
                [] kd = "ilu"      -> IluOp(nn, A, pat, pr.p, T[k])
                [] OTHER           -> T[k]
     IN VecExact(r)

\* ---- Part 2: life cycle ----------------------------------------------------------------------------------
FilterSets(nn) == IF Filters = 0 THEN {{}} ELSE {{}, {nn}} \cup (IF nn >= 3 THEN {{1, 3}} ELSE {})

Init ==
  /\ n \in NS
  /\ P \in {pat \in SUBSET OffPos(n) : Cardinality(pat) >= MinOff /\ Cardinality(pat) <= MaxOff}
  /\ pal \in Pals /\ kind \in Kinds /\ par \in Params(kind) /\ F \in FilterSets(n)
  /\ ExactInput(n, P, pal, kind, par, F)
  /\ life = "created" /\ cur = 1 /\ atInit = 0 /\ hist = <<>> /\ wAt = par.w

\* value update AND set_omega before the second apply (stale values and stale parameter at once), then re-initialisation
Canon == <<"IS", "IN", "AP", "UP", "SO", "AP", "IN", "AP", "DN", "UP", "IN", "AP", "DN", "DS">>
Enabled(op) == IF Mode = "canon" THEN Len(hist) < Len(Canon) /\ Canon[Len(hist) + 1] = op
               ELSE Len(hist) < MaxHist

RecW(op, exp, w) == hist' = Append(hist, [op |-> op, exp |-> exp, w |-> w])
Rec(op, exp) == RecW(op, exp, par.w)

InitSymbolic == Enabled("IS") /\ life = "created" /\ life' = "symbolic" /\ Rec("IS", <<>>) /\ UNCHANGED <<n, P, pal, kind, par, F, cur, atInit, wAt>>
InitNumeric  == Enabled("IN") /\ life \in {"symbolic", "numeric"} /\ life' = "numeric" /\ atInit' = cur /\ wAt' = par.w /\ Rec("IN", <<>>)
                /\ UNCHANGED <<n, P, pal, kind, par, F, cur>>
\* one Apply call per test vector; exp[k] = set of allowed results for test vector k
Apply        == Enabled("AP") /\ life = "numeric"
                /\ Rec("AP", Tup(n + 2, LAMBDA k : Allowed(atInit, cur, Tests(n)[k])))
                /\ UNCHANGED <<n, P, pal, kind, par, F, life, cur, atInit, wAt>>
UpdateValues == Enabled("UP") /\ cur' = 3 - cur /\ Rec("UP", <<>>) /\ UNCHANGED <<n, P, pal, kind, par, F, life, atInit, wAt>>
DoneNumeric  == Enabled("DN") /\ life = "numeric" /\ life' = "symbolic" /\ atInit' = 0 /\ Rec("DN", <<>>)
                /\ UNCHANGED <<n, P, pal, kind, par, F, cur, wAt>>
DoneSymbolic == Enabled("DS") /\ life = "symbolic" /\ life' = "created" /\ Rec("DS", <<>>)
                /\ UNCHANGED <<n, P, pal, kind, par, F, cur, atInit, wAt>>

\* set_omega(w): public setter of Jacobi, SOR, SSOR, polynomial and scale preconditioners, callable in every life-cycle state;
\* the new parameter must keep the input inside the exact domain.  Kinds without the setter take a no-op step.
HasOmega == kind \in {"jacobi", "sor", "ssor", "poly", "scale"}
OmegaCand == {q \in Params(kind) : q.m = par.m /\ q.p = par.p /\ q.w # par.w /\ ExactInput(n, P, pal, kind, q, F)}
\* canonical histories take one (fixed) other parameter, free histories every other parameter; no candidate inside the exact domain: no-op
SetOmega     == /\ Enabled("SO") /\ HasOmega /\ OmegaCand # {}
                /\ \E q \in (IF Mode = "canon" THEN {CHOOSE r \in OmegaCand : TRUE} ELSE OmegaCand) :
                       par' = q /\ RecW("SO", <<>>, q.w)
                /\ UNCHANGED <<n, P, pal, kind, F, life, cur, atInit, wAt>>
SetOmegaNop  == Enabled("SO") /\ Rec("SO", <<>>) /\ UNCHANGED <<n, P, pal, kind, par, F, life, cur, atInit, wAt>>

Next == InitSymbolic \/ InitNumeric \/ Apply \/ UpdateValues \/ DoneNumeric \/ DoneSymbolic \/ SetOmega \/ ((~HasOmega \/ OmegaCand = {}) /\ SetOmegaNop)
Spec == Init /\ [][Next]_vars

\* ---- Part 3: sanity laws of the definitions (evaluated on every generated input) ----------------------------
LowerOf(A) == Tup(n, LAMBDA i : Tup(n, LAMBDA j : IF j < i THEN A[i][j] ELSE Zero))
UpperOf(A) == Tup(n, LAMBDA i : Tup(n, LAMBDA j : IF j > i THEN A[i][j] ELSE Zero))
DiagOf(A) == Tup(n, LAMBDA i : Tup(n, LAMBDA j : IF j = i THEN A[i][j] ELSE Zero))
MAdd(A, B) == Tup(n, LAMBDA i : Tup(n, LAMBDA j : Add(A[i][j], B[i][j])))
MScale(a, A) == Tup(n, LAMBDA i : Tup(n, LAMBDA j : Mul(a, A[i][j])))
\* the textbook relations, independent of the substitution order used above
SorRelation == hist = <<>> /\ kind = "sor" => \A c \in {1, 2}, k \in 1..(n + 2) :
   LET A == AOf(c)  b == Tests(n)[k]  x == RawOp(kind, par, c, b) IN
     \* (D/w + L) x = b, multiplied by w (1/w is not dyadic for w = 3/2)
     MatVec(n, MAdd(DiagOf(A), MScale(par.w, LowerOf(A))), x) = VScale(par.w, b)
SsorRelation == hist = <<>> /\ kind = "ssor" => \A c \in {1, 2}, k \in 1..(n + 2) :
   LET A == AOf(c)  b == Tests(n)[k]  x == RawOp(kind, par, c, b)
       Dm == DiagOf(A)  w == par.w
       Dinv == Tup(n, LAMBDA i : Tup(n, LAMBDA j : IF i = j THEN Div(One, A[i][i]) ELSE Zero))
       \* (D + wL) D^-1 (D + wU) x = w (2 - w) b
       lhs == MatVec(n, MAdd(Dm, MScale(w, LowerOf(A))), MatVec(n, Dinv, MatVec(n, MAdd(Dm, MScale(w, UpperOf(A))), x)))
   IN lhs = VScale(Mul(w, Sub(D(2), w)), b)
JacobiRelation == hist = <<>> /\ kind = "jacobi" => \A c \in {1, 2}, k \in 1..(n + 2) :
   LET A == AOf(c)  b == Tests(n)[k]  x == RawOp(kind, par, c, b) IN MatVec(n, DiagOf(A), x) = VScale(par.w, b)
\* ILU: L U equals A on the level-p pattern; the pattern contains the pattern of A and grows with p;
\* complete fill (p >= n - 2 suffices for n <= 4) gives A^-1
IluLaws == hist = <<>> /\ kind = "ilu" => \A c \in {1, 2} :
   LET A == AOf(c)  Q == IluPattern(n, P, par.p)  LU == IluFactor(n, A, Q)
       prod == MatMul(n, IluL(n, LU), IluU(n, LU))
   IN /\ \A ik \in Q : prod[ik[1]][ik[2]] = A[ik[1]][ik[2]]
      /\ P \subseteq Q /\ (par.p > 0 => IluPattern(n, P, par.p - 1) \subseteq Q)
      /\ (Q = IluPattern(n, P, n) => \A k \in 1..(n + 2) : MatVec(n, A, RawOp(kind, par, c, Tests(n)[k])) = Tests(n)[k])
Linearity == hist = <<>> => \A c \in {1, 2} :
   LET T == Tests(n) IN Op(c, T[n + 2]) = VSub(VScale(D(2), Op(c, T[n + 1])), Op(c, T[1]))
LifeOK == life \in {"created", "symbolic", "numeric"} /\ (life = "numeric" <=> atInit # 0)

\* ---- Part 4: generator ------------------------------------------------------------------------------------------
Final == IF Mode = "canon" THEN Len(hist) = Len(Canon) ELSE Len(hist) = MaxHist
SetSeq(S) == LET RECURSIVE Go(_) Go(T) == IF T = {} THEN <<>> ELSE LET x == CHOOSE y \in T : TRUE IN <<x>> \o Go(T \ {x}) IN Go(S)
IluInfo(c) == LET Q == IluPattern(n, P, par.p)  LU == IluFactor(n, AOf(c), Q)
              IN [pat |-> Tup(n, LAMBDA i : Tup(n, LAMBDA j : IF <<i, j>> \in Q THEN 1 ELSE 0)),
                  lu |-> MatMul(n, IluL(n, LU), IluU(n, LU))]
Emit == Final =>
  PrintT(ToJson([n |-> n, kind |-> kind, w |-> hist[1].w, m |-> par.m, p |-> par.p, F |-> SetSeq(F),
                 pat |-> Tup(n, LAMBDA i : Tup(n, LAMBDA j : IF i = j \/ <<i, j>> \in P THEN 1 ELSE 0)),
                 A1 |-> AOf(1), A2 |-> AOf(2), d1 |-> DOf(1), d2 |-> DOf(2), tests |-> Tests(n),
                 ilu1 |-> IF kind = "ilu" THEN IluInfo(1) ELSE [pat |-> <<>>, lu |-> <<>>],
                 ilu2 |-> IF kind = "ilu" THEN IluInfo(2) ELSE [pat |-> <<>>, lu |-> <<>>],
                 steps |-> [s \in 1..Len(hist) |-> [op |-> hist[s].op, w |-> hist[s].w,
                             exp |-> [k \in 1..Len(hist[s].exp) |-> SetSeq(hist[s].exp[k])]]]]))
=============================================================================
