------------------------------- MODULE Precond -------------------------------
(* C08: stationary preconditioners apply exactly their defining operator.     *)
(*                                                                            *)
(* Part 1 defines the operators in exact dyadic arithmetic (module Dyadic):   *)
(*   Jacobi   omega D^-1                                                      *)
(*   SOR      (D/omega + L)^-1                     (forward substitution)     *)
(*   SSOR     omega(2-omega) (D+omega U)^-1 D (D+omega L)^-1                  *)
(*   Poly     sum_{k<=m} (I - omega D^-1 F A)^k omega D^-1   (F = defect filter) *)
(*   ILU(p)   (LU)^-1, pattern = level-of-fill <= p (symbolic, pure           *)
(*            combinatorics), values = IKJ factorisation restricted to it     *)
(*   Scale    omega I,  Diagonal  diag(d),  Matrix  M                         *)
(* each followed by the CORRECTION filter.  A filter is a chain                *)
(*   unit(u1) ; mean(prim, dual) ; unit(u2)                                   *)
(* (LAFEM::FilterChain<UnitFilter, MeanFilter, UnitFilter>; an empty member   *)
(* is the identity; the members act in this order).  The unit filter zeroes   *)
(* its dofs (defect and correction alike); the mean filter with primal vector *)
(* v and dual vector w is  cor: x - v (w.x)/(v.w),  def: x - w (v.x)/(v.w) -   *)
(* two DIFFERENT projections as soon as v and w are not proportional.         *)
(* Part 2 is the life-cycle machine: one action per public call               *)
(*   InitSymbolic, InitNumeric, Apply, DoneNumeric, DoneSymbolic              *)
(* plus UpdateValues (the application changes the matrix values, same         *)
(* pattern).  After InitNumeric the next Apply must equal the operator of the *)
(* CURRENT values; between an update and the next InitNumeric the result is   *)
(* unspecified by the property and the specification allows the operator of   *)
(* the old values, of the new values, or (Poly: cached diagonal, live matrix) *)
(* the mixture the code computes.  Part 3 are sanity laws of the definitions, *)
(* checked by TLC on every generated matrix (defining relations, LU = A on    *)
(* the pattern, complete fill => A^-1, linearity).  Part 4 prints every       *)
(* behaviour with the predicted results for the replayer.                     *)
EXTENDS Dyadic, Json, TLC

CONSTANTS NS,        \* matrix sizes
          Kinds,     \* subset of {"jacobi","sor","ssor","poly","ilu","scale","diagonal","matrix"}
          Pals,      \* value palettes for the initial values (1..3); the update switches to the next palette
          MinOff, MaxOff, \* bounds on the number of off-diagonal entries of the pattern
          Filters,   \* 0: no filter only, 1: also unit filters, 2: also mean filters and chains, 3: ONLY mean filters and chains
          Mode,      \* "canon": the canonical history below; "hist": every history of MaxHist calls
          MaxHist

VARIABLES n, P, pal, kind, par, F,   \* the chosen input (constant along a behaviour, except par.w: set_omega)
          tab,                         \* the results of the operator for every reachable relaxation parameter, both value sets and every
                                       \* test vector: a function of the input, computed once (Init) and constant along a behaviour
          life, cur, atInit, hist,
          wAt                          \* relaxation parameter at the time of the last init_numeric (construction before)
vars == <<n, P, pal, kind, par, F, tab, life, cur, atInit, wAt, hist>>

\* ---- inputs ------------------------------------------------------------------------------------------
OffPos(nn) == {ij \in (1..nn) \X (1..nn) : ij[1] # ij[2]}
\* off-diagonal values in {+-1, +-2, +-1/2}, diagonal values powers of two
OffVal(i, j, pl) ==
  LET k == (i * 3 + j * 5 + pl) % 4 IN
  CASE pl = 1 -> <<D(-1), D(2), D(1), D(-2)>>[k + 1]
    [] pl = 2 -> <<H(1, 1), D(-1), H(-1, 1), D(2)>>[k + 1]
    [] OTHER  -> <<D(1), D(1), D(-2), H(-1, 1)>>[k + 1]
DiagVal(i, pl) ==
  CASE pl = 1 -> <<D(2), D(4), D(1), D(2)>>[i]
    [] pl = 2 -> <<D(4), D(1), D(2), H(1, 1)>>[i]
    [] OTHER  -> <<D(1), D(2), D(4), D(4)>>[i]
Mat(nn, pat, pl) == Tup(nn, LAMBDA i : Tup(nn, LAMBDA j :
                       IF i = j THEN DiagVal(i, pl) ELSE IF <<i, j>> \in pat THEN OffVal(i, j, pl) ELSE Zero))
DiagVec(nn, pl) == Tup(nn, LAMBDA i : <<H(1, 1), D(-2), D(3), H(3, 2)>>[((i + pl) % 4) + 1])
NextPal(pl) == (pl % 3) + 1
AOf(c) == Mat(n, P, IF c = 1 THEN pal ELSE NextPal(pal))
DOf(c) == DiagVec(n, IF c = 1 THEN pal ELSE NextPal(pal))

\* test vectors: the unit vectors, a generic vector g and 2g - e_1 (linearity)
Unit(nn, k) == Tup(nn, LAMBDA i : IF i = k THEN One ELSE Zero)
Gen(nn) == Tup(nn, LAMBDA i : <<D(1), D(-2), D(3), H(1, 1)>>[i])
Tests(nn) == Tup(nn + 2, LAMBDA k : IF k <= nn THEN Unit(nn, k)
                                    ELSE IF k = nn + 1 THEN Gen(nn) ELSE VSub(VScale(D(2), Gen(nn)), Unit(nn, 1)))

Omegas == {H(1, 1), One, H(3, 1)}
Params(kd) ==
  CASE kd \in {"jacobi", "sor", "ssor"} -> {[w |-> w, m |-> 0, p |-> 0] : w \in Omegas}
    [] kd = "poly"  -> {[w |-> w, m |-> m, p |-> 0] : w \in {H(1, 1), One}, m \in 1..3}
    [] kd = "ilu"   -> {[w |-> One, m |-> 0, p |-> p] : p \in 0..3}
    [] kd = "scale" -> {[w |-> w, m |-> 0, p |-> 0] : w \in {H(1, 1), H(3, 1), D(2)}}
    [] OTHER        -> {[w |-> One, m |-> 0, p |-> 0]}

\* ---- Part 1: the operators -----------------------------------------------------------------------------
\* filters: FF = [u1 |-> set of dofs, mk |-> 0 (no mean filter) / 1 / 2 (a pair of primal and dual vector), u2 |-> set of dofs]
\* primal and dual vector are not proportional for nn >= 2 and <prim, dual> = 2^k > 0 (MeanFilter divides by it): 2, 4, 2 (mk = 1)
\* resp. 1, 2, 4 (mk = 2) for nn = 2, 3, 4 - small integers, so that the dyadic exponents of the results stay small
MeanPrim(nn, mk) == Tup(nn, LAMBDA i : IF mk = 1 THEN One ELSE <<D(2), D(1), D(-1), D(1)>>[i])
MeanDual(nn, mk) == Tup(nn, LAMBDA i : IF mk = 1 THEN <<D(3), D(-1), D(2), D(-2)>>[i] ELSE <<D(1), D(-1), D(-1), D(2)>>[i])
Dot(u, v) == DSumTo(LAMBDA i : Mul(u[i], v[i]), Len(u))
UnitF(v, S) == IF S = {} THEN v ELSE Tup(Len(v), LAMBDA i : IF i \in S THEN Zero ELSE v[i])
\* code: x.axpy(prim, -x.dot(dual) / volume)  resp.  x.axpy(dual, -x.dot(prim) / volume)
MeanCor(v, mk) == IF mk = 0 THEN v
                  ELSE LET p == MeanPrim(Len(v), mk)  d == MeanDual(Len(v), mk) IN VAdd(v, VScale(Div(Neg(Dot(v, d)), Dot(p, d)), p))
MeanDef(v, mk) == IF mk = 0 THEN v
                  ELSE LET p == MeanPrim(Len(v), mk)  d == MeanDual(Len(v), mk) IN VAdd(v, VScale(Div(Neg(Dot(v, p)), Dot(p, d)), d))
FiltCor(v, FF) == UnitF(MeanCor(UnitF(v, FF.u1), FF.mk), FF.u2)
FiltDef(v, FF) == UnitF(MeanDef(UnitF(v, FF.u1), FF.mk), FF.u2)
NoFilter == [u1 |-> {}, mk |-> 0, u2 |-> {}]

\* code: inv_diag := omega / d (component_invert), result := inv_diag * b
JacobiOp(nn, A, w, b) == Tup(nn, LAMBDA i : Mul(Div(w, A[i][i]), b[i]))

\* (D/omega + L) x = b:  x_k = omega (b_k - sum_{j<k} a_kj x_j) / a_kk
RECURSIVE SorX(_, _, _, _, _)
SorX(nn, A, w, b, k) ==
  IF k = 0 THEN <<>>
  ELSE LET x == SorX(nn, A, w, b, k - 1)
           s == DSumTo(LAMBDA j : Mul(A[k][j], x[j]), k - 1)
       IN Append(x, Div(Mul(w, Sub(b[k], s)), A[k][k]))
SorOp(nn, A, w, b) == SorX(nn, A, w, b, nn)

\* (D + omega L) y = b;  (D + omega U) x = D y;  result omega (2 - omega) x
RECURSIVE SsorY(_, _, _, _, _)
SsorY(nn, A, w, b, k) ==
  IF k = 0 THEN <<>>
  ELSE LET y == SsorY(nn, A, w, b, k - 1)
           s == DSumTo(LAMBDA j : Mul(A[k][j], y[j]), k - 1)
       IN Append(y, Div(Sub(b[k], Mul(w, s)), A[k][k]))
\* backward sweep: returns the full-length tuple whose entries k..nn are final (entries below k are y)
RECURSIVE SsorBack(_, _, _, _, _)
SsorBack(nn, A, w, y, k) ==
  IF k > nn THEN y
  ELSE LET xs == SsorBack(nn, A, w, y, k + 1)
           s == DSumTo(LAMBDA t : Mul(A[k][k + t], xs[k + t]), nn - k)
           xk == Sub(y[k], Div(Mul(w, s), A[k][k]))
       IN Tup(nn, LAMBDA i : IF i = k THEN xk ELSE xs[i])
SsorOp(nn, A, w, b) ==
  LET y == SsorY(nn, A, w, b, nn)
      x == SsorBack(nn, A, w, y, 1)
  IN VScale(Mul(w, Sub(D(2), w)), x)

\* c_0 = z = omega Dd^-1 b;  c_i = c_{i-1} + z - omega Dd^-1 F(A c_{i-1})
\* (Ad supplies the cached diagonal, Al the matrix that is multiplied with)
RECURSIVE PolyC(_, _, _, _, _, _, _)
PolyC(nn, Ad, Al, w, z, FF, i) ==
  IF i = 0 THEN z
  ELSE LET c == PolyC(nn, Ad, Al, w, z, FF, i - 1)
       IN VSub(VAdd(c, z), JacobiOp(nn, Ad, w, FiltDef(MatVec(nn, Al, c), FF)))
PolyOp(nn, Ad, Al, w, m, b, FF) == PolyC(nn, Ad, Al, w, JacobiOp(nn, Ad, w, b), FF, m)

\* ILU(p), symbolic: level of fill.  lev^(0) = 0 on the pattern of A, "infinite" elsewhere;
\* pivot j:  lev(i,k) := min(lev(i,k), lev(i,j) + lev(j,k) + 1)  for i,k > j
BIG == 99
RECURSIVE LevAfter(_, _, _)
LevAfter(nn, pat, j) ==
  IF j = 0 THEN Tup(nn, LAMBDA i : Tup(nn, LAMBDA k : IF i = k \/ <<i, k>> \in pat THEN 0 ELSE BIG))
  ELSE LET l == LevAfter(nn, pat, j - 1)
       IN Tup(nn, LAMBDA i : Tup(nn, LAMBDA k :
            IF i > j /\ k > j /\ l[i][j] + l[j][k] + 1 < l[i][k] THEN l[i][j] + l[j][k] + 1 ELSE l[i][k]))
IluPattern(nn, pat, p) == LET l == LevAfter(nn, pat, nn) IN {ik \in (1..nn) \X (1..nn) : l[ik[1]][ik[2]] <= p}

\* numeric: IKJ elimination of row i with the pivots j < i of the pattern, updates restricted to the pattern.
\* The code multiplies by stored reciprocals of the pivots: exact iff every pivot is a power of two.
RECURSIVE IluRow(_, _, _, _, _, _)
IluRow(nn, Q, Udone, row, i, j) ==        \* Udone: finished rows 1..i-1 (multipliers left of, U right of the diagonal)
  IF j = i THEN row
  ELSE IF <<i, j>> \notin Q THEN IluRow(nn, Q, Udone, row, i, j + 1)
  ELSE LET l == IF IsPow2(Udone[j][j]) THEN Div(row[j], Udone[j][j]) ELSE Inexact
           r2 == Tup(nn, LAMBDA k : IF k = j THEN l
                                  ELSE IF k > j /\ <<i, k>> \in Q /\ <<j, k>> \in Q THEN Sub(row[k], Mul(l, Udone[j][k]))
                                  ELSE row[k])
       IN IluRow(nn, Q, Udone, r2, i, j + 1)
RECURSIVE IluRows(_, _, _, _)
IluRows(nn, A, Q, i) ==
  IF i = 0 THEN <<>>
  ELSE LET prev == IluRows(nn, A, Q, i - 1)
           row0 == Tup(nn, LAMBDA k : IF <<i, k>> \in Q THEN A[i][k] ELSE Zero)
       IN Append(prev, IluRow(nn, Q, prev, row0, i, 1))
IluFactor(nn, A, Q) == IluRows(nn, A, Q, nn)
IluL(nn, LU) == Tup(nn, LAMBDA i : Tup(nn, LAMBDA j : IF j < i THEN LU[i][j] ELSE IF j = i THEN One ELSE Zero))
IluU(nn, LU) == Tup(nn, LAMBDA i : Tup(nn, LAMBDA j : IF j >= i THEN LU[i][j] ELSE Zero))
RECURSIVE IluFwd(_, _, _, _)
IluFwd(nn, LU, b, k) ==
  IF k = 0 THEN <<>>
  ELSE LET y == IluFwd(nn, LU, b, k - 1)
       IN Append(y, Sub(b[k], DSumTo(LAMBDA j : Mul(LU[k][j], y[j]), k - 1)))
RECURSIVE IluBack(_, _, _, _)
IluBack(nn, LU, y, k) ==
  IF k > nn THEN y
  ELSE LET xs == IluBack(nn, LU, y, k + 1)
           s == DSumTo(LAMBDA t : Mul(LU[k][k + t], xs[k + t]), nn - k)
           xk == IF IsPow2(LU[k][k]) THEN Div(Sub(y[k], s), LU[k][k]) ELSE Inexact
       IN Tup(nn, LAMBDA i : IF i = k THEN xk ELSE xs[i])
IluSolve(nn, LU, b) == IluBack(nn, LU, IluFwd(nn, LU, b, nn), 1)
IluOp(nn, A, pat, p, b) == IluSolve(nn, IluFactor(nn, A, IluPattern(nn, pat, p)), b)

\* operator of the preconditioner with the values `c` (1 = initial, 2 = updated), before the correction filter
RawOp(kd, pr, c, b) ==
  LET A == AOf(c) IN
  CASE kd = "jacobi"   -> JacobiOp(n, A, pr.w, b)
    [] kd = "sor"      -> SorOp(n, A, pr.w, b)
    [] kd = "ssor"     -> SsorOp(n, A, pr.w, b)
    [] kd = "poly"     -> PolyOp(n, A, A, pr.w, pr.m, b, F)
    [] kd = "ilu"      -> IluOp(n, A, P, pr.p, b)
    [] kd = "scale"    -> VScale(pr.w, b)
    [] kd = "diagonal" -> VMul(DOf(c), b)
    [] kd = "matrix"   -> MatVec(n, A, b)
Op(c, b) == FiltCor(RawOp(kind, par, c, b), F)
OpW(w, c, b) == FiltCor(RawOp(kind, [par EXCEPT !.w = w], c, b), F)
\* what PolynomialPrecond computes between an update and the next init_numeric (cached diagonal of values a, live matrix c)
PolyMixedW(w, a, c, b) == FiltCor(PolyOp(n, AOf(a), AOf(c), w, par.m, b, F), F)
PolyMixed(a, c, b) == PolyMixedW(par.w, a, c, b)

\* ---- the table of results ---------------------------------------------------------------------------------
\* All results of a behaviour are functions of the input.  They are computed once, in Init: for a relaxation parameter w
\*   o[c][k]  the operator with the values c on test vector k, followed by the correction filter
\*   x[a][k]  (polynomial only) cached diagonal of the values a, live matrix of the other values
\*   ok       every UNFILTERED result is dyadic: the input lies in the exact domain
\* (ILU: one factorisation per value set, not one per test vector.)
RawAll(w, c) ==
  LET A == AOf(c)  T == Tests(n)  nt == n + 2 IN
  CASE kind = "jacobi"   -> Tup(nt, LAMBDA k : JacobiOp(n, A, w, T[k]))
    [] kind = "sor"      -> Tup(nt, LAMBDA k : SorOp(n, A, w, T[k]))
    [] kind = "ssor"     -> Tup(nt, LAMBDA k : SsorOp(n, A, w, T[k]))
    [] kind = "poly"     -> Tup(nt, LAMBDA k : PolyOp(n, A, A, w, par.m, T[k], F))
    [] kind = "ilu"      -> LET LU == IluFactor(n, A, IluPattern(n, P, par.p)) IN Tup(nt, LAMBDA k : IluSolve(n, LU, T[k]))
    [] kind = "scale"    -> Tup(nt, LAMBDA k : VScale(w, T[k]))
    [] kind = "diagonal" -> LET d == DOf(c) IN Tup(nt, LAMBDA k : VMul(d, T[k]))
    [] kind = "matrix"   -> Tup(nt, LAMBDA k : MatVec(n, A, T[k]))
MixedAll(w, a) == LET Ad == AOf(a)  Al == AOf(3 - a)  T == Tests(n) IN Tup(n + 2, LAMBDA k : PolyOp(n, Ad, Al, w, par.m, T[k], F))
AllExact(rs) == \A k \in 1..Len(rs) : VecExact(rs[k])
FiltAll(rs) == Tup(Len(rs), LAMBDA k : FiltCor(rs[k], F))
TabOf(w) ==
  LET r1 == RawAll(w, 1)  r2 == RawAll(w, 2)
      x1 == IF kind = "poly" THEN MixedAll(w, 1) ELSE <<>>
      x2 == IF kind = "poly" THEN MixedAll(w, 2) ELSE <<>>
  IN [w |-> w, o |-> <<FiltAll(r1), FiltAll(r2)>>, x |-> <<FiltAll(x1), FiltAll(x2)>>,
      ok |-> AllExact(r1) /\ AllExact(r2) /\ AllExact(x1) /\ AllExact(x2)]

\* set_omega(w): public setter of Jacobi, SOR, SSOR, polynomial and scale preconditioners, callable in every life-cycle state;
\* the new parameter must keep the input inside the exact domain.  Kinds without the setter take a no-op step.
HasOmega == kind \in {"jacobi", "sor", "ssor", "poly", "scale"}
OmegaOrder == <<H(1, 1), One, H(3, 1), D(2)>>
\* tab[1] belongs to the parameter of the constructor; the further entries to the parameters set_omega may switch to:
\* canonical histories take one (fixed) other parameter, free histories every other parameter inside the exact domain
BuildTab ==
  LET own == TabOf(par.w)
      others == SelectSeq(OmegaOrder, LAMBDA w : HasOmega /\ w # par.w /\ \E q \in Params(kind) : q.w = w)
      RECURSIVE Collect(_, _)
      Collect(ws, all) == IF ws = <<>> THEN <<>>
                          ELSE LET t == TabOf(Head(ws)) IN
                               IF t.ok THEN (IF all THEN <<t>> \o Collect(Tail(ws), all) ELSE <<t>>) ELSE Collect(Tail(ws), all)
  IN IF own.ok THEN <<own>> \o Collect(others, Mode # "canon") ELSE <<own>>
TW(w) == tab[CHOOSE i \in 1..Len(tab) : tab[i].w = w]

\* results allowed for Apply on test vector k when the factorisation / cached data stem from values a and relaxation parameter wAt
\* and the matrix now holds values c and the parameter is par.w: a preconditioner may cache (Jacobi, polynomial: the
\* scaled inverse diagonal is built in init_numeric) or read matrix and parameter live (SOR, SSOR, scale); the
\* specification allows either until the next init_numeric, after which only the current values are allowed.
\* A mixture (sweeps with one parameter, scaling with the other) is never allowed.
Allowed(a, c, k) ==
  LET ws == IF wAt = par.w THEN {par.w} ELSE {wAt, par.w}
      cs == IF a = c THEN {c} ELSE {a, c}
  IN {TW(w).o[x][k] : w \in ws, x \in cs}
     \cup (IF kind = "poly" /\ a # c THEN {TW(w).x[a][k] : w \in ws} ELSE {})

\* ---- Part 2: life cycle ----------------------------------------------------------------------------------
UnitFilters(nn) == {[u1 |-> {nn}, mk |-> 0, u2 |-> {}]} \cup (IF nn >= 3 THEN {[u1 |-> {1, 3}, mk |-> 0, u2 |-> {}]} ELSE {})
\* mean filters alone, unit ; mean, mean ; unit, unit ; mean ; unit
MeanFilters(nn) == IF nn < 2 THEN {}
                   ELSE {[u1 |-> {}, mk |-> 1, u2 |-> {}], [u1 |-> {}, mk |-> 2, u2 |-> {}],
                         [u1 |-> {nn}, mk |-> 1, u2 |-> {}], [u1 |-> {}, mk |-> 2, u2 |-> {1}]}
                        \cup (IF nn >= 3 THEN {[u1 |-> {1}, mk |-> 2, u2 |-> {3}]} ELSE {})
FilterSets(nn) == CASE Filters = 0 -> {NoFilter}
                    [] Filters = 1 -> {NoFilter} \cup UnitFilters(nn)
                    [] Filters = 2 -> {NoFilter} \cup UnitFilters(nn) \cup MeanFilters(nn)
                    [] OTHER       -> MeanFilters(nn)

Init ==
  /\ n \in NS
  /\ P \in {pat \in SUBSET OffPos(n) : Cardinality(pat) >= MinOff /\ Cardinality(pat) <= MaxOff}
  /\ pal \in Pals /\ kind \in Kinds /\ par \in Params(kind) /\ F \in FilterSets(n)
  \* (TLC integers have 32 bits: every filter application adds to the dyadic exponents, so the polynomial order is bounded here)
  /\ (kind = "poly" /\ F.mk # 0 => par.m <= 2)
  /\ tab = BuildTab
  /\ tab[1].ok
  /\ life = "created" /\ cur = 1 /\ atInit = 0 /\ hist = <<>> /\ wAt = par.w

\* value update AND set_omega before the second apply (stale values and stale parameter at once), then re-initialisation
Canon == <<"IS", "IN", "AP", "UP", "SO", "AP", "IN", "AP", "DN", "UP", "IN", "AP", "DN", "DS">>
Enabled(op) == IF Mode = "canon" THEN Len(hist) < Len(Canon) /\ Canon[Len(hist) + 1] = op
               ELSE Len(hist) < MaxHist

RecW(op, exp, w) == hist' = Append(hist, [op |-> op, exp |-> exp, w |-> w])
Rec(op, exp) == RecW(op, exp, par.w)

InitSymbolic == Enabled("IS") /\ life = "created" /\ life' = "symbolic" /\ Rec("IS", <<>>) /\ UNCHANGED <<n, P, pal, kind, par, F, tab, cur, atInit, wAt>>
InitNumeric  == Enabled("IN") /\ life \in {"symbolic", "numeric"} /\ life' = "numeric" /\ atInit' = cur /\ wAt' = par.w /\ Rec("IN", <<>>)
                /\ UNCHANGED <<n, P, pal, kind, par, F, tab, cur>>
\* one Apply call per test vector; exp[k] = set of allowed results for test vector k
Apply        == Enabled("AP") /\ life = "numeric"
                /\ Rec("AP", Tup(n + 2, LAMBDA k : Allowed(atInit, cur, k)))
                /\ UNCHANGED <<n, P, pal, kind, par, F, tab, life, cur, atInit, wAt>>
UpdateValues == Enabled("UP") /\ cur' = 3 - cur /\ Rec("UP", <<>>) /\ UNCHANGED <<n, P, pal, kind, par, F, tab, life, atInit, wAt>>
DoneNumeric  == Enabled("DN") /\ life = "numeric" /\ life' = "symbolic" /\ atInit' = 0 /\ Rec("DN", <<>>)
                /\ UNCHANGED <<n, P, pal, kind, par, F, tab, cur, wAt>>
DoneSymbolic == Enabled("DS") /\ life = "symbolic" /\ life' = "created" /\ Rec("DS", <<>>)
                /\ UNCHANGED <<n, P, pal, kind, par, F, tab, cur, atInit, wAt>>

\* the parameters set_omega may switch to (no candidate: a no-op step)
OmegaCand == {tab[i].w : i \in 1..Len(tab)} \ {par.w}
SetOmega     == /\ Enabled("SO") /\ OmegaCand # {}
                /\ \E w \in OmegaCand : par' = [par EXCEPT !.w = w] /\ RecW("SO", <<>>, w)
                /\ UNCHANGED <<n, P, pal, kind, F, tab, life, cur, atInit, wAt>>
SetOmegaNop  == Enabled("SO") /\ Rec("SO", <<>>) /\ UNCHANGED <<n, P, pal, kind, par, F, tab, life, cur, atInit, wAt>>

Next == InitSymbolic \/ InitNumeric \/ Apply \/ UpdateValues \/ DoneNumeric \/ DoneSymbolic \/ SetOmega \/ (OmegaCand = {} /\ SetOmegaNop)
Spec == Init /\ [][Next]_vars

\* ---- Part 3: sanity laws of the definitions (evaluated on every generated input) ----------------------------
LowerOf(A) == Tup(n, LAMBDA i : Tup(n, LAMBDA j : IF j < i THEN A[i][j] ELSE Zero))
UpperOf(A) == Tup(n, LAMBDA i : Tup(n, LAMBDA j : IF j > i THEN A[i][j] ELSE Zero))
DiagOf(A) == Tup(n, LAMBDA i : Tup(n, LAMBDA j : IF j = i THEN A[i][j] ELSE Zero))
MAdd(A, B) == Tup(n, LAMBDA i : Tup(n, LAMBDA j : Add(A[i][j], B[i][j])))
MScale(a, A) == Tup(n, LAMBDA i : Tup(n, LAMBDA j : Mul(a, A[i][j])))
\* the relations are stated for the operator itself: inputs without filter (every matrix / parameter combination has one)
Unfiltered == hist = <<>> /\ F = NoFilter
Res(c, k) == tab[1].o[c][k]
\* the textbook relations, independent of the substitution order used above
SorRelation == Unfiltered /\ kind = "sor" => \A c \in {1, 2}, k \in 1..(n + 2) :
   LET A == AOf(c)  b == Tests(n)[k]  x == Res(c, k) IN
     \* (D/w + L) x = b, multiplied by w (1/w is not dyadic for w = 3/2)
     MatVec(n, MAdd(DiagOf(A), MScale(par.w, LowerOf(A))), x) = VScale(par.w, b)
SsorRelation == Unfiltered /\ kind = "ssor" => \A c \in {1, 2}, k \in 1..(n + 2) :
   LET A == AOf(c)  b == Tests(n)[k]  x == Res(c, k)
       Dm == DiagOf(A)  w == par.w
       Dinv == Tup(n, LAMBDA i : Tup(n, LAMBDA j : IF i = j THEN Div(One, A[i][i]) ELSE Zero))
       \* (D + wL) D^-1 (D + wU) x = w (2 - w) b
       lhs == MatVec(n, MAdd(Dm, MScale(w, LowerOf(A))), MatVec(n, Dinv, MatVec(n, MAdd(Dm, MScale(w, UpperOf(A))), x)))
   IN lhs = VScale(Mul(w, Sub(D(2), w)), b)
JacobiRelation == Unfiltered /\ kind = "jacobi" => \A c \in {1, 2}, k \in 1..(n + 2) :
   LET A == AOf(c)  b == Tests(n)[k]  x == Res(c, k) IN MatVec(n, DiagOf(A), x) = VScale(par.w, b)
\* ILU: L U equals A on the level-p pattern; the pattern contains the pattern of A and grows with p;
\* complete fill (p >= n - 2 suffices for n <= 4) gives A^-1
IluLaws == Unfiltered /\ kind = "ilu" => \A c \in {1, 2} :
   LET A == AOf(c)  Q == IluPattern(n, P, par.p)  LU == IluFactor(n, A, Q)
       prod == MatMul(n, IluL(n, LU), IluU(n, LU))
   IN /\ \A ik \in Q : prod[ik[1]][ik[2]] = A[ik[1]][ik[2]]
      /\ P \subseteq Q /\ (par.p > 0 => IluPattern(n, P, par.p - 1) \subseteq Q)
      /\ (Q = IluPattern(n, P, n) => \A k \in 1..(n + 2) : MatVec(n, A, Res(c, k)) = Tests(n)[k])
\* every entry of the table (filters included) is linear in the input
Linearity == hist = <<>> => \A i \in 1..Len(tab), c \in {1, 2} :
   LET o == tab[i].o[c] IN o[n + 2] = VSub(VScale(D(2), o[n + 1]), o[1])
\* the correction filter: dofs of the last unit filter vanish; a mean filter that is not followed by a unit filter leaves a
\* correction whose dual mean vanishes.  MeanFilterLaw: the two projections of the mean filter, different from each other
FilterLaw == hist = <<>> => \A i \in 1..Len(tab), c \in {1, 2}, k \in 1..(n + 2) :
   LET x == tab[i].o[c][k] IN
     /\ \A j \in F.u2 : x[j] = Zero
     /\ (F.mk = 0 => \A j \in F.u1 : x[j] = Zero)
     /\ (F.mk # 0 /\ F.u2 = {} => Dot(x, MeanDual(n, F.mk)) = Zero)
MeanFilterLaw == hist = <<>> /\ F.mk # 0 =>
   LET g == Gen(n)  p == MeanPrim(n, F.mk)  d == MeanDual(n, F.mk)  c == MeanCor(g, F.mk)  e == MeanDef(g, F.mk)
       zero == Tup(n, LAMBDA i : Zero)
   IN /\ c # e /\ IsPow2(Dot(p, d))
      /\ Dot(c, d) = Zero /\ MeanCor(c, F.mk) = c /\ MeanCor(p, F.mk) = zero        \* projection along prim onto dual^perp
      /\ Dot(e, p) = Zero /\ MeanDef(e, F.mk) = e /\ MeanDef(d, F.mk) = zero        \* projection along dual onto prim^perp
LifeOK == life \in {"created", "symbolic", "numeric"} /\ (life = "numeric" <=> atInit # 0)

\* ---- Part 4: generator ------------------------------------------------------------------------------------------
Final == IF Mode = "canon" THEN Len(hist) = Len(Canon) ELSE Len(hist) = MaxHist
SetSeq(S) == LET RECURSIVE Go(_) Go(T) == IF T = {} THEN <<>> ELSE LET x == CHOOSE y \in T : TRUE IN <<x>> \o Go(T \ {x}) IN Go(S)
IluInfo(c) == LET Q == IluPattern(n, P, par.p)  LU == IluFactor(n, AOf(c), Q)
              IN [pat |-> Tup(n, LAMBDA i : Tup(n, LAMBDA j : IF <<i, j>> \in Q THEN 1 ELSE 0)),
                  lu |-> MatMul(n, IluL(n, LU), IluU(n, LU))]
Emit == Final =>
  PrintT(ToJson([n |-> n, kind |-> kind, w |-> hist[1].w, m |-> par.m, p |-> par.p,
                 F |-> SetSeq(F.u1), mk |-> F.mk, F2 |-> SetSeq(F.u2),
                 mp |-> IF F.mk = 0 THEN <<>> ELSE MeanPrim(n, F.mk), md |-> IF F.mk = 0 THEN <<>> ELSE MeanDual(n, F.mk),
                 pat |-> Tup(n, LAMBDA i : Tup(n, LAMBDA j : IF i = j \/ <<i, j>> \in P THEN 1 ELSE 0)),
                 A1 |-> AOf(1), A2 |-> AOf(2), d1 |-> DOf(1), d2 |-> DOf(2), tests |-> Tests(n),
                 ilu1 |-> IF kind = "ilu" THEN IluInfo(1) ELSE [pat |-> <<>>, lu |-> <<>>],
                 ilu2 |-> IF kind = "ilu" THEN IluInfo(2) ELSE [pat |-> <<>>, lu |-> <<>>],
                 steps |-> [s \in 1..Len(hist) |-> [op |-> hist[s].op, w |-> hist[s].w,
                             exp |-> [k \in 1..Len(hist[s].exp) |-> SetSeq(hist[s].exp[k])]]]]))
=============================================================================
