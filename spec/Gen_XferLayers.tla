--------------------------- MODULE Gen_XferLayers ---------------------------
(* G direction for C13, grid transfer across process layers:                 *)
(* Global::Transfer (kernel/global/transfer.hpp) over Global::Muxer with     *)
(* GHOST processes.                                                          *)
(*                                                                           *)
(* Fine level: NR ranks, rank r holds the fine patch fd[r] (subset of the    *)
(* NF global fine dofs, one of the decompositions FinePatch); the fine gate  *)
(* connects ranks sharing a fine dof.                                        *)
(* Coarse level: the ranks are grouped into sibling groups of consecutive    *)
(* ranks (every composition of NR); one rank of each group is the PARENT     *)
(* (its first or its last rank), the other ranks of the group are GHOSTS     *)
(* (child but not parent).  The parent of group g holds the parent patch     *)
(* pd[g] (subset of the NC global coarse dofs); parent patches overlap, the  *)
(* coarse gate connects the PARENTS sharing a coarse dof.  Rank r of group g *)
(* holds the child patch cdf[r] \subseteq pd[g] in its own local numbering   *)
(* (renumbering kind cren[r], module Renum: the parent/child mirrors of the  *)
(* muxer are not monotone in general) and the LOCAL transfer matrices        *)
(*   RL(r)  restriction  cdf[r] x fd[r]   (type 0)                           *)
(*   TL(r)  truncation   cdf[r] x fd[r]   (type 0, DIFFERENT from RL)        *)
(*   PL(r)  prolongation fd[r] x cdf[r]   (type 0)                           *)
(* The undecomposed operators are the sums of the local ones over all ranks. *)
(*                                                                           *)
(* Operations (one call per rank, collectively):                             *)
(*   rest   parent: rest(fine, coarse)     ghost: rest_send(fine)            *)
(*   trunc  parent: trunc(fine, coarse)    ghost: trunc_send(fine)           *)
(*   prol   parent: prol(fine, coarse)     ghost: prol_recv(fine)            *)
(* Contract = the single-process result:                                     *)
(*   rest/trunc of the consistent fine vector F: every parent holds at every *)
(*     dof D of its parent patch  SUM_d RGlob(D, d) * F(d)  (resp. TGlob);   *)
(*   prol of the consistent coarse vector C: every rank holds at every dof d *)
(*     of its fine patch  SUM_D PGlob(d, D) * C(D).                          *)
(* The documented combination through the layers (local product on every     *)
(* child, Muxer join = sum over the children of the group on the parent,     *)
(* sync_0 = sum over the parents; split = parent entry to every child, local *)
(* product, sync_0 over the fine gate) is stated as RestLayered/ProlLayered  *)
(* and must equal the single-process result (LawLayers).                     *)
EXTENDS Integers, Sequences, FiniteSets, TLC, Json, Renum

CONSTANTS NR,      \* ranks
          NF,      \* global fine dofs
          NC,      \* global coarse dofs
          FSELS,   \* admissible fine decompositions (see FinePatch)
          PSETS,   \* admissible parent patches
          CSETS,   \* admissible child patches
          MAXG,    \* maximal number of groups
          MING,    \* minimal number of groups
          RENK     \* largest renumbering kind of a child patch

Ranks == 0..(NR - 1)
FDofs == 1..NF
CDofs == 1..NC

VARIABLES cut,     \* set of ranks that start a new group (besides rank 0)
          plast,   \* parent of a group: FALSE its first rank, TRUE its last rank
          fsel,    \* the fine decomposition
          pd,      \* rank -> parent patch of the rank's group (equal within a group)
          cdf,     \* rank -> child patch
          cren     \* rank -> renumbering kind of the child patch
vars == <<cut, plast, fsel, pd, cdf, cren>>

\* fine decompositions: 0 every rank holds every fine dof; 1 a ring (rank r holds dofs r and r+1 modulo NF);
\* 2 rank r holds dof r modulo NF and dof 1; 3 rank r holds the single dof r modulo NF
FinePatch(k, r) ==
  CASE k = 0 -> FDofs
    [] k = 1 -> {1 + (r % NF), 1 + ((r + 1) % NF)}
    [] k = 2 -> {1 + (r % NF), 1}
    [] OTHER -> {1 + (r % NF)}
fd == [r \in Ranks |-> FinePatch(fsel, r)]

Grp(r) == Cardinality({c \in cut : c <= r})
Members(g) == {r \in Ranks : Grp(r) = g}
Groups == {Grp(r) : r \in Ranks}
First(g) == CHOOSE r \in Members(g) : \A s \in Members(g) : r <= s
Last(g) == CHOOSE r \in Members(g) : \A s \in Members(g) : s <= r
Parent(g) == IF plast THEN Last(g) ELSE First(g)
IsParent(r) == Parent(Grp(r)) = r
Parents == {r \in Ranks : IsParent(r)}
Single(r) == Cardinality(Members(Grp(r))) = 1

Init ==
  /\ cut \in SUBSET (1..(NR - 1)) /\ Cardinality(cut) < MAXG /\ Cardinality(cut) + 1 >= MING
  /\ plast \in BOOLEAN
  /\ (plast => \E r \in Ranks : ~Single(r))                       \* otherwise the same as plast = FALSE
  /\ pd \in [Ranks -> PSETS]
  /\ \A r, s \in Ranks : Grp(r) = Grp(s) => pd[r] = pd[s]
  /\ cdf \in [Ranks -> CSETS]
  /\ \A r \in Ranks : cdf[r] \subseteq pd[r] /\ (Single(r) => cdf[r] = pd[r])
  /\ fsel \in FSELS
  /\ cren \in [Ranks -> 0..RENK]
  /\ \A r \in Ranks : RnCanon(cdf[r], cren[r]) /\ (Single(r) => cren[r] = 0)   \* a group of one rank copies: same numbering
Next == UNCHANGED vars
Spec == Init /\ [][Next]_vars

RECURSIVE SumOver(_, _)
SumOver(S, f) == IF S = {} THEN 0 ELSE LET x == CHOOSE x \in S : TRUE IN f[x] + SumOver(S \ {x}, f)

\* ---- data ----------------------------------------------------------------------------------------------------
F(d) == 3 * d - 1                                  \* consistent (type-1) fine vector
C(D) == 7 * D + 2                                  \* consistent (type-1) coarse vector
RL(r, D, d) == (r + 1) + 2 * D + 5 * d - r * D      \* local restriction
TL(r, D, d) == 40 + 3 * (r + 1) * d - D + r * D * d \* local truncation (differs from RL everywhere)
PL(r, d, D) == 2 * (r + 1) * D - 3 * d + 11         \* local prolongation

\* ---- numberings and mirrors ----------------------------------------------------------------------------------------
FOrd(r) == RnSorted(fd[r])                          \* fine patch: ascending local numbering (renumbered gates: Gen_Synch)
POrd(r) == RnSorted(pd[r])                          \* parent patch: ascending local numbering
COrd(r) == RnOrder(cdf[r], cren[r])                 \* child patch: renumbered
FMir(r, s) == IF s # r /\ fd[r] \cap fd[s] # {} THEN RnMirror(FOrd(r), fd[r] \cap fd[s]) ELSE <<>>
\* coarse gate between the parents p, q (world ranks)
PMir(p, q) == IF p # q /\ IsParent(p) /\ IsParent(q) /\ pd[p] \cap pd[q] # {} THEN RnMirror(POrd(p), pd[p] \cap pd[q]) ELSE <<>>
\* muxer: the child's side (parent mirror: child vector -> buffer) and the parent's side (child mirror: buffer -> parent vector);
\* the buffer lists the dofs of the child patch in ascending global order
MuxChildSide(r) == RnMirror(COrd(r), cdf[r])
MuxParentSide(r) == RnMirror(POrd(r), cdf[r])

\* ---- the single-process operators and results ---------------------------------------------------------------------------
FOwned == UNION {fd[r] : r \in Ranks}
COwned == UNION {pd[r] : r \in Ranks}
Holders(D, d) == {r \in Ranks : D \in cdf[r] /\ d \in fd[r]}
RGlob(D, d) == LET S == Holders(D, d) IN SumOver(S, [r \in S |-> RL(r, D, d)])
TGlob(D, d) == LET S == Holders(D, d) IN SumOver(S, [r \in S |-> TL(r, D, d)])
PGlob(d, D) == LET S == Holders(D, d) IN SumOver(S, [r \in S |-> PL(r, d, D)])
RestSingle(D) == SumOver(FOwned, [d \in FOwned |-> RGlob(D, d) * F(d)])
TruncSingle(D) == SumOver(FOwned, [d \in FOwned |-> TGlob(D, d) * F(d)])
ProlSingle(d) == SumOver(COwned, [D \in COwned |-> PGlob(d, D) * C(D)])

\* ---- the combination through the layers -----------------------------------------------------------------------------------
LocRest(r, D) == SumOver(fd[r], [d \in fd[r] |-> RL(r, D, d) * F(d)])            \* D \in cdf[r]
LocTrunc(r, D) == SumOver(fd[r], [d \in fd[r] |-> TL(r, D, d) * F(d)])
JoinRest(g, D) == LET S == {c \in Members(g) : D \in cdf[c]} IN SumOver(S, [c \in S |-> LocRest(c, D)])
JoinTrunc(g, D) == LET S == {c \in Members(g) : D \in cdf[c]} IN SumOver(S, [c \in S |-> LocTrunc(c, D)])
RestLayered(D) == LET S == {p \in Parents : D \in pd[p]} IN SumOver(S, [p \in S |-> JoinRest(Grp(p), D)])
TruncLayered(D) == LET S == {p \in Parents : D \in pd[p]} IN SumOver(S, [p \in S |-> JoinTrunc(Grp(p), D)])
LocProl(r, d) == SumOver(cdf[r], [D \in cdf[r] |-> PL(r, d, D) * C(D)])             \* split: the child holds C on cdf[r]
ProlLayered(d) == LET S == {r \in Ranks : d \in fd[r]} IN SumOver(S, [r \in S |-> LocProl(r, d)])

PerSeq(q, Op(_)) == [i \in 1..Len(q) |-> Op(q[i])]
Case ==
  [kind |-> "xfer", nr |-> NR, nf |-> NF, nc |-> NC,
   grp |-> [r \in Ranks |-> Grp(r)],
   srank |-> [r \in Ranks |-> r - First(Grp(r))],                          \* rank in the sibling communicator
   prank |-> [r \in Ranks |-> Parent(Grp(r)) - First(Grp(r))],              \* sibling rank of the parent
   isparent |-> [r \in Ranks |-> IsParent(r)],
   gsize |-> [r \in Ranks |-> Cardinality(Members(Grp(r)))],
   members |-> [r \in Ranks |-> RnSorted(Members(Grp(r)))],
   nghost |-> Cardinality(Ranks \ Parents),
   fsel |-> fsel, fdofs |-> [r \in Ranks |-> FOrd(r)], pdofs |-> [r \in Ranks |-> POrd(r)], cdofs |-> [r \in Ranks |-> COrd(r)],
   cren |-> [r \in Ranks |-> cren[r]],
   nonmono |-> \E r \in Ranks : ~RnMonotone(MuxChildSide(r)),
   fmir |-> [r \in Ranks |-> [s \in Ranks |-> FMir(r, s)]],
   pmir |-> [r \in Ranks |-> [s \in Ranks |-> PMir(r, s)]],
   muxc |-> [r \in Ranks |-> MuxChildSide(r)], muxp |-> [r \in Ranks |-> MuxParentSide(r)],
   f |-> [r \in Ranks |-> PerSeq(FOrd(r), F)],
   c |-> [r \in Ranks |-> PerSeq(POrd(r), C)],
   rmat |-> [r \in Ranks |-> PerSeq(COrd(r), LAMBDA D : PerSeq(FOrd(r), LAMBDA d : RL(r, D, d)))],
   tmat |-> [r \in Ranks |-> PerSeq(COrd(r), LAMBDA D : PerSeq(FOrd(r), LAMBDA d : TL(r, D, d)))],
   pmat |-> [r \in Ranks |-> PerSeq(FOrd(r), LAMBDA d : PerSeq(COrd(r), LAMBDA D : PL(r, d, D)))],
   rest |-> [r \in Ranks |-> PerSeq(POrd(r), RestSingle)],
   trunc |-> [r \in Ranks |-> PerSeq(POrd(r), TruncSingle)],
   prol |-> [r \in Ranks |-> PerSeq(FOrd(r), ProlSingle)]]
Emit == PrintT(ToJson(Case))

\* ---- laws -------------------------------------------------------------------------------------------------------
\* the combination through the layers is the single-process result
LawLayers ==
  /\ \A D \in COwned : RestLayered(D) = RestSingle(D) /\ TruncLayered(D) = TruncSingle(D)
  /\ \A d \in FOwned : ProlLayered(d) = ProlSingle(d)
\* the numberings are permutations; both sides of the muxer address the same coarse dof at every buffer position
LawRenum == \A r \in Ranks :
  /\ RnIsPerm(COrd(r), cdf[r])
  /\ RnMirrorsAgree(COrd(r), POrd(r), cdf[r])
  /\ \A s \in Ranks \ {r} : RnMirrorsAgree(FOrd(r), FOrd(s), fd[r] \cap fd[s])
\* restriction and truncation can be told apart on every rank with a ghost (the truncated and the restricted vector differ)
LawDistinct == \A r \in Ranks : \A D \in cdf[r] : LocRest(r, D) # LocTrunc(r, D)
=============================================================================
