SPECIFICATION Spec
CONSTANTS MaxNodes = 5 Variants = {"plain", "loops"} OrderMode = "few"
INVARIANTS InputValid Emit
CHECK_DEADLOCK FALSE
