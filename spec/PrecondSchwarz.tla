------------------------------- MODULE PrecondSchwarz -------------------------------
(* C08 extension: Solver::SchwarzPrecond (kernel/solver/schwarz_precond.hpp) is the averaged additive Schwarz       *)
(* operator of its local solvers.                                                                                   *)
(*                                                                                                                  *)
(* NR processes hold overlapping patches dofs[r] of the global dofs 1..ND.  A global (type-1, consistent) vector    *)
(* holds at rank r the entries of its patch.  With the local solver S_r (any SolverBase on the local vector) the     *)
(* documented operator - "synchronously adding (and averaging) a set of local solutions" - is                        *)
(*        x = F ( M^-1 sum_r R_r^T S_r R_r d )                                                                       *)
(* R_r = restriction to patch r, M = diag(number of patches holding the dof), F = correction filter (a               *)
(* Global::Filter<UnitFilter>): apply = local solve on the local part of the defect, Global::Vector::sync_1 (sum     *)
(* over the sharing processes times the reciprocal count), filter_cor.                                               *)
(* Status: unless ignore_status is set the local status codes are reduced over the communicator - if the local       *)
(* solver of ANY process fails, EVERY process returns Status::aborted (and nothing is synchronised); with            *)
(* ignore_status every process returns success and synchronises.                                                     *)
(* Life cycle: init_symbolic / init_numeric / done_numeric / done_symbolic are forwarded to the local solver; after  *)
(* a value update and init_numeric the next apply reflects the new local matrices.                                   *)
(*                                                                                                                  *)
(* Local solvers of the generated cases: "mock" - a general dense local map captured at init_numeric, which logs      *)
(* its calls and can be told to fail on one rank; "jacobi" - Solver::JacobiPrecond on the local CSR matrix            *)
(* (power-of-two diagonal, omega = 1/2) with a local NoneFilter.                                                      *)
(* Expected entries are emitted as exact pairs <<numerator (dyadic), count>>; the replayer compares with == where     *)
(* count is a power of two and within 4 eps relative otherwise (x * (1/3) is not exact in binary floating point).     *)
EXTENDS DyadicLA, Json, TLC

CONSTANTS NR, ND,
          Flavs,     \* subset of {"mock", "jacobi"}
          FailRs,    \* subset of -1..NR-1: rank whose local solver fails (-1 written as 99: none)
          Igns,      \* subset of BOOLEAN: ignore_status
          Filts      \* subset of {0, 1}: 1 = global dof 1 is filtered

Ranks == 0..(NR - 1)
Dofs == 1..ND
NoFail == 99

VARIABLES dofs, flav, failr, ign, filt
vars == <<dofs, flav, failr, ign, filt>>

Sharers(d) == {r \in Ranks : d \in dofs[r]}
Count(d) == Cardinality(Sharers(d))
\* the type-1 defect
X(d) == <<D(3), D(-2), D(1), D(5), D(-1)>>[d]
\* local matrix of rank r for value set c (mock: the linear map itself; jacobi: the matrix whose diagonal is inverted)
LocVal(r, d, e, c) ==
  IF d = e THEN <<D(2), D(4), D(1), H(1, 1)>>[((r + d + c) % 4) + 1]
  ELSE <<D(1), D(-1), Zero, D(2), H(1, 1)>>[((r * 2 + d * 3 + e + c) % 5) + 1]
Omega == H(1, 1)
\* y_r = S_r R_r d  at dof d of patch r
LocalSol(r, d, c) ==
  IF flav = "jacobi" THEN Mul(Div(Omega, LocVal(r, d, d, c)), X(d))
  ELSE LET S == SetSeq(dofs[r]) IN DSumTo(LAMBDA j : Mul(LocVal(r, d, S[j], c), X(S[j])), Len(S))
\* numerator of the Schwarz result at dof d: sum over the sharing ranks
RECURSIVE SumRanks(_, _, _)
SumRanks(S, d, c) == IF S = {} THEN Zero ELSE LET r == CHOOSE r \in S : TRUE IN Add(LocalSol(r, d, c), SumRanks(S \ {r}, d, c))
Filtered(d) == filt = 1 /\ d = 1
Num(d, c) == IF Filtered(d) THEN Zero ELSE SumRanks(Sharers(d), d, c)

Init ==
  /\ dofs \in [Ranks -> (SUBSET Dofs) \ {{}}]
  /\ UNION {dofs[r] : r \in Ranks} = Dofs
  /\ flav \in Flavs /\ failr \in FailRs /\ ign \in Igns /\ filt \in Filts
  /\ (failr # NoFail => flav = "mock" /\ failr \in Ranks)
  /\ (ign => failr # NoFail)                    \* ignore_status only matters when a solver fails
Next == UNCHANGED vars
Spec == Init /\ [][Next]_vars

\* ---- laws --------------------------------------------------------------------------------------------------------
\* partition of unity: with S_r = identity the operator is the identity on consistent vectors (here: the averaging weights sum to one)
AverageLaw == \A d \in Dofs : Count(d) >= 1
\* a dof held by one process only receives exactly the local solution
UnsharedLaw == \A d \in Dofs : Count(d) = 1 /\ ~Filtered(d) => \A c \in {1, 2} : Num(d, c) = LocalSol(CHOOSE r \in Ranks : d \in dofs[r], d, c)

\* ---- generator ------------------------------------------------------------------------------------------------------
Canon == <<"IS", "IN", "AP", "AP", "UP", "IN", "AP", "DN", "DS">>
Aborts == failr # NoFail /\ ~ign
RECURSIVE StepsFrom(_, _)
StepsFrom(s, c) ==
  IF s > Len(Canon) THEN <<>>
  ELSE <<[op |-> Canon[s], c |-> c]>> \o StepsFrom(s + 1, IF Canon[s] = "UP" THEN 3 - c ELSE c)
Key(r) == ToString(r)
Emit == PrintT(ToJson(
  [nr |-> NR, nd |-> ND, kind |-> "schwarz", flav |-> flav, failr |-> failr, ign |-> ign, filt |-> filt, aborts |-> Aborts,
   exact |-> \A d \in Dofs : Count(d) \in {1, 2, 4},
   dofs |-> [r \in Ranks |-> SetSeq(dofs[r])],
   x |-> [r \in Ranks |-> [i \in 1..Cardinality(dofs[r]) |-> X(SetSeq(dofs[r])[i])]],
   L1 |-> [r \in Ranks |-> LET S == SetSeq(dofs[r]) IN [i \in 1..Len(S) |-> [j \in 1..Len(S) |-> LocVal(r, S[i], S[j], 1)]]],
   L2 |-> [r \in Ranks |-> LET S == SetSeq(dofs[r]) IN [i \in 1..Len(S) |-> [j \in 1..Len(S) |-> LocVal(r, S[i], S[j], 2)]]],
   num1 |-> [r \in Ranks |-> LET S == SetSeq(dofs[r]) IN [i \in 1..Len(S) |-> Num(S[i], 1)]],
   num2 |-> [r \in Ranks |-> LET S == SetSeq(dofs[r]) IN [i \in 1..Len(S) |-> Num(S[i], 2)]],
   count |-> [r \in Ranks |-> LET S == SetSeq(dofs[r]) IN [i \in 1..Len(S) |-> Count(S[i])]],
   omega |-> Omega,
   steps |-> StepsFrom(1, 1)]))
=============================================================================
