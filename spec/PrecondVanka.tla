------------------------------- MODULE PrecondVanka -------------------------------
(* C08 extension: Solver::Vanka (kernel/solver/vanka.hpp, all eight VankaTypes) and Solver::AmaVanka                 *)
(* (kernel/solver/amavanka.hpp, amavanka_base.hpp) on a saddle-point system  M = [A B; D 0]  apply exactly the        *)
(* documented block relaxation, with the local systems inverted exactly (Math::invert_matrix).                       *)
(*                                                                                                                  *)
(* System: n velocity nodes with dim components each (dim = 1: SparseMatrixCSR blocks; dim = 2: SparseMatrixBCSR     *)
(* blocks, node-major numbering, or Power{Diag,Full}/PowerCol/PowerRow matrices over CSR, component-major           *)
(* numbering), m pressure dofs.  Everything is written on FLAT indices: velocity 1..NV (NV = n dim), pressure       *)
(* NV+1..NV+m; NodeOf / CompOf give the node and component of a flat velocity index for the layout.                  *)
(*                                                                                                                  *)
(* Blocks (Vanka::_build_p_nodal/_build_p_block/_build_v_block, AmaVankaCore::deduct_macro_dofs):                     *)
(*   nodal  one block per pressure dof q:  P = {q}                                                                  *)
(*   block  for every pressure dof i not yet covered, in increasing order: with c(q) = |{j : D_ij and B_jq are      *)
(*          stored}| the block is P = {q : c(q) = max c > 0} (for a discontinuous pressure: the dofs of one cell)   *)
(*   the velocity nodes of a block are all nodes j with D_qj stored for some q in P; a block owns all components    *)
(*   of its nodes; local numbering = increasing flat index, velocity first.                                          *)
(* Local systems: L_k = M[idx_k, idx_k] (principal sub-matrix).                                                       *)
(*   full  c = L_k^-1 r                                                                                              *)
(*   diag  A replaced by its main diagonal a:  S = -D_k a^-1 B_k,  p = S^-1 (r_p - D_k a^-1 r_v),                    *)
(*         v = a^-1 (r_v - B_k p)                                                                                     *)
(* Sweeps (one action per step, see BlockStep / EndIter):                                                            *)
(*   multiplicative  x := 0; per iteration: for k = 1..nb: r := (f - M x)[idx_k]; x[idx_k] += omega c(r);           *)
(*                   then x := filter_cor(x)                                                                         *)
(*   additive        x := 0; per iteration: d := f - M x (d := f in the first); t := 0;                              *)
(*                   for k: t[idx_k] += omega c(d[idx_k]);  x := filter_cor(x + t / count)  with count_i = number   *)
(*                   of blocks containing dof i (a dof in no block receives no correction)                          *)
(*   AmaVanka        V := diag(omega / count) sum_k P_k^T L_k^-1 P_k  assembled at init_numeric (count = number of   *)
(*                   macros containing the dof - of the regular ones with skip_singular, where a singular macro is  *)
(*                   left out and a dof without regular macro gets a unit row);                                     *)
(*                   x := fc(V f); further steps: x += fc(V fd(f - M x))   (fc / fd = correction / defect filter)   *)
(*                   The macros are deduced from the matrix (kinds "ama", "amas") or PUSHED by the user (kinds "amap",  *)
(*                   "amaps": any sequence of macros (set of velocity nodes, set of pressure dofs) covering every    *)
(*                   dof): singular macros (skip_singular) before, between and after regular macros whose local      *)
(*                   matrices have structurally empty entries.                                                       *)
(* Filters: unit filter on velocity nodes; on the pressure the chain  unit ; mean(prim, dual)  with non-proportional   *)
(* primal and dual vector, for which fc (x - prim (dual.x)/(prim.dual)) and fd (x - dual (prim.x)/(prim.dual)) differ.  *)
(* The factorisations are computed at init_numeric; the defect of the multiplicative sweep and of the later          *)
(* additive iterations / AmaVanka steps reads the matrix at apply.  Between a value update and the next             *)
(* init_numeric the property leaves the result open; the generated histories do not apply there.                     *)
(*                                                                                                                  *)
(* Exact domain: see DyadicLA!Inverse - only systems are generated for which every local matrix is inverted with     *)
(* power-of-two pivots in the order Math::invert_matrix uses, the diagonal of A consists of powers of two (diag      *)
(* variants), and count is a power of two; then every double operation is exact and results are compared with ==.    *)
(* Local matrices that are evidently singular (a zero row or column) are generated where the behaviour is            *)
(* specified: diag variants must throw VankaFactorError at init_numeric, AmaVanka with skip_singular must leave the  *)
(* macro out.  (full variants and AmaVanka without skip_singular have regular local systems as precondition.)        *)
EXTENDS DyadicLA, Json, TLC

CONSTANTS Layouts,        \* subset of {"csr", "bcsr", "pdiag", "pfull"}
          NVs, NPs,       \* numbers of velocity nodes / pressure dofs
          Kinds,          \* subset of {"ndm","nfm","bdm","bfm","nda","nfa","bda","bfa","ama","amas","amap","amaps"} (amas: skip_singular;
                          \* amap / amaps: AmaVanka without / with skip_singular on user-pushed macros)
          Oms,            \* subset of 1..3: omega = 1, 1/2, 3/2
          Iters,          \* set of iteration / step counts
          FiltSel,        \* subset of {"none", "v", "p", "vp", "m", "vm", "pm"}  (v: unit filter on a velocity node, p: on a pressure dof,
                          \* m: mean filter on the pressure, pm: the chain unit ; mean on the pressure)
          Pals,           \* value palettes 1..3
          APat,           \* "diag": A couples no two nodes; "all": every off-diagonal node pattern; "coupled": every non-empty one
          MinNz, MaxNz,   \* bounds on the number of pattern entries of B plus D
          MacLens,        \* pushed macros: set of numbers of macros (lengths of the macro sequences); {} for the deduced kinds
          ZDP             \* FALSE: the exact domain described above.  TRUE: ONLY systems with a local matrix that is regular but on
                          \* which the diagonal pivoting of Math::invert_matrix meets a zero pivot (known finding
                          \* C08x-invert-matrix-diagonal-pivoting); its inverse is computed with row pivoting (DyadicLA!InverseRP)

VARIABLES lay, n, m, PA, PB, PD, pal, cls, mac, kind, om, iters, fsel,    \* the chosen input (constant along a behaviour)
          idx, nvs, cnt, mats, fac, ama, tests,                 \* functions of the input (block structure, factorisations)
          pc, it, k, X, Tt, lastr                               \* the sweep
input == <<lay, n, m, PA, PB, PD, pal, cls, mac, kind, om, iters, fsel>>
derived == <<idx, nvs, cnt, mats, fac, ama, tests>>
vars == <<input, derived, pc, it, k, X, Tt, lastr>>

IsBlock(kd) == kd \in {"bdm", "bfm", "bda", "bfa", "ama", "amas", "amap", "amaps"}
IsFull(kd)  == kd \in {"nfm", "bfm", "nfa", "bfa", "ama", "amas", "amap", "amaps"}
IsAdd(kd)   == kd \in {"nda", "nfa", "bda", "bfa"}
IsAma(kd)   == kd \in {"ama", "amas", "amap", "amaps"}
IsPushed(kd) == kd \in {"amap", "amaps"}
Omega(o) == <<One, H(1, 1), H(3, 1)>>[o]
\* block structure and factorisation depend on the kind only through its class <<family, block?, full?, pushed macros?>>; Init
\* chooses the class first and the kind after the (expensive) domain test.  family: "vanka", "ama" (every macro is used),
\* "amas" (skip_singular: singular macros are left out)
ClassOf(kd) == <<IF kd \in {"ama", "amap"} THEN "ama" ELSE IF kd \in {"amas", "amaps"} THEN "amas" ELSE "vanka", IsBlock(kd), IsFull(kd), IsPushed(kd)>>
BlockC == cls[2]
FullC == cls[3]
AmaC == cls[1] # "vanka"
PushedC == cls[4]

\* ---- numbering -------------------------------------------------------------------------------------------------
DimOf(ly) == IF ly = "csr" THEN 1 ELSE 2
NodeOfL(ly, nn, i) == IF ly = "csr" THEN i ELSE IF ly = "bcsr" THEN ((i - 1) \div 2) + 1 ELSE ((i - 1) % nn) + 1
CompOfL(ly, nn, i) == IF ly = "csr" THEN 1 ELSE IF ly = "bcsr" THEN ((i - 1) % 2) + 1 ELSE ((i - 1) \div nn) + 1
dim == DimOf(lay)
NV == n * dim
NN == NV + m
NodeOf(i) == NodeOfL(lay, n, i)
CompOf(i) == CompOfL(lay, n, i)

\* ---- values -------------------------------------------------------------------------------------------------------
\* The palettes are chosen so that many systems fall into the exact domain: the main diagonal of A consists of powers of two
\* that dominate the couplings (Math::invert_matrix then eliminates the velocity dofs first and - as long as A is triangular up to
\* a permutation - meets the diagonal entries themselves as pivots); whether the local Schur complements are inverted with
\* power-of-two pivots is decided by TLC (Init).
OffPal == <<D(1), D(-1), H(1, 1), D(2), H(-1, 1), D(-2), D(1)>>
BDPal == <<D(1), D(-1), H(1, 1), D(1), H(-1, 1), D(2), D(-1)>>
DiagPal == <<D(4), D(8), D(4), D(16), D(8)>>
\* A: power-of-two main diagonal; the components of one node are coupled for BCSR / PowerFull (not for PowerDiag): the
\* entry (comp 1, comp 2) of the node block is non-zero, the entry (comp 2, comp 1) is a stored zero;
\* different nodes are coupled on the node pattern PA (PowerDiag: equal components only)
AVal(i, j, pl) ==
  LET vi == NodeOf(i)  vj == NodeOf(j)  ci == CompOf(i)  cj == CompOf(j) IN
  IF i = j THEN DiagPal[((vi * 2 + ci + pl) % 5) + 1]
  ELSE IF lay = "pdiag" /\ ci # cj THEN Zero
  ELSE IF vi = vj THEN (IF ci < cj THEN <<D(1), H(-1, 1), D(-2)>>[((vi + pl) % 3) + 1] ELSE Zero)
  ELSE IF <<vi, vj>> \in PA THEN OffPal[((vi * 3 + vj * 5 + ci + cj * 2 + pl) % 7) + 1]
  ELSE Zero
\* B (NV x m) and D (m x NV): independent values (D # B^T); the second component of a stored block may be zero
BVal(i, q, pl) ==
  IF <<NodeOf(i), q>> \notin PB THEN Zero
  ELSE IF CompOf(i) = 1 THEN BDPal[((NodeOf(i) * 3 + q * 5 + pl) % 7) + 1]
  ELSE <<D(1), Zero, D(-1), H(1, 1)>>[((NodeOf(i) + q * 3 + pl) % 4) + 1]
DVal(q, j, pl) ==
  IF <<q, NodeOf(j)>> \notin PD THEN Zero
  ELSE IF CompOf(j) = 1 THEN BDPal[((q * 2 + NodeOf(j) * 3 + pl * 4) % 7) + 1]
  ELSE <<D(-1), D(1), Zero, H(1, 1)>>[((NodeOf(j) * 3 + q + pl) % 4) + 1]
\* the saddle-point matrix in flat numbering.  Value set 1 takes the palette; value set 2 (after the update) is
\*    A2 = 4 A1,  B2 = 2 B1,  D2 = 8 D1,   i.e.  M2 = R M1 C  with  R = diag(I, 2 I), C = diag(4 I, 2 I):
\* every diagonal entry met during the elimination of any local system is multiplied by 4, so the pivot order and the
\* power-of-two property of the pivots carry over - a system in the exact domain stays there after the update, while all three
\* blocks change and  M2^-1 = C^-1 M1^-1 R^-1  is not a multiple of M1^-1.
MOf(c) == LET pl == pal IN
  MatOf(NN, NN, LAMBDA i, j : IF i <= NV /\ j <= NV THEN (IF c = 1 THEN AVal(i, j, pl) ELSE Mul(D(4), AVal(i, j, pl)))
                              ELSE IF i <= NV THEN (IF c = 1 THEN BVal(i, j - NV, pl) ELSE Mul(D(2), BVal(i, j - NV, pl)))
                              ELSE IF j <= NV THEN (IF c = 1 THEN DVal(i - NV, j, pl) ELSE Mul(D(8), DVal(i - NV, j, pl))) ELSE Zero)

\* ---- blocks ---------------------------------------------------------------------------------------------------------
Cnt(i, q) == Cardinality({j \in 1..n : <<i, j>> \in PD /\ <<j, q>> \in PB})
MaxCnt(i) == LET S == {Cnt(i, q) : q \in 1..m} IN CHOOSE x \in S : \A y \in S : y <= x
BlockP(i) == IF MaxCnt(i) = 0 THEN {} ELSE {q \in 1..m : Cnt(i, q) = MaxCnt(i)}
RECURSIVE BuildBlocks(_, _, _)
BuildBlocks(i, mask, acc) ==
  IF i > m THEN acc
  ELSE IF i \in mask THEN BuildBlocks(i + 1, mask, acc)
  ELSE BuildBlocks(i + 1, mask \cup BlockP(i), Append(acc, BlockP(i)))
PSets == IF BlockC THEN BuildBlocks(1, {}, <<>>) ELSE Vec(m, LAMBDA q : {q})
VNodes(P) == {j \in 1..n : \E q \in P : <<q, j>> \in PD}
\* global flat indices of a block with pressure dofs P: velocity (all components of its nodes) in increasing order, then pressure
IdxOfP(P) == SetSeq({i \in 1..NV : NodeOf(i) \in VNodes(P)}) \o SetSeq({NV + q : q \in P})
NvOfP(P) == Cardinality({i \in 1..NV : NodeOf(i) \in VNodes(P)})
\* pushed macros: a macro is a pair <<set of velocity nodes, set of pressure dofs>>, not both empty; a macro sequence of length L
\* consists of L different macros (their order matters: it is the order of the numeric factorisation)
MacroU == {mc \in (SUBSET (1..n)) \X (SUBSET (1..m)) : mc[1] # {} \/ mc[2] # {}}
MacroSeqs == UNION {{sq \in [1..L -> MacroU] : \A a, b \in 1..L : a # b => sq[a] # sq[b]} : L \in MacLens}
IdxOfMacro(mc) == SetSeq({i \in 1..NV : NodeOf(i) \in mc[1]}) \o SetSeq({NV + q : q \in mc[2]})
NvOfMacro(mc) == Cardinality({i \in 1..NV : NodeOf(i) \in mc[1]})
InIdx(ix, i) == \E a \in 1..Len(ix) : ix[a] = i
PosIn(ix, i) == CHOOSE a \in 1..Len(ix) : ix[a] = i

\* ---- the state ------------------------------------------------------------------------------------------------------------
\* idx, cnt, mats, fac, ama are functions of the input, computed once in Init (init_symbolic / init_numeric for both value sets)
\*   idx[b]   global flat indices of block b            nvs[b]  number of velocity dofs of block b
\*   cnt[i]   number of blocks containing dof i
\*   mats[c]  the saddle-point matrix of value set c     fac[c][b]  factorisation of block b for value set c
\*   ama[c]   the assembled AmaVanka matrix
NB == Len(idx)
NvOf(b) == nvs[b]
NpOf(b) == Len(idx[b]) - nvs[b]

\* ---- factorisation (init_numeric) ----------------------------------------------------------------------------------------
LocalMat(Mx, ix) == MatOf(Len(ix), Len(ix), LAMBDA a, b : Mx[ix[a]][ix[b]])
\* inverse of a local matrix: [st, a, zdp];  zdp = regular, but only row pivoting finds the inverse (generated only with ZDP)
LocalInverse(nn, L) ==
  LET r == Inverse(nn, L) IN
  IF r.st = "zero" /\ ZDP /\ ~HasZeroLine(nn, L)
  THEN LET r2 == InverseRP(nn, L) IN IF r2.st = "ok" THEN [st |-> "ok", a |-> r2.a, zdp |-> TRUE] ELSE [st |-> r.st, a |-> r.a, zdp |-> FALSE]
  ELSE [st |-> r.st, a |-> r.a, zdp |-> FALSE]
FactorFull(Mx, b) == LET L == LocalMat(Mx, idx[b])  zl == HasZeroLine(Len(idx[b]), L) IN
                     IF zl THEN [st |-> "zero", inv |-> L, zl |-> TRUE, loc |-> L, zdp |-> FALSE]
                     ELSE LET r == LocalInverse(Len(idx[b]), L) IN [st |-> r.st, inv |-> r.a, zl |-> FALSE, loc |-> L, zdp |-> r.zdp]
FactorDiag(Mx, b) ==
  LET ix == idx[b]  nv == NvOf(b)  np == NpOf(b)
      ainv == Vec(nv, LAMBDA a : IF IsPow2(Mx[ix[a]][ix[a]]) THEN Div(One, Mx[ix[a]][ix[a]]) ELSE Inexact)
      dt == MatOf(np, nv, LAMBDA i, a : FMul(Mx[ix[nv + i]][ix[a]], ainv[a]))        \* D a^-1
      bl == MatOf(nv, np, LAMBDA a, j : Mx[ix[a]][ix[nv + j]])
      S == MatOf(np, np, LAMBDA i, j : Neg(FSumTo(LAMBDA a : FMul(dt[i][a], bl[a][j]), nv)))
      r == LocalInverse(np, S)
  \* an empty block (block variants: the pressure dof that opens it has a structurally zero Schur complement entry, no dof
  \* reaches the maximal degree) counts as singular like the 1 x 1 zero Schur complement of the nodal variant
  IN [st |-> IF VecExact(ainv) THEN r.st ELSE "inexact", ainv |-> ainv, dt |-> dt, bl |-> bl, sinv |-> r.a,
      zl |-> VecExact(ainv) /\ (np = 0 \/ HasZeroLine(np, S)), loc |-> S, zdp |-> r.zdp]
Factor(Mx) == Vec(NB, LAMBDA b : IF FullC THEN FactorFull(Mx, b) ELSE FactorDiag(Mx, b))

\* local solve of block b with factorisation F for the local right-hand side r (velocity first)
LocalSolve(F, b, r) ==
  IF FullC THEN RMatVec(Len(r), Len(r), F[b].inv, r)
  ELSE LET nv == NvOf(b)  np == NpOf(b)  fb == F[b]
           g == Vec(np, LAMBDA i : FSub(r[nv + i], FSumTo(LAMBDA a : FMul(fb.dt[i][a], r[a]), nv)))
           p == RMatVec(np, np, fb.sinv, g)
           v == Vec(nv, LAMBDA a : FMul(fb.ainv[a], FSub(r[a], FSumTo(LAMBDA j : FMul(fb.bl[a][j], p[j]), np))))
       IN v \o p

\* ---- filters: UnitFilter on whole velocity nodes; on the pressure the chain  UnitFilter ; MeanFilter -------------------------
FVNodes == IF fsel \in {"v", "vp", "vm"} THEN {n} ELSE {}
FPDofs == IF fsel \in {"p", "vp", "pm"} THEN {1} ELSE {}
HasMean == fsel \in {"m", "vm", "pm"}
\* primal vector (1, 1, 1), dual vector (3, -1, 2): not proportional for m >= 2, <prim, dual> = 3, 2, 4 for m = 1, 2, 3
MeanP == Vec(m, LAMBDA q : One)
MeanD == Vec(m, LAMBDA q : <<D(3), D(-1), D(2)>>[q])
MeanVol == DDot(MeanP, MeanD)
Filtered(i) == IF i <= NV THEN NodeOf(i) \in FVNodes ELSE (i - NV) \in FPDofs
UnitFilt(x) == Vec(NN, LAMBDA i : IF Filtered(i) THEN Zero ELSE x[i])
\* code (MeanFilter): cor  x.axpy(prim, -x.dot(dual) / volume),  def  x.axpy(dual, -x.dot(prim) / volume)
MeanStep(x, a, b) ==      \* pressure part  p - a (b.p) / volume
  LET xp == SubVec(x, NV + 1, m)  f == Div(Neg(DDot(xp, b)), MeanVol)
  IN Vec(NN, LAMBDA i : IF i <= NV THEN x[i] ELSE FAdd(x[i], FMul(f, a[i - NV])))
FiltC(x) == IF HasMean THEN MeanStep(UnitFilt(x), MeanP, MeanD) ELSE UnitFilt(x)      \* correction filter
FiltD(x) == IF HasMean THEN MeanStep(UnitFilt(x), MeanD, MeanP) ELSE UnitFilt(x)      \* defect filter

\* ---- test right-hand sides --------------------------------------------------------------------------------------------
GenV(len) == Vec(len, LAMBDA i : <<D(1), D(-2), D(3), H(1, 1), D(-1), D(2), D(-3), H(1, 2)>>[i])
TestIdx == IF NN <= 4 THEN 1..NN ELSE {1, NN}                  \* unit vectors used
NT == Cardinality(TestIdx) + 2
TestsOf == LET u == SetSeq(TestIdx) IN
  Vec(Len(u) + 2, LAMBDA t : IF t <= Len(u) THEN UnitVec(NN, u[t])
                             ELSE IF t = Len(u) + 1 THEN GenV(NN) ELSE RVSub(RVScale(D(2), GenV(NN)), UnitVec(NN, 1)))

\* value sets carried through the sweep: <<factor values, matrix values at apply>> (the canonical history applies only
\* after init_numeric, so both coincide; a third entry <<1, 2>> would be the stale state the property leaves open)
Combos == <<<<1, 1>>, <<2, 2>>>>
NC == Len(Combos)
Tab(F(_, _)) == Vec(NC, LAMBDA cb : Vec(NT, LAMBDA t : F(cb, t)))
Residual(Mx, f, x) == RVSub(f, RMatVec(NN, NN, Mx, x))
ResidualAt(Mx, f, x, ix) == Vec(Len(ix), LAMBDA a : FSub(f[ix[a]], FSumTo(LAMBDA j : FMul(Mx[ix[a]][j], x[j]), NN)))
Gather(v, ix) == Vec(Len(ix), LAMBDA a : v[ix[a]])
\* x with  w * c  added at the indices ix
ScatterAdd(x, ix, w, c) == Vec(Len(x), LAMBDA i : IF InIdx(ix, i) THEN FAdd(x[i], FMul(w, c[PosIn(ix, i)])) ELSE x[i])

\* ---- AmaVanka: the assembled matrix -------------------------------------------------------------------------------------
MacroActive(F, b) == cls[1] = "ama" \/ F[b].st = "ok"
ActiveCount(F, i) == Cardinality({b \in 1..NB : MacroActive(F, b) /\ InIdx(idx[b], i)})
AmaRaw(F, i, j) ==       \* sum over the (regular) macros containing i and j of the entry of the local inverse
  FSumTo(LAMBDA b : IF MacroActive(F, b) /\ InIdx(idx[b], i) /\ InIdx(idx[b], j)
                    THEN F[b].inv[PosIn(idx[b], i)][PosIn(idx[b], j)] ELSE Zero, NB)
AmaMatrix(F) == MatOf(NN, NN, LAMBDA i, j :
  IF ActiveCount(F, i) = 0 THEN (IF i = j THEN One ELSE Zero)
  ELSE FMul(AmaRaw(F, i, j), Div(Omega(om), D(ActiveCount(F, i)))))

\* the domain of a value set: 0 = outside, 1 = regular, 2 = init_numeric must throw VankaFactorError
DomainOf(F) ==
  IF AmaC THEN
       IF \A b \in 1..NB : F[b].st = "ok" \/ (cls[1] = "amas" /\ F[b].zl) THEN 1 ELSE 0
  ELSE IF FullC THEN (IF \A b \in 1..NB : F[b].st = "ok" THEN 1 ELSE 0)
  ELSE IF \E b \in 1..NB : ~VecExact(F[b].ainv) THEN 0
  ELSE IF \E b \in 1..NB : F[b].zl THEN 2
  ELSE IF \A b \in 1..NB : F[b].st = "ok" THEN 1 ELSE 0

ZeroTab == Tab(LAMBDA cb, t : ZeroVec(NN))
\* the conjuncts are ordered so that TLC computes the block structure and the factorisations once per system and kind and
\* enumerates omega, the iteration count and the filters after the domain test
Init ==
  /\ lay \in Layouts /\ n \in NVs /\ m \in NPs
  /\ PA \in (IF APat = "diag" THEN {{}} ELSE (SUBSET {ij \in (1..n) \X (1..n) : ij[1] # ij[2]}) \ (IF APat = "coupled" THEN {{}} ELSE {}))
  /\ PB \in SUBSET ((1..n) \X (1..m)) /\ PD \in SUBSET ((1..m) \X (1..n))
  /\ Cardinality(PB) + Cardinality(PD) >= MinNz /\ Cardinality(PB) + Cardinality(PD) <= MaxNz
  /\ pal \in Pals /\ cls \in {ClassOf(kd) : kd \in Kinds}
  /\ (AmaC => lay \in {"bcsr", "csr"}) /\ (AmaC /\ ~PushedC => lay = "bcsr")      \* macros can be deduced for the BCSR layout only
  \* (gathering a macro from a BCSR block without any stored entry is outside the API: SparseMatrixBCSR::val() of an empty matrix)
  /\ (PushedC /\ lay = "bcsr" => PB # {} /\ PD # {})
  /\ mac \in (IF PushedC THEN MacroSeqs ELSE {<<>>})
  \* (likewise the velocity-pressure blocks of the assembled Vanka matrix: some macro couples a velocity node with a pressure dof)
  /\ (PushedC /\ lay = "bcsr" => \E b \in 1..Len(mac) : mac[b][1] # {} /\ mac[b][2] # {})
  \* Vanka reads the row pointer arrays of D (and of B for the block variants) in init_symbolic, and asserts non-empty BCSR
  \* matrices: D (and B) must have at least one stored entry
  /\ (~AmaC => PD # {} /\ (IF PB = {} THEN ~BlockC /\ lay # "bcsr" ELSE TRUE))
  /\ idx = IF PushedC THEN Vec(Len(mac), LAMBDA b : IdxOfMacro(mac[b])) ELSE Vec(Len(PSets), LAMBDA b : IdxOfP(PSets[b]))
  /\ nvs = IF PushedC THEN Vec(Len(mac), LAMBDA b : NvOfMacro(mac[b])) ELSE Vec(Len(PSets), LAMBDA b : NvOfP(PSets[b]))
  /\ cnt = Vec(NN, LAMBDA i : Cardinality({b \in 1..Len(idx) : InIdx(idx[b], i)}))
  /\ (AmaC => \A i \in 1..NN : cnt[i] >= 1)           \* AmaVanka asserts that every dof lies in a macro
  /\ mats = <<MOf(1), MOf(2)>>
  \* the second value set is a scaling of the first which preserves the domain (see MOf): test the first one only
  /\ \E f1 \in {Factor(mats[1])} : DomainOf(f1) # 0 /\ fac = <<f1, Factor(mats[2])>>
  /\ DomainOf(fac[2]) = DomainOf(fac[1])
  /\ (ZDP <=> \E b \in 1..NB : fac[1][b].zdp)
  /\ pc = (IF DomainOf(fac[1]) = 2 THEN "throws" ELSE "sweep")
  /\ kind \in {kd \in Kinds : ClassOf(kd) = cls}
  /\ (IsAdd(kind) => \A i \in 1..NN : cnt[i] \in {0, 1, 2, 4})
  \* additive variants with a dof in no block (see known finding C08x-vanka-additive-uncovered-dof-nan): only a thin family
  /\ (IsAdd(kind) /\ (\E i \in 1..NN : cnt[i] = 0) => PA = {} /\ pal = (CHOOSE o \in Pals : TRUE) /\ Cardinality(PB) + Cardinality(PD) = MinNz)
  /\ om \in Oms /\ iters \in Iters /\ fsel \in FiltSel
  /\ (HasMean => IsPow2(MeanVol))                    \* the mean filter divides by <prim, dual>: m >= 2
  \* the cases in which init_numeric must throw need no sweep: one per pattern of B and D, for the multiplicative kinds
  /\ (pc = "throws" => PA = {} /\ pal = (CHOOSE o \in Pals : TRUE) /\ ~IsAdd(kind))
  /\ (pc = "throws" => om = CHOOSE o \in Oms : TRUE)  /\ (pc = "throws" => iters = CHOOSE o \in Iters : TRUE) /\ (pc = "throws" => fsel = CHOOSE o \in FiltSel : TRUE)
  /\ (AmaC => \A c \in {1, 2} : \A i \in 1..NN : ActiveCount(fac[c], i) > 0 => IsExact(Div(Omega(om), D(ActiveCount(fac[c], i)))))
  /\ ama = IF AmaC THEN <<AmaMatrix(fac[1]), AmaMatrix(fac[2])>> ELSE <<>>
  /\ tests = TestsOf
  /\ it = 1 /\ k = 1 /\ X = ZeroTab /\ Tt = ZeroTab /\ lastr = <<>>

\* defect the additive variants distribute in iteration `it`
AddDefectAt(cb, t, ix) == IF it = 1 THEN Gather(tests[t], ix) ELSE ResidualAt(mats[Combos[cb][2]], tests[t], X[cb][t], ix)

\* one block of the sweep (Vanka)
BlockStep ==
  /\ pc = "sweep" /\ ~AmaC /\ k <= NB
  /\ LET ix == idx[k] IN
       IF IsAdd(kind)
       THEN /\ Tt' = Tab(LAMBDA cb, t : ScatterAdd(Tt[cb][t], ix, Omega(om), LocalSolve(fac[Combos[cb][1]], k, AddDefectAt(cb, t, ix))))
            /\ UNCHANGED <<X, lastr>>
       ELSE LET R == Tab(LAMBDA cb, t : ResidualAt(mats[Combos[cb][2]], tests[t], X[cb][t], ix)) IN
            /\ X' = Tab(LAMBDA cb, t : ScatterAdd(X[cb][t], ix, Omega(om), LocalSolve(fac[Combos[cb][1]], k, R[cb][t])))
            /\ lastr' = R /\ UNCHANGED Tt
  /\ k' = k + 1 /\ UNCHANGED <<input, derived, pc, it>>

\* end of an iteration: additive update (a dof in no block receives no correction), correction filter
EndIter ==
  /\ pc = "sweep" /\ ~AmaC /\ k = NB + 1
  /\ X' = Tab(LAMBDA cb, t :
             IF IsAdd(kind)
             THEN FiltC(Vec(NN, LAMBDA i : IF cnt[i] = 0 THEN X[cb][t][i]
                                             ELSE FAdd(X[cb][t][i], FMul(Tt[cb][t][i], Div(One, D(cnt[i]))))))
             ELSE FiltC(X[cb][t]))
  /\ Tt' = ZeroTab /\ lastr' = <<>>
  /\ IF it < iters THEN it' = it + 1 /\ k' = 1 /\ pc' = pc ELSE pc' = "done" /\ UNCHANGED <<it, k>>
  /\ UNCHANGED <<input, derived>>

\* AmaVanka: one step = one product with the assembled matrix
AmaStep ==
  /\ pc = "sweep" /\ AmaC
  /\ X' = Tab(LAMBDA cb, t :
             LET V == ama[Combos[cb][1]] IN
             IF it = 1 THEN FiltC(RMatVec(NN, NN, V, tests[t]))
             ELSE RVAdd(X[cb][t], FiltC(RMatVec(NN, NN, V, FiltD(Residual(mats[Combos[cb][2]], tests[t], X[cb][t]))))))
  /\ IF it < iters THEN it' = it + 1 /\ pc' = pc ELSE pc' = "done" /\ it' = it
  /\ UNCHANGED <<input, derived, k, Tt, lastr>>

Next == BlockStep \/ EndIter \/ AmaStep
Spec == Init /\ [][Next]_vars

\* ---- laws ----------------------------------------------------------------------------------------------------------------
\* the local inverses are inverses (diag variants: of the local Schur complement)
InverseLaws == pc = "sweep" /\ it = 1 /\ k = 1 => \A c \in {1, 2} : \A b \in 1..NB :
   LET fb == fac[c][b] IN
     fb.st = "ok" => InverseLaw(IF FullC THEN Len(idx[b]) ELSE NpOf(b), fb.loc, IF FullC THEN fb.inv ELSE fb.sinv)
\* block Gauss-Seidel: after the relaxation of block k (full, multiplicative, factors of the current values) the residual on the
\* block is (1 - omega) times the residual before
GaussSeidelLaw == pc = "sweep" /\ ~IsAdd(kind) /\ ~AmaC /\ FullC /\ k > 1 /\ lastr # <<>> =>
   \A cb \in {1, 2} : \A t \in 1..NT :
      Gather(Residual(mats[cb], tests[t], X[cb][t]), idx[k - 1]) = RVScale(Sub(One, Omega(om)), lastr[cb][t])
\* diag variants: the local correction solves the local system with A replaced by its main diagonal
DiagLocalLaw == pc = "sweep" /\ ~IsAdd(kind) /\ ~AmaC /\ ~FullC /\ k > 1 /\ lastr # <<>> =>
   \A cb \in {1, 2} : \A t \in 1..NT :
      LET b == k - 1  ix == idx[b]  nv == NvOf(b)  np == NpOf(b)  Mx == mats[cb]
          c == LocalSolve(fac[cb], b, lastr[cb][t])
      IN /\ \A a \in 1..nv : Add(Mul(Mx[ix[a]][ix[a]], c[a]), DSumTo(LAMBDA j : Mul(Mx[ix[a]][ix[nv + j]], c[nv + j]), np)) = lastr[cb][t][a]
         /\ \A i \in 1..np : DSumTo(LAMBDA a : Mul(Mx[ix[nv + i]][ix[a]], c[a]), nv) = lastr[cb][t][nv + i]
\* one block covering every dof, omega = 1, one iteration, no filter: the preconditioner is the exact inverse
WholeSystemLaw == pc = "done" /\ FullC /\ NB = 1 /\ Len(idx[1]) = NN /\ om = 1 /\ iters = 1 /\ fsel = "none"
                  /\ fac[1][1].st = "ok" /\ fac[2][1].st = "ok" =>
   \A cb \in {1, 2} : \A t \in 1..NT : RMatVec(NN, NN, mats[cb], X[cb][t]) = tests[t]
Linearity == pc = "done" => \A cb \in 1..NC : X[cb][NT] = RVSub(RVScale(D(2), X[cb][NT - 1]), X[cb][1])
ResultsExact == pc = "done" => \A cb \in 1..NC : \A t \in 1..NT : VecExact(X[cb][t])
\* filtered velocity dofs vanish; the pressure part has dual mean zero after a mean filter, vanishing unit-filtered dofs otherwise
FilterLaw == pc = "done" => \A cb \in 1..NC : \A t \in 1..NT :
   /\ \A i \in 1..NN : Filtered(i) /\ (i <= NV \/ ~HasMean) => X[cb][t][i] = Zero
   /\ (HasMean => DDot(SubVec(X[cb][t], NV + 1, m), MeanD) = Zero)
\* the two projections of the mean filter differ and are idempotent
MeanFilterLaw == pc = "done" /\ HasMean /\ FPDofs = {} /\ FVNodes = {} =>
   LET g == GenV(NN)  c == FiltC(g)  e == FiltD(g) IN c # e /\ FiltC(c) = c /\ FiltD(e) = e
\* AmaVanka (one step, no skipped macro) is Vanka block_full_add: x = filter(sum_k omega P_k^T L_k^-1 P_k f / count)
AmaIsBlockFullAdd == pc = "done" /\ AmaC /\ iters = 1 /\ (\A i \in 1..NN : cnt[i] \in {1, 2, 4}) => \A c \in {1, 2} :
   (\A b \in 1..NB : fac[c][b].st = "ok") => \A t \in 1..NT :
      LET RECURSIVE Acc(_)
          Acc(b) == IF b = 0 THEN ZeroVec(NN) ELSE ScatterAdd(Acc(b - 1), idx[b], Omega(om), LocalSolve(fac[c], b, Gather(tests[t], idx[b])))
          tt == Acc(NB)
      IN X[c][t] = FiltC(Vec(NN, LAMBDA i : Mul(tt[i], Div(One, D(cnt[i])))))

\* ---- generator -----------------------------------------------------------------------------------------------------------------
\* canonical life-cycle history (init_numeric after every value update; repeated apply; done_symbolic and a second
\* init_symbolic); the expected result of an apply with the factors and matrix values c is X[c]
Canon == <<"IS", "IN", "AP", "UP", "IN", "AP", "AP", "DN", "DS", "IS", "UP", "IN", "AP", "DN", "DS">>
SetSeq2(S) == LET RECURSIVE Go(_) Go(Q) == IF Q = {} THEN <<>> ELSE LET x == CHOOSE y \in Q : TRUE IN <<x>> \o Go(Q \ {x}) IN Go(S)
ExpAt(a, c, t) == IF a = c THEN {X[a][t]} ELSE {}      \* (never with Canon)
RECURSIVE StepsFrom(_, _, _)
StepsFrom(s, a, c) ==
  IF s > Len(Canon) THEN <<>>
  ELSE LET op == Canon[s] IN
       <<[op |-> op, exp |-> IF op = "AP" THEN [t \in 1..NT |-> SetSeq2(ExpAt(a, c, t))] ELSE <<>>]>>
       \o StepsFrom(s + 1, IF op = "IN" THEN c ELSE IF op = "DN" THEN 0 ELSE a, IF op = "UP" THEN 3 - c ELSE c)
Pat01(r, c, S) == MatOf(r, c, LAMBDA i, j : IF <<i, j>> \in S THEN 1 ELSE 0)
BlocksOut == [b \in 1..NB |-> [idx |-> idx[b], nv |-> nvs[b]]]
Emit == pc \in {"done", "throws"} =>
  PrintT(ToJson([lay |-> lay, n |-> n, m |-> m, dim |-> dim, kind |-> kind, om |-> Omega(om), iters |-> iters, fsel |-> fsel,
                 FV |-> SetSeq(FVNodes), FP |-> SetSeq(FPDofs), throws |-> (pc = "throws"), zdp |-> ZDP,
                 mp |-> IF HasMean THEN MeanP ELSE <<>>, md |-> IF HasMean THEN MeanD ELSE <<>>, pushed |-> PushedC,
                 patA |-> MatOf(n, n, LAMBDA i, j : IF i = j \/ <<i, j>> \in PA THEN 1 ELSE 0),
                 patB |-> Pat01(n, m, PB), patD |-> Pat01(m, n, PD),
                 M1 |-> mats[1], M2 |-> mats[2], blocks |-> BlocksOut, count |-> cnt,
                 ama1 |-> IF AmaC THEN ama[1] ELSE <<>>, ama2 |-> IF AmaC THEN ama[2] ELSE <<>>,
                 mask1 |-> IF cls[1] = "amas" THEN [b \in 1..NB |-> IF fac[1][b].st = "ok" THEN 1 ELSE 0] ELSE <<>>,
                 mask2 |-> IF cls[1] = "amas" THEN [b \in 1..NB |-> IF fac[2][b].st = "ok" THEN 1 ELSE 0] ELSE <<>>,
                 tests |-> tests,
                 steps |-> IF pc = "throws" THEN <<[op |-> "IS", exp |-> <<>>], [op |-> "INTHROW", exp |-> <<>>]>> ELSE StepsFrom(1, 0, 1)]))
=============================================================================
