----------------------------- MODULE PrecondBlk -----------------------------
(* C08, square-blocked part: the preconditioners on SparseMatrixBCSR<DT,IT,BS,BS> /         *)
(* DenseVectorBlocked<DT,IT,BS>.  The matrix is an n x n matrix of BS x BS blocks, a vector  *)
(* a tuple of n tuples of length BS.  D, L, U are the BLOCK diagonal, strictly lower and      *)
(* strictly upper BLOCK triangle of A; the diagonal blocks are invertible but in general      *)
(* neither symmetric nor commuting with the other blocks, so every product below is written   *)
(* in its mathematically required order.                                                       *)
(*   SOR      (D/omega + L)^-1 :  x_K = omega D_KK^-1 (b_K - sum_{J<K} A_KJ x_J)              *)
(*   SSOR     omega(2-omega) (D + omega U)^-1 D (D + omega L)^-1 :                            *)
(*              y_K = D_KK^-1 (b_K - omega sum_{J<K} A_KJ y_J)                                 *)
(*              x_K = y_K - omega D_KK^-1 sum_{J>K} A_KJ x_J,   result omega (2-omega) x      *)
(*   ILU(p)   A ~ (I + L')(D' + U') on the level-p pattern Q of the BLOCK graph (the same     *)
(*            level-of-fill definition as in the scalar case, module Precond).  Requiring      *)
(*            ((I+L')(D'+U'))_IJ = A_IJ on Q gives for J < I                                   *)
(*                 A_IJ = sum_{K<J} L'_IK U'_KJ + L'_IJ D'_JJ ,                                *)
(*            i.e. the block IKJ elimination  L'_IJ := R_IJ D'_JJ^-1  (the inverse pivot block *)
(*            multiplies FROM THE RIGHT; Saad, Iterative Methods, Alg. 10.3 in block form),    *)
(*            R_IK := R_IK - L'_IJ U'_JK for K > J, (I,K),(J,K) in Q.  Apply = block forward   *)
(*            substitution with I+L', block backward substitution with D'+U'.                  *)
(*   Jacobi / Polynomial / Diagonal / Scale / Matrix are generic in FEAT and act POINTWISE on  *)
(*            the blocked containers (JacobiPrecond uses extract_diag = the scalar main        *)
(*            diagonal of the blocked matrix, component_invert, component_product): their      *)
(*            operators are the scalar ones on the flattened matrix.                           *)
(* each followed by the correction filter: a chain  unit(u1) ; mean ; unit(u2)                    *)
(* (FilterChain<UnitFilterBlocked, MeanFilterBlocked, UnitFilterBlocked>): the unit filter sets  *)
(* whole blocks to zero, the blocked mean filter acts on every component r separately with its   *)
(* own primal / dual vector pair:  cor  x_r - v_r (w_r . x_r) / (v_r . w_r),                     *)
(*                                 def  x_r - w_r (v_r . x_r) / (v_r . w_r).                     *)
(* Life cycle, parameters, patterns, filters and histories are those of module Precond (reused *)
(* unchanged); the results of the operators for both value sets are computed once per input    *)
(* and kept in the constant variable `tab` (declared in module Precond; here it holds the       *)
(* blocked table).                                                                             *)
(* Exactness: a dyadic block has a dyadic inverse iff its determinant is +-2^k (det X det X^-1 *)
(* = 1); the code inverts through the adjugate and 1/det, which is then exact.  Inputs for     *)
(* which a diagonal block (ILU: a pivot block D'_JJ) leaves that class are not generated.      *)
EXTENDS Precond

CONSTANT BS        \* block size: 2, 3 (1 = cross check against the scalar definitions of Precond, not replayed)
bvars == vars      \* tab: results of the blocked operators on every test vector (constant along a behaviour)

TupB(len, G(_)) ==
  IF len <= 6 THEN Tup(len, G)
  ELSE CASE len = 7  -> <<G(1), G(2), G(3), G(4), G(5), G(6), G(7)>>
         [] len = 8  -> <<G(1), G(2), G(3), G(4), G(5), G(6), G(7), G(8)>>
         [] len = 9  -> <<G(1), G(2), G(3), G(4), G(5), G(6), G(7), G(8), G(9)>>
         [] len = 10 -> <<G(1), G(2), G(3), G(4), G(5), G(6), G(7), G(8), G(9), G(10)>>
         [] len = 11 -> <<G(1), G(2), G(3), G(4), G(5), G(6), G(7), G(8), G(9), G(10), G(11)>>

\* ---- B1: block algebra --------------------------------------------------------------------------------
BTup(G(_, _)) == Tup(BS, LAMBDA r : Tup(BS, LAMBDA c : G(r, c)))
ZeroB == BTup(LAMBDA r, c : Zero)
IdB == BTup(LAMBDA r, c : IF r = c THEN One ELSE Zero)
ZeroV == Tup(BS, LAMBDA r : Zero)
BSub(X, Y) == BTup(LAMBDA r, c : Sub(X[r][c], Y[r][c]))
BMul(X, Y) == MatMul(BS, X, Y)
BApp(X, v) == MatVec(BS, X, v)
BExact(X) == \A r \in 1..BS : VecExact(X[r])

Cyc(k) == (k % 3) + 1
\* cofactor (sign included)
Cof(X, r, c) ==
  CASE BS = 1 -> One
    [] BS = 2 -> IF r = c THEN X[3 - r][3 - c] ELSE Neg(X[3 - r][3 - c])
    [] BS = 3 -> LET r1 == Cyc(r)  r2 == Cyc(r1)  c1 == Cyc(c)  c2 == Cyc(c1)
                 IN Sub(Mul(X[r1][c1], X[r2][c2]), Mul(X[r1][c2], X[r2][c1]))
Det(X) == DSumTo(LAMBDA c : Mul(X[1][c], Cof(X, 1, c)), BS)
\* inverse = transposed cofactors / det; defined (exact) iff det = +-2^k.  BInvLaw below checks X X^-1 = I = X^-1 X.
BInv(X) == LET d == Det(X) IN BTup(LAMBDA r, c : IF IsPow2(d) THEN Div(Cof(X, c, r), d) ELSE Inexact)

\* block vectors
BVAdd(u, v) == Tup(Len(u), LAMBDA I : VAdd(u[I], v[I]))
BVSub(u, v) == Tup(Len(u), LAMBDA I : VSub(u[I], v[I]))
BVScale(a, v) == Tup(Len(v), LAMBDA I : VScale(a, v[I]))
BVExact(v) == \A I \in 1..Len(v) : VecExact(v[I])
RECURSIVE VSumTo(_, _)
VSumTo(G(_), k) == IF k = 0 THEN ZeroV ELSE VAdd(VSumTo(G, k - 1), G(k))        \* G(1) + ... + G(k), vectors of length BS
BMatVec(A, x) == Tup(n, LAMBDA I : VSumTo(LAMBDA J : BApp(A[I][J], x[J]), n))
RECURSIVE BSumTo(_, _)
BSumTo(G(_), k) == IF k = 0 THEN ZeroB ELSE LET prev == BSumTo(G, k - 1)  g == G(k) IN BTup(LAMBDA r, c : Add(prev[r][c], g[r][c]))
BMatMul(A, B) == Tup(n, LAMBDA I : Tup(n, LAMBDA K : BSumTo(LAMBDA J : BMul(A[I][J], B[J][K]), n)))

\* ---- B2: inputs ----------------------------------------------------------------------------------------
\* Off-diagonal blocks: full, in general singular or non-commuting with the diagonal blocks, entries in {0, +-1, +-2, 1/2}.
OffTab == <<D(1), D(-1), Zero, D(2), D(1), H(1, 1), D(-2), Zero>>
OffB(i, j, pl) ==
  IF BS = 1 THEN <<<<OffVal(i, j, pl)>>>>
  ELSE BTup(LAMBDA r, c : OffTab[((3 * i + 5 * j + 7 * r + 2 * c + pl * (r + 2 * c + i)) % 8) + 1])
\* Diagonal blocks: invertible with determinant +-2^k (dyadic inverse), mostly full and non-symmetric; the scalar main
\* diagonal entries are powers of two except for block 3 of palette 3, an anti-triangular block with vanishing scalar
\* diagonal entries (the block methods need the BLOCK to be invertible only).  The pointwise kinds (Jacobi, Polynomial)
\* divide by the scalar diagonal entries and get an upper triangular block in that place.
M2(a, b, c, d) == <<<<a, b>>, <<c, d>>>>
M3(a, b, c, d, e, f, g, h, k) == <<<<a, b, c>>, <<d, e, f>>, <<g, h, k>>>>
Hf == H(1, 1)
Diag2 == << M2(D(2), D(2), Zero, D(2)),   M2(D(2), Zero, D(1), D(1)),    M2(D(1), D(-1), D(1), D(1)),       \* palette 1
            M2(D(1), D(1), D(-1), D(1)),  M2(Hf, Hf, Zero, Hf),          M2(D(2), D(1), D(2), D(2)),        \* palette 2
            M2(D(1), D(2), D(1), D(4)),   M2(D(-1), Zero, D(2), D(2)),   M2(Zero, D(1), D(2), D(1)) >>      \* palette 3
Diag3 == << M3(D(2), D(2), Zero,  Zero, D(2), D(2),  Zero, Zero, D(2)),
            M3(D(1), Zero, Zero,  D(1), D(1), Zero,  Zero, D(1), D(2)),
            M3(D(1), D(-1), Zero,  D(1), D(1), Zero,  Zero, D(1), D(1)),
            M3(D(1), D(1), Zero,  D(-1), D(1), D(1),  Zero, Zero, D(2)),
            M3(Hf, Hf, Zero,  Zero, Hf, Hf,  Zero, Zero, D(1)),
            M3(D(2), D(1), Zero,  D(2), D(2), D(1),  Zero, D(2), D(4)),
            M3(D(1), D(2), Zero,  D(1), D(4), D(1),  D(1), Zero, D(1)),
            M3(D(-1), Zero, D(1),  D(2), D(2), Zero,  Zero, D(1), D(2)),
            M3(Zero, D(1), Zero,  Zero, Zero, D(2),  D(1), D(1), D(1)) >>
DiagB(i, pl) ==
  CASE BS = 1 -> <<<<DiagVal(i, pl)>>>>
    [] BS = 2 -> IF pl = 3 /\ i = 3 /\ kind \in {"jacobi", "poly"} THEN M2(D(4), D(1), Zero, D(1)) ELSE Diag2[(pl - 1) * 3 + i]
    [] BS = 3 -> IF pl = 3 /\ i = 3 /\ kind \in {"jacobi", "poly"} THEN M3(D(4), D(1), Zero,  Zero, D(1), D(1),  Zero, Zero, D(2))
                 ELSE Diag3[(pl - 1) * 3 + i]
BMat(pat, pl) == Tup(n, LAMBDA i : Tup(n, LAMBDA j :
                   IF i = j THEN DiagB(i, pl) ELSE IF <<i, j>> \in pat THEN OffB(i, j, pl) ELSE ZeroB))
BAOf(c) == BMat(P, IF c = 1 THEN pal ELSE NextPal(pal))
\* the vector of DiagonalPrecond (pointwise)
DgTab == <<H(1, 1), D(-2), D(3), H(3, 2), D(1), D(-1), H(-1, 1), D(2), D(4)>>
BDOf(c) == Tup(n, LAMBDA I : Tup(BS, LAMBDA r : DgTab[((((I - 1) * BS + r) + (IF c = 1 THEN pal ELSE NextPal(pal))) % 9) + 1]))

\* test vectors: all n*BS unit vectors, a generic vector g, and 2g - e_1
NT == n * BS + 2
GenTab == <<D(1), D(-2), D(3), H(1, 1), D(-1), D(2), H(-3, 1), D(4), H(1, 2)>>
BUnit(g) == Tup(n, LAMBDA I : Tup(BS, LAMBDA r : IF (I - 1) * BS + r = g THEN One ELSE Zero))
BGen == Tup(n, LAMBDA I : Tup(BS, LAMBDA r : GenTab[(I - 1) * BS + r]))
BTests == TupB(NT, LAMBDA k : IF k <= n * BS THEN BUnit(k)
                              ELSE IF k = n * BS + 1 THEN BGen ELSE BVSub(BVScale(D(2), BGen), BUnit(1)))

BParams(kd) == IF kd = "ilu" THEN {[w |-> One, m |-> 0, p |-> p] : p \in 0..Max2(1, n - 1)} ELSE Params(kd)

\* ---- B3: the operators ---------------------------------------------------------------------------------
\* the filter chain F = [u1, mk, u2] of module Precond on block vectors; component r of the mean filter uses the vector pair
\* mk (r odd) resp. 3 - mk (r even) of module Precond
BUnitF(v, S) == IF S = {} THEN v ELSE Tup(n, LAMBDA I : IF I \in S THEN ZeroV ELSE v[I])
CompMk(mk, r) == IF r % 2 = 1 THEN mk ELSE 3 - mk
BComp(v, r) == Tup(n, LAMBDA I : v[I][r])
BMeanCor(v, mk) == IF mk = 0 THEN v
                   ELSE LET cs == Tup(BS, LAMBDA r : MeanCor(BComp(v, r), CompMk(mk, r))) IN Tup(n, LAMBDA I : Tup(BS, LAMBDA r : cs[r][I]))
BMeanDef(v, mk) == IF mk = 0 THEN v
                   ELSE LET cs == Tup(BS, LAMBDA r : MeanDef(BComp(v, r), CompMk(mk, r))) IN Tup(n, LAMBDA I : Tup(BS, LAMBDA r : cs[r][I]))
BFilt(v) == BUnitF(BMeanCor(BUnitF(v, F.u1), F.mk), F.u2)          \* correction filter
BFiltDef(v) == BUnitF(BMeanDef(BUnitF(v, F.u1), F.mk), F.u2)       \* defect filter
DinvOf(A) == Tup(n, LAMBDA I : BInv(A[I][I]))

\* pointwise Jacobi: inv_diag := omega / a (component_invert), result := inv_diag * b
BJacobiOp(A, w, b) == Tup(n, LAMBDA I : Tup(BS, LAMBDA r : Mul(Div(w, A[I][I][r][r]), b[I][r])))

RECURSIVE BSorX(_, _, _, _, _)
BSorX(A, Di, w, b, k) ==
  IF k = 0 THEN <<>>
  ELSE LET x == BSorX(A, Di, w, b, k - 1)
           s == VSumTo(LAMBDA J : BApp(A[k][J], x[J]), k - 1)
       IN Append(x, VScale(w, BApp(Di[k], VSub(b[k], s))))
BSorOp(A, Di, w, b) == BSorX(A, Di, w, b, n)

RECURSIVE BSsorY(_, _, _, _, _)
BSsorY(A, Di, w, b, k) ==
  IF k = 0 THEN <<>>
  ELSE LET y == BSsorY(A, Di, w, b, k - 1)
           s == VSumTo(LAMBDA J : BApp(A[k][J], y[J]), k - 1)
       IN Append(y, BApp(Di[k], VSub(b[k], VScale(w, s))))
RECURSIVE BSsorBack(_, _, _, _, _)
BSsorBack(A, Di, w, y, k) ==
  IF k > n THEN y
  ELSE LET xs == BSsorBack(A, Di, w, y, k + 1)
           s == VSumTo(LAMBDA t : BApp(A[k][k + t], xs[k + t]), n - k)
           xk == VSub(y[k], VScale(w, BApp(Di[k], s)))
       IN Tup(n, LAMBDA I : IF I = k THEN xk ELSE xs[I])
\* the two sweeps without the final factor
BSsorSweeps(A, Di, w, b) == BSsorBack(A, Di, w, BSsorY(A, Di, w, b, n), 1)
BSsorOp(A, Di, w, b) == BVScale(Mul(w, Sub(D(2), w)), BSsorSweeps(A, Di, w, b))

RECURSIVE BPolyC(_, _, _, _, _)
BPolyC(Ad, Al, w, z, i) ==
  IF i = 0 THEN z
  ELSE LET c == BPolyC(Ad, Al, w, z, i - 1)
       IN BVSub(BVAdd(c, z), BJacobiOp(Ad, w, BFiltDef(BMatVec(Al, c))))
BPolyOp(Ad, Al, w, m, b) == BPolyC(Ad, Al, w, BJacobiOp(Ad, w, b), m)

\* blocked ILU: block IKJ elimination of block row i with the pivots j < i of the pattern Q.
\* side = "right": L_ij := R_ij D_jj^-1 (the definition);  side = "left": D_jj^-1 R_ij (a named deviation, see B5)
RECURSIVE BIluRow(_, _, _, _, _, _)
BIluRow(Q, Udone, row, i, j, side) ==
  IF j = i THEN row
  ELSE IF <<i, j>> \notin Q THEN BIluRow(Q, Udone, row, i, j + 1, side)
  ELSE LET pinv == BInv(Udone[j][j])
           l == IF side = "right" THEN BMul(row[j], pinv) ELSE BMul(pinv, row[j])
           r2 == Tup(n, LAMBDA k : IF k = j THEN l
                                   ELSE IF k > j /\ <<i, k>> \in Q /\ <<j, k>> \in Q THEN BSub(row[k], BMul(l, Udone[j][k]))
                                   ELSE row[k])
       IN BIluRow(Q, Udone, r2, i, j + 1, side)
RECURSIVE BIluRows(_, _, _, _)
BIluRows(A, Q, i, side) ==
  IF i = 0 THEN <<>>
  ELSE LET prev == BIluRows(A, Q, i - 1, side)
           row0 == Tup(n, LAMBDA k : IF <<i, k>> \in Q THEN A[i][k] ELSE ZeroB)
       IN Append(prev, BIluRow(Q, prev, row0, i, 1, side))
BIluFactor(A, Q, side) == BIluRows(A, Q, n, side)
BIluL(LU) == Tup(n, LAMBDA i : Tup(n, LAMBDA j : IF j < i THEN LU[i][j] ELSE IF j = i THEN IdB ELSE ZeroB))
BIluU(LU) == Tup(n, LAMBDA i : Tup(n, LAMBDA j : IF j >= i THEN LU[i][j] ELSE ZeroB))
RECURSIVE BIluFwd(_, _, _)
BIluFwd(LU, b, k) ==
  IF k = 0 THEN <<>>
  ELSE LET y == BIluFwd(LU, b, k - 1)
       IN Append(y, VSub(b[k], VSumTo(LAMBDA J : BApp(LU[k][J], y[J]), k - 1)))
RECURSIVE BIluBack(_, _, _, _)
BIluBack(LU, Pi, y, k) ==        \* Pi: inverses of the pivot blocks
  IF k > n THEN y
  ELSE LET xs == BIluBack(LU, Pi, y, k + 1)
           s == VSumTo(LAMBDA t : BApp(LU[k][k + t], xs[k + t]), n - k)
           xk == BApp(Pi[k], VSub(y[k], s))
       IN Tup(n, LAMBDA I : IF I = k THEN xk ELSE xs[I])
BIluSolve(LU, Pi, b) == BIluBack(LU, Pi, BIluFwd(LU, b, n), 1)

\* ---- B4: results for every test vector, computed once per input -------------------------------------------
\* variant "def": the defining operator;  "dev": the named deviation of B5 (SSOR, ILU only)
BOpAll(c, variant) ==
  LET A == BAOf(c)
      T == BTests
      w == par.w
  IN CASE kind = "jacobi"   -> TupB(NT, LAMBDA k : BFilt(BJacobiOp(A, w, T[k])))
       [] kind = "sor"      -> LET Di == DinvOf(A) IN TupB(NT, LAMBDA k : BFilt(BSorOp(A, Di, w, T[k])))
       [] kind = "ssor"     -> LET Di == DinvOf(A) IN
                               IF variant = "def" THEN TupB(NT, LAMBDA k : BFilt(BSsorOp(A, Di, w, T[k])))
                               ELSE TupB(NT, LAMBDA k : BFilt(BSsorSweeps(A, Di, w, T[k])))      \* (Table computes both from one pair of sweeps)
       [] kind = "poly"     -> TupB(NT, LAMBDA k : BFilt(BPolyOp(A, A, w, par.m, T[k])))
       [] kind = "ilu"      -> LET LU == BIluFactor(A, IluPattern(n, P, par.p), IF variant = "def" THEN "right" ELSE "left")
                                   Pi == Tup(n, LAMBDA I : BInv(LU[I][I]))
                               IN TupB(NT, LAMBDA k : BFilt(BIluSolve(LU, Pi, T[k])))
       [] kind = "scale"    -> TupB(NT, LAMBDA k : BFilt(BVScale(w, T[k])))
       [] kind = "diagonal" -> LET d == BDOf(c) IN TupB(NT, LAMBDA k : BFilt(Tup(n, LAMBDA I : VMul(d[I], T[k][I]))))
       [] kind = "matrix"   -> TupB(NT, LAMBDA k : BFilt(BMatVec(A, T[k])))
\* PolynomialPrecond between a value update and the next init_numeric: cached diagonal of values a, live matrix c
BPolyMixedAll(a, c) == LET Ad == BAOf(a)  Al == BAOf(c)  T == BTests
                       IN TupB(NT, LAMBDA k : BFilt(BPolyOp(Ad, Al, par.w, par.m, T[k])))

\* ---- B5: named deviations -------------------------------------------------------------------------------
\* Never accepted: they only classify a mismatch (narrow signature of a finding).
\*   ssor_unscaled : the two SSOR sweeps without the factor omega (2 - omega)
\*   ilu_left_mult : the multiplier block formed as D_jj^-1 R_ij instead of R_ij D_jj^-1
DevName == CASE kind = "ssor" -> "ssor_unscaled" [] kind = "ilu" -> "ilu_left_mult" [] OTHER -> "none"

\* SSOR: definition and deviation from ONE pair of sweeps per test vector (the filters are linear: the factor commutes with them)
SsorScaled(sw) == LET f == Mul(par.w, Sub(D(2), par.w)) IN TupB(NT, LAMBDA k : BVScale(f, sw[k]))
Table ==
  IF kind = "ssor"
  THEN LET s1 == BOpAll(1, "dev")  s2 == BOpAll(2, "dev")
       IN [o1 |-> SsorScaled(s1), o2 |-> SsorScaled(s2), x12 |-> <<>>, x21 |-> <<>>, d1 |-> s1, d2 |-> s2]
  ELSE
  [o1 |-> BOpAll(1, "def"), o2 |-> BOpAll(2, "def"),
   x12 |-> IF kind = "poly" THEN BPolyMixedAll(1, 2) ELSE <<>>,
   x21 |-> IF kind = "poly" THEN BPolyMixedAll(2, 1) ELSE <<>>,
   d1 |-> IF DevName # "none" THEN BOpAll(1, "dev") ELSE <<>>,
   d2 |-> IF DevName # "none" THEN BOpAll(2, "dev") ELSE <<>>]
\* (law SsorTableLaw below: the scaled sweeps are the definition BSsorOp followed by the filter)
BAllExact(rs) == \A k \in 1..Len(rs) : BVExact(rs[k])
\* the input lies in the exact dyadic domain (the deviations need not)
TabExact(t) == BAllExact(t.o1) /\ BAllExact(t.o2) /\ BAllExact(t.x12) /\ BAllExact(t.x21)

\* names of the results allowed for an apply() when the cached data stem from values a and the matrix holds values c
ON(c) == IF c = 1 THEN "o1" ELSE "o2"
DN(c) == IF c = 1 THEN "d1" ELSE "d2"
BAllowed(a, c) ==
  IF a = c THEN <<ON(c)>>
  ELSE <<ON(a), ON(c)>> \o (IF kind = "poly" THEN <<IF a = 1 THEN "x12" ELSE "x21">> ELSE <<>>)
BDevs(a, c) == IF DevName = "none" THEN <<>> ELSE IF a = c THEN <<DN(c)>> ELSE <<DN(a), DN(c)>>

\* ---- B6: life cycle (actions of Precond; Apply records the names of the allowed results) ------------------------
BInit ==
  /\ n \in NS
  /\ P \in {pat \in SUBSET OffPos(n) : Cardinality(pat) >= MinOff /\ Cardinality(pat) <= MaxOff}
  /\ pal \in Pals /\ kind \in Kinds /\ par \in BParams(kind) /\ F \in FilterSets(n)
  /\ (kind = "poly" /\ F.mk # 0 => par.m <= 2)          \* as in module Precond (32 bit integers of TLC)
  /\ tab = Table
  /\ TabExact(tab)
  /\ life = "created" /\ cur = 1 /\ atInit = 0 /\ hist = <<>> /\ wAt = par.w

BApply == /\ Enabled("AP") /\ life = "numeric"
          /\ hist' = Append(hist, [op |-> "AP", exp |-> BAllowed(atInit, cur), dev |-> BDevs(atInit, cur)])
          /\ UNCHANGED <<n, P, pal, kind, par, F, tab, life, cur, atInit, wAt>>

\* the blocked histories keep their relaxation parameter (set_omega is exercised by the scalar module): SO is a no-op step
BNext == InitSymbolic \/ InitNumeric \/ BApply \/ UpdateValues \/ DoneNumeric \/ DoneSymbolic \/ SetOmegaNop
BSpec == BInit /\ [][BNext]_bvars

\* ---- B7: sanity laws of the definitions (on every generated input; relations need the unfiltered operator) ---------
BRes(c, k) == IF c = 1 THEN tab.o1[k] ELSE tab.o2[k]
Cs == {1, 2}
Ks == 1..NT
AtStart == hist = <<>> /\ F = NoFilter
BInvLaw == hist = <<>> => \A c \in Cs, I \in 1..n :
   LET X == BAOf(c)[I][I]  Y == BInv(X) IN BExact(Y) => BMul(X, Y) = IdB /\ BMul(Y, X) = IdB
BJacobiRelation == AtStart /\ kind = "jacobi" => \A c \in Cs, k \in Ks :
   LET A == BAOf(c)  x == BRes(c, k)  b == BTests[k]
   IN \A I \in 1..n, r \in 1..BS : Mul(A[I][I][r][r], x[I][r]) = Mul(par.w, b[I][r])
\* (D + w L) x = w b   (the relation multiplied by w: 1/w is not dyadic for w = 3/2)
BSorRelation == AtStart /\ kind = "sor" => \A c \in Cs, k \in Ks :
   LET A == BAOf(c)  x == BRes(c, k)  b == BTests[k]
   IN \A I \in 1..n : VAdd(BApp(A[I][I], x[I]), VScale(par.w, VSumTo(LAMBDA J : BApp(A[I][J], x[J]), I - 1))) = VScale(par.w, b[I])
\* (D + w L) D^-1 (D + w U) x = w (2 - w) b,  with z = D^-1 t verified by D z = t
BSsorRelation == AtStart /\ kind = "ssor" => \A c \in Cs : LET A == BAOf(c)  Di == DinvOf(A) IN \A k \in Ks :
   LET x == BRes(c, k)  b == BTests[k]  w == par.w
       t == Tup(n, LAMBDA I : VAdd(BApp(A[I][I], x[I]), VScale(w, VSumTo(LAMBDA s : BApp(A[I][I + s], x[I + s]), n - I))))
       z == Tup(n, LAMBDA I : BApp(Di[I], t[I]))
   IN /\ \A I \in 1..n : BApp(A[I][I], z[I]) = t[I]
      /\ \A I \in 1..n : VAdd(BApp(A[I][I], z[I]), VScale(w, VSumTo(LAMBDA J : BApp(A[I][J], z[J]), I - 1)))
                         = VScale(Mul(w, Sub(D(2), w)), b[I])
\* (I+L')(D'+U') equals A on the level-p pattern; complete fill gives A^-1
BIluLaws == AtStart /\ kind = "ilu" => \A c \in Cs :
   LET A == BAOf(c)  Q == IluPattern(n, P, par.p)  LU == BIluFactor(A, Q, "right")
       prod == BMatMul(BIluL(LU), BIluU(LU))
   IN /\ \A ik \in Q : prod[ik[1]][ik[2]] = A[ik[1]][ik[2]]
      /\ P \subseteq Q /\ (par.p > 0 => IluPattern(n, P, par.p - 1) \subseteq Q)
      /\ (Q = IluPattern(n, P, n) => \A k \in Ks : BMatVec(A, BRes(c, k)) = BTests[k])
SsorTableLaw == AtStart /\ kind = "ssor" /\ Cardinality(P) <= 1 => \A c \in Cs :
   LET A == BAOf(c)  Di == DinvOf(A) IN \A k \in Ks : BRes(c, k) = BFilt(BSsorOp(A, Di, par.w, BTests[k]))
BLinearity == hist = <<>> => \A c \in Cs :
   BRes(c, NT) = BVSub(BVScale(D(2), BRes(c, NT - 1)), BRes(c, 1))
\* BS = 1: the blocked definitions coincide with the scalar definitions of module Precond
Flat1(v) == Tup(n, LAMBDA I : v[I][1])
ScalarConsistency == hist = <<>> /\ BS = 1 =>
   /\ \A c \in Cs, k \in Ks : Flat1(BTests[k]) = Tests(n)[k] /\ (kind # "diagonal" => Flat1(BRes(c, k)) = Op(c, Tests(n)[k]))
   /\ kind = "poly" => \A k \in Ks : Flat1(tab.x12[k]) = PolyMixed(1, 2, Tests(n)[k]) /\ Flat1(tab.x21[k]) = PolyMixed(2, 1, Tests(n)[k])
\* the correction filter: blocks of the last unit filter vanish; after a mean filter (not followed by a unit filter) every
\* component has dual mean zero
BFilterLaw == hist = <<>> => \A c \in Cs, k \in Ks :
   LET x == BRes(c, k) IN
     /\ \A I \in F.u2 : x[I] = ZeroV
     /\ (F.mk = 0 => \A I \in F.u1 : x[I] = ZeroV)
     /\ (F.mk # 0 /\ F.u2 = {} => \A r \in 1..BS : Dot(BComp(x, r), MeanDual(n, CompMk(F.mk, r))) = Zero)
BLifeOK == LifeOK

\* ---- B8: generator ----------------------------------------------------------------------------------------------------
IluDiffers(c) == LET Q == IluPattern(n, P, par.p) IN BIluFactor(BAOf(c), Q, "right") # BIluFactor(BAOf(c), Q, "left")
PivotChanged(c) == LET LU == BIluFactor(BAOf(c), IluPattern(n, P, par.p), "right") IN \E I \in 1..n : LU[I][I] # BAOf(c)[I][I]
BEmit == Final =>
  PrintT(ToJson([bs |-> BS, n |-> n, kind |-> kind, w |-> par.w, m |-> par.m, p |-> par.p,
                 F |-> SetSeq(F.u1), mk |-> F.mk, F2 |-> SetSeq(F.u2),
                 mp |-> IF F.mk = 0 THEN <<>> ELSE Tup(n, LAMBDA I : Tup(BS, LAMBDA r : MeanPrim(n, CompMk(F.mk, r))[I])),
                 md |-> IF F.mk = 0 THEN <<>> ELSE Tup(n, LAMBDA I : Tup(BS, LAMBDA r : MeanDual(n, CompMk(F.mk, r))[I])),
                 pat |-> Tup(n, LAMBDA i : Tup(n, LAMBDA j : IF i = j \/ <<i, j>> \in P THEN 1 ELSE 0)),
                 A1 |-> BAOf(1), A2 |-> BAOf(2), dg1 |-> BDOf(1), dg2 |-> BDOf(2), tests |-> BTests,
                 ilupat |-> IF kind = "ilu" THEN LET Q == IluPattern(n, P, par.p)
                                                 IN Tup(n, LAMBDA i : Tup(n, LAMBDA j : IF <<i, j>> \in Q THEN 1 ELSE 0))
                            ELSE <<>>,
                 noncomm |-> IF kind = "ilu" THEN <<IluDiffers(1), IluDiffers(2)>> ELSE <<FALSE, FALSE>>,
                 pivmod |-> kind = "ilu" /\ (PivotChanged(1) \/ PivotChanged(2)),
                 devname |-> DevName, tab |-> tab,
                 steps |-> [s \in 1..Len(hist) |-> [op |-> hist[s].op,
                             exp |-> IF hist[s].op = "AP" THEN hist[s].exp ELSE <<>>,
                             dev |-> IF hist[s].op = "AP" THEN hist[s].dev ELSE <<>>]]]))
=============================================================================
