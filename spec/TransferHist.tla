---------------------------- MODULE TransferHist ----------------------------
(* C18: HISTORIES of transfer assemblies within ONE process.                                                           *)
(*                                                                                                                    *)
(* The grid transfer operators are FUNCTIONS of (mesh pair, element family, cubature rule): nothing a process did       *)
(* before may change them (Transfer!OrderIndependent).  The 2-level assembly asks Cubature::RefineFactoryCore for the    *)
(* single refinement of its cubature rule (point c*n+k of the refined rule belongs to point k of child cell c), so any   *)
(* state kept between two such requests - a function-local static, a cache keyed by too little - shows up only in a      *)
(* process that assembles with MORE THAN ONE rule.  This module enumerates such processes:                               *)
(*                                                                                                                    *)
(*   request  = "xfer": assemble prolongation, truncation and prolongate_vector (in one of three orders, so that each   *)
(*              of the three routines is the first to ask for the refined rule) for one element family with cubature    *)
(*              rule R on a small affine mesh;   or                                                                     *)
(*              "rule": ask for the refined rule "refine:B" itself (by name through the DynamicFactory, or through      *)
(*              RefineFactoryCore::create as the assembly does), observed against Transfer!RefinedRuleOK.               *)
(*   rules    = EVERY driver rule of the name language of spec/Cubature.tla (C14) for the shape with at most MaxPts     *)
(*              points, plain and with the "refine:" prefix (rules that are another rule under a second name dropped).   *)
(*   touches  = the refinement requests a step issues: <<dimension, base rule, number of points of the refined rule>>.   *)
(*              Two steps COLLIDE if they request refinements of different rules with the same number of points in the  *)
(*              same shape (gauss-legendre:3 / gauss-lobatto:3; dunavant:4 / silvester-open:2; refine:gauss-legendre:2 /  *)
(*              newton-cotes-open:4; ...).                                                                              *)
(*   histories: every ordered colliding pair; same rule with another element; neighbouring parameters of one driver and  *)
(*              a sample of other non-colliding pairs; equal counts across the two dimensions of the family; triples     *)
(*              a-bridge-c (a, c colliding, the bridge of another count or dimension) and triples of three pairwise        *)
(*              colliding rules.  The last step of a colliding history is SENSITIVE to the points: a direct request, or   *)
(*              an assembly for an element other than the piecewise constants (whose transfer does not depend on the     *)
(*              rule at all); rules of degree 1 therefore occur as earlier steps only.                                   *)
(*              Quick tier: one element / order per request, rotated by a hash of the pair; thorough (Deep): every         *)
(*              admissible sensitive element and every order for the last step.                                        *)
(*   enabling condition of an "xfer" step (property text: "cubature rules of sufficient degree"): the nominal degree of  *)
(*              the rule is >= 2q (q = polynomial degree of the family) on the affine meshes used here, so that all mass *)
(*              matrices are integrated exactly.                                                                        *)
(* For every step s that occurs, the singleton history <<s>> is enumerated as well: it is the FRESH PROCESS observation *)
(* of step s, against which every occurrence of s in a longer history is judged (and which itself is judged by           *)
(* TransferCheck!Verdict, i.e. against the prolongation matrix recomputed by TLC).                                       *)
EXTENDS Integers, Sequences, FiniteSets, TLC, Json

CONSTANTS Family,      \* "simplex" | "hypercube" (one harness binary per family)
          Deep         \* BOOLEAN: thorough tier

VARIABLES target,      \* the history this process is going to execute
          hist, proc   \* steps executed so far in this process; the refinement requests the process has seen (history variable)

Cub == INSTANCE Cubature WITH Prefixes <- FALSE, Styles <- {"lower"}, RefineMaxPts <- 0, Invalid <- FALSE,
                              ph <- "done", shape <- 0, sentence <- 0

Dims == {2, 3}
Sh(d) == [kind |-> Family, dim |-> d]
MaxPts(d) == IF Family = "hypercube" THEN (IF d = 2 THEN (IF Deep THEN 36 ELSE 25) ELSE 64)
             ELSE (IF d = 2 THEN (IF Deep THEN 28 ELSE 16) ELSE 48)
Factor(d) == Cub!RefineFactor(Sh(d))

\* ---- rules: sentences of the name language ------------------------------------------------------------------
Sent(r, c) == [refine |-> r, prefix |-> "", core |-> c, style |-> "lower"]
\* the same points and weights as another rule that is kept: n = 1 of every scalar driver is the midpoint rule (= gauss-legendre:1),
\* newton-cotes-closed:2 is the trapezoidal rule
SecondName(c) == \/ c.tok \in (Cub!ScalarDrivers \ {"gauss-legendre"}) /\ c.par.n = 1
                 \/ c.tok = "newton-cotes-closed" /\ c.par.n = 2
Cores(d) == {c \in Cub!ValidCores(Sh(d)) : c.kind = "driver" /\ ~SecondName(c) /\ Cub!CorePts(c, Sh(d)) <= MaxPts(d)}
RuleRec(s, d) == LET m == Cub!Meaning(s, Sh(d)) IN
  [name |-> Cub!Text(s), base |-> Cub!Text(Sent(Cub!NoRefine, s.core)), refined |-> s.refine.kind = "plain", drv |-> s.core.tok, n |-> s.core.par.n,
   pts |-> m.v.pts, deg |-> m.v.deg, ok |-> m.v.accept]
Plain(d) == {RuleRec(Sent(Cub!NoRefine, c), d) : c \in Cores(d)}
RefinedAll(d) == {RuleRec(Sent(Cub!PlainRefine, c), d) : c \in Cores(d)}
Rules(d) == Plain(d) \cup {r \in RefinedAll(d) : r.pts <= MaxPts(d)}

\* ---- requests and the refinements they ask for ------------------------------------------------------------------
\* t = the refinement requests (touches) a request issues: <<dimension, base rule, number of points of the refined rule>>
TouchSet(kind, d, r) ==
  IF kind = "rule" THEN {<<d, r.base, r.pts>>}
  ELSE {<<d, r.name, r.pts * Factor(d)>>} \cup (IF r.refined THEN {<<d, r.base, r.pts>>} ELSE {})
MkReq(kind, d, r) == [kind |-> kind, dim |-> d, rule |-> r, t |-> TouchSet(kind, d, r)]
Req(d) == TLCEval({MkReq("xfer", d, r) : r \in Rules(d)} \cup {MkReq("rule", d, r) : r \in RefinedAll(d)})
AllReq == TLCEval(UNION {Req(d) : d \in Dims})
XferReq(d) == {q \in Req(d) : q.kind = "xfer"}
Touches(q) == q.t
TouchCollide(t, u) == t[1] = u[1] /\ t[3] = u[3] /\ t[2] # u[2]
Collide(a, b) == \E t \in a.t, u \in b.t : TouchCollide(t, u)
SameCountOtherDim(a, b) == a.dim # b.dim /\ \E t \in a.t, u \in b.t : t[3] = u[3]

\* ---- element families -------------------------------------------------------------------------------------------
ElSeq == IF Family = "hypercube" THEN <<"lagrange1", "lagrange2", "bernstein2", "lagrange3", "discontinuous0">>
         ELSE <<"lagrange1", "crorav", "lagrange2", "discontinuous1", "lagrange3", "discontinuous0">>
ElDeg(e) == CASE e \in {"lagrange1", "crorav", "discontinuous1"} -> 1 [] e \in {"lagrange2", "bernstein2"} -> 2 [] e = "lagrange3" -> 3 [] OTHER -> 0
NeedDeg(e) == IF ElDeg(e) = 0 THEN 1 ELSE 2 * ElDeg(e)
\* bound on the size of the local problems in 3D (cost): Lagrange-3 in 2D only
ElAvail(e, d) == ~(e = "lagrange3" /\ d = 3)
Sufficient(e, r, d) == ElAvail(e, d) /\ r.deg >= NeedDeg(e)
Admissible(q, sensitive) ==
  LET all == SelectSeq(ElSeq, LAMBDA e : Sufficient(e, q.rule, q.dim))
      sens == SelectSeq(all, LAMBDA e : e # "discontinuous0")
  IN IF sensitive /\ Len(sens) > 0 THEN sens ELSE all
Orders == <<"PTV", "TVP", "VPT">>
Routes == <<"name", "core">>

\* ---- steps --------------------------------------------------------------------------------------------------------
MkStep(q, el, order, route) ==
  [kind |-> q.kind, fam |-> Family, dim |-> q.dim, el |-> el, cub |-> q.rule.name, base |-> q.rule.base, order |-> order, route |-> route,
   pts |-> q.rule.pts, deg |-> q.rule.deg]
Step(q, k, sensitive) ==
  IF q.kind = "rule" THEN MkStep(q, "", "", Routes[(k % 2) + 1])
  ELSE LET adm == Admissible(q, sensitive) IN MkStep(q, adm[(k % Len(adm)) + 1], Orders[(k % 3) + 1], "")
AllSteps(q, sensitive) ==
  IF q.kind = "rule" THEN {MkStep(q, "", "", Routes[i]) : i \in 1..2}
  ELSE LET adm == Admissible(q, sensitive) IN {MkStep(q, adm[i], Orders[j], "") : i \in 1..Len(adm), j \in 1..3}
\* the judged (last) step of a history: one variant (quick) or all of them (Deep)
Last(q, k) == IF Deep THEN AllSteps(q, TRUE) ELSE {Step(q, k, TRUE)}
Hash(a, b) == a.rule.pts + Len(a.rule.name) + 3 * Len(b.rule.name) + (IF a.kind = "rule" THEN 1 ELSE 0) + 2 * a.dim

\* ---- the enumerated histories ----------------------------------------------------------------------------------------
Mod(k) == IF Deep THEN k.deep ELSE k.quick
\* a request whose result depends on the points of the rule: a rule of degree 1 only admits the piecewise constants
Sensitive(q) == q.kind = "rule" \/ q.rule.deg >= 2
CollidingPairs == TLCEval({p \in AllReq \X AllReq : p[1].dim = p[2].dim /\ Sensitive(p[2]) /\ Collide(p[1], p[2])})
\* quick tier: every colliding pair of two assemblies, every second pair that involves a direct request of a refined rule
H2Pairs == {p \in CollidingPairs : Deep \/ (p[1].kind = "xfer" /\ p[2].kind = "xfer") \/ Hash(p[1], p[2]) % 2 = 0}
H2Collide == UNION {{<<Step(p[1], Hash(p[1], p[2]), FALSE), s>> : s \in Last(p[2], Hash(p[2], p[1]))} : p \in H2Pairs}
\* the same rule with another element / order (a legitimate "cache hit")
H2SameRule == UNION {{<<Step(q, 0, FALSE), Step(q, 1, TRUE)>>, <<Step(q, 2, TRUE), Step(q, 0, FALSE)>>} : q \in UNION {XferReq(d) : d \in Dims}}
\* other number of points: neighbouring parameters of one driver (both directions), and a sample of the remaining pairs
Neighbour(a, b) == a.rule.drv = b.rule.drv /\ a.rule.refined = b.rule.refined /\ (a.rule.n = b.rule.n + 1 \/ b.rule.n = a.rule.n + 1)
OtherCountPairs == UNION {{p \in XferReq(d) \X XferReq(d) : /\ p[1].rule # p[2].rule
                                                           /\ (Neighbour(p[1], p[2]) \/ Hash(p[1], p[2]) % Mod([deep |-> 3, quick |-> 11]) = 0)
                                                           /\ ~Collide(p[1], p[2])} : d \in Dims}
H2OtherCount == {<<Step(p[1], Hash(p[1], p[2]), FALSE), Step(p[2], Hash(p[2], p[1]), TRUE)>> : p \in OtherCountPairs}
\* the two dimensions of the family in one process: requests with equal numbers of points
CrossDimPairs == {p \in AllReq \X AllReq : Hash(p[1], p[2]) % Mod([deep |-> 1, quick |-> 5]) = 0 /\ SameCountOtherDim(p[1], p[2])}
H2CrossDim == {<<Step(p[1], Hash(p[1], p[2]), FALSE), Step(p[2], Hash(p[2], p[1]), TRUE)>> : p \in CrossDimPairs}
\* a - bridge - c: a and c collide, the bridge is a request of the other dimension or of another number of points in the same dimension
BridgeFor(p) ==
  LET k == Hash(p[1], p[2])
      od == CHOOSE d \in Dims : d # p[1].dim
      other == {q \in XferReq(IF k % 2 = 0 THEN od ELSE p[1].dim) : q.rule.deg >= 2 /\ ~Collide(p[1], q) /\ ~Collide(q, p[2])}
  IN CHOOSE q \in other : \A q2 \in other : Len(q.rule.name) + q.rule.pts <= Len(q2.rule.name) + q2.rule.pts
H3Bridge == UNION {{<<Step(p[1], Hash(p[1], p[2]), FALSE), Step(BridgeFor(p), Hash(p[2], p[1]), TRUE), s>> : s \in Last(p[2], Hash(p[2], p[1]) + 1)} :
                     p \in {x \in CollidingPairs : Hash(x[1], x[2]) % Mod([deep |-> 2, quick |-> 6]) = 0}}
\* three pairwise colliding requests
CollidingTriples == UNION {{<<p[1], p[2], c>> : c \in {x \in Req(p[1].dim) : /\ (Hash(p[1], p[2]) + Hash(p[2], x)) % Mod([deep |-> 12, quick |-> 61]) = 0
                                                                              /\ Collide(p[2], x) /\ Collide(p[1], x)}} : p \in CollidingPairs}
H3Collide == UNION {{<<Step(t[1], Hash(t[1], t[2]), FALSE), Step(t[2], Hash(t[2], t[3]), TRUE), s>> : s \in Last(t[3], Hash(t[3], t[1]))} : t \in CollidingTriples}

Classes == [collide2 |-> H2Collide, same_rule |-> H2SameRule, other_count |-> H2OtherCount, cross_dim |-> H2CrossDim,
            bridge3 |-> H3Bridge, collide3 |-> H3Collide]
Longer == TLCEval(UNION {Classes[c] : c \in DOMAIN Classes})
\* the fresh-process observation of every step that occurs
Histories == TLCEval(Longer \cup {<<x[1][x[2]]>> : x \in {y \in Longer \X (1..3) : y[2] <= Len(y[1])}})
ClassOf(h) == IF Len(h) = 1 THEN "single" ELSE CHOOSE c \in DOMAIN Classes : h \in Classes[c]

\* ---- the process ----------------------------------------------------------------------------------------------------
\* Init picks the history to be executed; every Assemble step runs its next request in the (one) process
StepTouches(s) ==
  LET f == Factor(s.dim) IN
  IF s.kind = "rule" THEN {<<s.dim, s.base, s.pts>>}
  ELSE {<<s.dim, s.cub, s.pts * f>>} \cup (IF s.base # s.cub THEN {<<s.dim, s.base, s.pts>>} ELSE {})
Init == target \in Histories /\ hist = <<>> /\ proc = {}
Assemble ==
  /\ Len(hist) < Len(target)
  /\ hist' = Append(hist, target[Len(hist) + 1])
  /\ proc' = proc \cup StepTouches(target[Len(hist) + 1])
  /\ UNCHANGED target
Next == Assemble
Spec == Init /\ [][Next]_<<target, hist, proc>>

\* ---- invariants of the enumeration ------------------------------------------------------------------------------------
\* every step is inside the enabling condition; rules are sentences of the language
StepsEnabled == \A i \in 1..Len(hist) :
  LET s == hist[i] IN
  /\ s.pts >= 1 /\ s.deg >= 1
  /\ s.kind = "xfer" => (s.el \in {ElSeq[j] : j \in 1..Len(ElSeq)} /\ s.deg >= NeedDeg(s.el) /\ s.order \in {Orders[j] : j \in 1..3})
  /\ s.kind = "rule" => (s.base # s.cub /\ s.route \in {"name", "core"})
\* a colliding history really carries a stale-prone request: the last step asks for a refinement the process has seen with another base rule
LastCollides == (Len(hist) >= 2 /\ hist = target /\ ClassOf(hist) \in {"collide2", "bridge3", "collide3"}) =>
  \E t \in StepTouches(hist[Len(hist)]), u \in StepTouches(hist[1]) : TouchCollide(u, t)
\* the pairs named in the report of the missed defect are enumerated
Witnesses ==
  IF Family = "hypercube"
  THEN \E h \in H2Collide : h[1].cub = "gauss-legendre:3" /\ h[2].cub = "gauss-lobatto:3" /\ h[1].dim = 2
  ELSE \E h \in H2Collide : h[1].cub = "dunavant:4" /\ h[2].cub = "silvester-open:2"
ASSUME Witnesses

Emit == (hist = target) =>
  PrintT(ToJson([cls |-> ClassOf(hist), steps |-> hist, touched |-> Cardinality(proc)]))
=============================================================================
