------------------------------- MODULE Filters -------------------------------
(* C06: the LAFEM filters as values with a denotation.                       *)
(*                                                                          *)
(* A filter is a record [kind, ...]:                                        *)
(*   none   [bs]                              NoneFilter / NoneFilterBlocked *)
(*   unit   [bs, idx, val, msk, ign]          UnitFilter (bs = 1) / UnitFilterBlocked (bs >= 2) *)
(*   slip   [bs, idx, nu, vidx, vnu]          SlipFilter (bs >= 2); vidx/vnu = the *)
(*                                            separate vertex-normal vector _nu of the object, which *)
(*                                            no filter operation reads (it differs from idx/nu)     *)
(*   mean   [bs, p, d, vol, mun, mud]         MeanFilter (bs = 1) / MeanFilterBlocked *)
(*   chain  [bs, fs]  FilterChain<...>        sub-filters applied in order on the same vector *)
(*   seq    [bs, fs, names] FilterSequence<.> the same, held in a deque of (name, filter)     *)
(*   tuple  [fs]      TupleFilter<...>        component j filters component j of a TupleVector *)
(*   power  [fs]      PowerFilter<.,n>        the same for a PowerVector      *)
(* idx = strictly increasing 0-based (block) indices exactly as the sparse   *)
(* vector inside the filter stores them; val / nu = flat values, bs per      *)
(* index; msk[e] = 0 marks a NaN value which UnitFilterBlocked skips when    *)
(* ign (ignore_nans) is set.  p, d = primal / dual vector of the mean filter,*)
(* vol[c] = p.d per block component, the prescribed mean is mun[c]/mud.      *)
(*                                                                          *)
(* Vectors are flat (Perspective::pod) sequences of integer NUMERATORS over  *)
(* a common power-of-two denominator `den` (dyadic fixed point): every       *)
(* quotient a filter forms (slip: / |nu|^2 in {1,2,4}; mean: / vol, a power  *)
(* of two) stays on that grid, so the denotation is computed in integers     *)
(* and every correct floating point evaluation is exact.  Apply returns      *)
(*   [v  |-> the filtered vector,                                           *)
(*    ex |-> all divisions were exact on the grid (the case lies in the      *)
(*           exact domain),                                                  *)
(*    mx |-> the largest magnitude any partial sum of any evaluation order   *)
(*           can reach (numerator on the grid den*dmax) - the replayer runs  *)
(*           the float instantiation only if this fits a 24 bit mantissa]    *)
(* The denotations are written from the documented semantics of the classes  *)
(* (kernel/lafem/unit_filter.hpp, unit_filter_blocked.hpp, slip_filter.hpp,  *)
(* mean_filter.hpp, mean_filter_blocked.hpp, filter_chain.hpp,               *)
(* filter_sequence.hpp, tuple_filter.hpp, power_filter.hpp, none_filter.hpp).*)
EXTENDS Storage

\* TLC keeps [k \in S |-> e] as an unevaluated closure; concatenation turns it into an explicit tuple, so
\* that a vector that went through several filters is not re-evaluated on every entry access
Eager(s) == s \o <<>>

Ops == {"rhs", "sol", "def", "cor"}
Prescribing(op) == op \in {"rhs", "sol"}      \* unit filter writes the prescribed value (otherwise zero)
IsAtom(F) == F.kind \in {"none", "unit", "slip", "mean"}
IsChain(F) == F.kind \in {"chain", "seq"}
IsTuple(F) == F.kind \in {"tuple", "power"}

\* ---- indexing helpers (flat position k is 1-based, blocks are 0-based, components 1-based) ----------
BlkOf(k, bs) == (k - 1) \div bs
CmpOf(k, bs) == ((k - 1) % bs) + 1
Has(idx, b) == \E t \in 1..Len(idx) : idx[t] = b
PosOf(idx, b) == CHOOSE t \in 1..Len(idx) : idx[t] = b
Ent(F, b, c) == (PosOf(F.idx, b) - 1) * F.bs + c          \* position of component c of block b in val / nu
IdxSet(idx) == {idx[t] : t \in 1..Len(idx)}
MaxAbsSeq(s) == IF Len(s) = 0 THEN 0 ELSE MaxSeq([i \in 1..Len(s) |-> Abs(s[i])])
MaxOf3(a, b, c) == Max(a, Max(b, c))
\* per block component dot product of two flat blocked vectors, and its absolute-value majorant
CompDot(x, y, bs, c) == SumSeq([i \in 1..(Len(x) \div bs) |-> x[(i-1)*bs + c] * y[(i-1)*bs + c]])
CompAbsDot(x, y, bs, c) == SumSeq([i \in 1..(Len(x) \div bs) |-> Abs(x[(i-1)*bs + c] * y[(i-1)*bs + c])])

(***************************************************************************)
(* Unit filter: v_i := g_i (rhs, sol) resp. 0 (def, cor) for i in idx       *)
(***************************************************************************)
UnitSkips(F, e) == F.ign /\ F.msk[e] = 0
UnitV(F, op, den, v) == Eager(
  [k \in 1..Len(v) |->
     LET b == BlkOf(k, F.bs) IN
       IF Has(F.idx, b)
       THEN LET e == Ent(F, b, CmpOf(k, F.bs)) IN
              IF UnitSkips(F, e) THEN v[k] ELSE IF Prescribing(op) THEN den * F.val[e] ELSE 0
       ELSE v[k]])

(***************************************************************************)
(* Slip filter: v_i := v_i - ((v_i . nu_i) / (nu_i . nu_i)) nu_i, i in idx  *)
(* (the same for all four operations)                                        *)
(***************************************************************************)
SlipSp(F, v, b) == SumSeq([c \in 1..F.bs |-> v[b * F.bs + c] * F.nu[Ent(F, b, c)]])
SlipAbsSp(F, v, b) == SumSeq([c \in 1..F.bs |-> Abs(v[b * F.bs + c] * F.nu[Ent(F, b, c)])])
SlipSc(F, b) == SumSeq([c \in 1..F.bs |-> F.nu[Ent(F, b, c)] * F.nu[Ent(F, b, c)]])
SlipV(F, v) == Eager(
  [k \in 1..Len(v) |->
     LET b == BlkOf(k, F.bs) IN
       IF Has(F.idx, b) THEN v[k] - ((SlipSp(F, v, b) * F.nu[Ent(F, b, CmpOf(k, F.bs))]) \div SlipSc(F, b)) ELSE v[k]])
SlipEx(F, v) ==
  \A t \in 1..Len(F.idx) : \A c \in 1..F.bs : (SlipSp(F, v, F.idx[t]) * F.nu[(t-1) * F.bs + c]) % SlipSc(F, F.idx[t]) = 0
SlipMx(F, v) ==
  IF Len(F.idx) = 0 THEN 0
  ELSE MaxSeq([t \in 1..Len(F.idx) |->
         LET b == F.idx[t] IN
           Max(SlipAbsSp(F, v, b),
               MaxSeq([c \in 1..F.bs |-> Abs(v[b * F.bs + c]) + Abs((SlipSp(F, v, b) * F.nu[(t-1) * F.bs + c]) \div SlipSc(F, b))]))])
SlipDiv(F) == IF Len(F.idx) = 0 THEN 1 ELSE MaxSeq([t \in 1..Len(F.idx) |-> SlipSc(F, F.idx[t])])

(***************************************************************************)
(* Mean filter (per block component c; vol[c] = p.d):                       *)
(*   rhs, def:  v := v - ((v.p)/vol) d      (dual integral mean zero)       *)
(*   cor:       v := v - ((v.d)/vol) p      (primal integral mean zero)     *)
(*   sol:       v := v + (mu - (v.d)/vol) p (integral mean = mu)            *)
(* a default constructed (empty) mean filter does nothing                    *)
(***************************************************************************)
MeanEmpty(F) == Len(F.p) = 0
MeanDelta(F, op, den, v, k) ==      \* numerator and divisor of the update of entry k
  LET c == CmpOf(k, F.bs) IN
    CASE op \in {"rhs", "def"} -> <<-(CompDot(v, F.p, F.bs, c) * F.d[k]), F.vol[c]>>
      [] op = "cor"           -> <<-(CompDot(v, F.d, F.bs, c) * F.p[k]), F.vol[c]>>
      [] op = "sol"           -> <<(den * F.mun[c] * F.vol[c] - F.mud * CompDot(v, F.d, F.bs, c)) * F.p[k], F.mud * F.vol[c]>>
MeanV(F, op, den, v) ==
  IF MeanEmpty(F) THEN v
  ELSE Eager([k \in 1..Len(v) |-> LET q == MeanDelta(F, op, den, v, k) IN v[k] + (q[1] \div q[2])])
MeanEx(F, op, den, v) ==
  MeanEmpty(F) \/ \A k \in 1..Len(v) : LET q == MeanDelta(F, op, den, v, k) IN q[1] % q[2] = 0
MeanMx(F, op, den, v) ==
  IF MeanEmpty(F) \/ Len(v) = 0 THEN 0
  ELSE MaxOf3(MaxSeq([c \in 1..F.bs |-> IF op \in {"rhs", "def"} THEN CompAbsDot(v, F.p, F.bs, c) ELSE CompAbsDot(v, F.d, F.bs, c)]),
              MaxSeq([k \in 1..Len(v) |-> LET q == MeanDelta(F, op, den, v, k) IN Abs(v[k]) + Abs(q[1] \div q[2])]),
              IF op = "sol" THEN MaxSeq([c \in 1..F.bs |-> Abs(den * F.mun[c]) + CompAbsDot(v, F.d, F.bs, c)]) ELSE 0)
MeanDiv(F) == IF MeanEmpty(F) THEN 1 ELSE F.mud * MaxSeq(F.vol)

(***************************************************************************)
(* Denotation of a filter operation on a vector (tuple/power: on a sequence *)
(* of component vectors)                                                     *)
(***************************************************************************)
RECURSIVE ApplyR(_, _, _, _), ChainR(_, _, _, _, _)
ApplyR(F, op, den, r) ==
  CASE F.kind = "none" -> r
    [] F.kind = "unit" -> LET w == UnitV(F, op, den, r.v) IN [v |-> w, ex |-> r.ex, mx |-> Max(r.mx, MaxAbsSeq(w))]
    [] F.kind = "slip" -> [v |-> SlipV(F, r.v), ex |-> r.ex /\ SlipEx(F, r.v), mx |-> Max(r.mx, SlipMx(F, r.v))]
    [] F.kind = "mean" -> [v |-> MeanV(F, op, den, r.v), ex |-> r.ex /\ MeanEx(F, op, den, r.v), mx |-> Max(r.mx, MeanMx(F, op, den, r.v))]
    [] IsChain(F)      -> ChainR(F.fs, 1, op, den, r)
    [] IsTuple(F)      ->
         LET rs == Eager([j \in 1..Len(F.fs) |-> ApplyR(F.fs[j], op, den, [v |-> r.v[j], ex |-> TRUE, mx |-> 0])])
         IN  [v |-> Eager([j \in 1..Len(F.fs) |-> rs[j].v]),
              ex |-> r.ex /\ \A j \in 1..Len(F.fs) : rs[j].ex,
              mx |-> IF Len(F.fs) = 0 THEN r.mx ELSE Max(r.mx, MaxSeq([j \in 1..Len(F.fs) |-> rs[j].mx]))]
ChainR(fs, j, op, den, r) == IF j > Len(fs) THEN r ELSE ChainR(fs, j + 1, op, den, ApplyR(fs[j], op, den, r))

RECURSIVE MaxAbsAny(_, _)
MaxAbsAny(F, v) == IF IsTuple(F) THEN (IF Len(v) = 0 THEN 0 ELSE MaxSeq([j \in 1..Len(v) |-> MaxAbsAny(F.fs[j], v[j])])) ELSE MaxAbsSeq(v)
Apply(F, op, den, v) == ApplyR(F, op, den, [v |-> v, ex |-> TRUE, mx |-> MaxAbsAny(F, v)])

\* the divisor a filter may introduce (all divisors are powers of two: product over the parts of a chain,
\* maximum over the independent components of a tuple): the grid 1/den must be fine enough
RECURSIVE DivOf(_), ProdDiv(_, _), MaxDivOf(_, _)
DivOf(F) ==
  CASE F.kind = "slip" -> SlipDiv(F)
    [] F.kind = "mean" -> MeanDiv(F)
    [] IsChain(F) -> ProdDiv(F.fs, 1)
    [] IsTuple(F) -> MaxDivOf(F.fs, 1)
    [] OTHER -> 1
ProdDiv(fs, j) == IF j > Len(fs) THEN 1 ELSE DivOf(fs[j]) * ProdDiv(fs, j + 1)
MaxDivOf(fs, j) == IF j > Len(fs) THEN 1 ELSE Max(DivOf(fs[j]), MaxDivOf(fs, j + 1))
RECURSIVE MaxDiv(_), MaxDivSeq(_, _)
MaxDiv(F) ==
  CASE F.kind = "slip" -> SlipDiv(F)
    [] F.kind = "mean" -> MeanDiv(F)
    [] IsChain(F) \/ IsTuple(F) -> MaxDivSeq(F.fs, 1)
    [] OTHER -> 1
MaxDivSeq(fs, j) == IF j > Len(fs) THEN 1 ELSE Max(MaxDiv(fs[j]), MaxDivSeq(fs, j + 1))

(***************************************************************************)
(* Well-formedness of filter values over vectors of nb blocks               *)
(***************************************************************************)
PowTwo(x) == x \in {1, 2, 4, 8, 16, 32, 64}
RECURSIVE WellFormed(_, _)
WellFormed(F, nb) ==
  CASE F.kind = "none" -> TRUE
    [] F.kind = "unit" ->
         /\ \A t \in 1..Len(F.idx) : F.idx[t] \in 0..(nb - 1)
         /\ \A t \in 1..(Len(F.idx) - 1) : F.idx[t] < F.idx[t+1]          \* duplicates excluded
         /\ Len(F.val) = Len(F.idx) * F.bs /\ Len(F.msk) = Len(F.val)
         /\ (~F.ign => \A e \in 1..Len(F.msk) : F.msk[e] = 1)             \* NaN values only together with ignore_nans
         /\ (F.bs = 1 => ~F.ign)
    [] F.kind = "slip" ->
         /\ F.bs >= 2
         /\ \A t \in 1..Len(F.idx) : F.idx[t] \in 0..(nb - 1)
         /\ \A t \in 1..(Len(F.idx) - 1) : F.idx[t] < F.idx[t+1]
         /\ Len(F.nu) = Len(F.idx) * F.bs /\ Len(F.vnu) = Len(F.vidx) * F.bs
         /\ \A t \in 1..Len(F.idx) : SlipSc(F, F.idx[t]) \in {1, 2, 4}    \* dyadic normals
    [] F.kind = "mean" ->
         \/ MeanEmpty(F) /\ Len(F.d) = 0
         \/ /\ Len(F.p) = nb * F.bs /\ Len(F.d) = nb * F.bs /\ nb >= 1
            /\ Len(F.vol) = F.bs /\ Len(F.mun) = F.bs /\ F.mud \in {1, 2}
            /\ \A c \in 1..F.bs : F.vol[c] = CompDot(F.p, F.d, F.bs, c) /\ PowTwo(F.vol[c])   \* the volume is p.d > 0
    [] IsChain(F) -> \A j \in 1..Len(F.fs) : IsAtom(F.fs[j]) /\ WellFormed(F.fs[j], nb)
    [] IsTuple(F) -> \A j \in 1..Len(F.fs) : ~IsTuple(F.fs[j]) /\ WellFormed(F.fs[j], nb[j])

(***************************************************************************)
(* The properties                                                            *)
(***************************************************************************)
\* blocks an atom writes to
Touch(F, nb) ==
  CASE F.kind \in {"unit", "slip"} -> IdxSet(F.idx)
    [] F.kind = "mean" -> IF MeanEmpty(F) THEN {} ELSE 0..(nb - 1)
    [] OTHER -> {}
RECURSIVE TouchFrom(_, _, _)
TouchFrom(fs, j, nb) == IF j > Len(fs) THEN {} ELSE Touch(fs[j], nb) \cup TouchFrom(fs, j + 1, nb)

\* the constraint of atom F holds on the blocks in S (the mean constraint is global: S must be everything)
AtomConstraint(F, op, den, nb, v, S) ==
  CASE F.kind = "unit" ->
         \A t \in 1..Len(F.idx) : F.idx[t] \in S =>
           \A c \in 1..F.bs : LET e == (t-1) * F.bs + c IN
             UnitSkips(F, e) \/ v[F.idx[t] * F.bs + c] = (IF Prescribing(op) THEN den * F.val[e] ELSE 0)     \* bit-exact
    [] F.kind = "slip" -> \A t \in 1..Len(F.idx) : F.idx[t] \in S => SlipSp(F, v, F.idx[t]) = 0              \* no normal component
    [] F.kind = "mean" ->
         (~MeanEmpty(F) /\ S = 0..(nb - 1)) =>
           \A c \in 1..F.bs :
             (CASE op \in {"rhs", "def"} -> CompDot(v, F.p, F.bs, c) = 0
                [] op = "cor"           -> CompDot(v, F.d, F.bs, c) = 0
                [] op = "sol"           -> F.mud * CompDot(v, F.d, F.bs, c) = den * F.mun[c] * F.vol[c])     \* mean = mu
    [] OTHER -> TRUE

\* Constraint: after the filter was applied, every part's constraint holds wherever no LATER part of a
\* chain wrote (the last part's constraint holds everywhere)
RECURSIVE Constraint(_, _, _, _, _)
Constraint(F, op, den, nb, v) ==
  CASE IsAtom(F)  -> AtomConstraint(F, op, den, nb, v, 0..(nb - 1))
    [] IsChain(F) -> \A j \in 1..Len(F.fs) :
                       AtomConstraint(F.fs[j], op, den, nb, v, (0..(nb - 1)) \ TouchFrom(F.fs, j + 1, nb))
    [] IsTuple(F) -> \A j \in 1..Len(F.fs) : Constraint(F.fs[j], op, den, nb[j], v[j])

\* Complement (frame): entries of blocks no part constrains are unchanged; components a unit filter skips
\* (NaN) are unchanged; a mean filter alone changes the vector only along d (rhs, def) resp. p (cor, sol)
Collinear(x, y) == \A i \in 1..Len(x), j \in 1..Len(x) : x[i] * y[j] = x[j] * y[i]
RECURSIVE Complement(_, _, _, _, _)
Complement(F, op, nb, v0, v1) ==
  CASE IsTuple(F) -> \A j \in 1..Len(F.fs) : Complement(F.fs[j], op, nb[j], v0[j], v1[j])
    [] OTHER ->
         LET T == IF IsChain(F) THEN TouchFrom(F.fs, 1, nb) ELSE Touch(F, nb) IN
           /\ Len(v1) = Len(v0)
           /\ \A k \in 1..Len(v0) : BlkOf(k, F.bs) \notin T => v1[k] = v0[k]
           /\ (F.kind = "unit" => \A t \in 1..Len(F.idx) : \A c \in 1..F.bs :
                 UnitSkips(F, (t-1) * F.bs + c) => v1[F.idx[t] * F.bs + c] = v0[F.idx[t] * F.bs + c])
           /\ (F.kind = "mean" /\ ~MeanEmpty(F) =>
                 LET dv == [k \in 1..Len(v0) |-> v1[k] - v0[k]] IN
                   \A c \in 1..F.bs :
                     LET sel(x) == [i \in 1..nb |-> x[(i-1) * F.bs + c]] IN
                       Collinear(sel(dv), sel(IF op \in {"rhs", "def"} THEN F.d ELSE F.p)))

\* Idempotence is guaranteed for every atom; for a chain when every block's final value is a function of
\* the chain alone or of one projection of the input: no mean filter next to a part that writes, and on
\* every block not written by a unit filter at most one slip filter acts
ChainCompatible(fs, nb) ==
  LET means == {j \in 1..Len(fs) : fs[j].kind = "mean" /\ ~MeanEmpty(fs[j])}
      writers == {j \in 1..Len(fs) : Touch(fs[j], nb) # {}}
  IN  /\ (means # {} => Cardinality(writers) = 1)
      /\ \A b \in 0..(nb - 1) :
           \/ \E j \in 1..Len(fs) : fs[j].kind = "unit" /\ ~fs[j].ign /\ Has(fs[j].idx, b)
           \/ Cardinality({j \in 1..Len(fs) : fs[j].kind \in {"slip", "unit"} /\ Has(fs[j].idx, b)}) <= 1
RECURSIVE IdemGuaranteed(_, _)
IdemGuaranteed(F, nb) ==
  CASE IsAtom(F)  -> TRUE
    [] IsChain(F) -> ChainCompatible(F.fs, nb)
    [] IsTuple(F) -> \A j \in 1..Len(F.fs) : IdemGuaranteed(F.fs[j], nb[j])

(***************************************************************************)
(* Matrix actions of the unit filters on the stored pattern                 *)
(*   CSR  rep = [rp, ci, va]            (scalar UnitFilter)                 *)
(*   BCSR rep = [rp, ci, va] with va a sequence of bh x bw blocks           *)
(*        (UnitFilterBlocked<bh> on BCSR<bh,bw>; scalar UnitFilter on       *)
(*         BCSR<1,bw> for the off-diagonal variant)                          *)
(* filter_mat: a constrained row becomes the unit row ON THE STORED PATTERN *)
(* (stored diagonal entry := 1, every other stored entry := 0; no entry is  *)
(* created); filter_offdiag_row_mat: every stored entry of the row := 0.    *)
(* The mean and none filters leave matrices alone; chains/sequences filter  *)
(* by every part in order.                                                   *)
(***************************************************************************)
RowOfEntry(rp, k) == CHOOSE i \in 1..(Len(rp) - 1) : rp[i] < k /\ k <= rp[i+1]     \* 1-based row of stored entry k
UnitMatCSR(F, rep, offdiag) ==
  [rep EXCEPT !.va = [k \in 1..Len(rep.va) |->
     LET i == RowOfEntry(rep.rp, k) IN
       IF Has(F.idx, i - 1) THEN (IF ~offdiag /\ rep.ci[k] = i - 1 THEN 1 ELSE 0) ELSE rep.va[k]]]
UnitMatBCSR(F, bh, bw, rep, offdiag) ==
  [rep EXCEPT !.va = [k \in 1..Len(rep.va) |->
     LET i == RowOfEntry(rep.rp, k) IN
       IF Has(F.idx, i - 1)
       THEN [r \in 1..bh |->
               IF UnitSkips(F, Ent(F, i - 1, r)) THEN rep.va[k][r]
               ELSE [s \in 1..bw |-> IF ~offdiag /\ rep.ci[k] = i - 1 /\ r = s THEN 1 ELSE 0]]
       ELSE rep.va[k]]]
RECURSIVE FilterMat(_, _, _, _, _), ChainMat(_, _, _, _, _, _)
FilterMat(F, bh, bw, rep, offdiag) ==       \* bh = bw = 0 denotes CSR
  CASE F.kind = "unit" -> IF bh = 0 THEN UnitMatCSR(F, rep, offdiag) ELSE UnitMatBCSR(F, bh, bw, rep, offdiag)
    [] IsChain(F)      -> ChainMat(F.fs, 1, bh, bw, rep, offdiag)
    [] OTHER           -> rep
ChainMat(fs, j, bh, bw, rep, offdiag) ==
  IF j > Len(fs) THEN rep ELSE ChainMat(fs, j + 1, bh, bw, FilterMat(fs[j], bh, bw, rep, offdiag), offdiag)

\* rows (0-based, scalar for CSR / block rows for BCSR) some unit part constrains
RECURSIVE MatRows(_)
MatRows(F) ==
  CASE F.kind = "unit" -> IdxSet(F.idx)
    [] IsChain(F)      -> UNION {MatRows(F.fs[j]) : j \in 1..Len(F.fs)}
    [] OTHER           -> {}
DiagStored(rep, i) == \E k \in (rep.rp[i] + 1)..rep.rp[i+1] : rep.ci[k] = i - 1     \* i = 1-based (block) row

\* small exact determinant (Laplace expansion along the first row) for the uniqueness part of FilteredSolve
RECURSIVE Det(_, _)
Minor(n, A, j) == [r \in 1..(n-1) |-> [c \in 1..(n-1) |-> A[r+1][IF c < j THEN c ELSE c + 1]]]
Det(n, A) == IF n = 0 THEN 1
             ELSE IF n = 1 THEN A[1][1]
             ELSE SumSeq([j \in 1..n |-> (IF j % 2 = 1 THEN 1 ELSE -1) * A[1][j] * Det(n - 1, Minor(n, A, j))])
(***************************************************************************)
(* Life-cycle operations of filter objects: clone (the content preserving   *)
(* modes Deep, Weak, Shallow; both the returning and the in-place form),    *)
(* convert (to the same and to other data/index types), move construction   *)
(* and move assignment.  Each produces an object with the SAME VALUE -      *)
(* every field is taken from the corresponding field of the source (for the *)
(* slip filter: the filter vector from the filter vector, the vertex normal *)
(* vector from the vertex normal vector; for the blocked unit filter also   *)
(* the ignore_nans flag) - hence the same denotation for every operation.   *)
(* (CloneMode::Layout / Allocate by definition do not carry the values.)    *)
(***************************************************************************)
LifeCycleOps == {"none", "clone_deep", "clone_weak", "clone_shallow", "clone_into", "convert_same", "convert_other", "move_ctor", "move_assign"}
RECURSIVE CopyOf(_)
CopyOf(F) ==
  CASE F.kind = "none" -> [kind |-> "none", bs |-> F.bs]
    [] F.kind = "unit" -> [kind |-> "unit", bs |-> F.bs, idx |-> F.idx, val |-> F.val, msk |-> F.msk, ign |-> F.ign]
    [] F.kind = "slip" -> [kind |-> "slip", bs |-> F.bs, idx |-> F.idx, nu |-> F.nu, vidx |-> F.vidx, vnu |-> F.vnu]
    [] F.kind = "mean" -> [kind |-> "mean", bs |-> F.bs, p |-> F.p, d |-> F.d, vol |-> F.vol, mun |-> F.mun, mud |-> F.mud]
    [] F.kind = "chain" -> [kind |-> "chain", bs |-> F.bs, fs |-> [j \in 1..Len(F.fs) |-> CopyOf(F.fs[j])]]
    [] F.kind = "seq"   -> [kind |-> "seq", bs |-> F.bs, fs |-> [j \in 1..Len(F.fs) |-> CopyOf(F.fs[j])], names |-> F.names]
    [] IsTuple(F)       -> [kind |-> F.kind, fs |-> [j \in 1..Len(F.fs) |-> CopyOf(F.fs[j])]]
LifeCycle(F, lc) == IF lc = "none" THEN F ELSE CopyOf(F)
\* Which operations a filter object offers.  Some of them cannot be instantiated on every revision of the library
\* (compile-time defects of the pinned tree, fixes in /verif/build/fixes/c06_*.diff); `caps` is the set of capabilities
\* the check found by TRY-COMPILING each call against the tree under verification:
\*   "meanb_convert"        MeanFilterBlocked::convert            (cast the Tiny::Vector volume to a scalar)
\*   "unitb_convert_other"  UnitFilterBlocked::convert from ANOTHER data/index type (read the private _ignore_nans)
\*   "chain_clone_into"     FilterChain::clone(other, mode)       (passed a filter vector to the sub-filter's clone)
\*   "power_clone_into"     PowerFilter::clone(other, mode)       (the same)
\*   "seq_clone_into"       FilterSequence::clone(other, mode)    (used operator-> on a filter)
\* A call that does not compile does not exist and is not requested; every call that compiles is.
AllCaps == {"meanb_convert", "unitb_convert_other", "chain_clone_into", "power_clone_into", "seq_clone_into"}
RECURSIVE HasBlocked(_, _), CloneIntoOffered(_, _)
HasBlocked(F, kind) == IF IsAtom(F) THEN F.kind = kind /\ F.bs >= 2 ELSE \E j \in 1..Len(F.fs) : HasBlocked(F.fs[j], kind)
CloneIntoOffered(F, caps) ==
  CASE IsAtom(F)        -> TRUE
    [] F.kind = "chain" -> "chain_clone_into" \in caps
    [] F.kind = "seq"   -> "seq_clone_into" \in caps
    [] F.kind = "power" -> "power_clone_into" \in caps /\ \A j \in 1..Len(F.fs) : CloneIntoOffered(F.fs[j], caps)
    [] F.kind = "tuple" -> \A j \in 1..Len(F.fs) : CloneIntoOffered(F.fs[j], caps)
OfferedWith(F, lc, caps) ==
  CASE lc \in {"convert_same", "convert_other"} /\ HasBlocked(F, "mean") /\ "meanb_convert" \notin caps -> FALSE
    [] lc = "convert_other" /\ HasBlocked(F, "unit") /\ "unitb_convert_other" \notin caps -> FALSE
    [] lc = "clone_into" -> CloneIntoOffered(F, caps)
    [] OTHER -> TRUE
Offered(F, lc) == OfferedWith(F, lc, {})      \* the pinned tree: none of the conditional calls exists

(***************************************************************************)
(* Value palettes shared by the generators (FiltersVec, FiltersMat): small  *)
(* integers; normals with |nu|^2 in {1,2,4}; mean volumes powers of two     *)
(***************************************************************************)
V0(k) == IF k % 2 = 1 THEN 2 * k + 1 ELSE -(3 * k - 1)                      \* 3,-5,7,-11,11,-17,...
G(pal, b, c) == ((b * 3 + c * 5 + pal * 2) % 7) - 3                          \* prescribed values -3..3 (zero included)
NuTab2 == << <<1, 0>>, <<0, -1>>, <<1, 1>>, <<1, -1>>, <<-1, 1>>, <<2, 0>>, <<0, 2>> >>
NuTab3 == << <<1, 0, 0>>, <<0, 1, 1>>, <<1, -1, 0>>, <<0, 0, 2>>, <<-1, 0, 1>>, <<0, -2, 0>>, <<0, 1, 0>> >>
Nu(pal, bs, b) == (IF bs = 2 THEN NuTab2 ELSE NuTab3)[((b + 3 * pal) % 7) + 1]

NoneF(bs) == [kind |-> "none", bs |-> bs]
UnitOf(bs, I, pal) ==
  LET idx == SetToSortSeq(I, <)
      ign == bs >= 2 /\ pal = 2
  IN  [kind |-> "unit", bs |-> bs, idx |-> idx,
       val |-> [e \in 1..(Len(idx) * bs) |-> G(pal, idx[BlkOf(e, bs) + 1], CmpOf(e, bs))],
       msk |-> [e \in 1..(Len(idx) * bs) |-> IF ign /\ (idx[BlkOf(e, bs) + 1] + CmpOf(e, bs)) % 3 = 0 THEN 0 ELSE 1],
       ign |-> ign]
SlipOf(bs, I, pal) ==
  LET idx == SetToSortSeq(I, <)
      vidx == [t \in 1..Len(idx) |-> idx[t] + 1]        \* the vertex normals live on OTHER indices with OTHER values
  IN  [kind |-> "slip", bs |-> bs, idx |-> idx,
       nu |-> [e \in 1..(Len(idx) * bs) |-> Nu(pal, bs, idx[BlkOf(e, bs) + 1])[CmpOf(e, bs)]],
       vidx |-> vidx,
       vnu |-> [e \in 1..(Len(idx) * bs) |-> Nu(pal + 1, bs, vidx[BlkOf(e, bs) + 1] + 2)[CmpOf(e, bs)]]]
NextPow(s) == CHOOSE t \in {1, 2, 4, 8, 16, 32, 64} : t > s /\ \A u \in {1, 2, 4, 8, 16, 32, 64} : u > s => t <= u
MeanEmptyF(bs) == [kind |-> "mean", bs |-> bs, p |-> <<>>, d |-> <<>>, vol |-> <<>>, mun |-> <<>>, mud |-> 1]
MeanOf(nb, bs, pal) ==       \* nb >= 1; the last block of d is chosen such that p.d is a power of two
  LET pp(i, c) == IF i = nb \/ pal = 1 THEN 1 ELSE <<2, 1, -1>>[((i + c) % 3) + 1]
      dd(i, c) == ((2 * i + c + pal) % 4) - 1
      s(c) == SumSeq([i \in 1..(nb - 1) |-> pp(i, c) * dd(i, c)])
      T(c) == NextPow(s(c))
  IN  [kind |-> "mean", bs |-> bs,
       p |-> [k \in 1..(nb * bs) |-> pp(BlkOf(k, bs) + 1, CmpOf(k, bs))],
       d |-> [k \in 1..(nb * bs) |-> IF BlkOf(k, bs) + 1 = nb THEN T(CmpOf(k, bs)) - s(CmpOf(k, bs)) ELSE dd(BlkOf(k, bs) + 1, CmpOf(k, bs))],
       vol |-> [c \in 1..bs |-> T(c)],
       mun |-> [c \in 1..bs |-> ((c + pal) % 3) - 1],
       mud |-> pal]

=============================================================================
