------------------------------- MODULE RefElement -------------------------------
(* C15 / C18: finite-element families of FEAT3 on the reference cells of RefCell.tla.                              *)
(*                                                                                                                *)
(* (a) SIGNATURE TABLE of every family (kernel/space/<family>/element.hpp): the shapes and dimensions it supports, *)
(*     the number of dofs attached to an entity of every dimension (Sig), the conformity class and the degree      *)
(*     of the full polynomial space contained in the local space.                                                  *)
(* (b) LOCAL DOF LAYOUT: local dof j <-> (d, k, m) = m-th dof of the k-th local d-face, enumerated by ascending    *)
(*     dimension, then local face, then m (the contract of Space::DofMappingUniform).                              *)
(* (c) EXACT REFERENCE BASES as polynomials with integer coefficients over a fixed denominator, for the families   *)
(*     whose coefficients are dyadic: Lagrange-1/2, Discontinuous-0/1, Crouzeix-Raviart (simplex), Bernstein-2.     *)
(*     A polynomial in `dim` variables is a function  [1..dim -> 0..Q] -> Int  (exponent tuple |-> coefficient);   *)
(*     gradients and Hessians are FORMAL derivatives (PDiff), so "grad = d value" holds by construction.           *)
(*     Reference cells as documented by FEAT: simplex = {x >= 0, sum x <= 1}, hypercube = [-1,1]^dim.              *)
(* (d) NODE FUNCTIONALS of these families as "mean over a list of points, each point the barycentre of a set of    *)
(*     local vertices":  N(p) = (1/Len(pts)) * sum_k p(bary(pts[k])).  (Lagrange: one point, the barycentre of the *)
(*     local face; Crouzeix-Raviart: the mean over the vertices of the facet, which equals the facet integral mean *)
(*     for every function of the local space; Discontinuous-0: mean over the vertices of the cell.)  Because the   *)
(*     barycentre of a set of vertices is preserved by affine and multilinear maps restricted to a face, the same  *)
(*     description evaluates a FINE node functional in the reference coordinates of its COARSE parent (Transfer).  *)
(*                                                                                                                *)
(* Points are integer tuples n standing for n / S (S = PointScale); PEval returns the numerator over S^D.          *)
EXTENDS RefCell, FiniteSetsExt, SequencesExt, TLC

\* ---- (a) signature table -------------------------------------------------------------------------------------------
Elements == {"lagrange1", "lagrange2", "lagrange3", "discontinuous0", "discontinuous1", "crorav", "bernstein2",
             "p2bubble", "hermite3", "argyris", "bfs", "cdssy", "q1tbnp"}

\* Sig(el, fam, dim)[d+1] = number of dofs attached to ONE d-dimensional entity; << >> = family does not exist on the shape
\* dimension 1: the families that have an evaluator for intervals (Hypercube<1>: Lagrange-1/2/3, Discontinuous-0/1, Bernstein-2,
\* Hermite-3, Bogner-Fox-Schmit; Simplex<1>: only the shape-generic Discontinuous-0/1)
Supported1D(el, fam) ==
  IF fam = "hypercube" THEN el \in {"lagrange1", "lagrange2", "lagrange3", "discontinuous0", "discontinuous1", "bernstein2", "hermite3", "bfs"}
  ELSE el \in {"discontinuous0", "discontinuous1"}
Sig(el, fam, dim) ==
  LET z == [d \in 1..(dim + 1) |-> 0]
      simp == fam = "simplex"
  IN IF dim = 1 /\ ~Supported1D(el, fam) THEN << >> ELSE
     CASE el = "lagrange1" -> [z EXCEPT ![1] = 1]
       [] el = "lagrange2" -> IF simp THEN [d \in 1..(dim + 1) |-> IF d <= 2 THEN 1 ELSE 0] ELSE [d \in 1..(dim + 1) |-> 1]
       [] el = "bernstein2" -> IF simp THEN << >> ELSE [d \in 1..(dim + 1) |-> 1]
       [] el = "lagrange3" -> IF simp THEN [d \in 1..(dim + 1) |-> IF d = 1 THEN 1 ELSE IF d = 2 THEN 2 ELSE IF d = 3 THEN 1 ELSE 0]
                              ELSE [d \in 1..(dim + 1) |-> Pow2(d - 1)]
       [] el = "discontinuous0" -> [z EXCEPT ![dim + 1] = 1]
       [] el = "discontinuous1" -> [z EXCEPT ![dim + 1] = dim + 1]
       [] el = "crorav" -> IF dim < 2 THEN << >> ELSE [z EXCEPT ![dim] = 1]
       [] el = "p2bubble" -> IF simp /\ dim = 2 THEN << 1, 1, 1 >> ELSE << >>
       [] el = "hermite3" -> IF simp /\ dim = 2 THEN << 3, 0, 1 >>
                             ELSE IF ~simp /\ dim = 1 THEN << 2, 0 >>
                             ELSE IF ~simp /\ dim = 2 THEN << 3, 0, 4 >> ELSE << >>
       [] el = "argyris" -> IF simp /\ dim = 2 THEN << 6, 1, 0 >> ELSE << >>
       [] el = "bfs" -> IF ~simp /\ dim <= 2 THEN [z EXCEPT ![1] = Pow2(dim)] ELSE << >>
       [] el = "cdssy" -> IF ~simp /\ dim = 2 THEN << 0, 1, 1 >> ELSE << >>
       [] el = "q1tbnp" -> IF ~simp /\ dim = 2 THEN << 0, 1, 1 >> ELSE IF ~simp /\ dim = 3 THEN << 0, 0, 1, 3 >> ELSE << >>
Supported(el, fam, dim) == Sig(el, fam, dim) # << >>

\* conformity: "H1" (continuous), "NC" (continuous only in the facet means / midpoints), "L2" (none), "C1" (H2-type: also
\* H1-conforming; the derivative dofs are not probed for continuity of the normal derivative except by Argyris/BFS)
Conformity(el) ==
  CASE el \in {"lagrange1", "lagrange2", "lagrange3", "bernstein2", "p2bubble", "hermite3"} -> "H1"
    [] el \in {"argyris", "bfs"} -> "C1"
    [] el \in {"crorav", "cdssy", "q1tbnp"} -> "NC"
    [] OTHER -> "L2"
\* largest k such that the local space contains all polynomials of total degree <= k (affine cells)
PolyDegree(el) ==
  CASE el \in {"lagrange1", "discontinuous1", "crorav", "cdssy", "q1tbnp"} -> 1
    [] el \in {"lagrange2", "bernstein2", "p2bubble"} -> 2
    [] el \in {"lagrange3", "hermite3", "bfs"} -> 3
    [] el = "argyris" -> 5
    [] OTHER -> 0
\* are the spaces of a regularly refined mesh nested (V_H subset V_h)?  (needed by C18: prolongation = identity on V_H)
Nested(el, fam) ==
  el \in {"lagrange1", "lagrange2", "lagrange3", "discontinuous0", "bernstein2"} \/ (el = "discontinuous1" /\ fam = "simplex")

\* the part of the local space that is spanned by monomials: all monomials of total degree <= PolyDegree on every (affine or
\* multilinear) cell; for the tensor-product families on hypercubes additionally all monomials of degree <= TensorDegree per
\* variable on AXIS-PARALLEL cells (Q_k is not invariant under general affine maps).  Reproduce: interpolating any of these
\* monomials returns it.  If the number of monomials equals the number of local dofs, Reproduce is equivalent to
\* Dual (N_i(phi_j) = delta_ij) on such cells.
\* PARAMETRIC non-conforming families (Cai-Douglas-Santos-Sheen-Ye: "parametric finite element space", element.hpp): the local space is
\* the bilinear image of a reference space, so it contains P1 only on parallelograms; the harness offers the non-constant monomials
\* only on axis-parallel cells (flag t = 1)
ParametricNC == {"cdssy"}
TensorDegree(el, fam) ==
  IF fam # "hypercube" THEN 0
  ELSE CASE el = "lagrange1" -> 1 [] el \in {"lagrange2", "bernstein2"} -> 2 [] el \in {"lagrange3", "hermite3", "bfs"} -> 3 [] OTHER -> 0
RECURSIVE TupleSum(_, _)
TupleSum(e, k) == IF k = 0 THEN 0 ELSE e[k] + TupleSum(e, k - 1)
LocalMonomials(el, fam, dim) ==
  LET k == PolyDegree(el)  kq == TensorDegree(el, fam)  m == IF kq > k THEN kq ELSE k
      E == [1..dim -> 0..m]
      tot == {e \in E : TupleSum(e, dim) <= k}
      ten == {e \in E : TupleSum(e, dim) > k /\ \A a \in 1..dim : e[a] <= kq}
  IN IF el \in ParametricNC
     THEN [total |-> {e \in tot : TupleSum(e, dim) = 0}, tensor |-> {e \in tot : TupleSum(e, dim) > 0}]
     ELSE [total |-> tot, tensor |-> ten]
\* families whose node functionals are point evaluations at dyadic points of the cell (vertices, midpoints): on a mesh with dyadic
\* coordinates the interpolant of a monomial is reproduced bit-exactly, so Reproduce and Continuous are compared with ==
ExactInterp(el, fam) == el \in {"lagrange1", "lagrange2"} \/ (el = "discontinuous1" /\ fam = "simplex")

\* ---- (b) local dof layout ----------------------------------------------------------------------------------------------
RECURSIVE LayoutFrom(_, _, _, _, _, _)
LayoutFrom(sig, fam, dim, d, k, m) ==
  IF d > dim THEN << >>
  ELSE IF k >= NFaces(fam, dim, d) THEN LayoutFrom(sig, fam, dim, d + 1, 0, 0)
  ELSE IF m >= sig[d + 1] THEN LayoutFrom(sig, fam, dim, d, k + 1, 0)
  ELSE << <<d, k, m>> >> \o LayoutFrom(sig, fam, dim, d, k, m + 1)
Layout(sig, fam, dim) == LayoutFrom(sig, fam, dim, 0, 0, 0)
RECURSIVE SigSum(_, _, _, _)
SigSum(sig, fam, dim, d) == IF d < 0 THEN 0 ELSE sig[d + 1] * NFaces(fam, dim, d) + SigSum(sig, fam, dim, d - 1)
NumLocalDofs(sig, fam, dim) == SigSum(sig, fam, dim, dim)

\* ---- polynomials ---------------------------------------------------------------------------------------------------------
RECURSIVE IPow(_, _)
IPow(b, k) == IF k <= 0 THEN 1 ELSE b * IPow(b, k - 1)
Exps(dim, q) == [1..dim -> 0..q]
RECURSIVE ESum(_, _)
ESum(e, k) == IF k = 0 THEN 0 ELSE e[k] + ESum(e, k - 1)
TotalDeg(e) == ESum(e, Len(e))
PConst(dim, q, c) == TLCEval([e \in Exps(dim, q) |-> IF TotalDeg(e) = 0 THEN c ELSE 0])
PVar(dim, q, a) == TLCEval([e \in Exps(dim, q) |-> IF TotalDeg(e) = 1 /\ e[a] = 1 THEN 1 ELSE 0])
PAdd(p, r) == TLCEval([e \in DOMAIN p |-> p[e] + r[e]])
PScale(c, p) == TLCEval([e \in DOMAIN p |-> c * p[e]])
PSub(p, r) == PAdd(p, PScale(-1, r))
\* product (the factors must be such that the product stays inside the exponent box; PMulFits says so)
PMul(p, r) ==
  TLCEval([e \in DOMAIN p |-> MapThenSumSet(LAMBDA a : p[a] * r[[i \in DOMAIN e |-> e[i] - a[i]]],
                                            {a \in DOMAIN p : \A i \in DOMAIN e : a[i] <= e[i]})])
PDeg(p, v) == LET S == {e[v] : e \in {x \in DOMAIN p : p[x] # 0}} IN IF S = {} THEN 0 ELSE Max(S)
PMulFits(p, r, q) == \A v \in 1..Len(CHOOSE e \in DOMAIN p : TRUE) : PDeg(p, v) + PDeg(r, v) <= q
\* formal partial derivative with respect to variable v
PDiff(p, v, q) == TLCEval([e \in DOMAIN p |-> IF e[v] = q THEN 0 ELSE (e[v] + 1) * p[[e EXCEPT ![v] = e[v] + 1]]])
\* numerator of p(n / S) over S^D, D >= total degree of p
RECURSIVE MonoAt(_, _, _)
MonoAt(e, n, k) == IF k = 0 THEN 1 ELSE IPow(n[k], e[k]) * MonoAt(e, n, k - 1)
PEval(p, n, S, D) == MapThenSumSet(LAMBDA e : IF p[e] = 0 THEN 0 ELSE p[e] * MonoAt(e, n, Len(e)) * IPow(S, D - TotalDeg(e)), DOMAIN p)
\* tensor product of 1-D polynomials given as coefficient tuples f[a] = <<c0, c1, .., cq>>
PTensor(dim, q, f) == TLCEval([e \in Exps(dim, q) |-> LET c(a) == f[a][e[a] + 1] IN c(1) * (IF dim >= 2 THEN c(2) ELSE 1) * (IF dim >= 3 THEN c(3) ELSE 1)])

\* ---- reference vertices, barycentres ------------------------------------------------------------------------------------------
RefVertex(fam, dim, v) ==
  IF fam = "hypercube" THEN [a \in 1..dim |-> 2 * Bit(v, a - 1) - 1] ELSE [a \in 1..dim |-> IF v = a THEN 1 ELSE 0]
\* scale of the integer points: hypercube n/4 (lattice -4..4), simplex n/8; chosen such that the barycentres of all faces, and in
\* Transfer all fine nodes expressed in coarse reference coordinates, are integer tuples
PointScale(fam) == IF fam = "hypercube" THEN 4 ELSE 8
VSum(P, W) == [a \in 1..Len(P[1]) |-> MapThenSumSet(LAMBDA v : P[v + 1][a], W)]
\* barycentre of the local vertex set W (0-based local vertices) for vertex coordinates P (tuple over local vertices, integer points);
\* Divisible is the side condition that the result is an integer point
BaryOf(P, W) == LET s == TLCEval(VSum(P, W))  c == Cardinality(W) IN TLCEval([a \in 1..Len(s) |-> s[a] \div c])
BaryDivisible(P, W) == LET s == TLCEval(VSum(P, W))  c == Cardinality(W) IN \A a \in 1..Len(s) : s[a] % c = 0
RefVerts(fam, dim) == TLCEval([k \in 1..NVerts(fam, dim) |-> TLCEval([a \in 1..dim |-> PointScale(fam) * RefVertex(fam, dim, k - 1)[a]])])
LFaceSet(fam, dim, d, k) == TRange(FaceVerts(fam, dim, d, k))

\* ---- (c) exact bases ------------------------------------------------------------------------------------------------------------
ExactFamilies == {"lagrange1", "lagrange2", "discontinuous0", "discontinuous1", "crorav", "bernstein2"}
HasExactBasis(el, fam, dim) ==
  /\ Supported(el, fam, dim) /\ el \in ExactFamilies
  /\ el = "crorav" => fam = "simplex"            \* Rannacher-Turek (hypercube) is non-parametric: projection only
  /\ el = "discontinuous1" => fam = "simplex"    \* P1 on hypercubes: basis {1, x, y}: see DiscP1Cube below
\* exponent box and common denominator of the basis polynomials
BasisQ(el, fam) == IF el \in {"lagrange2", "bernstein2"} THEN 2 ELSE IF el = "discontinuous0" THEN 0 ELSE 1
BasisDen(el, fam, dim) ==
  IF fam = "simplex" THEN 1
  ELSE IF el = "bernstein2" THEN IPow(4, dim) ELSE IF el \in {"lagrange1", "lagrange2"} THEN IPow(2, dim) ELSE 1
\* bound of the total degree (for PEval)
BasisD(el, fam, dim) == IF fam = "simplex" THEN BasisQ(el, fam) ELSE dim * BasisQ(el, fam)

\* barycentric coordinate k of the simplex: lambda_0 = 1 - sum x, lambda_a = x_a
RECURSIVE SumVars(_, _, _)
SumVars(dim, q, a) == IF a = 0 THEN PConst(dim, q, 0) ELSE PAdd(PVar(dim, q, a), SumVars(dim, q, a - 1))
Lam(dim, q, k) == IF k = 0 THEN PSub(PConst(dim, q, 1), SumVars(dim, q, dim)) ELSE PVar(dim, q, k)

\* 1-D factors on [-1,1] (coefficients of 1, xi, xi^2)
L1lo == << 1, -1 >>   L1hi == << 1, 1 >>                       \* (1 -+ xi) / 2
L2lo == << 0, -1, 1 >>  L2hi == << 0, 1, 1 >>  L2mid == << 2, 0, -2 >>   \* xi(xi-1)/2, xi(xi+1)/2, 1 - xi^2   (over 2)
B2lo == << 1, -2, 1 >>  B2hi == << 1, 2, 1 >>  B2mid == << 2, 0, -2 >>   \* (1-xi)^2/4, (1+xi)^2/4, (1-xi^2)/2 (over 4)
\* state of axis a on the k-th local d-face of the hypercube: "lo" / "hi" (fixed) or "free"
AxisState(dim, d, k, a) ==
  LET F == LFaceSet("hypercube", dim, d, k) IN
    IF \E v, w \in F : Bit(v, a) # Bit(w, a) THEN "free" ELSE IF Bit(CHOOSE v \in F : TRUE, a) = 1 THEN "hi" ELSE "lo"

\* the basis function of local dof <<d, k, m>>
BasisPoly(el, fam, dim, dkm) ==
  LET d == dkm[1]  k == dkm[2]  m == dkm[3]  q == BasisQ(el, fam) IN
  IF fam = "simplex" THEN
    CASE el = "lagrange1" -> Lam(dim, q, k)
      [] el = "discontinuous1" -> Lam(dim, q, m)
      [] el = "discontinuous0" -> PConst(dim, q, 1)
      [] el = "crorav" -> PSub(PConst(dim, q, 1), PScale(dim, Lam(dim, q, k)))
      [] el = "lagrange2" ->
           IF d = 0 THEN LET l == Lam(dim, q, k) IN PSub(PScale(2, PMul(l, l)), l)
           ELSE LET ev == FaceVerts(fam, dim, 1, k) IN PScale(4, PMul(Lam(dim, q, ev[1]), Lam(dim, q, ev[2])))
  ELSE
    CASE el = "discontinuous0" -> PConst(dim, q, 1)
      [] el = "lagrange1" -> PTensor(dim, q, [a \in 1..dim |-> IF Bit(k, a - 1) = 1 THEN L1hi ELSE L1lo])
      [] el = "lagrange2" -> PTensor(dim, q, [a \in 1..dim |-> LET s == AxisState(dim, d, k, a - 1) IN
                                                              IF s = "free" THEN L2mid ELSE IF s = "hi" THEN L2hi ELSE L2lo])
      [] el = "bernstein2" -> PTensor(dim, q, [a \in 1..dim |-> LET s == AxisState(dim, d, k, a - 1) IN
                                                              IF s = "free" THEN B2mid ELSE IF s = "hi" THEN B2hi ELSE B2lo])

\* ---- (d) node functionals: sequence of local vertex sets; N(p) = mean over the sequence of p(barycentre of the set) -----------------
HasNodal(el, fam, dim) == HasExactBasis(el, fam, dim) /\ el # "bernstein2"
NodeSets(el, fam, dim, dkm) ==
  LET d == dkm[1]  k == dkm[2]  m == dkm[3] IN
  CASE el \in {"lagrange1", "lagrange2"} -> << LFaceSet(fam, dim, d, k) >>
    [] el = "discontinuous1" -> << {m} >>
    [] el = "crorav" -> LET fv == FaceVerts(fam, dim, dim - 1, k) IN [i \in 1..Len(fv) |-> {fv[i]}]
    [] el = "discontinuous0" -> [i \in 1..NVerts(fam, dim) |-> {i - 1}]
\* numerator of N(p) over  Len(sets) * S^D ; P = integer coordinates (scale S) of the local vertices
ApplyNode(sets, p, P, S, D) == FoldSeq(LAMBDA W, acc : acc + PEval(p, BaryOf(P, W), S, D), 0, sets)
NodeDivisible(sets, P) == \A i \in 1..Len(sets) : BaryDivisible(P, sets[i])

\* ---- (e) dimension 1: intervals ------------------------------------------------------------------------------------------------------------
\* Reference cells: hypercube [-1,1] (local vertex 0 at -1, 1 at +1), simplex [0,1] (local vertex 0 at 0, 1 at 1).  A cell with the
\* local vertex coordinates (x0, x1) is the image of  xi |-> (x0+x1)/2 + J xi,  J = (x1-x0)/2  (hypercube) resp.  x0 + J xi,  J = x1-x0
\* (simplex); the vertex pair of a cell may be stored in either order, so J is SIGNED (Trafo::Standard: jac_mat(0,0) = J, and
\* jac_det = vol(jac_mat) = |J|, kernel/util/tiny_algebra.hpp "for m = n the volume equals the absolute of the determinant").
\* A 1-D polynomial is given by its coefficient tuple <<c0, c1, c2, c3>> over the denominator Den1D; P1D turns it into a polynomial
\* of the algebra above (dim = 1, exponent box 0..3), so values / derivatives are PEval / PDiff (formal derivatives).
\* The basis function of the local dof <<d, k, m>> on the cell is   phi = J^e * p(xi),  e = 1 for the DERIVATIVE dofs of the C1 families
\* (Hermite-3, Bogner-Fox-Schmit: dof m = 1 of a vertex is the derivative d/dx in PHYSICAL coordinates - the only reading under
\* which the two cells sharing the vertex mean the same functional, whatever their orientation), e = 0 otherwise.
Q1D == 3
P1D(c) == TLCEval([e \in Exps(1, Q1D) |-> c[e[1] + 1]])
Den1D(el) == CASE el \in {"lagrange1", "lagrange2"} -> 2 [] el \in {"bernstein2", "hermite3", "bfs"} -> 4 [] el = "lagrange3" -> 16 [] OTHER -> 1
Coeffs1D(el, fam, dkm) ==
  LET d == dkm[1]  k == dkm[2]  m == dkm[3] IN
  IF fam = "simplex" THEN
    CASE el = "discontinuous0" -> << 1, 0, 0, 0 >>
      [] el = "discontinuous1" -> IF m = 0 THEN << 1, -1, 0, 0 >> ELSE << 0, 1, 0, 0 >>              \* barycentric coordinates 1 - xi, xi
  ELSE
    CASE el = "discontinuous0" -> << 1, 0, 0, 0 >>
      [] el = "discontinuous1" -> IF m = 0 THEN << 1, 0, 0, 0 >> ELSE << 0, 1, 0, 0 >>               \* 1, xi
      [] el = "lagrange1" -> IF k = 0 THEN << 1, -1, 0, 0 >> ELSE << 1, 1, 0, 0 >>                   \* (1 -+ xi) / 2
      [] el = "lagrange2" -> IF d = 1 THEN << 2, 0, -2, 0 >> ELSE IF k = 0 THEN << 0, -1, 1, 0 >> ELSE << 0, 1, 1, 0 >>
      [] el = "bernstein2" -> IF d = 1 THEN << 2, 0, -2, 0 >> ELSE IF k = 0 THEN << 1, -2, 1, 0 >> ELSE << 1, 2, 1, 0 >>
      \* Lagrange-3: nodes -1, +1 (vertices), -1/3, +1/3 (the two dofs of the cell, in the cell's own reference direction)
      [] el = "lagrange3" -> IF d = 0 THEN (IF k = 0 THEN << -1, 1, 9, -9 >> ELSE << -1, -1, 9, 9 >>)
                             ELSE (IF m = 0 THEN << 9, -27, -9, 27 >> ELSE << 9, 27, -9, -27 >>)
      \* cubic Hermite: value dof  (2 -+ 3 xi +- xi^3)/4,  derivative dof  (xi +- 1)(xi -+ 1)^2 / 4
      [] el \in {"hermite3", "bfs"} ->
           IF k = 0 THEN (IF m = 0 THEN << 2, -3, 0, 1 >> ELSE << 1, -1, -1, 1 >>)
                    ELSE (IF m = 0 THEN << 2, 3, 0, -1 >> ELSE << -1, -1, 1, 1 >>)
Basis1D(el, fam, dkm) == P1D(Coeffs1D(el, fam, dkm))
DerivDof1D(el, dkm) == el \in {"hermite3", "bfs"} /\ dkm[3] = 1
\* node functionals: N(u) = (1 / WDen1D) * sum_t w_t * (d/dx)^ord u (x(n_t / 12)),  n_t = reference coordinate of the point over 12
\* (so that the thirds of Lagrange-3 are integers); the derivative is the PHYSICAL one.  All terms of one functional have the same ord.
NodeScale1D == 12
WDen1D(el) == IF el \in {"bernstein2"} \/ el = "discontinuous1" THEN 2 ELSE 1
NodeTerms1D(el, fam, dkm) ==
  LET d == dkm[1]  k == dkm[2]  m == dkm[3]
      lo == IF fam = "hypercube" THEN -12 ELSE 0
      mid == IF fam = "hypercube" THEN 0 ELSE 6
      vtx(v) == IF v = 0 THEN lo ELSE 12
      T(w, o, n) == [w |-> w, ord |-> o, n |-> n]
  IN CASE el \in {"lagrange1", "lagrange2"} -> << T(1, 0, IF d = 0 THEN vtx(k) ELSE mid) >>
       [] el = "lagrange3" -> << T(1, 0, IF d = 0 THEN vtx(k) ELSE IF m = 0 THEN -4 ELSE 4) >>
       [] el = "discontinuous0" -> << T(1, 0, mid) >>
       \* P1dc: simplex - the values in the vertices; hypercube - the value in the midpoint and half the difference of the end values
       [] el = "discontinuous1" -> IF fam = "simplex" THEN << T(2, 0, vtx(m)) >>
                                   ELSE IF m = 0 THEN << T(2, 0, mid) >> ELSE << T(1, 0, 12), T(-1, 0, -12) >>
       \* Bernstein-2: the coefficients of the Bernstein expansion of a quadratic: b_v = u(x_v), b_mid = 2 u(mid) - (u(x_0) + u(x_1)) / 2
       \* (FEAT realises b_mid by an integral against the dual polynomial; the two agree on the local space P2, where Dual is stated)
       [] el = "bernstein2" -> IF d = 0 THEN << T(2, 0, vtx(k)) >> ELSE << T(4, 0, mid), T(-1, 0, lo), T(-1, 0, 12) >>
       [] el \in {"hermite3", "bfs"} -> << T(1, m, vtx(k)) >>
\* Bogner-Fox-Schmit has no NodeFunctional class (Space::BognerFoxSchmit::Element::have_node_func = false): its functionals exist
\* in the specification only (Dual is decided through the exact basis tables)
HasNodeFunc1D(el) == el # "bfs"
\* in one dimension the cubic Hermite spaces are C1; point-value Lagrange / Bernstein spaces are C0
Conformity1D(el) ==
  CASE el \in {"hermite3", "bfs"} -> "C1" [] el \in {"lagrange1", "lagrange2", "lagrange3", "bernstein2"} -> "H1" [] OTHER -> "L2"

\* ---- tables, evaluated once per (el, fam, dim) ------------------------------------------------------------------------------------------
\* record with everything Transfer / ElementCheck need for one exact family
FamilyTable(el, fam, dim) ==
  LET sig == Sig(el, fam, dim)
      lay == Layout(sig, fam, dim)
      q == BasisQ(el, fam)
  IN [el |-> el, fam |-> fam, dim |-> dim, sig |-> sig, layout |-> lay, q |-> q,
      den |-> BasisDen(el, fam, dim), D |-> BasisD(el, fam, dim), S |-> PointScale(fam),
      basis |-> TLCEval([j \in 1..Len(lay) |-> BasisPoly(el, fam, dim, lay[j])]),
      nodes |-> IF HasNodal(el, fam, dim) THEN TLCEval([j \in 1..Len(lay) |-> TLCEval(NodeSets(el, fam, dim, lay[j]))]) ELSE << >>]
GradOf(T, j) == TLCEval([a \in 1..T.dim |-> PDiff(T.basis[j], a, T.q)])
HessOf(T, j) == TLCEval([a \in 1..T.dim |-> TLCEval([b \in 1..T.dim |-> PDiff(PDiff(T.basis[j], a, T.q), b, T.q)])])

\* ---- properties of the tables themselves (model checked by RefElementSanity) --------------------------------------------------------------
\* duality N_i(phi_j) = delta_ij in exact arithmetic
Dual(T) ==
  LET P == RefVerts(T.fam, T.dim) IN
  \A i, j \in 1..Len(T.layout) :
    /\ NodeDivisible(T.nodes[i], P)
    /\ ApplyNode(T.nodes[i], T.basis[j], P, T.S, T.D) = (IF i = j THEN T.den * Len(T.nodes[i]) * IPow(T.S, T.D) ELSE 0)
\* partition of unity (Lagrange, Bernstein, Discontinuous-0): sum_j phi_j = 1
RECURSIVE PSumSeq(_, _)
PSumSeq(s, k) == IF k = 1 THEN s[1] ELSE PAdd(s[k], PSumSeq(s, k - 1))
PartitionOfUnity(T) == PSumSeq(T.basis, Len(T.basis)) = PConst(T.dim, T.q, T.den)
\* symmetry of second derivatives (sanity of PDiff)
HessSymmetric(T) == \A j \in 1..Len(T.layout) : \A a, b \in 1..T.dim : HessOf(T, j)[a][b] = HessOf(T, j)[b][a]
=============================================================================
